c01/Extract.vo c01/Extract.glob c01/Extract.v.beautified c01/Extract.required_vo: c01/Extract.v c01/Spec.vo
c01/Extract.vio: c01/Extract.v c01/Spec.vio
c01/Extract.vos c01/Extract.vok c01/Extract.required_vos: c01/Extract.v c01/Spec.vos
c01/Model.vo c01/Model.glob c01/Model.v.beautified c01/Model.required_vo: c01/Model.v 
c01/Model.vio: c01/Model.v 
c01/Model.vos c01/Model.vok c01/Model.required_vos: c01/Model.v 
c01/ModelTLS.vo c01/ModelTLS.glob c01/ModelTLS.v.beautified c01/ModelTLS.required_vo: c01/ModelTLS.v c01/Model.vo
c01/ModelTLS.vio: c01/ModelTLS.v c01/Model.vio
c01/ModelTLS.vos c01/ModelTLS.vok c01/ModelTLS.required_vos: c01/ModelTLS.v c01/Model.vos
c01/Proofs.vo c01/Proofs.glob c01/Proofs.v.beautified c01/Proofs.required_vo: c01/Proofs.v lib/Wire.vo c08/SymCrypto.vo c01/Model.vo c01/Spec.vo
c01/Proofs.vio: c01/Proofs.v lib/Wire.vio c08/SymCrypto.vio c01/Model.vio c01/Spec.vio
c01/Proofs.vos c01/Proofs.vok c01/Proofs.required_vos: c01/Proofs.v lib/Wire.vos c08/SymCrypto.vos c01/Model.vos c01/Spec.vos
c01/Proofs_enum.vo c01/Proofs_enum.glob c01/Proofs_enum.v.beautified c01/Proofs_enum.required_vo: c01/Proofs_enum.v lib/Wire.vo c01/Model.vo c01/Spec.vo c01/Proofs.vo
c01/Proofs_enum.vio: c01/Proofs_enum.v lib/Wire.vio c01/Model.vio c01/Spec.vio c01/Proofs.vio
c01/Proofs_enum.vos c01/Proofs_enum.vok c01/Proofs_enum.required_vos: c01/Proofs_enum.v lib/Wire.vos c01/Model.vos c01/Spec.vos c01/Proofs.vos
c01/Proofs_tls.vo c01/Proofs_tls.glob c01/Proofs_tls.v.beautified c01/Proofs_tls.required_vo: c01/Proofs_tls.v lib/Wire.vo c01/Model.vo c01/ModelTLS.vo c01/Spec.vo c01/Proofs.vo
c01/Proofs_tls.vio: c01/Proofs_tls.v lib/Wire.vio c01/Model.vio c01/ModelTLS.vio c01/Spec.vio c01/Proofs.vio
c01/Proofs_tls.vos c01/Proofs_tls.vok c01/Proofs_tls.required_vos: c01/Proofs_tls.v lib/Wire.vos c01/Model.vos c01/ModelTLS.vos c01/Spec.vos c01/Proofs.vos
c01/Properties.vo c01/Properties.glob c01/Properties.v.beautified c01/Properties.required_vo: c01/Properties.v lib/Wire.vo c01/Model.vo c01/ModelTLS.vo c01/Spec.vo c01/Proofs.vo c01/Proofs_enum.vo c01/Proofs_tls.vo gen/Consts_c01.vo
c01/Properties.vio: c01/Properties.v lib/Wire.vio c01/Model.vio c01/ModelTLS.vio c01/Spec.vio c01/Proofs.vio c01/Proofs_enum.vio c01/Proofs_tls.vio gen/Consts_c01.vio
c01/Properties.vos c01/Properties.vok c01/Properties.required_vos: c01/Properties.v lib/Wire.vos c01/Model.vos c01/ModelTLS.vos c01/Spec.vos c01/Proofs.vos c01/Proofs_enum.vos c01/Proofs_tls.vos gen/Consts_c01.vos
c01/Spec.vo c01/Spec.glob c01/Spec.v.beautified c01/Spec.required_vo: c01/Spec.v lib/Wire.vo c01/Model.vo c01/ModelTLS.vo
c01/Spec.vio: c01/Spec.v lib/Wire.vio c01/Model.vio c01/ModelTLS.vio
c01/Spec.vos c01/Spec.vok c01/Spec.required_vos: c01/Spec.v lib/Wire.vos c01/Model.vos c01/ModelTLS.vos
c02/Extract.vo c02/Extract.glob c02/Extract.v.beautified c02/Extract.required_vo: c02/Extract.v c02/Spec.vo
c02/Extract.vio: c02/Extract.v c02/Spec.vio
c02/Extract.vos c02/Extract.vok c02/Extract.required_vos: c02/Extract.v c02/Spec.vos
c02/Framing.vo c02/Framing.glob c02/Framing.v.beautified c02/Framing.required_vo: c02/Framing.v 
c02/Framing.vio: c02/Framing.v 
c02/Framing.vos c02/Framing.vok c02/Framing.required_vos: c02/Framing.v 
c02/Model.vo c02/Model.glob c02/Model.v.beautified c02/Model.required_vo: c02/Model.v 
c02/Model.vio: c02/Model.v 
c02/Model.vos c02/Model.vok c02/Model.required_vos: c02/Model.v 
c02/Proofs.vo c02/Proofs.glob c02/Proofs.v.beautified c02/Proofs.required_vo: c02/Proofs.v c02/Model.vo
c02/Proofs.vio: c02/Proofs.v c02/Model.vio
c02/Proofs.vos c02/Proofs.vok c02/Proofs.required_vos: c02/Proofs.v c02/Model.vos
c02/Proofs_Mon.vo c02/Proofs_Mon.glob c02/Proofs_Mon.v.beautified c02/Proofs_Mon.required_vo: c02/Proofs_Mon.v lib/Wire.vo c02/Model.vo c02/Spec.vo c02/Proofs.vo gen/Consts_c02.vo
c02/Proofs_Mon.vio: c02/Proofs_Mon.v lib/Wire.vio c02/Model.vio c02/Spec.vio c02/Proofs.vio gen/Consts_c02.vio
c02/Proofs_Mon.vos c02/Proofs_Mon.vok c02/Proofs_Mon.required_vos: c02/Proofs_Mon.v lib/Wire.vos c02/Model.vos c02/Spec.vos c02/Proofs.vos gen/Consts_c02.vos
c02/Properties.vo c02/Properties.glob c02/Properties.v.beautified c02/Properties.required_vo: c02/Properties.v lib/Wire.vo c02/Model.vo c02/Spec.vo c02/Proofs.vo c02/Proofs_Mon.vo c02/Framing.vo c02/Streams.vo gen/Consts_c02.vo
c02/Properties.vio: c02/Properties.v lib/Wire.vio c02/Model.vio c02/Spec.vio c02/Proofs.vio c02/Proofs_Mon.vio c02/Framing.vio c02/Streams.vio gen/Consts_c02.vio
c02/Properties.vos c02/Properties.vok c02/Properties.required_vos: c02/Properties.v lib/Wire.vos c02/Model.vos c02/Spec.vos c02/Proofs.vos c02/Proofs_Mon.vos c02/Framing.vos c02/Streams.vos gen/Consts_c02.vos
c02/Spec.vo c02/Spec.glob c02/Spec.v.beautified c02/Spec.required_vo: c02/Spec.v lib/Wire.vo c02/Model.vo gen/Consts_c02.vo
c02/Spec.vio: c02/Spec.v lib/Wire.vio c02/Model.vio gen/Consts_c02.vio
c02/Spec.vos c02/Spec.vok c02/Spec.required_vos: c02/Spec.v lib/Wire.vos c02/Model.vos gen/Consts_c02.vos
c02/Streams.vo c02/Streams.glob c02/Streams.v.beautified c02/Streams.required_vo: c02/Streams.v 
c02/Streams.vio: c02/Streams.v 
c02/Streams.vos c02/Streams.vok c02/Streams.required_vos: c02/Streams.v 
c03/Extract.vo c03/Extract.glob c03/Extract.v.beautified c03/Extract.required_vo: c03/Extract.v c03/Spec.vo
c03/Extract.vio: c03/Extract.v c03/Spec.vio
c03/Extract.vos c03/Extract.vok c03/Extract.required_vos: c03/Extract.v c03/Spec.vos
c03/Int64.vo c03/Int64.glob c03/Int64.v.beautified c03/Int64.required_vo: c03/Int64.v 
c03/Int64.vio: c03/Int64.v 
c03/Int64.vos c03/Int64.vok c03/Int64.required_vos: c03/Int64.v 
c03/Model.vo c03/Model.glob c03/Model.v.beautified c03/Model.required_vo: c03/Model.v c03/Int64.vo
c03/Model.vio: c03/Model.v c03/Int64.vio
c03/Model.vos c03/Model.vok c03/Model.required_vos: c03/Model.v c03/Int64.vos
c03/Proofs_Attach.vo c03/Proofs_Attach.glob c03/Proofs_Attach.v.beautified c03/Proofs_Attach.required_vo: c03/Proofs_Attach.v lib/Wire.vo c03/Int64.vo c03/Model.vo c03/Spec.vo c03/Proofs_Int64.vo c03/Proofs_Base.vo c03/Proofs_Sum.vo c03/Proofs_Reach.vo c03/Proofs_Link.vo c03/Proofs_Targets.vo c03/Proofs_Frames.vo c03/Proofs_Frames2.vo c03/Proofs_Frames3.vo c03/Proofs_Kill.vo c03/Proofs_OpsMem.vo c03/Proofs_OpsNew.vo c03/Proofs_Repar.vo c03/Proofs_Repar2.vo c03/Proofs_Move.vo
c03/Proofs_Attach.vio: c03/Proofs_Attach.v lib/Wire.vio c03/Int64.vio c03/Model.vio c03/Spec.vio c03/Proofs_Int64.vio c03/Proofs_Base.vio c03/Proofs_Sum.vio c03/Proofs_Reach.vio c03/Proofs_Link.vio c03/Proofs_Targets.vio c03/Proofs_Frames.vio c03/Proofs_Frames2.vio c03/Proofs_Frames3.vio c03/Proofs_Kill.vio c03/Proofs_OpsMem.vio c03/Proofs_OpsNew.vio c03/Proofs_Repar.vio c03/Proofs_Repar2.vio c03/Proofs_Move.vio
c03/Proofs_Attach.vos c03/Proofs_Attach.vok c03/Proofs_Attach.required_vos: c03/Proofs_Attach.v lib/Wire.vos c03/Int64.vos c03/Model.vos c03/Spec.vos c03/Proofs_Int64.vos c03/Proofs_Base.vos c03/Proofs_Sum.vos c03/Proofs_Reach.vos c03/Proofs_Link.vos c03/Proofs_Targets.vos c03/Proofs_Frames.vos c03/Proofs_Frames2.vos c03/Proofs_Frames3.vos c03/Proofs_Kill.vos c03/Proofs_OpsMem.vos c03/Proofs_OpsNew.vos c03/Proofs_Repar.vos c03/Proofs_Repar2.vos c03/Proofs_Move.vos
c03/Proofs_Attach1.vo c03/Proofs_Attach1.glob c03/Proofs_Attach1.v.beautified c03/Proofs_Attach1.required_vo: c03/Proofs_Attach1.v lib/Wire.vo c03/Int64.vo c03/Model.vo c03/Spec.vo c03/Proofs_Int64.vo c03/Proofs_Base.vo c03/Proofs_Sum.vo c03/Proofs_Reach.vo c03/Proofs_Link.vo c03/Proofs_Targets.vo c03/Proofs_Frames.vo c03/Proofs_Frames2.vo c03/Proofs_Frames3.vo c03/Proofs_Kill.vo c03/Proofs_OpsMem.vo c03/Proofs_OpsNew.vo c03/Proofs_Repar.vo c03/Proofs_Repar2.vo c03/Proofs_Move.vo c03/Proofs_Attach.vo
c03/Proofs_Attach1.vio: c03/Proofs_Attach1.v lib/Wire.vio c03/Int64.vio c03/Model.vio c03/Spec.vio c03/Proofs_Int64.vio c03/Proofs_Base.vio c03/Proofs_Sum.vio c03/Proofs_Reach.vio c03/Proofs_Link.vio c03/Proofs_Targets.vio c03/Proofs_Frames.vio c03/Proofs_Frames2.vio c03/Proofs_Frames3.vio c03/Proofs_Kill.vio c03/Proofs_OpsMem.vio c03/Proofs_OpsNew.vio c03/Proofs_Repar.vio c03/Proofs_Repar2.vio c03/Proofs_Move.vio c03/Proofs_Attach.vio
c03/Proofs_Attach1.vos c03/Proofs_Attach1.vok c03/Proofs_Attach1.required_vos: c03/Proofs_Attach1.v lib/Wire.vos c03/Int64.vos c03/Model.vos c03/Spec.vos c03/Proofs_Int64.vos c03/Proofs_Base.vos c03/Proofs_Sum.vos c03/Proofs_Reach.vos c03/Proofs_Link.vos c03/Proofs_Targets.vos c03/Proofs_Frames.vos c03/Proofs_Frames2.vos c03/Proofs_Frames3.vos c03/Proofs_Kill.vos c03/Proofs_OpsMem.vos c03/Proofs_OpsNew.vos c03/Proofs_Repar.vos c03/Proofs_Repar2.vos c03/Proofs_Move.vos c03/Proofs_Attach.vos
c03/Proofs_Base.vo c03/Proofs_Base.glob c03/Proofs_Base.v.beautified c03/Proofs_Base.required_vo: c03/Proofs_Base.v c03/Int64.vo c03/Model.vo c03/Spec.vo c03/Proofs_Int64.vo
c03/Proofs_Base.vio: c03/Proofs_Base.v c03/Int64.vio c03/Model.vio c03/Spec.vio c03/Proofs_Int64.vio
c03/Proofs_Base.vos c03/Proofs_Base.vok c03/Proofs_Base.required_vos: c03/Proofs_Base.v c03/Int64.vos c03/Model.vos c03/Spec.vos c03/Proofs_Int64.vos
c03/Proofs_Cap.vo c03/Proofs_Cap.glob c03/Proofs_Cap.v.beautified c03/Proofs_Cap.required_vo: c03/Proofs_Cap.v lib/Wire.vo c03/Int64.vo c03/Model.vo c03/Spec.vo
c03/Proofs_Cap.vio: c03/Proofs_Cap.v lib/Wire.vio c03/Int64.vio c03/Model.vio c03/Spec.vio
c03/Proofs_Cap.vos c03/Proofs_Cap.vok c03/Proofs_Cap.required_vos: c03/Proofs_Cap.v lib/Wire.vos c03/Int64.vos c03/Model.vos c03/Spec.vos
c03/Proofs_CapInv.vo c03/Proofs_CapInv.glob c03/Proofs_CapInv.v.beautified c03/Proofs_CapInv.required_vo: c03/Proofs_CapInv.v lib/Wire.vo c03/Int64.vo c03/Model.vo c03/Spec.vo c03/Proofs_Int64.vo c03/Proofs_Base.vo c03/Proofs_Sum.vo c03/Proofs_Reach.vo c03/Proofs_Link.vo c03/Proofs_Targets.vo c03/Proofs_Frames.vo c03/Proofs_Frames2.vo c03/Proofs_Frames3.vo c03/Proofs_Kill.vo c03/Proofs_OpsMem.vo c03/Proofs_Done.vo c03/Proofs_OpsDone.vo c03/Proofs_OpsNew.vo c03/Proofs_OpsOpen.vo c03/Proofs_Hist.vo c03/Proofs_Mon.vo c03/Proofs_Limiter.vo c03/Proofs_Link2.vo c03/Proofs_Transfer.vo c03/Proofs_OpsRepar.vo c03/Proofs_SetPeer.vo c03/Proofs_Hist2.vo c03/Proofs_Mon2.vo c03/Proofs_Keys.vo c03/Proofs_Refs.vo c03/Proofs_RefInv.vo c03/Proofs_GC.vo c03/Proofs_Cap.vo
c03/Proofs_CapInv.vio: c03/Proofs_CapInv.v lib/Wire.vio c03/Int64.vio c03/Model.vio c03/Spec.vio c03/Proofs_Int64.vio c03/Proofs_Base.vio c03/Proofs_Sum.vio c03/Proofs_Reach.vio c03/Proofs_Link.vio c03/Proofs_Targets.vio c03/Proofs_Frames.vio c03/Proofs_Frames2.vio c03/Proofs_Frames3.vio c03/Proofs_Kill.vio c03/Proofs_OpsMem.vio c03/Proofs_Done.vio c03/Proofs_OpsDone.vio c03/Proofs_OpsNew.vio c03/Proofs_OpsOpen.vio c03/Proofs_Hist.vio c03/Proofs_Mon.vio c03/Proofs_Limiter.vio c03/Proofs_Link2.vio c03/Proofs_Transfer.vio c03/Proofs_OpsRepar.vio c03/Proofs_SetPeer.vio c03/Proofs_Hist2.vio c03/Proofs_Mon2.vio c03/Proofs_Keys.vio c03/Proofs_Refs.vio c03/Proofs_RefInv.vio c03/Proofs_GC.vio c03/Proofs_Cap.vio
c03/Proofs_CapInv.vos c03/Proofs_CapInv.vok c03/Proofs_CapInv.required_vos: c03/Proofs_CapInv.v lib/Wire.vos c03/Int64.vos c03/Model.vos c03/Spec.vos c03/Proofs_Int64.vos c03/Proofs_Base.vos c03/Proofs_Sum.vos c03/Proofs_Reach.vos c03/Proofs_Link.vos c03/Proofs_Targets.vos c03/Proofs_Frames.vos c03/Proofs_Frames2.vos c03/Proofs_Frames3.vos c03/Proofs_Kill.vos c03/Proofs_OpsMem.vos c03/Proofs_Done.vos c03/Proofs_OpsDone.vos c03/Proofs_OpsNew.vos c03/Proofs_OpsOpen.vos c03/Proofs_Hist.vos c03/Proofs_Mon.vos c03/Proofs_Limiter.vos c03/Proofs_Link2.vos c03/Proofs_Transfer.vos c03/Proofs_OpsRepar.vos c03/Proofs_SetPeer.vos c03/Proofs_Hist2.vos c03/Proofs_Mon2.vos c03/Proofs_Keys.vos c03/Proofs_Refs.vos c03/Proofs_RefInv.vos c03/Proofs_GC.vos c03/Proofs_Cap.vos
c03/Proofs_Done.vo c03/Proofs_Done.glob c03/Proofs_Done.v.beautified c03/Proofs_Done.required_vo: c03/Proofs_Done.v lib/Wire.vo c03/Int64.vo c03/Model.vo c03/Spec.vo c03/Proofs_Int64.vo c03/Proofs_Base.vo c03/Proofs_Sum.vo c03/Proofs_Reach.vo c03/Proofs_Link.vo c03/Proofs_Targets.vo c03/Proofs_Frames.vo c03/Proofs_Frames2.vo c03/Proofs_Frames3.vo c03/Proofs_Kill.vo c03/Proofs_OpsMem.vo
c03/Proofs_Done.vio: c03/Proofs_Done.v lib/Wire.vio c03/Int64.vio c03/Model.vio c03/Spec.vio c03/Proofs_Int64.vio c03/Proofs_Base.vio c03/Proofs_Sum.vio c03/Proofs_Reach.vio c03/Proofs_Link.vio c03/Proofs_Targets.vio c03/Proofs_Frames.vio c03/Proofs_Frames2.vio c03/Proofs_Frames3.vio c03/Proofs_Kill.vio c03/Proofs_OpsMem.vio
c03/Proofs_Done.vos c03/Proofs_Done.vok c03/Proofs_Done.required_vos: c03/Proofs_Done.v lib/Wire.vos c03/Int64.vos c03/Model.vos c03/Spec.vos c03/Proofs_Int64.vos c03/Proofs_Base.vos c03/Proofs_Sum.vos c03/Proofs_Reach.vos c03/Proofs_Link.vos c03/Proofs_Targets.vos c03/Proofs_Frames.vos c03/Proofs_Frames2.vos c03/Proofs_Frames3.vos c03/Proofs_Kill.vos c03/Proofs_OpsMem.vos
c03/Proofs_Frames.vo c03/Proofs_Frames.glob c03/Proofs_Frames.v.beautified c03/Proofs_Frames.required_vo: c03/Proofs_Frames.v lib/Wire.vo c03/Int64.vo c03/Model.vo c03/Spec.vo c03/Proofs_Int64.vo c03/Proofs_Base.vo c03/Proofs_Sum.vo c03/Proofs_Reach.vo c03/Proofs_Link.vo c03/Proofs_Targets.vo
c03/Proofs_Frames.vio: c03/Proofs_Frames.v lib/Wire.vio c03/Int64.vio c03/Model.vio c03/Spec.vio c03/Proofs_Int64.vio c03/Proofs_Base.vio c03/Proofs_Sum.vio c03/Proofs_Reach.vio c03/Proofs_Link.vio c03/Proofs_Targets.vio
c03/Proofs_Frames.vos c03/Proofs_Frames.vok c03/Proofs_Frames.required_vos: c03/Proofs_Frames.v lib/Wire.vos c03/Int64.vos c03/Model.vos c03/Spec.vos c03/Proofs_Int64.vos c03/Proofs_Base.vos c03/Proofs_Sum.vos c03/Proofs_Reach.vos c03/Proofs_Link.vos c03/Proofs_Targets.vos
c03/Proofs_Frames2.vo c03/Proofs_Frames2.glob c03/Proofs_Frames2.v.beautified c03/Proofs_Frames2.required_vo: c03/Proofs_Frames2.v lib/Wire.vo c03/Int64.vo c03/Model.vo c03/Spec.vo c03/Proofs_Int64.vo c03/Proofs_Base.vo c03/Proofs_Sum.vo c03/Proofs_Reach.vo c03/Proofs_Link.vo c03/Proofs_Targets.vo c03/Proofs_Frames.vo
c03/Proofs_Frames2.vio: c03/Proofs_Frames2.v lib/Wire.vio c03/Int64.vio c03/Model.vio c03/Spec.vio c03/Proofs_Int64.vio c03/Proofs_Base.vio c03/Proofs_Sum.vio c03/Proofs_Reach.vio c03/Proofs_Link.vio c03/Proofs_Targets.vio c03/Proofs_Frames.vio
c03/Proofs_Frames2.vos c03/Proofs_Frames2.vok c03/Proofs_Frames2.required_vos: c03/Proofs_Frames2.v lib/Wire.vos c03/Int64.vos c03/Model.vos c03/Spec.vos c03/Proofs_Int64.vos c03/Proofs_Base.vos c03/Proofs_Sum.vos c03/Proofs_Reach.vos c03/Proofs_Link.vos c03/Proofs_Targets.vos c03/Proofs_Frames.vos
c03/Proofs_Frames3.vo c03/Proofs_Frames3.glob c03/Proofs_Frames3.v.beautified c03/Proofs_Frames3.required_vo: c03/Proofs_Frames3.v lib/Wire.vo c03/Int64.vo c03/Model.vo c03/Spec.vo c03/Proofs_Int64.vo c03/Proofs_Base.vo c03/Proofs_Sum.vo c03/Proofs_Reach.vo c03/Proofs_Link.vo c03/Proofs_Targets.vo c03/Proofs_Frames.vo c03/Proofs_Frames2.vo
c03/Proofs_Frames3.vio: c03/Proofs_Frames3.v lib/Wire.vio c03/Int64.vio c03/Model.vio c03/Spec.vio c03/Proofs_Int64.vio c03/Proofs_Base.vio c03/Proofs_Sum.vio c03/Proofs_Reach.vio c03/Proofs_Link.vio c03/Proofs_Targets.vio c03/Proofs_Frames.vio c03/Proofs_Frames2.vio
c03/Proofs_Frames3.vos c03/Proofs_Frames3.vok c03/Proofs_Frames3.required_vos: c03/Proofs_Frames3.v lib/Wire.vos c03/Int64.vos c03/Model.vos c03/Spec.vos c03/Proofs_Int64.vos c03/Proofs_Base.vos c03/Proofs_Sum.vos c03/Proofs_Reach.vos c03/Proofs_Link.vos c03/Proofs_Targets.vos c03/Proofs_Frames.vos c03/Proofs_Frames2.vos
c03/Proofs_Full.vo c03/Proofs_Full.glob c03/Proofs_Full.v.beautified c03/Proofs_Full.required_vo: c03/Proofs_Full.v lib/Wire.vo c03/Int64.vo c03/Model.vo c03/Spec.vo c03/Proofs_Int64.vo c03/Proofs_Base.vo c03/Proofs_Sum.vo c03/Proofs_Reach.vo c03/Proofs_Link.vo c03/Proofs_Targets.vo c03/Proofs_Frames.vo c03/Proofs_Frames2.vo c03/Proofs_Frames3.vo c03/Proofs_Kill.vo c03/Proofs_OpsMem.vo c03/Proofs_Done.vo c03/Proofs_OpsDone.vo c03/Proofs_OpsNew.vo c03/Proofs_OpsOpen.vo c03/Proofs_Hist.vo c03/Proofs_Mon.vo c03/Proofs_Link2.vo c03/Proofs_Transfer.vo c03/Proofs_OpsRepar.vo c03/Proofs_SetPeer.vo c03/Proofs_Hist2.vo c03/Proofs_Mon2.vo c03/Proofs_Keys.vo c03/Proofs_Refs.vo c03/Proofs_RefInv.vo c03/Proofs_GC.vo c03/Proofs_Prio.vo c03/Proofs_Cap.vo c03/Proofs_CapInv.vo c03/Proofs_Just.vo c03/Proofs_Just2.vo
c03/Proofs_Full.vio: c03/Proofs_Full.v lib/Wire.vio c03/Int64.vio c03/Model.vio c03/Spec.vio c03/Proofs_Int64.vio c03/Proofs_Base.vio c03/Proofs_Sum.vio c03/Proofs_Reach.vio c03/Proofs_Link.vio c03/Proofs_Targets.vio c03/Proofs_Frames.vio c03/Proofs_Frames2.vio c03/Proofs_Frames3.vio c03/Proofs_Kill.vio c03/Proofs_OpsMem.vio c03/Proofs_Done.vio c03/Proofs_OpsDone.vio c03/Proofs_OpsNew.vio c03/Proofs_OpsOpen.vio c03/Proofs_Hist.vio c03/Proofs_Mon.vio c03/Proofs_Link2.vio c03/Proofs_Transfer.vio c03/Proofs_OpsRepar.vio c03/Proofs_SetPeer.vio c03/Proofs_Hist2.vio c03/Proofs_Mon2.vio c03/Proofs_Keys.vio c03/Proofs_Refs.vio c03/Proofs_RefInv.vio c03/Proofs_GC.vio c03/Proofs_Prio.vio c03/Proofs_Cap.vio c03/Proofs_CapInv.vio c03/Proofs_Just.vio c03/Proofs_Just2.vio
c03/Proofs_Full.vos c03/Proofs_Full.vok c03/Proofs_Full.required_vos: c03/Proofs_Full.v lib/Wire.vos c03/Int64.vos c03/Model.vos c03/Spec.vos c03/Proofs_Int64.vos c03/Proofs_Base.vos c03/Proofs_Sum.vos c03/Proofs_Reach.vos c03/Proofs_Link.vos c03/Proofs_Targets.vos c03/Proofs_Frames.vos c03/Proofs_Frames2.vos c03/Proofs_Frames3.vos c03/Proofs_Kill.vos c03/Proofs_OpsMem.vos c03/Proofs_Done.vos c03/Proofs_OpsDone.vos c03/Proofs_OpsNew.vos c03/Proofs_OpsOpen.vos c03/Proofs_Hist.vos c03/Proofs_Mon.vos c03/Proofs_Link2.vos c03/Proofs_Transfer.vos c03/Proofs_OpsRepar.vos c03/Proofs_SetPeer.vos c03/Proofs_Hist2.vos c03/Proofs_Mon2.vos c03/Proofs_Keys.vos c03/Proofs_Refs.vos c03/Proofs_RefInv.vos c03/Proofs_GC.vos c03/Proofs_Prio.vos c03/Proofs_Cap.vos c03/Proofs_CapInv.vos c03/Proofs_Just.vos c03/Proofs_Just2.vos
c03/Proofs_GC.vo c03/Proofs_GC.glob c03/Proofs_GC.v.beautified c03/Proofs_GC.required_vo: c03/Proofs_GC.v lib/Wire.vo c03/Int64.vo c03/Model.vo c03/Spec.vo c03/Proofs_Int64.vo c03/Proofs_Base.vo c03/Proofs_Sum.vo c03/Proofs_Reach.vo c03/Proofs_Link.vo c03/Proofs_Targets.vo c03/Proofs_Frames.vo c03/Proofs_Frames2.vo c03/Proofs_Frames3.vo c03/Proofs_Kill.vo c03/Proofs_OpsMem.vo c03/Proofs_Done.vo c03/Proofs_OpsDone.vo c03/Proofs_OpsNew.vo c03/Proofs_OpsOpen.vo c03/Proofs_Hist.vo c03/Proofs_Mon.vo c03/Proofs_Repar.vo c03/Proofs_Repar2.vo c03/Proofs_Move.vo c03/Proofs_Attach.vo c03/Proofs_Attach1.vo c03/Proofs_Link2.vo c03/Proofs_Transfer.vo c03/Proofs_OpsRepar.vo c03/Proofs_SetPeer.vo c03/Proofs_Hist2.vo c03/Proofs_Mon2.vo c03/Proofs_Keys.vo c03/Proofs_Refs.vo c03/Proofs_RefInv.vo
c03/Proofs_GC.vio: c03/Proofs_GC.v lib/Wire.vio c03/Int64.vio c03/Model.vio c03/Spec.vio c03/Proofs_Int64.vio c03/Proofs_Base.vio c03/Proofs_Sum.vio c03/Proofs_Reach.vio c03/Proofs_Link.vio c03/Proofs_Targets.vio c03/Proofs_Frames.vio c03/Proofs_Frames2.vio c03/Proofs_Frames3.vio c03/Proofs_Kill.vio c03/Proofs_OpsMem.vio c03/Proofs_Done.vio c03/Proofs_OpsDone.vio c03/Proofs_OpsNew.vio c03/Proofs_OpsOpen.vio c03/Proofs_Hist.vio c03/Proofs_Mon.vio c03/Proofs_Repar.vio c03/Proofs_Repar2.vio c03/Proofs_Move.vio c03/Proofs_Attach.vio c03/Proofs_Attach1.vio c03/Proofs_Link2.vio c03/Proofs_Transfer.vio c03/Proofs_OpsRepar.vio c03/Proofs_SetPeer.vio c03/Proofs_Hist2.vio c03/Proofs_Mon2.vio c03/Proofs_Keys.vio c03/Proofs_Refs.vio c03/Proofs_RefInv.vio
c03/Proofs_GC.vos c03/Proofs_GC.vok c03/Proofs_GC.required_vos: c03/Proofs_GC.v lib/Wire.vos c03/Int64.vos c03/Model.vos c03/Spec.vos c03/Proofs_Int64.vos c03/Proofs_Base.vos c03/Proofs_Sum.vos c03/Proofs_Reach.vos c03/Proofs_Link.vos c03/Proofs_Targets.vos c03/Proofs_Frames.vos c03/Proofs_Frames2.vos c03/Proofs_Frames3.vos c03/Proofs_Kill.vos c03/Proofs_OpsMem.vos c03/Proofs_Done.vos c03/Proofs_OpsDone.vos c03/Proofs_OpsNew.vos c03/Proofs_OpsOpen.vos c03/Proofs_Hist.vos c03/Proofs_Mon.vos c03/Proofs_Repar.vos c03/Proofs_Repar2.vos c03/Proofs_Move.vos c03/Proofs_Attach.vos c03/Proofs_Attach1.vos c03/Proofs_Link2.vos c03/Proofs_Transfer.vos c03/Proofs_OpsRepar.vos c03/Proofs_SetPeer.vos c03/Proofs_Hist2.vos c03/Proofs_Mon2.vos c03/Proofs_Keys.vos c03/Proofs_Refs.vos c03/Proofs_RefInv.vos
c03/Proofs_Hist.vo c03/Proofs_Hist.glob c03/Proofs_Hist.v.beautified c03/Proofs_Hist.required_vo: c03/Proofs_Hist.v lib/Wire.vo c03/Int64.vo c03/Model.vo c03/Spec.vo c03/Proofs_Int64.vo c03/Proofs_Base.vo c03/Proofs_Sum.vo c03/Proofs_Reach.vo c03/Proofs_Link.vo c03/Proofs_Targets.vo c03/Proofs_Frames.vo c03/Proofs_Frames2.vo c03/Proofs_Frames3.vo c03/Proofs_Kill.vo c03/Proofs_OpsMem.vo c03/Proofs_Done.vo c03/Proofs_OpsDone.vo c03/Proofs_OpsNew.vo c03/Proofs_OpsOpen.vo
c03/Proofs_Hist.vio: c03/Proofs_Hist.v lib/Wire.vio c03/Int64.vio c03/Model.vio c03/Spec.vio c03/Proofs_Int64.vio c03/Proofs_Base.vio c03/Proofs_Sum.vio c03/Proofs_Reach.vio c03/Proofs_Link.vio c03/Proofs_Targets.vio c03/Proofs_Frames.vio c03/Proofs_Frames2.vio c03/Proofs_Frames3.vio c03/Proofs_Kill.vio c03/Proofs_OpsMem.vio c03/Proofs_Done.vio c03/Proofs_OpsDone.vio c03/Proofs_OpsNew.vio c03/Proofs_OpsOpen.vio
c03/Proofs_Hist.vos c03/Proofs_Hist.vok c03/Proofs_Hist.required_vos: c03/Proofs_Hist.v lib/Wire.vos c03/Int64.vos c03/Model.vos c03/Spec.vos c03/Proofs_Int64.vos c03/Proofs_Base.vos c03/Proofs_Sum.vos c03/Proofs_Reach.vos c03/Proofs_Link.vos c03/Proofs_Targets.vos c03/Proofs_Frames.vos c03/Proofs_Frames2.vos c03/Proofs_Frames3.vos c03/Proofs_Kill.vos c03/Proofs_OpsMem.vos c03/Proofs_Done.vos c03/Proofs_OpsDone.vos c03/Proofs_OpsNew.vos c03/Proofs_OpsOpen.vos
c03/Proofs_Hist2.vo c03/Proofs_Hist2.glob c03/Proofs_Hist2.v.beautified c03/Proofs_Hist2.required_vo: c03/Proofs_Hist2.v lib/Wire.vo c03/Int64.vo c03/Model.vo c03/Spec.vo c03/Proofs_Int64.vo c03/Proofs_Base.vo c03/Proofs_Sum.vo c03/Proofs_Reach.vo c03/Proofs_Link.vo c03/Proofs_Targets.vo c03/Proofs_Frames.vo c03/Proofs_Frames2.vo c03/Proofs_Frames3.vo c03/Proofs_Kill.vo c03/Proofs_OpsMem.vo c03/Proofs_Done.vo c03/Proofs_OpsDone.vo c03/Proofs_OpsNew.vo c03/Proofs_OpsOpen.vo c03/Proofs_Hist.vo c03/Proofs_Link2.vo c03/Proofs_Transfer.vo c03/Proofs_OpsRepar.vo c03/Proofs_SetPeer.vo
c03/Proofs_Hist2.vio: c03/Proofs_Hist2.v lib/Wire.vio c03/Int64.vio c03/Model.vio c03/Spec.vio c03/Proofs_Int64.vio c03/Proofs_Base.vio c03/Proofs_Sum.vio c03/Proofs_Reach.vio c03/Proofs_Link.vio c03/Proofs_Targets.vio c03/Proofs_Frames.vio c03/Proofs_Frames2.vio c03/Proofs_Frames3.vio c03/Proofs_Kill.vio c03/Proofs_OpsMem.vio c03/Proofs_Done.vio c03/Proofs_OpsDone.vio c03/Proofs_OpsNew.vio c03/Proofs_OpsOpen.vio c03/Proofs_Hist.vio c03/Proofs_Link2.vio c03/Proofs_Transfer.vio c03/Proofs_OpsRepar.vio c03/Proofs_SetPeer.vio
c03/Proofs_Hist2.vos c03/Proofs_Hist2.vok c03/Proofs_Hist2.required_vos: c03/Proofs_Hist2.v lib/Wire.vos c03/Int64.vos c03/Model.vos c03/Spec.vos c03/Proofs_Int64.vos c03/Proofs_Base.vos c03/Proofs_Sum.vos c03/Proofs_Reach.vos c03/Proofs_Link.vos c03/Proofs_Targets.vos c03/Proofs_Frames.vos c03/Proofs_Frames2.vos c03/Proofs_Frames3.vos c03/Proofs_Kill.vos c03/Proofs_OpsMem.vos c03/Proofs_Done.vos c03/Proofs_OpsDone.vos c03/Proofs_OpsNew.vos c03/Proofs_OpsOpen.vos c03/Proofs_Hist.vos c03/Proofs_Link2.vos c03/Proofs_Transfer.vos c03/Proofs_OpsRepar.vos c03/Proofs_SetPeer.vos
c03/Proofs_Int64.vo c03/Proofs_Int64.glob c03/Proofs_Int64.v.beautified c03/Proofs_Int64.required_vo: c03/Proofs_Int64.v c03/Int64.vo c03/Model.vo
c03/Proofs_Int64.vio: c03/Proofs_Int64.v c03/Int64.vio c03/Model.vio
c03/Proofs_Int64.vos c03/Proofs_Int64.vok c03/Proofs_Int64.required_vos: c03/Proofs_Int64.v c03/Int64.vos c03/Model.vos
c03/Proofs_Just.vo c03/Proofs_Just.glob c03/Proofs_Just.v.beautified c03/Proofs_Just.required_vo: c03/Proofs_Just.v lib/Wire.vo c03/Int64.vo c03/Model.vo c03/Spec.vo c03/Proofs_Int64.vo c03/Proofs_Base.vo c03/Proofs_Sum.vo c03/Proofs_Reach.vo c03/Proofs_Link.vo c03/Proofs_Targets.vo c03/Proofs_Frames.vo c03/Proofs_Frames2.vo c03/Proofs_Frames3.vo c03/Proofs_Kill.vo c03/Proofs_OpsMem.vo c03/Proofs_Done.vo c03/Proofs_OpsDone.vo c03/Proofs_OpsNew.vo c03/Proofs_OpsOpen.vo c03/Proofs_Prio.vo
c03/Proofs_Just.vio: c03/Proofs_Just.v lib/Wire.vio c03/Int64.vio c03/Model.vio c03/Spec.vio c03/Proofs_Int64.vio c03/Proofs_Base.vio c03/Proofs_Sum.vio c03/Proofs_Reach.vio c03/Proofs_Link.vio c03/Proofs_Targets.vio c03/Proofs_Frames.vio c03/Proofs_Frames2.vio c03/Proofs_Frames3.vio c03/Proofs_Kill.vio c03/Proofs_OpsMem.vio c03/Proofs_Done.vio c03/Proofs_OpsDone.vio c03/Proofs_OpsNew.vio c03/Proofs_OpsOpen.vio c03/Proofs_Prio.vio
c03/Proofs_Just.vos c03/Proofs_Just.vok c03/Proofs_Just.required_vos: c03/Proofs_Just.v lib/Wire.vos c03/Int64.vos c03/Model.vos c03/Spec.vos c03/Proofs_Int64.vos c03/Proofs_Base.vos c03/Proofs_Sum.vos c03/Proofs_Reach.vos c03/Proofs_Link.vos c03/Proofs_Targets.vos c03/Proofs_Frames.vos c03/Proofs_Frames2.vos c03/Proofs_Frames3.vos c03/Proofs_Kill.vos c03/Proofs_OpsMem.vos c03/Proofs_Done.vos c03/Proofs_OpsDone.vos c03/Proofs_OpsNew.vos c03/Proofs_OpsOpen.vos c03/Proofs_Prio.vos
c03/Proofs_Just2.vo c03/Proofs_Just2.glob c03/Proofs_Just2.v.beautified c03/Proofs_Just2.required_vo: c03/Proofs_Just2.v lib/Wire.vo c03/Int64.vo c03/Model.vo c03/Spec.vo c03/Proofs_Int64.vo c03/Proofs_Base.vo c03/Proofs_Sum.vo c03/Proofs_Reach.vo c03/Proofs_Link.vo c03/Proofs_Targets.vo c03/Proofs_Frames.vo c03/Proofs_Frames2.vo c03/Proofs_Frames3.vo c03/Proofs_Kill.vo c03/Proofs_OpsMem.vo c03/Proofs_Done.vo c03/Proofs_OpsDone.vo c03/Proofs_OpsNew.vo c03/Proofs_OpsOpen.vo c03/Proofs_Hist.vo c03/Proofs_Repar.vo c03/Proofs_Repar2.vo c03/Proofs_Move.vo c03/Proofs_Attach.vo c03/Proofs_Attach1.vo c03/Proofs_Link2.vo c03/Proofs_Transfer.vo c03/Proofs_OpsRepar.vo c03/Proofs_SetPeer.vo c03/Proofs_Hist2.vo c03/Proofs_Prio.vo c03/Proofs_Just.vo
c03/Proofs_Just2.vio: c03/Proofs_Just2.v lib/Wire.vio c03/Int64.vio c03/Model.vio c03/Spec.vio c03/Proofs_Int64.vio c03/Proofs_Base.vio c03/Proofs_Sum.vio c03/Proofs_Reach.vio c03/Proofs_Link.vio c03/Proofs_Targets.vio c03/Proofs_Frames.vio c03/Proofs_Frames2.vio c03/Proofs_Frames3.vio c03/Proofs_Kill.vio c03/Proofs_OpsMem.vio c03/Proofs_Done.vio c03/Proofs_OpsDone.vio c03/Proofs_OpsNew.vio c03/Proofs_OpsOpen.vio c03/Proofs_Hist.vio c03/Proofs_Repar.vio c03/Proofs_Repar2.vio c03/Proofs_Move.vio c03/Proofs_Attach.vio c03/Proofs_Attach1.vio c03/Proofs_Link2.vio c03/Proofs_Transfer.vio c03/Proofs_OpsRepar.vio c03/Proofs_SetPeer.vio c03/Proofs_Hist2.vio c03/Proofs_Prio.vio c03/Proofs_Just.vio
c03/Proofs_Just2.vos c03/Proofs_Just2.vok c03/Proofs_Just2.required_vos: c03/Proofs_Just2.v lib/Wire.vos c03/Int64.vos c03/Model.vos c03/Spec.vos c03/Proofs_Int64.vos c03/Proofs_Base.vos c03/Proofs_Sum.vos c03/Proofs_Reach.vos c03/Proofs_Link.vos c03/Proofs_Targets.vos c03/Proofs_Frames.vos c03/Proofs_Frames2.vos c03/Proofs_Frames3.vos c03/Proofs_Kill.vos c03/Proofs_OpsMem.vos c03/Proofs_Done.vos c03/Proofs_OpsDone.vos c03/Proofs_OpsNew.vos c03/Proofs_OpsOpen.vos c03/Proofs_Hist.vos c03/Proofs_Repar.vos c03/Proofs_Repar2.vos c03/Proofs_Move.vos c03/Proofs_Attach.vos c03/Proofs_Attach1.vos c03/Proofs_Link2.vos c03/Proofs_Transfer.vos c03/Proofs_OpsRepar.vos c03/Proofs_SetPeer.vos c03/Proofs_Hist2.vos c03/Proofs_Prio.vos c03/Proofs_Just.vos
c03/Proofs_Keys.vo c03/Proofs_Keys.glob c03/Proofs_Keys.v.beautified c03/Proofs_Keys.required_vo: c03/Proofs_Keys.v lib/Wire.vo c03/Int64.vo c03/Model.vo c03/Spec.vo c03/Proofs_Int64.vo c03/Proofs_Base.vo
c03/Proofs_Keys.vio: c03/Proofs_Keys.v lib/Wire.vio c03/Int64.vio c03/Model.vio c03/Spec.vio c03/Proofs_Int64.vio c03/Proofs_Base.vio
c03/Proofs_Keys.vos c03/Proofs_Keys.vok c03/Proofs_Keys.required_vos: c03/Proofs_Keys.v lib/Wire.vos c03/Int64.vos c03/Model.vos c03/Spec.vos c03/Proofs_Int64.vos c03/Proofs_Base.vos
c03/Proofs_Kill.vo c03/Proofs_Kill.glob c03/Proofs_Kill.v.beautified c03/Proofs_Kill.required_vo: c03/Proofs_Kill.v lib/Wire.vo c03/Int64.vo c03/Model.vo c03/Spec.vo c03/Proofs_Int64.vo c03/Proofs_Base.vo c03/Proofs_Sum.vo c03/Proofs_Reach.vo c03/Proofs_Link.vo c03/Proofs_Targets.vo c03/Proofs_Frames.vo c03/Proofs_Frames2.vo c03/Proofs_Frames3.vo
c03/Proofs_Kill.vio: c03/Proofs_Kill.v lib/Wire.vio c03/Int64.vio c03/Model.vio c03/Spec.vio c03/Proofs_Int64.vio c03/Proofs_Base.vio c03/Proofs_Sum.vio c03/Proofs_Reach.vio c03/Proofs_Link.vio c03/Proofs_Targets.vio c03/Proofs_Frames.vio c03/Proofs_Frames2.vio c03/Proofs_Frames3.vio
c03/Proofs_Kill.vos c03/Proofs_Kill.vok c03/Proofs_Kill.required_vos: c03/Proofs_Kill.v lib/Wire.vos c03/Int64.vos c03/Model.vos c03/Spec.vos c03/Proofs_Int64.vos c03/Proofs_Base.vos c03/Proofs_Sum.vos c03/Proofs_Reach.vos c03/Proofs_Link.vos c03/Proofs_Targets.vos c03/Proofs_Frames.vos c03/Proofs_Frames2.vos c03/Proofs_Frames3.vos
c03/Proofs_Limiter.vo c03/Proofs_Limiter.glob c03/Proofs_Limiter.v.beautified c03/Proofs_Limiter.required_vo: c03/Proofs_Limiter.v c03/Int64.vo c03/Model.vo
c03/Proofs_Limiter.vio: c03/Proofs_Limiter.v c03/Int64.vio c03/Model.vio
c03/Proofs_Limiter.vos c03/Proofs_Limiter.vok c03/Proofs_Limiter.required_vos: c03/Proofs_Limiter.v c03/Int64.vos c03/Model.vos
c03/Proofs_Link.vo c03/Proofs_Link.glob c03/Proofs_Link.v.beautified c03/Proofs_Link.required_vo: c03/Proofs_Link.v lib/Wire.vo c03/Int64.vo c03/Model.vo c03/Spec.vo c03/Proofs_Int64.vo c03/Proofs_Base.vo c03/Proofs_Sum.vo c03/Proofs_Reach.vo
c03/Proofs_Link.vio: c03/Proofs_Link.v lib/Wire.vio c03/Int64.vio c03/Model.vio c03/Spec.vio c03/Proofs_Int64.vio c03/Proofs_Base.vio c03/Proofs_Sum.vio c03/Proofs_Reach.vio
c03/Proofs_Link.vos c03/Proofs_Link.vok c03/Proofs_Link.required_vos: c03/Proofs_Link.v lib/Wire.vos c03/Int64.vos c03/Model.vos c03/Spec.vos c03/Proofs_Int64.vos c03/Proofs_Base.vos c03/Proofs_Sum.vos c03/Proofs_Reach.vos
c03/Proofs_Link2.vo c03/Proofs_Link2.glob c03/Proofs_Link2.v.beautified c03/Proofs_Link2.required_vo: c03/Proofs_Link2.v lib/Wire.vo c03/Int64.vo c03/Model.vo c03/Spec.vo c03/Proofs_Int64.vo c03/Proofs_Base.vo c03/Proofs_Sum.vo c03/Proofs_Reach.vo c03/Proofs_Link.vo c03/Proofs_Targets.vo c03/Proofs_Frames.vo c03/Proofs_Frames2.vo c03/Proofs_Frames3.vo c03/Proofs_Kill.vo c03/Proofs_OpsMem.vo c03/Proofs_Done.vo c03/Proofs_OpsDone.vo c03/Proofs_OpsNew.vo c03/Proofs_OpsOpen.vo c03/Proofs_Hist.vo
c03/Proofs_Link2.vio: c03/Proofs_Link2.v lib/Wire.vio c03/Int64.vio c03/Model.vio c03/Spec.vio c03/Proofs_Int64.vio c03/Proofs_Base.vio c03/Proofs_Sum.vio c03/Proofs_Reach.vio c03/Proofs_Link.vio c03/Proofs_Targets.vio c03/Proofs_Frames.vio c03/Proofs_Frames2.vio c03/Proofs_Frames3.vio c03/Proofs_Kill.vio c03/Proofs_OpsMem.vio c03/Proofs_Done.vio c03/Proofs_OpsDone.vio c03/Proofs_OpsNew.vio c03/Proofs_OpsOpen.vio c03/Proofs_Hist.vio
c03/Proofs_Link2.vos c03/Proofs_Link2.vok c03/Proofs_Link2.required_vos: c03/Proofs_Link2.v lib/Wire.vos c03/Int64.vos c03/Model.vos c03/Spec.vos c03/Proofs_Int64.vos c03/Proofs_Base.vos c03/Proofs_Sum.vos c03/Proofs_Reach.vos c03/Proofs_Link.vos c03/Proofs_Targets.vos c03/Proofs_Frames.vos c03/Proofs_Frames2.vos c03/Proofs_Frames3.vos c03/Proofs_Kill.vos c03/Proofs_OpsMem.vos c03/Proofs_Done.vos c03/Proofs_OpsDone.vos c03/Proofs_OpsNew.vos c03/Proofs_OpsOpen.vos c03/Proofs_Hist.vos
c03/Proofs_Mon.vo c03/Proofs_Mon.glob c03/Proofs_Mon.v.beautified c03/Proofs_Mon.required_vo: c03/Proofs_Mon.v lib/Wire.vo c03/Int64.vo c03/Model.vo c03/Spec.vo c03/Proofs_Int64.vo c03/Proofs_Base.vo c03/Proofs_Sum.vo c03/Proofs_Reach.vo c03/Proofs_Link.vo c03/Proofs_Targets.vo c03/Proofs_Frames.vo c03/Proofs_Frames2.vo c03/Proofs_Frames3.vo c03/Proofs_Kill.vo c03/Proofs_OpsMem.vo c03/Proofs_Done.vo c03/Proofs_OpsDone.vo c03/Proofs_OpsNew.vo c03/Proofs_OpsOpen.vo c03/Proofs_Hist.vo
c03/Proofs_Mon.vio: c03/Proofs_Mon.v lib/Wire.vio c03/Int64.vio c03/Model.vio c03/Spec.vio c03/Proofs_Int64.vio c03/Proofs_Base.vio c03/Proofs_Sum.vio c03/Proofs_Reach.vio c03/Proofs_Link.vio c03/Proofs_Targets.vio c03/Proofs_Frames.vio c03/Proofs_Frames2.vio c03/Proofs_Frames3.vio c03/Proofs_Kill.vio c03/Proofs_OpsMem.vio c03/Proofs_Done.vio c03/Proofs_OpsDone.vio c03/Proofs_OpsNew.vio c03/Proofs_OpsOpen.vio c03/Proofs_Hist.vio
c03/Proofs_Mon.vos c03/Proofs_Mon.vok c03/Proofs_Mon.required_vos: c03/Proofs_Mon.v lib/Wire.vos c03/Int64.vos c03/Model.vos c03/Spec.vos c03/Proofs_Int64.vos c03/Proofs_Base.vos c03/Proofs_Sum.vos c03/Proofs_Reach.vos c03/Proofs_Link.vos c03/Proofs_Targets.vos c03/Proofs_Frames.vos c03/Proofs_Frames2.vos c03/Proofs_Frames3.vos c03/Proofs_Kill.vos c03/Proofs_OpsMem.vos c03/Proofs_Done.vos c03/Proofs_OpsDone.vos c03/Proofs_OpsNew.vos c03/Proofs_OpsOpen.vos c03/Proofs_Hist.vos
c03/Proofs_Mon2.vo c03/Proofs_Mon2.glob c03/Proofs_Mon2.v.beautified c03/Proofs_Mon2.required_vo: c03/Proofs_Mon2.v lib/Wire.vo c03/Int64.vo c03/Model.vo c03/Spec.vo c03/Proofs_Int64.vo c03/Proofs_Base.vo c03/Proofs_Sum.vo c03/Proofs_Reach.vo c03/Proofs_Link.vo c03/Proofs_Targets.vo c03/Proofs_Frames.vo c03/Proofs_Frames2.vo c03/Proofs_Frames3.vo c03/Proofs_Kill.vo c03/Proofs_OpsMem.vo c03/Proofs_Done.vo c03/Proofs_OpsDone.vo c03/Proofs_OpsNew.vo c03/Proofs_OpsOpen.vo c03/Proofs_Hist.vo c03/Proofs_Mon.vo c03/Proofs_Link2.vo c03/Proofs_Transfer.vo c03/Proofs_OpsRepar.vo c03/Proofs_SetPeer.vo c03/Proofs_Hist2.vo
c03/Proofs_Mon2.vio: c03/Proofs_Mon2.v lib/Wire.vio c03/Int64.vio c03/Model.vio c03/Spec.vio c03/Proofs_Int64.vio c03/Proofs_Base.vio c03/Proofs_Sum.vio c03/Proofs_Reach.vio c03/Proofs_Link.vio c03/Proofs_Targets.vio c03/Proofs_Frames.vio c03/Proofs_Frames2.vio c03/Proofs_Frames3.vio c03/Proofs_Kill.vio c03/Proofs_OpsMem.vio c03/Proofs_Done.vio c03/Proofs_OpsDone.vio c03/Proofs_OpsNew.vio c03/Proofs_OpsOpen.vio c03/Proofs_Hist.vio c03/Proofs_Mon.vio c03/Proofs_Link2.vio c03/Proofs_Transfer.vio c03/Proofs_OpsRepar.vio c03/Proofs_SetPeer.vio c03/Proofs_Hist2.vio
c03/Proofs_Mon2.vos c03/Proofs_Mon2.vok c03/Proofs_Mon2.required_vos: c03/Proofs_Mon2.v lib/Wire.vos c03/Int64.vos c03/Model.vos c03/Spec.vos c03/Proofs_Int64.vos c03/Proofs_Base.vos c03/Proofs_Sum.vos c03/Proofs_Reach.vos c03/Proofs_Link.vos c03/Proofs_Targets.vos c03/Proofs_Frames.vos c03/Proofs_Frames2.vos c03/Proofs_Frames3.vos c03/Proofs_Kill.vos c03/Proofs_OpsMem.vos c03/Proofs_Done.vos c03/Proofs_OpsDone.vos c03/Proofs_OpsNew.vos c03/Proofs_OpsOpen.vos c03/Proofs_Hist.vos c03/Proofs_Mon.vos c03/Proofs_Link2.vos c03/Proofs_Transfer.vos c03/Proofs_OpsRepar.vos c03/Proofs_SetPeer.vos c03/Proofs_Hist2.vos
c03/Proofs_Move.vo c03/Proofs_Move.glob c03/Proofs_Move.v.beautified c03/Proofs_Move.required_vo: c03/Proofs_Move.v lib/Wire.vo c03/Int64.vo c03/Model.vo c03/Spec.vo c03/Proofs_Int64.vo c03/Proofs_Base.vo c03/Proofs_Sum.vo c03/Proofs_Reach.vo c03/Proofs_Link.vo c03/Proofs_Targets.vo c03/Proofs_Frames.vo c03/Proofs_Frames2.vo c03/Proofs_Frames3.vo c03/Proofs_Kill.vo c03/Proofs_OpsMem.vo c03/Proofs_OpsNew.vo c03/Proofs_Repar.vo c03/Proofs_Repar2.vo
c03/Proofs_Move.vio: c03/Proofs_Move.v lib/Wire.vio c03/Int64.vio c03/Model.vio c03/Spec.vio c03/Proofs_Int64.vio c03/Proofs_Base.vio c03/Proofs_Sum.vio c03/Proofs_Reach.vio c03/Proofs_Link.vio c03/Proofs_Targets.vio c03/Proofs_Frames.vio c03/Proofs_Frames2.vio c03/Proofs_Frames3.vio c03/Proofs_Kill.vio c03/Proofs_OpsMem.vio c03/Proofs_OpsNew.vio c03/Proofs_Repar.vio c03/Proofs_Repar2.vio
c03/Proofs_Move.vos c03/Proofs_Move.vok c03/Proofs_Move.required_vos: c03/Proofs_Move.v lib/Wire.vos c03/Int64.vos c03/Model.vos c03/Spec.vos c03/Proofs_Int64.vos c03/Proofs_Base.vos c03/Proofs_Sum.vos c03/Proofs_Reach.vos c03/Proofs_Link.vos c03/Proofs_Targets.vos c03/Proofs_Frames.vos c03/Proofs_Frames2.vos c03/Proofs_Frames3.vos c03/Proofs_Kill.vos c03/Proofs_OpsMem.vos c03/Proofs_OpsNew.vos c03/Proofs_Repar.vos c03/Proofs_Repar2.vos
c03/Proofs_OpsDone.vo c03/Proofs_OpsDone.glob c03/Proofs_OpsDone.v.beautified c03/Proofs_OpsDone.required_vo: c03/Proofs_OpsDone.v lib/Wire.vo c03/Int64.vo c03/Model.vo c03/Spec.vo c03/Proofs_Int64.vo c03/Proofs_Base.vo c03/Proofs_Sum.vo c03/Proofs_Reach.vo c03/Proofs_Link.vo c03/Proofs_Targets.vo c03/Proofs_Frames.vo c03/Proofs_Frames2.vo c03/Proofs_Frames3.vo c03/Proofs_Kill.vo c03/Proofs_OpsMem.vo c03/Proofs_Done.vo
c03/Proofs_OpsDone.vio: c03/Proofs_OpsDone.v lib/Wire.vio c03/Int64.vio c03/Model.vio c03/Spec.vio c03/Proofs_Int64.vio c03/Proofs_Base.vio c03/Proofs_Sum.vio c03/Proofs_Reach.vio c03/Proofs_Link.vio c03/Proofs_Targets.vio c03/Proofs_Frames.vio c03/Proofs_Frames2.vio c03/Proofs_Frames3.vio c03/Proofs_Kill.vio c03/Proofs_OpsMem.vio c03/Proofs_Done.vio
c03/Proofs_OpsDone.vos c03/Proofs_OpsDone.vok c03/Proofs_OpsDone.required_vos: c03/Proofs_OpsDone.v lib/Wire.vos c03/Int64.vos c03/Model.vos c03/Spec.vos c03/Proofs_Int64.vos c03/Proofs_Base.vos c03/Proofs_Sum.vos c03/Proofs_Reach.vos c03/Proofs_Link.vos c03/Proofs_Targets.vos c03/Proofs_Frames.vos c03/Proofs_Frames2.vos c03/Proofs_Frames3.vos c03/Proofs_Kill.vos c03/Proofs_OpsMem.vos c03/Proofs_Done.vos
c03/Proofs_OpsMem.vo c03/Proofs_OpsMem.glob c03/Proofs_OpsMem.v.beautified c03/Proofs_OpsMem.required_vo: c03/Proofs_OpsMem.v lib/Wire.vo c03/Int64.vo c03/Model.vo c03/Spec.vo c03/Proofs_Int64.vo c03/Proofs_Base.vo c03/Proofs_Sum.vo c03/Proofs_Reach.vo c03/Proofs_Link.vo c03/Proofs_Targets.vo c03/Proofs_Frames.vo c03/Proofs_Frames2.vo
c03/Proofs_OpsMem.vio: c03/Proofs_OpsMem.v lib/Wire.vio c03/Int64.vio c03/Model.vio c03/Spec.vio c03/Proofs_Int64.vio c03/Proofs_Base.vio c03/Proofs_Sum.vio c03/Proofs_Reach.vio c03/Proofs_Link.vio c03/Proofs_Targets.vio c03/Proofs_Frames.vio c03/Proofs_Frames2.vio
c03/Proofs_OpsMem.vos c03/Proofs_OpsMem.vok c03/Proofs_OpsMem.required_vos: c03/Proofs_OpsMem.v lib/Wire.vos c03/Int64.vos c03/Model.vos c03/Spec.vos c03/Proofs_Int64.vos c03/Proofs_Base.vos c03/Proofs_Sum.vos c03/Proofs_Reach.vos c03/Proofs_Link.vos c03/Proofs_Targets.vos c03/Proofs_Frames.vos c03/Proofs_Frames2.vos
c03/Proofs_OpsNew.vo c03/Proofs_OpsNew.glob c03/Proofs_OpsNew.v.beautified c03/Proofs_OpsNew.required_vo: c03/Proofs_OpsNew.v lib/Wire.vo c03/Int64.vo c03/Model.vo c03/Spec.vo c03/Proofs_Int64.vo c03/Proofs_Base.vo c03/Proofs_Sum.vo c03/Proofs_Reach.vo c03/Proofs_Link.vo c03/Proofs_Targets.vo c03/Proofs_Frames.vo c03/Proofs_Frames2.vo c03/Proofs_Frames3.vo c03/Proofs_Kill.vo c03/Proofs_OpsMem.vo c03/Proofs_Done.vo c03/Proofs_OpsDone.vo
c03/Proofs_OpsNew.vio: c03/Proofs_OpsNew.v lib/Wire.vio c03/Int64.vio c03/Model.vio c03/Spec.vio c03/Proofs_Int64.vio c03/Proofs_Base.vio c03/Proofs_Sum.vio c03/Proofs_Reach.vio c03/Proofs_Link.vio c03/Proofs_Targets.vio c03/Proofs_Frames.vio c03/Proofs_Frames2.vio c03/Proofs_Frames3.vio c03/Proofs_Kill.vio c03/Proofs_OpsMem.vio c03/Proofs_Done.vio c03/Proofs_OpsDone.vio
c03/Proofs_OpsNew.vos c03/Proofs_OpsNew.vok c03/Proofs_OpsNew.required_vos: c03/Proofs_OpsNew.v lib/Wire.vos c03/Int64.vos c03/Model.vos c03/Spec.vos c03/Proofs_Int64.vos c03/Proofs_Base.vos c03/Proofs_Sum.vos c03/Proofs_Reach.vos c03/Proofs_Link.vos c03/Proofs_Targets.vos c03/Proofs_Frames.vos c03/Proofs_Frames2.vos c03/Proofs_Frames3.vos c03/Proofs_Kill.vos c03/Proofs_OpsMem.vos c03/Proofs_Done.vos c03/Proofs_OpsDone.vos
c03/Proofs_OpsOpen.vo c03/Proofs_OpsOpen.glob c03/Proofs_OpsOpen.v.beautified c03/Proofs_OpsOpen.required_vo: c03/Proofs_OpsOpen.v lib/Wire.vo c03/Int64.vo c03/Model.vo c03/Spec.vo c03/Proofs_Int64.vo c03/Proofs_Base.vo c03/Proofs_Sum.vo c03/Proofs_Reach.vo c03/Proofs_Link.vo c03/Proofs_Targets.vo c03/Proofs_Frames.vo c03/Proofs_Frames2.vo c03/Proofs_Frames3.vo c03/Proofs_Kill.vo c03/Proofs_OpsMem.vo c03/Proofs_Done.vo c03/Proofs_OpsDone.vo c03/Proofs_OpsNew.vo
c03/Proofs_OpsOpen.vio: c03/Proofs_OpsOpen.v lib/Wire.vio c03/Int64.vio c03/Model.vio c03/Spec.vio c03/Proofs_Int64.vio c03/Proofs_Base.vio c03/Proofs_Sum.vio c03/Proofs_Reach.vio c03/Proofs_Link.vio c03/Proofs_Targets.vio c03/Proofs_Frames.vio c03/Proofs_Frames2.vio c03/Proofs_Frames3.vio c03/Proofs_Kill.vio c03/Proofs_OpsMem.vio c03/Proofs_Done.vio c03/Proofs_OpsDone.vio c03/Proofs_OpsNew.vio
c03/Proofs_OpsOpen.vos c03/Proofs_OpsOpen.vok c03/Proofs_OpsOpen.required_vos: c03/Proofs_OpsOpen.v lib/Wire.vos c03/Int64.vos c03/Model.vos c03/Spec.vos c03/Proofs_Int64.vos c03/Proofs_Base.vos c03/Proofs_Sum.vos c03/Proofs_Reach.vos c03/Proofs_Link.vos c03/Proofs_Targets.vos c03/Proofs_Frames.vos c03/Proofs_Frames2.vos c03/Proofs_Frames3.vos c03/Proofs_Kill.vos c03/Proofs_OpsMem.vos c03/Proofs_Done.vos c03/Proofs_OpsDone.vos c03/Proofs_OpsNew.vos
c03/Proofs_OpsRepar.vo c03/Proofs_OpsRepar.glob c03/Proofs_OpsRepar.v.beautified c03/Proofs_OpsRepar.required_vo: c03/Proofs_OpsRepar.v lib/Wire.vo c03/Int64.vo c03/Model.vo c03/Spec.vo c03/Proofs_Int64.vo c03/Proofs_Base.vo c03/Proofs_Sum.vo c03/Proofs_Reach.vo c03/Proofs_Link.vo c03/Proofs_Targets.vo c03/Proofs_Frames.vo c03/Proofs_Frames2.vo c03/Proofs_Frames3.vo c03/Proofs_Kill.vo c03/Proofs_OpsMem.vo c03/Proofs_Done.vo c03/Proofs_OpsDone.vo c03/Proofs_OpsNew.vo c03/Proofs_OpsOpen.vo c03/Proofs_Hist.vo c03/Proofs_Repar.vo c03/Proofs_Repar2.vo c03/Proofs_Move.vo c03/Proofs_Attach.vo c03/Proofs_Attach1.vo c03/Proofs_Link2.vo c03/Proofs_Transfer.vo
c03/Proofs_OpsRepar.vio: c03/Proofs_OpsRepar.v lib/Wire.vio c03/Int64.vio c03/Model.vio c03/Spec.vio c03/Proofs_Int64.vio c03/Proofs_Base.vio c03/Proofs_Sum.vio c03/Proofs_Reach.vio c03/Proofs_Link.vio c03/Proofs_Targets.vio c03/Proofs_Frames.vio c03/Proofs_Frames2.vio c03/Proofs_Frames3.vio c03/Proofs_Kill.vio c03/Proofs_OpsMem.vio c03/Proofs_Done.vio c03/Proofs_OpsDone.vio c03/Proofs_OpsNew.vio c03/Proofs_OpsOpen.vio c03/Proofs_Hist.vio c03/Proofs_Repar.vio c03/Proofs_Repar2.vio c03/Proofs_Move.vio c03/Proofs_Attach.vio c03/Proofs_Attach1.vio c03/Proofs_Link2.vio c03/Proofs_Transfer.vio
c03/Proofs_OpsRepar.vos c03/Proofs_OpsRepar.vok c03/Proofs_OpsRepar.required_vos: c03/Proofs_OpsRepar.v lib/Wire.vos c03/Int64.vos c03/Model.vos c03/Spec.vos c03/Proofs_Int64.vos c03/Proofs_Base.vos c03/Proofs_Sum.vos c03/Proofs_Reach.vos c03/Proofs_Link.vos c03/Proofs_Targets.vos c03/Proofs_Frames.vos c03/Proofs_Frames2.vos c03/Proofs_Frames3.vos c03/Proofs_Kill.vos c03/Proofs_OpsMem.vos c03/Proofs_Done.vos c03/Proofs_OpsDone.vos c03/Proofs_OpsNew.vos c03/Proofs_OpsOpen.vos c03/Proofs_Hist.vos c03/Proofs_Repar.vos c03/Proofs_Repar2.vos c03/Proofs_Move.vos c03/Proofs_Attach.vos c03/Proofs_Attach1.vos c03/Proofs_Link2.vos c03/Proofs_Transfer.vos
c03/Proofs_Prio.vo c03/Proofs_Prio.glob c03/Proofs_Prio.v.beautified c03/Proofs_Prio.required_vo: c03/Proofs_Prio.v lib/Wire.vo c03/Int64.vo c03/Model.vo c03/Spec.vo c03/Proofs_Int64.vo c03/Proofs_Base.vo c03/Proofs_Sum.vo c03/Proofs_Reach.vo c03/Proofs_Link.vo c03/Proofs_Targets.vo c03/Proofs_Frames.vo c03/Proofs_Frames2.vo c03/Proofs_Frames3.vo c03/Proofs_Kill.vo c03/Proofs_OpsMem.vo
c03/Proofs_Prio.vio: c03/Proofs_Prio.v lib/Wire.vio c03/Int64.vio c03/Model.vio c03/Spec.vio c03/Proofs_Int64.vio c03/Proofs_Base.vio c03/Proofs_Sum.vio c03/Proofs_Reach.vio c03/Proofs_Link.vio c03/Proofs_Targets.vio c03/Proofs_Frames.vio c03/Proofs_Frames2.vio c03/Proofs_Frames3.vio c03/Proofs_Kill.vio c03/Proofs_OpsMem.vio
c03/Proofs_Prio.vos c03/Proofs_Prio.vok c03/Proofs_Prio.required_vos: c03/Proofs_Prio.v lib/Wire.vos c03/Int64.vos c03/Model.vos c03/Spec.vos c03/Proofs_Int64.vos c03/Proofs_Base.vos c03/Proofs_Sum.vos c03/Proofs_Reach.vos c03/Proofs_Link.vos c03/Proofs_Targets.vos c03/Proofs_Frames.vos c03/Proofs_Frames2.vos c03/Proofs_Frames3.vos c03/Proofs_Kill.vos c03/Proofs_OpsMem.vos
c03/Proofs_Reach.vo c03/Proofs_Reach.glob c03/Proofs_Reach.v.beautified c03/Proofs_Reach.required_vo: c03/Proofs_Reach.v lib/Wire.vo c03/Int64.vo c03/Model.vo c03/Spec.vo c03/Proofs_Int64.vo c03/Proofs_Base.vo c03/Proofs_Sum.vo
c03/Proofs_Reach.vio: c03/Proofs_Reach.v lib/Wire.vio c03/Int64.vio c03/Model.vio c03/Spec.vio c03/Proofs_Int64.vio c03/Proofs_Base.vio c03/Proofs_Sum.vio
c03/Proofs_Reach.vos c03/Proofs_Reach.vok c03/Proofs_Reach.required_vos: c03/Proofs_Reach.v lib/Wire.vos c03/Int64.vos c03/Model.vos c03/Spec.vos c03/Proofs_Int64.vos c03/Proofs_Base.vos c03/Proofs_Sum.vos
c03/Proofs_RefInv.vo c03/Proofs_RefInv.glob c03/Proofs_RefInv.v.beautified c03/Proofs_RefInv.required_vo: c03/Proofs_RefInv.v lib/Wire.vo c03/Int64.vo c03/Model.vo c03/Spec.vo c03/Proofs_Int64.vo c03/Proofs_Base.vo c03/Proofs_Sum.vo c03/Proofs_Reach.vo c03/Proofs_Link.vo c03/Proofs_Targets.vo c03/Proofs_Frames.vo c03/Proofs_Frames2.vo c03/Proofs_Frames3.vo c03/Proofs_Kill.vo c03/Proofs_OpsMem.vo c03/Proofs_Done.vo c03/Proofs_OpsDone.vo c03/Proofs_OpsNew.vo c03/Proofs_OpsOpen.vo c03/Proofs_Hist.vo c03/Proofs_Mon.vo c03/Proofs_Link2.vo c03/Proofs_Transfer.vo c03/Proofs_OpsRepar.vo c03/Proofs_SetPeer.vo c03/Proofs_Hist2.vo c03/Proofs_Mon2.vo c03/Proofs_Keys.vo c03/Proofs_Refs.vo
c03/Proofs_RefInv.vio: c03/Proofs_RefInv.v lib/Wire.vio c03/Int64.vio c03/Model.vio c03/Spec.vio c03/Proofs_Int64.vio c03/Proofs_Base.vio c03/Proofs_Sum.vio c03/Proofs_Reach.vio c03/Proofs_Link.vio c03/Proofs_Targets.vio c03/Proofs_Frames.vio c03/Proofs_Frames2.vio c03/Proofs_Frames3.vio c03/Proofs_Kill.vio c03/Proofs_OpsMem.vio c03/Proofs_Done.vio c03/Proofs_OpsDone.vio c03/Proofs_OpsNew.vio c03/Proofs_OpsOpen.vio c03/Proofs_Hist.vio c03/Proofs_Mon.vio c03/Proofs_Link2.vio c03/Proofs_Transfer.vio c03/Proofs_OpsRepar.vio c03/Proofs_SetPeer.vio c03/Proofs_Hist2.vio c03/Proofs_Mon2.vio c03/Proofs_Keys.vio c03/Proofs_Refs.vio
c03/Proofs_RefInv.vos c03/Proofs_RefInv.vok c03/Proofs_RefInv.required_vos: c03/Proofs_RefInv.v lib/Wire.vos c03/Int64.vos c03/Model.vos c03/Spec.vos c03/Proofs_Int64.vos c03/Proofs_Base.vos c03/Proofs_Sum.vos c03/Proofs_Reach.vos c03/Proofs_Link.vos c03/Proofs_Targets.vos c03/Proofs_Frames.vos c03/Proofs_Frames2.vos c03/Proofs_Frames3.vos c03/Proofs_Kill.vos c03/Proofs_OpsMem.vos c03/Proofs_Done.vos c03/Proofs_OpsDone.vos c03/Proofs_OpsNew.vos c03/Proofs_OpsOpen.vos c03/Proofs_Hist.vos c03/Proofs_Mon.vos c03/Proofs_Link2.vos c03/Proofs_Transfer.vos c03/Proofs_OpsRepar.vos c03/Proofs_SetPeer.vos c03/Proofs_Hist2.vos c03/Proofs_Mon2.vos c03/Proofs_Keys.vos c03/Proofs_Refs.vos
c03/Proofs_Refs.vo c03/Proofs_Refs.glob c03/Proofs_Refs.v.beautified c03/Proofs_Refs.required_vo: c03/Proofs_Refs.v lib/Wire.vo c03/Int64.vo c03/Model.vo c03/Spec.vo c03/Proofs_Int64.vo c03/Proofs_Base.vo c03/Proofs_Keys.vo
c03/Proofs_Refs.vio: c03/Proofs_Refs.v lib/Wire.vio c03/Int64.vio c03/Model.vio c03/Spec.vio c03/Proofs_Int64.vio c03/Proofs_Base.vio c03/Proofs_Keys.vio
c03/Proofs_Refs.vos c03/Proofs_Refs.vok c03/Proofs_Refs.required_vos: c03/Proofs_Refs.v lib/Wire.vos c03/Int64.vos c03/Model.vos c03/Spec.vos c03/Proofs_Int64.vos c03/Proofs_Base.vos c03/Proofs_Keys.vos
c03/Proofs_Repar.vo c03/Proofs_Repar.glob c03/Proofs_Repar.v.beautified c03/Proofs_Repar.required_vo: c03/Proofs_Repar.v lib/Wire.vo c03/Int64.vo c03/Model.vo c03/Spec.vo c03/Proofs_Int64.vo c03/Proofs_Base.vo c03/Proofs_Sum.vo c03/Proofs_Reach.vo c03/Proofs_Link.vo c03/Proofs_Targets.vo c03/Proofs_Frames.vo c03/Proofs_Frames2.vo c03/Proofs_Frames3.vo c03/Proofs_Kill.vo
c03/Proofs_Repar.vio: c03/Proofs_Repar.v lib/Wire.vio c03/Int64.vio c03/Model.vio c03/Spec.vio c03/Proofs_Int64.vio c03/Proofs_Base.vio c03/Proofs_Sum.vio c03/Proofs_Reach.vio c03/Proofs_Link.vio c03/Proofs_Targets.vio c03/Proofs_Frames.vio c03/Proofs_Frames2.vio c03/Proofs_Frames3.vio c03/Proofs_Kill.vio
c03/Proofs_Repar.vos c03/Proofs_Repar.vok c03/Proofs_Repar.required_vos: c03/Proofs_Repar.v lib/Wire.vos c03/Int64.vos c03/Model.vos c03/Spec.vos c03/Proofs_Int64.vos c03/Proofs_Base.vos c03/Proofs_Sum.vos c03/Proofs_Reach.vos c03/Proofs_Link.vos c03/Proofs_Targets.vos c03/Proofs_Frames.vos c03/Proofs_Frames2.vos c03/Proofs_Frames3.vos c03/Proofs_Kill.vos
c03/Proofs_Repar2.vo c03/Proofs_Repar2.glob c03/Proofs_Repar2.v.beautified c03/Proofs_Repar2.required_vo: c03/Proofs_Repar2.v lib/Wire.vo c03/Int64.vo c03/Model.vo c03/Spec.vo c03/Proofs_Int64.vo c03/Proofs_Base.vo c03/Proofs_Sum.vo c03/Proofs_Reach.vo c03/Proofs_Link.vo c03/Proofs_Targets.vo c03/Proofs_Frames.vo c03/Proofs_Frames2.vo c03/Proofs_Frames3.vo c03/Proofs_Kill.vo c03/Proofs_Repar.vo
c03/Proofs_Repar2.vio: c03/Proofs_Repar2.v lib/Wire.vio c03/Int64.vio c03/Model.vio c03/Spec.vio c03/Proofs_Int64.vio c03/Proofs_Base.vio c03/Proofs_Sum.vio c03/Proofs_Reach.vio c03/Proofs_Link.vio c03/Proofs_Targets.vio c03/Proofs_Frames.vio c03/Proofs_Frames2.vio c03/Proofs_Frames3.vio c03/Proofs_Kill.vio c03/Proofs_Repar.vio
c03/Proofs_Repar2.vos c03/Proofs_Repar2.vok c03/Proofs_Repar2.required_vos: c03/Proofs_Repar2.v lib/Wire.vos c03/Int64.vos c03/Model.vos c03/Spec.vos c03/Proofs_Int64.vos c03/Proofs_Base.vos c03/Proofs_Sum.vos c03/Proofs_Reach.vos c03/Proofs_Link.vos c03/Proofs_Targets.vos c03/Proofs_Frames.vos c03/Proofs_Frames2.vos c03/Proofs_Frames3.vos c03/Proofs_Kill.vos c03/Proofs_Repar.vos
c03/Proofs_SetPeer.vo c03/Proofs_SetPeer.glob c03/Proofs_SetPeer.v.beautified c03/Proofs_SetPeer.required_vo: c03/Proofs_SetPeer.v lib/Wire.vo c03/Int64.vo c03/Model.vo c03/Spec.vo c03/Proofs_Int64.vo c03/Proofs_Base.vo c03/Proofs_Sum.vo c03/Proofs_Reach.vo c03/Proofs_Link.vo c03/Proofs_Targets.vo c03/Proofs_Frames.vo c03/Proofs_Frames2.vo c03/Proofs_Frames3.vo c03/Proofs_Kill.vo c03/Proofs_OpsMem.vo c03/Proofs_Done.vo c03/Proofs_OpsDone.vo c03/Proofs_OpsNew.vo c03/Proofs_OpsOpen.vo c03/Proofs_Hist.vo c03/Proofs_Repar.vo c03/Proofs_Repar2.vo c03/Proofs_Move.vo c03/Proofs_Attach.vo c03/Proofs_Attach1.vo c03/Proofs_Link2.vo c03/Proofs_Transfer.vo c03/Proofs_OpsRepar.vo
c03/Proofs_SetPeer.vio: c03/Proofs_SetPeer.v lib/Wire.vio c03/Int64.vio c03/Model.vio c03/Spec.vio c03/Proofs_Int64.vio c03/Proofs_Base.vio c03/Proofs_Sum.vio c03/Proofs_Reach.vio c03/Proofs_Link.vio c03/Proofs_Targets.vio c03/Proofs_Frames.vio c03/Proofs_Frames2.vio c03/Proofs_Frames3.vio c03/Proofs_Kill.vio c03/Proofs_OpsMem.vio c03/Proofs_Done.vio c03/Proofs_OpsDone.vio c03/Proofs_OpsNew.vio c03/Proofs_OpsOpen.vio c03/Proofs_Hist.vio c03/Proofs_Repar.vio c03/Proofs_Repar2.vio c03/Proofs_Move.vio c03/Proofs_Attach.vio c03/Proofs_Attach1.vio c03/Proofs_Link2.vio c03/Proofs_Transfer.vio c03/Proofs_OpsRepar.vio
c03/Proofs_SetPeer.vos c03/Proofs_SetPeer.vok c03/Proofs_SetPeer.required_vos: c03/Proofs_SetPeer.v lib/Wire.vos c03/Int64.vos c03/Model.vos c03/Spec.vos c03/Proofs_Int64.vos c03/Proofs_Base.vos c03/Proofs_Sum.vos c03/Proofs_Reach.vos c03/Proofs_Link.vos c03/Proofs_Targets.vos c03/Proofs_Frames.vos c03/Proofs_Frames2.vos c03/Proofs_Frames3.vos c03/Proofs_Kill.vos c03/Proofs_OpsMem.vos c03/Proofs_Done.vos c03/Proofs_OpsDone.vos c03/Proofs_OpsNew.vos c03/Proofs_OpsOpen.vos c03/Proofs_Hist.vos c03/Proofs_Repar.vos c03/Proofs_Repar2.vos c03/Proofs_Move.vos c03/Proofs_Attach.vos c03/Proofs_Attach1.vos c03/Proofs_Link2.vos c03/Proofs_Transfer.vos c03/Proofs_OpsRepar.vos
c03/Proofs_Sum.vo c03/Proofs_Sum.glob c03/Proofs_Sum.v.beautified c03/Proofs_Sum.required_vo: c03/Proofs_Sum.v c03/Int64.vo c03/Model.vo c03/Spec.vo c03/Proofs_Int64.vo c03/Proofs_Base.vo
c03/Proofs_Sum.vio: c03/Proofs_Sum.v c03/Int64.vio c03/Model.vio c03/Spec.vio c03/Proofs_Int64.vio c03/Proofs_Base.vio
c03/Proofs_Sum.vos c03/Proofs_Sum.vok c03/Proofs_Sum.required_vos: c03/Proofs_Sum.v c03/Int64.vos c03/Model.vos c03/Spec.vos c03/Proofs_Int64.vos c03/Proofs_Base.vos
c03/Proofs_Targets.vo c03/Proofs_Targets.glob c03/Proofs_Targets.v.beautified c03/Proofs_Targets.required_vo: c03/Proofs_Targets.v lib/Wire.vo c03/Int64.vo c03/Model.vo c03/Spec.vo c03/Proofs_Int64.vo c03/Proofs_Base.vo c03/Proofs_Sum.vo c03/Proofs_Reach.vo c03/Proofs_Link.vo
c03/Proofs_Targets.vio: c03/Proofs_Targets.v lib/Wire.vio c03/Int64.vio c03/Model.vio c03/Spec.vio c03/Proofs_Int64.vio c03/Proofs_Base.vio c03/Proofs_Sum.vio c03/Proofs_Reach.vio c03/Proofs_Link.vio
c03/Proofs_Targets.vos c03/Proofs_Targets.vok c03/Proofs_Targets.required_vos: c03/Proofs_Targets.v lib/Wire.vos c03/Int64.vos c03/Model.vos c03/Spec.vos c03/Proofs_Int64.vos c03/Proofs_Base.vos c03/Proofs_Sum.vos c03/Proofs_Reach.vos c03/Proofs_Link.vos
c03/Proofs_Transfer.vo c03/Proofs_Transfer.glob c03/Proofs_Transfer.v.beautified c03/Proofs_Transfer.required_vo: c03/Proofs_Transfer.v lib/Wire.vo c03/Int64.vo c03/Model.vo c03/Spec.vo c03/Proofs_Int64.vo c03/Proofs_Base.vo c03/Proofs_Sum.vo c03/Proofs_Reach.vo c03/Proofs_Link.vo c03/Proofs_Targets.vo c03/Proofs_Frames.vo c03/Proofs_Frames2.vo c03/Proofs_Frames3.vo c03/Proofs_Kill.vo c03/Proofs_OpsMem.vo c03/Proofs_Done.vo c03/Proofs_OpsDone.vo c03/Proofs_OpsNew.vo c03/Proofs_OpsOpen.vo c03/Proofs_Repar.vo c03/Proofs_Repar2.vo c03/Proofs_Move.vo c03/Proofs_Attach.vo
c03/Proofs_Transfer.vio: c03/Proofs_Transfer.v lib/Wire.vio c03/Int64.vio c03/Model.vio c03/Spec.vio c03/Proofs_Int64.vio c03/Proofs_Base.vio c03/Proofs_Sum.vio c03/Proofs_Reach.vio c03/Proofs_Link.vio c03/Proofs_Targets.vio c03/Proofs_Frames.vio c03/Proofs_Frames2.vio c03/Proofs_Frames3.vio c03/Proofs_Kill.vio c03/Proofs_OpsMem.vio c03/Proofs_Done.vio c03/Proofs_OpsDone.vio c03/Proofs_OpsNew.vio c03/Proofs_OpsOpen.vio c03/Proofs_Repar.vio c03/Proofs_Repar2.vio c03/Proofs_Move.vio c03/Proofs_Attach.vio
c03/Proofs_Transfer.vos c03/Proofs_Transfer.vok c03/Proofs_Transfer.required_vos: c03/Proofs_Transfer.v lib/Wire.vos c03/Int64.vos c03/Model.vos c03/Spec.vos c03/Proofs_Int64.vos c03/Proofs_Base.vos c03/Proofs_Sum.vos c03/Proofs_Reach.vos c03/Proofs_Link.vos c03/Proofs_Targets.vos c03/Proofs_Frames.vos c03/Proofs_Frames2.vos c03/Proofs_Frames3.vos c03/Proofs_Kill.vos c03/Proofs_OpsMem.vos c03/Proofs_Done.vos c03/Proofs_OpsDone.vos c03/Proofs_OpsNew.vos c03/Proofs_OpsOpen.vos c03/Proofs_Repar.vos c03/Proofs_Repar2.vos c03/Proofs_Move.vos c03/Proofs_Attach.vos
c03/Properties.vo c03/Properties.glob c03/Properties.v.beautified c03/Properties.required_vo: c03/Properties.v lib/Wire.vo c03/Int64.vo c03/Model.vo c03/Spec.vo c03/Witness.vo c03/Proofs_Int64.vo c03/Proofs_Base.vo c03/Proofs_Limiter.vo c03/Proofs_Reach.vo c03/Proofs_Link.vo c03/Proofs_OpsMem.vo c03/Proofs_Hist.vo c03/Proofs_Mon.vo c03/Proofs_Link2.vo c03/Proofs_Transfer.vo c03/Proofs_OpsRepar.vo c03/Proofs_SetPeer.vo c03/Proofs_Hist2.vo c03/Proofs_Mon2.vo c03/Proofs_Keys.vo c03/Proofs_Refs.vo c03/Proofs_RefInv.vo c03/Proofs_GC.vo c03/Proofs_Prio.vo c03/Proofs_Cap.vo c03/Proofs_CapInv.vo c03/Proofs_Just.vo c03/Proofs_Just2.vo c03/Proofs_Full.vo
c03/Properties.vio: c03/Properties.v lib/Wire.vio c03/Int64.vio c03/Model.vio c03/Spec.vio c03/Witness.vio c03/Proofs_Int64.vio c03/Proofs_Base.vio c03/Proofs_Limiter.vio c03/Proofs_Reach.vio c03/Proofs_Link.vio c03/Proofs_OpsMem.vio c03/Proofs_Hist.vio c03/Proofs_Mon.vio c03/Proofs_Link2.vio c03/Proofs_Transfer.vio c03/Proofs_OpsRepar.vio c03/Proofs_SetPeer.vio c03/Proofs_Hist2.vio c03/Proofs_Mon2.vio c03/Proofs_Keys.vio c03/Proofs_Refs.vio c03/Proofs_RefInv.vio c03/Proofs_GC.vio c03/Proofs_Prio.vio c03/Proofs_Cap.vio c03/Proofs_CapInv.vio c03/Proofs_Just.vio c03/Proofs_Just2.vio c03/Proofs_Full.vio
c03/Properties.vos c03/Properties.vok c03/Properties.required_vos: c03/Properties.v lib/Wire.vos c03/Int64.vos c03/Model.vos c03/Spec.vos c03/Witness.vos c03/Proofs_Int64.vos c03/Proofs_Base.vos c03/Proofs_Limiter.vos c03/Proofs_Reach.vos c03/Proofs_Link.vos c03/Proofs_OpsMem.vos c03/Proofs_Hist.vos c03/Proofs_Mon.vos c03/Proofs_Link2.vos c03/Proofs_Transfer.vos c03/Proofs_OpsRepar.vos c03/Proofs_SetPeer.vos c03/Proofs_Hist2.vos c03/Proofs_Mon2.vos c03/Proofs_Keys.vos c03/Proofs_Refs.vos c03/Proofs_RefInv.vos c03/Proofs_GC.vos c03/Proofs_Prio.vos c03/Proofs_Cap.vos c03/Proofs_CapInv.vos c03/Proofs_Just.vos c03/Proofs_Just2.vos c03/Proofs_Full.vos
c03/Spec.vo c03/Spec.glob c03/Spec.v.beautified c03/Spec.required_vo: c03/Spec.v lib/Wire.vo c03/Int64.vo c03/Model.vo
c03/Spec.vio: c03/Spec.v lib/Wire.vio c03/Int64.vio c03/Model.vio
c03/Spec.vos c03/Spec.vok c03/Spec.required_vos: c03/Spec.v lib/Wire.vos c03/Int64.vos c03/Model.vos
c03/Witness.vo c03/Witness.glob c03/Witness.v.beautified c03/Witness.required_vo: c03/Witness.v lib/Wire.vo c03/Int64.vo c03/Model.vo c03/Spec.vo
c03/Witness.vio: c03/Witness.v lib/Wire.vio c03/Int64.vio c03/Model.vio c03/Spec.vio
c03/Witness.vos c03/Witness.vok c03/Witness.required_vos: c03/Witness.v lib/Wire.vos c03/Int64.vos c03/Model.vos c03/Spec.vos
c04/Close.vo c04/Close.glob c04/Close.v.beautified c04/Close.required_vo: c04/Close.v lib/Wire.vo
c04/Close.vio: c04/Close.v lib/Wire.vio
c04/Close.vos c04/Close.vok c04/Close.required_vos: c04/Close.v lib/Wire.vos
c04/Events.vo c04/Events.glob c04/Events.v.beautified c04/Events.required_vo: c04/Events.v 
c04/Events.vio: c04/Events.v 
c04/Events.vos c04/Events.vok c04/Events.required_vos: c04/Events.v 
c04/Extract.vo c04/Extract.glob c04/Extract.v.beautified c04/Extract.required_vo: c04/Extract.v c04/Spec.vo
c04/Extract.vio: c04/Extract.v c04/Spec.vio
c04/Extract.vos c04/Extract.vok c04/Extract.required_vos: c04/Extract.v c04/Spec.vos
c04/Model.vo c04/Model.glob c04/Model.v.beautified c04/Model.required_vo: c04/Model.v c04/Events.vo
c04/Model.vio: c04/Model.v c04/Events.vio
c04/Model.vos c04/Model.vok c04/Model.required_vos: c04/Model.v c04/Events.vos
c04/Proofs.vo c04/Proofs.glob c04/Proofs.v.beautified c04/Proofs.required_vo: c04/Proofs.v c04/Events.vo c04/Model.vo c04/Spec.vo gen/Paths_c04.vo
c04/Proofs.vio: c04/Proofs.v c04/Events.vio c04/Model.vio c04/Spec.vio gen/Paths_c04.vio
c04/Proofs.vos c04/Proofs.vok c04/Proofs.required_vos: c04/Proofs.v c04/Events.vos c04/Model.vos c04/Spec.vos gen/Paths_c04.vos
c04/Proofs_Close.vo c04/Proofs_Close.glob c04/Proofs_Close.v.beautified c04/Proofs_Close.required_vo: c04/Proofs_Close.v c04/Close.vo
c04/Proofs_Close.vio: c04/Proofs_Close.v c04/Close.vio
c04/Proofs_Close.vos c04/Proofs_Close.vok c04/Proofs_Close.required_vos: c04/Proofs_Close.v c04/Close.vos
c04/Properties.vo c04/Properties.glob c04/Properties.v.beautified c04/Properties.required_vo: c04/Properties.v c04/Events.vo c04/Model.vo c04/Close.vo c04/Spec.vo c04/Proofs.vo c04/Proofs_Close.vo gen/Paths_c04.vo
c04/Properties.vio: c04/Properties.v c04/Events.vio c04/Model.vio c04/Close.vio c04/Spec.vio c04/Proofs.vio c04/Proofs_Close.vio gen/Paths_c04.vio
c04/Properties.vos c04/Properties.vok c04/Properties.required_vos: c04/Properties.v c04/Events.vos c04/Model.vos c04/Close.vos c04/Spec.vos c04/Proofs.vos c04/Proofs_Close.vos gen/Paths_c04.vos
c04/Spec.vo c04/Spec.glob c04/Spec.v.beautified c04/Spec.required_vo: c04/Spec.v lib/Wire.vo c04/Events.vo c04/Model.vo c04/Close.vo gen/Paths_c04.vo
c04/Spec.vio: c04/Spec.v lib/Wire.vio c04/Events.vio c04/Model.vio c04/Close.vio gen/Paths_c04.vio
c04/Spec.vos c04/Spec.vok c04/Spec.required_vos: c04/Spec.v lib/Wire.vos c04/Events.vos c04/Model.vos c04/Close.vos gen/Paths_c04.vos
c05/Extract.vo c05/Extract.glob c05/Extract.v.beautified c05/Extract.required_vo: c05/Extract.v c05/Spec.vo
c05/Extract.vio: c05/Extract.v c05/Spec.vio
c05/Extract.vos c05/Extract.vok c05/Extract.required_vos: c05/Extract.v c05/Spec.vos
c05/ModelComposite.vo c05/ModelComposite.glob c05/ModelComposite.v.beautified c05/ModelComposite.required_vo: c05/ModelComposite.v c05/ModelLimiter.vo c05/ModelWorker.vo c05/ModelSync.vo
c05/ModelComposite.vio: c05/ModelComposite.v c05/ModelLimiter.vio c05/ModelWorker.vio c05/ModelSync.vio
c05/ModelComposite.vos c05/ModelComposite.vok c05/ModelComposite.required_vos: c05/ModelComposite.v c05/ModelLimiter.vos c05/ModelWorker.vos c05/ModelSync.vos
c05/ModelLimiter.vo c05/ModelLimiter.glob c05/ModelLimiter.v.beautified c05/ModelLimiter.required_vo: c05/ModelLimiter.v 
c05/ModelLimiter.vio: c05/ModelLimiter.v 
c05/ModelLimiter.vos c05/ModelLimiter.vok c05/ModelLimiter.required_vos: c05/ModelLimiter.v 
c05/ModelRanker.vo c05/ModelRanker.glob c05/ModelRanker.v.beautified c05/ModelRanker.required_vo: c05/ModelRanker.v gen/Consts_c05.vo
c05/ModelRanker.vio: c05/ModelRanker.v gen/Consts_c05.vio
c05/ModelRanker.vos c05/ModelRanker.vok c05/ModelRanker.required_vos: c05/ModelRanker.v gen/Consts_c05.vos
c05/ModelSync.vo c05/ModelSync.glob c05/ModelSync.v.beautified c05/ModelSync.required_vo: c05/ModelSync.v c05/ModelLimiter.vo
c05/ModelSync.vio: c05/ModelSync.v c05/ModelLimiter.vio
c05/ModelSync.vos c05/ModelSync.vok c05/ModelSync.required_vos: c05/ModelSync.v c05/ModelLimiter.vos
c05/ModelWorker.vo c05/ModelWorker.glob c05/ModelWorker.v.beautified c05/ModelWorker.required_vo: c05/ModelWorker.v c05/ModelLimiter.vo gen/Consts_c05.vo
c05/ModelWorker.vio: c05/ModelWorker.v c05/ModelLimiter.vio gen/Consts_c05.vio
c05/ModelWorker.vos c05/ModelWorker.vok c05/ModelWorker.required_vos: c05/ModelWorker.v c05/ModelLimiter.vos gen/Consts_c05.vos
c05/Proofs_Composite.vo c05/Proofs_Composite.glob c05/Proofs_Composite.v.beautified c05/Proofs_Composite.required_vo: c05/Proofs_Composite.v c05/ModelLimiter.vo c05/Proofs_Limiter.vo c05/ModelWorker.vo c05/Proofs_Worker.vo c05/ModelSync.vo c05/Proofs_Sync.vo c05/ModelComposite.vo
c05/Proofs_Composite.vio: c05/Proofs_Composite.v c05/ModelLimiter.vio c05/Proofs_Limiter.vio c05/ModelWorker.vio c05/Proofs_Worker.vio c05/ModelSync.vio c05/Proofs_Sync.vio c05/ModelComposite.vio
c05/Proofs_Composite.vos c05/Proofs_Composite.vok c05/Proofs_Composite.required_vos: c05/Proofs_Composite.v c05/ModelLimiter.vos c05/Proofs_Limiter.vos c05/ModelWorker.vos c05/Proofs_Worker.vos c05/ModelSync.vos c05/Proofs_Sync.vos c05/ModelComposite.vos
c05/Proofs_Limiter.vo c05/Proofs_Limiter.glob c05/Proofs_Limiter.v.beautified c05/Proofs_Limiter.required_vo: c05/Proofs_Limiter.v c05/ModelLimiter.vo
c05/Proofs_Limiter.vio: c05/Proofs_Limiter.v c05/ModelLimiter.vio
c05/Proofs_Limiter.vos c05/Proofs_Limiter.vok c05/Proofs_Limiter.required_vos: c05/Proofs_Limiter.v c05/ModelLimiter.vos
c05/Proofs_LimiterMon.vo c05/Proofs_LimiterMon.glob c05/Proofs_LimiterMon.v.beautified c05/Proofs_LimiterMon.required_vo: c05/Proofs_LimiterMon.v lib/Wire.vo c05/ModelLimiter.vo c05/Proofs_Limiter.vo c05/SpecLimiter.vo
c05/Proofs_LimiterMon.vio: c05/Proofs_LimiterMon.v lib/Wire.vio c05/ModelLimiter.vio c05/Proofs_Limiter.vio c05/SpecLimiter.vio
c05/Proofs_LimiterMon.vos c05/Proofs_LimiterMon.vok c05/Proofs_LimiterMon.required_vos: c05/Proofs_LimiterMon.v lib/Wire.vos c05/ModelLimiter.vos c05/Proofs_Limiter.vos c05/SpecLimiter.vos
c05/Proofs_Ranker.vo c05/Proofs_Ranker.glob c05/Proofs_Ranker.v.beautified c05/Proofs_Ranker.required_vo: c05/Proofs_Ranker.v c05/ModelRanker.vo gen/Consts_c05.vo
c05/Proofs_Ranker.vio: c05/Proofs_Ranker.v c05/ModelRanker.vio gen/Consts_c05.vio
c05/Proofs_Ranker.vos c05/Proofs_Ranker.vok c05/Proofs_Ranker.required_vos: c05/Proofs_Ranker.v c05/ModelRanker.vos gen/Consts_c05.vos
c05/Proofs_Sync.vo c05/Proofs_Sync.glob c05/Proofs_Sync.v.beautified c05/Proofs_Sync.required_vo: c05/Proofs_Sync.v c05/ModelLimiter.vo c05/Proofs_Limiter.vo c05/ModelSync.vo
c05/Proofs_Sync.vio: c05/Proofs_Sync.v c05/ModelLimiter.vio c05/Proofs_Limiter.vio c05/ModelSync.vio
c05/Proofs_Sync.vos c05/Proofs_Sync.vok c05/Proofs_Sync.required_vos: c05/Proofs_Sync.v c05/ModelLimiter.vos c05/Proofs_Limiter.vos c05/ModelSync.vos
c05/Proofs_Worker.vo c05/Proofs_Worker.glob c05/Proofs_Worker.v.beautified c05/Proofs_Worker.required_vo: c05/Proofs_Worker.v c05/ModelLimiter.vo c05/Proofs_Limiter.vo c05/ModelWorker.vo
c05/Proofs_Worker.vio: c05/Proofs_Worker.v c05/ModelLimiter.vio c05/Proofs_Limiter.vio c05/ModelWorker.vio
c05/Proofs_Worker.vos c05/Proofs_Worker.vok c05/Proofs_Worker.required_vos: c05/Proofs_Worker.v c05/ModelLimiter.vos c05/Proofs_Limiter.vos c05/ModelWorker.vos
c05/Proofs_WorkerMon.vo c05/Proofs_WorkerMon.glob c05/Proofs_WorkerMon.v.beautified c05/Proofs_WorkerMon.required_vo: c05/Proofs_WorkerMon.v lib/Wire.vo c05/ModelLimiter.vo c05/Proofs_Limiter.vo c05/ModelWorker.vo c05/Proofs_Worker.vo c05/SpecLimiter.vo c05/SpecWorker.vo
c05/Proofs_WorkerMon.vio: c05/Proofs_WorkerMon.v lib/Wire.vio c05/ModelLimiter.vio c05/Proofs_Limiter.vio c05/ModelWorker.vio c05/Proofs_Worker.vio c05/SpecLimiter.vio c05/SpecWorker.vio
c05/Proofs_WorkerMon.vos c05/Proofs_WorkerMon.vok c05/Proofs_WorkerMon.required_vos: c05/Proofs_WorkerMon.v lib/Wire.vos c05/ModelLimiter.vos c05/Proofs_Limiter.vos c05/ModelWorker.vos c05/Proofs_Worker.vos c05/SpecLimiter.vos c05/SpecWorker.vos
c05/Properties.vo c05/Properties.glob c05/Properties.v.beautified c05/Properties.required_vo: c05/Properties.v lib/Wire.vo c05/ModelLimiter.vo c05/SpecLimiter.vo c05/Proofs_Limiter.vo gen/Consts_c05.vo c05/ModelWorker.vo c05/SpecWorker.vo c05/Proofs_Worker.vo c05/ModelRanker.vo c05/SpecRanker.vo c05/Proofs_Ranker.vo c05/Proofs_LimiterMon.vo c05/Proofs_WorkerMon.vo c05/ModelSync.vo c05/SpecSync.vo c05/Proofs_Sync.vo c05/SpecDialPeer.vo
c05/Properties.vio: c05/Properties.v lib/Wire.vio c05/ModelLimiter.vio c05/SpecLimiter.vio c05/Proofs_Limiter.vio gen/Consts_c05.vio c05/ModelWorker.vio c05/SpecWorker.vio c05/Proofs_Worker.vio c05/ModelRanker.vio c05/SpecRanker.vio c05/Proofs_Ranker.vio c05/Proofs_LimiterMon.vio c05/Proofs_WorkerMon.vio c05/ModelSync.vio c05/SpecSync.vio c05/Proofs_Sync.vio c05/SpecDialPeer.vio
c05/Properties.vos c05/Properties.vok c05/Properties.required_vos: c05/Properties.v lib/Wire.vos c05/ModelLimiter.vos c05/SpecLimiter.vos c05/Proofs_Limiter.vos gen/Consts_c05.vos c05/ModelWorker.vos c05/SpecWorker.vos c05/Proofs_Worker.vos c05/ModelRanker.vos c05/SpecRanker.vos c05/Proofs_Ranker.vos c05/Proofs_LimiterMon.vos c05/Proofs_WorkerMon.vos c05/ModelSync.vos c05/SpecSync.vos c05/Proofs_Sync.vos c05/SpecDialPeer.vos
c05/Spec.vo c05/Spec.glob c05/Spec.v.beautified c05/Spec.required_vo: c05/Spec.v lib/Wire.vo c05/SpecLimiter.vo c05/SpecWorker.vo c05/SpecRanker.vo c05/SpecSync.vo c05/SpecDialPeer.vo c05/SpecComposite.vo
c05/Spec.vio: c05/Spec.v lib/Wire.vio c05/SpecLimiter.vio c05/SpecWorker.vio c05/SpecRanker.vio c05/SpecSync.vio c05/SpecDialPeer.vio c05/SpecComposite.vio
c05/Spec.vos c05/Spec.vok c05/Spec.required_vos: c05/Spec.v lib/Wire.vos c05/SpecLimiter.vos c05/SpecWorker.vos c05/SpecRanker.vos c05/SpecSync.vos c05/SpecDialPeer.vos c05/SpecComposite.vos
c05/SpecComposite.vo c05/SpecComposite.glob c05/SpecComposite.v.beautified c05/SpecComposite.required_vo: c05/SpecComposite.v lib/Wire.vo c05/ModelLimiter.vo c05/ModelWorker.vo c05/ModelSync.vo c05/ModelComposite.vo c05/SpecLimiter.vo c05/SpecWorker.vo c05/SpecDialPeer.vo
c05/SpecComposite.vio: c05/SpecComposite.v lib/Wire.vio c05/ModelLimiter.vio c05/ModelWorker.vio c05/ModelSync.vio c05/ModelComposite.vio c05/SpecLimiter.vio c05/SpecWorker.vio c05/SpecDialPeer.vio
c05/SpecComposite.vos c05/SpecComposite.vok c05/SpecComposite.required_vos: c05/SpecComposite.v lib/Wire.vos c05/ModelLimiter.vos c05/ModelWorker.vos c05/ModelSync.vos c05/ModelComposite.vos c05/SpecLimiter.vos c05/SpecWorker.vos c05/SpecDialPeer.vos
c05/SpecDialPeer.vo c05/SpecDialPeer.glob c05/SpecDialPeer.v.beautified c05/SpecDialPeer.required_vo: c05/SpecDialPeer.v lib/Wire.vo c05/ModelLimiter.vo c05/SpecLimiter.vo c05/SpecWorker.vo
c05/SpecDialPeer.vio: c05/SpecDialPeer.v lib/Wire.vio c05/ModelLimiter.vio c05/SpecLimiter.vio c05/SpecWorker.vio
c05/SpecDialPeer.vos c05/SpecDialPeer.vok c05/SpecDialPeer.required_vos: c05/SpecDialPeer.v lib/Wire.vos c05/ModelLimiter.vos c05/SpecLimiter.vos c05/SpecWorker.vos
c05/SpecLimiter.vo c05/SpecLimiter.glob c05/SpecLimiter.v.beautified c05/SpecLimiter.required_vo: c05/SpecLimiter.v lib/Wire.vo c05/ModelLimiter.vo
c05/SpecLimiter.vio: c05/SpecLimiter.v lib/Wire.vio c05/ModelLimiter.vio
c05/SpecLimiter.vos c05/SpecLimiter.vok c05/SpecLimiter.required_vos: c05/SpecLimiter.v lib/Wire.vos c05/ModelLimiter.vos
c05/SpecRanker.vo c05/SpecRanker.glob c05/SpecRanker.v.beautified c05/SpecRanker.required_vo: c05/SpecRanker.v lib/Wire.vo c05/ModelRanker.vo c05/SpecLimiter.vo
c05/SpecRanker.vio: c05/SpecRanker.v lib/Wire.vio c05/ModelRanker.vio c05/SpecLimiter.vio
c05/SpecRanker.vos c05/SpecRanker.vok c05/SpecRanker.required_vos: c05/SpecRanker.v lib/Wire.vos c05/ModelRanker.vos c05/SpecLimiter.vos
c05/SpecSync.vo c05/SpecSync.glob c05/SpecSync.v.beautified c05/SpecSync.required_vo: c05/SpecSync.v lib/Wire.vo c05/ModelLimiter.vo c05/ModelSync.vo c05/SpecLimiter.vo c05/SpecWorker.vo
c05/SpecSync.vio: c05/SpecSync.v lib/Wire.vio c05/ModelLimiter.vio c05/ModelSync.vio c05/SpecLimiter.vio c05/SpecWorker.vio
c05/SpecSync.vos c05/SpecSync.vok c05/SpecSync.required_vos: c05/SpecSync.v lib/Wire.vos c05/ModelLimiter.vos c05/ModelSync.vos c05/SpecLimiter.vos c05/SpecWorker.vos
c05/SpecWorker.vo c05/SpecWorker.glob c05/SpecWorker.v.beautified c05/SpecWorker.required_vo: c05/SpecWorker.v lib/Wire.vo c05/ModelLimiter.vo c05/ModelWorker.vo c05/SpecLimiter.vo
c05/SpecWorker.vio: c05/SpecWorker.v lib/Wire.vio c05/ModelLimiter.vio c05/ModelWorker.vio c05/SpecLimiter.vio
c05/SpecWorker.vos c05/SpecWorker.vok c05/SpecWorker.required_vos: c05/SpecWorker.v lib/Wire.vos c05/ModelLimiter.vos c05/ModelWorker.vos c05/SpecLimiter.vos
c06/Extract.vo c06/Extract.glob c06/Extract.v.beautified c06/Extract.required_vo: c06/Extract.v c06/SpecTop.vo
c06/Extract.vio: c06/Extract.v c06/SpecTop.vio
c06/Extract.vos c06/Extract.vok c06/Extract.required_vos: c06/Extract.v c06/SpecTop.vos
c06/Model.vo c06/Model.glob c06/Model.v.beautified c06/Model.required_vo: c06/Model.v 
c06/Model.vio: c06/Model.v 
c06/Model.vos c06/Model.vok c06/Model.required_vos: c06/Model.v 
c06/Proofs_accept.vo c06/Proofs_accept.glob c06/Proofs_accept.v.beautified c06/Proofs_accept.required_vo: c06/Proofs_accept.v c06/Model.vo c06/Spec.vo c06/Proofs_base.vo c06/Proofs_main.vo c06/Proofs_thms.vo
c06/Proofs_accept.vio: c06/Proofs_accept.v c06/Model.vio c06/Spec.vio c06/Proofs_base.vio c06/Proofs_main.vio c06/Proofs_thms.vio
c06/Proofs_accept.vos c06/Proofs_accept.vok c06/Proofs_accept.required_vos: c06/Proofs_accept.v c06/Model.vos c06/Spec.vos c06/Proofs_base.vos c06/Proofs_main.vos c06/Proofs_thms.vos
c06/Proofs_base.vo c06/Proofs_base.glob c06/Proofs_base.v.beautified c06/Proofs_base.required_vo: c06/Proofs_base.v c06/Model.vo c06/Spec.vo
c06/Proofs_base.vio: c06/Proofs_base.v c06/Model.vio c06/Spec.vio
c06/Proofs_base.vos c06/Proofs_base.vok c06/Proofs_base.required_vos: c06/Proofs_base.v c06/Model.vos c06/Spec.vos
c06/Proofs_close.vo c06/Proofs_close.glob c06/Proofs_close.v.beautified c06/Proofs_close.required_vo: c06/Proofs_close.v c06/Model.vo c06/Spec.vo c06/Proofs_base.vo
c06/Proofs_close.vio: c06/Proofs_close.v c06/Model.vio c06/Spec.vio c06/Proofs_base.vio
c06/Proofs_close.vos c06/Proofs_close.vok c06/Proofs_close.required_vos: c06/Proofs_close.v c06/Model.vos c06/Spec.vos c06/Proofs_base.vos
c06/Proofs_loop.vo c06/Proofs_loop.glob c06/Proofs_loop.v.beautified c06/Proofs_loop.required_vo: c06/Proofs_loop.v c06/Model.vo c06/Spec.vo c06/Proofs_base.vo c06/Proofs_close.vo
c06/Proofs_loop.vio: c06/Proofs_loop.v c06/Model.vio c06/Spec.vio c06/Proofs_base.vio c06/Proofs_close.vio
c06/Proofs_loop.vos c06/Proofs_loop.vok c06/Proofs_loop.required_vos: c06/Proofs_loop.v c06/Model.vos c06/Spec.vos c06/Proofs_base.vos c06/Proofs_close.vos
c06/Proofs_main.vo c06/Proofs_main.glob c06/Proofs_main.v.beautified c06/Proofs_main.required_vo: c06/Proofs_main.v c06/Model.vo c06/Spec.vo c06/Proofs_base.vo c06/Proofs_close.vo c06/Proofs_loop.vo c06/Proofs_truth.vo
c06/Proofs_main.vio: c06/Proofs_main.v c06/Model.vio c06/Spec.vio c06/Proofs_base.vio c06/Proofs_close.vio c06/Proofs_loop.vio c06/Proofs_truth.vio
c06/Proofs_main.vos c06/Proofs_main.vok c06/Proofs_main.required_vos: c06/Proofs_main.v c06/Model.vos c06/Spec.vos c06/Proofs_base.vos c06/Proofs_close.vos c06/Proofs_loop.vos c06/Proofs_truth.vos
c06/Proofs_thms.vo c06/Proofs_thms.glob c06/Proofs_thms.v.beautified c06/Proofs_thms.required_vo: c06/Proofs_thms.v c06/Model.vo c06/Spec.vo c06/Proofs_base.vo c06/Proofs_close.vo c06/Proofs_loop.vo c06/Proofs_truth.vo c06/Proofs_main.vo
c06/Proofs_thms.vio: c06/Proofs_thms.v c06/Model.vio c06/Spec.vio c06/Proofs_base.vio c06/Proofs_close.vio c06/Proofs_loop.vio c06/Proofs_truth.vio c06/Proofs_main.vio
c06/Proofs_thms.vos c06/Proofs_thms.vok c06/Proofs_thms.required_vos: c06/Proofs_thms.v c06/Model.vos c06/Spec.vos c06/Proofs_base.vos c06/Proofs_close.vos c06/Proofs_loop.vos c06/Proofs_truth.vos c06/Proofs_main.vos
c06/Proofs_truth.vo c06/Proofs_truth.glob c06/Proofs_truth.v.beautified c06/Proofs_truth.required_vo: c06/Proofs_truth.v c06/Model.vo c06/Spec.vo c06/Proofs_base.vo c06/Proofs_close.vo c06/Proofs_loop.vo
c06/Proofs_truth.vio: c06/Proofs_truth.v c06/Model.vio c06/Spec.vio c06/Proofs_base.vio c06/Proofs_close.vio c06/Proofs_loop.vio
c06/Proofs_truth.vos c06/Proofs_truth.vok c06/Proofs_truth.required_vos: c06/Proofs_truth.v c06/Model.vos c06/Spec.vos c06/Proofs_base.vos c06/Proofs_close.vos c06/Proofs_loop.vos
c06/Properties.vo c06/Properties.glob c06/Properties.v.beautified c06/Properties.required_vo: c06/Properties.v lib/Wire.vo c06/Model.vo c06/Spec.vo c06/Proofs_base.vo c06/Proofs_main.vo c06/Proofs_thms.vo c06/Proofs_accept.vo gen/Consts_c06.vo
c06/Properties.vio: c06/Properties.v lib/Wire.vio c06/Model.vio c06/Spec.vio c06/Proofs_base.vio c06/Proofs_main.vio c06/Proofs_thms.vio c06/Proofs_accept.vio gen/Consts_c06.vio
c06/Properties.vos c06/Properties.vok c06/Properties.required_vos: c06/Properties.v lib/Wire.vos c06/Model.vos c06/Spec.vos c06/Proofs_base.vos c06/Proofs_main.vos c06/Proofs_thms.vos c06/Proofs_accept.vos gen/Consts_c06.vos
c06/Spec.vo c06/Spec.glob c06/Spec.v.beautified c06/Spec.required_vo: c06/Spec.v lib/Wire.vo c06/Model.vo gen/Consts_c06.vo
c06/Spec.vio: c06/Spec.v lib/Wire.vio c06/Model.vio gen/Consts_c06.vio
c06/Spec.vos c06/Spec.vok c06/Spec.required_vos: c06/Spec.v lib/Wire.vos c06/Model.vos gen/Consts_c06.vos
c06/SpecSwarm.vo c06/SpecSwarm.glob c06/SpecSwarm.v.beautified c06/SpecSwarm.required_vo: c06/SpecSwarm.v lib/Wire.vo c06/Model.vo c06/Spec.vo gen/Consts_c06.vo
c06/SpecSwarm.vio: c06/SpecSwarm.v lib/Wire.vio c06/Model.vio c06/Spec.vio gen/Consts_c06.vio
c06/SpecSwarm.vos c06/SpecSwarm.vok c06/SpecSwarm.required_vos: c06/SpecSwarm.v lib/Wire.vos c06/Model.vos c06/Spec.vos gen/Consts_c06.vos
c06/SpecTop.vo c06/SpecTop.glob c06/SpecTop.v.beautified c06/SpecTop.required_vo: c06/SpecTop.v lib/Wire.vo c06/Spec.vo c06/SpecSwarm.vo
c06/SpecTop.vio: c06/SpecTop.v lib/Wire.vio c06/Spec.vio c06/SpecSwarm.vio
c06/SpecTop.vos c06/SpecTop.vok c06/SpecTop.required_vos: c06/SpecTop.v lib/Wire.vos c06/Spec.vos c06/SpecSwarm.vos
c07/Extract.vo c07/Extract.glob c07/Extract.v.beautified c07/Extract.required_vo: c07/Extract.v c07/Spec.vo
c07/Extract.vio: c07/Extract.v c07/Spec.vio
c07/Extract.vos c07/Extract.vok c07/Extract.required_vos: c07/Extract.v c07/Spec.vos
c07/Model.vo c07/Model.glob c07/Model.v.beautified c07/Model.required_vo: c07/Model.v 
c07/Model.vio: c07/Model.v 
c07/Model.vos c07/Model.vok c07/Model.required_vos: c07/Model.v 
c07/Proofs.vo c07/Proofs.glob c07/Proofs.v.beautified c07/Proofs.required_vo: c07/Proofs.v lib/Wire.vo c07/Model.vo c07/Spec.vo
c07/Proofs.vio: c07/Proofs.v lib/Wire.vio c07/Model.vio c07/Spec.vio
c07/Proofs.vos c07/Proofs.vok c07/Proofs.required_vos: c07/Proofs.v lib/Wire.vos c07/Model.vos c07/Spec.vos
c07/Proofs_hist.vo c07/Proofs_hist.glob c07/Proofs_hist.v.beautified c07/Proofs_hist.required_vo: c07/Proofs_hist.v lib/Wire.vo c07/Model.vo c07/Spec.vo c07/Proofs.vo c07/Proofs_trace.vo
c07/Proofs_hist.vio: c07/Proofs_hist.v lib/Wire.vio c07/Model.vio c07/Spec.vio c07/Proofs.vio c07/Proofs_trace.vio
c07/Proofs_hist.vos c07/Proofs_hist.vok c07/Proofs_hist.required_vos: c07/Proofs_hist.v lib/Wire.vos c07/Model.vos c07/Spec.vos c07/Proofs.vos c07/Proofs_trace.vos
c07/Proofs_thms.vo c07/Proofs_thms.glob c07/Proofs_thms.v.beautified c07/Proofs_thms.required_vo: c07/Proofs_thms.v lib/Wire.vo c07/Model.vo c07/Spec.vo c07/Proofs.vo c07/Proofs_trace.vo c07/Proofs_hist.vo
c07/Proofs_thms.vio: c07/Proofs_thms.v lib/Wire.vio c07/Model.vio c07/Spec.vio c07/Proofs.vio c07/Proofs_trace.vio c07/Proofs_hist.vio
c07/Proofs_thms.vos c07/Proofs_thms.vok c07/Proofs_thms.required_vos: c07/Proofs_thms.v lib/Wire.vos c07/Model.vos c07/Spec.vos c07/Proofs.vos c07/Proofs_trace.vos c07/Proofs_hist.vos
c07/Proofs_trace.vo c07/Proofs_trace.glob c07/Proofs_trace.v.beautified c07/Proofs_trace.required_vo: c07/Proofs_trace.v lib/Wire.vo c07/Model.vo c07/Spec.vo c07/Proofs.vo
c07/Proofs_trace.vio: c07/Proofs_trace.v lib/Wire.vio c07/Model.vio c07/Spec.vio c07/Proofs.vio
c07/Proofs_trace.vos c07/Proofs_trace.vok c07/Proofs_trace.required_vos: c07/Proofs_trace.v lib/Wire.vos c07/Model.vos c07/Spec.vos c07/Proofs.vos
c07/Properties.vo c07/Properties.glob c07/Properties.v.beautified c07/Properties.required_vo: c07/Properties.v lib/Wire.vo c07/Model.vo c07/Spec.vo c07/Proofs.vo c07/Proofs_trace.vo c07/Proofs_hist.vo c07/Proofs_thms.vo
c07/Properties.vio: c07/Properties.v lib/Wire.vio c07/Model.vio c07/Spec.vio c07/Proofs.vio c07/Proofs_trace.vio c07/Proofs_hist.vio c07/Proofs_thms.vio
c07/Properties.vos c07/Properties.vok c07/Properties.required_vos: c07/Properties.v lib/Wire.vos c07/Model.vos c07/Spec.vos c07/Proofs.vos c07/Proofs_trace.vos c07/Proofs_hist.vos c07/Proofs_thms.vos
c07/Spec.vo c07/Spec.glob c07/Spec.v.beautified c07/Spec.required_vo: c07/Spec.v lib/Wire.vo c07/Model.vo
c07/Spec.vio: c07/Spec.v lib/Wire.vio c07/Model.vio
c07/Spec.vos c07/Spec.vok c07/Spec.required_vos: c07/Spec.v lib/Wire.vos c07/Model.vos
c08/Base58.vo c08/Base58.glob c08/Base58.v.beautified c08/Base58.required_vo: c08/Base58.v c08/Varint.vo c08/Digits.vo
c08/Base58.vio: c08/Base58.v c08/Varint.vio c08/Digits.vio
c08/Base58.vos c08/Base58.vok c08/Base58.required_vos: c08/Base58.v c08/Varint.vos c08/Digits.vos
c08/Digits.vo c08/Digits.glob c08/Digits.v.beautified c08/Digits.required_vo: c08/Digits.v 
c08/Digits.vio: c08/Digits.v 
c08/Digits.vos c08/Digits.vok c08/Digits.required_vos: c08/Digits.v 
c08/Extract.vo c08/Extract.glob c08/Extract.v.beautified c08/Extract.required_vo: c08/Extract.v c08/Spec.vo
c08/Extract.vio: c08/Extract.v c08/Spec.vio
c08/Extract.vos c08/Extract.vok c08/Extract.required_vos: c08/Extract.v c08/Spec.vos
c08/Model.vo c08/Model.glob c08/Model.v.beautified c08/Model.required_vo: c08/Model.v c08/Varint.vo c08/Protobuf.vo c08/Digits.vo c08/Base58.vo
c08/Model.vio: c08/Model.v c08/Varint.vio c08/Protobuf.vio c08/Digits.vio c08/Base58.vio
c08/Model.vos c08/Model.vok c08/Model.required_vos: c08/Model.v c08/Varint.vos c08/Protobuf.vos c08/Digits.vos c08/Base58.vos
c08/Proofs.vo c08/Proofs.glob c08/Proofs.v.beautified c08/Proofs.required_vo: c08/Proofs.v c08/Varint.vo c08/Protobuf.vo c08/Digits.vo c08/Base58.vo c08/Model.vo gen/Consts_c08.vo
c08/Proofs.vio: c08/Proofs.v c08/Varint.vio c08/Protobuf.vio c08/Digits.vio c08/Base58.vio c08/Model.vio gen/Consts_c08.vio
c08/Proofs.vos c08/Proofs.vok c08/Proofs.required_vos: c08/Proofs.v c08/Varint.vos c08/Protobuf.vos c08/Digits.vos c08/Base58.vos c08/Model.vos gen/Consts_c08.vos
c08/Proofs_Env.vo c08/Proofs_Env.glob c08/Proofs_Env.v.beautified c08/Proofs_Env.required_vo: c08/Proofs_Env.v lib/Wire.vo c08/Varint.vo c08/Protobuf.vo c08/Digits.vo c08/Base58.vo c08/SymCrypto.vo c08/Model.vo c08/Proofs.vo c08/Spec.vo
c08/Proofs_Env.vio: c08/Proofs_Env.v lib/Wire.vio c08/Varint.vio c08/Protobuf.vio c08/Digits.vio c08/Base58.vio c08/SymCrypto.vio c08/Model.vio c08/Proofs.vio c08/Spec.vio
c08/Proofs_Env.vos c08/Proofs_Env.vok c08/Proofs_Env.required_vos: c08/Proofs_Env.v lib/Wire.vos c08/Varint.vos c08/Protobuf.vos c08/Digits.vos c08/Base58.vos c08/SymCrypto.vos c08/Model.vos c08/Proofs.vos c08/Spec.vos
c08/Proofs_R2.vo c08/Proofs_R2.glob c08/Proofs_R2.v.beautified c08/Proofs_R2.required_vo: c08/Proofs_R2.v lib/Wire.vo c08/Varint.vo c08/Protobuf.vo c08/Digits.vo c08/Base58.vo c08/SymCrypto.vo c08/Model.vo c08/Proofs.vo c08/Spec.vo
c08/Proofs_R2.vio: c08/Proofs_R2.v lib/Wire.vio c08/Varint.vio c08/Protobuf.vio c08/Digits.vio c08/Base58.vio c08/SymCrypto.vio c08/Model.vio c08/Proofs.vio c08/Spec.vio
c08/Proofs_R2.vos c08/Proofs_R2.vok c08/Proofs_R2.required_vos: c08/Proofs_R2.v lib/Wire.vos c08/Varint.vos c08/Protobuf.vos c08/Digits.vos c08/Base58.vos c08/SymCrypto.vos c08/Model.vos c08/Proofs.vos c08/Spec.vos
c08/Properties.vo c08/Properties.glob c08/Properties.v.beautified c08/Properties.required_vo: c08/Properties.v lib/Wire.vo c08/Varint.vo c08/Protobuf.vo c08/Digits.vo c08/Base58.vo c08/SymCrypto.vo c08/Model.vo c08/Spec.vo c08/Proofs.vo c08/Proofs_Env.vo c08/Proofs_R2.vo gen/Consts_c08.vo
c08/Properties.vio: c08/Properties.v lib/Wire.vio c08/Varint.vio c08/Protobuf.vio c08/Digits.vio c08/Base58.vio c08/SymCrypto.vio c08/Model.vio c08/Spec.vio c08/Proofs.vio c08/Proofs_Env.vio c08/Proofs_R2.vio gen/Consts_c08.vio
c08/Properties.vos c08/Properties.vok c08/Properties.required_vos: c08/Properties.v lib/Wire.vos c08/Varint.vos c08/Protobuf.vos c08/Digits.vos c08/Base58.vos c08/SymCrypto.vos c08/Model.vos c08/Spec.vos c08/Proofs.vos c08/Proofs_Env.vos c08/Proofs_R2.vos gen/Consts_c08.vos
c08/Protobuf.vo c08/Protobuf.glob c08/Protobuf.v.beautified c08/Protobuf.required_vo: c08/Protobuf.v c08/Varint.vo
c08/Protobuf.vio: c08/Protobuf.v c08/Varint.vio
c08/Protobuf.vos c08/Protobuf.vok c08/Protobuf.required_vos: c08/Protobuf.v c08/Varint.vos
c08/Spec.vo c08/Spec.glob c08/Spec.v.beautified c08/Spec.required_vo: c08/Spec.v lib/Wire.vo c08/Varint.vo c08/Protobuf.vo c08/Digits.vo c08/Base58.vo c08/Model.vo gen/Consts_c08.vo
c08/Spec.vio: c08/Spec.v lib/Wire.vio c08/Varint.vio c08/Protobuf.vio c08/Digits.vio c08/Base58.vio c08/Model.vio gen/Consts_c08.vio
c08/Spec.vos c08/Spec.vok c08/Spec.required_vos: c08/Spec.v lib/Wire.vos c08/Varint.vos c08/Protobuf.vos c08/Digits.vos c08/Base58.vos c08/Model.vos gen/Consts_c08.vos
c08/SymCrypto.vo c08/SymCrypto.glob c08/SymCrypto.v.beautified c08/SymCrypto.required_vo: c08/SymCrypto.v 
c08/SymCrypto.vio: c08/SymCrypto.v 
c08/SymCrypto.vos c08/SymCrypto.vok c08/SymCrypto.required_vos: c08/SymCrypto.v 
c08/Varint.vo c08/Varint.glob c08/Varint.v.beautified c08/Varint.required_vo: c08/Varint.v 
c08/Varint.vio: c08/Varint.v 
c08/Varint.vos c08/Varint.vok c08/Varint.required_vos: c08/Varint.v 
c09/Abs.vo c09/Abs.glob c09/Abs.v.beautified c09/Abs.required_vo: c09/Abs.v gen/Consts_c09.vo
c09/Abs.vio: c09/Abs.v gen/Consts_c09.vio
c09/Abs.vos c09/Abs.vok c09/Abs.required_vos: c09/Abs.v gen/Consts_c09.vos
c09/Extract.vo c09/Extract.glob c09/Extract.v.beautified c09/Extract.required_vo: c09/Extract.v c09/Spec.vo
c09/Extract.vio: c09/Extract.v c09/Spec.vio
c09/Extract.vos c09/Extract.vok c09/Extract.required_vos: c09/Extract.v c09/Spec.vos
c09/Model_ds.vo c09/Model_ds.glob c09/Model_ds.v.beautified c09/Model_ds.required_vo: c09/Model_ds.v gen/Consts_c09.vo c09/Abs.vo c09/Model_mem.vo
c09/Model_ds.vio: c09/Model_ds.v gen/Consts_c09.vio c09/Abs.vio c09/Model_mem.vio
c09/Model_ds.vos c09/Model_ds.vok c09/Model_ds.required_vos: c09/Model_ds.v gen/Consts_c09.vos c09/Abs.vos c09/Model_mem.vos
c09/Model_mem.vo c09/Model_mem.glob c09/Model_mem.v.beautified c09/Model_mem.required_vo: c09/Model_mem.v gen/Consts_c09.vo c09/Abs.vo
c09/Model_mem.vio: c09/Model_mem.v gen/Consts_c09.vio c09/Abs.vio
c09/Model_mem.vos c09/Model_mem.vok c09/Model_mem.required_vos: c09/Model_mem.v gen/Consts_c09.vos c09/Abs.vos
c09/Proofs.vo c09/Proofs.glob c09/Proofs.v.beautified c09/Proofs.required_vo: c09/Proofs.v lib/Wire.vo gen/Consts_c09.vo c09/Abs.vo c09/Model_mem.vo c09/Model_ds.vo c09/Spec.vo c09/Proofs_mem.vo
c09/Proofs.vio: c09/Proofs.v lib/Wire.vio gen/Consts_c09.vio c09/Abs.vio c09/Model_mem.vio c09/Model_ds.vio c09/Spec.vio c09/Proofs_mem.vio
c09/Proofs.vos c09/Proofs.vok c09/Proofs.required_vos: c09/Proofs.v lib/Wire.vos gen/Consts_c09.vos c09/Abs.vos c09/Model_mem.vos c09/Model_ds.vos c09/Spec.vos c09/Proofs_mem.vos
c09/Proofs_ds.vo c09/Proofs_ds.glob c09/Proofs_ds.v.beautified c09/Proofs_ds.required_vo: c09/Proofs_ds.v lib/Wire.vo gen/Consts_c09.vo c09/Abs.vo c09/Model_mem.vo c09/Model_ds.vo c09/Spec.vo
c09/Proofs_ds.vio: c09/Proofs_ds.v lib/Wire.vio gen/Consts_c09.vio c09/Abs.vio c09/Model_mem.vio c09/Model_ds.vio c09/Spec.vio
c09/Proofs_ds.vos c09/Proofs_ds.vok c09/Proofs_ds.required_vos: c09/Proofs_ds.v lib/Wire.vos gen/Consts_c09.vos c09/Abs.vos c09/Model_mem.vos c09/Model_ds.vos c09/Spec.vos
c09/Proofs_dsr.vo c09/Proofs_dsr.glob c09/Proofs_dsr.v.beautified c09/Proofs_dsr.required_vo: c09/Proofs_dsr.v lib/Wire.vo gen/Consts_c09.vo c09/Abs.vo c09/Model_mem.vo c09/Model_ds.vo c09/Spec.vo c09/Proofs_mem.vo c09/Proofs_ds.vo c09/Proofs.vo c09/Proofs_dsr_a.vo c09/Proofs_dsr_d.vo c09/Proofs_dsr_s.vo c09/Proofs_dsr_r.vo c09/Proofs_dsr_o.vo c09/Proofs_dsr_w.vo c09/Proofs_dsr_x.vo c09/Proofs_dsr_c.vo c09/Proofs_dsr_g.vo
c09/Proofs_dsr.vio: c09/Proofs_dsr.v lib/Wire.vio gen/Consts_c09.vio c09/Abs.vio c09/Model_mem.vio c09/Model_ds.vio c09/Spec.vio c09/Proofs_mem.vio c09/Proofs_ds.vio c09/Proofs.vio c09/Proofs_dsr_a.vio c09/Proofs_dsr_d.vio c09/Proofs_dsr_s.vio c09/Proofs_dsr_r.vio c09/Proofs_dsr_o.vio c09/Proofs_dsr_w.vio c09/Proofs_dsr_x.vio c09/Proofs_dsr_c.vio c09/Proofs_dsr_g.vio
c09/Proofs_dsr.vos c09/Proofs_dsr.vok c09/Proofs_dsr.required_vos: c09/Proofs_dsr.v lib/Wire.vos gen/Consts_c09.vos c09/Abs.vos c09/Model_mem.vos c09/Model_ds.vos c09/Spec.vos c09/Proofs_mem.vos c09/Proofs_ds.vos c09/Proofs.vos c09/Proofs_dsr_a.vos c09/Proofs_dsr_d.vos c09/Proofs_dsr_s.vos c09/Proofs_dsr_r.vos c09/Proofs_dsr_o.vos c09/Proofs_dsr_w.vos c09/Proofs_dsr_x.vos c09/Proofs_dsr_c.vos c09/Proofs_dsr_g.vos
c09/Proofs_dsr_a.vo c09/Proofs_dsr_a.glob c09/Proofs_dsr_a.v.beautified c09/Proofs_dsr_a.required_vo: c09/Proofs_dsr_a.v lib/Wire.vo gen/Consts_c09.vo c09/Abs.vo c09/Model_mem.vo c09/Model_ds.vo c09/Spec.vo c09/Proofs_mem.vo
c09/Proofs_dsr_a.vio: c09/Proofs_dsr_a.v lib/Wire.vio gen/Consts_c09.vio c09/Abs.vio c09/Model_mem.vio c09/Model_ds.vio c09/Spec.vio c09/Proofs_mem.vio
c09/Proofs_dsr_a.vos c09/Proofs_dsr_a.vok c09/Proofs_dsr_a.required_vos: c09/Proofs_dsr_a.v lib/Wire.vos gen/Consts_c09.vos c09/Abs.vos c09/Model_mem.vos c09/Model_ds.vos c09/Spec.vos c09/Proofs_mem.vos
c09/Proofs_dsr_c.vo c09/Proofs_dsr_c.glob c09/Proofs_dsr_c.v.beautified c09/Proofs_dsr_c.required_vo: c09/Proofs_dsr_c.v lib/Wire.vo gen/Consts_c09.vo c09/Abs.vo c09/Model_mem.vo c09/Model_ds.vo c09/Spec.vo c09/Proofs_mem.vo c09/Proofs_ds.vo c09/Proofs.vo c09/Proofs_dsr_a.vo c09/Proofs_dsr_d.vo c09/Proofs_dsr_s.vo c09/Proofs_dsr_r.vo c09/Proofs_dsr_o.vo c09/Proofs_dsr_w.vo c09/Proofs_dsr_x.vo
c09/Proofs_dsr_c.vio: c09/Proofs_dsr_c.v lib/Wire.vio gen/Consts_c09.vio c09/Abs.vio c09/Model_mem.vio c09/Model_ds.vio c09/Spec.vio c09/Proofs_mem.vio c09/Proofs_ds.vio c09/Proofs.vio c09/Proofs_dsr_a.vio c09/Proofs_dsr_d.vio c09/Proofs_dsr_s.vio c09/Proofs_dsr_r.vio c09/Proofs_dsr_o.vio c09/Proofs_dsr_w.vio c09/Proofs_dsr_x.vio
c09/Proofs_dsr_c.vos c09/Proofs_dsr_c.vok c09/Proofs_dsr_c.required_vos: c09/Proofs_dsr_c.v lib/Wire.vos gen/Consts_c09.vos c09/Abs.vos c09/Model_mem.vos c09/Model_ds.vos c09/Spec.vos c09/Proofs_mem.vos c09/Proofs_ds.vos c09/Proofs.vos c09/Proofs_dsr_a.vos c09/Proofs_dsr_d.vos c09/Proofs_dsr_s.vos c09/Proofs_dsr_r.vos c09/Proofs_dsr_o.vos c09/Proofs_dsr_w.vos c09/Proofs_dsr_x.vos
c09/Proofs_dsr_d.vo c09/Proofs_dsr_d.glob c09/Proofs_dsr_d.v.beautified c09/Proofs_dsr_d.required_vo: c09/Proofs_dsr_d.v lib/Wire.vo gen/Consts_c09.vo c09/Abs.vo c09/Model_mem.vo c09/Model_ds.vo c09/Spec.vo c09/Proofs_mem.vo c09/Proofs_ds.vo c09/Proofs_dsr_a.vo
c09/Proofs_dsr_d.vio: c09/Proofs_dsr_d.v lib/Wire.vio gen/Consts_c09.vio c09/Abs.vio c09/Model_mem.vio c09/Model_ds.vio c09/Spec.vio c09/Proofs_mem.vio c09/Proofs_ds.vio c09/Proofs_dsr_a.vio
c09/Proofs_dsr_d.vos c09/Proofs_dsr_d.vok c09/Proofs_dsr_d.required_vos: c09/Proofs_dsr_d.v lib/Wire.vos gen/Consts_c09.vos c09/Abs.vos c09/Model_mem.vos c09/Model_ds.vos c09/Spec.vos c09/Proofs_mem.vos c09/Proofs_ds.vos c09/Proofs_dsr_a.vos
c09/Proofs_dsr_g.vo c09/Proofs_dsr_g.glob c09/Proofs_dsr_g.v.beautified c09/Proofs_dsr_g.required_vo: c09/Proofs_dsr_g.v lib/Wire.vo gen/Consts_c09.vo c09/Abs.vo c09/Model_mem.vo c09/Model_ds.vo c09/Spec.vo c09/Proofs_mem.vo c09/Proofs_ds.vo c09/Proofs.vo c09/Proofs_dsr_a.vo c09/Proofs_dsr_d.vo c09/Proofs_dsr_s.vo c09/Proofs_dsr_r.vo c09/Proofs_dsr_o.vo c09/Proofs_dsr_w.vo c09/Proofs_dsr_x.vo
c09/Proofs_dsr_g.vio: c09/Proofs_dsr_g.v lib/Wire.vio gen/Consts_c09.vio c09/Abs.vio c09/Model_mem.vio c09/Model_ds.vio c09/Spec.vio c09/Proofs_mem.vio c09/Proofs_ds.vio c09/Proofs.vio c09/Proofs_dsr_a.vio c09/Proofs_dsr_d.vio c09/Proofs_dsr_s.vio c09/Proofs_dsr_r.vio c09/Proofs_dsr_o.vio c09/Proofs_dsr_w.vio c09/Proofs_dsr_x.vio
c09/Proofs_dsr_g.vos c09/Proofs_dsr_g.vok c09/Proofs_dsr_g.required_vos: c09/Proofs_dsr_g.v lib/Wire.vos gen/Consts_c09.vos c09/Abs.vos c09/Model_mem.vos c09/Model_ds.vos c09/Spec.vos c09/Proofs_mem.vos c09/Proofs_ds.vos c09/Proofs.vos c09/Proofs_dsr_a.vos c09/Proofs_dsr_d.vos c09/Proofs_dsr_s.vos c09/Proofs_dsr_r.vos c09/Proofs_dsr_o.vos c09/Proofs_dsr_w.vos c09/Proofs_dsr_x.vos
c09/Proofs_dsr_o.vo c09/Proofs_dsr_o.glob c09/Proofs_dsr_o.v.beautified c09/Proofs_dsr_o.required_vo: c09/Proofs_dsr_o.v lib/Wire.vo gen/Consts_c09.vo c09/Abs.vo c09/Model_mem.vo c09/Model_ds.vo c09/Spec.vo c09/Proofs_mem.vo c09/Proofs_ds.vo c09/Proofs.vo c09/Proofs_dsr_a.vo c09/Proofs_dsr_d.vo c09/Proofs_dsr_s.vo c09/Proofs_dsr_r.vo
c09/Proofs_dsr_o.vio: c09/Proofs_dsr_o.v lib/Wire.vio gen/Consts_c09.vio c09/Abs.vio c09/Model_mem.vio c09/Model_ds.vio c09/Spec.vio c09/Proofs_mem.vio c09/Proofs_ds.vio c09/Proofs.vio c09/Proofs_dsr_a.vio c09/Proofs_dsr_d.vio c09/Proofs_dsr_s.vio c09/Proofs_dsr_r.vio
c09/Proofs_dsr_o.vos c09/Proofs_dsr_o.vok c09/Proofs_dsr_o.required_vos: c09/Proofs_dsr_o.v lib/Wire.vos gen/Consts_c09.vos c09/Abs.vos c09/Model_mem.vos c09/Model_ds.vos c09/Spec.vos c09/Proofs_mem.vos c09/Proofs_ds.vos c09/Proofs.vos c09/Proofs_dsr_a.vos c09/Proofs_dsr_d.vos c09/Proofs_dsr_s.vos c09/Proofs_dsr_r.vos
c09/Proofs_dsr_r.vo c09/Proofs_dsr_r.glob c09/Proofs_dsr_r.v.beautified c09/Proofs_dsr_r.required_vo: c09/Proofs_dsr_r.v lib/Wire.vo gen/Consts_c09.vo c09/Abs.vo c09/Model_mem.vo c09/Model_ds.vo c09/Spec.vo c09/Proofs_mem.vo c09/Proofs_ds.vo c09/Proofs.vo c09/Proofs_dsr_a.vo c09/Proofs_dsr_d.vo c09/Proofs_dsr_s.vo
c09/Proofs_dsr_r.vio: c09/Proofs_dsr_r.v lib/Wire.vio gen/Consts_c09.vio c09/Abs.vio c09/Model_mem.vio c09/Model_ds.vio c09/Spec.vio c09/Proofs_mem.vio c09/Proofs_ds.vio c09/Proofs.vio c09/Proofs_dsr_a.vio c09/Proofs_dsr_d.vio c09/Proofs_dsr_s.vio
c09/Proofs_dsr_r.vos c09/Proofs_dsr_r.vok c09/Proofs_dsr_r.required_vos: c09/Proofs_dsr_r.v lib/Wire.vos gen/Consts_c09.vos c09/Abs.vos c09/Model_mem.vos c09/Model_ds.vos c09/Spec.vos c09/Proofs_mem.vos c09/Proofs_ds.vos c09/Proofs.vos c09/Proofs_dsr_a.vos c09/Proofs_dsr_d.vos c09/Proofs_dsr_s.vos
c09/Proofs_dsr_s.vo c09/Proofs_dsr_s.glob c09/Proofs_dsr_s.v.beautified c09/Proofs_dsr_s.required_vo: c09/Proofs_dsr_s.v lib/Wire.vo gen/Consts_c09.vo c09/Abs.vo c09/Model_mem.vo c09/Model_ds.vo c09/Spec.vo c09/Proofs_mem.vo c09/Proofs_ds.vo c09/Proofs_dsr_a.vo c09/Proofs_dsr_d.vo
c09/Proofs_dsr_s.vio: c09/Proofs_dsr_s.v lib/Wire.vio gen/Consts_c09.vio c09/Abs.vio c09/Model_mem.vio c09/Model_ds.vio c09/Spec.vio c09/Proofs_mem.vio c09/Proofs_ds.vio c09/Proofs_dsr_a.vio c09/Proofs_dsr_d.vio
c09/Proofs_dsr_s.vos c09/Proofs_dsr_s.vok c09/Proofs_dsr_s.required_vos: c09/Proofs_dsr_s.v lib/Wire.vos gen/Consts_c09.vos c09/Abs.vos c09/Model_mem.vos c09/Model_ds.vos c09/Spec.vos c09/Proofs_mem.vos c09/Proofs_ds.vos c09/Proofs_dsr_a.vos c09/Proofs_dsr_d.vos
c09/Proofs_dsr_w.vo c09/Proofs_dsr_w.glob c09/Proofs_dsr_w.v.beautified c09/Proofs_dsr_w.required_vo: c09/Proofs_dsr_w.v lib/Wire.vo gen/Consts_c09.vo c09/Abs.vo c09/Model_mem.vo c09/Model_ds.vo c09/Spec.vo c09/Proofs_mem.vo c09/Proofs_ds.vo c09/Proofs.vo c09/Proofs_dsr_a.vo c09/Proofs_dsr_d.vo c09/Proofs_dsr_s.vo c09/Proofs_dsr_r.vo c09/Proofs_dsr_o.vo
c09/Proofs_dsr_w.vio: c09/Proofs_dsr_w.v lib/Wire.vio gen/Consts_c09.vio c09/Abs.vio c09/Model_mem.vio c09/Model_ds.vio c09/Spec.vio c09/Proofs_mem.vio c09/Proofs_ds.vio c09/Proofs.vio c09/Proofs_dsr_a.vio c09/Proofs_dsr_d.vio c09/Proofs_dsr_s.vio c09/Proofs_dsr_r.vio c09/Proofs_dsr_o.vio
c09/Proofs_dsr_w.vos c09/Proofs_dsr_w.vok c09/Proofs_dsr_w.required_vos: c09/Proofs_dsr_w.v lib/Wire.vos gen/Consts_c09.vos c09/Abs.vos c09/Model_mem.vos c09/Model_ds.vos c09/Spec.vos c09/Proofs_mem.vos c09/Proofs_ds.vos c09/Proofs.vos c09/Proofs_dsr_a.vos c09/Proofs_dsr_d.vos c09/Proofs_dsr_s.vos c09/Proofs_dsr_r.vos c09/Proofs_dsr_o.vos
c09/Proofs_dsr_x.vo c09/Proofs_dsr_x.glob c09/Proofs_dsr_x.v.beautified c09/Proofs_dsr_x.required_vo: c09/Proofs_dsr_x.v lib/Wire.vo gen/Consts_c09.vo c09/Abs.vo c09/Model_mem.vo c09/Model_ds.vo c09/Spec.vo c09/Proofs_mem.vo c09/Proofs_ds.vo c09/Proofs.vo c09/Proofs_dsr_a.vo c09/Proofs_dsr_d.vo c09/Proofs_dsr_s.vo c09/Proofs_dsr_r.vo c09/Proofs_dsr_o.vo c09/Proofs_dsr_w.vo
c09/Proofs_dsr_x.vio: c09/Proofs_dsr_x.v lib/Wire.vio gen/Consts_c09.vio c09/Abs.vio c09/Model_mem.vio c09/Model_ds.vio c09/Spec.vio c09/Proofs_mem.vio c09/Proofs_ds.vio c09/Proofs.vio c09/Proofs_dsr_a.vio c09/Proofs_dsr_d.vio c09/Proofs_dsr_s.vio c09/Proofs_dsr_r.vio c09/Proofs_dsr_o.vio c09/Proofs_dsr_w.vio
c09/Proofs_dsr_x.vos c09/Proofs_dsr_x.vok c09/Proofs_dsr_x.required_vos: c09/Proofs_dsr_x.v lib/Wire.vos gen/Consts_c09.vos c09/Abs.vos c09/Model_mem.vos c09/Model_ds.vos c09/Spec.vos c09/Proofs_mem.vos c09/Proofs_ds.vos c09/Proofs.vos c09/Proofs_dsr_a.vos c09/Proofs_dsr_d.vos c09/Proofs_dsr_s.vos c09/Proofs_dsr_r.vos c09/Proofs_dsr_o.vos c09/Proofs_dsr_w.vos
c09/Proofs_mem.vo c09/Proofs_mem.glob c09/Proofs_mem.v.beautified c09/Proofs_mem.required_vo: c09/Proofs_mem.v lib/Wire.vo gen/Consts_c09.vo c09/Abs.vo c09/Model_mem.vo c09/Model_ds.vo c09/Spec.vo
c09/Proofs_mem.vio: c09/Proofs_mem.v lib/Wire.vio gen/Consts_c09.vio c09/Abs.vio c09/Model_mem.vio c09/Model_ds.vio c09/Spec.vio
c09/Proofs_mem.vos c09/Proofs_mem.vok c09/Proofs_mem.required_vos: c09/Proofs_mem.v lib/Wire.vos gen/Consts_c09.vos c09/Abs.vos c09/Model_mem.vos c09/Model_ds.vos c09/Spec.vos
c09/Properties.vo c09/Properties.glob c09/Properties.v.beautified c09/Properties.required_vo: c09/Properties.v lib/Wire.vo gen/Consts_c09.vo c09/Abs.vo c09/Model_mem.vo c09/Model_ds.vo c09/Spec.vo c09/Proofs_mem.vo c09/Proofs_ds.vo c09/Proofs.vo c09/Proofs_dsr_w.vo c09/Proofs_dsr.vo
c09/Properties.vio: c09/Properties.v lib/Wire.vio gen/Consts_c09.vio c09/Abs.vio c09/Model_mem.vio c09/Model_ds.vio c09/Spec.vio c09/Proofs_mem.vio c09/Proofs_ds.vio c09/Proofs.vio c09/Proofs_dsr_w.vio c09/Proofs_dsr.vio
c09/Properties.vos c09/Properties.vok c09/Properties.required_vos: c09/Properties.v lib/Wire.vos gen/Consts_c09.vos c09/Abs.vos c09/Model_mem.vos c09/Model_ds.vos c09/Spec.vos c09/Proofs_mem.vos c09/Proofs_ds.vos c09/Proofs.vos c09/Proofs_dsr_w.vos c09/Proofs_dsr.vos
c09/Spec.vo c09/Spec.glob c09/Spec.v.beautified c09/Spec.required_vo: c09/Spec.v lib/Wire.vo gen/Consts_c09.vo c09/Abs.vo c09/Model_mem.vo c09/Model_ds.vo
c09/Spec.vio: c09/Spec.v lib/Wire.vio gen/Consts_c09.vio c09/Abs.vio c09/Model_mem.vio c09/Model_ds.vio
c09/Spec.vos c09/Spec.vok c09/Spec.required_vos: c09/Spec.v lib/Wire.vos gen/Consts_c09.vos c09/Abs.vos c09/Model_mem.vos c09/Model_ds.vos
c10/Extract.vo c10/Extract.glob c10/Extract.v.beautified c10/Extract.required_vo: c10/Extract.v c10/Spec.vo
c10/Extract.vio: c10/Extract.v c10/Spec.vio
c10/Extract.vos c10/Extract.vok c10/Extract.required_vos: c10/Extract.v c10/Spec.vos
c10/Model.vo c10/Model.glob c10/Model.v.beautified c10/Model.required_vo: c10/Model.v 
c10/Model.vio: c10/Model.v 
c10/Model.vos c10/Model.vok c10/Model.required_vos: c10/Model.v 
c10/Proofs.vo c10/Proofs.glob c10/Proofs.v.beautified c10/Proofs.required_vo: c10/Proofs.v lib/Wire.vo c10/Model.vo c10/Spec.vo c10/Proofs_ip.vo
c10/Proofs.vio: c10/Proofs.v lib/Wire.vio c10/Model.vio c10/Spec.vio c10/Proofs_ip.vio
c10/Proofs.vos c10/Proofs.vok c10/Proofs.required_vos: c10/Proofs.v lib/Wire.vos c10/Model.vos c10/Spec.vos c10/Proofs_ip.vos
c10/Proofs_ip.vo c10/Proofs_ip.glob c10/Proofs_ip.v.beautified c10/Proofs_ip.required_vo: c10/Proofs_ip.v lib/Wire.vo c10/Model.vo c10/Spec.vo
c10/Proofs_ip.vio: c10/Proofs_ip.v lib/Wire.vio c10/Model.vio c10/Spec.vio
c10/Proofs_ip.vos c10/Proofs_ip.vok c10/Proofs_ip.required_vos: c10/Proofs_ip.v lib/Wire.vos c10/Model.vos c10/Spec.vos
c10/Proofs_mon.vo c10/Proofs_mon.glob c10/Proofs_mon.v.beautified c10/Proofs_mon.required_vo: c10/Proofs_mon.v lib/Wire.vo c10/Model.vo c10/Spec.vo c10/Proofs_ip.vo c10/Proofs.vo
c10/Proofs_mon.vio: c10/Proofs_mon.v lib/Wire.vio c10/Model.vio c10/Spec.vio c10/Proofs_ip.vio c10/Proofs.vio
c10/Proofs_mon.vos c10/Proofs_mon.vok c10/Proofs_mon.required_vos: c10/Proofs_mon.v lib/Wire.vos c10/Model.vos c10/Spec.vos c10/Proofs_ip.vos c10/Proofs.vos
c10/Proofs_pipe.vo c10/Proofs_pipe.glob c10/Proofs_pipe.v.beautified c10/Proofs_pipe.required_vo: c10/Proofs_pipe.v lib/Wire.vo c10/Model.vo c10/Spec.vo c10/Proofs_ip.vo c10/Proofs.vo c10/Proofs_mon.vo
c10/Proofs_pipe.vio: c10/Proofs_pipe.v lib/Wire.vio c10/Model.vio c10/Spec.vio c10/Proofs_ip.vio c10/Proofs.vio c10/Proofs_mon.vio
c10/Proofs_pipe.vos c10/Proofs_pipe.vok c10/Proofs_pipe.required_vos: c10/Proofs_pipe.v lib/Wire.vos c10/Model.vos c10/Spec.vos c10/Proofs_ip.vos c10/Proofs.vos c10/Proofs_mon.vos
c10/Properties.vo c10/Properties.glob c10/Properties.v.beautified c10/Properties.required_vo: c10/Properties.v lib/Wire.vo c10/Model.vo c10/Spec.vo c10/Proofs_ip.vo c10/Proofs.vo c10/Proofs_mon.vo c10/Proofs_pipe.vo gen/Consts_c10.vo
c10/Properties.vio: c10/Properties.v lib/Wire.vio c10/Model.vio c10/Spec.vio c10/Proofs_ip.vio c10/Proofs.vio c10/Proofs_mon.vio c10/Proofs_pipe.vio gen/Consts_c10.vio
c10/Properties.vos c10/Properties.vok c10/Properties.required_vos: c10/Properties.v lib/Wire.vos c10/Model.vos c10/Spec.vos c10/Proofs_ip.vos c10/Proofs.vos c10/Proofs_mon.vos c10/Proofs_pipe.vos gen/Consts_c10.vos
c10/Spec.vo c10/Spec.glob c10/Spec.v.beautified c10/Spec.required_vo: c10/Spec.v lib/Wire.vo c10/Model.vo
c10/Spec.vio: c10/Spec.v lib/Wire.vio c10/Model.vio
c10/Spec.vos c10/Spec.vok c10/Spec.required_vos: c10/Spec.v lib/Wire.vos c10/Model.vos
c11/ClientModel.vo c11/ClientModel.glob c11/ClientModel.v.beautified c11/ClientModel.required_vo: c11/ClientModel.v c08/Model.vo gen/Consts_c11.vo
c11/ClientModel.vio: c11/ClientModel.v c08/Model.vio gen/Consts_c11.vio
c11/ClientModel.vos c11/ClientModel.vok c11/ClientModel.required_vos: c11/ClientModel.v c08/Model.vos gen/Consts_c11.vos
c11/Extract.vo c11/Extract.glob c11/Extract.v.beautified c11/Extract.required_vo: c11/Extract.v c11/Spec.vo
c11/Extract.vio: c11/Extract.v c11/Spec.vio
c11/Extract.vos c11/Extract.vok c11/Extract.required_vos: c11/Extract.v c11/Spec.vos
c11/Model.vo c11/Model.glob c11/Model.v.beautified c11/Model.required_vo: c11/Model.v gen/Consts_c11.vo
c11/Model.vio: c11/Model.v gen/Consts_c11.vio
c11/Model.vos c11/Model.vok c11/Model.required_vos: c11/Model.v gen/Consts_c11.vos
c11/Proofs.vo c11/Proofs.glob c11/Proofs.v.beautified c11/Proofs.required_vo: c11/Proofs.v lib/Wire.vo gen/Consts_c11.vo c11/Model.vo c11/Spec.vo
c11/Proofs.vio: c11/Proofs.v lib/Wire.vio gen/Consts_c11.vio c11/Model.vio c11/Spec.vio
c11/Proofs.vos c11/Proofs.vok c11/Proofs.required_vos: c11/Proofs.v lib/Wire.vos gen/Consts_c11.vos c11/Model.vos c11/Spec.vos
c11/Proofs_Caps.vo c11/Proofs_Caps.glob c11/Proofs_Caps.v.beautified c11/Proofs_Caps.required_vo: c11/Proofs_Caps.v lib/Wire.vo gen/Consts_c11.vo c11/Model.vo c11/Spec.vo
c11/Proofs_Caps.vio: c11/Proofs_Caps.v lib/Wire.vio gen/Consts_c11.vio c11/Model.vio c11/Spec.vio
c11/Proofs_Caps.vos c11/Proofs_Caps.vok c11/Proofs_Caps.required_vos: c11/Proofs_Caps.v lib/Wire.vos gen/Consts_c11.vos c11/Model.vos c11/Spec.vos
c11/Proofs_Circ.vo c11/Proofs_Circ.glob c11/Proofs_Circ.v.beautified c11/Proofs_Circ.required_vo: c11/Proofs_Circ.v gen/Consts_c11.vo c11/Model.vo c11/Proofs_Frame.vo
c11/Proofs_Circ.vio: c11/Proofs_Circ.v gen/Consts_c11.vio c11/Model.vio c11/Proofs_Frame.vio
c11/Proofs_Circ.vos c11/Proofs_Circ.vok c11/Proofs_Circ.required_vos: c11/Proofs_Circ.v gen/Consts_c11.vos c11/Model.vos c11/Proofs_Frame.vos
c11/Proofs_Client.vo c11/Proofs_Client.glob c11/Proofs_Client.v.beautified c11/Proofs_Client.required_vo: c11/Proofs_Client.v c08/SymCrypto.vo c08/Model.vo c08/Proofs.vo c08/Proofs_Env.vo gen/Consts_c11.vo c11/ClientModel.vo
c11/Proofs_Client.vio: c11/Proofs_Client.v c08/SymCrypto.vio c08/Model.vio c08/Proofs.vio c08/Proofs_Env.vio gen/Consts_c11.vio c11/ClientModel.vio
c11/Proofs_Client.vos c11/Proofs_Client.vok c11/Proofs_Client.required_vos: c11/Proofs_Client.v c08/SymCrypto.vos c08/Model.vos c08/Proofs.vos c08/Proofs_Env.vos gen/Consts_c11.vos c11/ClientModel.vos
c11/Proofs_Cnt.vo c11/Proofs_Cnt.glob c11/Proofs_Cnt.v.beautified c11/Proofs_Cnt.required_vo: c11/Proofs_Cnt.v lib/Wire.vo gen/Consts_c11.vo c11/Model.vo c11/Spec.vo
c11/Proofs_Cnt.vio: c11/Proofs_Cnt.v lib/Wire.vio gen/Consts_c11.vio c11/Model.vio c11/Spec.vio
c11/Proofs_Cnt.vos c11/Proofs_Cnt.vok c11/Proofs_Cnt.required_vos: c11/Proofs_Cnt.v lib/Wire.vos gen/Consts_c11.vos c11/Model.vos c11/Spec.vos
c11/Proofs_Frame.vo c11/Proofs_Frame.glob c11/Proofs_Frame.v.beautified c11/Proofs_Frame.required_vo: c11/Proofs_Frame.v gen/Consts_c11.vo c11/Model.vo
c11/Proofs_Frame.vio: c11/Proofs_Frame.v gen/Consts_c11.vio c11/Model.vio
c11/Proofs_Frame.vos c11/Proofs_Frame.vok c11/Proofs_Frame.required_vos: c11/Proofs_Frame.v gen/Consts_c11.vos c11/Model.vos
c11/Proofs_Life.vo c11/Proofs_Life.glob c11/Proofs_Life.v.beautified c11/Proofs_Life.required_vo: c11/Proofs_Life.v lib/Wire.vo gen/Consts_c11.vo c11/Model.vo c11/Spec.vo
c11/Proofs_Life.vio: c11/Proofs_Life.v lib/Wire.vio gen/Consts_c11.vio c11/Model.vio c11/Spec.vio
c11/Proofs_Life.vos c11/Proofs_Life.vok c11/Proofs_Life.required_vos: c11/Proofs_Life.v lib/Wire.vos gen/Consts_c11.vos c11/Model.vos c11/Spec.vos
c11/Proofs_Mon.vo c11/Proofs_Mon.glob c11/Proofs_Mon.v.beautified c11/Proofs_Mon.required_vo: c11/Proofs_Mon.v lib/Wire.vo gen/Consts_c11.vo c11/Model.vo c11/Spec.vo c11/Proofs.vo c11/Proofs_Frame.vo c11/Proofs_Cnt.vo c11/Proofs_Caps.vo c11/Proofs_Life.vo c11/Proofs_Circ.vo c11/Proofs_Rsv.vo
c11/Proofs_Mon.vio: c11/Proofs_Mon.v lib/Wire.vio gen/Consts_c11.vio c11/Model.vio c11/Spec.vio c11/Proofs.vio c11/Proofs_Frame.vio c11/Proofs_Cnt.vio c11/Proofs_Caps.vio c11/Proofs_Life.vio c11/Proofs_Circ.vio c11/Proofs_Rsv.vio
c11/Proofs_Mon.vos c11/Proofs_Mon.vok c11/Proofs_Mon.required_vos: c11/Proofs_Mon.v lib/Wire.vos gen/Consts_c11.vos c11/Model.vos c11/Spec.vos c11/Proofs.vos c11/Proofs_Frame.vos c11/Proofs_Cnt.vos c11/Proofs_Caps.vos c11/Proofs_Life.vos c11/Proofs_Circ.vos c11/Proofs_Rsv.vos
c11/Proofs_Rsv.vo c11/Proofs_Rsv.glob c11/Proofs_Rsv.v.beautified c11/Proofs_Rsv.required_vo: c11/Proofs_Rsv.v gen/Consts_c11.vo c11/Model.vo c11/Proofs_Frame.vo c11/Proofs_Life.vo
c11/Proofs_Rsv.vio: c11/Proofs_Rsv.v gen/Consts_c11.vio c11/Model.vio c11/Proofs_Frame.vio c11/Proofs_Life.vio
c11/Proofs_Rsv.vos c11/Proofs_Rsv.vok c11/Proofs_Rsv.required_vos: c11/Proofs_Rsv.v gen/Consts_c11.vos c11/Model.vos c11/Proofs_Frame.vos c11/Proofs_Life.vos
c11/Proofs_Voucher.vo c11/Proofs_Voucher.glob c11/Proofs_Voucher.v.beautified c11/Proofs_Voucher.required_vo: c11/Proofs_Voucher.v c08/Varint.vo c08/Protobuf.vo c08/SymCrypto.vo c08/Model.vo c08/Proofs.vo c08/Proofs_Env.vo c08/Proofs_R2.vo gen/Consts_c11.vo c11/ClientModel.vo c11/VoucherModel.vo c11/Proofs_Client.vo c11/Model.vo
c11/Proofs_Voucher.vio: c11/Proofs_Voucher.v c08/Varint.vio c08/Protobuf.vio c08/SymCrypto.vio c08/Model.vio c08/Proofs.vio c08/Proofs_Env.vio c08/Proofs_R2.vio gen/Consts_c11.vio c11/ClientModel.vio c11/VoucherModel.vio c11/Proofs_Client.vio c11/Model.vio
c11/Proofs_Voucher.vos c11/Proofs_Voucher.vok c11/Proofs_Voucher.required_vos: c11/Proofs_Voucher.v c08/Varint.vos c08/Protobuf.vos c08/SymCrypto.vos c08/Model.vos c08/Proofs.vos c08/Proofs_Env.vos c08/Proofs_R2.vos gen/Consts_c11.vos c11/ClientModel.vos c11/VoucherModel.vos c11/Proofs_Client.vos c11/Model.vos
c11/Properties.vo c11/Properties.glob c11/Properties.v.beautified c11/Properties.required_vo: c11/Properties.v lib/Wire.vo gen/Consts_c11.vo c11/Model.vo c11/Spec.vo c11/Proofs.vo c11/Proofs_Cnt.vo c11/Proofs_Caps.vo c11/Proofs_Life.vo c11/Proofs_Circ.vo c11/Proofs_Rsv.vo c11/Proofs_Mon.vo c08/Varint.vo c08/SymCrypto.vo c08/Model.vo c08/Proofs.vo c08/Proofs_Env.vo c11/ClientModel.vo c11/SpecClient.vo c11/Proofs_Client.vo c11/VoucherModel.vo c11/Proofs_Voucher.vo
c11/Properties.vio: c11/Properties.v lib/Wire.vio gen/Consts_c11.vio c11/Model.vio c11/Spec.vio c11/Proofs.vio c11/Proofs_Cnt.vio c11/Proofs_Caps.vio c11/Proofs_Life.vio c11/Proofs_Circ.vio c11/Proofs_Rsv.vio c11/Proofs_Mon.vio c08/Varint.vio c08/SymCrypto.vio c08/Model.vio c08/Proofs.vio c08/Proofs_Env.vio c11/ClientModel.vio c11/SpecClient.vio c11/Proofs_Client.vio c11/VoucherModel.vio c11/Proofs_Voucher.vio
c11/Properties.vos c11/Properties.vok c11/Properties.required_vos: c11/Properties.v lib/Wire.vos gen/Consts_c11.vos c11/Model.vos c11/Spec.vos c11/Proofs.vos c11/Proofs_Cnt.vos c11/Proofs_Caps.vos c11/Proofs_Life.vos c11/Proofs_Circ.vos c11/Proofs_Rsv.vos c11/Proofs_Mon.vos c08/Varint.vos c08/SymCrypto.vos c08/Model.vos c08/Proofs.vos c08/Proofs_Env.vos c11/ClientModel.vos c11/SpecClient.vos c11/Proofs_Client.vos c11/VoucherModel.vos c11/Proofs_Voucher.vos
c11/Spec.vo c11/Spec.glob c11/Spec.v.beautified c11/Spec.required_vo: c11/Spec.v lib/Wire.vo gen/Consts_c11.vo c11/Model.vo c11/SpecClient.vo
c11/Spec.vio: c11/Spec.v lib/Wire.vio gen/Consts_c11.vio c11/Model.vio c11/SpecClient.vio
c11/Spec.vos c11/Spec.vok c11/Spec.required_vos: c11/Spec.v lib/Wire.vos gen/Consts_c11.vos c11/Model.vos c11/SpecClient.vos
c11/SpecClient.vo c11/SpecClient.glob c11/SpecClient.v.beautified c11/SpecClient.required_vo: c11/SpecClient.v lib/Wire.vo c08/Model.vo gen/Consts_c11.vo c11/ClientModel.vo
c11/SpecClient.vio: c11/SpecClient.v lib/Wire.vio c08/Model.vio gen/Consts_c11.vio c11/ClientModel.vio
c11/SpecClient.vos c11/SpecClient.vok c11/SpecClient.required_vos: c11/SpecClient.v lib/Wire.vos c08/Model.vos gen/Consts_c11.vos c11/ClientModel.vos
c11/VoucherModel.vo c11/VoucherModel.glob c11/VoucherModel.v.beautified c11/VoucherModel.required_vo: c11/VoucherModel.v c08/Model.vo gen/Consts_c11.vo c11/ClientModel.vo
c11/VoucherModel.vio: c11/VoucherModel.v c08/Model.vio gen/Consts_c11.vio c11/ClientModel.vio
c11/VoucherModel.vos c11/VoucherModel.vok c11/VoucherModel.required_vos: c11/VoucherModel.v c08/Model.vos gen/Consts_c11.vos c11/ClientModel.vos
c12/Extract.vo c12/Extract.glob c12/Extract.v.beautified c12/Extract.required_vo: c12/Extract.v c12/Spec.vo
c12/Extract.vio: c12/Extract.v c12/Spec.vio
c12/Extract.vos c12/Extract.vok c12/Extract.required_vos: c12/Extract.v c12/Spec.vos
c12/Model.vo c12/Model.glob c12/Model.v.beautified c12/Model.required_vo: c12/Model.v 
c12/Model.vio: c12/Model.v 
c12/Model.vos c12/Model.vok c12/Model.required_vos: c12/Model.v 
c12/ModelHP.vo c12/ModelHP.glob c12/ModelHP.v.beautified c12/ModelHP.required_vo: c12/ModelHP.v 
c12/ModelHP.vio: c12/ModelHP.v 
c12/ModelHP.vos c12/ModelHP.vok c12/ModelHP.required_vos: c12/ModelHP.v 
c12/Proofs_clauses.vo c12/Proofs_clauses.glob c12/Proofs_clauses.v.beautified c12/Proofs_clauses.required_vo: c12/Proofs_clauses.v lib/Wire.vo c12/Model.vo c12/SpecSwarm.vo c12/Proofs_conn.vo c12/Proofs_inv.vo c12/Proofs_wait.vo c12/Proofs_wake.vo c12/Proofs_trace.vo c12/Proofs_quiesce.vo c12/Proofs_stim.vo
c12/Proofs_clauses.vio: c12/Proofs_clauses.v lib/Wire.vio c12/Model.vio c12/SpecSwarm.vio c12/Proofs_conn.vio c12/Proofs_inv.vio c12/Proofs_wait.vio c12/Proofs_wake.vio c12/Proofs_trace.vio c12/Proofs_quiesce.vio c12/Proofs_stim.vio
c12/Proofs_clauses.vos c12/Proofs_clauses.vok c12/Proofs_clauses.required_vos: c12/Proofs_clauses.v lib/Wire.vos c12/Model.vos c12/SpecSwarm.vos c12/Proofs_conn.vos c12/Proofs_inv.vos c12/Proofs_wait.vos c12/Proofs_wake.vos c12/Proofs_trace.vos c12/Proofs_quiesce.vos c12/Proofs_stim.vos
c12/Proofs_conn.vo c12/Proofs_conn.glob c12/Proofs_conn.v.beautified c12/Proofs_conn.required_vo: c12/Proofs_conn.v c12/Model.vo
c12/Proofs_conn.vio: c12/Proofs_conn.v c12/Model.vio
c12/Proofs_conn.vos c12/Proofs_conn.vok c12/Proofs_conn.required_vos: c12/Proofs_conn.v c12/Model.vos
c12/Proofs_headline.vo c12/Proofs_headline.glob c12/Proofs_headline.v.beautified c12/Proofs_headline.required_vo: c12/Proofs_headline.v lib/Wire.vo c12/Model.vo c12/SpecSwarm.vo c12/Proofs_conn.vo c12/Proofs_inv.vo c12/Proofs_wait.vo c12/Proofs_wake.vo c12/Proofs_trace.vo c12/Proofs_quiesce.vo c12/Proofs_stim.vo c12/Proofs_clauses.vo
c12/Proofs_headline.vio: c12/Proofs_headline.v lib/Wire.vio c12/Model.vio c12/SpecSwarm.vio c12/Proofs_conn.vio c12/Proofs_inv.vio c12/Proofs_wait.vio c12/Proofs_wake.vio c12/Proofs_trace.vio c12/Proofs_quiesce.vio c12/Proofs_stim.vio c12/Proofs_clauses.vio
c12/Proofs_headline.vos c12/Proofs_headline.vok c12/Proofs_headline.required_vos: c12/Proofs_headline.v lib/Wire.vos c12/Model.vos c12/SpecSwarm.vos c12/Proofs_conn.vos c12/Proofs_inv.vos c12/Proofs_wait.vos c12/Proofs_wake.vos c12/Proofs_trace.vos c12/Proofs_quiesce.vos c12/Proofs_stim.vos c12/Proofs_clauses.vos
c12/Proofs_hp.vo c12/Proofs_hp.glob c12/Proofs_hp.v.beautified c12/Proofs_hp.required_vo: c12/Proofs_hp.v c12/ModelHP.vo c12/SpecHP.vo
c12/Proofs_hp.vio: c12/Proofs_hp.v c12/ModelHP.vio c12/SpecHP.vio
c12/Proofs_hp.vos c12/Proofs_hp.vok c12/Proofs_hp.required_vos: c12/Proofs_hp.v c12/ModelHP.vos c12/SpecHP.vos
c12/Proofs_inv.vo c12/Proofs_inv.glob c12/Proofs_inv.v.beautified c12/Proofs_inv.required_vo: c12/Proofs_inv.v c12/Model.vo c12/Proofs_conn.vo
c12/Proofs_inv.vio: c12/Proofs_inv.v c12/Model.vio c12/Proofs_conn.vio
c12/Proofs_inv.vos c12/Proofs_inv.vok c12/Proofs_inv.required_vos: c12/Proofs_inv.v c12/Model.vos c12/Proofs_conn.vos
c12/Proofs_quiesce.vo c12/Proofs_quiesce.glob c12/Proofs_quiesce.v.beautified c12/Proofs_quiesce.required_vo: c12/Proofs_quiesce.v lib/Wire.vo c12/Model.vo c12/SpecSwarm.vo c12/Proofs_conn.vo c12/Proofs_inv.vo
c12/Proofs_quiesce.vio: c12/Proofs_quiesce.v lib/Wire.vio c12/Model.vio c12/SpecSwarm.vio c12/Proofs_conn.vio c12/Proofs_inv.vio
c12/Proofs_quiesce.vos c12/Proofs_quiesce.vok c12/Proofs_quiesce.required_vos: c12/Proofs_quiesce.v lib/Wire.vos c12/Model.vos c12/SpecSwarm.vos c12/Proofs_conn.vos c12/Proofs_inv.vos
c12/Proofs_stim.vo c12/Proofs_stim.glob c12/Proofs_stim.v.beautified c12/Proofs_stim.required_vo: c12/Proofs_stim.v lib/Wire.vo c12/Model.vo c12/SpecSwarm.vo c12/Proofs_conn.vo c12/Proofs_inv.vo c12/Proofs_wait.vo c12/Proofs_quiesce.vo
c12/Proofs_stim.vio: c12/Proofs_stim.v lib/Wire.vio c12/Model.vio c12/SpecSwarm.vio c12/Proofs_conn.vio c12/Proofs_inv.vio c12/Proofs_wait.vio c12/Proofs_quiesce.vio
c12/Proofs_stim.vos c12/Proofs_stim.vok c12/Proofs_stim.required_vos: c12/Proofs_stim.v lib/Wire.vos c12/Model.vos c12/SpecSwarm.vos c12/Proofs_conn.vos c12/Proofs_inv.vos c12/Proofs_wait.vos c12/Proofs_quiesce.vos
c12/Proofs_trace.vo c12/Proofs_trace.glob c12/Proofs_trace.v.beautified c12/Proofs_trace.required_vo: c12/Proofs_trace.v lib/Wire.vo c12/Model.vo c12/SpecSwarm.vo c12/Proofs_conn.vo c12/Proofs_inv.vo
c12/Proofs_trace.vio: c12/Proofs_trace.v lib/Wire.vio c12/Model.vio c12/SpecSwarm.vio c12/Proofs_conn.vio c12/Proofs_inv.vio
c12/Proofs_trace.vos c12/Proofs_trace.vok c12/Proofs_trace.required_vos: c12/Proofs_trace.v lib/Wire.vos c12/Model.vos c12/SpecSwarm.vos c12/Proofs_conn.vos c12/Proofs_inv.vos
c12/Proofs_wait.vo c12/Proofs_wait.glob c12/Proofs_wait.v.beautified c12/Proofs_wait.required_vo: c12/Proofs_wait.v c12/Model.vo c12/Proofs_conn.vo c12/Proofs_inv.vo
c12/Proofs_wait.vio: c12/Proofs_wait.v c12/Model.vio c12/Proofs_conn.vio c12/Proofs_inv.vio
c12/Proofs_wait.vos c12/Proofs_wait.vok c12/Proofs_wait.required_vos: c12/Proofs_wait.v c12/Model.vos c12/Proofs_conn.vos c12/Proofs_inv.vos
c12/Proofs_wake.vo c12/Proofs_wake.glob c12/Proofs_wake.v.beautified c12/Proofs_wake.required_vo: c12/Proofs_wake.v c12/Model.vo c12/Proofs_conn.vo c12/Proofs_inv.vo
c12/Proofs_wake.vio: c12/Proofs_wake.v c12/Model.vio c12/Proofs_conn.vio c12/Proofs_inv.vio
c12/Proofs_wake.vos c12/Proofs_wake.vok c12/Proofs_wake.required_vos: c12/Proofs_wake.v c12/Model.vos c12/Proofs_conn.vos c12/Proofs_inv.vos
c12/Properties.vo c12/Properties.glob c12/Properties.v.beautified c12/Properties.required_vo: c12/Properties.v lib/Wire.vo c12/Model.vo c12/ModelHP.vo c12/SpecSwarm.vo c12/SpecHP.vo c12/Spec.vo c12/Proofs_conn.vo c12/Proofs_inv.vo c12/Proofs_wait.vo c12/Proofs_wake.vo c12/Proofs_trace.vo c12/Proofs_quiesce.vo c12/Proofs_stim.vo c12/Proofs_clauses.vo c12/Proofs_headline.vo c12/Proofs_hp.vo
c12/Properties.vio: c12/Properties.v lib/Wire.vio c12/Model.vio c12/ModelHP.vio c12/SpecSwarm.vio c12/SpecHP.vio c12/Spec.vio c12/Proofs_conn.vio c12/Proofs_inv.vio c12/Proofs_wait.vio c12/Proofs_wake.vio c12/Proofs_trace.vio c12/Proofs_quiesce.vio c12/Proofs_stim.vio c12/Proofs_clauses.vio c12/Proofs_headline.vio c12/Proofs_hp.vio
c12/Properties.vos c12/Properties.vok c12/Properties.required_vos: c12/Properties.v lib/Wire.vos c12/Model.vos c12/ModelHP.vos c12/SpecSwarm.vos c12/SpecHP.vos c12/Spec.vos c12/Proofs_conn.vos c12/Proofs_inv.vos c12/Proofs_wait.vos c12/Proofs_wake.vos c12/Proofs_trace.vos c12/Proofs_quiesce.vos c12/Proofs_stim.vos c12/Proofs_clauses.vos c12/Proofs_headline.vos c12/Proofs_hp.vos
c12/Spec.vo c12/Spec.glob c12/Spec.v.beautified c12/Spec.required_vo: c12/Spec.v lib/Wire.vo c12/Model.vo c12/SpecSwarm.vo c12/SpecHP.vo
c12/Spec.vio: c12/Spec.v lib/Wire.vio c12/Model.vio c12/SpecSwarm.vio c12/SpecHP.vio
c12/Spec.vos c12/Spec.vok c12/Spec.required_vos: c12/Spec.v lib/Wire.vos c12/Model.vos c12/SpecSwarm.vos c12/SpecHP.vos
c12/SpecHP.vo c12/SpecHP.glob c12/SpecHP.v.beautified c12/SpecHP.required_vo: c12/SpecHP.v lib/Wire.vo c12/ModelHP.vo
c12/SpecHP.vio: c12/SpecHP.v lib/Wire.vio c12/ModelHP.vio
c12/SpecHP.vos c12/SpecHP.vok c12/SpecHP.required_vos: c12/SpecHP.v lib/Wire.vos c12/ModelHP.vos
c12/SpecSwarm.vo c12/SpecSwarm.glob c12/SpecSwarm.v.beautified c12/SpecSwarm.required_vo: c12/SpecSwarm.v lib/Wire.vo c12/Model.vo
c12/SpecSwarm.vio: c12/SpecSwarm.v lib/Wire.vio c12/Model.vio
c12/SpecSwarm.vos c12/SpecSwarm.vok c12/SpecSwarm.required_vos: c12/SpecSwarm.v lib/Wire.vos c12/Model.vos
c13/Extract.vo c13/Extract.glob c13/Extract.v.beautified c13/Extract.required_vo: c13/Extract.v c13/Spec.vo
c13/Extract.vio: c13/Extract.v c13/Spec.vio
c13/Extract.vos c13/Extract.vok c13/Extract.required_vos: c13/Extract.v c13/Spec.vos
c13/Model.vo c13/Model.glob c13/Model.v.beautified c13/Model.required_vo: c13/Model.v c09/Abs.vo c08/SymCrypto.vo gen/Consts_c13.vo
c13/Model.vio: c13/Model.v c09/Abs.vio c08/SymCrypto.vio gen/Consts_c13.vio
c13/Model.vos c13/Model.vok c13/Model.required_vos: c13/Model.v c09/Abs.vos c08/SymCrypto.vos gen/Consts_c13.vos
c13/Proofs.vo c13/Proofs.glob c13/Proofs.v.beautified c13/Proofs.required_vo: c13/Proofs.v lib/Wire.vo c09/Abs.vo c08/SymCrypto.vo gen/Consts_c13.vo c13/Model.vo c13/Spec.vo
c13/Proofs.vio: c13/Proofs.v lib/Wire.vio c09/Abs.vio c08/SymCrypto.vio gen/Consts_c13.vio c13/Model.vio c13/Spec.vio
c13/Proofs.vos c13/Proofs.vok c13/Proofs.required_vos: c13/Proofs.v lib/Wire.vos c09/Abs.vos c08/SymCrypto.vos gen/Consts_c13.vos c13/Model.vos c13/Spec.vos
c13/Proofs_Book.vo c13/Proofs_Book.glob c13/Proofs_Book.v.beautified c13/Proofs_Book.required_vo: c13/Proofs_Book.v c09/Abs.vo gen/Consts_c13.vo c13/Model.vo
c13/Proofs_Book.vio: c13/Proofs_Book.v c09/Abs.vio gen/Consts_c13.vio c13/Model.vio
c13/Proofs_Book.vos c13/Proofs_Book.vok c13/Proofs_Book.required_vos: c13/Proofs_Book.v c09/Abs.vos gen/Consts_c13.vos c13/Model.vos
c13/Proofs_Consume.vo c13/Proofs_Consume.glob c13/Proofs_Consume.v.beautified c13/Proofs_Consume.required_vo: c13/Proofs_Consume.v lib/Wire.vo c09/Abs.vo c08/SymCrypto.vo gen/Consts_c13.vo c13/Model.vo c13/Spec.vo c13/Proofs_Book.vo c13/Proofs_Store.vo
c13/Proofs_Consume.vio: c13/Proofs_Consume.v lib/Wire.vio c09/Abs.vio c08/SymCrypto.vio gen/Consts_c13.vio c13/Model.vio c13/Spec.vio c13/Proofs_Book.vio c13/Proofs_Store.vio
c13/Proofs_Consume.vos c13/Proofs_Consume.vok c13/Proofs_Consume.required_vos: c13/Proofs_Consume.v lib/Wire.vos c09/Abs.vos c08/SymCrypto.vos gen/Consts_c13.vos c13/Model.vos c13/Spec.vos c13/Proofs_Book.vos c13/Proofs_Store.vos
c13/Proofs_Inv.vo c13/Proofs_Inv.glob c13/Proofs_Inv.v.beautified c13/Proofs_Inv.required_vo: c13/Proofs_Inv.v lib/Wire.vo c09/Abs.vo c08/SymCrypto.vo gen/Consts_c13.vo c13/Model.vo c13/Spec.vo c13/Proofs.vo c13/Proofs_Book.vo c13/Proofs_Store.vo c13/Proofs_Consume.vo c13/Proofs_Msg.vo c13/Proofs_Sys.vo
c13/Proofs_Inv.vio: c13/Proofs_Inv.v lib/Wire.vio c09/Abs.vio c08/SymCrypto.vio gen/Consts_c13.vio c13/Model.vio c13/Spec.vio c13/Proofs.vio c13/Proofs_Book.vio c13/Proofs_Store.vio c13/Proofs_Consume.vio c13/Proofs_Msg.vio c13/Proofs_Sys.vio
c13/Proofs_Inv.vos c13/Proofs_Inv.vok c13/Proofs_Inv.required_vos: c13/Proofs_Inv.v lib/Wire.vos c09/Abs.vos c08/SymCrypto.vos gen/Consts_c13.vos c13/Model.vos c13/Spec.vos c13/Proofs.vos c13/Proofs_Book.vos c13/Proofs_Store.vos c13/Proofs_Consume.vos c13/Proofs_Msg.vos c13/Proofs_Sys.vos
c13/Proofs_Mon.vo c13/Proofs_Mon.glob c13/Proofs_Mon.v.beautified c13/Proofs_Mon.required_vo: c13/Proofs_Mon.v lib/Wire.vo c09/Abs.vo c08/SymCrypto.vo gen/Consts_c13.vo c13/Model.vo c13/Spec.vo c13/Proofs.vo c13/Proofs_Book.vo c13/Proofs_Store.vo c13/Proofs_Consume.vo c13/Proofs_Msg.vo c13/Proofs_Sys.vo c13/Proofs_Inv.vo
c13/Proofs_Mon.vio: c13/Proofs_Mon.v lib/Wire.vio c09/Abs.vio c08/SymCrypto.vio gen/Consts_c13.vio c13/Model.vio c13/Spec.vio c13/Proofs.vio c13/Proofs_Book.vio c13/Proofs_Store.vio c13/Proofs_Consume.vio c13/Proofs_Msg.vio c13/Proofs_Sys.vio c13/Proofs_Inv.vio
c13/Proofs_Mon.vos c13/Proofs_Mon.vok c13/Proofs_Mon.required_vos: c13/Proofs_Mon.v lib/Wire.vos c09/Abs.vos c08/SymCrypto.vos gen/Consts_c13.vos c13/Model.vos c13/Spec.vos c13/Proofs.vos c13/Proofs_Book.vos c13/Proofs_Store.vos c13/Proofs_Consume.vos c13/Proofs_Msg.vos c13/Proofs_Sys.vos c13/Proofs_Inv.vos
c13/Proofs_Msg.vo c13/Proofs_Msg.glob c13/Proofs_Msg.v.beautified c13/Proofs_Msg.required_vo: c13/Proofs_Msg.v lib/Wire.vo c09/Abs.vo c08/SymCrypto.vo gen/Consts_c13.vo c13/Model.vo c13/Spec.vo
c13/Proofs_Msg.vio: c13/Proofs_Msg.v lib/Wire.vio c09/Abs.vio c08/SymCrypto.vio gen/Consts_c13.vio c13/Model.vio c13/Spec.vio
c13/Proofs_Msg.vos c13/Proofs_Msg.vok c13/Proofs_Msg.required_vos: c13/Proofs_Msg.v lib/Wire.vos c09/Abs.vos c08/SymCrypto.vos gen/Consts_c13.vos c13/Model.vos c13/Spec.vos
c13/Proofs_Store.vo c13/Proofs_Store.glob c13/Proofs_Store.v.beautified c13/Proofs_Store.required_vo: c13/Proofs_Store.v lib/Wire.vo c09/Abs.vo c08/SymCrypto.vo gen/Consts_c13.vo c13/Model.vo c13/Spec.vo c13/Proofs_Book.vo
c13/Proofs_Store.vio: c13/Proofs_Store.v lib/Wire.vio c09/Abs.vio c08/SymCrypto.vio gen/Consts_c13.vio c13/Model.vio c13/Spec.vio c13/Proofs_Book.vio
c13/Proofs_Store.vos c13/Proofs_Store.vok c13/Proofs_Store.required_vos: c13/Proofs_Store.v lib/Wire.vos c09/Abs.vos c08/SymCrypto.vos gen/Consts_c13.vos c13/Model.vos c13/Spec.vos c13/Proofs_Book.vos
c13/Proofs_Sys.vo c13/Proofs_Sys.glob c13/Proofs_Sys.v.beautified c13/Proofs_Sys.required_vo: c13/Proofs_Sys.v lib/Wire.vo c09/Abs.vo c08/SymCrypto.vo gen/Consts_c13.vo c13/Model.vo c13/Spec.vo c13/Proofs_Book.vo c13/Proofs_Store.vo c13/Proofs_Consume.vo c13/Proofs_Msg.vo
c13/Proofs_Sys.vio: c13/Proofs_Sys.v lib/Wire.vio c09/Abs.vio c08/SymCrypto.vio gen/Consts_c13.vio c13/Model.vio c13/Spec.vio c13/Proofs_Book.vio c13/Proofs_Store.vio c13/Proofs_Consume.vio c13/Proofs_Msg.vio
c13/Proofs_Sys.vos c13/Proofs_Sys.vok c13/Proofs_Sys.required_vos: c13/Proofs_Sys.v lib/Wire.vos c09/Abs.vos c08/SymCrypto.vos gen/Consts_c13.vos c13/Model.vos c13/Spec.vos c13/Proofs_Book.vos c13/Proofs_Store.vos c13/Proofs_Consume.vos c13/Proofs_Msg.vos
c13/Properties.vo c13/Properties.glob c13/Properties.v.beautified c13/Properties.required_vo: c13/Properties.v gen/Consts_c09.vo lib/Wire.vo c09/Abs.vo c08/SymCrypto.vo gen/Consts_c13.vo c13/Model.vo c13/Spec.vo c13/Proofs.vo c13/Proofs_Book.vo c13/Proofs_Store.vo c13/Proofs_Consume.vo c13/Proofs_Msg.vo c13/Proofs_Sys.vo c13/Proofs_Inv.vo c13/Proofs_Mon.vo
c13/Properties.vio: c13/Properties.v gen/Consts_c09.vio lib/Wire.vio c09/Abs.vio c08/SymCrypto.vio gen/Consts_c13.vio c13/Model.vio c13/Spec.vio c13/Proofs.vio c13/Proofs_Book.vio c13/Proofs_Store.vio c13/Proofs_Consume.vio c13/Proofs_Msg.vio c13/Proofs_Sys.vio c13/Proofs_Inv.vio c13/Proofs_Mon.vio
c13/Properties.vos c13/Properties.vok c13/Properties.required_vos: c13/Properties.v gen/Consts_c09.vos lib/Wire.vos c09/Abs.vos c08/SymCrypto.vos gen/Consts_c13.vos c13/Model.vos c13/Spec.vos c13/Proofs.vos c13/Proofs_Book.vos c13/Proofs_Store.vos c13/Proofs_Consume.vos c13/Proofs_Msg.vos c13/Proofs_Sys.vos c13/Proofs_Inv.vos c13/Proofs_Mon.vos
c13/Spec.vo c13/Spec.glob c13/Spec.v.beautified c13/Spec.required_vo: c13/Spec.v lib/Wire.vo c09/Abs.vo c08/SymCrypto.vo gen/Consts_c13.vo c13/Model.vo
c13/Spec.vio: c13/Spec.v lib/Wire.vio c09/Abs.vio c08/SymCrypto.vio gen/Consts_c13.vio c13/Model.vio
c13/Spec.vos c13/Spec.vok c13/Spec.required_vos: c13/Spec.v lib/Wire.vos c09/Abs.vos c08/SymCrypto.vos gen/Consts_c13.vos c13/Model.vos
c14/Conc.vo c14/Conc.glob c14/Conc.v.beautified c14/Conc.required_vo: c14/Conc.v c14/Model.vo
c14/Conc.vio: c14/Conc.v c14/Model.vio
c14/Conc.vos c14/Conc.vok c14/Conc.required_vos: c14/Conc.v c14/Model.vos
c14/Extract.vo c14/Extract.glob c14/Extract.v.beautified c14/Extract.required_vo: c14/Extract.v c14/SpecConc.vo
c14/Extract.vio: c14/Extract.v c14/SpecConc.vio
c14/Extract.vos c14/Extract.vok c14/Extract.required_vos: c14/Extract.v c14/SpecConc.vos
c14/Model.vo c14/Model.glob c14/Model.v.beautified c14/Model.required_vo: c14/Model.v 
c14/Model.vio: c14/Model.v 
c14/Model.vos c14/Model.vok c14/Model.required_vos: c14/Model.v 
c14/Proofs.vo c14/Proofs.glob c14/Proofs.v.beautified c14/Proofs.required_vo: c14/Proofs.v lib/Wire.vo c14/Model.vo c14/Spec.vo
c14/Proofs.vio: c14/Proofs.v lib/Wire.vio c14/Model.vio c14/Spec.vio
c14/Proofs.vos c14/Proofs.vok c14/Proofs.required_vos: c14/Proofs.v lib/Wire.vos c14/Model.vos c14/Spec.vos
c14/ProofsConc.vo c14/ProofsConc.glob c14/ProofsConc.v.beautified c14/ProofsConc.required_vo: c14/ProofsConc.v lib/Wire.vo c14/Model.vo c14/Spec.vo c14/Proofs.vo c14/Proofs_Abs.vo c14/Proofs_Trim.vo c14/Proofs_Main.vo c14/Conc.vo c14/SpecConc.vo
c14/ProofsConc.vio: c14/ProofsConc.v lib/Wire.vio c14/Model.vio c14/Spec.vio c14/Proofs.vio c14/Proofs_Abs.vio c14/Proofs_Trim.vio c14/Proofs_Main.vio c14/Conc.vio c14/SpecConc.vio
c14/ProofsConc.vos c14/ProofsConc.vok c14/ProofsConc.required_vos: c14/ProofsConc.v lib/Wire.vos c14/Model.vos c14/Spec.vos c14/Proofs.vos c14/Proofs_Abs.vos c14/Proofs_Trim.vos c14/Proofs_Main.vos c14/Conc.vos c14/SpecConc.vos
c14/ProofsConc2.vo c14/ProofsConc2.glob c14/ProofsConc2.v.beautified c14/ProofsConc2.required_vo: c14/ProofsConc2.v lib/Wire.vo c14/Model.vo c14/Spec.vo c14/Proofs.vo c14/Proofs_Abs.vo c14/Proofs_Trim.vo c14/Proofs_Main.vo c14/Conc.vo c14/SpecConc.vo c14/ProofsConc.vo
c14/ProofsConc2.vio: c14/ProofsConc2.v lib/Wire.vio c14/Model.vio c14/Spec.vio c14/Proofs.vio c14/Proofs_Abs.vio c14/Proofs_Trim.vio c14/Proofs_Main.vio c14/Conc.vio c14/SpecConc.vio c14/ProofsConc.vio
c14/ProofsConc2.vos c14/ProofsConc2.vok c14/ProofsConc2.required_vos: c14/ProofsConc2.v lib/Wire.vos c14/Model.vos c14/Spec.vos c14/Proofs.vos c14/Proofs_Abs.vos c14/Proofs_Trim.vos c14/Proofs_Main.vos c14/Conc.vos c14/SpecConc.vos c14/ProofsConc.vos
c14/ProofsConc3.vo c14/ProofsConc3.glob c14/ProofsConc3.v.beautified c14/ProofsConc3.required_vo: c14/ProofsConc3.v lib/Wire.vo c14/Model.vo c14/Spec.vo c14/Proofs.vo c14/Proofs_Abs.vo c14/Proofs_Trim.vo c14/Proofs_Main.vo c14/Conc.vo c14/SpecConc.vo c14/ProofsConc.vo c14/ProofsConc2.vo
c14/ProofsConc3.vio: c14/ProofsConc3.v lib/Wire.vio c14/Model.vio c14/Spec.vio c14/Proofs.vio c14/Proofs_Abs.vio c14/Proofs_Trim.vio c14/Proofs_Main.vio c14/Conc.vio c14/SpecConc.vio c14/ProofsConc.vio c14/ProofsConc2.vio
c14/ProofsConc3.vos c14/ProofsConc3.vok c14/ProofsConc3.required_vos: c14/ProofsConc3.v lib/Wire.vos c14/Model.vos c14/Spec.vos c14/Proofs.vos c14/Proofs_Abs.vos c14/Proofs_Trim.vos c14/Proofs_Main.vos c14/Conc.vos c14/SpecConc.vos c14/ProofsConc.vos c14/ProofsConc2.vos
c14/ProofsConc4.vo c14/ProofsConc4.glob c14/ProofsConc4.v.beautified c14/ProofsConc4.required_vo: c14/ProofsConc4.v lib/Wire.vo c14/Model.vo c14/Spec.vo c14/Proofs.vo c14/Proofs_Abs.vo c14/Proofs_Trim.vo c14/Proofs_Main.vo c14/Conc.vo c14/SpecConc.vo c14/ProofsConc.vo c14/ProofsConc2.vo c14/ProofsConc3.vo
c14/ProofsConc4.vio: c14/ProofsConc4.v lib/Wire.vio c14/Model.vio c14/Spec.vio c14/Proofs.vio c14/Proofs_Abs.vio c14/Proofs_Trim.vio c14/Proofs_Main.vio c14/Conc.vio c14/SpecConc.vio c14/ProofsConc.vio c14/ProofsConc2.vio c14/ProofsConc3.vio
c14/ProofsConc4.vos c14/ProofsConc4.vok c14/ProofsConc4.required_vos: c14/ProofsConc4.v lib/Wire.vos c14/Model.vos c14/Spec.vos c14/Proofs.vos c14/Proofs_Abs.vos c14/Proofs_Trim.vos c14/Proofs_Main.vos c14/Conc.vos c14/SpecConc.vos c14/ProofsConc.vos c14/ProofsConc2.vos c14/ProofsConc3.vos
c14/ProofsConc5.vo c14/ProofsConc5.glob c14/ProofsConc5.v.beautified c14/ProofsConc5.required_vo: c14/ProofsConc5.v lib/Wire.vo c14/Model.vo c14/Spec.vo c14/Proofs.vo c14/Proofs_Abs.vo c14/Proofs_Trim.vo c14/Proofs_Main.vo c14/Conc.vo c14/SpecConc.vo c14/ProofsConc.vo c14/ProofsConc2.vo c14/ProofsConc3.vo c14/ProofsConc4.vo
c14/ProofsConc5.vio: c14/ProofsConc5.v lib/Wire.vio c14/Model.vio c14/Spec.vio c14/Proofs.vio c14/Proofs_Abs.vio c14/Proofs_Trim.vio c14/Proofs_Main.vio c14/Conc.vio c14/SpecConc.vio c14/ProofsConc.vio c14/ProofsConc2.vio c14/ProofsConc3.vio c14/ProofsConc4.vio
c14/ProofsConc5.vos c14/ProofsConc5.vok c14/ProofsConc5.required_vos: c14/ProofsConc5.v lib/Wire.vos c14/Model.vos c14/Spec.vos c14/Proofs.vos c14/Proofs_Abs.vos c14/Proofs_Trim.vos c14/Proofs_Main.vos c14/Conc.vos c14/SpecConc.vos c14/ProofsConc.vos c14/ProofsConc2.vos c14/ProofsConc3.vos c14/ProofsConc4.vos
c14/Proofs_Abs.vo c14/Proofs_Abs.glob c14/Proofs_Abs.v.beautified c14/Proofs_Abs.required_vo: c14/Proofs_Abs.v lib/Wire.vo c14/Model.vo c14/Spec.vo c14/Proofs.vo
c14/Proofs_Abs.vio: c14/Proofs_Abs.v lib/Wire.vio c14/Model.vio c14/Spec.vio c14/Proofs.vio
c14/Proofs_Abs.vos c14/Proofs_Abs.vok c14/Proofs_Abs.required_vos: c14/Proofs_Abs.v lib/Wire.vos c14/Model.vos c14/Spec.vos c14/Proofs.vos
c14/Proofs_Main.vo c14/Proofs_Main.glob c14/Proofs_Main.v.beautified c14/Proofs_Main.required_vo: c14/Proofs_Main.v lib/Wire.vo c14/Model.vo c14/Spec.vo c14/Proofs.vo c14/Proofs_Abs.vo c14/Proofs_Trim.vo
c14/Proofs_Main.vio: c14/Proofs_Main.v lib/Wire.vio c14/Model.vio c14/Spec.vio c14/Proofs.vio c14/Proofs_Abs.vio c14/Proofs_Trim.vio
c14/Proofs_Main.vos c14/Proofs_Main.vok c14/Proofs_Main.required_vos: c14/Proofs_Main.v lib/Wire.vos c14/Model.vos c14/Spec.vos c14/Proofs.vos c14/Proofs_Abs.vos c14/Proofs_Trim.vos
c14/Proofs_Trim.vo c14/Proofs_Trim.glob c14/Proofs_Trim.v.beautified c14/Proofs_Trim.required_vo: c14/Proofs_Trim.v lib/Wire.vo c14/Model.vo c14/Spec.vo c14/Proofs.vo c14/Proofs_Abs.vo
c14/Proofs_Trim.vio: c14/Proofs_Trim.v lib/Wire.vio c14/Model.vio c14/Spec.vio c14/Proofs.vio c14/Proofs_Abs.vio
c14/Proofs_Trim.vos c14/Proofs_Trim.vok c14/Proofs_Trim.required_vos: c14/Proofs_Trim.v lib/Wire.vos c14/Model.vos c14/Spec.vos c14/Proofs.vos c14/Proofs_Abs.vos
c14/Properties.vo c14/Properties.glob c14/Properties.v.beautified c14/Properties.required_vo: c14/Properties.v lib/Wire.vo c14/Model.vo c14/Spec.vo c14/Proofs.vo c14/Proofs_Abs.vo c14/Proofs_Trim.vo c14/Proofs_Main.vo c14/Conc.vo c14/SpecConc.vo c14/ProofsConc.vo c14/ProofsConc2.vo c14/ProofsConc3.vo c14/ProofsConc4.vo c14/ProofsConc5.vo
c14/Properties.vio: c14/Properties.v lib/Wire.vio c14/Model.vio c14/Spec.vio c14/Proofs.vio c14/Proofs_Abs.vio c14/Proofs_Trim.vio c14/Proofs_Main.vio c14/Conc.vio c14/SpecConc.vio c14/ProofsConc.vio c14/ProofsConc2.vio c14/ProofsConc3.vio c14/ProofsConc4.vio c14/ProofsConc5.vio
c14/Properties.vos c14/Properties.vok c14/Properties.required_vos: c14/Properties.v lib/Wire.vos c14/Model.vos c14/Spec.vos c14/Proofs.vos c14/Proofs_Abs.vos c14/Proofs_Trim.vos c14/Proofs_Main.vos c14/Conc.vos c14/SpecConc.vos c14/ProofsConc.vos c14/ProofsConc2.vos c14/ProofsConc3.vos c14/ProofsConc4.vos c14/ProofsConc5.vos
c14/Spec.vo c14/Spec.glob c14/Spec.v.beautified c14/Spec.required_vo: c14/Spec.v lib/Wire.vo c14/Model.vo
c14/Spec.vio: c14/Spec.v lib/Wire.vio c14/Model.vio
c14/Spec.vos c14/Spec.vok c14/Spec.required_vos: c14/Spec.v lib/Wire.vos c14/Model.vos
c14/SpecConc.vo c14/SpecConc.glob c14/SpecConc.v.beautified c14/SpecConc.required_vo: c14/SpecConc.v lib/Wire.vo c14/Model.vo c14/Spec.vo c14/Conc.vo
c14/SpecConc.vio: c14/SpecConc.v lib/Wire.vio c14/Model.vio c14/Spec.vio c14/Conc.vio
c14/SpecConc.vos c14/SpecConc.vok c14/SpecConc.required_vos: c14/SpecConc.v lib/Wire.vos c14/Model.vos c14/Spec.vos c14/Conc.vos
c15/Extract.vo c15/Extract.glob c15/Extract.v.beautified c15/Extract.required_vo: c15/Extract.v c15/Spec.vo
c15/Extract.vio: c15/Extract.v c15/Spec.vio
c15/Extract.vos c15/Extract.vok c15/Extract.required_vos: c15/Extract.v c15/Spec.vos
c15/Lts.vo c15/Lts.glob c15/Lts.v.beautified c15/Lts.required_vo: c15/Lts.v 
c15/Lts.vio: c15/Lts.v 
c15/Lts.vos c15/Lts.vok c15/Lts.required_vos: c15/Lts.v 
c15/Model.vo c15/Model.glob c15/Model.v.beautified c15/Model.required_vo: c15/Model.v c15/Lts.vo
c15/Model.vio: c15/Model.v c15/Lts.vio
c15/Model.vos c15/Model.vok c15/Model.required_vos: c15/Model.v c15/Lts.vos
c15/Proofs.vo c15/Proofs.glob c15/Proofs.v.beautified c15/Proofs.required_vo: c15/Proofs.v lib/Wire.vo c15/Lts.vo c15/Model.vo c15/Spec.vo
c15/Proofs.vio: c15/Proofs.v lib/Wire.vio c15/Lts.vio c15/Model.vio c15/Spec.vio
c15/Proofs.vos c15/Proofs.vok c15/Proofs.required_vos: c15/Proofs.v lib/Wire.vos c15/Lts.vos c15/Model.vos c15/Spec.vos
c15/Proofs_Blk.vo c15/Proofs_Blk.glob c15/Proofs_Blk.v.beautified c15/Proofs_Blk.required_vo: c15/Proofs_Blk.v c15/Lts.vo c15/Model.vo c15/Spec.vo c15/Proofs_Chan.vo c15/Proofs_Loc.vo c15/Proofs_List.vo c15/Proofs_Safe.vo c15/Proofs_Init.vo c15/Proofs_Live.vo c15/Proofs_Pend.vo c15/Proofs_Idx.vo c15/Proofs_Dead.vo c15/Proofs_Prog.vo c15/Proofs_Valid.vo c15/Proofs_WildOK.vo c15/Proofs_Once.vo c15/Proofs_First.vo
c15/Proofs_Blk.vio: c15/Proofs_Blk.v c15/Lts.vio c15/Model.vio c15/Spec.vio c15/Proofs_Chan.vio c15/Proofs_Loc.vio c15/Proofs_List.vio c15/Proofs_Safe.vio c15/Proofs_Init.vio c15/Proofs_Live.vio c15/Proofs_Pend.vio c15/Proofs_Idx.vio c15/Proofs_Dead.vio c15/Proofs_Prog.vio c15/Proofs_Valid.vio c15/Proofs_WildOK.vio c15/Proofs_Once.vio c15/Proofs_First.vio
c15/Proofs_Blk.vos c15/Proofs_Blk.vok c15/Proofs_Blk.required_vos: c15/Proofs_Blk.v c15/Lts.vos c15/Model.vos c15/Spec.vos c15/Proofs_Chan.vos c15/Proofs_Loc.vos c15/Proofs_List.vos c15/Proofs_Safe.vos c15/Proofs_Init.vos c15/Proofs_Live.vos c15/Proofs_Pend.vos c15/Proofs_Idx.vos c15/Proofs_Dead.vos c15/Proofs_Prog.vos c15/Proofs_Valid.vos c15/Proofs_WildOK.vos c15/Proofs_Once.vos c15/Proofs_First.vos
c15/Proofs_Chan.vo c15/Proofs_Chan.glob c15/Proofs_Chan.v.beautified c15/Proofs_Chan.required_vo: c15/Proofs_Chan.v c15/Lts.vo c15/Model.vo
c15/Proofs_Chan.vio: c15/Proofs_Chan.v c15/Lts.vio c15/Model.vio
c15/Proofs_Chan.vos c15/Proofs_Chan.vok c15/Proofs_Chan.required_vos: c15/Proofs_Chan.v c15/Lts.vos c15/Model.vos
c15/Proofs_Dead.vo c15/Proofs_Dead.glob c15/Proofs_Dead.v.beautified c15/Proofs_Dead.required_vo: c15/Proofs_Dead.v c15/Lts.vo c15/Model.vo c15/Proofs_Chan.vo c15/Proofs_Loc.vo c15/Proofs_Init.vo c15/Proofs_Live.vo
c15/Proofs_Dead.vio: c15/Proofs_Dead.v c15/Lts.vio c15/Model.vio c15/Proofs_Chan.vio c15/Proofs_Loc.vio c15/Proofs_Init.vio c15/Proofs_Live.vio
c15/Proofs_Dead.vos c15/Proofs_Dead.vok c15/Proofs_Dead.required_vos: c15/Proofs_Dead.v c15/Lts.vos c15/Model.vos c15/Proofs_Chan.vos c15/Proofs_Loc.vos c15/Proofs_Init.vos c15/Proofs_Live.vos
c15/Proofs_First.vo c15/Proofs_First.glob c15/Proofs_First.v.beautified c15/Proofs_First.required_vo: c15/Proofs_First.v c15/Lts.vo c15/Model.vo c15/Proofs_Chan.vo c15/Proofs_Loc.vo c15/Proofs_List.vo c15/Proofs_Safe.vo c15/Proofs_Init.vo c15/Proofs_Once.vo
c15/Proofs_First.vio: c15/Proofs_First.v c15/Lts.vio c15/Model.vio c15/Proofs_Chan.vio c15/Proofs_Loc.vio c15/Proofs_List.vio c15/Proofs_Safe.vio c15/Proofs_Init.vio c15/Proofs_Once.vio
c15/Proofs_First.vos c15/Proofs_First.vok c15/Proofs_First.required_vos: c15/Proofs_First.v c15/Lts.vos c15/Model.vos c15/Proofs_Chan.vos c15/Proofs_Loc.vos c15/Proofs_List.vos c15/Proofs_Safe.vos c15/Proofs_Init.vos c15/Proofs_Once.vos
c15/Proofs_Grow.vo c15/Proofs_Grow.glob c15/Proofs_Grow.v.beautified c15/Proofs_Grow.required_vo: c15/Proofs_Grow.v c15/Lts.vo c15/Model.vo c15/Proofs_Chan.vo c15/Proofs_Loc.vo c15/Proofs_List.vo
c15/Proofs_Grow.vio: c15/Proofs_Grow.v c15/Lts.vio c15/Model.vio c15/Proofs_Chan.vio c15/Proofs_Loc.vio c15/Proofs_List.vio
c15/Proofs_Grow.vos c15/Proofs_Grow.vok c15/Proofs_Grow.required_vos: c15/Proofs_Grow.v c15/Lts.vos c15/Model.vos c15/Proofs_Chan.vos c15/Proofs_Loc.vos c15/Proofs_List.vos
c15/Proofs_Idx.vo c15/Proofs_Idx.glob c15/Proofs_Idx.v.beautified c15/Proofs_Idx.required_vo: c15/Proofs_Idx.v c15/Lts.vo c15/Model.vo c15/Proofs_Chan.vo c15/Proofs_Loc.vo c15/Proofs_List.vo c15/Proofs_Safe.vo
c15/Proofs_Idx.vio: c15/Proofs_Idx.v c15/Lts.vio c15/Model.vio c15/Proofs_Chan.vio c15/Proofs_Loc.vio c15/Proofs_List.vio c15/Proofs_Safe.vio
c15/Proofs_Idx.vos c15/Proofs_Idx.vok c15/Proofs_Idx.required_vos: c15/Proofs_Idx.v c15/Lts.vos c15/Model.vos c15/Proofs_Chan.vos c15/Proofs_Loc.vos c15/Proofs_List.vos c15/Proofs_Safe.vos
c15/Proofs_Init.vo c15/Proofs_Init.glob c15/Proofs_Init.v.beautified c15/Proofs_Init.required_vo: c15/Proofs_Init.v c15/Lts.vo c15/Model.vo c15/Proofs_Chan.vo c15/Proofs_Loc.vo c15/Proofs_List.vo c15/Proofs_Safe.vo
c15/Proofs_Init.vio: c15/Proofs_Init.v c15/Lts.vio c15/Model.vio c15/Proofs_Chan.vio c15/Proofs_Loc.vio c15/Proofs_List.vio c15/Proofs_Safe.vio
c15/Proofs_Init.vos c15/Proofs_Init.vok c15/Proofs_Init.required_vos: c15/Proofs_Init.v c15/Lts.vos c15/Model.vos c15/Proofs_Chan.vos c15/Proofs_Loc.vos c15/Proofs_List.vos c15/Proofs_Safe.vos
c15/Proofs_List.vo c15/Proofs_List.glob c15/Proofs_List.v.beautified c15/Proofs_List.required_vo: c15/Proofs_List.v c15/Model.vo
c15/Proofs_List.vio: c15/Proofs_List.v c15/Model.vio
c15/Proofs_List.vos c15/Proofs_List.vok c15/Proofs_List.required_vos: c15/Proofs_List.v c15/Model.vos
c15/Proofs_Live.vo c15/Proofs_Live.glob c15/Proofs_Live.v.beautified c15/Proofs_Live.required_vo: c15/Proofs_Live.v c15/Lts.vo c15/Model.vo c15/Proofs_Chan.vo c15/Proofs_Loc.vo c15/Proofs_List.vo c15/Proofs_Safe.vo c15/Proofs_Init.vo
c15/Proofs_Live.vio: c15/Proofs_Live.v c15/Lts.vio c15/Model.vio c15/Proofs_Chan.vio c15/Proofs_Loc.vio c15/Proofs_List.vio c15/Proofs_Safe.vio c15/Proofs_Init.vio
c15/Proofs_Live.vos c15/Proofs_Live.vok c15/Proofs_Live.required_vos: c15/Proofs_Live.v c15/Lts.vos c15/Model.vos c15/Proofs_Chan.vos c15/Proofs_Loc.vos c15/Proofs_List.vos c15/Proofs_Safe.vos c15/Proofs_Init.vos
c15/Proofs_Loc.vo c15/Proofs_Loc.glob c15/Proofs_Loc.v.beautified c15/Proofs_Loc.required_vo: c15/Proofs_Loc.v c15/Lts.vo c15/Model.vo c15/Proofs_Chan.vo
c15/Proofs_Loc.vio: c15/Proofs_Loc.v c15/Lts.vio c15/Model.vio c15/Proofs_Chan.vio
c15/Proofs_Loc.vos c15/Proofs_Loc.vok c15/Proofs_Loc.required_vos: c15/Proofs_Loc.v c15/Lts.vos c15/Model.vos c15/Proofs_Chan.vos
c15/Proofs_Loc3.vo c15/Proofs_Loc3.glob c15/Proofs_Loc3.v.beautified c15/Proofs_Loc3.required_vo: c15/Proofs_Loc3.v c15/Lts.vo c15/Model.vo c15/Spec.vo c15/Proofs_Chan.vo c15/Proofs_Loc.vo c15/Proofs_List.vo c15/Proofs_Safe.vo c15/Proofs_Init.vo c15/Proofs_Live.vo c15/Proofs_Pend.vo c15/Proofs_Idx.vo c15/Proofs_Dead.vo c15/Proofs_Prog.vo c15/Proofs_Valid.vo c15/Proofs_WildOK.vo c15/Proofs_Once.vo c15/Proofs_First.vo c15/Proofs_Blk.vo
c15/Proofs_Loc3.vio: c15/Proofs_Loc3.v c15/Lts.vio c15/Model.vio c15/Spec.vio c15/Proofs_Chan.vio c15/Proofs_Loc.vio c15/Proofs_List.vio c15/Proofs_Safe.vio c15/Proofs_Init.vio c15/Proofs_Live.vio c15/Proofs_Pend.vio c15/Proofs_Idx.vio c15/Proofs_Dead.vio c15/Proofs_Prog.vio c15/Proofs_Valid.vio c15/Proofs_WildOK.vio c15/Proofs_Once.vio c15/Proofs_First.vio c15/Proofs_Blk.vio
c15/Proofs_Loc3.vos c15/Proofs_Loc3.vok c15/Proofs_Loc3.required_vos: c15/Proofs_Loc3.v c15/Lts.vos c15/Model.vos c15/Spec.vos c15/Proofs_Chan.vos c15/Proofs_Loc.vos c15/Proofs_List.vos c15/Proofs_Safe.vos c15/Proofs_Init.vos c15/Proofs_Live.vos c15/Proofs_Pend.vos c15/Proofs_Idx.vos c15/Proofs_Dead.vos c15/Proofs_Prog.vos c15/Proofs_Valid.vos c15/Proofs_WildOK.vos c15/Proofs_Once.vos c15/Proofs_First.vos c15/Proofs_Blk.vos
c15/Proofs_Obs.vo c15/Proofs_Obs.glob c15/Proofs_Obs.v.beautified c15/Proofs_Obs.required_vo: c15/Proofs_Obs.v c15/Lts.vo c15/Model.vo c15/Spec.vo c15/Proofs.vo c15/Proofs_Chan.vo c15/Proofs_Loc.vo c15/Proofs_List.vo c15/Proofs_Safe.vo c15/Proofs_Init.vo c15/Proofs_Live.vo c15/Proofs_Pend.vo c15/Proofs_Idx.vo c15/Proofs_Dead.vo c15/Proofs_Prog.vo c15/Proofs_Valid.vo c15/Proofs_WildOK.vo
c15/Proofs_Obs.vio: c15/Proofs_Obs.v c15/Lts.vio c15/Model.vio c15/Spec.vio c15/Proofs.vio c15/Proofs_Chan.vio c15/Proofs_Loc.vio c15/Proofs_List.vio c15/Proofs_Safe.vio c15/Proofs_Init.vio c15/Proofs_Live.vio c15/Proofs_Pend.vio c15/Proofs_Idx.vio c15/Proofs_Dead.vio c15/Proofs_Prog.vio c15/Proofs_Valid.vio c15/Proofs_WildOK.vio
c15/Proofs_Obs.vos c15/Proofs_Obs.vok c15/Proofs_Obs.required_vos: c15/Proofs_Obs.v c15/Lts.vos c15/Model.vos c15/Spec.vos c15/Proofs.vos c15/Proofs_Chan.vos c15/Proofs_Loc.vos c15/Proofs_List.vos c15/Proofs_Safe.vos c15/Proofs_Init.vos c15/Proofs_Live.vos c15/Proofs_Pend.vos c15/Proofs_Idx.vos c15/Proofs_Dead.vos c15/Proofs_Prog.vos c15/Proofs_Valid.vos c15/Proofs_WildOK.vos
c15/Proofs_Once.vo c15/Proofs_Once.glob c15/Proofs_Once.v.beautified c15/Proofs_Once.required_vo: c15/Proofs_Once.v c15/Lts.vo c15/Model.vo c15/Proofs_Chan.vo c15/Proofs_Loc.vo c15/Proofs_List.vo c15/Proofs_Safe.vo
c15/Proofs_Once.vio: c15/Proofs_Once.v c15/Lts.vio c15/Model.vio c15/Proofs_Chan.vio c15/Proofs_Loc.vio c15/Proofs_List.vio c15/Proofs_Safe.vio
c15/Proofs_Once.vos c15/Proofs_Once.vok c15/Proofs_Once.required_vos: c15/Proofs_Once.v c15/Lts.vos c15/Model.vos c15/Proofs_Chan.vos c15/Proofs_Loc.vos c15/Proofs_List.vos c15/Proofs_Safe.vos
c15/Proofs_Pend.vo c15/Proofs_Pend.glob c15/Proofs_Pend.v.beautified c15/Proofs_Pend.required_vo: c15/Proofs_Pend.v c15/Lts.vo c15/Model.vo c15/Proofs_Chan.vo c15/Proofs_Loc.vo c15/Proofs_List.vo c15/Proofs_Live.vo
c15/Proofs_Pend.vio: c15/Proofs_Pend.v c15/Lts.vio c15/Model.vio c15/Proofs_Chan.vio c15/Proofs_Loc.vio c15/Proofs_List.vio c15/Proofs_Live.vio
c15/Proofs_Pend.vos c15/Proofs_Pend.vok c15/Proofs_Pend.required_vos: c15/Proofs_Pend.v c15/Lts.vos c15/Model.vos c15/Proofs_Chan.vos c15/Proofs_Loc.vos c15/Proofs_List.vos c15/Proofs_Live.vos
c15/Proofs_Prog.vo c15/Proofs_Prog.glob c15/Proofs_Prog.v.beautified c15/Proofs_Prog.required_vo: c15/Proofs_Prog.v c15/Lts.vo c15/Model.vo c15/Proofs_Chan.vo c15/Proofs_Loc.vo c15/Proofs_List.vo c15/Proofs_Safe.vo c15/Proofs_Init.vo c15/Proofs_Live.vo c15/Proofs_Pend.vo c15/Proofs_Idx.vo c15/Proofs_Dead.vo
c15/Proofs_Prog.vio: c15/Proofs_Prog.v c15/Lts.vio c15/Model.vio c15/Proofs_Chan.vio c15/Proofs_Loc.vio c15/Proofs_List.vio c15/Proofs_Safe.vio c15/Proofs_Init.vio c15/Proofs_Live.vio c15/Proofs_Pend.vio c15/Proofs_Idx.vio c15/Proofs_Dead.vio
c15/Proofs_Prog.vos c15/Proofs_Prog.vok c15/Proofs_Prog.required_vos: c15/Proofs_Prog.v c15/Lts.vos c15/Model.vos c15/Proofs_Chan.vos c15/Proofs_Loc.vos c15/Proofs_List.vos c15/Proofs_Safe.vos c15/Proofs_Init.vos c15/Proofs_Live.vos c15/Proofs_Pend.vos c15/Proofs_Idx.vos c15/Proofs_Dead.vos
c15/Proofs_Safe.vo c15/Proofs_Safe.glob c15/Proofs_Safe.v.beautified c15/Proofs_Safe.required_vo: c15/Proofs_Safe.v c15/Lts.vo c15/Model.vo c15/Proofs_Chan.vo c15/Proofs_Loc.vo c15/Proofs_List.vo
c15/Proofs_Safe.vio: c15/Proofs_Safe.v c15/Lts.vio c15/Model.vio c15/Proofs_Chan.vio c15/Proofs_Loc.vio c15/Proofs_List.vio
c15/Proofs_Safe.vos c15/Proofs_Safe.vok c15/Proofs_Safe.required_vos: c15/Proofs_Safe.v c15/Lts.vos c15/Model.vos c15/Proofs_Chan.vos c15/Proofs_Loc.vos c15/Proofs_List.vos
c15/Proofs_TY.vo c15/Proofs_TY.glob c15/Proofs_TY.v.beautified c15/Proofs_TY.required_vo: c15/Proofs_TY.v c15/Lts.vo c15/Model.vo c15/Spec.vo c15/Proofs_Chan.vo c15/Proofs_Loc.vo c15/Proofs_List.vo c15/Proofs_Safe.vo c15/Proofs_Init.vo c15/Proofs_Live.vo c15/Proofs_Pend.vo c15/Proofs_Idx.vo c15/Proofs_Dead.vo c15/Proofs_Prog.vo c15/Proofs_Valid.vo c15/Proofs_WildOK.vo c15/Proofs_Once.vo c15/Proofs_First.vo c15/Proofs_Blk.vo
c15/Proofs_TY.vio: c15/Proofs_TY.v c15/Lts.vio c15/Model.vio c15/Spec.vio c15/Proofs_Chan.vio c15/Proofs_Loc.vio c15/Proofs_List.vio c15/Proofs_Safe.vio c15/Proofs_Init.vio c15/Proofs_Live.vio c15/Proofs_Pend.vio c15/Proofs_Idx.vio c15/Proofs_Dead.vio c15/Proofs_Prog.vio c15/Proofs_Valid.vio c15/Proofs_WildOK.vio c15/Proofs_Once.vio c15/Proofs_First.vio c15/Proofs_Blk.vio
c15/Proofs_TY.vos c15/Proofs_TY.vok c15/Proofs_TY.required_vos: c15/Proofs_TY.v c15/Lts.vos c15/Model.vos c15/Spec.vos c15/Proofs_Chan.vos c15/Proofs_Loc.vos c15/Proofs_List.vos c15/Proofs_Safe.vos c15/Proofs_Init.vos c15/Proofs_Live.vos c15/Proofs_Pend.vos c15/Proofs_Idx.vos c15/Proofs_Dead.vos c15/Proofs_Prog.vos c15/Proofs_Valid.vos c15/Proofs_WildOK.vos c15/Proofs_Once.vos c15/Proofs_First.vos c15/Proofs_Blk.vos
c15/Proofs_Thm.vo c15/Proofs_Thm.glob c15/Proofs_Thm.v.beautified c15/Proofs_Thm.required_vo: c15/Proofs_Thm.v c15/Lts.vo c15/Model.vo c15/Proofs_Chan.vo c15/Proofs_Loc.vo c15/Proofs_List.vo c15/Proofs_Safe.vo c15/Proofs_Init.vo c15/Proofs_Once.vo
c15/Proofs_Thm.vio: c15/Proofs_Thm.v c15/Lts.vio c15/Model.vio c15/Proofs_Chan.vio c15/Proofs_Loc.vio c15/Proofs_List.vio c15/Proofs_Safe.vio c15/Proofs_Init.vio c15/Proofs_Once.vio
c15/Proofs_Thm.vos c15/Proofs_Thm.vok c15/Proofs_Thm.required_vos: c15/Proofs_Thm.v c15/Lts.vos c15/Model.vos c15/Proofs_Chan.vos c15/Proofs_Loc.vos c15/Proofs_List.vos c15/Proofs_Safe.vos c15/Proofs_Init.vos c15/Proofs_Once.vos
c15/Proofs_Valid.vo c15/Proofs_Valid.glob c15/Proofs_Valid.v.beautified c15/Proofs_Valid.required_vo: c15/Proofs_Valid.v c15/Lts.vo c15/Model.vo c15/Proofs_Chan.vo c15/Proofs_Loc.vo c15/Proofs_List.vo c15/Proofs_Safe.vo c15/Proofs_Init.vo c15/Proofs_Live.vo c15/Proofs_Pend.vo c15/Proofs_Idx.vo c15/Proofs_Dead.vo c15/Proofs_Prog.vo
c15/Proofs_Valid.vio: c15/Proofs_Valid.v c15/Lts.vio c15/Model.vio c15/Proofs_Chan.vio c15/Proofs_Loc.vio c15/Proofs_List.vio c15/Proofs_Safe.vio c15/Proofs_Init.vio c15/Proofs_Live.vio c15/Proofs_Pend.vio c15/Proofs_Idx.vio c15/Proofs_Dead.vio c15/Proofs_Prog.vio
c15/Proofs_Valid.vos c15/Proofs_Valid.vok c15/Proofs_Valid.required_vos: c15/Proofs_Valid.v c15/Lts.vos c15/Model.vos c15/Proofs_Chan.vos c15/Proofs_Loc.vos c15/Proofs_List.vos c15/Proofs_Safe.vos c15/Proofs_Init.vos c15/Proofs_Live.vos c15/Proofs_Pend.vos c15/Proofs_Idx.vos c15/Proofs_Dead.vos c15/Proofs_Prog.vos
c15/Proofs_WSI.vo c15/Proofs_WSI.glob c15/Proofs_WSI.v.beautified c15/Proofs_WSI.required_vo: c15/Proofs_WSI.v c15/Lts.vo c15/Model.vo c15/Spec.vo c15/Proofs_Chan.vo c15/Proofs_Loc.vo c15/Proofs_List.vo c15/Proofs_Safe.vo c15/Proofs_Init.vo c15/Proofs_Live.vo c15/Proofs_Pend.vo c15/Proofs_Idx.vo c15/Proofs_Dead.vo c15/Proofs_Prog.vo c15/Proofs_Valid.vo c15/Proofs_WildOK.vo c15/Proofs_Once.vo c15/Proofs_First.vo c15/Proofs_Blk.vo
c15/Proofs_WSI.vio: c15/Proofs_WSI.v c15/Lts.vio c15/Model.vio c15/Spec.vio c15/Proofs_Chan.vio c15/Proofs_Loc.vio c15/Proofs_List.vio c15/Proofs_Safe.vio c15/Proofs_Init.vio c15/Proofs_Live.vio c15/Proofs_Pend.vio c15/Proofs_Idx.vio c15/Proofs_Dead.vio c15/Proofs_Prog.vio c15/Proofs_Valid.vio c15/Proofs_WildOK.vio c15/Proofs_Once.vio c15/Proofs_First.vio c15/Proofs_Blk.vio
c15/Proofs_WSI.vos c15/Proofs_WSI.vok c15/Proofs_WSI.required_vos: c15/Proofs_WSI.v c15/Lts.vos c15/Model.vos c15/Spec.vos c15/Proofs_Chan.vos c15/Proofs_Loc.vos c15/Proofs_List.vos c15/Proofs_Safe.vos c15/Proofs_Init.vos c15/Proofs_Live.vos c15/Proofs_Pend.vos c15/Proofs_Idx.vos c15/Proofs_Dead.vos c15/Proofs_Prog.vos c15/Proofs_Valid.vos c15/Proofs_WildOK.vos c15/Proofs_Once.vos c15/Proofs_First.vos c15/Proofs_Blk.vos
c15/Proofs_Wild.vo c15/Proofs_Wild.glob c15/Proofs_Wild.v.beautified c15/Proofs_Wild.required_vo: c15/Proofs_Wild.v c15/Lts.vo c15/Model.vo c15/Proofs_Chan.vo c15/Proofs_Loc.vo c15/Proofs_List.vo c15/Proofs_Safe.vo c15/Proofs_Init.vo c15/Proofs_Once.vo
c15/Proofs_Wild.vio: c15/Proofs_Wild.v c15/Lts.vio c15/Model.vio c15/Proofs_Chan.vio c15/Proofs_Loc.vio c15/Proofs_List.vio c15/Proofs_Safe.vio c15/Proofs_Init.vio c15/Proofs_Once.vio
c15/Proofs_Wild.vos c15/Proofs_Wild.vok c15/Proofs_Wild.required_vos: c15/Proofs_Wild.v c15/Lts.vos c15/Model.vos c15/Proofs_Chan.vos c15/Proofs_Loc.vos c15/Proofs_List.vos c15/Proofs_Safe.vos c15/Proofs_Init.vos c15/Proofs_Once.vos
c15/Proofs_WildOK.vo c15/Proofs_WildOK.glob c15/Proofs_WildOK.v.beautified c15/Proofs_WildOK.required_vo: c15/Proofs_WildOK.v c15/Lts.vo c15/Model.vo c15/Proofs_Chan.vo c15/Proofs_Loc.vo c15/Proofs_List.vo c15/Proofs_Safe.vo c15/Proofs_Init.vo c15/Proofs_Live.vo c15/Proofs_Pend.vo c15/Proofs_Idx.vo c15/Proofs_Dead.vo c15/Proofs_Prog.vo c15/Proofs_Valid.vo
c15/Proofs_WildOK.vio: c15/Proofs_WildOK.v c15/Lts.vio c15/Model.vio c15/Proofs_Chan.vio c15/Proofs_Loc.vio c15/Proofs_List.vio c15/Proofs_Safe.vio c15/Proofs_Init.vio c15/Proofs_Live.vio c15/Proofs_Pend.vio c15/Proofs_Idx.vio c15/Proofs_Dead.vio c15/Proofs_Prog.vio c15/Proofs_Valid.vio
c15/Proofs_WildOK.vos c15/Proofs_WildOK.vok c15/Proofs_WildOK.required_vos: c15/Proofs_WildOK.v c15/Lts.vos c15/Model.vos c15/Proofs_Chan.vos c15/Proofs_Loc.vos c15/Proofs_List.vos c15/Proofs_Safe.vos c15/Proofs_Init.vos c15/Proofs_Live.vos c15/Proofs_Pend.vos c15/Proofs_Idx.vos c15/Proofs_Dead.vos c15/Proofs_Prog.vos c15/Proofs_Valid.vos
c15/Properties.vo c15/Properties.glob c15/Properties.v.beautified c15/Properties.required_vo: c15/Properties.v lib/Wire.vo c15/Lts.vo c15/Model.vo c15/Spec.vo c15/Proofs.vo c15/Proofs_Chan.vo c15/Proofs_Loc.vo c15/Proofs_List.vo c15/Proofs_Safe.vo c15/Proofs_Init.vo c15/Proofs_Once.vo c15/Proofs_Thm.vo c15/Proofs_Grow.vo c15/Proofs_First.vo c15/Proofs_Wild.vo c15/Proofs_Live.vo c15/Proofs_Dead.vo c15/Proofs_Pend.vo c15/Proofs_Idx.vo c15/Proofs_Prog.vo c15/Proofs_Valid.vo c15/Proofs_WildOK.vo
c15/Properties.vio: c15/Properties.v lib/Wire.vio c15/Lts.vio c15/Model.vio c15/Spec.vio c15/Proofs.vio c15/Proofs_Chan.vio c15/Proofs_Loc.vio c15/Proofs_List.vio c15/Proofs_Safe.vio c15/Proofs_Init.vio c15/Proofs_Once.vio c15/Proofs_Thm.vio c15/Proofs_Grow.vio c15/Proofs_First.vio c15/Proofs_Wild.vio c15/Proofs_Live.vio c15/Proofs_Dead.vio c15/Proofs_Pend.vio c15/Proofs_Idx.vio c15/Proofs_Prog.vio c15/Proofs_Valid.vio c15/Proofs_WildOK.vio
c15/Properties.vos c15/Properties.vok c15/Properties.required_vos: c15/Properties.v lib/Wire.vos c15/Lts.vos c15/Model.vos c15/Spec.vos c15/Proofs.vos c15/Proofs_Chan.vos c15/Proofs_Loc.vos c15/Proofs_List.vos c15/Proofs_Safe.vos c15/Proofs_Init.vos c15/Proofs_Once.vos c15/Proofs_Thm.vos c15/Proofs_Grow.vos c15/Proofs_First.vos c15/Proofs_Wild.vos c15/Proofs_Live.vos c15/Proofs_Dead.vos c15/Proofs_Pend.vos c15/Proofs_Idx.vos c15/Proofs_Prog.vos c15/Proofs_Valid.vos c15/Proofs_WildOK.vos
c15/Spec.vo c15/Spec.glob c15/Spec.v.beautified c15/Spec.required_vo: c15/Spec.v lib/Wire.vo c15/Lts.vo c15/Model.vo
c15/Spec.vio: c15/Spec.v lib/Wire.vio c15/Lts.vio c15/Model.vio
c15/Spec.vos c15/Spec.vok c15/Spec.required_vos: c15/Spec.v lib/Wire.vos c15/Lts.vos c15/Model.vos
c16/Extract.vo c16/Extract.glob c16/Extract.v.beautified c16/Extract.required_vo: c16/Extract.v c16/Spec.vo
c16/Extract.vio: c16/Extract.v c16/Spec.vio
c16/Extract.vos c16/Extract.vok c16/Extract.required_vos: c16/Extract.v c16/Spec.vos
c16/Model.vo c16/Model.glob c16/Model.v.beautified c16/Model.required_vo: c16/Model.v gen/Consts_c16.vo
c16/Model.vio: c16/Model.v gen/Consts_c16.vio
c16/Model.vos c16/Model.vok c16/Model.required_vos: c16/Model.v gen/Consts_c16.vos
c16/Proofs.vo c16/Proofs.glob c16/Proofs.v.beautified c16/Proofs.required_vo: c16/Proofs.v c16/Proofs_dd.vo c16/Proofs_rl.vo c16/Proofs_serve.vo c16/Proofs_rates.vo
c16/Proofs.vio: c16/Proofs.v c16/Proofs_dd.vio c16/Proofs_rl.vio c16/Proofs_serve.vio c16/Proofs_rates.vio
c16/Proofs.vos c16/Proofs.vok c16/Proofs.required_vos: c16/Proofs.v c16/Proofs_dd.vos c16/Proofs_rl.vos c16/Proofs_serve.vos c16/Proofs_rates.vos
c16/Proofs_dd.vo c16/Proofs_dd.glob c16/Proofs_dd.v.beautified c16/Proofs_dd.required_vo: c16/Proofs_dd.v lib/Wire.vo gen/Consts_c16.vo c16/Model.vo c16/Spec.vo
c16/Proofs_dd.vio: c16/Proofs_dd.v lib/Wire.vio gen/Consts_c16.vio c16/Model.vio c16/Spec.vio
c16/Proofs_dd.vos c16/Proofs_dd.vok c16/Proofs_dd.required_vos: c16/Proofs_dd.v lib/Wire.vos gen/Consts_c16.vos c16/Model.vos c16/Spec.vos
c16/Proofs_rates.vo c16/Proofs_rates.glob c16/Proofs_rates.v.beautified c16/Proofs_rates.required_vo: c16/Proofs_rates.v lib/Wire.vo gen/Consts_c16.vo c16/Model.vo c16/Spec.vo c16/Proofs_dd.vo c16/Proofs_rl.vo c16/Proofs_serve.vo
c16/Proofs_rates.vio: c16/Proofs_rates.v lib/Wire.vio gen/Consts_c16.vio c16/Model.vio c16/Spec.vio c16/Proofs_dd.vio c16/Proofs_rl.vio c16/Proofs_serve.vio
c16/Proofs_rates.vos c16/Proofs_rates.vok c16/Proofs_rates.required_vos: c16/Proofs_rates.v lib/Wire.vos gen/Consts_c16.vos c16/Model.vos c16/Spec.vos c16/Proofs_dd.vos c16/Proofs_rl.vos c16/Proofs_serve.vos
c16/Proofs_rl.vo c16/Proofs_rl.glob c16/Proofs_rl.v.beautified c16/Proofs_rl.required_vo: c16/Proofs_rl.v lib/Wire.vo gen/Consts_c16.vo c16/Model.vo c16/Spec.vo
c16/Proofs_rl.vio: c16/Proofs_rl.v lib/Wire.vio gen/Consts_c16.vio c16/Model.vio c16/Spec.vio
c16/Proofs_rl.vos c16/Proofs_rl.vok c16/Proofs_rl.required_vos: c16/Proofs_rl.v lib/Wire.vos gen/Consts_c16.vos c16/Model.vos c16/Spec.vos
c16/Proofs_serve.vo c16/Proofs_serve.glob c16/Proofs_serve.v.beautified c16/Proofs_serve.required_vo: c16/Proofs_serve.v lib/Wire.vo gen/Consts_c16.vo c16/Model.vo c16/Spec.vo c16/Proofs_dd.vo c16/Proofs_rl.vo
c16/Proofs_serve.vio: c16/Proofs_serve.v lib/Wire.vio gen/Consts_c16.vio c16/Model.vio c16/Spec.vio c16/Proofs_dd.vio c16/Proofs_rl.vio
c16/Proofs_serve.vos c16/Proofs_serve.vok c16/Proofs_serve.required_vos: c16/Proofs_serve.v lib/Wire.vos gen/Consts_c16.vos c16/Model.vos c16/Spec.vos c16/Proofs_dd.vos c16/Proofs_rl.vos
c16/Properties.vo c16/Properties.glob c16/Properties.v.beautified c16/Properties.required_vo: c16/Properties.v lib/Wire.vo gen/Consts_c16.vo c16/Model.vo c16/Spec.vo c16/Proofs.vo
c16/Properties.vio: c16/Properties.v lib/Wire.vio gen/Consts_c16.vio c16/Model.vio c16/Spec.vio c16/Proofs.vio
c16/Properties.vos c16/Properties.vok c16/Properties.required_vos: c16/Properties.v lib/Wire.vos gen/Consts_c16.vos c16/Model.vos c16/Spec.vos c16/Proofs.vos
c16/Spec.vo c16/Spec.glob c16/Spec.v.beautified c16/Spec.required_vo: c16/Spec.v lib/Wire.vo gen/Consts_c16.vo c16/Model.vo
c16/Spec.vio: c16/Spec.v lib/Wire.vio gen/Consts_c16.vio c16/Model.vio
c16/Spec.vos c16/Spec.vok c16/Spec.required_vos: c16/Spec.v lib/Wire.vos gen/Consts_c16.vos c16/Model.vos
c17/Extract.vo c17/Extract.glob c17/Extract.v.beautified c17/Extract.required_vo: c17/Extract.v c17/Spec.vo
c17/Extract.vio: c17/Extract.v c17/Spec.vio
c17/Extract.vos c17/Extract.vok c17/Extract.required_vos: c17/Extract.v c17/Spec.vos
c17/Model.vo c17/Model.glob c17/Model.v.beautified c17/Model.required_vo: c17/Model.v 
c17/Model.vio: c17/Model.v 
c17/Model.vos c17/Model.vok c17/Model.required_vos: c17/Model.v 
c17/Proofs.vo c17/Proofs.glob c17/Proofs.v.beautified c17/Proofs.required_vo: c17/Proofs.v lib/Wire.vo c17/Model.vo c17/Spec.vo gen/Consts_c17.vo c17/Proofs_amap.vo c17/Proofs_ext.vo c17/Proofs_inv.vo c17/Proofs_obs.vo c17/Proofs_sort.vo
c17/Proofs.vio: c17/Proofs.v lib/Wire.vio c17/Model.vio c17/Spec.vio gen/Consts_c17.vio c17/Proofs_amap.vio c17/Proofs_ext.vio c17/Proofs_inv.vio c17/Proofs_obs.vio c17/Proofs_sort.vio
c17/Proofs.vos c17/Proofs.vok c17/Proofs.required_vos: c17/Proofs.v lib/Wire.vos c17/Model.vos c17/Spec.vos gen/Consts_c17.vos c17/Proofs_amap.vos c17/Proofs_ext.vos c17/Proofs_inv.vos c17/Proofs_obs.vos c17/Proofs_sort.vos
c17/Proofs_amap.vo c17/Proofs_amap.glob c17/Proofs_amap.v.beautified c17/Proofs_amap.required_vo: c17/Proofs_amap.v c17/Model.vo
c17/Proofs_amap.vio: c17/Proofs_amap.v c17/Model.vio
c17/Proofs_amap.vos c17/Proofs_amap.vok c17/Proofs_amap.required_vos: c17/Proofs_amap.v c17/Model.vos
c17/Proofs_ext.vo c17/Proofs_ext.glob c17/Proofs_ext.v.beautified c17/Proofs_ext.required_vo: c17/Proofs_ext.v c17/Model.vo c17/Proofs_amap.vo
c17/Proofs_ext.vio: c17/Proofs_ext.v c17/Model.vio c17/Proofs_amap.vio
c17/Proofs_ext.vos c17/Proofs_ext.vok c17/Proofs_ext.required_vos: c17/Proofs_ext.v c17/Model.vos c17/Proofs_amap.vos
c17/Proofs_inv.vo c17/Proofs_inv.glob c17/Proofs_inv.v.beautified c17/Proofs_inv.required_vo: c17/Proofs_inv.v lib/Wire.vo c17/Model.vo c17/Spec.vo c17/Proofs_amap.vo c17/Proofs_ext.vo
c17/Proofs_inv.vio: c17/Proofs_inv.v lib/Wire.vio c17/Model.vio c17/Spec.vio c17/Proofs_amap.vio c17/Proofs_ext.vio
c17/Proofs_inv.vos c17/Proofs_inv.vok c17/Proofs_inv.required_vos: c17/Proofs_inv.v lib/Wire.vos c17/Model.vos c17/Spec.vos c17/Proofs_amap.vos c17/Proofs_ext.vos
c17/Proofs_obs.vo c17/Proofs_obs.glob c17/Proofs_obs.v.beautified c17/Proofs_obs.required_vo: c17/Proofs_obs.v lib/Wire.vo c17/Model.vo c17/Spec.vo c17/Proofs_amap.vo c17/Proofs_ext.vo c17/Proofs_inv.vo
c17/Proofs_obs.vio: c17/Proofs_obs.v lib/Wire.vio c17/Model.vio c17/Spec.vio c17/Proofs_amap.vio c17/Proofs_ext.vio c17/Proofs_inv.vio
c17/Proofs_obs.vos c17/Proofs_obs.vok c17/Proofs_obs.required_vos: c17/Proofs_obs.v lib/Wire.vos c17/Model.vos c17/Spec.vos c17/Proofs_amap.vos c17/Proofs_ext.vos c17/Proofs_inv.vos
c17/Proofs_sort.vo c17/Proofs_sort.glob c17/Proofs_sort.v.beautified c17/Proofs_sort.required_vo: c17/Proofs_sort.v c17/Model.vo
c17/Proofs_sort.vio: c17/Proofs_sort.v c17/Model.vio
c17/Proofs_sort.vos c17/Proofs_sort.vok c17/Proofs_sort.required_vos: c17/Proofs_sort.v c17/Model.vos
c17/Properties.vo c17/Properties.glob c17/Properties.v.beautified c17/Properties.required_vo: c17/Properties.v lib/Wire.vo c17/Model.vo c17/Spec.vo gen/Consts_c17.vo c17/Proofs_amap.vo c17/Proofs_ext.vo c17/Proofs_inv.vo c17/Proofs_obs.vo c17/Proofs.vo
c17/Properties.vio: c17/Properties.v lib/Wire.vio c17/Model.vio c17/Spec.vio gen/Consts_c17.vio c17/Proofs_amap.vio c17/Proofs_ext.vio c17/Proofs_inv.vio c17/Proofs_obs.vio c17/Proofs.vio
c17/Properties.vos c17/Properties.vok c17/Properties.required_vos: c17/Properties.v lib/Wire.vos c17/Model.vos c17/Spec.vos gen/Consts_c17.vos c17/Proofs_amap.vos c17/Proofs_ext.vos c17/Proofs_inv.vos c17/Proofs_obs.vos c17/Proofs.vos
c17/Spec.vo c17/Spec.glob c17/Spec.v.beautified c17/Spec.required_vo: c17/Spec.v lib/Wire.vo c17/Model.vo gen/Consts_c17.vo
c17/Spec.vio: c17/Spec.v lib/Wire.vio c17/Model.vio gen/Consts_c17.vio
c17/Spec.vos c17/Spec.vok c17/Spec.required_vos: c17/Spec.v lib/Wire.vos c17/Model.vos gen/Consts_c17.vos
c18/Extract.vo c18/Extract.glob c18/Extract.v.beautified c18/Extract.required_vo: c18/Extract.v c18/Spec.vo
c18/Extract.vio: c18/Extract.v c18/Spec.vio
c18/Extract.vos c18/Extract.vok c18/Extract.required_vos: c18/Extract.v c18/Spec.vos
c18/Model.vo c18/Model.glob c18/Model.v.beautified c18/Model.required_vo: c18/Model.v 
c18/Model.vio: c18/Model.v 
c18/Model.vos c18/Model.vok c18/Model.required_vos: c18/Model.v 
c18/Proofs.vo c18/Proofs.glob c18/Proofs.v.beautified c18/Proofs.required_vo: c18/Proofs.v lib/Wire.vo c18/Model.vo c18/Spec.vo
c18/Proofs.vio: c18/Proofs.v lib/Wire.vio c18/Model.vio c18/Spec.vio
c18/Proofs.vos c18/Proofs.vok c18/Proofs.required_vos: c18/Proofs.v lib/Wire.vos c18/Model.vos c18/Spec.vos
c18/Proofs_trace.vo c18/Proofs_trace.glob c18/Proofs_trace.v.beautified c18/Proofs_trace.required_vo: c18/Proofs_trace.v lib/Wire.vo c18/Model.vo c18/Spec.vo c18/Proofs.vo c18/Proofs_verify.vo
c18/Proofs_trace.vio: c18/Proofs_trace.v lib/Wire.vio c18/Model.vio c18/Spec.vio c18/Proofs.vio c18/Proofs_verify.vio
c18/Proofs_trace.vos c18/Proofs_trace.vok c18/Proofs_trace.required_vos: c18/Proofs_trace.v lib/Wire.vos c18/Model.vos c18/Spec.vos c18/Proofs.vos c18/Proofs_verify.vos
c18/Proofs_verify.vo c18/Proofs_verify.glob c18/Proofs_verify.v.beautified c18/Proofs_verify.required_vo: c18/Proofs_verify.v lib/Wire.vo c18/Model.vo c18/Spec.vo
c18/Proofs_verify.vio: c18/Proofs_verify.v lib/Wire.vio c18/Model.vio c18/Spec.vio
c18/Proofs_verify.vos c18/Proofs_verify.vok c18/Proofs_verify.required_vos: c18/Proofs_verify.v lib/Wire.vos c18/Model.vos c18/Spec.vos
c18/Properties.vo c18/Properties.glob c18/Properties.v.beautified c18/Properties.required_vo: c18/Properties.v lib/Wire.vo c18/Model.vo c18/Spec.vo c18/Proofs.vo c18/Proofs_verify.vo c18/Proofs_trace.vo gen/Consts_c18.vo
c18/Properties.vio: c18/Properties.v lib/Wire.vio c18/Model.vio c18/Spec.vio c18/Proofs.vio c18/Proofs_verify.vio c18/Proofs_trace.vio gen/Consts_c18.vio
c18/Properties.vos c18/Properties.vok c18/Properties.required_vos: c18/Properties.v lib/Wire.vos c18/Model.vos c18/Spec.vos c18/Proofs.vos c18/Proofs_verify.vos c18/Proofs_trace.vos gen/Consts_c18.vos
c18/Spec.vo c18/Spec.glob c18/Spec.v.beautified c18/Spec.required_vo: c18/Spec.v lib/Wire.vo c18/Model.vo gen/Consts_c18.vo
c18/Spec.vio: c18/Spec.v lib/Wire.vio c18/Model.vio gen/Consts_c18.vio
c18/Spec.vos c18/Spec.vok c18/Spec.required_vos: c18/Spec.v lib/Wire.vos c18/Model.vos gen/Consts_c18.vos
c19/Extract.vo c19/Extract.glob c19/Extract.v.beautified c19/Extract.required_vo: c19/Extract.v c19/Spec.vo
c19/Extract.vio: c19/Extract.v c19/Spec.vio
c19/Extract.vos c19/Extract.vok c19/Extract.required_vos: c19/Extract.v c19/Spec.vos
c19/Model.vo c19/Model.glob c19/Model.v.beautified c19/Model.required_vo: c19/Model.v c08/Varint.vo c08/SymCrypto.vo gen/Consts_c19.vo
c19/Model.vio: c19/Model.v c08/Varint.vio c08/SymCrypto.vio gen/Consts_c19.vio
c19/Model.vos c19/Model.vok c19/Model.required_vos: c19/Model.v c08/Varint.vos c08/SymCrypto.vos gen/Consts_c19.vos
c19/Proofs_Adv.vo c19/Proofs_Adv.glob c19/Proofs_Adv.v.beautified c19/Proofs_Adv.required_vo: c19/Proofs_Adv.v lib/Wire.vo c08/Varint.vo c08/SymCrypto.vo gen/Consts_c19.vo c19/Model.vo c19/Spec.vo c19/Proofs_Bytes.vo c19/Proofs_Server.vo c19/Proofs_Step.vo
c19/Proofs_Adv.vio: c19/Proofs_Adv.v lib/Wire.vio c08/Varint.vio c08/SymCrypto.vio gen/Consts_c19.vio c19/Model.vio c19/Spec.vio c19/Proofs_Bytes.vio c19/Proofs_Server.vio c19/Proofs_Step.vio
c19/Proofs_Adv.vos c19/Proofs_Adv.vok c19/Proofs_Adv.required_vos: c19/Proofs_Adv.v lib/Wire.vos c08/Varint.vos c08/SymCrypto.vos gen/Consts_c19.vos c19/Model.vos c19/Spec.vos c19/Proofs_Bytes.vos c19/Proofs_Server.vos c19/Proofs_Step.vos
c19/Proofs_Bytes.vo c19/Proofs_Bytes.glob c19/Proofs_Bytes.v.beautified c19/Proofs_Bytes.required_vo: c19/Proofs_Bytes.v c08/Varint.vo c08/SymCrypto.vo gen/Consts_c19.vo c19/Model.vo
c19/Proofs_Bytes.vio: c19/Proofs_Bytes.v c08/Varint.vio c08/SymCrypto.vio gen/Consts_c19.vio c19/Model.vio
c19/Proofs_Bytes.vos c19/Proofs_Bytes.vok c19/Proofs_Bytes.required_vos: c19/Proofs_Bytes.v c08/Varint.vos c08/SymCrypto.vos gen/Consts_c19.vos c19/Model.vos
c19/Proofs_Client.vo c19/Proofs_Client.glob c19/Proofs_Client.v.beautified c19/Proofs_Client.required_vo: c19/Proofs_Client.v lib/Wire.vo c08/Varint.vo c08/SymCrypto.vo gen/Consts_c19.vo c19/Model.vo c19/Spec.vo c19/Proofs_Bytes.vo c19/Proofs_Server.vo c19/Proofs_Step.vo
c19/Proofs_Client.vio: c19/Proofs_Client.v lib/Wire.vio c08/Varint.vio c08/SymCrypto.vio gen/Consts_c19.vio c19/Model.vio c19/Spec.vio c19/Proofs_Bytes.vio c19/Proofs_Server.vio c19/Proofs_Step.vio
c19/Proofs_Client.vos c19/Proofs_Client.vok c19/Proofs_Client.required_vos: c19/Proofs_Client.v lib/Wire.vos c08/Varint.vos c08/SymCrypto.vos gen/Consts_c19.vos c19/Model.vos c19/Spec.vos c19/Proofs_Bytes.vos c19/Proofs_Server.vos c19/Proofs_Step.vos
c19/Proofs_Inv.vo c19/Proofs_Inv.glob c19/Proofs_Inv.v.beautified c19/Proofs_Inv.required_vo: c19/Proofs_Inv.v lib/Wire.vo c08/Varint.vo c08/SymCrypto.vo gen/Consts_c19.vo c19/Model.vo c19/Spec.vo c19/Proofs_Bytes.vo c19/Proofs_Server.vo c19/Proofs_Step.vo c19/Proofs_Adv.vo c19/Proofs_Trace.vo
c19/Proofs_Inv.vio: c19/Proofs_Inv.v lib/Wire.vio c08/Varint.vio c08/SymCrypto.vio gen/Consts_c19.vio c19/Model.vio c19/Spec.vio c19/Proofs_Bytes.vio c19/Proofs_Server.vio c19/Proofs_Step.vio c19/Proofs_Adv.vio c19/Proofs_Trace.vio
c19/Proofs_Inv.vos c19/Proofs_Inv.vok c19/Proofs_Inv.required_vos: c19/Proofs_Inv.v lib/Wire.vos c08/Varint.vos c08/SymCrypto.vos gen/Consts_c19.vos c19/Model.vos c19/Spec.vos c19/Proofs_Bytes.vos c19/Proofs_Server.vos c19/Proofs_Step.vos c19/Proofs_Adv.vos c19/Proofs_Trace.vos
c19/Proofs_Mint.vo c19/Proofs_Mint.glob c19/Proofs_Mint.v.beautified c19/Proofs_Mint.required_vo: c19/Proofs_Mint.v lib/Wire.vo c08/Varint.vo c08/SymCrypto.vo gen/Consts_c19.vo c19/Model.vo c19/Spec.vo c19/Proofs_Bytes.vo c19/Proofs_Server.vo c19/Proofs_Step.vo c19/Proofs_Adv.vo c19/Proofs_Trace.vo
c19/Proofs_Mint.vio: c19/Proofs_Mint.v lib/Wire.vio c08/Varint.vio c08/SymCrypto.vio gen/Consts_c19.vio c19/Model.vio c19/Spec.vio c19/Proofs_Bytes.vio c19/Proofs_Server.vio c19/Proofs_Step.vio c19/Proofs_Adv.vio c19/Proofs_Trace.vio
c19/Proofs_Mint.vos c19/Proofs_Mint.vok c19/Proofs_Mint.required_vos: c19/Proofs_Mint.v lib/Wire.vos c08/Varint.vos c08/SymCrypto.vos gen/Consts_c19.vos c19/Model.vos c19/Spec.vos c19/Proofs_Bytes.vos c19/Proofs_Server.vos c19/Proofs_Step.vos c19/Proofs_Adv.vos c19/Proofs_Trace.vos
c19/Proofs_Server.vo c19/Proofs_Server.glob c19/Proofs_Server.v.beautified c19/Proofs_Server.required_vo: c19/Proofs_Server.v lib/Wire.vo c08/Varint.vo c08/SymCrypto.vo gen/Consts_c19.vo c19/Model.vo c19/Spec.vo c19/Proofs_Bytes.vo
c19/Proofs_Server.vio: c19/Proofs_Server.v lib/Wire.vio c08/Varint.vio c08/SymCrypto.vio gen/Consts_c19.vio c19/Model.vio c19/Spec.vio c19/Proofs_Bytes.vio
c19/Proofs_Server.vos c19/Proofs_Server.vok c19/Proofs_Server.required_vos: c19/Proofs_Server.v lib/Wire.vos c08/Varint.vos c08/SymCrypto.vos gen/Consts_c19.vos c19/Model.vos c19/Spec.vos c19/Proofs_Bytes.vos
c19/Proofs_Step.vo c19/Proofs_Step.glob c19/Proofs_Step.v.beautified c19/Proofs_Step.required_vo: c19/Proofs_Step.v lib/Wire.vo c08/Varint.vo c08/SymCrypto.vo gen/Consts_c19.vo c19/Model.vo c19/Spec.vo c19/Proofs_Bytes.vo c19/Proofs_Server.vo
c19/Proofs_Step.vio: c19/Proofs_Step.v lib/Wire.vio c08/Varint.vio c08/SymCrypto.vio gen/Consts_c19.vio c19/Model.vio c19/Spec.vio c19/Proofs_Bytes.vio c19/Proofs_Server.vio
c19/Proofs_Step.vos c19/Proofs_Step.vok c19/Proofs_Step.required_vos: c19/Proofs_Step.v lib/Wire.vos c08/Varint.vos c08/SymCrypto.vos gen/Consts_c19.vos c19/Model.vos c19/Spec.vos c19/Proofs_Bytes.vos c19/Proofs_Server.vos
c19/Proofs_Trace.vo c19/Proofs_Trace.glob c19/Proofs_Trace.v.beautified c19/Proofs_Trace.required_vo: c19/Proofs_Trace.v lib/Wire.vo c08/Varint.vo c08/SymCrypto.vo gen/Consts_c19.vo c19/Model.vo c19/Spec.vo c19/Proofs_Bytes.vo c19/Proofs_Server.vo c19/Proofs_Step.vo c19/Proofs_Adv.vo
c19/Proofs_Trace.vio: c19/Proofs_Trace.v lib/Wire.vio c08/Varint.vio c08/SymCrypto.vio gen/Consts_c19.vio c19/Model.vio c19/Spec.vio c19/Proofs_Bytes.vio c19/Proofs_Server.vio c19/Proofs_Step.vio c19/Proofs_Adv.vio
c19/Proofs_Trace.vos c19/Proofs_Trace.vok c19/Proofs_Trace.required_vos: c19/Proofs_Trace.v lib/Wire.vos c08/Varint.vos c08/SymCrypto.vos gen/Consts_c19.vos c19/Model.vos c19/Spec.vos c19/Proofs_Bytes.vos c19/Proofs_Server.vos c19/Proofs_Step.vos c19/Proofs_Adv.vos
c19/Properties.vo c19/Properties.glob c19/Properties.v.beautified c19/Properties.required_vo: c19/Properties.v lib/Wire.vo c08/Varint.vo c08/SymCrypto.vo gen/Consts_c19.vo c19/Model.vo c19/Spec.vo c19/Proofs_Bytes.vo c19/Proofs_Server.vo c19/Proofs_Step.vo c19/Proofs_Client.vo c19/Proofs_Adv.vo c19/Proofs_Trace.vo c19/Proofs_Inv.vo c19/Proofs_Mint.vo
c19/Properties.vio: c19/Properties.v lib/Wire.vio c08/Varint.vio c08/SymCrypto.vio gen/Consts_c19.vio c19/Model.vio c19/Spec.vio c19/Proofs_Bytes.vio c19/Proofs_Server.vio c19/Proofs_Step.vio c19/Proofs_Client.vio c19/Proofs_Adv.vio c19/Proofs_Trace.vio c19/Proofs_Inv.vio c19/Proofs_Mint.vio
c19/Properties.vos c19/Properties.vok c19/Properties.required_vos: c19/Properties.v lib/Wire.vos c08/Varint.vos c08/SymCrypto.vos gen/Consts_c19.vos c19/Model.vos c19/Spec.vos c19/Proofs_Bytes.vos c19/Proofs_Server.vos c19/Proofs_Step.vos c19/Proofs_Client.vos c19/Proofs_Adv.vos c19/Proofs_Trace.vos c19/Proofs_Inv.vos c19/Proofs_Mint.vos
c19/Spec.vo c19/Spec.glob c19/Spec.v.beautified c19/Spec.required_vo: c19/Spec.v lib/Wire.vo c08/Varint.vo c08/SymCrypto.vo gen/Consts_c19.vo c19/Model.vo
c19/Spec.vio: c19/Spec.v lib/Wire.vio c08/Varint.vio c08/SymCrypto.vio gen/Consts_c19.vio c19/Model.vio
c19/Spec.vos c19/Spec.vok c19/Spec.required_vos: c19/Spec.v lib/Wire.vos c08/Varint.vos c08/SymCrypto.vos gen/Consts_c19.vos c19/Model.vos
c20/Extract.vo c20/Extract.glob c20/Extract.v.beautified c20/Extract.required_vo: c20/Extract.v c20/Spec.vo
c20/Extract.vio: c20/Extract.v c20/Spec.vio
c20/Extract.vos c20/Extract.vok c20/Extract.required_vos: c20/Extract.v c20/Spec.vos
c20/Model.vo c20/Model.glob c20/Model.v.beautified c20/Model.required_vo: c20/Model.v 
c20/Model.vio: c20/Model.v 
c20/Model.vos c20/Model.vok c20/Model.required_vos: c20/Model.v 
c20/Proofs.vo c20/Proofs.glob c20/Proofs.v.beautified c20/Proofs.required_vo: c20/Proofs.v lib/Wire.vo c20/Model.vo c20/Spec.vo
c20/Proofs.vio: c20/Proofs.v lib/Wire.vio c20/Model.vio c20/Spec.vio
c20/Proofs.vos c20/Proofs.vok c20/Proofs.required_vos: c20/Proofs.v lib/Wire.vos c20/Model.vos c20/Spec.vos
c20/Proofs_Probe.vo c20/Proofs_Probe.glob c20/Proofs_Probe.v.beautified c20/Proofs_Probe.required_vo: c20/Proofs_Probe.v c20/Model.vo c20/Spec.vo c20/Proofs.vo
c20/Proofs_Probe.vio: c20/Proofs_Probe.v c20/Model.vio c20/Spec.vio c20/Proofs.vio
c20/Proofs_Probe.vos c20/Proofs_Probe.vok c20/Proofs_Probe.required_vos: c20/Proofs_Probe.v c20/Model.vos c20/Spec.vos c20/Proofs.vos
c20/Properties.vo c20/Properties.glob c20/Properties.v.beautified c20/Properties.required_vo: c20/Properties.v lib/Wire.vo c20/Model.vo c20/Spec.vo c20/Proofs.vo c20/Proofs_Probe.vo gen/Consts_c20.vo
c20/Properties.vio: c20/Properties.v lib/Wire.vio c20/Model.vio c20/Spec.vio c20/Proofs.vio c20/Proofs_Probe.vio gen/Consts_c20.vio
c20/Properties.vos c20/Properties.vok c20/Properties.required_vos: c20/Properties.v lib/Wire.vos c20/Model.vos c20/Spec.vos c20/Proofs.vos c20/Proofs_Probe.vos gen/Consts_c20.vos
c20/Spec.vo c20/Spec.glob c20/Spec.v.beautified c20/Spec.required_vo: c20/Spec.v lib/Wire.vo c20/Model.vo
c20/Spec.vio: c20/Spec.v lib/Wire.vio c20/Model.vio
c20/Spec.vos c20/Spec.vok c20/Spec.required_vos: c20/Spec.v lib/Wire.vos c20/Model.vos
gen/Consts_c01.vo gen/Consts_c01.glob gen/Consts_c01.v.beautified gen/Consts_c01.required_vo: gen/Consts_c01.v 
gen/Consts_c01.vio: gen/Consts_c01.v 
gen/Consts_c01.vos gen/Consts_c01.vok gen/Consts_c01.required_vos: gen/Consts_c01.v 
gen/Consts_c02.vo gen/Consts_c02.glob gen/Consts_c02.v.beautified gen/Consts_c02.required_vo: gen/Consts_c02.v 
gen/Consts_c02.vio: gen/Consts_c02.v 
gen/Consts_c02.vos gen/Consts_c02.vok gen/Consts_c02.required_vos: gen/Consts_c02.v 
gen/Consts_c04.vo gen/Consts_c04.glob gen/Consts_c04.v.beautified gen/Consts_c04.required_vo: gen/Consts_c04.v 
gen/Consts_c04.vio: gen/Consts_c04.v 
gen/Consts_c04.vos gen/Consts_c04.vok gen/Consts_c04.required_vos: gen/Consts_c04.v 
gen/Consts_c05.vo gen/Consts_c05.glob gen/Consts_c05.v.beautified gen/Consts_c05.required_vo: gen/Consts_c05.v 
gen/Consts_c05.vio: gen/Consts_c05.v 
gen/Consts_c05.vos gen/Consts_c05.vok gen/Consts_c05.required_vos: gen/Consts_c05.v 
gen/Consts_c06.vo gen/Consts_c06.glob gen/Consts_c06.v.beautified gen/Consts_c06.required_vo: gen/Consts_c06.v 
gen/Consts_c06.vio: gen/Consts_c06.v 
gen/Consts_c06.vos gen/Consts_c06.vok gen/Consts_c06.required_vos: gen/Consts_c06.v 
gen/Consts_c08.vo gen/Consts_c08.glob gen/Consts_c08.v.beautified gen/Consts_c08.required_vo: gen/Consts_c08.v 
gen/Consts_c08.vio: gen/Consts_c08.v 
gen/Consts_c08.vos gen/Consts_c08.vok gen/Consts_c08.required_vos: gen/Consts_c08.v 
gen/Consts_c09.vo gen/Consts_c09.glob gen/Consts_c09.v.beautified gen/Consts_c09.required_vo: gen/Consts_c09.v 
gen/Consts_c09.vio: gen/Consts_c09.v 
gen/Consts_c09.vos gen/Consts_c09.vok gen/Consts_c09.required_vos: gen/Consts_c09.v 
gen/Consts_c10.vo gen/Consts_c10.glob gen/Consts_c10.v.beautified gen/Consts_c10.required_vo: gen/Consts_c10.v 
gen/Consts_c10.vio: gen/Consts_c10.v 
gen/Consts_c10.vos gen/Consts_c10.vok gen/Consts_c10.required_vos: gen/Consts_c10.v 
gen/Consts_c11.vo gen/Consts_c11.glob gen/Consts_c11.v.beautified gen/Consts_c11.required_vo: gen/Consts_c11.v 
gen/Consts_c11.vio: gen/Consts_c11.v 
gen/Consts_c11.vos gen/Consts_c11.vok gen/Consts_c11.required_vos: gen/Consts_c11.v 
gen/Consts_c13.vo gen/Consts_c13.glob gen/Consts_c13.v.beautified gen/Consts_c13.required_vo: gen/Consts_c13.v 
gen/Consts_c13.vio: gen/Consts_c13.v 
gen/Consts_c13.vos gen/Consts_c13.vok gen/Consts_c13.required_vos: gen/Consts_c13.v 
gen/Consts_c16.vo gen/Consts_c16.glob gen/Consts_c16.v.beautified gen/Consts_c16.required_vo: gen/Consts_c16.v 
gen/Consts_c16.vio: gen/Consts_c16.v 
gen/Consts_c16.vos gen/Consts_c16.vok gen/Consts_c16.required_vos: gen/Consts_c16.v 
gen/Consts_c17.vo gen/Consts_c17.glob gen/Consts_c17.v.beautified gen/Consts_c17.required_vo: gen/Consts_c17.v 
gen/Consts_c17.vio: gen/Consts_c17.v 
gen/Consts_c17.vos gen/Consts_c17.vok gen/Consts_c17.required_vos: gen/Consts_c17.v 
gen/Consts_c18.vo gen/Consts_c18.glob gen/Consts_c18.v.beautified gen/Consts_c18.required_vo: gen/Consts_c18.v 
gen/Consts_c18.vio: gen/Consts_c18.v 
gen/Consts_c18.vos gen/Consts_c18.vok gen/Consts_c18.required_vos: gen/Consts_c18.v 
gen/Consts_c19.vo gen/Consts_c19.glob gen/Consts_c19.v.beautified gen/Consts_c19.required_vo: gen/Consts_c19.v 
gen/Consts_c19.vio: gen/Consts_c19.v 
gen/Consts_c19.vos gen/Consts_c19.vok gen/Consts_c19.required_vos: gen/Consts_c19.v 
gen/Consts_c20.vo gen/Consts_c20.glob gen/Consts_c20.v.beautified gen/Consts_c20.required_vo: gen/Consts_c20.v 
gen/Consts_c20.vio: gen/Consts_c20.v 
gen/Consts_c20.vos gen/Consts_c20.vok gen/Consts_c20.required_vos: gen/Consts_c20.v 
gen/Paths_c04.vo gen/Paths_c04.glob gen/Paths_c04.v.beautified gen/Paths_c04.required_vo: gen/Paths_c04.v c04/Events.vo
gen/Paths_c04.vio: gen/Paths_c04.v c04/Events.vio
gen/Paths_c04.vos gen/Paths_c04.vok gen/Paths_c04.required_vos: gen/Paths_c04.v c04/Events.vos
lib/Wire.vo lib/Wire.glob lib/Wire.v.beautified lib/Wire.required_vo: lib/Wire.v 
lib/Wire.vio: lib/Wire.v 
lib/Wire.vos lib/Wire.vok lib/Wire.required_vos: lib/Wire.v 

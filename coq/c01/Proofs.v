(* C01 — lemmas for the Noise part. *)
From Coq Require Import List NArith ZArith Bool Lia.
From Verif Require Import lib.Wire c08.SymCrypto c01.Model c01.Spec.
Import ListNotations.
Local Open Scope N_scope.

(* ---- term equality ------------------------------------------------------------------- *)
Lemma nlist_eqb_refl : forall l, nlist_eqb l l = true.
Proof. induction l; cbn; rewrite ?N.eqb_refl, ?IHl; reflexivity. Qed.

Lemma nlist_eqb_true : forall a b, nlist_eqb a b = true -> a = b.
Proof.
  induction a as [|x a IH]; destruct b as [|y b]; cbn; intros H; try discriminate; try reflexivity.
  apply andb_true_iff in H. destruct H as [H1 H2]. apply N.eqb_eq in H1. apply IH in H2. congruence.
Qed.

Lemma nt_eqb_refl : forall a, nt_eqb a a = true.
Proof.
  induction a; cbn; rewrite ?N.eqb_refl, ?nlist_eqb_refl, ?IHa, ?IHa1, ?IHa2, ?IHa3; reflexivity.
Qed.

Ltac split_andb H :=
  repeat match type of H with
         | (_ && _)%bool = true => let H2 := fresh "Hb" in apply andb_true_iff in H; destruct H as [H H2]
         end.

Lemma nt_eqb_true : forall a b, nt_eqb a b = true -> a = b.
Proof.
  induction a; destruct b; cbn; intros H; try discriminate; try reflexivity;
    repeat match goal with
           | H : (_ && _)%bool = true |- _ => apply andb_true_iff in H; destruct H
           end;
    repeat match goal with
           | H : (_ =? _) = true |- _ => apply N.eqb_eq in H
           | H : nlist_eqb _ _ = true |- _ => apply nlist_eqb_true in H
           | IH : forall b, nt_eqb ?x b = true -> ?x = b, H : nt_eqb ?x _ = true |- _ => apply IH in H
           end; subst; reflexivity.
Qed.

Lemma nt_eqb_eq : forall a b, nt_eqb a b = true <-> a = b.
Proof. intros a b; split; [apply nt_eqb_true | intros ->; apply nt_eqb_refl]. Qed.

(* ---- the signature rule is an ideal signature scheme (SymCrypto, Part 1) ------------------ *)
Lemma sig_verify_ideal : forall p m s, sig_verify p m s = true <-> sig_origin s = Some (p, m).
Proof.
  intros p m s. unfold sig_verify, sig_origin. split.
  - destruct p; try discriminate. destruct s; try discriminate. intros H.
    apply andb_true_iff in H. destruct H as [H1 H2]. apply N.eqb_eq in H1. apply nt_eqb_true in H2.
    subst. reflexivity.
  - destruct s; try discriminate. intros H. inversion H; subst. rewrite N.eqb_refl, nt_eqb_refl. reflexivity.
Qed.

(* a signature value verifies for exactly one key and one message *)
Definition noise_sig_exact := sig_exact nt nt nt sig_verify sig_origin sig_verify_ideal.
Definition noise_sig_wrong_key := sig_wrong_key nt nt nt sig_verify sig_origin sig_verify_ideal.
Definition noise_sig_wrong_msg := sig_wrong_msg nt nt nt sig_verify sig_origin sig_verify_ideal.
Definition noise_sig_never_issued := sig_never_issued nt nt nt sig_verify sig_origin sig_verify_ideal.

Lemma sig_verify_inv : forall k m s, sig_verify (NPub k) m s = true -> exists r, s = NSig k m r.
Proof.
  intros k m s H. apply sig_verify_ideal in H. destruct s; try discriminate.
  cbn in H. inversion H; subst. eexists; reflexivity.
Qed.

(* ---- handleRemoteHandshakePayload ----------------------------------------------------------- *)
Lemma handle_payload_sound : forall p pl rs id k,
  handle_payload p pl rs = inl (id, k) ->
  k = NPub id /\
  (exists kb r ext, pl = NPayload kb (NSig id (NCat PREFIX rs) r) ext /\ unmarshal_key kb = Some id) /\
  (p_check p = true -> p_expect p = Some id).
Proof.
  intros p pl rs id k H. unfold handle_payload in H.
  destruct pl; try discriminate.
  destruct (unmarshal_key pl1) as [k0|] eqn:Eu; [|discriminate].
  destruct (p_check p && negb match p_expect p with Some x => x =? k0 | None => false end)%bool eqn:Ec;
    [discriminate|].
  destruct (sig_verify (NPub k0) (NCat PREFIX rs) pl2) eqn:Ev; [|discriminate].
  inversion H; subst. split; [reflexivity|]. split.
  - apply sig_verify_inv in Ev. destruct Ev as [r ->]. eauto.
  - intros Hc. rewrite Hc in Ec. cbn in Ec. apply negb_false_iff in Ec.
    destruct (p_expect p); [|discriminate]. apply N.eqb_eq in Ec. subst. reflexivity.
Qed.

(* the remote identity is assigned only after the signature was verified:
   any failure class leaves no identity (the result carries none) *)
Lemma handle_payload_bad_sig : forall p k sg ext rs,
  sig_verify (NPub k) (NCat PREFIX rs) sg = false ->
  exists c, handle_payload p (NPayload (NPub k) sg ext) rs = inr c.
Proof.
  intros p k sg ext rs H. unfold handle_payload. cbn [unmarshal_key].
  destruct (p_check p && _)%bool; [eauto|]. rewrite H. eauto.
Qed.

(* ---- what a completed endpoint has checked -------------------------------------------------- *)
(* initiator: any queue of incoming messages (the adversary's choice) *)
Lemma init_finish_done : forall p st q id k st' o,
  init_finish p st q = (Done id k st', o) ->
  exists re cs cp rest rs r ext st2 kb,
    q = [re; cs; cp] :: rest /\
    read_m2 p st [re; cs; cp] = Some (st2, rs, NPayload kb (NSig id (NCat PREFIX rs) r) ext) /\
    unmarshal_key kb = Some id /\
    k = NPub id /\ hs_rs st' = Some rs /\ hs_re st' = re /\
    (p_check p = true -> p_expect p = Some id) /\
    ck (hs_sym st') =
      NKdf (NKdf (NKdf (ck (hs_sym st)) (dh (p_e p) re) 1) (dh (p_e p) rs) 1) (dh (p_s p) re) 1.
Proof.
  intros p st q id k st' o H. unfold init_finish in H.
  destruct (faulty p (FRead 0)); [discriminate|].
  destruct q as [|y rest]; [discriminate|].
  destruct (read_m2 p st y) as [[[st2 rs] pl]|] eqn:Er; [|discriminate].
  destruct (handle_payload p pl rs) as [[id' k']|c] eqn:Eh; [|discriminate].
  destruct (faulty p FReceived || faulty p FSend || faulty p (FWrite 1))%bool; [discriminate|].
  destruct (write_m3 p st2) as [st3 m3] eqn:Ew. inversion H; subst. clear H.
  apply handle_payload_sound in Eh. destruct Eh as [-> [[kb [r [ext [-> Hkb]]]] Hc]].
  unfold read_m2 in Er.
  destruct y as [|re [|cs [|cp [|]]]]; try discriminate.
  destruct (decrypt_and_hash _ cs) as [[s3 rs']|] eqn:E1; [|discriminate].
  destruct (decrypt_and_hash _ cp) as [[s5 pl']|] eqn:E2; [|discriminate].
  inversion Er; subst. clear Er.
  exists re, cs, cp, rest, rs, r, ext.
  eexists. exists kb. split; [reflexivity|]. split; [|split; [exact Hkb|]].
  - unfold read_m2. rewrite E1, E2. reflexivity.
  - unfold write_m3 in Ew. cbn [hs_sym hs_re hs_rs] in Ew.
    (* the chaining key is untouched by encrypt/decrypt-and-hash *)
    assert (Hck_d : forall s c s' x, decrypt_and_hash s c = Some (s', x) -> ck s' = ck s).
    { intros s c s' x Hd. unfold decrypt_and_hash in Hd. destruct (key s).
      - destruct c; try discriminate. destruct (_ && _ && _)%bool; [|discriminate]. inversion Hd; reflexivity.
      - inversion Hd; reflexivity. }
    assert (Hck_e : forall s x, ck (fst (encrypt_and_hash s x)) = ck s).
    { intros s x. unfold encrypt_and_hash. destruct (key s); reflexivity. }
    destruct (encrypt_and_hash s5 (NDhPub (p_s p))) as [t1 c1] eqn:Ee1.
    destruct (encrypt_and_hash (mix_key t1 (dh (p_s p) re)) (p_payload p)) as [t3 c3] eqn:Ee2.
    inversion Ew; subst. cbn [hs_rs hs_re hs_sym].
    repeat split; try reflexivity; try assumption.
    pose proof (Hck_e (mix_key t1 (dh (p_s p) re)) (p_payload p)) as K3. rewrite Ee2 in K3. cbn [fst] in K3.
    pose proof (Hck_e s5 (NDhPub (p_s p))) as K1. rewrite Ee1 in K1. cbn [fst] in K1.
    apply Hck_d in E2. apply Hck_d in E1.
    rewrite K3. cbn [mix_key ck]. rewrite K1, E2. cbn [mix_key ck]. rewrite E1. cbn [mix_key mix_hash ck].
    reflexivity.
Qed.

Lemma resp_finish_done : forall p st q id k st',
  resp_finish p st q = Done id k st' ->
  exists cs cp rest rs r ext kb,
    q = [cs; cp] :: rest /\
    read_m3 p st [cs; cp] = Some (st', rs, NPayload kb (NSig id (NCat PREFIX rs) r) ext) /\
    unmarshal_key kb = Some id /\
    k = NPub id /\ hs_rs st' = Some rs /\
    (p_check p = true -> p_expect p = Some id) /\
    ck (hs_sym st') = NKdf (ck (hs_sym st)) (dh (p_e p) rs) 1.
Proof.
  intros p st q id k st' H. unfold resp_finish in H.
  destruct (faulty p (FRead 1)); [discriminate|].
  destruct q as [|z rest]; [discriminate|].
  destruct (read_m3 p st z) as [[[st2 rs] pl]|] eqn:Er; [|discriminate].
  destruct (handle_payload p pl rs) as [[id' k']|c] eqn:Eh; [|discriminate].
  destruct (faulty p FReceived); [discriminate|].
  inversion H; subst. clear H.
  apply handle_payload_sound in Eh. destruct Eh as [-> [[kb [r [ext [-> Hkb]]]] Hc]].
  unfold read_m3 in Er.
  destruct z as [|cs [|cp [|]]]; try discriminate.
  destruct (decrypt_and_hash (hs_sym st) cs) as [[s1 rs']|] eqn:E1; [|discriminate].
  destruct (decrypt_and_hash _ cp) as [[s3 pl']|] eqn:E2; [|discriminate].
  inversion Er; subst. clear Er.
  exists cs, cp, rest, rs, r, ext, kb. split; [reflexivity|]. split; [|split; [exact Hkb|]].
  - unfold read_m3. rewrite E1, E2. reflexivity.
  - cbn [hs_rs hs_sym]. repeat split; try reflexivity; try assumption.
    assert (Hck_d : forall s c s' x, decrypt_and_hash s c = Some (s', x) -> ck s' = ck s).
    { intros s c s' x Hd. unfold decrypt_and_hash in Hd. destruct (key s).
      - destruct c; try discriminate. destruct (_ && _ && _)%bool; [|discriminate]. inversion Hd; reflexivity.
      - inversion Hd; reflexivity. }
    apply Hck_d in E2. apply Hck_d in E1. rewrite E2. cbn [mix_key ck]. rewrite E1. reflexivity.
Qed.

(* ---- the two-party run ---------------------------------------------------------------------- *)
Lemma run_pair_done : forall pi pr net rI rR, run_pair pi pr net = (rI, rR) ->
  (forall id k st, rI = Done id k st ->
     faulty pi (FWrite 0) = false /\ exists stI q o, init_finish pi stI q = (Done id k st, o)) /\
  (forall id k st, rR = Done id k st ->
     faulty pr (FRead 0) = false /\ faulty pr FSend = false /\ faulty pr (FWrite 0) = false /\
     exists stR q, resp_finish pr stR q = Done id k st).
Proof.
  intros pi pr net rI rR H. unfold run_pair in H.
  destruct (write_m1 pi) as [sI1 m1].
  destruct (faulty pi (FWrite 0)) eqn:F1.
  { inversion H; subst. split; intros; [discriminate|]. destruct (faulty pr (FRead 0)); discriminate. }
  destruct (faulty pr (FRead 0)) eqn:F2.
  { inversion H; subst. split; intros id k st Hd; [|discriminate].
    split; [reflexivity|]. destruct (init_finish pi sI1 []) as [r o] eqn:Ei. cbn [fst] in Hd. subst. eauto. }
  destruct (net M1 m1) as [|x qR].
  { inversion H; subst. split; intros; discriminate. }
  destruct (read_m1 pr x) as [sR1|].
  2:{ inversion H; subst. split; intros; discriminate. }
  destruct (faulty pr FSend) eqn:F3; cbn [orb] in H.
  { inversion H; subst. split; intros id k st Hd; [|discriminate].
    split; [reflexivity|]. destruct (init_finish pi sI1 []) as [r o] eqn:Ei. cbn [fst] in Hd. subst. eauto. }
  destruct (faulty pr (FWrite 0)) eqn:F4.
  { inversion H; subst. split; intros id k st Hd; [|discriminate].
    split; [reflexivity|]. destruct (init_finish pi sI1 []) as [r o] eqn:Ei. cbn [fst] in Hd. subst. eauto. }
  destruct (write_m2 pr sR1) as [sR2 m2].
  destruct (init_finish pi sI1 (net M2 m2)) as [r o] eqn:Ei.
  destruct o as [m3|]; inversion H; subst; clear H; split; intros id k st Hd.
  - subst. split; [reflexivity|]. eauto.
  - repeat split; eauto.
  - subst. split; [reflexivity|]. eauto.
  - repeat split; eauto.
Qed.

(* a completed endpoint passed every stage on its path without a fault *)
Lemma init_finish_nofault : forall p st q id k st' o,
  init_finish p st q = (Done id k st', o) ->
  faulty p (FRead 0) = false /\ faulty p FReceived = false /\ faulty p FSend = false /\ faulty p (FWrite 1) = false.
Proof.
  intros p st q id k st' o H. unfold init_finish in H.
  destruct (faulty p (FRead 0)); [discriminate|].
  destruct q as [|y rest]; [discriminate|].
  destruct (read_m2 p st y) as [[[st2 rs] pl]|]; [|discriminate].
  destruct (handle_payload p pl rs) as [[id' k']|c]; [|discriminate].
  destruct (faulty p FReceived); [discriminate|]. destruct (faulty p FSend); [discriminate|].
  destruct (faulty p (FWrite 1)); [discriminate|]. repeat split; reflexivity.
Qed.

Lemma resp_finish_nofault : forall p st q id k st',
  resp_finish p st q = Done id k st' -> faulty p (FRead 1) = false /\ faulty p FReceived = false.
Proof.
  intros p st q id k st' H. unfold resp_finish in H.
  destruct (faulty p (FRead 1)); [discriminate|].
  destruct q as [|z rest]; [discriminate|].
  destruct (read_m3 p st z) as [[[st2 rs] pl]|]; [|discriminate].
  destruct (handle_payload p pl rs) as [[id' k']|c]; [|discriminate].
  destruct (faulty p FReceived); [discriminate|]. split; reflexivity.
Qed.

Lemma names_peer_check : forall initiator sd x,
  names_peer sd = Some x -> check_peer_id initiator sd = true /\ sd_expect sd = Some x.
Proof.
  intros initiator sd x H. unfold names_peer in H. unfold check_peer_id.
  destruct (sd_session sd), (sd_disable sd); cbn in H; try discriminate; rewrite H;
    destruct initiator; split; reflexivity.
Qed.

Lemma run_session_expected : forall sc n n' rI rR, run_session sc n n' = (rI, rR) ->
  (forall id k st x, rI = Done id k st -> names_peer (sc_i sc) = Some x -> id = idn x) /\
  (forall id k st x, rR = Done id k st -> names_peer (sc_r sc) = Some x -> id = idn x).
Proof.
  intros sc n n' rI rR H. unfold run_session in H. apply run_pair_done in H. destruct H as [HI HR].
  split; intros id k st x Hd Hn.
  - destruct (HI _ _ _ Hd) as [_ [stI [q [o Hf]]]]. apply init_finish_done in Hf.
    destruct Hf as [re [cs [cp [rest [rs [r [ext [st2 [kb [_ [_ [_ [_ [_ [_ [Hc _]]]]]]]]]]]]]]]].
    apply (names_peer_check true) in Hn. destruct Hn as [Hk He].
    cbn [party_of p_check p_expect] in Hc. rewrite He in Hc. specialize (Hc Hk). inversion Hc. reflexivity.
  - destruct (HR _ _ _ Hd) as [_ [_ [_ [stR [q Hf]]]]]. apply resp_finish_done in Hf.
    destruct Hf as [cs [cp [rest [rs [r [ext [kb [_ [_ [_ [_ [_ [Hc _]]]]]]]]]]]]].
    apply (names_peer_check false) in Hn. destruct Hn as [Hk He].
    cbn [party_of p_check p_expect] in Hc. rewrite He in Hc. specialize (Hc Hk). inversion Hc. reflexivity.
Qed.

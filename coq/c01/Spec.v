(* C01 — the property as decidable predicates over what the implementation was
   observed to do (monitor), and the decoding of correspondence lines.
   No proofs in this file.

   Wire format, Noise case (tag 1):
     1 ktI ktR
       idI sessI disI expI proI     identity key held (1 A, 2 B, 3 E), SessionTransport?, DisablePeerIDCheck?,
       idR sessR disR expR proR     expected peer (0 = "", 1..3), prologue (0 nil, 1, 2)
       ek em ea eb epos             edit kind 0 none 1 junk(a = component) 2 truncate(a = whole components kept,
                                    b = a partial one follows) 3 extend 4 drop 5 grow 6 duplicate 7 splice;
                                    em = message 1..3; epos = byte position (informational)
       fk finit fclaim fsigk fsigm  forging endpoint: present? (2 = present and, being the initiator, it ALSO puts a payload with its own
                                    key and a good signature into message 1, where honest endpoints send none), is initiator?,
                                    claimed key 1..3 / 4 junk / 5 empty / 6 = the WHOLE payload is zero-length (plain Noise XX, no libp2p
                                    payload at all) / 7 = the payload is not a protobuf message / 10*v + k: key k in the
                                    non-canonical serialization v (1 unknown field appended, 2 fields reordered, 3 non-minimal varint),
                                    signer 1..3 / 4 junk / 5 empty, signed message 0 good 1 other static 2 no prefix
       pk pinit pstage pidx         a panic inside one endpoint's runHandshake: present?, in the initiator?, stage 0 = the
                                    pidx-th Write on the insecure connection, 1 = the pidx-th Read, 2 = the early-data
                                    handler's Send, 3 = its Received
       nsess                        1, or 2 for splice
       per session:  clsI ridI rkidI  clsR ridR rkidR
                                    cls 0 = completed, 1..5 error class; rid = RemotePeer() as a key number
                                    (0 none/unknown), rkid = peer ID derived from RemotePublicKey() likewise
   ktI/ktR = own key type (0 Ed25519 1 ECDSA 2 Secp256k1 3 RSA) + 10 * x, where x says of which key type the
   identity is that this endpoint NAMES as expected peer: 0 = the remote endpoint's key type, 1..4 = key type
   x-1 (the named identity is then E, held by nobody who answers), 5 = a string that is not a well-formed peer ID.
   These two numbers are not read by the model: the symbolic model is uniform in the key type (peer IDs
   are key numbers, whether the ID embeds the key or is its hash); the dimension is covered by the correspondence. *)
From Coq Require Import List NArith ZArith Bool.
From Verif Require Import lib.Wire c01.Model c01.ModelTLS.
Import ListNotations.
Local Open Scope Z_scope.

(* ---- what was observed of one endpoint ------------------------------------------ *)
Record obs := mkObs { o_cls : Z; o_rid : Z; o_rkid : Z }.
Definition completed (o : obs) : bool := Z.eqb (o_cls o) 0.

Definition idz (k : idk) : Z := Z.of_N (idn k).

(* ---- the property, clause by clause ------------------------------------------------ *)
(* who receives message i *)
Definition to_initiator (i : msgix) : bool := match i with M2 => true | _ => false end.

(* did the endpoint (initiator?) receive, inside the handshake, data that the
   man in the middle altered, truncated, extended, withheld, or replayed from
   another session?  A duplicate of message 1 is read by the responder as
   message 3; a duplicate of message 2 or 3 arrives after the receiver's last
   handshake read and belongs to the transport phase (C02). *)
Definition received_edited (e : edit) (initiator : bool) : bool :=
  match e with
  | ENone => false
  | EJunk m _ | ETrunc m _ _ | EExtend m | EDrop m | EGrow m | ESplice m => Bool.eqb (to_initiator m) initiator
  | EDup m => match m with M1 => negb initiator | _ => false end
  end.

Definition idk_eqb (a b : idk) : bool :=
  match a, b with KA, KA | KB, KB | KE, KE => true | _, _ => false end.

(* the forging endpoint behaves exactly like an honest one *)
Definition forge_is_honest (own : idk) (f : forge) : bool :=
  match f_claim f, f_sig f with
  | ClKey k, FsBy k' SmGood => idk_eqb k own && idk_eqb k' own
  | ClAlias k _, FsBy k' SmGood => idk_eqb k own && idk_eqb k' own
      (* its own key in a valid, non-canonical serialization: the same key, honestly proved *)
  | _, _ => false
  end.

(* did the endpoint receive a payload signed/certified with a substituted key
   (or a signature that was not made for this handshake)? *)
Definition received_forged (sc : scenario) (initiator : bool) : bool :=
  match sc_forge sc with
  | None => false
  | Some f =>
      if Bool.eqb (f_init f) initiator then false     (* the forger itself *)
      else negb (forge_is_honest (sd_id (if f_init f then sc_i sc else sc_r sc)) f)
  end.

(* the local side named a peer and did not switch the check off *)
Definition names_peer (sd : side) : option idk :=
  if sd_session sd && sd_disable sd then None else sd_expect sd.

(* judgement of one endpoint: [] or a diagnostic *)
Definition orelse (a b : list Z) : list Z := match a with [] => b | _ => a end.

Definition judge_side (sc : scenario) (initiator : bool) (o : obs) : list Z :=
  let me := if initiator then sc_i sc else sc_r sc in
  let other := if initiator then sc_r sc else sc_i sc in
  if negb (completed o) then []
  else
    (* the reported peer ID is the ID of the reported public key ... *)
    orelse (if Z.eqb (o_rid o) (o_rkid o) then [] else [ERR_PROPERTY; 1; o_rid o; o_rkid o])
    (* ... whose private key the remote used in this handshake *)
   (orelse (if Z.eqb (o_rid o) (idz (sd_id other)) then [] else [ERR_PROPERTY; 2; o_rid o; idz (sd_id other)])
    (* a named expected peer is enforced *)
   (orelse (match names_peer me with
            | Some k => if Z.eqb (o_rid o) (idz k) then [] else [ERR_PROPERTY; 3; o_rid o; idz k]
            | None => []
            end)
    (* nobody completes on edited / replayed data or a substituted key *)
   (orelse (if received_edited (sc_edit sc) initiator then [ERR_PROPERTY; 4] else [])
           (if received_forged sc initiator then [ERR_PROPERTY; 5] else [])))).

Definition tagd (s side : Z) (d : list Z) : list Z :=
  match d with [] => [] | c :: r => c :: s :: side :: r end.

Definition judge_session (sc : scenario) (s : Z) (oi or : obs) : list Z :=
  match judge_side sc true oi with
  | [] => tagd s 1 (judge_side sc false or)
  | d => tagd s 0 d
  end.

Fixpoint judge_sessions (sc : scenario) (s : Z) (l : list (obs * obs)) : list Z :=
  match l with
  | [] => []
  | (oi, or) :: r => match judge_session sc s oi or with [] => judge_sessions sc (s + 1) r | d => d end
  end.

(* ---- model observations -------------------------------------------------------------- *)
Definition obs_of_res (r : res) : obs :=
  match r with
  | Done id k _ => mkObs 0 (Z.of_N id) (match id_of_key k with Some i => Z.of_N i | None => 0%Z end)
  | Fail c => mkObs (Z.of_N c) 0 0
  end.

Definition model_obs (sc : scenario) (nsess : nat) : list (obs * obs) :=
  let '((i1, r1), (i2, r2)) := run_scenario sc in
  match nsess with
  | 2%nat => [(obs_of_res i1, obs_of_res r1); (obs_of_res i2, obs_of_res r2)]
  | _ => [(obs_of_res i1, obs_of_res r1)]
  end.

(* THE monitor applied to the model's own trace *)
Definition monitor_scenario (sc : scenario) : list Z :=
  judge_sessions sc 0 (model_obs sc (match sc_edit sc with ESplice _ => 2%nat | _ => 1%nat end)).

(* ---- the scenario language: well-formed scenarios -------------------------------------- *)
(* Honest endpoints: the initiator holds A, the responder holds B; a plain
   Transport has no prologue and cannot disable the check.  A forging endpoint
   holds E, runs with the check disabled (it validates nothing) and can sign
   with E only: a signature by another key is one it recorded elsewhere, so it
   is over another static key.  Component numbers are within the message. *)
Definition prol_is0 (p : prol) : bool := match p with P0 => true | _ => false end.
Definition wf_side (k : idk) (s : side) : bool :=
  idk_eqb (sd_id s) k && (sd_session s || (negb (sd_disable s) && prol_is0 (sd_prologue s))).
Definition forger_side (s : side) : bool :=
  idk_eqb (sd_id s) KE && sd_session s && sd_disable s && (match sd_expect s with None => true | _ => false end).
Definition ncomp (m : msgix) : nat := match m with M1 => 1%nat | M2 => 3%nat | M3 => 2%nat end.
Definition wf_edit (e : edit) : bool :=
  match e with
  | EJunk m c => Nat.ltb c (ncomp m)
  | ETrunc m keep _ => Nat.ltb keep (ncomp m)
  | _ => true
  end.
Definition wf_forge (f : forge) : bool :=
  (match f_sig f with
   | FsBy k m => idk_eqb k KE || (match m with SmOtherStatic => true | _ => false end)
   | _ => true
   end) && (negb (f_early f) || f_init f).      (* only the initiator writes message 1 *)
(* a fault comes alone (no edit, no forging endpoint); an early-data handler
   exists only on a SessionTransport *)
Definition wf_fault (sc : scenario) (f : fault) : bool :=
  (match sc_edit sc with ENone => true | _ => false end) &&
  (match ft_stage f with
   | FWrite k | FRead k => Nat.ltb k 2
   | FSend | FReceived => sd_session (if ft_init f then sc_i sc else sc_r sc)
   end).
Definition wf_scenario (sc : scenario) : bool :=
  match sc_forge sc with
  | None => wf_side KA (sc_i sc) && wf_side KB (sc_r sc) && wf_edit (sc_edit sc) &&
            (match sc_fault sc with None => true | Some f => wf_fault sc f end)
  | Some f =>
      (match sc_edit sc with ENone => true | _ => false end) && wf_forge f &&
      (match sc_fault sc with None => true | Some _ => false end) &&
      (if f_init f then forger_side (sc_i sc) && wf_side KB (sc_r sc)
       else wf_side KA (sc_i sc) && forger_side (sc_r sc))
  end.

(* ---- wire decoding ---------------------------------------------------------------------- *)

Definition idk_of_z (z : Z) : option idk :=
  if z =? 1 then Some KA else if z =? 2 then Some KB else if z =? 3 then Some KE else None.
Definition prol_of_z (z : Z) : option prol :=
  if z =? 0 then Some P0 else if z =? 1 then Some P1 else if z =? 2 then Some P2 else None.
Definition msgix_of_z (z : Z) : option msgix :=
  if z =? 1 then Some M1 else if z =? 2 then Some M2 else if z =? 3 then Some M3 else None.

Definition side_of (id sess dis exp pro : Z) : option side :=
  match idk_of_z id, prol_of_z pro with
  | Some k, Some p =>
      if exp =? 0 then Some (mkSide k (zbool sess) (zbool dis) None p)
      else match idk_of_z exp with
           | Some x => Some (mkSide k (zbool sess) (zbool dis) (Some x) p)
           | None => None
           end
  | _, _ => None
  end.

Definition edit_of (ek em ea eb : Z) : option edit :=
  if ek =? 0 then Some ENone
  else match msgix_of_z em with
       | None => None
       | Some m =>
           if ek =? 1 then Some (EJunk m (Z.to_nat ea))
           else if ek =? 2 then Some (ETrunc m (Z.to_nat ea) (zbool eb))
           else if ek =? 3 then Some (EExtend m)
           else if ek =? 4 then Some (EDrop m)
           else if ek =? 5 then Some (EGrow m)
           else if ek =? 6 then Some (EDup m)
           else if ek =? 7 then Some (ESplice m)
           else None
       end.

Definition alias_of_z (z : Z) : option alias :=
  if z =? 1 then Some AUnknownField else if z =? 2 then Some AReordered
  else if z =? 3 then Some ANonMinimal else None.
Definition claim_of (z : Z) : option claim :=
  if z =? 4 then Some ClJunk else if z =? 5 then Some ClEmpty
  else if z =? 6 then Some ClNoPayload else if z =? 7 then Some ClNotProto
  else if 10 <=? z
       then match idk_of_z (z mod 10), alias_of_z (z / 10) with
            | Some k, Some a => Some (ClAlias k a)
            | _, _ => None
            end
       else match idk_of_z z with Some k => Some (ClKey k) | None => None end.
Definition smsg_of (z : Z) : option smsg :=
  if z =? 0 then Some SmGood else if z =? 1 then Some SmOtherStatic else if z =? 2 then Some SmNoPrefix else None.
Definition fsig_of (k m : Z) : option fsig :=
  if k =? 4 then Some FsJunk else if k =? 5 then Some FsEmpty
  else match idk_of_z k, smsg_of m with Some x, Some y => Some (FsBy x y) | _, _ => None end.

Definition forge_of (fk finit fclaim fsigk fsigm : Z) : option (option forge) :=
  if fk =? 0 then Some None
  else match claim_of fclaim, fsig_of fsigk fsigm with
       | Some c, Some s => Some (Some (mkForge (zbool finit) c s (fk =? 2)))
       | _, _ => None
       end.

Definition fault_of_z (pk pinit pstage pidx : Z) : option (option fault) :=
  if pk =? 0 then Some None
  else if pstage =? 0 then Some (Some (mkFault (zbool pinit) (FWrite (Z.to_nat pidx))))
  else if pstage =? 1 then Some (Some (mkFault (zbool pinit) (FRead (Z.to_nat pidx))))
  else if pstage =? 2 then Some (Some (mkFault (zbool pinit) FSend))
  else if pstage =? 3 then Some (Some (mkFault (zbool pinit) FReceived))
  else None.

Fixpoint obs_pairs (n : nat) (l : list Z) : option (list (obs * obs)) :=
  match n with
  | O => match l with [] => Some [] | _ => None end
  | S n' =>
      match l with
      | c1 :: r1 :: k1 :: c2 :: r2 :: k2 :: rest =>
          match obs_pairs n' rest with
          | Some t => Some ((mkObs c1 r1 k1, mkObs c2 r2 k2) :: t)
          | None => None
          end
      | _ => None
      end
  end.

Definition decode_noise (l : list Z) : option (scenario * list (obs * obs)) :=
  match l with
  | _ :: _ :: idI :: seI :: diI :: exI :: prI :: idR :: seR :: diR :: exR :: prR ::
    ek :: em :: ea :: eb :: _ :: fk :: fi :: fc :: fsk :: fsm :: pk :: pin :: pst :: pix :: ns :: rest =>
      match side_of idI seI diI exI prI, side_of idR seR diR exR prR,
            edit_of ek em ea eb, forge_of fk fi fc fsk fsm, fault_of_z pk pin pst pix with
      | Some si, Some sr, Some e, Some f, Some ft =>
          if (ns =? 1) || (ns =? 2)
          then match obs_pairs (Z.to_nat ns) rest with
               | Some o => Some (mkSc si sr e f ft, o)
               | None => None
               end
          else None
      | _, _, _, _, _ => None
      end
  | _ => None
  end.

(* conformance: the model reproduces every endpoint's outcome (completed /
   error class) and, for completed endpoints, the reported peer *)
(* [b] is the implementation's; class 9 = endpoint not observed (the malicious one) *)
Definition obs_agree (a b : obs) : bool :=
  (o_cls b =? 9) ||
  (o_cls a =? o_cls b) && (if o_cls a =? 0 then (o_rid a =? o_rid b) && (o_rkid a =? o_rkid b) else true).

Fixpoint conform_pairs (s : Z) (m o : list (obs * obs)) : list Z :=
  match m, o with
  | [], [] => []
  | (mi, mr) :: m', (oi, or) :: o' =>
      if negb (obs_agree mi oi) then [ERR_MISMATCH; s; 0; o_cls mi; o_rid mi; o_cls oi; o_rid oi]
      else if negb (obs_agree mr or) then [ERR_MISMATCH; s; 1; o_cls mr; o_rid mr; o_cls or; o_rid or]
      else conform_pairs (s + 1) m' o'
  | _, _ => [ERR_MALFORMED; 1]
  end.

Definition conform_noise (l : list Z) : list Z :=
  match decode_noise l with
  | None => [ERR_MALFORMED; 0]
  | Some (sc, o) =>
      if wf_scenario sc then conform_pairs 0 (model_obs sc (length o)) o
      else [ERR_MALFORMED; 2]      (* outside the scenario language of the theorems *)
  end.

Definition monitor_noise (l : list Z) : list Z :=
  match decode_noise l with
  | None => [ERR_MALFORMED; 0]
  | Some (sc, o) => judge_sessions sc 0 o
  end.

(* ================================ TLS ======================================================
   Certificate chains on the wire:
     CHAIN = n cert_1 .. cert_n
     cert  = key signer intact timeok nexts ext_1 .. ext_nexts
     ext   = kind crit vk pub ssigner sprefix sover
             kind 1 = the libp2p extension, k >= 2 = some other extension with OID number k
             vk 1 = ASN.1 signedKey, 0 = bytes that are not ASN.1
             pub 1..3 = marshalled identity key A/B/E, 4 junk, 5 empty
             ssigner 1..3 = signature by that identity key over (sprefix = 1: "libp2p-tls-handshake:" ++)
                            the PKIX bytes of certificate key [sover]; 4 junk, 5 empty
   tag 2 (the VerifyPeerCertificate callback of ConfigForPeer(exp), and PubKeyFromCertChain directly):
     2 kt exp CHAIN  cls keyid  dcls dkeyid        cls 0 = accepted, 1..8 error class (ModelTLS)
   tag 3 (a real handshake of two tls.Transports whose certificates were replaced):
     3 ktC ktS  idC expC holdsC CHAIN_C  idS expS holdsS CHAIN_S  ek dir rec pos
       clsC ridC rkidC postC  clsS ridS rkidS postS
     ek as for Noise (8 = duplicate of the last handshake record of a direction), dir 0 = client->server,
     rec = index among that direction's handshake records; cls 0 completed / 1 failed;
     post 0 not attempted, 1 = the peer's byte arrived over the secured connection, 2 = error
   tag 4 (swarm): 4 local p kind remote  ok rremote
     kind 0 = dialAddr, 1 = DialPeer, 2 = dialPeer over a scripted dial sync; the transport hands back a connection whose RemotePeer() is
     [remote] (0 = it fails); ok 1 = a connection was returned to the caller, rremote its RemotePeer() *)

Definition pubterm (z : Z) : nt :=
  if (1 <=? z) && (z <=? 3) then NPub (Z.to_N z) else if z =? 4 then NJunk 920 else NEmpty.
Definition sigterm (signer prefixed over : Z) : nt :=
  if (1 <=? signer) && (signer <=? 3)
  then NSig (Z.to_N signer) (if zbool prefixed then NCat TLSPREFIX (certpub (Z.to_N over)) else certpub (Z.to_N over)) 1
  else if signer =? 4 then NJunk 921 else NEmpty.

Definition ext_of (kind crit vk pub ssigner sprefix sover : Z) : ext :=
  if kind =? 1
  then XLibp2p (zbool crit) (if zbool vk then XSigned (pubterm pub) (sigterm ssigner sprefix sover) else XJunk)
  else XOther (Z.to_N kind) (zbool crit).

Fixpoint decode_exts (n : nat) (l : list Z) : option (list ext * list Z) :=
  match n with
  | O => Some ([], l)
  | S n' =>
      match l with
      | k :: c :: vk :: pb :: ss :: sp :: so :: r =>
          match decode_exts n' r with
          | Some (es, r') => Some (ext_of k c vk pb ss sp so :: es, r')
          | None => None
          end
      | _ => None
      end
  end.

Fixpoint decode_certs (n : nat) (l : list Z) : option (list cert * list Z) :=
  match n with
  | O => Some ([], l)
  | S n' =>
      match l with
      | key :: signer :: intact :: timeok :: ne :: r =>
          match decode_exts (Z.to_nat ne) r with
          | Some (es, r1) =>
              match decode_certs n' r1 with
              | Some (cs, r2) =>
                  Some (mkCert (Z.to_N key) (Z.to_N signer) (zbool intact) (zbool timeok) es :: cs, r2)
              | None => None
              end
          | None => None
          end
      | _ => None
      end
  end.

Definition decode_chain (l : list Z) : option (list cert * list Z) :=
  match l with
  | n :: r => if (0 <=? n) && (n <=? 8) then decode_certs (Z.to_nat n) r else None
  | [] => None
  end.

Definition expect_of (z : Z) : option N := if z =? 0 then None else Some (Z.to_N z).

(* "the chain certifies identity key k": one certificate whose first libp2p
   extension holds k's public key and a signature BY k over prefix ++ THIS
   certificate's key ... *)
Definition certifies (chain : list cert) (k : N) : bool :=
  match chain with
  | [c] =>
      match find_libp2p (c_exts c) with
      | Some (XSigned pub sg) =>
          nt_eqb pub (NPub k) &&
          match sg with
          | NSig k' m _ => (k' =? k)%N && nt_eqb m (NCat TLSPREFIX (certpub (c_key c)))
          | _ => false
          end
      | _ => false
      end
  | _ => false
  end.

(* ... and which is signed by its own key over the bytes as they are (not
   signed with a substituted key, not altered): 0 = fine, 1 = signed by another
   key, 2 = altered after signing *)
Definition self_signature_defect (chain : list cert) : Z :=
  match chain with
  | [c] => if negb (c_signer c =? c_key c)%N then 1 else if negb (c_intact c) then 2 else 0
  | _ => 0
  end.

(* judgement of an accepted chain: clause 6 = not certified by the reported key,
   clause 8 = certified, but the certificate itself is not validly self-signed *)
Definition judge_chain (who : Z) (chain : list cert) (kid : Z) : list Z :=
  if negb (certifies chain (Z.to_N kid)) then [ERR_PROPERTY; who; 6; kid]
  else if negb (self_signature_defect chain =? 0) then [ERR_PROPERTY; who; 8; self_signature_defect chain]
  else [].

Definition res_z (r : nt + N) : Z * Z :=
  match r with
  | inl pub => (0, match id_of_key pub with Some i => Z.of_N i | None => 0 end)
  | inr e => (Z.of_N e, 0)
  end.

Definition conform_verify (l : list Z) : list Z :=
  match l with
  | _ :: exp :: r =>
      match decode_chain r with
      | Some (chain, [cls; kid; dcls; dkid]) =>
          let '(mc, mk) := res_z (verify_peer (expect_of exp) chain) in
          let '(dc, dk) := if forallb parse_ok chain then res_z (pubkey_from_chain chain) else (8, 0) in
          if negb ((mc =? cls) && (mk =? kid)) then [ERR_MISMATCH; 0; mc; mk; cls; kid]
          else if negb ((dc =? dcls) && (dk =? dkid)) then [ERR_MISMATCH; 1; dc; dk; dcls; dkid]
          else []
      | _ => [ERR_MALFORMED; 0]
      end
  | _ => [ERR_MALFORMED; 0]
  end.

(* tls_key_is_certified, judged on the implementation's own answers *)
Definition monitor_verify (l : list Z) : list Z :=
  match l with
  | _ :: exp :: r =>
      match decode_chain r with
      | Some (chain, [cls; kid; dcls; dkid]) =>
          orelse (if cls =? 0 then judge_chain 0 chain kid else [])
         (orelse (if dcls =? 0 then judge_chain 1 chain dkid else [])
                 (if (cls =? 0) && negb (exp =? 0) && negb (kid =? exp) then [ERR_PROPERTY; 0; 3; kid; exp] else []))
      | _ => [ERR_MALFORMED; 0]
      end
  | _ => [ERR_MALFORMED; 0]
  end.

(* ---- tag 3: handshakes ------------------------------------------------------------------------ *)
Record tobs := mkTobs { to_cls : Z; to_rid : Z; to_rkid : Z; to_post : Z }.

Record tcase := mkTcase {
  tc_idC : Z; tc_c : tside; tc_idS : Z; tc_s : tside;
  tc_ek : Z; tc_dir : Z; tc_rec : Z;
  tc_oc : tobs; tc_os : tobs
}.

Definition decode_tls (l : list Z) : option tcase :=
  match l with
  | _ :: _ :: idC :: expC :: holdsC :: r =>
      match decode_chain r with
      | Some (chC, idS :: expS :: holdsS :: r2) =>
          match decode_chain r2 with
          | Some (chS, [ek; dir; rc; _; c1; c2; c3; c4; s1; s2; s3; s4]) =>
              Some (mkTcase idC (mkTside (expect_of expC) chC (zbool holdsC))
                            idS (mkTside (expect_of expS) chS (zbool holdsS))
                            ek dir rc (mkTobs c1 c2 c3 c4) (mkTobs s1 s2 s3 s4))
          | _ => None
          end
      | _ => None
      end
  | _ => None
  end.

Definition tedit_of (ek dir rc : Z) : tedit :=
  if (ek =? 0) || (ek =? 8) then TNone
  else if dir =? 0
       then (if (rc =? 0) && negb (ek =? 6) then TClientHello else TClientFlight)
            (* a duplicated ClientHello: the client sees an undisturbed server flight; the server
               finds a second ClientHello where the client's flight should be *)
       else TServerFlight.

Definition tobs_of (r other : tres) (with_post : bool) : tobs :=
  match r with
  | TDone id k => mkTobs 0 (Z.of_N id) (match id_of_key k with Some i => Z.of_N i | None => 0 end)
                         (if with_post then (if tfailed other then 2 else 1) else 0)
  | TFail _ => mkTobs 1 0 0 0
  end.

Definition tobs_agree (m o : tobs) (with_post : bool) : bool :=
  (to_cls m =? to_cls o) &&
  (if to_cls m =? 0 then (to_rid m =? to_rid o) && (to_rkid m =? to_rkid o) &&
                         (negb with_post || (to_post m =? to_post o)) else true).

Definition conform_tls (l : list Z) : list Z :=
  match decode_tls l with
  | None => [ERR_MALFORMED; 0]
  | Some tc =>
      let '(rc, rs) := tls_run (tc_c tc) (tc_s tc) (tedit_of (tc_ek tc) (tc_dir tc) (tc_rec tc)) in
      let wp := tc_ek tc =? 0 in
      let mc := tobs_of rc rs wp in let ms := tobs_of rs rc wp in
      if negb (tobs_agree mc (tc_oc tc) wp) then [ERR_MISMATCH; 0; to_cls mc; to_rid mc; to_post mc; to_cls (tc_oc tc); to_rid (tc_oc tc); to_post (tc_oc tc)]
      else if negb (tobs_agree ms (tc_os tc) wp) then [ERR_MISMATCH; 1; to_cls ms; to_rid ms; to_post ms; to_cls (tc_os tc); to_rid (tc_os tc); to_post (tc_os tc)]
      else []
  end.

(* the property on one TLS endpoint: [me] completed with observation [o]; the
   other endpoint holds identity key [oid] and presented [other] *)
Definition judge_tls_side (me other : tside) (oid : Z) (received_edited : bool) (o : tobs) : list Z :=
  if negb (to_cls o =? 0) then []
  else
    orelse (if to_rid o =? to_rkid o then [] else [ERR_PROPERTY; 1; to_rid o; to_rkid o])
   (orelse (if to_rid o =? oid then [] else [ERR_PROPERTY; 2; to_rid o; oid])
   (orelse (match t_expect me with
            | Some x => if to_rid o =? Z.of_N x then [] else [ERR_PROPERTY; 3; to_rid o; Z.of_N x]
            | None => []
            end)
   (orelse (if received_edited then [ERR_PROPERTY; 4] else [])
           (* certified with a substituted key, or a certificate whose private key the peer does not hold *)
   (orelse (if t_holds other then [] else [ERR_PROPERTY; 5])
           (match judge_chain 0 (t_chain other) (to_rid o) with [] => [] | _ :: _ :: r => ERR_PROPERTY :: r | d => d end))))).

Definition monitor_tls (l : list Z) : list Z :=
  match decode_tls l with
  | None => [ERR_MALFORMED; 0]
  | Some tc =>
      let e := tedit_of (tc_ek tc) (tc_dir tc) (tc_rec tc) in
      match judge_tls_side (tc_c tc) (tc_s tc) (tc_idS tc) (match e with TServerFlight => true | _ => false end) (tc_oc tc) with
      | [] => tagd 0 1 (judge_tls_side (tc_s tc) (tc_c tc) (tc_idC tc)
                          (match e with TClientHello | TClientFlight => true | _ => false end) (tc_os tc))
      | d => tagd 0 0 d
      end
  end.

(* ---- tag 4: swarm dial ----------------------------------------------------------------------------- *)
Definition dial_model (kind : Z) (local p : N) (remote : Z) : dialres :=
  let t := if remote =? 0 then DErr else DConn (Z.to_N remote) in
  if kind =? 0 then dial_addr local p t
  else if kind =? 1 then dial_peer local p (dial_addr local p t)   (* DialPeer: dial sync over dialAddr *)
  else dial_peer local p t.                                        (* whatever the dial sync hands back *)

Definition conform_dial (l : list Z) : list Z :=
  match l with
  | [local; p; kind; remote; ok; rr] =>
      match dial_model kind (Z.to_N local) (Z.to_N p) remote with
      | DErr => if ok =? 0 then [] else [ERR_MISMATCH; 0; 0; ok; rr]
      | DConn r => if (ok =? 1) && (rr =? Z.of_N r) then [] else [ERR_MISMATCH; 0; 1; Z.of_N r; ok; rr]
      end
  | _ => [ERR_MALFORMED; 0]
  end.

(* a dial for peer P never hands back a connection authenticated as anyone else *)
Definition monitor_dial (l : list Z) : list Z :=
  match l with
  | [local; p; kind; remote; ok; rr] =>
      if (ok =? 1) && negb (rr =? p) then [ERR_PROPERTY; 0; 7; rr; p] else []
  | _ => [ERR_MALFORMED; 0]
  end.

(* ---- tag 5: the QUIC transport over the same TLS identity ------------------------------------------ *)
(* 5 ktD ktL idD idL exp  okD ridD rkidD  okL ridL rkidL
   a dialer holding identity idD dials, with expected peer exp, a listener holding idL (which accepts
   any peer); ok 1 = Dial returned a connection / the listener accepted one.  Both present their
   honest certificate. *)
Definition honest_tside (id : Z) (exp : option N) : tside :=
  mkTside exp [mkCert 1 1 true true
                 [XLibp2p false (XSigned (NPub (Z.to_N id)) (NSig (Z.to_N id) (NCat TLSPREFIX (certpub 1)) 1))]] true.

Definition quic_obs (ok rid rkid : Z) : tobs := mkTobs (if ok =? 1 then 0 else 1) rid rkid 0.

Definition conform_quic (l : list Z) : list Z :=
  match l with
  | [_; _; idD; idL; exp; okD; ridD; rkD; okL; ridL; rkL] =>
      let '(rc, rs) := tls_run (honest_tside idD (expect_of exp)) (honest_tside idL None) TNone in
      let mc := tobs_of rc rs false in let ms := tobs_of rs rc false in
      if negb (tobs_agree mc (quic_obs okD ridD rkD) false) then [ERR_MISMATCH; 0; to_cls mc; to_rid mc; okD; ridD]
      else if negb (tobs_agree ms (quic_obs okL ridL rkL) false) then [ERR_MISMATCH; 1; to_cls ms; to_rid ms; okL; ridL]
      else []
  | _ => [ERR_MALFORMED; 0]
  end.

Definition monitor_quic (l : list Z) : list Z :=
  match l with
  | [_; _; idD; idL; exp; okD; ridD; rkD; okL; ridL; rkL] =>
      let d := honest_tside idD (expect_of exp) in let ls := honest_tside idL None in
      match judge_tls_side d ls idL false (quic_obs okD ridD rkD) with
      | [] => tagd 0 1 (judge_tls_side ls d idD false (quic_obs okL ridL rkL))
      | x => tagd 0 0 x
      end
  | _ => [ERR_MALFORMED; 0]
  end.

(* ---- tag 6: QUIC hole punch in the server role ------------------------------------------------------- *)
(* 6 kt idQ p where  ok rid rkid
   we punch towards address X for peer p; where = 0: the peer living at X (identity idQ) connects to
   our listener from X meanwhile; where = 1: a peer with identity p connects from another address *)
Definition holepunch_model (idQ p where_ : Z) : dialres :=
  hole_punch (1%N, Z.to_N p) (if where_ =? 0 then (1%N, Z.to_N idQ) else (2%N, Z.to_N p)).

Definition conform_ret (m : dialres) (ok rid : Z) : list Z :=
  match m with
  | DErr => if ok =? 0 then [] else [ERR_MISMATCH; 0; 0; ok; rid]
  | DConn r => if (ok =? 1) && (rid =? Z.of_N r) then [] else [ERR_MISMATCH; 0; 1; Z.of_N r; ok; rid]
  end.

Definition conform_holepunch (l : list Z) : list Z :=
  match l with
  | [_; idQ; p; w; ok; rid; _] => conform_ret (holepunch_model idQ p w) ok rid
  | _ => [ERR_MALFORMED; 0]
  end.

(* a dial for p returns a connection authenticated as p, or fails *)
Definition monitor_holepunch (l : list Z) : list Z :=
  match l with
  | [_; idQ; p; w; ok; rid; rkid] =>
      if negb (ok =? 1) then []
      else if negb (rid =? rkid) then [ERR_PROPERTY; 0; 1; rid; rkid]
      else if negb (rid =? p) then [ERR_PROPERTY; 0; 7; rid; p] else []
  | _ => [ERR_MALFORMED; 0]
  end.

(* ---- tag 7: the upgrader -------------------------------------------------------------------------------- *)
(* 7 sec kt kind dirIn exp remote  ok rid rkid
   sec 0 noise 1 tls; kind 0 Upgrader.Upgrade, 1 TcpTransport.Dial (dirIn 1: WithSimultaneousConnect(ctx, false));
   exp = the peer.ID argument (0 = ""), remote = the identity the remote endpoint holds *)
Definition conform_upgrade (l : list Z) : list Z :=
  match l with
  | [_; _; _; dirIn; exp; remote; ok; rid; _] =>
      conform_ret (upgrade (zbool dirIn) (expect_of exp) (Z.to_N remote)) ok rid
  | _ => [ERR_MALFORMED; 0]
  end.

(* a named expected peer is enforced in both directions; the reported peer is the remote's *)
Definition monitor_upgrade (l : list Z) : list Z :=
  match l with
  | [_; _; _; dirIn; exp; remote; ok; rid; rkid] =>
      if negb (ok =? 1) then []
      else if negb (rid =? rkid) then [ERR_PROPERTY; 0; dirIn; 1; rid; rkid]
      else if negb (rid =? remote) then [ERR_PROPERTY; 0; dirIn; 2; rid; remote]
      else if negb (exp =? 0) && negb (rid =? exp) then [ERR_PROPERTY; 0; dirIn; 3; rid; exp] else []
  | _ => [ERR_MALFORMED; 0]
  end.

(* ---- dispatch ----------------------------------------------------------------------------------------- *)
Definition conform_case (l : list Z) : list Z :=
  match l with
  | 1 :: r => conform_noise r
  | 2 :: r => conform_verify r
  | 3 :: r => conform_tls r
  | 4 :: r => conform_dial r
  | 5 :: r => conform_quic r
  | 6 :: r => conform_holepunch r
  | 7 :: r => conform_upgrade r
  | _ => [ERR_MALFORMED; 99]
  end.

Definition monitor_case (l : list Z) : list Z :=
  match l with
  | 1 :: r => monitor_noise r
  | 2 :: r => monitor_verify r
  | 3 :: r => monitor_tls r
  | 4 :: r => monitor_dial r
  | 5 :: r => monitor_quic r
  | 6 :: r => monitor_holepunch r
  | 7 :: r => monitor_upgrade r
  | _ => [ERR_MALFORMED; 99]
  end.

(* C01 — property theorems only.  Each is closed by lemmas of Proofs*.v and
   followed by Print Assumptions. *)
From Coq Require Import List NArith ZArith Bool.
From Verif Require Import lib.Wire c01.Model c01.ModelTLS c01.Spec c01.Proofs c01.Proofs_enum c01.Proofs_tls gen.Consts_c01.
Import ListNotations.

(* ============================ Noise ============================================ *)

(* HEADLINE: the monitor that judges the implementation's observations
   (Spec.judge_sessions: a completed endpoint reports the ID of the reported key,
   which is the key the remote endpoint holds; a named expected peer is
   enforced; nobody completes on edited, replayed or forged data) accepts the
   model's own trace for EVERY well-formed scenario: both roles, every
   transport kind / DisablePeerIDCheck / expected-peer setting of either side,
   every prologue pairing, every edit of the grammar on every component of
   every message, every forged payload of a cooperating malicious endpoint. *)
Theorem c01_noise_monitor_accepts_model : forall sc,
  wf_scenario sc = true -> monitor_scenario sc = [].
Proof.
  intros sc H. apply scenario_ok_wf in H. unfold scenario_ok in H.
  repeat (apply andb_true_iff in H; destruct H as [H ?]).
  unfold monitor_b in H. destruct (monitor_scenario sc); [reflexivity | discriminate].
Qed.
Print Assumptions c01_noise_monitor_accepts_model.

(* handleRemoteHandshakePayload returns an identity only for a payload whose
   identity-key bytes unmarshal to a public key (in whatever valid serialization),
   whose signature was issued BY THAT KEY on
   "noise-libp2p-static-key:" ++ the remote static key of this handshake, and
   (when checkPeerID) whose ID is the expected one.  For every payload term,
   every remote static, every endpoint configuration. *)
Theorem c01_noise_identity_only_after_verification : forall p payload remote_static id key,
  handle_payload p payload remote_static = inl (id, key) ->
  key = NPub id /\
  (exists kb r ext, payload = NPayload kb (NSig id (NCat PREFIX remote_static) r) ext /\
                    unmarshal_key kb = Some id) /\
  (p_check p = true -> p_expect p = Some id).
Proof. exact handle_payload_sound. Qed.
Print Assumptions c01_noise_identity_only_after_verification.

(* noise_remote_is_signer, initiator: whatever the network delivers (any list of
   any terms), an initiator that completes reporting peer [id] has opened a
   message 2 whose payload carries a signature by identity key [id] over the
   static key rs it decrypted from THAT message, and its final chaining key
   (from which the transport keys are split) mixes DH(e, rs): only the holder
   of the private part of rs can compute the session keys. *)
Theorem c01_noise_remote_is_signer_initiator : forall p st incoming id key st' sent,
  init_finish p st incoming = (Done id key st', sent) ->
  exists re cs cp rest rs r ext st2 kb,
    incoming = [re; cs; cp] :: rest /\
    read_m2 p st [re; cs; cp] = Some (st2, rs, NPayload kb (NSig id (NCat PREFIX rs) r) ext) /\
    unmarshal_key kb = Some id /\
    key = NPub id /\ hs_rs st' = Some rs /\ hs_re st' = re /\
    (p_check p = true -> p_expect p = Some id) /\
    ck (hs_sym st') =
      NKdf (NKdf (NKdf (ck (hs_sym st)) (dh (p_e p) re) 1) (dh (p_e p) rs) 1) (dh (p_s p) re) 1.
Proof. exact init_finish_done. Qed.
Print Assumptions c01_noise_remote_is_signer_initiator.

(* the same for the responder and message 3 *)
Theorem c01_noise_remote_is_signer_responder : forall p st incoming id key st',
  resp_finish p st incoming = Done id key st' ->
  exists cs cp rest rs r ext kb,
    incoming = [cs; cp] :: rest /\
    read_m3 p st [cs; cp] = Some (st', rs, NPayload kb (NSig id (NCat PREFIX rs) r) ext) /\
    unmarshal_key kb = Some id /\
    key = NPub id /\ hs_rs st' = Some rs /\
    (p_check p = true -> p_expect p = Some id) /\
    ck (hs_sym st') = NKdf (ck (hs_sym st)) (dh (p_e p) rs) 1.
Proof. exact resp_finish_done. Qed.
Print Assumptions c01_noise_remote_is_signer_responder.

(* the reported peer ID is the ID of the KEY, not of the bytes it arrived in: every
   valid serialization of identity key k (canonical; an unknown field appended; the
   two fields in the other order; a non-minimal varint — parsed by C08's transcription
   of proto.Unmarshal, c08.Model.parse_pubkey) yields RemotePeer() = k and
   RemotePublicKey() = the canonical key k, so one key never appears under two peer IDs *)
Theorem c01_noise_peer_id_independent_of_key_encoding : forall p k a sg ext rs id key,
  In k [1; 2; 3]%N ->
  handle_payload p (NPayload (NKeyBytes (alias_bytes a k)) sg ext) rs = inl (id, key) ->
  id = k /\ key = NPub k /\
  handle_payload p (NPayload (NPub k) sg ext) rs = inl (id, key).
Proof.
  intros p k a sg ext rs id key Hk H.
  assert (U : unmarshal_key (NKeyBytes (alias_bytes a k)) = Some k).
  { destruct a; cbn in Hk; destruct Hk as [<-|[<-|[<-|[]]]]; vm_compute; reflexivity. }
  unfold handle_payload in *. rewrite U in H. cbn [unmarshal_key]. 
  destruct (p_check p && _)%bool; [discriminate|].
  destruct (sig_verify (NPub k) (NCat PREFIX rs) sg); [|discriminate].
  inversion H; subst. repeat split; reflexivity.
Qed.
Print Assumptions c01_noise_peer_id_independent_of_key_encoding.

(* the signature rule is an ideal scheme: one value verifies for exactly one
   key and one message (so a signature over another static key, under another
   key, or without the prefix never passes) *)
Theorem c01_signature_exact : forall k m k' m' s,
  sig_verify k m s = true -> sig_verify k' m' s = true -> k = k' /\ m = m'.
Proof. exact noise_sig_exact. Qed.
Print Assumptions c01_signature_exact.

(* checkPeerID as computed by Transport / SessionTransport for the four settings:
   outbound: always, unless DisablePeerIDCheck; inbound: iff a peer was named and
   the check was not disabled.  Hence a named, not disabled expectation is always checked. *)
Theorem c01_check_peer_id_table : forall sd,
  check_peer_id true sd = negb (sd_session sd && sd_disable sd) /\
  check_peer_id false sd =
    negb (sd_session sd && sd_disable sd) && (match sd_expect sd with Some _ => true | None => false end) /\
  (forall x initiator, names_peer sd = Some x -> check_peer_id initiator sd = true).
Proof.
  intros sd. repeat split.
  - unfold check_peer_id. destruct (sd_session sd), (sd_disable sd); reflexivity.
  - unfold check_peer_id. destruct (sd_session sd), (sd_disable sd), (sd_expect sd); reflexivity.
  - intros x i H. apply (names_peer_check i) in H. apply H.
Qed.
Print Assumptions c01_check_peer_id_table.

(* expected_peer_enforced: in EVERY scenario (not only well-formed ones), in
   both roles, an endpoint that named its peer and did not disable the check
   completes only with that peer *)
Theorem c01_noise_expected_peer_enforced : forall sc n n' rI rR,
  run_session sc n n' = (rI, rR) ->
  (forall id k st x, rI = Done id k st -> names_peer (sc_i sc) = Some x -> id = idn x) /\
  (forall id k st x, rR = Done id k st -> names_peer (sc_r sc) = Some x -> id = idn x).
Proof. exact run_session_expected. Qed.
Print Assumptions c01_noise_expected_peer_enforced.

(* mitm_edit_aborts: over the whole finite grammar (edit kinds x components x
   messages x both roles x prologue pairings x expected-peer settings, and the
   forged payloads x key roles A, B, E), no endpoint that received edited,
   withheld, replayed or forged data completes, in either of the two sessions *)
Theorem c01_noise_mitm_edit_aborts : forall sc initiator,
  wf_scenario sc = true ->
  received_edited (sc_edit sc) initiator = true \/ received_forged sc initiator = true ->
  failed (side_res (fst (run_scenario sc)) initiator) = true /\
  failed (side_res (snd (run_scenario sc)) initiator) = true.
Proof.
  intros sc i H Hr. apply scenario_ok_wf in H. unfold scenario_ok in H.
  repeat (apply andb_true_iff in H; destruct H as [H ?]).
  match goal with E : edit_aborts_b sc = true |- _ => rename E into HE end.
  unfold edit_aborts_b in HE. destruct (run_scenario sc) as [s1 s2]. cbn [fst snd].
  rewrite forallb_forall in HE.
  assert (Hi : In i bools) by (destruct i; cbn; auto).
  specialize (HE i Hi).
  assert (Hb : (received_edited (sc_edit sc) i || received_forged sc i)%bool = true)
    by (apply orb_true_iff; exact Hr).
  rewrite Hb in HE. cbn [implb] in HE. apply andb_true_iff in HE. exact HE.
Qed.
Print Assumptions c01_noise_mitm_edit_aborts.

(* a completed endpoint reports exactly the identity key the other endpoint holds *)
Theorem c01_noise_completed_reports_remote_key : forall sc,
  wf_scenario sc = true -> identity_b sc = true.
Proof.
  intros sc H. apply scenario_ok_wf in H. unfold scenario_ok in H.
  repeat (apply andb_true_iff in H; destruct H as [H ?]). assumption.
Qed.
Print Assumptions c01_noise_completed_reports_remote_key.

(* undisturbed honest runs complete exactly when the prologues are equal and the
   expected-peer settings allow the remote (so the theorems above are not
   vacuous), and different prologues always abort both sides *)
Theorem c01_noise_undisturbed_and_prologue : forall sc,
  wf_scenario sc = true -> undisturbed_b sc = true /\ prologue_b sc = true.
Proof.
  intros sc H. apply scenario_ok_wf in H. unfold scenario_ok in H.
  repeat (apply andb_true_iff in H; destruct H as [H ?]). split; assumption.
Qed.
Print Assumptions c01_noise_undisturbed_and_prologue.

(* no payload, no identity: a remote that completes Noise XX correctly but sends a
   ZERO-LENGTH libp2p payload (or bytes that are not a NoiseHandshakePayload) in message 2
   or message 3 is refused by handleRemoteHandshakePayload — for every endpoint
   configuration (check on or off, any expected peer) and every remote static key;
   by c01_noise_remote_is_signer_* a completed endpoint has always passed this function
   on the payload of THE message it read at stage 1 (initiator) / stage 2 (responder),
   so "message without payload" is never a way around the identity proof *)
Theorem c01_noise_no_payload_no_identity : forall p remote_static,
  handle_payload p NEmpty remote_static = inr E_KEY /\
  (forall n, handle_payload p (NJunk n) remote_static = inr E_KEY).
Proof. intros p rs. split; [reflexivity | intros n; reflexivity]. Qed.
Print Assumptions c01_noise_no_payload_no_identity.

(* ... and in the scenario language: whatever the victim's role, transport kind,
   expected-peer setting and prologue, and whether or not the malicious initiator
   already put a valid payload into message 1, the endpoint that receives a payload
   with the identity key omitted, a zero-length payload or a non-protobuf payload fails *)
Theorem c01_noise_omitted_payload_aborts : forall sc f,
  wf_scenario sc = true -> sc_forge sc = Some f ->
  f_claim f = ClNoPayload \/ f_claim f = ClNotProto \/ f_claim f = ClEmpty ->
  failed (side_res (fst (run_scenario sc)) (negb (f_init f))) = true.
Proof.
  intros sc f Hwf Hf Hc.
  apply (c01_noise_mitm_edit_aborts sc (negb (f_init f)) Hwf). right.
  unfold received_forged. rewrite Hf.
  replace (Bool.eqb (f_init f) (negb (f_init f))) with false by (destruct (f_init f); reflexivity).
  unfold forge_is_honest. destruct Hc as [-> | [-> | ->]]; reflexivity.
Qed.
Print Assumptions c01_noise_omitted_payload_aborts.

(* a panic anywhere in runHandshake is an error outcome: an endpoint that
   completes has passed every stage on its path (its Reads and Writes on the
   insecure connection, the early-data handler's Send and Received) without a
   fault — so no fault position yields a completed session, let alone one
   without a verified payload (the c01_noise_remote_is_signer theorems hold
   for every party, faulty or not).  For every pair of parties and every network. *)
Theorem c01_noise_panic_is_error : forall pi pr net rI rR,
  run_pair pi pr net = (rI, rR) ->
  (forall id k st, rI = Done id k st ->
     faulty pi (FWrite 0) = false /\ faulty pi (FRead 0) = false /\ faulty pi FReceived = false /\
     faulty pi FSend = false /\ faulty pi (FWrite 1) = false) /\
  (forall id k st, rR = Done id k st ->
     faulty pr (FRead 0) = false /\ faulty pr FSend = false /\ faulty pr (FWrite 0) = false /\
     faulty pr (FRead 1) = false /\ faulty pr FReceived = false).
Proof.
  intros pi pr net rI rR H. apply run_pair_done in H. destruct H as [HI HR]. split; intros id k st Hd.
  - destruct (HI _ _ _ Hd) as [F0 [stI [q [o Hf]]]]. apply init_finish_nofault in Hf. tauto.
  - destruct (HR _ _ _ Hd) as [F0 [F1 [F2 [stR [q Hf]]]]]. apply resp_finish_nofault in Hf. tauto.
Qed.
Print Assumptions c01_noise_panic_is_error.

(* ============================ TLS ============================================== *)

(* tls_key_is_certified: PubKeyFromCertChain returns a key only for a chain of
   exactly one certificate, currently valid, without unhandled critical
   extension, signed by its own key over the bytes as they are, whose FIRST
   libp2p extension holds that key and a signature issued BY that key over
   "libp2p-tls-handshake:" ++ the key of THIS certificate.  For every chain. *)
Theorem c01_tls_key_is_certified : forall chain pub,
  pubkey_from_chain chain = inl pub ->
  exists c id r,
    chain = [c] /\ pub = NPub id /\
    find_libp2p (c_exts c) = Some (XSigned (NPub id) (NSig id (NCat TLSPREFIX (certpub (c_key c))) r)) /\
    c_time_ok c = true /\ existsb other_critical (c_exts c) = false /\
    self_signed c = true /\
    certifies chain id = true /\ self_signature_defect chain = 0%Z.
Proof.
  intros chain pub H. pose proof (certifies_of_sound _ _ H) as [id' [E [C S]]].
  apply pubkey_from_chain_sound in H. destruct H as [c [id [r [-> [-> [Hf [Ht [Ho Hs]]]]]]]].
  inversion E; subst. exists c, id', r. repeat split; assumption.
Qed.
Print Assumptions c01_tls_key_is_certified.

(* the defect this check found in the pinned tree (x509.Verify checks no
   signature of a certificate that is itself in the root pool) is repaired by
   an explicit CheckSignature; the regenerated constant says the source still
   contains it, and the former witnesses are rejected *)
Theorem c01_tls_self_signature_checked :
  tls_self_signature_checked = true /\
  pubkey_from_chain [mkCert 1 4 true true [XLibp2p false (XSigned (NPub 3) (NSig 3 (NCat TLSPREFIX (certpub 1)) 1))]]
    = inr T_CERTVERIFY /\
  pubkey_from_chain [mkCert 1 1 false true [XLibp2p false (XSigned (NPub 3) (NSig 3 (NCat TLSPREFIX (certpub 1)) 1))]]
    = inr T_CERTVERIFY.
Proof. vm_compute. repeat split; reflexivity. Qed.
Print Assumptions c01_tls_self_signature_checked.

(* the callback of ConfigForPeer(remote): a key reaches keyCh only if the chain
   certifies it, the certificate is validly self-signed and, when a peer was
   named, it is that peer's key *)
Theorem c01_tls_expected_peer_enforced : forall remote raw pub,
  verify_peer remote raw = inl pub ->
  exists id, pub = NPub id /\ certifies raw id = true /\
             self_signature_defect raw = 0%Z /\
             forallb parse_ok raw = true /\
             (forall r, remote = Some r -> r = id).
Proof. exact verify_peer_sound. Qed.
Print Assumptions c01_tls_expected_peer_enforced.

(* tls_mutations_rejected: every mutation of the libp2p extension of an honest
   certificate (public key, signature, certificate key, extension absent /
   duplicated / not ASN.1, chain length 0 and 2, certificate signed with another
   key or altered after signing) is rejected, whoever is
   expected, for every pair of distinct identities own (presenting) and v (victim) *)
Definition good_ext (id key : N) : ext :=
  XLibp2p false (XSigned (NPub id) (NSig id (NCat TLSPREFIX (certpub key)) 1)).
Definition cert1 (exts : list ext) : cert := mkCert 1 1 true true exts.
Definition mutated_chains (own v : N) : list (list cert) :=
  let sg m := XLibp2p false (XSigned (NPub own) m) in
  [ [cert1 [XLibp2p false (XSigned (NPub v) (NSig own (NCat TLSPREFIX (certpub 1)) 1))]];  (* public key replaced *)
    [cert1 [XLibp2p false (XSigned (NJunk 920) (NSig own (NCat TLSPREFIX (certpub 1)) 1))]];
    [cert1 [XLibp2p false (XSigned NEmpty (NSig own (NCat TLSPREFIX (certpub 1)) 1))]];
    [cert1 [sg (NSig v (NCat TLSPREFIX (certpub 1)) 1)]];          (* signature by another key *)
    [cert1 [sg (NSig own (certpub 1) 1)]];                         (* without the prefix *)
    [cert1 [sg (NSig own (NCat TLSPREFIX (certpub 3)) 1)]];        (* over another certificate key *)
    [cert1 [sg (NJunk 921)]]; [cert1 [sg NEmpty]];
    [cert1 [good_ext v 2]];                                         (* certificate key replaced under the victim's extension *)
    [cert1 [XLibp2p false (XSigned (NPub v) (NSig v (certpub 2) 1))]];
    [cert1 []]; [cert1 [XOther 7 false]];                          (* extension absent *)
    [cert1 [good_ext own 1; good_ext own 1]];                      (* duplicated *)
    [cert1 [XLibp2p false (XSigned (NPub v) (NSig own (NCat TLSPREFIX (certpub 1)) 1)); good_ext own 1]];
    [cert1 [good_ext own 1; XLibp2p false (XSigned (NPub v) (NSig own (NCat TLSPREFIX (certpub 1)) 1))]];
    [cert1 [XLibp2p false XJunk]];                                  (* not ASN.1 *)
    [];                                                             (* chain length 0, 2 *)
    [cert1 [good_ext own 1]; mkCert 3 3 true true [good_ext own 3]];
    [cert1 [good_ext own 1]; mkCert 3 3 true true []];
    [mkCert 3 3 true true []; cert1 [good_ext own 1]];
    [mkCert 2 2 true true [good_ext v 2]; cert1 [good_ext own 1]];
    [mkCert 1 3 true true [good_ext own 1]];                        (* signed with another key *)
    [mkCert 1 1 false true [good_ext own 1]] ].                     (* altered after signing *)

Definition rejected (r : nt + N) : bool := match r with inr _ => true | inl _ => false end.
Definition ids123 : list N := [1; 2; 3]%N.

Theorem c01_tls_mutations_rejected : forall own v exp ch,
  In own ids123 -> In v ids123 -> own <> v -> In exp (None :: map Some ids123) ->
  In ch (mutated_chains own v) ->
  rejected (verify_peer exp ch) = true /\
  (forallb parse_ok ch = true -> rejected (pubkey_from_chain ch) = true).
Proof.
  assert (A : forallb (fun own => forallb (fun v => N.eqb own v ||
                forallb (fun exp => forallb (fun ch =>
                   rejected (verify_peer exp ch) &&
                   (negb (forallb parse_ok ch) || rejected (pubkey_from_chain ch)))
                 (mutated_chains own v)) (None :: map Some ids123)) ids123) ids123 = true)
    by (vm_compute; reflexivity).
  intros own v exp ch Ho Hv Hne He Hc.
  rewrite forallb_forall in A. specialize (A own Ho).
  rewrite forallb_forall in A. specialize (A v Hv). apply orb_true_iff in A. destruct A as [A|A].
  { apply N.eqb_eq in A. contradiction. }
  rewrite forallb_forall in A. specialize (A exp He). rewrite forallb_forall in A. specialize (A ch Hc).
  apply andb_true_iff in A. destruct A as [A1 A2]. split; [exact A1|].
  intros Hp. rewrite Hp in A2. exact A2.
Qed.
Print Assumptions c01_tls_mutations_rejected.

(* the handshake (ideal TLS 1.3 around the real checks): a completed endpoint
   received no edited record, the peer held the leaf certificate's private key,
   its chain certifies the reported key, and a named peer is enforced *)
Theorem c01_tls_handshake_authenticates : forall me other ed pf id key,
  tls_endpoint me other ed pf = TDone id key ->
  ed = false /\ pf = false /\ key = NPub id /\ t_holds other = true /\
  certifies (t_chain other) id = true /\
  self_signature_defect (t_chain other) = 0%Z /\
  (forall r, t_expect me = Some r -> r = id).
Proof. exact tls_endpoint_done. Qed.
Print Assumptions c01_tls_handshake_authenticates.

(* HEADLINE (TLS): the monitor that judges the implementation accepts the
   model's trace for every pair of endpoints, every certificate chain on either
   side, every edit position — given the ground truth the monitor is told: each
   endpoint can get only its own identity certified for a certificate key it
   holds (unforgeability; the symbolic algebra cannot express who knows which
   private key, so this enters as a hypothesis). *)
Theorem c01_tls_monitor_accepts_model : forall c s e idC idS wp,
  presents_only_own c idC -> presents_only_own s idS ->
  let '(rc, rs) := tls_run c s e in
  judge_tls_side c s idS (match e with TServerFlight => true | _ => false end) (tobs_of rc rs wp) = [] /\
  judge_tls_side s c idC (match e with TClientHello | TClientFlight => true | _ => false end) (tobs_of rs rc wp) = [].
Proof.
  intros c s e idC idS wp Hc Hs. unfold tls_run. split.
  - apply judge_tls_side_model; [exact Hs |].
    destruct e; intros H; try discriminate H; reflexivity.
  - apply judge_tls_side_model; [exact Hc |].
    destruct e; intros H; try discriminate H; reflexivity.
Qed.
Print Assumptions c01_tls_monitor_accepts_model.

(* QUIC (and WebTransport's listener) reuse Identity.ConfigForPeer: a dial with
   expected peer p against a listener holding identity idL, both presenting their
   honest certificates, completes iff p is idL's peer ID, and the monitor accepts
   the model's trace *)
Lemma honest_presents_own : forall id e, (0 <= id)%Z -> presents_only_own (honest_tside id e) id.
Proof.
  intros id e Hid k Hc _. unfold certifies, honest_tside in Hc. cbn in Hc.
  apply andb_true_iff in Hc. destruct Hc as [H1 _]. apply N.eqb_eq in H1. subst.
  apply Z2N.id. exact Hid.
Qed.

Theorem c01_quic_dial_authenticates : forall idD idL p wp,
  (0 <= idD)%Z -> (0 <= idL)%Z ->
  let d := honest_tside idD (Some p) in let l := honest_tside idL None in
  tfailed (fst (tls_run d l TNone)) = negb (p =? Z.to_N idL)%N /\
  judge_tls_side d l idL false (tobs_of (fst (tls_run d l TNone)) (snd (tls_run d l TNone)) wp) = [] /\
  judge_tls_side l d idD false (tobs_of (snd (tls_run d l TNone)) (fst (tls_run d l TNone)) wp) = [].
Proof.
  intros idD idL p wp HD HL d l. split.
  - unfold d, l, honest_tside. generalize (Z.to_N idL) as n. generalize (Z.to_N idD) as m. intros m n.
    unfold tls_run, tls_endpoint, verify_peer, pubkey_from_chain, cert_verify, self_signed, sig_verify.
    simpl. rewrite !N.eqb_refl. simpl.
    destruct (p =? n)%N; reflexivity.
  - pose proof (c01_tls_monitor_accepts_model d l TNone idD idL wp
                  (honest_presents_own idD (Some p) HD) (honest_presents_own idL None HL)) as H.
    destruct (tls_run d l TNone) as [rc rs]. exact H.
Qed.
Print Assumptions c01_quic_dial_authenticates.

(* ============================ swarm ============================================ *)

(* dial_never_returns_other_peer: whatever connection the transport (dialAddr)
   or the dial synchroniser (dialPeer) hands back, the caller of a dial for p
   gets a connection only if its RemotePeer() is p; composed: DialPeer *)
Theorem c01_dial_never_returns_other_peer : forall local p t r,
  (dial_addr local p t = DConn r -> r = p /\ p <> local) /\
  (dial_peer local p t = DConn r -> r = p /\ p <> local) /\
  (dial_peer local p (dial_addr local p t) = DConn r -> r = p /\ p <> local).
Proof.
  intros local p t r. split; [|split]; intros H0;
    first [apply dial_addr_only_p in H0 | apply dial_peer_only_p in H0]; exact H0.
Qed.
Print Assumptions c01_dial_never_returns_other_peer.

(* the dial monitor accepts every answer of the model *)
Theorem c01_dial_monitor_accepts_model : forall kind local p remote,
  (0 <= p)%Z ->
  let '(ok, rr) := match dial_model kind (Z.to_N local) (Z.to_N p) remote with
                   | DErr => (0, 0) | DConn r => (1, Z.of_N r) end%Z in
  monitor_dial [local; p; kind; remote; ok; rr] = [].
Proof.
  intros kind local p remote Hp.
  destruct (dial_model kind (Z.to_N local) (Z.to_N p) remote) as [|r] eqn:E; [reflexivity|].
  assert (Hr : r = Z.to_N p).
  { unfold dial_model in E.
    destruct (kind =? 0)%Z; [apply dial_addr_only_p in E; apply E|].
    destruct (kind =? 1)%Z; apply dial_peer_only_p in E; apply E. }
  subst. unfold monitor_dial. rewrite Z2N.id by exact Hp. rewrite (Z.eqb_refl p). reflexivity.
Qed.
Print Assumptions c01_dial_monitor_accepts_model.

(* the QUIC transport's hole punch (server role of a simultaneous connect): a dial
   for p towards address x returns only a connection that came from x AND is
   authenticated as p; a different peer connecting from x is not handed to it *)
Theorem c01_holepunch_only_p : forall x p accepted r,
  hole_punch (x, p) accepted = DConn r -> r = p /\ accepted = (x, p).
Proof.
  intros x p [a q] r H. unfold hole_punch, hp_key_eqb in H. cbn [fst snd] in H.
  destruct (a =? x)%N eqn:E1; [|discriminate]. destruct (q =? p)%N eqn:E2; [|discriminate].
  cbn in H. inversion H; subst. apply N.eqb_eq in E1. apply N.eqb_eq in E2. subst. split; reflexivity.
Qed.
Print Assumptions c01_holepunch_only_p.

Theorem c01_holepunch_monitor_accepts_model : forall kt idQ p w,
  (0 <= p)%Z ->
  let '(ok, rr) := match holepunch_model idQ p w with DErr => (0, 0) | DConn r => (1, Z.of_N r) end%Z in
  monitor_holepunch [kt; idQ; p; w; ok; rr; rr] = [].
Proof.
  intros kt idQ p w Hp. destruct (holepunch_model idQ p w) as [|r] eqn:E; [reflexivity|].
  unfold holepunch_model in E. apply c01_holepunch_only_p in E. destruct E as [-> _].
  unfold monitor_holepunch. rewrite Z2N.id by exact Hp. cbn [Z.eqb negb]. rewrite !Z.eqb_refl. reflexivity.
Qed.
Print Assumptions c01_holepunch_monitor_accepts_model.

(* the upgrader: in BOTH directions a named expected peer is enforced, the
   reported peer is the one the remote proved, and an outbound upgrade needs a name *)
Theorem c01_upgrade_expected_peer_enforced : forall inbound p remote r,
  upgrade inbound p remote = DConn r ->
  r = remote /\ (forall x, p = Some x -> x = remote) /\ (p = None -> inbound = true).
Proof.
  intros inbound p remote r H. unfold upgrade in H. destruct p as [x|].
  - destruct (x =? remote)%N eqn:E; [|discriminate]. inversion H; subst. apply N.eqb_eq in E.
    repeat split; auto. + intros y Hy. inversion Hy; subst. reflexivity. + intros Hn. discriminate.
  - destruct inbound; [|discriminate]. inversion H; subst. repeat split; auto. intros y Hy. discriminate.
Qed.
Print Assumptions c01_upgrade_expected_peer_enforced.

Theorem c01_upgrade_monitor_accepts_model : forall sec kt kind dirIn exp remote,
  (0 <= remote)%Z -> (0 <= exp)%Z ->
  let '(ok, rr) := match upgrade (zbool dirIn) (expect_of exp) (Z.to_N remote) with
                   | DErr => (0, 0) | DConn r => (1, Z.of_N r) end%Z in
  monitor_upgrade [sec; kt; kind; dirIn; exp; remote; ok; rr; rr] = [].
Proof.
  intros sec kt kind dirIn exp remote Hr He.
  destruct (upgrade (zbool dirIn) (expect_of exp) (Z.to_N remote)) as [|r] eqn:E; [reflexivity|].
  apply c01_upgrade_expected_peer_enforced in E. destruct E as [-> [Hx _]].
  unfold monitor_upgrade. rewrite Z2N.id by exact Hr. cbn [Z.eqb negb]. rewrite !Z.eqb_refl. cbn [negb].
  unfold expect_of in Hx. destruct (exp =? 0)%Z eqn:E0; [reflexivity|].
  specialize (Hx _ eq_refl). cbn [negb andb].
  assert (exp = remote) by (rewrite <- (Z2N.id exp He), Hx, Z2N.id; auto). subst. rewrite Z.eqb_refl. reflexivity.
Qed.
Print Assumptions c01_upgrade_monitor_accepts_model.

(* ---- non-vacuity ---------------------------------------------------------------- *)
Example honest_run_completes :
  let sc := mkSc (mkSide KA false false (Some KB) P0) (mkSide KB false false None P0) ENone None None in
  wf_scenario sc = true /\
  map obs_of_res [fst (fst (run_scenario sc)); snd (fst (run_scenario sc))] = [mkObs 0 2 2; mkObs 0 1 1].
Proof. vm_compute. split; reflexivity. Qed.

(* the monitor rejects: an initiator completing on a flipped message 2 *)
Example monitor_rejects_completion_on_edited_data :
  monitor_case [1; 0;0; 1;0;0;2;0; 2;0;0;0;0; 1;2;1;0;40; 0;0;0;0;0; 0;0;0;0; 1; 0;2;2; 5;0;0]%Z <> [].
Proof. vm_compute. discriminate. Qed.

(* ... an endpoint reporting a peer whose key the remote does not hold (forged claim accepted) *)
Example monitor_rejects_forged_identity :
  monitor_case [1; 0;0; 1;0;0;2;0; 3;1;1;0;0; 0;0;0;0;0; 1;0;2;3;0; 0;0;0;0; 1; 0;2;2; 9;0;0]%Z <> [].
Proof. vm_compute. discriminate. Qed.

(* ... a responder that named A, completing with E *)
Example monitor_rejects_unexpected_peer :
  monitor_case [1; 0;0; 3;1;1;0;0; 2;0;0;1;0; 0;0;0;0;0; 1;1;3;3;0; 0;0;0;0; 1; 9;0;0; 0;3;3]%Z <> [].
Proof. vm_compute. discriminate. Qed.

(* TLS: an honest chain is accepted and certifies its key *)
Example tls_honest_chain_accepted :
  verify_peer (Some 3%N) [cert1 [good_ext 3 1]] = inl (NPub 3) /\
  certifies [cert1 [good_ext 3 1]] 3 = true.
Proof. vm_compute; split; reflexivity. Qed.

(* the monitor rejects an accepted certificate that was signed with another key (the repaired defect) *)
Example monitor_rejects_bad_self_signature :
  monitor_case [2; 0; 0; 1; 1;3;1;1;1; 1;0;1;3;3;1;1; 0;3;0;3]%Z <> [].
Proof. vm_compute. discriminate. Qed.

(* the TLS monitor rejects a client that completes against a certificate carrying the
   victim's extension over another certificate key *)
Example monitor_rejects_replayed_extension :
  monitor_case [3; 0;0; 1;2;1; 1; 1;1;1;1;1; 1;0;1;1;1;1;1;
                        3;0;1; 1; 1;1;1;1;1; 1;0;1;2;2;1;2;  0;0;0;0;  0;2;2;0; 1;0;0;0]%Z <> [].
Proof. vm_compute. discriminate. Qed.

(* the dial monitor rejects a connection to another peer handed to the caller *)
Example monitor_rejects_wrong_peer_conn : monitor_case [4; 1; 2; 0; 3; 1; 3]%Z <> [].
Proof. vm_compute. discriminate. Qed.

(* the monitors reject: a hole punch for B that returns a connection authenticated as E;
   an inbound upgrade that named B and completed with E *)
Example monitor_rejects_holepunch_other_peer : monitor_case [6; 0; 3; 2; 0; 1; 3; 3]%Z <> [].
Proof. vm_compute. discriminate. Qed.
Example monitor_rejects_inbound_upgrade_unexpected_peer : monitor_case [7; 0; 0; 0; 1; 2; 3; 1; 3; 3]%Z <> [].
Proof. vm_compute. discriminate. Qed.

(* the monitor rejects a responder that "completes" after a panic with the expected
   peer's ID and no public key at all *)
Example monitor_rejects_unverified_session_after_panic :
  monitor_case [1; 0;0; 1;0;0;2;0; 2;1;0;3;0; 0;0;0;0;0; 0;0;0;0;0; 1;0;2;0; 1; 5;0;0; 0;3;0]%Z <> [].
Proof. vm_compute. discriminate. Qed.

(* the monitor rejects a responder reporting a peer ID that is not the ID of the reported key
   (E's key in a non-canonical serialization, ID derived from the bytes) *)
Example monitor_rejects_id_of_bytes :
  monitor_case [1; 0;0; 3;1;1;0;0; 2;0;0;0;0; 0;0;0;0;0; 1;1;13;3;0; 0;0;0;0; 1; 9;0;0; 0;9;3]%Z <> [].
Proof. vm_compute. discriminate. Qed.

(* zero-length payload (a remote that runs plain Noise XX with its own static key): the model's
   initiator and responder fail with a key/payload error, also when message 1 already carried a valid payload *)
Example zero_length_payload_is_refused :
  let scI := mkSc (mkSide KA false false (Some KB) P0) (mkSide KE true true None P0) ENone
                  (Some (mkForge false ClNoPayload FsEmpty false)) None in
  let scR := mkSc (mkSide KE true true None P0) (mkSide KB false false None P0) ENone
                  (Some (mkForge true ClNoPayload FsEmpty true)) None in
  wf_scenario scI = true /\ wf_scenario scR = true /\
  obs_of_res (fst (fst (run_scenario scI))) = mkObs 3 0 0 /\
  obs_of_res (snd (fst (run_scenario scR))) = mkObs 3 0 0.
Proof. vm_compute. repeat split; reflexivity. Qed.

(* the monitor rejects: an initiator that dialled B, got a zero-length payload in message 2 and "completed"
   reporting B with no public key; a responder that got a zero-length payload in message 3 and completed
   with remote peer "" *)
Example monitor_rejects_completion_without_payload_initiator :
  monitor_case [1; 0;0; 1;0;0;2;0; 3;1;1;0;0; 0;0;0;0;0; 1;0;6;5;0; 0;0;0;0; 1; 0;2;0; 9;0;0]%Z <> [].
Proof. vm_compute. discriminate. Qed.
Example monitor_rejects_completion_without_payload_responder :
  monitor_case [1; 0;0; 3;1;1;0;0; 2;0;0;0;0; 0;0;0;0;0; 1;1;6;5;0; 0;0;0;0; 1; 9;0;0; 0;0;0]%Z <> [].
Proof. vm_compute. discriminate. Qed.

(* the monitor rejects an initiator (Ed25519) that named E — an RSA identity, whose ID is the hash of the
   key — and completed with the Ed25519 peer B that answered; likewise a responder that named E (ECDSA) *)
Example monitor_rejects_hashed_id_expectation_ignored :
  monitor_case [1; 40;0; 1;0;0;3;0; 2;0;0;0;0; 0;0;0;0;0; 0;0;0;0;0; 0;0;0;0; 1; 0;2;2; 0;1;1]%Z <> [] /\
  monitor_case [1; 2;23; 1;0;0;2;0; 2;1;0;3;0; 0;0;0;0;0; 0;0;0;0;0; 0;0;0;0; 1; 0;2;2; 0;1;1]%Z <> [].
Proof. vm_compute. split; discriminate. Qed.

(* C01 — property theorems only.  Each is closed by lemmas of Proofs*.v and
   followed by Print Assumptions. *)
From Coq Require Import List NArith ZArith Bool.
From Verif Require Import lib.Wire c01.Model c01.Spec c01.Proofs c01.Proofs_enum.
Import ListNotations.

(* ============================ Noise ============================================ *)

(* HEADLINE: the monitor that judges the implementation's observations
   (Spec.judge_sessions: a completed endpoint reports the ID of the reported key,
   which is the key the remote endpoint holds; a named expected peer is
   enforced; nobody completes on edited, replayed or forged data) accepts the
   model's own trace for EVERY well-formed scenario: both roles, every
   transport kind / DisablePeerIDCheck / expected-peer setting of either side,
   every prologue pairing, every edit of the grammar on every component of
   every message, every forged payload of a cooperating malicious endpoint. *)
Theorem c01_noise_monitor_accepts_model : forall sc,
  wf_scenario sc = true -> monitor_scenario sc = [].
Proof.
  intros sc H. apply scenario_ok_wf in H. unfold scenario_ok in H.
  repeat (apply andb_true_iff in H; destruct H as [H ?]).
  unfold monitor_b in H. destruct (monitor_scenario sc); [reflexivity | discriminate].
Qed.
Print Assumptions c01_noise_monitor_accepts_model.

(* handleRemoteHandshakePayload returns an identity only for a payload whose
   identity key is a public key, whose signature was issued BY THAT KEY on
   "noise-libp2p-static-key:" ++ the remote static key of this handshake, and
   (when checkPeerID) whose ID is the expected one.  For every payload term,
   every remote static, every endpoint configuration. *)
Theorem c01_noise_identity_only_after_verification : forall p payload remote_static id key,
  handle_payload p payload remote_static = inl (id, key) ->
  key = NPub id /\
  (exists r ext, payload = NPayload (NPub id) (NSig id (NCat PREFIX remote_static) r) ext) /\
  (p_check p = true -> p_expect p = Some id).
Proof. exact handle_payload_sound. Qed.
Print Assumptions c01_noise_identity_only_after_verification.

(* noise_remote_is_signer, initiator: whatever the network delivers (any list of
   any terms), an initiator that completes reporting peer [id] has opened a
   message 2 whose payload carries a signature by identity key [id] over the
   static key rs it decrypted from THAT message, and its final chaining key
   (from which the transport keys are split) mixes DH(e, rs): only the holder
   of the private part of rs can compute the session keys. *)
Theorem c01_noise_remote_is_signer_initiator : forall p st incoming id key st' sent,
  init_finish p st incoming = (Done id key st', sent) ->
  exists re cs cp rest rs r ext st2,
    incoming = [re; cs; cp] :: rest /\
    read_m2 p st [re; cs; cp] = Some (st2, rs, NPayload (NPub id) (NSig id (NCat PREFIX rs) r) ext) /\
    key = NPub id /\ hs_rs st' = Some rs /\ hs_re st' = re /\
    (p_check p = true -> p_expect p = Some id) /\
    ck (hs_sym st') =
      NKdf (NKdf (NKdf (ck (hs_sym st)) (dh (p_e p) re) 1) (dh (p_e p) rs) 1) (dh (p_s p) re) 1.
Proof. exact init_finish_done. Qed.
Print Assumptions c01_noise_remote_is_signer_initiator.

(* the same for the responder and message 3 *)
Theorem c01_noise_remote_is_signer_responder : forall p st incoming id key st',
  resp_finish p st incoming = Done id key st' ->
  exists cs cp rest rs r ext,
    incoming = [cs; cp] :: rest /\
    read_m3 p st [cs; cp] = Some (st', rs, NPayload (NPub id) (NSig id (NCat PREFIX rs) r) ext) /\
    key = NPub id /\ hs_rs st' = Some rs /\
    (p_check p = true -> p_expect p = Some id) /\
    ck (hs_sym st') = NKdf (ck (hs_sym st)) (dh (p_e p) rs) 1.
Proof. exact resp_finish_done. Qed.
Print Assumptions c01_noise_remote_is_signer_responder.

(* the signature rule is an ideal scheme: one value verifies for exactly one
   key and one message (so a signature over another static key, under another
   key, or without the prefix never passes) *)
Theorem c01_signature_exact : forall k m k' m' s,
  sig_verify k m s = true -> sig_verify k' m' s = true -> k = k' /\ m = m'.
Proof. exact noise_sig_exact. Qed.
Print Assumptions c01_signature_exact.

(* checkPeerID as computed by Transport / SessionTransport for the four settings:
   outbound: always, unless DisablePeerIDCheck; inbound: iff a peer was named and
   the check was not disabled.  Hence a named, not disabled expectation is always checked. *)
Theorem c01_check_peer_id_table : forall sd,
  check_peer_id true sd = negb (sd_session sd && sd_disable sd) /\
  check_peer_id false sd =
    negb (sd_session sd && sd_disable sd) && (match sd_expect sd with Some _ => true | None => false end) /\
  (forall x initiator, names_peer sd = Some x -> check_peer_id initiator sd = true).
Proof.
  intros sd. repeat split.
  - unfold check_peer_id. destruct (sd_session sd), (sd_disable sd); reflexivity.
  - unfold check_peer_id. destruct (sd_session sd), (sd_disable sd), (sd_expect sd); reflexivity.
  - intros x i H. apply (names_peer_check i) in H. apply H.
Qed.
Print Assumptions c01_check_peer_id_table.

(* expected_peer_enforced: in EVERY scenario (not only well-formed ones), in
   both roles, an endpoint that named its peer and did not disable the check
   completes only with that peer *)
Theorem c01_noise_expected_peer_enforced : forall sc n n' rI rR,
  run_session sc n n' = (rI, rR) ->
  (forall id k st x, rI = Done id k st -> names_peer (sc_i sc) = Some x -> id = idn x) /\
  (forall id k st x, rR = Done id k st -> names_peer (sc_r sc) = Some x -> id = idn x).
Proof. exact run_session_expected. Qed.
Print Assumptions c01_noise_expected_peer_enforced.

(* mitm_edit_aborts: over the whole finite grammar (edit kinds x components x
   messages x both roles x prologue pairings x expected-peer settings, and the
   forged payloads x key roles A, B, E), no endpoint that received edited,
   withheld, replayed or forged data completes, in either of the two sessions *)
Theorem c01_noise_mitm_edit_aborts : forall sc initiator,
  wf_scenario sc = true ->
  received_edited (sc_edit sc) initiator = true \/ received_forged sc initiator = true ->
  failed (side_res (fst (run_scenario sc)) initiator) = true /\
  failed (side_res (snd (run_scenario sc)) initiator) = true.
Proof.
  intros sc i H Hr. apply scenario_ok_wf in H. unfold scenario_ok in H.
  repeat (apply andb_true_iff in H; destruct H as [H ?]).
  match goal with E : edit_aborts_b sc = true |- _ => rename E into HE end.
  unfold edit_aborts_b in HE. destruct (run_scenario sc) as [s1 s2]. cbn [fst snd].
  rewrite forallb_forall in HE.
  assert (Hi : In i bools) by (destruct i; cbn; auto).
  specialize (HE i Hi).
  assert (Hb : (received_edited (sc_edit sc) i || received_forged sc i)%bool = true)
    by (apply orb_true_iff; exact Hr).
  rewrite Hb in HE. cbn [implb] in HE. apply andb_true_iff in HE. exact HE.
Qed.
Print Assumptions c01_noise_mitm_edit_aborts.

(* a completed endpoint reports exactly the identity key the other endpoint holds *)
Theorem c01_noise_completed_reports_remote_key : forall sc,
  wf_scenario sc = true -> identity_b sc = true.
Proof.
  intros sc H. apply scenario_ok_wf in H. unfold scenario_ok in H.
  repeat (apply andb_true_iff in H; destruct H as [H ?]). assumption.
Qed.
Print Assumptions c01_noise_completed_reports_remote_key.

(* undisturbed honest runs complete exactly when the prologues are equal and the
   expected-peer settings admit the remote (so the theorems above are not
   vacuous), and different prologues always abort both sides *)
Theorem c01_noise_undisturbed_and_prologue : forall sc,
  wf_scenario sc = true -> undisturbed_b sc = true /\ prologue_b sc = true.
Proof.
  intros sc H. apply scenario_ok_wf in H. unfold scenario_ok in H.
  repeat (apply andb_true_iff in H; destruct H as [H ?]). split; assumption.
Qed.
Print Assumptions c01_noise_undisturbed_and_prologue.

(* ---- non-vacuity ---------------------------------------------------------------- *)
Example honest_run_completes :
  let sc := mkSc (mkSide KA false false (Some KB) P0) (mkSide KB false false None P0) ENone None in
  wf_scenario sc = true /\
  map obs_of_res [fst (fst (run_scenario sc)); snd (fst (run_scenario sc))] = [mkObs 0 2 2; mkObs 0 1 1].
Proof. vm_compute. split; reflexivity. Qed.

(* the monitor rejects: an initiator completing on a flipped message 2 *)
Example monitor_rejects_completion_on_edited_data :
  monitor_case [1; 0;0; 1;0;0;2;0; 2;0;0;0;0; 1;2;1;0;40; 0;0;0;0;0; 1; 0;2;2; 5;0;0]%Z <> [].
Proof. vm_compute. discriminate. Qed.

(* ... an endpoint reporting a peer whose key the remote does not hold (forged claim accepted) *)
Example monitor_rejects_forged_identity :
  monitor_case [1; 0;0; 1;0;0;2;0; 3;1;1;0;0; 0;0;0;0;0; 1;0;2;3;0; 1; 0;2;2; 9;0;0]%Z <> [].
Proof. vm_compute. discriminate. Qed.

(* ... a responder that named A, completing with E *)
Example monitor_rejects_unexpected_peer :
  monitor_case [1; 0;0; 3;1;1;0;0; 2;0;0;1;0; 0;0;0;0;0; 1;1;3;3;0; 1; 9;0;0; 0;3;3]%Z <> [].
Proof. vm_compute. discriminate. Qed.

(* C01 — the finite scenario language (Noise): enumeration of every well-formed
   scenario, completeness of the enumeration, and the boolean checks that are
   evaluated over all of it by vm_compute. *)
From Coq Require Import List NArith ZArith Bool Lia.
From Verif Require Import lib.Wire c01.Model c01.Spec c01.Proofs.
Import ListNotations.

Definition bools := [false; true].
Definition expects : list (option idk) := [None; Some KA; Some KB; Some KE].
Definition prols := [P0; P1; P2].
Definition msgs := [M1; M2; M3].

(* honest endpoints holding identity key k *)
Definition hsides (k : idk) : list side :=
  map (fun e => mkSide k false false e P0) expects ++
  flat_map (fun d => flat_map (fun e => map (fun p => mkSide k true d e p) prols) expects) bools.

Definition fsides : list side := map (fun p => mkSide KE true true None p) prols.

Definition edits_of (m : msgix) : list edit :=
  map (EJunk m) (seq 0 (ncomp m)) ++
  flat_map (fun k => [ETrunc m k false; ETrunc m k true]) (seq 0 (ncomp m)) ++
  [EExtend m; EDrop m; EGrow m; EDup m; ESplice m].

Definition all_edits : list edit := ENone :: flat_map edits_of msgs.

Definition aliases := [AUnknownField; AReordered; ANonMinimal].
Definition claims := [ClKey KA; ClKey KB; ClKey KE; ClJunk; ClEmpty; ClNoPayload; ClNotProto] ++
                     flat_map (fun k => map (ClAlias k) aliases) [KA; KB; KE].
Definition fsigs := [FsBy KE SmGood; FsBy KE SmOtherStatic; FsBy KE SmNoPrefix;
                     FsBy KA SmOtherStatic; FsBy KB SmOtherStatic; FsJunk; FsEmpty].
Definition earlies (i : bool) : list bool := if i then [false; true] else [false].
Definition forges : list forge :=
  flat_map (fun i => flat_map (fun c => flat_map (fun s => map (mkForge i c s) (earlies i)) fsigs) claims) bools.

Definition honest_scenarios : list scenario :=
  flat_map (fun si => flat_map (fun sr => map (fun e => mkSc si sr e None None) all_edits) (hsides KB)) (hsides KA).

Definition forged_scenarios : list scenario :=
  flat_map (fun f =>
    if f_init f
    then flat_map (fun si => map (fun sr => mkSc si sr ENone (Some f) None) (hsides KB)) fsides
    else flat_map (fun si => map (fun sr => mkSc si sr ENone (Some f) None) fsides) (hsides KA)) forges.

(* a panic at any stage of either endpoint's runHandshake *)
Definition all_stages : list fstage := [FWrite 0; FWrite 1; FRead 0; FRead 1; FSend; FReceived].
Definition all_faults : list fault := flat_map (fun i => map (mkFault i) all_stages) bools.
Definition fault_scenarios : list scenario :=
  flat_map (fun f => flat_map (fun si => map (fun sr => mkSc si sr ENone None (Some f)) (hsides KB)) (hsides KA)) all_faults.

Definition all_scenarios : list scenario := honest_scenarios ++ forged_scenarios ++ fault_scenarios.

Ltac in_list := solve [repeat (first [left; reflexivity | right])].

Lemma wf_side_in : forall k s, wf_side k s = true -> In s (hsides k).
Proof.
  intros k s H.
  destruct k; destruct s as [[] [] [] [[]|] []]; cbn in H; try discriminate H; cbn; in_list.
Qed.

Lemma forger_side_in : forall s, forger_side s = true -> In s fsides.
Proof.
  intros s H. destruct s as [[] [] [] [[]|] []]; cbn in H; try discriminate H; cbn; in_list.
Qed.

Lemma wf_edit_in : forall e, wf_edit e = true -> In e all_edits.
Proof.
  intros e H.
  destruct e as [|m c|m k p|m|m|m|m|m]; try destruct m;
    try (destruct c as [|[|[|c]]]); try (destruct k as [|[|[|k]]]); try destruct p;
    cbn in H; try discriminate H; cbn; in_list.
Qed.

Lemma claim_in : forall c, In c claims.
Proof. intros c. destruct c as [[]| | |[] []| |]; cbn; in_list. Qed.

Lemma wf_forge_in : forall f, wf_forge f = true -> In f forges.
Proof.
  intros [i c s e] H. unfold forges. apply in_flat_map. exists i. split; [destruct i; cbn; auto|].
  apply in_flat_map. exists c. split; [apply claim_in|].
  unfold wf_forge in H. cbn [f_sig f_early f_init] in H. apply andb_true_iff in H. destruct H as [H He].
  apply in_flat_map. exists s. split.
  - destruct s as [[] []| |]; cbn in H; try discriminate H; cbn; in_list.
  - apply in_map_iff. exists e. split; [reflexivity|].
    destruct i, e; cbn in He; try discriminate He; cbn; auto.
Qed.

Lemma wf_fault_in : forall sc f, wf_fault sc f = true -> In f all_faults.
Proof.
  intros sc [i st] H. unfold wf_fault in H. apply andb_true_iff in H. destruct H as [_ H].
  cbn [ft_stage] in H.
  destruct i; destruct st as [k|k| |]; try (destruct k as [|[|k]]; cbn in H; try discriminate H); cbn; in_list.
Qed.

Lemma all_scenarios_complete : forall sc, wf_scenario sc = true -> In sc all_scenarios.
Proof.
  intros [si sr e f ft] H. unfold wf_scenario in H. cbn [sc_forge sc_i sc_r sc_edit sc_fault] in H.
  unfold all_scenarios. destruct f as [f|].
  - apply in_or_app. right. apply in_or_app. left.
    apply andb_true_iff in H. destruct H as [H Hs]. apply andb_true_iff in H. destruct H as [H Hft].
    apply andb_true_iff in H. destruct H as [He Hf].
    destruct e; try discriminate He. destruct ft; [discriminate Hft|].
    unfold forged_scenarios. apply in_flat_map. exists f. split; [apply wf_forge_in, Hf|].
    destruct (f_init f); apply andb_true_iff in Hs; destruct Hs as [H1 H2].
    + apply in_flat_map. exists si. split; [apply forger_side_in, H1|].
      apply in_map_iff. exists sr. split; [reflexivity | apply wf_side_in, H2].
    + apply in_flat_map. exists si. split; [apply wf_side_in, H1|].
      apply in_map_iff. exists sr. split; [reflexivity | apply forger_side_in, H2].
  - apply andb_true_iff in H. destruct H as [H Hft]. apply andb_true_iff in H. destruct H as [H He].
    apply andb_true_iff in H. destruct H as [H1 H2]. destruct ft as [ft|].
    + apply in_or_app. right. apply in_or_app. right.
      assert (Ee : e = ENone).
      { unfold wf_fault in Hft. apply andb_true_iff in Hft. destruct Hft as [Hft _].
        cbn [sc_edit] in Hft. destruct e; try discriminate Hft. reflexivity. }
      subst e. unfold fault_scenarios. apply in_flat_map. exists ft. split; [eapply wf_fault_in, Hft|].
      apply in_flat_map. exists si. split; [apply wf_side_in, H1|].
      apply in_map_iff. exists sr. split; [reflexivity | apply wf_side_in, H2].
    + apply in_or_app. left.
      unfold honest_scenarios. apply in_flat_map. exists si. split; [apply wf_side_in, H1|].
      apply in_flat_map. exists sr. split; [apply wf_side_in, H2|].
      apply in_map_iff. exists e. split; [reflexivity | apply wf_edit_in, He].
Qed.

(* ---- boolean checks evaluated on every scenario ---------------------------------------------- *)
Definition failed (r : res) : bool := match r with Fail _ => true | Done _ _ _ => false end.
Definition side_res (x : res * res) (initiator : bool) : res := if initiator then fst x else snd x.

(* no endpoint that received edited / replayed / forged data completes, in either session *)
Definition edit_aborts_b (sc : scenario) : bool :=
  let '(s1, s2) := run_scenario sc in
  forallb (fun i => implb (received_edited (sc_edit sc) i || received_forged sc i)
                          (failed (side_res s1 i) && failed (side_res s2 i))) bools.

(* a completed endpoint reports the identity key the other endpoint holds *)
Definition done_with (r : res) (k : idk) : bool :=
  match r with Done id key _ => N.eqb id (idn k) && nt_eqb key (NPub (idn k)) | Fail _ => true end.
Definition identity_b (sc : scenario) : bool :=
  let '(s1, s2) := run_scenario sc in
  done_with (fst s1) (sd_id (sc_r sc)) && done_with (snd s1) (sd_id (sc_i sc)) &&
  done_with (fst s2) (sd_id (sc_r sc)) && done_with (snd s2) (sd_id (sc_i sc)).

Definition prol_eqb (a b : prol) : bool :=
  match a, b with P0, P0 | P1, P1 | P2, P2 => true | _, _ => false end.

(* the side admits a remote that proves identity k *)
Definition admits (initiator : bool) (sd : side) (k : idk) : bool :=
  negb (check_peer_id initiator sd) ||
  match sd_expect sd with Some x => idk_eqb x k | None => false end.

(* undisturbed honest runs: who completes is exactly determined by the
   prologues and the expected-peer settings *)
Definition undisturbed_b (sc : scenario) : bool :=
  match sc_forge sc, sc_edit sc, sc_fault sc with
  | None, ENone, None =>
      let '(rI, rR) := fst (run_scenario sc) in
      let p := prol_eqb (sd_prologue (sc_i sc)) (sd_prologue (sc_r sc)) in
      let aI := admits true (sc_i sc) KB in
      let aR := admits false (sc_r sc) KA in
      Bool.eqb (negb (failed rI)) (p && aI) && Bool.eqb (negb (failed rR)) (p && aI && aR)
  | _, _, _ => true
  end.

(* different prologues: nobody completes, whatever else happens *)
Definition prologue_b (sc : scenario) : bool :=
  let '(s1, s2) := run_scenario sc in
  prol_eqb (sd_prologue (sc_i sc)) (sd_prologue (sc_r sc)) ||
  (failed (fst s1) && failed (snd s1) && failed (fst s2) && failed (snd s2)).

Definition monitor_b (sc : scenario) : bool :=
  match monitor_scenario sc with [] => true | _ => false end.

Definition scenario_ok (sc : scenario) : bool :=
  monitor_b sc && edit_aborts_b sc && identity_b sc && undisturbed_b sc && prologue_b sc.

Lemma all_scenarios_ok : forallb scenario_ok all_scenarios = true.
Proof. vm_compute. reflexivity. Qed.

Lemma scenario_ok_wf : forall sc, wf_scenario sc = true -> scenario_ok sc = true.
Proof.
  intros sc H. pose proof all_scenarios_ok as A. rewrite forallb_forall in A.
  apply A, all_scenarios_complete, H.
Qed.

(* C01 — lemmas for the TLS part and the swarm's dial re-checks. *)
From Coq Require Import List NArith ZArith Bool Lia.
From Verif Require Import lib.Wire c01.Model c01.ModelTLS c01.Spec c01.Proofs.
Import ListNotations.
Local Open Scope N_scope.

(* ---- PubKeyFromCertChain --------------------------------------------------------------------- *)
Lemma pubkey_from_chain_sound : forall chain pub,
  pubkey_from_chain chain = inl pub ->
  exists c id r,
    chain = [c] /\ pub = NPub id /\
    find_libp2p (c_exts c) = Some (XSigned (NPub id) (NSig id (NCat TLSPREFIX (certpub (c_key c))) r)) /\
    c_time_ok c = true /\ existsb other_critical (c_exts c) = false /\
    self_signed c = true.
Proof.
  intros chain pub H. unfold pubkey_from_chain in H.
  destruct chain as [|c [|]]; try discriminate.
  destruct (find_libp2p (c_exts c)) as [v|] eqn:Ef; [|discriminate].
  destruct (cert_verify c) eqn:Ev; cbn [negb] in H; [|discriminate].
  destruct v as [p sg|]; [|discriminate].
  destruct p; cbn [id_of_key] in H; try discriminate.
  destruct (sig_verify (NPub k) (NCat TLSPREFIX (certpub (c_key c))) sg) eqn:Es; [|discriminate].
  inversion H; subst. apply sig_verify_inv in Es. destruct Es as [r ->].
  unfold cert_verify in Ev. apply andb_true_iff in Ev. destruct Ev as [Ev E3].
  apply andb_true_iff in Ev. destruct Ev as [E1 E2]. apply negb_true_iff in E2.
  exists c, k, r. repeat split; try assumption; try reflexivity.
Qed.

Lemma certifies_of_sound : forall chain pub,
  pubkey_from_chain chain = inl pub ->
  exists id, pub = NPub id /\ certifies chain id = true /\ self_signature_defect chain = 0%Z.
Proof.
  intros chain pub H. apply pubkey_from_chain_sound in H.
  destruct H as [c [id [r [-> [-> [Hf [_ [_ Hs]]]]]]]]. exists id. split; [reflexivity|]. split.
  - unfold certifies. rewrite Hf. cbn [nt_eqb]. rewrite !N.eqb_refl. cbn [andb].
    apply nt_eqb_refl.
  - unfold self_signed in Hs. apply andb_true_iff in Hs. destruct Hs as [H1 H2].
    unfold self_signature_defect. rewrite H1, H2. reflexivity.
Qed.

(* what certifies means, spelled out *)
Lemma certifies_inv : forall chain k, certifies chain k = true ->
  exists c r, chain = [c] /\
    find_libp2p (c_exts c) = Some (XSigned (NPub k) (NSig k (NCat TLSPREFIX (certpub (c_key c))) r)).
Proof.
  intros chain k H. unfold certifies in H. destruct chain as [|c [|]]; try discriminate.
  destruct (find_libp2p (c_exts c)) as [[pub sg|]|] eqn:Ef; try discriminate.
  apply andb_true_iff in H. destruct H as [H1 H2]. apply nt_eqb_true in H1. subst.
  destruct sg; try discriminate. apply andb_true_iff in H2. destruct H2 as [H2 H3].
  apply N.eqb_eq in H2. apply nt_eqb_true in H3. subst. exists c. eexists. split; [reflexivity|exact Ef].
Qed.

(* ---- the VerifyPeerCertificate callback -------------------------------------------------------- *)
Lemma verify_peer_sound : forall remote raw pub,
  verify_peer remote raw = inl pub ->
  exists id, pub = NPub id /\ certifies raw id = true /\
             self_signature_defect raw = 0%Z /\
             forallb parse_ok raw = true /\
             (forall r, remote = Some r -> r = id).
Proof.
  intros remote raw pub H. unfold verify_peer in H.
  destruct (forallb parse_ok raw) eqn:Ep; cbn [negb] in H; [|discriminate].
  destruct (pubkey_from_chain raw) as [pk|e] eqn:Ek; [|discriminate].
  destruct (certifies_of_sound _ _ Ek) as [id [-> [Hc Hs]]].
  destruct remote as [r|].
  - cbn [id_of_key] in H. destruct (r =? id) eqn:Er; [|discriminate]. inversion H; subst.
    apply N.eqb_eq in Er. exists id. repeat split; try assumption. intros r' E. inversion E; subst. reflexivity.
  - inversion H; subst. exists id. repeat split; try assumption. intros r E. discriminate.
Qed.

(* ---- the handshake ---------------------------------------------------------------------------------- *)
Lemma tls_endpoint_done : forall me other ed pf id key,
  tls_endpoint me other ed pf = TDone id key ->
  ed = false /\ pf = false /\ key = NPub id /\ t_holds other = true /\
  certifies (t_chain other) id = true /\
  self_signature_defect (t_chain other) = 0%Z /\
  (forall r, t_expect me = Some r -> r = id).
Proof.
  intros me other ed pf id key H. unfold tls_endpoint in H.
  destruct ed; [discriminate|]. destruct pf; [discriminate|]. cbn [orb] in H.
  destruct (verify_peer (t_expect me) (t_chain other)) as [pub|e] eqn:Ev; [|discriminate].
  destruct (t_holds other) eqn:Eh; cbn [negb] in H; [|discriminate].
  apply verify_peer_sound in Ev. destruct Ev as [id' [-> [Hc [Hs [_ He]]]]].
  cbn [id_of_key] in H. inversion H; subst. repeat split; assumption.
Qed.

(* ---- the monitor accepts the model's trace --------------------------------------------------------- *)
(* ground truth used by the monitor: the other endpoint holds identity key [oid].
   Unforgeability, stated for the endpoint: if it presents a chain that certifies
   k and it holds the leaf certificate's private key, then k is its own key
   (nobody else can produce k's signature over a certificate key of theirs). *)
Definition presents_only_own (sd : tside) (oid : Z) : Prop :=
  forall k, certifies (t_chain sd) k = true -> t_holds sd = true -> Z.of_N k = oid.

Lemma judge_tls_side_model : forall me other oid ed pf ed_mon wp other_res,
  presents_only_own other oid ->
  (ed_mon = true -> ed = true) ->
  judge_tls_side me other oid ed_mon (tobs_of (tls_endpoint me other ed pf) other_res wp) = [].
Proof.
  intros me other oid ed pf ed_mon wp other_res Hown Hed.
  destruct (tls_endpoint me other ed pf) as [id key|c] eqn:E.
  2:{ reflexivity. }
  apply tls_endpoint_done in E. destruct E as [-> [-> [-> [Hh [Hc [D He]]]]]].
  unfold judge_tls_side, tobs_of. cbn [to_cls to_rid to_rkid id_of_key].
  cbn [Z.eqb negb]. rewrite Z.eqb_refl. cbn [orelse].
  rewrite (Hown id Hc Hh). rewrite Z.eqb_refl. cbn [orelse].
  assert (E3 : match t_expect me with
               | Some x => if (oid =? Z.of_N x)%Z then [] else [ERR_PROPERTY; 3%Z; oid; Z.of_N x]
               | None => [] end = []).
  { destruct (t_expect me) as [x|]; [|reflexivity]. rewrite (He x eq_refl).
    rewrite (Hown id Hc Hh). rewrite Z.eqb_refl. reflexivity. }
  rewrite E3. cbn [orelse].
  destruct ed_mon. { specialize (Hed eq_refl). discriminate. }
  cbn [orelse]. rewrite Hh. cbn [orelse].
  unfold judge_chain. rewrite <- (Hown id Hc Hh). rewrite N2Z.id. rewrite Hc. cbn [negb].
  rewrite D. reflexivity.
Qed.

(* ---- swarm ---------------------------------------------------------------------------------------------- *)
Lemma dial_addr_only_p : forall local p t r, dial_addr local p t = DConn r -> r = p /\ p <> local.
Proof.
  intros local p t r H. unfold dial_addr in H. destruct (local =? p) eqn:E; [discriminate|].
  destruct t as [|x]; [discriminate|]. destruct (x =? p) eqn:Ex; [|discriminate].
  inversion H; subst. apply N.eqb_eq in Ex. apply N.eqb_neq in E. split; congruence.
Qed.

Lemma dial_peer_only_p : forall local p t r, dial_peer local p t = DConn r -> r = p /\ p <> local.
Proof.
  intros local p t r H. unfold dial_peer in H. destruct (local =? p) eqn:E; [discriminate|].
  destruct t as [|x]; [discriminate|]. destruct (x =? p) eqn:Ex; [|discriminate].
  inversion H; subst. apply N.eqb_eq in Ex. apply N.eqb_neq in E. split; congruence.
Qed.

(* C01 — security handshakes authenticate the remote peer.  Part 1: Noise.
   Executable symbolic model of the Noise XX handshake as libp2p runs it:
     /repo/p2p/security/noise/handshake.go   runHandshake, generateHandshakePayload,
                                             handleRemoteHandshakePayload
     /repo/p2p/security/noise/transport.go, session_transport.go   (checkPeerID)
     github.com/flynn/noise state.go         SymmetricState / HandshakeState for XX
   Cryptography is symbolic (DESIGN.md section 7): byte strings are terms of a
   free algebra, hashing / HKDF / AEAD / DH / signatures are constructors, and
   the only way to open an AEAD box or check a signature is the computation rule
   below.  No proofs in this file. *)
From Coq Require Import List NArith Bool.
From Verif Require c08.Model.   (* crypto/pb PublicKey codec: parse_pubkey follows proto.Unmarshal byte for byte *)
Import ListNotations.
Local Open Scope N_scope.

(* ---- terms ---------------------------------------------------------------- *)
Inductive nt :=
| NB (n : N)                          (* public constant byte string number n *)
| NJunk (n : N)                       (* bytes that no honest computation produced (flipped, random) *)
| NEmpty                              (* the empty byte string *)
| NDhPub (x : N)                      (* X25519 public key of private scalar x *)
| NDh (x y : N)                       (* shared secret of scalars x and y, x <= y *)
| NDhX (x : N) (p : nt)               (* X25519(x, p) for a p that is not a known public key *)
| NH (h d : nt)                       (* SHA256(h || d) *)
| NKdf (ck ikm : nt) (i : N)          (* i-th output of HKDF(ck, ikm) *)
| NEnc (k : nt) (n : N) (ad pt : nt)  (* ChaChaPoly seal under key k, nonce n, associated data ad *)
| NPub (k : N)                        (* marshalled libp2p public key of identity key k (canonical: crypto.MarshalPublicKey) *)
| NKeyBytes (kb : list N)             (* any other concrete byte string put where a marshalled public key belongs *)
| NSig (k : N) (m : nt) (r : N)       (* signature by identity key k on m (r: randomness/encoding) *)
| NCat (a b : nt)                     (* a ++ b *)
| NPayload (key sig : nt) (ext : N).  (* protobuf NoiseHandshakePayload{identity_key, identity_sig, extensions} *)

Fixpoint nlist_eqb (a b : list N) : bool :=
  match a, b with
  | [], [] => true
  | x :: r, y :: t => (x =? y) && nlist_eqb r t
  | _, _ => false
  end.

Fixpoint nt_eqb (a b : nt) : bool :=
  match a, b with
  | NKeyBytes x, NKeyBytes y => nlist_eqb x y
  | NB x, NB y => x =? y
  | NJunk x, NJunk y => x =? y
  | NEmpty, NEmpty => true
  | NDhPub x, NDhPub y => x =? y
  | NDh x1 y1, NDh x2 y2 => (x1 =? x2) && (y1 =? y2)
  | NDhX x1 p1, NDhX x2 p2 => (x1 =? x2) && nt_eqb p1 p2
  | NH h1 d1, NH h2 d2 => nt_eqb h1 h2 && nt_eqb d1 d2
  | NKdf c1 k1 i1, NKdf c2 k2 i2 => nt_eqb c1 c2 && nt_eqb k1 k2 && (i1 =? i2)
  | NEnc k1 n1 a1 p1, NEnc k2 n2 a2 p2 => nt_eqb k1 k2 && (n1 =? n2) && nt_eqb a1 a2 && nt_eqb p1 p2
  | NPub x, NPub y => x =? y
  | NSig k1 m1 r1, NSig k2 m2 r2 => (k1 =? k2) && nt_eqb m1 m2 && (r1 =? r2)
  | NCat a1 b1, NCat a2 b2 => nt_eqb a1 a2 && nt_eqb b1 b2
  | NPayload k1 s1 e1, NPayload k2 s2 e2 => nt_eqb k1 k2 && nt_eqb s1 s2 && (e1 =? e2)
  | _, _ => false
  end.

(* public constants *)
Definition PROTO : nt := NB 1.    (* "Noise_XX_25519_ChaChaPoly_SHA256" (32 bytes: h = name) *)
Definition PREFIX : nt := NB 2.   (* payloadSigPrefix = "noise-libp2p-static-key:" *)

(* ---- ideal primitives as computation rules ---------------------------------- *)
(* X25519 *)
Definition dh (x : N) (pub : nt) : nt :=
  match pub with
  | NDhPub y => if x <=? y then NDh x y else NDh y x
  | p => NDhX x p
  end.

(* crypto.PubKey.Verify: true exactly for a signature issued by that key on that message *)
Definition sig_verify (pub msg sg : nt) : bool :=
  match pub, sg with
  | NPub k, NSig k' m _ => (k =? k') && nt_eqb msg m
  | _, _ => false
  end.

(* which (key, message) a signature value was issued for *)
Definition sig_origin (sg : nt) : option (nt * nt) :=
  match sg with NSig k m _ => Some (NPub k, m) | _ => None end.

(* ---- flynn/noise SymmetricState ------------------------------------------------ *)
Record sym := mkSym { ck : nt; hh : nt; key : option nt; nonce : N }.

Definition mix_hash (s : sym) (d : nt) : sym := mkSym (ck s) (NH (hh s) d) (key s) (nonce s).

(* MixKey: ck, k = HKDF(ck, ikm); n = 0 *)
Definition mix_key (s : sym) (ikm : nt) : sym :=
  mkSym (NKdf (ck s) ikm 1) (hh s) (Some (NKdf (ck s) ikm 2)) 0.

(* InitializeSymmetric(protocol name) ; MixHash(prologue) *)
Definition init_sym (prologue : nt) : sym := mix_hash (mkSym PROTO PROTO None 0) prologue.

(* EncryptAndHash *)
Definition encrypt_and_hash (s : sym) (pt : nt) : sym * nt :=
  match key s with
  | None => (mix_hash s pt, pt)
  | Some k =>
      let c := NEnc k (nonce s) (hh s) pt in
      (mkSym (ck s) (NH (hh s) c) (key s) (nonce s + 1), c)
  end.

(* DecryptAndHash: the box opens only under the same key, nonce and associated data *)
Definition decrypt_and_hash (s : sym) (c : nt) : option (sym * nt) :=
  match key s with
  | None => Some (mix_hash s c, c)
  | Some k =>
      match c with
      | NEnc k' n' ad pt =>
          if nt_eqb k k' && (n' =? nonce s) && nt_eqb ad (hh s)
          then Some (mkSym (ck s) (NH (hh s) c) (key s) (nonce s + 1), pt)
          else None
      | _ => None
      end
  end.

(* ---- a handshake participant ------------------------------------------------------ *)
(* Error classes as the harness reports them *)
Definition E_PEERID : N := 1.   (* sec.ErrPeerIDMismatch *)
Definition E_SIG    : N := 2.   (* "handshake signature invalid" / "error verifying signature" *)
Definition E_KEY    : N := 3.   (* payload or identity key does not unmarshal *)
Definition E_CRYPT  : N := 4.   (* hs.ReadMessage failed: short message, AEAD authentication *)
Definition E_IO     : N := 5.   (* the connection ended before the next message *)
Definition E_PANIC  : N := 8.   (* a panic inside runHandshake, recovered into "panic in Noise handshake" *)

(* where a fault (panic) strikes inside runHandshake: the k-th Write / Read on
   the insecure connection (one Write per handshake message sent, one Read per
   message received), or the early-data handler's Send / Received *)
Inductive fstage := FWrite (k : nat) | FRead (k : nat) | FSend | FReceived.
Definition fstage_eqb (a b : fstage) : bool :=
  match a, b with
  | FWrite x, FWrite y | FRead x, FRead y => Nat.eqb x y
  | FSend, FSend | FReceived, FReceived => true
  | _, _ => false
  end.

Record party := mkParty {
  p_e : N;                  (* ephemeral X25519 scalar *)
  p_s : N;                  (* static X25519 scalar (kp, fresh per session) *)
  p_prologue : nt;
  p_check : bool;           (* secureSession.checkPeerID *)
  p_expect : option N;      (* secureSession.remoteID as passed in: None = "" *)
  p_payload : nt;           (* what generateHandshakePayload produced *)
  p_early : nt;             (* the payload put into message 1: NEmpty for every honest endpoint (runHandshake sends nil) *)
  p_fault : option fstage   (* the stage of runHandshake at which something panics, if any *)
}.

Definition faulty (p : party) (s : fstage) : bool :=
  match p_fault p with Some x => fstage_eqb x s | None => false end.

(* generateHandshakePayload for an endpoint holding identity key k *)
Definition honest_payload (k s r ext : N) : nt :=
  NPayload (NPub k) (NSig k (NCat PREFIX (NDhPub s)) r) ext.

(* peer.IDFromPublicKey: identity key number k has peer ID k (injective: C08) *)
Definition id_of_key (pub : nt) : option N :=
  match pub with NPub k => Some k | _ => None end.

(* crypto.UnmarshalPublicKey: proto.Unmarshal into pb.PublicKey (c08's parse_pubkey: unknown
   fields skipped, any field order, non-minimal varints accepted), then the key for that
   (Type, Data).  Toy key material: identity key k is the Ed25519 (Type 1) key with Data = [k].
   The canonical serialization of key k is NPub k; every other serialization is an NKeyBytes. *)
Definition key_type_toy : N := 1.
Definition canonical_key_bytes (k : N) : list N := c08.Model.marshal_pubkey key_type_toy [k].
Definition unmarshal_key (t : nt) : option N :=
  match t with
  | NPub k => Some k
  | NKeyBytes b =>
      match c08.Model.parse_pubkey b with
      | Some (kt, [d]) => if kt =? key_type_toy then Some d else None
      | _ => None
      end
  | _ => None
  end.

(* handleRemoteHandshakePayload, line by line *)
Definition handle_payload (p : party) (payload remote_static : nt) : (N * nt) + N :=
  match payload with
  | NPayload idkey sg _ =>                       (* proto.Unmarshal *)
      match unmarshal_key idkey with             (* remotePubKey := UnmarshalPublicKey(bytes) ;            *)
      | None => inr E_KEY                        (* id := peer.IDFromPublicKey(remotePubKey): the ID of the *)
      | Some id =>                               (* KEY (its canonical serialization), not of the bytes      *)
          if p_check p && negb (match p_expect p with Some x => x =? id | None => false end)
          then inr E_PEERID                      (* s.checkPeerID && s.remoteID != id *)
          else if sig_verify (NPub id) (NCat PREFIX remote_static) sg
               then inl (id, NPub id)            (* s.remoteID = id ; s.remoteKey = remotePubKey *)
               else inr E_SIG
      end
  | _ => inr E_KEY
  end.

(* HandshakeState: symmetric state, re, rs *)
Record hstate := mkHs { hs_sym : sym; hs_re : nt; hs_rs : option nt }.

Definition msg := list nt.

(* -> e   (payload nil; a malicious initiator may put anything there: the responder's stage 0
   reads the message and ignores its payload) *)
Definition write_m1 (p : party) : hstate * msg :=
  let s1 := mix_hash (init_sym (p_prologue p)) (NDhPub (p_e p)) in
  let '(s2, c) := encrypt_and_hash s1 (p_early p) in
  (mkHs s2 NEmpty None, [NDhPub (p_e p); c]).

Definition read_m1 (p : party) (m : msg) : option hstate :=
  match m with
  | [re; pl] =>
      let s1 := mix_hash (init_sym (p_prologue p)) re in
      match decrypt_and_hash s1 pl with
      | Some (s2, _) => Some (mkHs s2 re None)
      | None => None
      end
  | _ => None
  end.

(* <- e, ee, s, es  + payload   (written by the responder) *)
Definition write_m2 (p : party) (st : hstate) : hstate * msg :=
  let s1 := mix_hash (hs_sym st) (NDhPub (p_e p)) in
  let s2 := mix_key s1 (dh (p_e p) (hs_re st)) in
  let '(s3, cs) := encrypt_and_hash s2 (NDhPub (p_s p)) in
  let s4 := mix_key s3 (dh (p_s p) (hs_re st)) in
  let '(s5, cp) := encrypt_and_hash s4 (p_payload p) in
  (mkHs s5 (hs_re st) (hs_rs st), [NDhPub (p_e p); cs; cp]).

(* read by the initiator: new state and the decrypted payload *)
Definition read_m2 (p : party) (st : hstate) (m : msg) : option (hstate * nt * nt) :=
  match m with
  | [re; cs; cp] =>
      let s1 := mix_hash (hs_sym st) re in
      let s2 := mix_key s1 (dh (p_e p) re) in
      match decrypt_and_hash s2 cs with
      | None => None
      | Some (s3, rs) =>
          let s4 := mix_key s3 (dh (p_e p) rs) in
          match decrypt_and_hash s4 cp with
          | None => None
          | Some (s5, pl) => Some (mkHs s5 re (Some rs), rs, pl)   (* rs = hs.PeerStatic() *)
          end
      end
  | _ => None
  end.

(* -> s, se  + payload   (written by the initiator) *)
Definition write_m3 (p : party) (st : hstate) : hstate * msg :=
  let '(s1, cs) := encrypt_and_hash (hs_sym st) (NDhPub (p_s p)) in
  let s2 := mix_key s1 (dh (p_s p) (hs_re st)) in
  let '(s3, cp) := encrypt_and_hash s2 (p_payload p) in
  (mkHs s3 (hs_re st) (hs_rs st), [cs; cp]).

Definition read_m3 (p : party) (st : hstate) (m : msg) : option (hstate * nt * nt) :=
  match m with
  | [cs; cp] =>
      match decrypt_and_hash (hs_sym st) cs with
      | None => None
      | Some (s1, rs) =>
          let s2 := mix_key s1 (dh (p_e p) rs) in
          match decrypt_and_hash s2 cp with
          | None => None
          | Some (s3, pl) => Some (mkHs s3 (hs_re st) (Some rs), rs, pl)
          end
      end
  | _ => None
  end.

(* ---- runHandshake: both roles, against a network ---------------------------------- *)
Inductive res :=
| Done (id : N) (idkey : nt) (st : hstate)   (* completed: remoteID, remoteKey, final handshake state *)
| Fail (cls : N).

(* runHandshake's deferred recover() turns a panic into the error "panic in Noise
   handshake": a fault at any stage is an error outcome, never a completed session *)

(* initiator, stages 1 and 2: reads the next message of its queue as message 2
   (its first Read), handles the payload, calls the early-data handler's
   Received and Send, writes message 3 (its second Write) *)
Definition init_finish (p : party) (st : hstate) (q : list msg) : res * option msg :=
  if faulty p (FRead 0) then (Fail E_PANIC, None) else
  match q with
  | [] => (Fail E_IO, None)
  | y :: _ =>
      match read_m2 p st y with
      | None => (Fail E_CRYPT, None)
      | Some (st2, rs, pl) =>
          match handle_payload p pl rs with
          | inr c => (Fail c, None)
          | inl (id, k) =>
              if faulty p FReceived || faulty p FSend || faulty p (FWrite 1) then (Fail E_PANIC, None)
              else let '(st3, m3) := write_m3 p st2 in (Done id k st3, Some m3)
          end
      end
  end.

(* responder, stage 2: reads the next message of its queue as message 3 (its
   second Read), handles the payload, calls the early-data handler's Received *)
Definition resp_finish (p : party) (st : hstate) (q : list msg) : res :=
  if faulty p (FRead 1) then Fail E_PANIC else
  match q with
  | [] => Fail E_IO
  | z :: _ =>
      match read_m3 p st z with
      | None => Fail E_CRYPT
      | Some (st2, rs, pl) =>
          match handle_payload p pl rs with
          | inr c => Fail c
          | inl (id, k) => if faulty p FReceived then Fail E_PANIC else Done id k st2
          end
      end
  end.

Inductive msgix := M1 | M2 | M3.
Definition msgix_eqb (a b : msgix) : bool :=
  match a, b with M1, M1 | M2, M2 | M3, M3 => true | _, _ => false end.

(* [net i m]: what the network delivers to the receiver in place of message i.
   A party that fails closes the connection: the other side's next read ends
   with an I/O error unless something is still queued for it. *)
Definition run_pair (pi pr : party) (net : msgix -> msg -> list msg) : res * res :=
  let '(sI1, m1) := write_m1 pi in
  if faulty pi (FWrite 0) then (Fail E_PANIC, if faulty pr (FRead 0) then Fail E_PANIC else Fail E_IO) else
  if faulty pr (FRead 0) then (fst (init_finish pi sI1 []), Fail E_PANIC) else
  match net M1 m1 with
  | [] => (Fail E_IO, Fail E_IO)
  | x :: qR =>
      match read_m1 pr x with
      | None => (Fail E_IO, Fail E_CRYPT)
      | Some sR1 =>
          (* stage 1 of the responder: the handler's Send, then message 2 (its first Write) *)
          if faulty pr FSend || faulty pr (FWrite 0) then (fst (init_finish pi sI1 []), Fail E_PANIC) else
          let '(sR2, m2) := write_m2 pr sR1 in
          match init_finish pi sI1 (net M2 m2) with
          | (rI, None) => (rI, resp_finish pr sR2 qR)
          | (rI, Some m3) => (rI, resp_finish pr sR2 (qR ++ net M3 m3))
          end
      end
  end.

(* the three messages of an undisturbed run (None: the run does not get that far) *)
Definition transcript (pi pr : party) (i : msgix) : option msg :=
  let '(sI1, m1) := write_m1 pi in
  match i with
  | M1 => Some m1
  | _ =>
      match read_m1 pr m1 with
      | None => None
      | Some sR1 =>
          let '(sR2, m2) := write_m2 pr sR1 in
          match i with
          | M2 => Some m2
          | _ => snd (init_finish pi sI1 [m2])
          end
      end
  end.

(* ---- the finite scenario language the harness exercises ------------------------------ *)
Inductive idk := KA | KB | KE.                  (* honest A, honest B, adversary E *)
Definition idn (k : idk) : N := match k with KA => 1 | KB => 2 | KE => 3 end.
Inductive prol := P0 | P1 | P2.                 (* nil prologue, two different non-empty ones *)
Definition prol_term (p : prol) : nt := match p with P0 => NEmpty | P1 => NB 101 | P2 => NB 102 end.

(* how one endpoint was set up *)
Record side := mkSide {
  sd_id : idk;                 (* the identity private key the endpoint holds *)
  sd_session : bool;           (* false: Transport.Secure*, true: SessionTransport.Secure* *)
  sd_disable : bool;           (* DisablePeerIDCheck() *)
  sd_expect : option idk;      (* the peer.ID argument p; None = "" *)
  sd_prologue : prol
}.

(* transport.go / session_transport.go: the checkPeerID argument of newSecureSession *)
Definition check_peer_id (initiator : bool) (sd : side) : bool :=
  let named := match sd_expect sd with Some _ => true | None => false end in
  if initiator
  then (if sd_session sd then negb (sd_disable sd) else true)
  else (if sd_session sd then negb (sd_disable sd) && named else named).

(* man-in-the-middle edits of the wire; components are numbered from 0:
   message 1 = [e ; payload(plain, empty)], 2 = [e ; enc s ; enc payload], 3 = [enc s ; enc payload] *)
Inductive edit :=
| ENone
| EJunk (m : msgix) (c : nat)                   (* some byte(s) of component c changed *)
| ETrunc (m : msgix) (keep : nat) (partial : bool)  (* cut after [keep] whole components (+ a partial one) *)
| EExtend (m : msgix)                           (* bytes appended *)
| EDrop (m : msgix)
| EGrow (m : msgix)                             (* length prefix enlarged: the receiver starves *)
| EDup (m : msgix)
| ESplice (m : msgix).                          (* replaced by the same message of a second session *)

(* a cooperating malicious endpoint: what it puts into its handshake payload *)
(* non-canonical but valid serializations of a public key: an unknown field appended, the two
   fields in the other order, the Type varint in non-minimal form *)
Inductive alias := AUnknownField | AReordered | ANonMinimal.
(* ClNoPayload: the whole handshake payload is the empty byte string (a remote that runs plain Noise XX
   and sends no libp2p payload at all); ClNotProto: payload bytes that are not a protobuf message.
   In both the signature choice is immaterial. *)
Inductive claim := ClKey (k : idk) | ClJunk | ClEmpty | ClAlias (k : idk) (a : alias) | ClNoPayload | ClNotProto.
Inductive smsg := SmGood | SmOtherStatic | SmNoPrefix.
Inductive fsig := FsBy (k : idk) (m : smsg) | FsJunk | FsEmpty.
(* f_early: the forging INITIATOR additionally puts a payload into message 1 (where honest endpoints
   send none): its own identity key with a good signature over its static key *)
Record forge := mkForge { f_init : bool; f_claim : claim; f_sig : fsig; f_early : bool }.

(* a fault: something panics inside one endpoint's runHandshake *)
Record fault := mkFault { ft_init : bool; ft_stage : fstage }.

Record scenario := mkSc { sc_i : side; sc_r : side; sc_edit : edit; sc_forge : option forge;
                          sc_fault : option fault }.

Definition alias_bytes (a : alias) (k : N) : list N :=
  match a with
  | AUnknownField => canonical_key_bytes k ++ c08.Protobuf.put_varint_field 15 7
  | AReordered => c08.Protobuf.put_len_field 2 [k] ++ c08.Protobuf.put_varint_field 1 key_type_toy
  | ANonMinimal => [8; 128 + key_type_toy; 0] ++ c08.Protobuf.put_len_field 2 [k]
  end.

Definition forged_payload (f : forge) (s : N) : nt :=
  let k := match f_claim f with
           | ClKey k => NPub (idn k) | ClJunk => NJunk 910 | ClEmpty => NEmpty
           | ClAlias k a => NKeyBytes (alias_bytes a (idn k))
           | ClNoPayload | ClNotProto => NEmpty
           end in
  let sg := match f_sig f with
            | FsBy k SmGood => NSig (idn k) (NCat PREFIX (NDhPub s)) 1
            | FsBy k SmOtherStatic => NSig (idn k) (NCat PREFIX (NDhPub 99)) 1
            | FsBy k SmNoPrefix => NSig (idn k) (NDhPub s) 1
            | FsJunk => NJunk 911
            | FsEmpty => NEmpty
            end in
  match f_claim f with
  | ClNoPayload => NEmpty            (* zero-length payload: no identity key, no signature, no extensions *)
  | ClNotProto => NJunk 912
  | _ => NPayload k sg 7
  end.

(* the party of a side in session number [n] (fresh DH scalars per session) *)
Definition party_of (initiator : bool) (sd : side) (f : option forge) (ft : option fstage) (n : N) : party :=
  let e := 10 * n + (if initiator then 1 else 3) in
  let s := 10 * n + (if initiator then 2 else 4) in
  let pl := match f with
            | Some fg => if Bool.eqb (f_init fg) initiator then forged_payload fg s
                         else honest_payload (idn (sd_id sd)) s 1 7
            | None => honest_payload (idn (sd_id sd)) s 1 7
            end in
  let early := match f with
               | Some fg => if initiator && f_init fg && f_early fg then honest_payload (idn (sd_id sd)) s 1 7 else NEmpty
               | None => NEmpty
               end in
  mkParty e s (prol_term (sd_prologue sd)) (check_peer_id initiator sd)
          (match sd_expect sd with Some k => Some (idn k) | None => None end) pl early ft.

Definition replace_at (c : nat) (m : msg) (x : nt) : msg := firstn c m ++ x :: skipn (S c) m.

Definition net_of (e : edit) (other : msgix -> option msg) (i : msgix) (m : msg) : list msg :=
  match e with
  | ENone => [m]
  | EJunk j c => if msgix_eqb i j then [replace_at c m (NJunk 900)] else [m]
  | ETrunc j keep partial =>
      if msgix_eqb i j then [firstn keep m ++ (if partial then [NJunk 901] else [])] else [m]
  | EExtend j => if msgix_eqb i j then [removelast m ++ [NJunk 902]] else [m]
  | EDrop j | EGrow j => if msgix_eqb i j then [] else [m]
  | EDup j => if msgix_eqb i j then [m; m] else [m]
  | ESplice j => if msgix_eqb i j then (match other i with Some x => [x] | None => [] end) else [m]
  end.

(* outcome of session [n] when the edit splices from session [n'] *)
Definition fault_of (sc : scenario) (initiator : bool) : option fstage :=
  match sc_fault sc with
  | Some f => if Bool.eqb (ft_init f) initiator then Some (ft_stage f) else None
  | None => None
  end.

Definition run_session (sc : scenario) (n n' : N) : res * res :=
  let pi := party_of true (sc_i sc) (sc_forge sc) (fault_of sc true) n in
  let pr := party_of false (sc_r sc) (sc_forge sc) (fault_of sc false) n in
  let pi' := party_of true (sc_i sc) (sc_forge sc) None n' in
  let pr' := party_of false (sc_r sc) (sc_forge sc) None n' in
  run_pair pi pr (net_of (sc_edit sc) (transcript pi' pr')).

Definition run_scenario (sc : scenario) : (res * res) * (res * res) :=
  (run_session sc 1 2, run_session sc 2 1).

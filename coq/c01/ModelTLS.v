(* C01 — Part 2: TLS, and Part 3: the swarm's dial re-checks.
   Executable model transcribed from
     /repo/p2p/security/tls/crypto.go     PubKeyFromCertChain, ConfigForPeer (VerifyPeerCertificate)
     /repo/p2p/security/tls/transport.go  handshake, setupConn
     /repo/p2p/net/swarm/swarm_dial.go    dialAddr, dialPeer
   Certificates are symbolic; the TLS 1.3 handshake itself (crypto/tls) is an
   ideal authenticated key exchange (DESIGN.md section 7): a side completes only
   if the handshake messages it received are the ones the peer sent, the
   peer's certificate chain passed VerifyPeerCertificate, and the peer proved
   possession of the leaf certificate's private key (CertificateVerify).
   No proofs in this file. *)
From Coq Require Import List NArith Bool.
From Verif Require Import c01.Model.
Import ListNotations.
Local Open Scope N_scope.

Definition TLSPREFIX : nt := NB 3.                 (* certificatePrefix = "libp2p-tls-handshake:" *)
Definition certpub (k : N) : nt := NB (1000 + k).  (* x509.MarshalPKIXPublicKey of certificate key k *)

(* the value of the libp2p extension: ASN.1 signedKey{PubKey, Signature}, or bytes that do not parse *)
Inductive extv := XSigned (pub sg : nt) | XJunk.
Inductive ext :=
| XLibp2p (critical : bool) (v : extv)      (* OID 1.3.6.1.4.1.53594.1.1 *)
| XOther (oid : N) (critical : bool).       (* any other extension *)

Record cert := mkCert {
  c_key : N;              (* the certificate's key pair *)
  c_signer : N;           (* the key pair that produced the certificate's signature *)
  c_intact : bool;        (* the signed bytes are the ones that were signed *)
  c_time_ok : bool;       (* NotBefore <= now <= NotAfter *)
  c_exts : list ext
}.

Definition T_PEERID : N := 1.
Definition T_SIG : N := 2.         (* "signature invalid" / "signature verification failed" *)
Definition T_KEY : N := 3.         (* "unmarshalling public key failed" *)
Definition T_ASN1 : N := 4.        (* "unmarshalling signed certificate failed" *)
Definition T_CERTVERIFY : N := 5.  (* "certificate verification failed" *)
Definition T_NOEXT : N := 6.       (* "expected certificate to contain the key extension" *)
Definition T_CHAINLEN : N := 7.    (* "expected one certificates in the chain" *)
Definition T_PARSE : N := 8.       (* x509.ParseCertificate failed *)

(* the loop over cert.Extensions: the first libp2p extension wins *)
Fixpoint find_libp2p (l : list ext) : option extv :=
  match l with
  | [] => None
  | XLibp2p _ v :: _ => Some v
  | XOther _ _ :: r => find_libp2p r
  end.

(* cert.Verify(VerifyOptions{Roots: pool}) with pool = {cert itself}, then
   cert.CheckSignature(cert.SignatureAlgorithm, cert.RawTBSCertificate, cert.Signature).
   crypto/x509 (verify.go): `if opts.Roots.contains(c) { candidateChains = {{c}} }`
   — a certificate that is itself in the root pool is its own chain and Verify
   checks NO signature; what remains of it is c.isValid: the validity period
   and "no unhandled critical extension" (the libp2p extension was removed from
   that list by the loop above).  The self-signature is verified by the
   explicit CheckSignature (repair 8beaf91 of the defect found by this check:
   certificates signed by another key or altered after signing were accepted). *)
Definition other_critical (e : ext) : bool :=
  match e with XOther _ c => c | XLibp2p _ _ => false end.

(* signed by its own key over the bytes as they are *)
Definition self_signed (c : cert) : bool := (c_signer c =? c_key c) && c_intact c.

Definition cert_verify (c : cert) : bool :=
  c_time_ok c && negb (existsb other_critical (c_exts c)) && self_signed c.

(* PubKeyFromCertChain *)
Definition pubkey_from_chain (chain : list cert) : nt + N :=
  match chain with
  | [c] =>
      match find_libp2p (c_exts c) with
      | None => inr T_NOEXT
      | Some v =>
          if negb (cert_verify c) then inr T_CERTVERIFY
          else match v with
               | XJunk => inr T_ASN1
               | XSigned pub sg =>
                   match id_of_key pub with
                   | None => inr T_KEY
                   | Some _ =>
                       if sig_verify pub (NCat TLSPREFIX (certpub (c_key c))) sg
                       then inl pub else inr T_SIG
                   end
               end
      end
  | _ => inr T_CHAINLEN
  end.

(* x509.ParseCertificate rejects a certificate that carries an extension twice *)
Definition ext_oid (e : ext) : N := match e with XLibp2p _ _ => 0 | XOther n _ => n + 1 end.
Fixpoint nodup_oids (l : list ext) : bool :=
  match l with
  | [] => true
  | e :: r => negb (existsb (fun x => ext_oid x =? ext_oid e) r) && nodup_oids r
  end.
Definition parse_ok (c : cert) : bool := nodup_oids (c_exts c).

(* the VerifyPeerCertificate callback built by ConfigForPeer(remote): what is
   put on keyCh, or the error *)
Definition verify_peer (remote : option N) (raw : list cert) : nt + N :=
  if negb (forallb parse_ok raw) then inr T_PARSE
  else match pubkey_from_chain raw with
       | inr e => inr e
       | inl pub =>
           match remote with
           | None => inl pub                                     (* remote == "" *)
           | Some r =>
               match id_of_key pub with
               | Some id => if r =? id then inl pub else inr T_PEERID   (* remote.MatchesPublicKey *)
               | None => inr T_PEERID
               end
           end
       end.

(* ---- the handshake as an ideal authenticated key exchange ----------------------------- *)
Record tside := mkTside {
  t_expect : option N;     (* the peer.ID argument of SecureInbound/SecureOutbound *)
  t_chain : list cert;     (* tls.Config.Certificates[0].Certificate *)
  t_holds : bool           (* its PrivateKey is the leaf certificate's private key *)
}.

(* where a man-in-the-middle edit lands *)
Inductive tedit :=
| TNone
| TClientHello        (* the first client -> server record *)
| TServerFlight       (* any server -> client handshake record *)
| TClientFlight.      (* a later client -> server handshake record *)

Inductive tres := TDone (id : N) (key : nt) | TFail (cls : N).
Definition T_HANDSHAKE : N := 9.   (* crypto/tls aborted: bad record MAC, transcript, CertificateVerify, alert, EOF *)

(* transport.go handshake(): HandshakeContext, then the key from keyCh; setupConn derives the ID *)
Definition tls_endpoint (me other : tside) (received_edited peer_failed : bool) : tres :=
  if received_edited || peer_failed then TFail T_HANDSHAKE
  else match verify_peer (t_expect me) (t_chain other) with
       | inr e => TFail e
       | inl pub =>
           if negb (t_holds other) then TFail T_HANDSHAKE
           else match id_of_key pub with
                | Some id => TDone id pub
                | None => TFail T_KEY
                end
       end.

Definition tfailed (r : tres) : bool := match r with TFail _ => true | TDone _ _ => false end.

(* TLS 1.3: the client finishes after the server's flight; the server after the client's *)
Definition tls_run (c s : tside) (e : tedit) : tres * tres :=
  let rc := tls_endpoint c s (match e with TClientHello | TServerFlight => true | _ => false end) false in
  let rs := tls_endpoint s c (match e with TNone => false | _ => true end) (tfailed rc) in
  (rc, rs).

(* ---- the swarm: dialAddr and dialPeer ------------------------------------------------------ *)
(* what a transport's Dial returned: an error, or a connection reporting RemotePeer() *)
Inductive dialres := DErr | DConn (remote : N).

(* dialAddr: "Trust the transport? Yeah... right." *)
Definition dial_addr (local p : N) (tpt : dialres) : dialres :=
  if local =? p then DErr                         (* ErrDialToSelf *)
  else match tpt with
       | DErr => DErr
       | DConn r => if r =? p then DConn r else DErr    (* connC.RemotePeer() != p: close, error *)
       end.

(* dialPeer: the result of the dial synchroniser (a connection produced by some
   dialAddr, or any other connection handed to it) is checked once more *)
Definition dial_peer (local p : N) (dsync : dialres) : dialres :=
  if local =? p then DErr
  else match dsync with
       | DErr => DErr
       | DConn r => if r =? p then DConn r else DErr    (* "unexpected peer" *)
       end.

(* ---- the QUIC transport's hole punching (transport.go holePunch, listener.go Accept) ---------- *)
(* an active hole punch is registered under holePunchKey{addr, peer}; Accept hands an
   inbound connection to the punch registered under ITS (remote address, authenticated
   peer), and returns every other connection to the ordinary accept queue *)
Definition hp_key := (N * N)%type.      (* remote UDP address, peer *)
Definition hp_key_eqb (a b : hp_key) : bool := (fst a =? fst b) && (snd a =? snd b).
Definition hole_punch (punch accepted : hp_key) : dialres :=
  if hp_key_eqb accepted punch then DConn (snd accepted) else DErr.   (* ErrHolePunching after the timeout *)

(* ---- upgrader.upgrade / setupSecurity ----------------------------------------------------------- *)
(* Upgrade(dir, p): outbound with p = "" is refused (ErrNilPeer); the security handshake is
   SecureInbound(ctx, conn, p) when dir is inbound and SecureOutbound(ctx, conn, p) otherwise —
   the expected peer is passed on in BOTH roles (inbound with a non-empty p: the dialing side of
   a TCP simultaneous connect).  [remote]: the identity the remote proves. *)
Definition upgrade (inbound : bool) (p : option N) (remote : N) : dialres :=
  match p with
  | None => if inbound then DConn remote else DErr
  | Some x => if x =? remote then DConn remote else DErr
  end.

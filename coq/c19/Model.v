(* C19 — HTTP Peer-ID authentication (p2p/http/auth, p2p/http/auth/internal/handshake).
   Executable transcription of the code; NO proofs in this file.

   Part A  genDataToSign (handshake.go), byte level: sort the parts by key
           (strings.Compare), then prefix ++ for each part uvarint(len(k)+1+len(v)) ++ k ++ "=" ++ v.
   Part B  parsePeerIDAuthSchemeParams / splitAuthHeaderParams (handshake.go), byte level.
   Part C  the symbolic layer: values carried by header parameters are terms of
           c08.SymCrypto's algebra; the opaque state is  TPair (TMac k fields) fields.
   Part D  PeerIDAuthHandshakeServer.ParseHeaderVal / Run / PeerID (server.go) and
           ServerPeerIDAuth.ServeHTTPWithNextHandler's status decision (auth/server.go).
   Part E  PeerIDAuthHandshakeClient.ParseHeader / Run / PeerID (client.go).

   External behaviour enters Part D/E as two Section variables
     verify    : public key -> message -> signature -> bool     (crypto.PubKey.Verify)
     mac_check : secret -> message -> tag -> bool               (HMAC-SHA256 + hmac.Equal)
   instantiated once, at the end, with SymCrypto's computation rules. *)
From Coq Require Import List NArith ZArith Bool String Ascii.
From Verif Require Import c08.Varint c08.SymCrypto gen.Consts_c19.
Import ListNotations.
Local Open Scope N_scope.

Definition bytes := list N.

Fixpoint str (s : string) : bytes :=
  match s with
  | EmptyString => []
  | String c r => N_of_ascii c :: str r
  end.

Fixpoint bytes_eqb (a b : bytes) : bool :=
  match a, b with
  | [], [] => true
  | x :: r, y :: s => N.eqb x y && bytes_eqb r s
  | _, _ => false
  end.

(* ---- Part A: genDataToSign ------------------------------------------------------ *)
(* strings.Compare on the keys *)
Fixpoint bytes_cmp (a b : bytes) : comparison :=
  match a, b with
  | [], [] => Eq
  | [], _ => Lt
  | _, [] => Gt
  | x :: r, y :: s => match N.compare x y with Eq => bytes_cmp r s | c => c end
  end.

Definition part := (bytes * bytes)%type.   (* sigParam{k, v} *)

(* slices.SortFunc on at most 12 elements is an insertion sort: an element moves
   left while it is strictly smaller than its predecessor (stable) *)
Fixpoint insert_part (p : part) (l : list part) : list part :=
  match l with
  | [] => [p]
  | q :: r => match bytes_cmp (fst p) (fst q) with
              | Lt => p :: q :: r
              | _ => q :: insert_part p r
              end
  end.

Definition sort_parts (l : list part) : list part :=
  fold_left (fun acc p => insert_part p acc) l [].

Definition EQ : N := 61.      (* '=' *)
Definition kv (p : part) : bytes := fst p ++ EQ :: snd p.

Definition gen_fields (l : list part) : bytes := flat_map (fun p => put_field (kv p)) l.

Definition gen_data (prefix : bytes) (parts : list part) : bytes :=
  prefix ++ gen_fields (sort_parts parts).

Definition scheme : bytes := map Z.to_N peerIDAuthScheme.

(* the two messages of the protocol (server.go verifySig / addServerSigParam,
   client.go addSigParam / verifySig) *)
Definition k_challenge_client := str "challenge-client".
Definition k_challenge_server := str "challenge-server".
Definition k_client_public_key := str "client-public-key".
Definition k_server_public_key := str "server-public-key".
Definition k_hostname := str "hostname".

(* what the client signs / the server verifies: argument order as in the source *)
Definition client_sig_data (challenge_client server_pk hostname : bytes) : bytes :=
  gen_data scheme [(k_challenge_client, challenge_client);
                   (k_server_public_key, server_pk);
                   (k_hostname, hostname)].

(* what the server signs / the client verifies *)
Definition server_sig_data (challenge_server client_pk hostname : bytes) : bytes :=
  gen_data scheme [(k_challenge_server, challenge_server);
                   (k_client_public_key, client_pk);
                   (k_hostname, hostname)].

(* ---- Part B: the header parser, byte level ---------------------------------------- *)
Record bparams := mkBP {
  b_bearer : option bytes;      (* bearerTokenB64 *)
  b_chalC : option bytes;       (* challengeClient *)
  b_chalS : option bytes;       (* challengeServer *)
  b_opaque : option bytes;      (* opaqueB64 *)
  b_pk : option bytes;          (* publicKeyB64 *)
  b_sig : option bytes          (* sigB64 *)
}.
Definition bp_empty := mkBP None None None None None None.

Fixpoint is_prefix (p l : bytes) : bool :=
  match p, l with
  | [], _ => true
  | x :: r, y :: s => N.eqb x y && is_prefix r s
  | _ :: _, [] => false
  end.

(* bytes.Index(l, p): the rest of l after the first occurrence of p *)
Fixpoint after_first (p l : bytes) : option bytes :=
  if is_prefix p l then Some (skipn (List.length p) l)
  else match l with
       | [] => None
       | _ :: r => after_first p r
       end.

Definition is_sep (b : N) : bool := N.eqb b 32 || N.eqb b 44.   (* ' ' or ',' *)

Fixpoint skip_seps (l : bytes) : bytes :=
  match l with
  | b :: r => if is_sep b then skip_seps r else l
  | [] => []
  end.

(* the maximal run of non-separator bytes and what follows it *)
Fixpoint span_tok (l : bytes) : bytes * bytes :=
  match l with
  | b :: r => if is_sep b then ([], l) else let '(t, s) := span_tok r in (b :: t, s)
  | [] => ([], [])
  end.

Fixpoint has_byte (x : N) (l : bytes) : bool :=
  match l with [] => false | b :: r => N.eqb b x || has_byte x r end.

(* splitAuthHeaderParams(data, true) *)
Inductive split_res :=
| SFinal                           (* bufio.ErrFinalToken: nothing left, or a token without '=' *)
| SNoToken                         (* only separators left: advance, nil token, nil error *)
| STok (tok rest : bytes).

Definition split_params (data : bytes) : split_res :=
  match data with
  | [] => SFinal
  | _ => match skip_seps data with
         | [] => SNoToken
         | l => let '(tok, rest) := span_tok l in
                if has_byte EQ tok then STok tok rest else SFinal
         end
  end.

(* bytes.Cut(tok, "=") for a token known to contain '=' *)
Fixpoint cut_eq (l : bytes) : bytes * bytes :=
  match l with
  | [] => ([], [])
  | b :: r => if N.eqb b EQ then ([], r) else let '(k, v) := cut_eq r in (b :: k, v)
  end.

Definition QUOTE : N := 34.

(* v[1:len(v)-1] when v is at least two bytes, starts and ends with a double quote *)
Definition unquote (v : bytes) : option bytes :=
  match v with
  | q :: r => if N.eqb q QUOTE then
                match rev r with
                | q' :: m => if N.eqb q' QUOTE then Some (rev m) else None
                | [] => None
                end
              else None
  | [] => None
  end.

Definition set_bparam (p : bparams) (k v : bytes) : bparams :=
  if bytes_eqb k (str "bearer") then mkBP (Some v) (b_chalC p) (b_chalS p) (b_opaque p) (b_pk p) (b_sig p)
  else if bytes_eqb k (str "challenge-client") then mkBP (b_bearer p) (Some v) (b_chalS p) (b_opaque p) (b_pk p) (b_sig p)
  else if bytes_eqb k (str "challenge-server") then mkBP (b_bearer p) (b_chalC p) (Some v) (b_opaque p) (b_pk p) (b_sig p)
  else if bytes_eqb k (str "opaque") then mkBP (b_bearer p) (b_chalC p) (b_chalS p) (Some v) (b_pk p) (b_sig p)
  else if bytes_eqb k (str "public-key") then mkBP (b_bearer p) (b_chalC p) (b_chalS p) (b_opaque p) (Some v) (b_sig p)
  else if bytes_eqb k (str "sig") then mkBP (b_bearer p) (b_chalC p) (b_chalS p) (b_opaque p) (b_pk p) (Some v)
  else p.

(* the loop of parsePeerIDAuthSchemeParams; the boolean is "err == nil".  The
   parameters set before an error stay set (the client keeps using them). *)
Fixpoint parse_loop (fuel : nat) (data : bytes) (p : bparams) : bparams * bool :=
  match fuel with
  | O => (p, false)
  | S f =>
      match split_params data with
      | SFinal => (p, true)
      | SNoToken => (p, false)                 (* bytes.Cut on the nil token fails: errInvalid *)
      | STok tok rest =>
          let '(k, v) := cut_eq tok in
          match unquote v with
          | None => (p, false)                 (* errInvalid *)
          | Some v' => parse_loop f rest (set_bparam p k v')
          end
      end
  end.

Inductive parse_err := PEok | PEtoobig | PEinvalid.

Definition parse_scheme_params (hdr : bytes) (p : bparams) : bparams * parse_err :=
  if (maxHeaderSize <? Z.of_nat (List.length hdr))%Z then (p, PEtoobig)
  else match after_first scheme hdr with
       | None => (p, PEok)
       | Some rest => let '(p', ok) := parse_loop (S (List.length rest)) rest p in
                      (p', if ok then PEok else PEinvalid)
       end.

(* ---- Part C: symbolic values ---------------------------------------------------- *)
(* A raw string (challenge, hostname, raw parameter value) is the atom  TBytes [id];
   the harness interns strings, equal ids <-> equal strings.  The empty string is TBytes []. *)
Definition atom (n : N) : term := TBytes [n].
Definition empty_bytes : term := TBytes [].

(* what the two signatures are over, as terms.  Proofs_Bytes.v shows that the
   byte-level encodings (client_sig_data / server_sig_data) are injective in the
   three values and never collide with each other, which is what makes these
   free constructors a faithful abstraction. *)
Definition msg_client (challenge_client server_pk hostname : term) : term :=
  TPair (TBytes [1]) (TPair challenge_client (TPair hostname server_pk)).
Definition msg_server (challenge_server client_pk hostname : term) : term :=
  TPair (TBytes [2]) (TPair challenge_server (TPair client_pk hostname)).

(* opaqueState.  Peer ids are key numbers (id_of (TPub k) = k; C08 is about that
   map); hostnames are atom numbers; CreatedTime in ns relative to the harness' base. *)
Record ostate := mkOS {
  os_token : bool;               (* IsToken *)
  os_cpk : option term;          (* ClientPublicKey; None = nil/empty (omitempty) *)
  os_pid : option N;             (* PeerID; None = "" *)
  os_chal : term;                (* ChallengeClient *)
  os_host : N;                   (* Hostname *)
  os_created : Z                 (* CreatedTime *)
}.

(* json.Marshal of the state, as a term (injective; dec_state inverts it) *)
Definition enc_opt (o : option term) : term :=
  match o with None => TBytes [0] | Some t => TPair (TBytes [1]) t end.
Definition enc_z (z : Z) : term :=
  TBytes [match z with Z0 => 0 | Zpos _ => 1 | Zneg _ => 2 end; Z.abs_N z]%N.
Definition enc_state (s : ostate) : term :=
  TPair (TBytes [if os_token s then 1 else 0]%N)
   (TPair (enc_opt (os_cpk s))
    (TPair (enc_opt (option_map atom (os_pid s)))
     (TPair (os_chal s)
      (TPair (atom (os_host s)) (enc_z (os_created s)))))).

Definition dec_opt (t : term) : option (option term) :=
  match t with
  | TBytes [0%N] => Some None
  | TPair (TBytes [1%N]) x => Some (Some x)
  | _ => None
  end.
Definition dec_z (t : term) : option Z :=
  match t with
  | TBytes [0%N; 0%N] => Some 0%Z
  | TBytes [1%N; Npos p] => Some (Zpos p)
  | TBytes [2%N; Npos p] => Some (Zneg p)
  | _ => None
  end.
Definition dec_bool (t : term) : option bool :=
  match t with
  | TBytes [0%N] => Some false
  | TBytes [1%N] => Some true
  | _ => None
  end.
Definition dec_pid (o : option term) : option (option N) :=
  match o with
  | None => Some None
  | Some (TBytes [k]) => Some (Some k)
  | Some _ => None
  end.

(* json.Unmarshal of the fields; None = not the JSON of a state *)
Definition dec_state (t : term) : option ostate :=
  match t with
  | TPair tk (TPair cpk (TPair pid (TPair chal (TPair (TBytes [h]) tm)))) =>
      match dec_bool tk, dec_opt cpk, dec_opt pid, dec_z tm with
      | Some b, Some c, Some p, Some z =>
          match dec_pid p with
          | Some p' => Some (mkOS b c p' chal h z)
          | None => None
          end
      | _, _, _, _ => None
      end
  | _ => None
  end.

(* opaqueState.Marshal: HMAC ++ fields *)
Definition mk_blob (mk : N) (s : ostate) : term := TPair (TMac mk (enc_state s)) (enc_state s).

(* a parameter value as the harness describes it: pv_id = its number in the
   case's value table (equal raw strings <-> equal numbers), pv_len = length of
   the raw string, pv_dec = what base64.URLEncoding decodes it to (None = error) *)
Record pval := mkPV { pv_id : N; pv_len : Z; pv_dec : option term }.

Record params := mkP {
  p_bearer : option pval; p_chalC : option pval; p_chalS : option pval;
  p_opaque : option pval; p_pk : option pval; p_sig : option pval
}.
Definition p_empty := mkP None None None None None None.

(* the raw bytes of a parameter as a value (used when the code signs or echoes
   them as they are) *)
Definition raw_term (v : option pval) : term :=
  match v with
  | Some x => if (pv_len x =? 0)%Z then empty_bytes else atom (pv_id x)
  | None => empty_bytes
  end.
Definition plen (v : option pval) : Z := match v with Some x => pv_len x | None => 0%Z end.
Definition is_some {A} (o : option A) : bool := match o with Some _ => true | None => false end.

(* value table of a case: raw string -> (atom number of the raw string, decoded value).
   Atom numbers are global to a case (hostnames, challenges and raw parameter
   values share one namespace): equal numbers <-> equal strings. *)
Definition vtable := list (bytes * (N * option term)).

Fixpoint lookup (tbl : vtable) (raw : bytes) : option pval :=
  match tbl with
  | [] => None
  | (r, (i, d)) :: rest => if bytes_eqb r raw then Some (mkPV i (Z.of_nat (List.length raw)) d)
                           else lookup rest raw
  end.

(* None = a raw value that the table does not describe (malformed case) *)
Definition lift1 (tbl : vtable) (o : option bytes) : option (option pval) :=
  match o with
  | None => Some None
  | Some raw => match lookup tbl raw with Some v => Some (Some v) | None => None end
  end.
Definition lift_params (tbl : vtable) (b : bparams) : option params :=
  match lift1 tbl (b_bearer b), lift1 tbl (b_chalC b), lift1 tbl (b_chalS b),
        lift1 tbl (b_opaque b), lift1 tbl (b_pk b), lift1 tbl (b_sig b) with
  | Some a, Some c, Some d, Some e, Some f, Some g => Some (mkP a c d e f g)
  | _, _, _, _, _, _ => None
  end.

(* crypto.UnmarshalPublicKey + peer.IDFromPublicKey *)
Definition unmarshal_pk (t : term) : option N :=
  match t with TPub k => Some k | _ => None end.

(* ---- Part D: the server ---------------------------------------------------------- *)
Record server := mkSrv {
  sv_key : N;          (* PrivKey (number of the key pair) *)
  sv_mac : N;          (* the HMAC secret *)
  sv_ttl : Z           (* TokenTTL, ns *)
}.

Inductive sstate := SChallengeClient | SVerifyChallenge | SVerifyBearer | SSignChallenge.

(* error classes: what ServeHTTP distinguishes *)
Inductive ecls :=
| EParse               (* ParseHeaderVal failed: errTooBig, errInvalid, errInvalidHeader *)
| EInvalidHMAC | EExpiredChallenge | EExpiredToken
| EOther.              (* any other error of Run *)

(* parameter names in output headers *)
Definition N_BEARER : N := 0.
Definition N_CHALC : N := 1.
Definition N_CHALS : N := 2.
Definition N_OPAQUE : N := 3.
Definition N_PK : N := 4.
Definition N_SIG : N := 5.

Definition ohdr := list (N * term).

(* the result of ParseHeaderVal + Run + PeerID on a fresh handshake server *)
Inductive sres :=
| SErr (e : ecls)
| SOk (st : sstate) (pid : option N) (out : ohdr).

(* headerBuilder.writeParam drops empty values *)
Definition wparam (name : N) (empty : bool) (t : term) : ohdr := if empty then [] else [(name, t)].

Section Generic.
  Variable verify : term -> term -> term -> bool.
  Variable mac_check : N -> term -> term -> bool.

  (* opaqueState.Unmarshal on the decoded blob *)
  Definition open_blob (mk : N) (blob : term) : ecls + ostate :=
    match blob with
    | TPair tag fields =>
        if mac_check mk fields tag then
          match dec_state fields with
          | Some s => inr s
          | None => inl EOther                 (* json.Unmarshal error *)
          end
        else inl EInvalidHMAC
    | _ => inl EInvalidHMAC                    (* shorter than the MAC, or no valid split *)
    end.

  (* ParseHeaderVal: the state selection *)
  Definition select_state (p : params) : option sstate :=
    if is_some (p_sig p) && is_some (p_opaque p) then Some SVerifyChallenge
    else if is_some (p_bearer p) then Some SVerifyBearer
    else if is_some (p_chalS p) && is_some (p_pk p) then Some SSignChallenge
    else None.

  (* addServerSigParam; None = "challenge too short" *)
  Definition server_sig (sv : server) (host : N) (p : params) (cpk : term) : option ohdr :=
    if (plen (p_chalS p) <? challengeLen)%Z then None
    else Some [(N_SIG, TSig (sv_key sv) (msg_server (raw_term (p_chalS p)) cpk (atom host)) 0)].

  Definition challenge_state (host : N) (now : Z) (fresh : N) (cpk : option term) : ostate :=
    mkOS false cpk None (atom fresh) host now.
  Definition token_state (host : N) (now : Z) (p : N) : ostate :=
    mkOS true None (Some p) empty_bytes host now.

  (* json omitempty on ClientPublicKey *)
  Definition norm_cpk (t : term) : option term :=
    match t with TBytes [] => None | _ => Some t end.

  Definition run_challenge_client (sv : server) (host : N) (now : Z) (fresh : N) : sres :=
    SOk SChallengeClient None
        [(N_CHALC, atom fresh); (N_PK, TPub (sv_key sv));
         (N_OPAQUE, mk_blob (sv_mac sv) (challenge_state host now fresh None))].

  Definition run_sign_challenge (sv : server) (host : N) (now : Z) (fresh : N) (p : params) : sres :=
    match p_pk p with
    | None => SErr EOther
    | Some pk =>
        match pv_dec pk with
        | None => SErr EOther                                      (* base64 error *)
        | Some cpk =>
            match server_sig sv host p cpk with
            | None => SErr EOther
            | Some sg =>
                SOk SSignChallenge None
                    ([(N_CHALC, atom fresh); (N_PK, TPub (sv_key sv))] ++ sg ++
                     [(N_OPAQUE, mk_blob (sv_mac sv) (challenge_state host now fresh (norm_cpk cpk)))])
            end
        end
    end.

  (* the public key the signature is checked under, and whether the handshake
     was client-initiated *)
  Definition key_source (s : ostate) (p : params) : option (term * bool) :=
    match os_cpk s with
    | Some b => Some (b, true)
    | None =>
        if (plen (p_pk p) =? 0)%Z then None                        (* "missing public key" *)
        else match p_pk p with
             | Some v => match pv_dec v with Some b => Some (b, false) | None => None end
             | None => None
             end
    end.

  Definition run_verify_challenge (sv : server) (host : N) (now : Z) (p : params) : sres :=
    match p_opaque p, p_sig p with
    | Some oq, Some sg =>
        match pv_dec oq with
        | None => SErr EOther
        | Some blob =>
            match open_blob (sv_mac sv) blob with
            | inl e => SErr e
            | inr s =>
                if (now >? os_created s + challengeTTL)%Z then SErr EExpiredChallenge
                else if os_token s then SErr EOther                 (* "expected challenge, got token" *)
                else if negb (host =? os_host s) then SErr EOther   (* "hostname in opaque mismatch" *)
                else
                  match key_source s p with
                  | None => SErr EOther
                  | Some (pkb, client_initiated) =>
                      match unmarshal_pk pkb with
                      | None => SErr EOther
                      | Some k =>
                          match pv_dec sg with
                          | None => SErr EOther
                          | Some sv_sig =>
                              if verify (TPub k)
                                        (msg_client (os_chal s) (TPub (sv_key sv)) (atom host)) sv_sig
                              then
                                let bearer := [(N_BEARER, mk_blob (sv_mac sv) (token_state host now k))] in
                                if client_initiated then SOk SVerifyChallenge (Some k) bearer
                                else match server_sig sv host p pkb with
                                     | None => SErr EOther
                                     | Some ss => SOk SVerifyChallenge (Some k) (ss ++ bearer)
                                     end
                              else SErr EOther
                          end
                      end
                  end
            end
        end
    | _, _ => SErr EOther
    end.

  Definition run_verify_bearer (sv : server) (now : Z) (p : params) : sres :=
    match p_bearer p with
    | None => SErr EOther
    | Some b =>
        match pv_dec b with
        | None => SErr EOther
        | Some blob =>
            match open_blob (sv_mac sv) blob with
            | inl e => SErr e
            | inr s =>
                if negb (os_token s) then SErr EOther               (* "expected token, got challenge" *)
                else if (now >? os_created s + sv_ttl sv)%Z then SErr EExpiredToken
                else SOk SVerifyBearer (os_pid s) []
            end
        end
    end.

  (* Run on the parameters of a non-empty header *)
  Definition server_run (sv : server) (host : N) (now : Z) (fresh : N) (p : params) : sres :=
    match select_state p with
    | None => SErr EParse                                           (* errInvalidHeader *)
    | Some SVerifyChallenge => run_verify_challenge sv host now p
    | Some SVerifyBearer => run_verify_bearer sv now p
    | Some SSignChallenge => run_sign_challenge sv host now fresh p
    | Some SChallengeClient => run_challenge_client sv host now fresh
    end.

  (* ParseHeaderVal + Run on a header value; None = the case's table does not
     describe a value of the header *)
  Definition server_step (sv : server) (host : N) (now : Z) (fresh : N)
             (tbl : vtable) (hdr : bytes) : option sres :=
    match hdr with
    | [] => Some (run_challenge_client sv host now fresh)
    | _ =>
        match parse_scheme_params hdr bp_empty with
        | (bp, PEok) =>
            match lift_params tbl bp with
            | Some p => Some (server_run sv host now fresh p)
            | None => None
            end
        | (_, _) => Some (SErr EParse)
        end
    end.

  (* what the application sees: ServeHTTPWithNextHandler calls next(peer) only
     after a nil Run error and a nil PeerID error *)
  Definition reported (r : sres) : option N :=
    match r with SOk _ (Some p) _ => Some p | _ => None end.

  (* the HTTP status ServeHTTP answers with when it does not call next
     (0 = next is called) *)
  Definition http_status (r : sres) : Z :=
    match r with
    | SErr EInvalidHMAC | SErr EExpiredChallenge | SErr EExpiredToken => 401
    | SErr _ => 400
    | SOk _ None _ => 401
    | SOk _ (Some _) _ => 0
    end%Z.

  (* ---- Part E: the client --------------------------------------------------------- *)
  Inductive cstate := CSignChallenge | CVerifyChallenge | CDone
                    | CInitiate | CVerifyAndSign | CWaitBearer.

  Record client := mkCl {
    cl_key : N;                    (* PrivKey *)
    cl_host : N;                   (* Hostname *)
    cl_state : cstate;
    cl_spk : option N;             (* serverPubKey / serverPeerID (set together, once) *)
    cl_chal : term;                (* challengeServer; empty before the first one is drawn *)
    cl_p : params;                 (* h.p *)
    cl_out : ohdr                  (* the header builder's content *)
  }.

  Definition client_init (key host : N) : client :=
    mkCl key host CSignChallenge None empty_bytes p_empty [].

  Definition set_state (c : client) (s : cstate) : client :=
    mkCl (cl_key c) (cl_host c) s (cl_spk c) (cl_chal c) (cl_p c) (cl_out c).
  Definition set_out (c : client) (o : ohdr) : client :=
    mkCl (cl_key c) (cl_host c) (cl_state c) (cl_spk c) (cl_chal c) (cl_p c) o.
  Definition set_chal (c : client) (t : term) : client :=
    mkCl (cl_key c) (cl_host c) (cl_state c) (cl_spk c) t (cl_p c) (cl_out c).
  Definition set_p (c : client) (p : params) : client :=
    mkCl (cl_key c) (cl_host c) (cl_state c) (cl_spk c) (cl_chal c) p (cl_out c).
  Definition set_spk (c : client) (k : option N) : client :=
    mkCl (cl_key c) (cl_host c) (cl_state c) k (cl_chal c) (cl_p c) (cl_out c).

  Definition client_set_initiate (c : client) : client := set_state c CInitiate.

  (* ParseHeader.  www / info: the values of WWW-Authenticate / Authentication-Info
     ([] = header absent or empty).  Result: new state, err == nil;
     None = the table does not describe a value. *)
  Definition header_for (st : cstate) (www info : bytes) : bytes :=
    match st with
    | CSignChallenge | CVerifyAndSign => www
    | _ => info
    end.

  (* the server's public key is taken from the first header that carries one *)
  Definition parse_pubkey (c1 : client) (p : params) : client * bool :=
    match cl_spk c1 with
    | Some _ => (c1, true)
    | None =>
        if (plen (p_pk p) >? 0)%Z then
          match p_pk p with
          | Some v =>
              match pv_dec v with
              | None => (c1, false)
              | Some b => match unmarshal_pk b with
                          | Some k => (set_spk c1 (Some k), true)
                          | None => (c1, false)
                          end
              end
          | None => (c1, true)
          end
        else (c1, true)
    end.

  Definition parse_body (c : client) (tbl : vtable) (hv : bytes) : option (client * bool) :=
    match hv with
    | [] => Some (set_p c p_empty, false)                          (* errMissingChallenge *)
    | _ =>
        let '(bp, e) := parse_scheme_params hv bp_empty in
        match lift_params tbl bp with
        | None => None
        | Some p =>
            match e with
            | PEok => Some (parse_pubkey (set_p c p) p)
            | _ => Some (set_p c p, false)                         (* the parameters parsed so far stay *)
            end
        end
    end.

  Definition client_parse (c : client) (tbl : vtable) (www info : bytes) : option (client * bool) :=
    match cl_state c with
    | CDone | CInitiate => Some (c, true)
    | st => parse_body c tbl (header_for st www info)
    end.

  (* verifySig of the client *)
  Definition client_verify (c : client) : bool :=
    if (plen (p_sig (cl_p c)) =? 0)%Z then false
    else match p_sig (cl_p c) with
         | Some v =>
             match pv_dec v, cl_spk c with
             | Some sg, Some k =>
                 verify (TPub k) (msg_server (cl_chal c) (TPub (cl_key c)) (atom (cl_host c))) sg
             | _, _ => false
             end
         | None => false
         end.

  (* addSigParam; None = "server public key not set" *)
  Definition client_sig (c : client) : option ohdr :=
    match cl_spk c with
    | None => None
    | Some k => Some [(N_SIG, TSig (cl_key c)
                               (msg_client (raw_term (p_chalC (cl_p c))) (TPub k) (atom (cl_host c))) 0)]
    end.

  Definition echo (name : N) (v : option pval) : ohdr :=
    wparam name (plen v =? 0)%Z (raw_term v).

  Definition run_sign (c : client) (fresh : N) : client * bool :=
    if (plen (p_chalC (cl_p c)) <? challengeLen)%Z then (set_out c [], false)
    else
      let c1 := set_chal c (atom fresh) in
      let o1 := [(N_PK, TPub (cl_key c)); (N_CHALS, atom fresh)] in
      match client_sig c1 with
      | None => (set_out c1 o1, false)
      | Some sg => (set_state (set_out c1 (o1 ++ sg ++ echo N_OPAQUE (p_opaque (cl_p c)))) CVerifyChallenge, true)
      end.

  (* Run.  fresh = the challenge the random source yields if one is drawn. *)
  Definition client_run (c : client) (fresh : N) : client * bool :=
    match cl_state c with
    | CDone => (c, true)
    | CInitiate =>
        (set_state (set_out (set_chal c (atom fresh))
                            [(N_CHALS, atom fresh); (N_PK, TPub (cl_key c))]) CVerifyAndSign, true)
    | CVerifyAndSign =>
        if (plen (p_sig (cl_p c)) =? 0)%Z && negb (plen (p_chalC (cl_p c)) =? 0)%Z
        then run_sign (set_state c CSignChallenge) fresh        (* the server refused: server-initiated flow *)
        else if client_verify c then
          let sg := match client_sig c with Some s => s | None => [] end in
          (set_state (set_out c (echo N_OPAQUE (p_opaque (cl_p c)) ++ sg)) CWaitBearer, true)
        else (set_out c [], false)
    | CWaitBearer =>
        (set_state (set_out c (echo N_BEARER (p_bearer (cl_p c)))) CDone, true)
    | CSignChallenge => run_sign c fresh
    | CVerifyChallenge =>
        if client_verify c then
          (set_state (set_out c (echo N_BEARER (p_bearer (cl_p c)))) CDone, true)
        else (set_out c [], false)
    end.

  (* PeerID() *)
  Definition client_peer (c : client) : option N :=
    match cl_state c with
    | CDone | CWaitBearer => cl_spk c
    | _ => None
    end.

  (* ---- ClientPeerIDAuth.AuthenticateWithRoundTripper without a stored token, and
          runHandshake (auth/client.go) ------------------------------------------------ *)
  (* one scripted response of the other side *)
  Record resp := mkResp { r_status : Z; r_tbl : vtable; r_www : bytes; r_info : bytes }.

  Definition is_done (c : client) : bool := match cl_state c with CDone => true | _ => false end.
  Definition is_auth (c : client) : bool :=
    match client_peer c with Some _ => true | None => false end.

  (* the loop  for !hs.HandshakeDone() || !sentBody  with its budget of 5 round trips.
     Result: the reported id together with the header BearerToken() then returns
     (None = an error is returned) and the Authorization headers of the requests
     sent, in order; outer None = the table of a response
     does not describe one of its values.  One element of [fresh] per Run call. *)
  Fixpoint handshake_loop (steps : nat) (c : client) (sent : bool) (resps : list resp)
           (fresh : list N) (reqs : list ohdr) : option (option (N * ohdr) * list ohdr) :=
    if is_done c && sent then
      Some (match client_peer c with Some p => Some (p, cl_out c) | None => None end, rev reqs)
    else
      match steps with
      | O => Some (None, rev reqs)                       (* "handshake took too many steps" *)
      | S k =>
          let sent' := sent || is_auth c in
          let reqs' := cl_out c :: reqs in
          match resps, fresh with
          | r :: rs, f :: fs =>
              match client_parse c (r_tbl r) (r_www r) (r_info r) with
              | None => None
              | Some (c1, _) =>                          (* ParseHeader's error is not looked at *)
                  let '(c2, ok) := client_run c1 f in
                  if ok then handshake_loop k c2 sent' rs fs reqs' else Some (None, rev reqs')
              end
          | _, _ => Some (None, rev reqs')               (* no response: transport error *)
          end
      end.

  Definition strip_token (r : option (option (N * ohdr) * list ohdr)) : option (option N * list ohdr) :=
    match r with
    | Some (x, qs) => Some (option_map fst x, qs)
    | None => None
    end.

  Definition auth_do (key host : N) (resps : list resp) (fresh : list N)
    : option (option N * list ohdr) :=
    match fresh with
    | f0 :: fs =>
        let '(c, ok) := client_run (client_set_initiate (client_init key host)) f0 in
        if ok then strip_token (handshake_loop 5 c false resps fs []) else Some (None, [])
    | [] => None
    end.

  (* the token map entry of one hostname: the Authorization header to send, the cached id *)
  Definition cache := option (ohdr * N).

  (* AuthenticateWithRoundTripper on a request whose GetBody is set.  With a cached
     token: send it; any status but 401 -> the cached id is reported; 401 -> a new
     handshake object parses that response and runs the server-initiated handshake.
     Only a successful handshake rewrites the entry (token and id together). *)
  Definition auth_call (key host : N) (ca : cache) (resps : list resp) (fresh : list N)
    : option (option N * list ohdr * cache) :=
    match ca with
    | None =>
        match fresh with
        | f0 :: fs =>
            let '(c, ok) := client_run (client_set_initiate (client_init key host)) f0 in
            if ok then
              match handshake_loop 5 c false resps fs [] with
              | None => None
              | Some (Some (p, tok), qs) => Some (Some p, qs, Some (tok, p))
              | Some (None, qs) => Some (None, qs, None)
              end
            else Some (None, [], None)
        | [] => None
        end
    | Some (tok, cp) =>
        match resps with
        | [] => Some (None, [tok], ca)                       (* transport error *)
        | r1 :: rs =>
            if negb (r_status r1 =? 401)%Z then Some (Some cp, [tok], ca)
            else
              match fresh with
              | f0 :: fs =>
                  match client_parse (client_init key host) (r_tbl r1) (r_www r1) (r_info r1) with
                  | None => None
                  | Some (c0, _) =>
                      let '(c, ok) := client_run c0 f0 in
                      if ok then
                        match handshake_loop 5 c false rs fs [] with
                        | None => None
                        | Some (Some (p, tok'), qs) => Some (Some p, tok :: qs, Some (tok', p))
                        | Some (None, qs) => Some (None, tok :: qs, ca)
                        end
                      else Some (None, [tok], ca)
                  end
              | [] => None
              end
        end
    end.

  (* a history of calls on one ClientPeerIDAuth for one hostname *)
  Fixpoint auth_session (key host : N) (ca : cache) (calls : list (list resp * list N))
    : option (list (option N * list ohdr)) :=
    match calls with
    | [] => Some []
    | (resps, fresh) :: rest =>
        match auth_call key host ca resps fresh with
        | None => None
        | Some (pid, qs, ca') =>
            match auth_session key host ca' rest with
            | Some l => Some ((pid, qs) :: l)
            | None => None
            end
        end
    end.

  (* ---- the token map of one ClientPeerIDAuth across hostnames (tokenMap, auth/client.go) ----
     hostname := req.Host.  The entry is read under that name, the handshake object is
     bound to that name, and a successful handshake writes the entry under that name;
     req.URL.Host only says where the transport connects and is not looked at.
     Hostnames are atom numbers; the empty req.Host of a hand-built request is the atom
     the harness gave to the empty string. *)
  Definition tmap := list (N * (ohdr * N)).

  Fixpoint tm_get (h : N) (m : tmap) : cache :=
    match m with
    | [] => None
    | (h', e) :: r => if N.eqb h h' then Some e else tm_get h r
    end.

  Definition tm_set (h : N) (ca : cache) (m : tmap) : tmap :=
    match ca with Some e => (h, e) :: m | None => m end.

  Definition auth_call_h (key : N) (m : tmap) (rhost uhost : N) (resps : list resp) (fresh : list N)
    : option (option N * list ohdr * tmap) :=
    match auth_call key rhost (tm_get rhost m) resps fresh with
    | None => None
    | Some (pid, qs, ca') => Some (pid, qs, tm_set rhost ca' m)
    end.
End Generic.

(* ---- the instance: ideal signatures and MAC of the term algebra ------------------ *)
Definition server_step_i := server_step sym_verify sym_mac_check.
Definition server_run_i := server_run sym_verify sym_mac_check.
Definition client_parse_i := client_parse.
Definition client_run_i := client_run sym_verify.
Definition auth_do_i := auth_do sym_verify.
Definition auth_call_i := auth_call sym_verify.
Definition auth_session_i := auth_session sym_verify.
Definition auth_call_h_i := auth_call_h sym_verify.

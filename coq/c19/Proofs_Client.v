(* C19 — the client: a server id is reported only after a received signature
   verified under that id's key over one of the client's own challenges, the
   client's public key and the hostname.  Invariant over every sequence of
   SetInitiateChallenge / ParseHeader / Run calls; the client monitor of Spec.v
   accepts every trace of the model. *)
From Coq Require Import List NArith ZArith Bool Lia.
From Verif Require Import lib.Wire c08.Varint c08.SymCrypto gen.Consts_c19
     c19.Model c19.Spec c19.Proofs_Bytes c19.Proofs_Server c19.Proofs_Step.
Import ListNotations.
Local Open Scope N_scope.

Inductive cop := OInit | OParse (tbl : vtable) (www info : bytes) | ORun (fresh : N).

Definition cop_step (c : client) (o : cop) : option (client * bool) :=
  match o with
  | OInit => Some (client_set_initiate c, true)
  | OParse tbl www info => client_parse_i c tbl www info
  | ORun f => Some (client_run_i c f)
  end.

(* the observable step the model produces *)
Definition cstep_of (o : cop) (c' : client) (ok : bool) : cstep :=
  let '(op, f, tbl, www, info) :=
    match o with
    | OInit => (0%Z, 0, [], [], [])
    | OParse tbl www info => (1%Z, 0, tbl, www, info)
    | ORun f => (2%Z, f, [], [], [])
    end in
  mkCS op f tbl www info ok (cstate_code (cl_state c')) (z_of_on (client_peer c'))
       (client_auth c') (client_done c') (cl_out c').

Fixpoint model_csteps (c : client) (ops : list cop) : option (list cstep) :=
  match ops with
  | [] => Some []
  | o :: r =>
      match cop_step c o with
      | None => None
      | Some (c', ok) =>
          match model_csteps c' r with
          | Some l => Some (cstep_of o c' ok :: l)
          | None => None
          end
      end
  end.

(* ---- what "proved" means, Prop level ------------------------------------------------ *)
Definition proved (k h : N) (own vals : list term) (p : N) : Prop :=
  exists sg ch, In sg vals /\ In ch own /\
                sym_verify (TPub p) (msg_server ch (TPub k) (atom h)) sg = true.

Lemma proved_proves : forall k h own vals p, proved k h own vals p -> proves k h own vals p = true.
Proof.
  intros k h own vals p (sg & ch & Hs & Hc & Hv). unfold proves. apply existsb_exists.
  exists sg. split; [exact Hs|]. unfold server_proof. apply existsb_exists. exists ch. split; assumption.
Qed.

Lemma proved_mono : forall k h own vals own' vals' p,
  incl own own' -> incl vals vals' -> proved k h own vals p -> proved k h own' vals' p.
Proof.
  intros k h own vals own' vals' p Ho Hv (sg & ch & Hs & Hc & Hver).
  exists sg, ch. repeat split; [apply Hv, Hs | apply Ho, Hc | exact Hver].
Qed.

Lemma emitted_in : forall out t, In (N_CHALS, t) out -> In t (emitted_challenges out).
Proof.
  intros out t H. unfold emitted_challenges. apply in_flat_map. exists (N_CHALS, t).
  split; [exact H|]. cbn. left. reflexivity.
Qed.

(* ---- the invariant --------------------------------------------------------------------- *)
Definition waiting (s : cstate) : Prop := s = CVerifyChallenge \/ s = CVerifyAndSign.
Definition finished (s : cstate) : Prop := s = CWaitBearer \/ s = CDone.

Record Inv (k h : N) (c : client) (own vals : list term) : Prop := mkInv {
  inv_key : cl_key c = k;
  inv_host : cl_host c = h;
  inv_sig : forall v t, p_sig (cl_p c) = Some v -> pv_dec v = Some t -> In t vals;
  inv_chal : waiting (cl_state c) -> In (cl_chal c) own;
  inv_spk : finished (cl_state c) -> exists q, cl_spk c = Some q;
  inv_proved : forall p, client_peer c = Some p -> proved k h own vals p
}.

Lemma inv_init : forall k h, Inv k h (client_init k h) [] [].
Proof.
  intros k h. constructor; cbn; try reflexivity.
  - intros v t H. discriminate.
  - intros [H|H]; discriminate.
  - intros [H|H]; discriminate.
  - intros p H. discriminate.
Qed.

Lemma client_peer_finished : forall c p, client_peer c = Some p -> finished (cl_state c) /\ cl_spk c = Some p.
Proof.
  intros c p H. unfold client_peer in H. destruct (cl_state c); try discriminate; (split; [|exact H]).
  - right. reflexivity.
  - left. reflexivity.
Qed.

Lemma inv_weaken : forall k h c own vals own' vals',
  Inv k h c own vals -> incl own own' -> incl vals vals' -> Inv k h c own' vals'.
Proof.
  intros k h c own vals own' vals' [Hk Hh Hs Hc Hp Hv] Ho Hvl.
  constructor; [exact Hk | exact Hh | | | exact Hp | ].
  - intros v t H1 H2. apply Hvl, (Hs v t H1 H2).
  - intros Hw. apply Ho, Hc, Hw.
  - intros p Hpe. eapply proved_mono; [exact Ho | exact Hvl | apply Hv, Hpe].
Qed.

Lemma incl_app_r : forall (A : Type) (a b : list A), incl b (a ++ b).
Proof. intros A a b x H. apply in_or_app. right. exact H. Qed.

(* ---- ParseHeader ----------------------------------------------------------------------- *)
Lemma parse_pubkey_shape : forall c1 P c' ok, parse_pubkey c1 P = (c', ok) ->
  c' = c1 \/ (cl_spk c1 = None /\ exists q, c' = set_spk c1 (Some q)).
Proof.
  intros c1 P c' ok H. unfold parse_pubkey in H.
  destruct (cl_spk c1) eqn:E; [inversion H; auto|].
  destruct (plen (p_pk P) >? 0)%Z; [|inversion H; auto].
  destruct (p_pk P) as [v|]; [|inversion H; auto].
  destruct (pv_dec v) as [b|]; [|inversion H; auto].
  destruct (unmarshal_pk b) as [q|]; [|inversion H; auto].
  inversion H; subst. right. split; [reflexivity | exists q; reflexivity].
Qed.

(* replacing the parameters by ones the table and header describe *)
Lemma inv_set_p : forall k h c own vals vals' P,
  Inv k h c own vals -> incl vals vals' ->
  (forall v t, p_sig P = Some v -> pv_dec v = Some t -> In t vals') ->
  Inv k h (set_p c P) own vals'.
Proof.
  intros k h c own vals vals' P [Hk Hh Hs Hc Hp Hv] Hi HP.
  constructor; cbn; [exact Hk | exact Hh | exact HP | exact Hc | exact Hp | ].
  intros p Hpe. eapply proved_mono; [apply incl_refl | exact Hi | apply Hv, Hpe].
Qed.

Lemma inv_set_spk : forall k h c own vals q,
  Inv k h c own vals -> cl_spk c = None -> Inv k h (set_spk c (Some q)) own vals.
Proof.
  intros k h c own vals q [Hk Hh Hs Hc Hp Hv] Hn.
  constructor; cbn; [exact Hk | exact Hh | exact Hs | exact Hc | | ].
  - intros _. exists q. reflexivity.
  - intros p Hpe. exfalso.
    assert (F : finished (cl_state c)).
    { unfold client_peer in Hpe. cbn in Hpe. destruct (cl_state c); try discriminate; [right|left]; reflexivity. }
    destruct (Hp F) as [q' Hq']. congruence.
Qed.

Lemma parse_body_inv : forall k h c own vals tbl hv c' ok,
  Inv k h c own vals -> parse_body c tbl hv = Some (c', ok) ->
  Inv k h c' own (carried tbl hv ++ vals).
Proof.
  intros k h c own vals tbl hv c' ok HI H. unfold parse_body in H.
  destruct hv as [|b0 hv'].
  - inversion H; subst. apply inv_set_p with (vals := vals); [exact HI | apply incl_app_r|].
    intros v t Hs. discriminate.
  - destruct (parse_scheme_params (b0 :: hv') bp_empty) as [bp e] eqn:Ep.
    destruct (lift_params tbl bp) as [P|] eqn:El; [|discriminate].
    pose proof (lift_params_within _ _ _ _ (parse_scheme_params_within _ _ _ Ep) El) as Hw.
    assert (HP : forall v t, p_sig P = Some v -> pv_dec v = Some t -> In t (carried tbl (b0 :: hv') ++ vals)).
    { intros v t Hs Hd. apply in_or_app. left. apply (Hw v t); [|exact Hd]. rewrite <- Hs. cbn; tauto. }
    assert (H1 : Inv k h (set_p c P) own (carried tbl (b0 :: hv') ++ vals)).
    { apply inv_set_p with (vals := vals); [exact HI | apply incl_app_r | exact HP]. }
    destruct e.
    + destruct (parse_pubkey (set_p c P) P) as [c2 ok2] eqn:Epk. inversion H; subst.
      destruct (parse_pubkey_shape _ _ _ _ Epk) as [->|[Hn [q ->]]]; [exact H1|].
      apply inv_set_spk; assumption.
    + inversion H; subst. exact H1.
    + inversion H; subst. exact H1.
Qed.

Lemma client_parse_inv : forall k h c own vals tbl www info c' ok,
  Inv k h c own vals -> client_parse c tbl www info = Some (c', ok) ->
  Inv k h c' own (carried tbl www ++ carried tbl info ++ vals).
Proof.
  intros k h c own vals tbl www info c' ok HI H. unfold client_parse in H.
  assert (W : forall hv, hv = www \/ hv = info ->
              incl (carried tbl hv ++ vals) (carried tbl www ++ carried tbl info ++ vals)).
  { intros hv [->| ->] x Hx; apply in_app_or in Hx; destruct Hx as [Hx|Hx].
    - apply in_or_app. left. exact Hx.
    - apply in_or_app. right. apply in_or_app. right. exact Hx.
    - apply in_or_app. right. apply in_or_app. left. exact Hx.
    - apply in_or_app. right. apply in_or_app. right. exact Hx. }
  assert (U : incl vals (carried tbl www ++ carried tbl info ++ vals)).
  { intros x Hx. apply in_or_app. right. apply in_or_app. right. exact Hx. }
  destruct (cl_state c) eqn:E; cbn [header_for] in H;
    try (inversion H; subst; eapply inv_weaken; [exact HI | apply incl_refl | exact U]);
    (eapply inv_weaken; [eapply parse_body_inv; [exact HI | exact H] | apply incl_refl | apply W; auto]).
Qed.

(* ---- Run ------------------------------------------------------------------------------- *)
(* a successful verification is a proof of the stored server key's id *)
Lemma verify_proved : forall k h c own vals,
  Inv k h c own vals -> waiting (cl_state c) -> client_verify sym_verify c = true ->
  exists p, cl_spk c = Some p /\ proved k h own vals p.
Proof.
  intros k h c own vals [Hk Hh Hs Hc Hp Hv] Hw H. unfold client_verify in H.
  destruct (plen (p_sig (cl_p c)) =? 0)%Z; [discriminate|].
  destruct (p_sig (cl_p c)) as [v|] eqn:Ev; [|discriminate].
  destruct (pv_dec v) as [sg|] eqn:Ed; [|discriminate].
  destruct (cl_spk c) as [q|] eqn:Eq; [|discriminate].
  exists q. split; [reflexivity|]. exists sg, (cl_chal c). repeat split.
  - apply (Hs v sg eq_refl Ed).
  - apply Hc, Hw.
  - rewrite <- Hk, <- Hh. exact H.
Qed.

(* states in which no id is reported and nothing is pending *)
Lemma inv_idle : forall k h c own vals c',
  Inv k h c own vals ->
  cl_key c' = cl_key c -> cl_host c' = cl_host c -> cl_p c' = cl_p c ->
  cl_state c' = CSignChallenge \/ cl_state c' = CInitiate ->
  Inv k h c' own vals.
Proof.
  intros k h c own vals c' [Hk Hh Hs Hc Hp Hv] E1 E2 E3 Est.
  constructor; [congruence | congruence | rewrite E3; exact Hs | | | ].
  - intros [W|W]; destruct Est; congruence.
  - intros [W|W]; destruct Est; congruence.
  - intros p Hpe. unfold client_peer in Hpe. destruct Est as [E|E]; rewrite E in Hpe; discriminate.
Qed.

Lemma run_sign_inv : forall k h c own vals f c' ok,
  Inv k h c own vals -> cl_state c = CSignChallenge -> run_sign c f = (c', ok) ->
  Inv k h c' (emitted_challenges (cl_out c') ++ own) vals.
Proof.
  intros k h c own vals f c' ok HI Est H. unfold run_sign in H.
  destruct (plen (p_chalC (cl_p c)) <? challengeLen)%Z.
  - inversion H; subst. eapply inv_weaken; [|apply incl_app_r|apply incl_refl].
    eapply inv_idle; [exact HI| | | |]; cbn; auto.
  - destruct (client_sig (set_chal c (atom f))) as [sg|] eqn:Es.
    + inversion H; subst; clear H. destruct HI as [Hk Hh Hs Hc Hp Hv].
      constructor; cbn; [exact Hk | exact Hh | | | | ].
      * intros v t H1 H2. apply (Hs v t H1 H2).
      * intros _. left. reflexivity.
      * intros [W|W]; discriminate.
      * intros p Hpe. discriminate.
    + inversion H; subst. eapply inv_weaken; [|apply incl_app_r|apply incl_refl].
      eapply inv_idle; [exact HI| | | |]; cbn; auto.
Qed.

Lemma client_run_inv : forall k h c own vals f c' ok,
  Inv k h c own vals -> client_run sym_verify c f = (c', ok) ->
  Inv k h c' (emitted_challenges (cl_out c') ++ own) vals.
Proof.
  intros k h c own vals f c' ok HI H. unfold client_run in H.
  destruct (cl_state c) eqn:Est.
  - (* CSignChallenge *) eapply run_sign_inv; eassumption.
  - (* CVerifyChallenge *)
    destruct (client_verify sym_verify c) eqn:Ev.
    + destruct (verify_proved _ _ _ _ _ HI (or_introl Est) Ev) as [p [Hp Hpr]].
      inversion H; subst; clear H. destruct HI as [Hk Hh Hs Hc Hsp Hv].
      constructor; cbn; [exact Hk | exact Hh | exact Hs | | | ].
      * intros [W|W]; discriminate.
      * intros _. exists p. exact Hp.
      * intros q Hq. rewrite Hp in Hq. inversion Hq; subst q.
        eapply proved_mono; [apply incl_app_r | apply incl_refl | exact Hpr].
    + inversion H; subst; clear H. destruct HI as [Hk Hh Hs Hc Hsp Hv].
      constructor; cbn; [exact Hk | exact Hh | exact Hs | | | ].
      * intros _. apply Hc. left. exact Est.
      * rewrite Est. intros [W|W]; discriminate.
      * intros q Hq. unfold client_peer in Hq. cbn in Hq. rewrite Est in Hq. discriminate.
  - (* CDone *) inversion H; subst. eapply inv_weaken; [exact HI | apply incl_app_r | apply incl_refl].
  - (* CInitiate *)
    inversion H; subst; clear H. destruct HI as [Hk Hh Hs Hc Hsp Hv].
    constructor; cbn; [exact Hk | exact Hh | exact Hs | | | ].
    + intros _. left. reflexivity.
    + intros [W|W]; discriminate.
    + intros q Hq. discriminate.
  - (* CVerifyAndSign *)
    destruct ((plen (p_sig (cl_p c)) =? 0)%Z && negb (plen (p_chalC (cl_p c)) =? 0)%Z).
    + eapply (run_sign_inv k h (set_state c CSignChallenge)); [|reflexivity|exact H].
      eapply inv_idle; [exact HI| | | |]; cbn; auto.
    + destruct (client_verify sym_verify c) eqn:Ev.
      * destruct (verify_proved _ _ _ _ _ HI (or_intror Est) Ev) as [p [Hp Hpr]].
        inversion H; subst; clear H. destruct HI as [Hk Hh Hs Hc Hsp Hv].
        constructor; cbn; [exact Hk | exact Hh | exact Hs | | | ].
        -- intros [W|W]; discriminate.
        -- intros _. exists p. exact Hp.
        -- intros q Hq. rewrite Hp in Hq. inversion Hq; subst q.
           eapply proved_mono; [apply incl_app_r | apply incl_refl | exact Hpr].
      * inversion H; subst; clear H. destruct HI as [Hk Hh Hs Hc Hsp Hv].
        constructor; cbn; [exact Hk | exact Hh | exact Hs | | | ].
        -- intros _. apply Hc. right. exact Est.
        -- rewrite Est. intros [W|W]; discriminate.
        -- intros q Hq. unfold client_peer in Hq. cbn in Hq. rewrite Est in Hq. discriminate.
  - (* CWaitBearer *)
    inversion H; subst; clear H. destruct HI as [Hk Hh Hs Hc Hsp Hv].
    constructor; cbn; [exact Hk | exact Hh | exact Hs | | | ].
    + intros [W|W]; discriminate.
    + intros _. apply Hsp. left. exact Est.
    + intros q Hq. eapply proved_mono; [apply incl_app_r | apply incl_refl | apply Hv].
      unfold client_peer. rewrite Est. exact Hq.
Qed.

Definition vals_after (o : cop) (vals : list term) : list term :=
  match o with
  | OParse tbl www info => carried tbl www ++ carried tbl info ++ vals
  | _ => vals
  end.

Lemma cop_step_inv : forall k h c own vals o c' ok,
  Inv k h c own vals -> cop_step c o = Some (c', ok) ->
  Inv k h c' (emitted_challenges (cl_out c') ++ own) (vals_after o vals).
Proof.
  intros k h c own vals o c' ok HI H. destruct o as [|tbl www info|f]; cbn [cop_step vals_after] in *.
  - inversion H; subst. eapply inv_weaken; [|apply incl_app_r|apply incl_refl].
    eapply inv_idle; [exact HI| | | |]; cbn; auto.
  - eapply inv_weaken; [eapply client_parse_inv; [exact HI | exact H] | apply incl_app_r | apply incl_refl].
  - unfold client_run_i in H. destruct (client_run sym_verify c f) as [c2 ok2] eqn:E.
    inversion H; subst. eapply client_run_inv; eassumption.
Qed.

(* THE client clause: whatever sequence of calls, whatever headers: a reported
   server id was proven by a received signature *)
Theorem client_reports_only_proven_l : forall ops k h c own vals,
  Inv k h c own vals ->
  forall c' , (fix go (c : client) (ops : list cop) : option client :=
                 match ops with
                 | [] => Some c
                 | o :: r => match cop_step c o with Some (c1, _) => go c1 r | None => None end
                 end) c ops = Some c' ->
  forall p, client_peer c' = Some p -> exists own' vals', proved k h own' vals' p.
Proof.
  induction ops as [|o ops IH]; intros k h c own vals HI c' H p Hp.
  - inversion H; subst. exists own, vals. apply (inv_proved _ _ _ _ _ HI), Hp.
  - destruct (cop_step c o) as [[c1 ok]|] eqn:E; [|discriminate].
    eapply IH; [eapply cop_step_inv; eassumption | exact H | exact Hp].
Qed.

(* the monitor of Spec.v accepts every trace of the model *)
Theorem monitor_client_model_l : forall ops k h c own vals i steps,
  Inv k h c own vals -> model_csteps c ops = Some steps ->
  monitor_client k h own vals i steps = [].
Proof.
  induction ops as [|o ops IH]; intros k h c own vals i steps HI H; cbn [model_csteps] in H.
  - inversion H. reflexivity.
  - destruct (cop_step c o) as [[c1 ok]|] eqn:E; [|discriminate].
    destruct (model_csteps c1 ops) as [l|] eqn:El; [|discriminate]. inversion H; subst; clear H.
    pose proof (cop_step_inv _ _ _ _ _ _ _ _ HI E) as HI1.
    assert (Hv : (if (cs_op (cstep_of o c1 ok) =? 1)%Z
                  then carried (cs_tbl (cstep_of o c1 ok)) (cs_www (cstep_of o c1 ok)) ++
                       carried (cs_tbl (cstep_of o c1 ok)) (cs_info (cstep_of o c1 ok)) ++ vals
                  else vals) = vals_after o vals) by (destruct o; reflexivity).
    assert (Ho : cs_out (cstep_of o c1 ok) = cl_out c1) by (destruct o; reflexivity).
    assert (Hp : cs_pid (cstep_of o c1 ok) = z_of_on (client_peer c1)) by (destruct o; reflexivity).
    cbn [monitor_client]. rewrite Hv, Ho, Hp.
    destruct (client_peer c1) as [p|] eqn:Ep; cbn [z_of_on].
    + assert (E0 : (0 <=? Z.of_N p)%Z = true) by (apply Z.leb_le; lia). rewrite E0, N2Z.id.
      rewrite (proved_proves _ _ _ _ _ (inv_proved _ _ _ _ _ HI1 p Ep)).
      eapply IH; eassumption.
    + replace (0 <=? -1)%Z with false by reflexivity. eapply IH; eassumption.
Qed.

(* ---- AuthenticatedDo (runHandshake) ------------------------------------------------------ *)
Lemma emitted_app : forall a b, emitted_challenges (a ++ b) = emitted_challenges a ++ emitted_challenges b.
Proof. intros. unfold emitted_challenges. apply flat_map_app. Qed.

Lemma emitted_cons : forall x l,
  emitted_challenges (x :: l) = (if fst x =? N_CHALS then [snd x] else []) ++ emitted_challenges l.
Proof. reflexivity. Qed.

Lemma emitted_echo : forall name v, name <> N_CHALS -> emitted_challenges (echo name v) = [].
Proof.
  intros name v H. unfold echo, wparam. destruct (plen v =? 0)%Z; [reflexivity|].
  cbn. destruct (name =? N_CHALS) eqn:E; [apply N.eqb_eq in E; contradiction | reflexivity].
Qed.

Lemma emitted_sig : forall c sg, client_sig c = Some sg -> emitted_challenges sg = [].
Proof. intros c sg H. unfold client_sig in H. destruct (cl_spk c); inversion H. reflexivity. Qed.

Lemma run_sign_emitted : forall c f c' ok, run_sign c f = (c', ok) ->
  incl (emitted_challenges (cl_out c')) [atom f].
Proof.
  intros c f c' ok H. unfold run_sign in H.
  destruct (plen (p_chalC (cl_p c)) <? challengeLen)%Z.
  - inversion H; subst. cbn. intros x [].
  - destruct (client_sig (set_chal c (atom f))) as [sg|] eqn:Es; inversion H; subst; cbn [cl_out set_state set_out].
    + rewrite !emitted_cons, emitted_app, (emitted_sig _ _ Es), emitted_echo by discriminate.
      cbn. intros x Hx. exact Hx.
    + cbn. intros x Hx. exact Hx.
Qed.

(* a Run emits no challenge but the one it was armed with *)
Lemma client_run_emitted : forall c f c' ok, client_run sym_verify c f = (c', ok) ->
  incl (emitted_challenges (cl_out c')) (atom f :: emitted_challenges (cl_out c)).
Proof.
  intros c f c' ok H. unfold client_run in H.
  assert (S1 : forall c0, run_sign c0 f = (c', ok) ->
                          incl (emitted_challenges (cl_out c')) (atom f :: emitted_challenges (cl_out c))).
  { intros c0 H0 x Hx. apply (run_sign_emitted _ _ _ _ H0) in Hx. destruct Hx as [<-|[]]. left. reflexivity. }
  destruct (cl_state c).
  - apply (S1 c), H.
  - destruct (client_verify sym_verify c); inversion H; subst; cbn [cl_out set_state set_out];
      [rewrite emitted_echo by discriminate|]; intros x [].
  - inversion H; subst. intros x Hx. right. exact Hx.
  - inversion H; subst. cbn. intros x Hx. destruct Hx as [<-|[]]. left. reflexivity.
  - destruct ((plen (p_sig (cl_p c)) =? 0)%Z && negb (plen (p_chalC (cl_p c)) =? 0)%Z).
    + apply (S1 _ H).
    + destruct (client_verify sym_verify c); inversion H; subst; cbn [cl_out set_state set_out].
      * rewrite emitted_app, emitted_echo by discriminate.
        destruct (client_sig c) as [sg|] eqn:Es; [rewrite (emitted_sig _ _ Es)|]; intros x [].
      * intros x [].
  - inversion H; subst. cbn [cl_out set_state set_out]. rewrite emitted_echo by discriminate. intros x [].
Qed.

Lemma parse_pubkey_out : forall c1 P c' ok, parse_pubkey c1 P = (c', ok) -> cl_out c' = cl_out c1.
Proof.
  intros c1 P c' ok H. destruct (parse_pubkey_shape _ _ _ _ H) as [->|[_ [q ->]]]; reflexivity.
Qed.

Lemma client_parse_out : forall c tbl www info c' ok,
  client_parse c tbl www info = Some (c', ok) -> cl_out c' = cl_out c.
Proof.
  intros c tbl www info c' ok H. unfold client_parse in H.
  assert (B : forall hv, parse_body c tbl hv = Some (c', ok) -> cl_out c' = cl_out c).
  { intros hv Hb. unfold parse_body in Hb. destruct hv as [|b0 hv'].
    - inversion Hb. reflexivity.
    - destruct (parse_scheme_params (b0 :: hv') bp_empty) as [bp e].
      destruct (lift_params tbl bp) as [P|]; [|discriminate].
      destruct e; try (inversion Hb; reflexivity).
      destruct (parse_pubkey (set_p c P) P) as [c2 ok2] eqn:E. inversion Hb; subst.
      rewrite (parse_pubkey_out _ _ _ _ E). reflexivity. }
  destruct (cl_state c); try (inversion H; reflexivity); eapply B; exact H.
Qed.

Lemma resp_values_cons : forall r rs,
  resp_values (r :: rs) = (carried (r_tbl r) (r_www r) ++ carried (r_tbl r) (r_info r)) ++ resp_values rs.
Proof. reflexivity. Qed.

(* along the loop: the invariant, with the own challenges inside the armed
   random draws F and the received values inside the responses' values V *)
Lemma loop_proved : forall steps k h c sent resps fresh reqs own vals F V p tok qs,
  Inv k h c own vals -> incl (emitted_challenges (cl_out c)) own ->
  incl own F -> incl vals V -> incl (map atom fresh) F -> incl (resp_values resps) V ->
  handshake_loop sym_verify steps c sent resps fresh reqs = Some (Some (p, tok), qs) ->
  proved k h F V p.
Proof.
  induction steps as [|n IH]; intros k h c sent resps fresh reqs own vals F V p tok qs HI He Ho Hv Hf Hr H;
    cbn [handshake_loop] in H.
  - destruct (is_done c && sent); [|discriminate].
    destruct (client_peer c) as [q|] eqn:Ec; inversion H; subst.
    eapply proved_mono; [exact Ho | exact Hv | apply (inv_proved _ _ _ _ _ HI); exact Ec].
  - destruct (is_done c && sent).
    + destruct (client_peer c) as [q|] eqn:Ec; inversion H; subst.
      eapply proved_mono; [exact Ho | exact Hv | apply (inv_proved _ _ _ _ _ HI); exact Ec].
    + destruct resps as [|r rs]; [discriminate|]. destruct fresh as [|f fs]; [discriminate|].
      destruct (client_parse c (r_tbl r) (r_www r) (r_info r)) as [[c1 ok1]|] eqn:Ep; [|discriminate].
      destruct (client_run sym_verify c1 f) as [c2 ok2] eqn:Er. destruct ok2; [|discriminate].
      pose proof (client_parse_inv _ _ _ _ _ _ _ _ _ _ HI Ep) as HI1.
      pose proof (client_run_inv _ _ _ _ _ _ _ _ HI1 Er) as HI2.
      rewrite resp_values_cons in Hr.
      eapply (IH k h c2 _ rs fs _ _ _ F V p tok qs HI2); try exact H.
      * apply incl_appl, incl_refl.
      * intros x Hx. apply in_app_or in Hx. destruct Hx as [Hx|Hx]; [|apply Ho, Hx].
        apply (client_run_emitted _ _ _ _ Er) in Hx. destruct Hx as [<-|Hx].
        -- apply Hf. left. reflexivity.
        -- rewrite (client_parse_out _ _ _ _ _ _ Ep) in Hx. apply Ho, He, Hx.
      * intros x Hx. rewrite app_assoc in Hx. apply in_app_or in Hx. destruct Hx as [Hx|Hx].
        -- apply Hr. apply in_or_app. left. exact Hx.
        -- apply Hv, Hx.
      * intros x Hx. apply Hf. right. exact Hx.
      * intros x Hx. apply Hr. apply in_or_app. right. exact Hx.
Qed.

(* AuthenticatedDo returns a server id only if a response carried a signature that
   verifies under that id's key over a challenge drawn in this call, the client's
   key and the hostname *)
(* a handshake started by the client: first Run, then the loop *)
Lemma initiate_loop_proved : forall k h f0 fs resps c p tok qs,
  client_run sym_verify (client_set_initiate (client_init k h)) f0 = (c, true) ->
  handshake_loop sym_verify 5 c false resps fs [] = Some (Some (p, tok), qs) ->
  proved k h (map atom (f0 :: fs)) (resp_values resps) p.
Proof.
  intros k h f0 fs resps c p tok qs Er H.
  assert (HI0 : Inv k h (client_set_initiate (client_init k h)) [] []).
  { pose proof (cop_step_inv k h _ [] [] OInit _ true (inv_init k h) eq_refl) as X. exact X. }
  pose proof (client_run_inv _ _ _ _ _ _ _ _ HI0 Er) as HI1.
  eapply (loop_proved 5 k h c false resps fs [] _ _ (map atom (f0 :: fs)) (resp_values resps) p tok qs HI1); try exact H.
  - apply incl_appl, incl_refl.
  - intros x Hx. apply in_app_or in Hx. destruct Hx as [Hx|[]].
    apply (client_run_emitted _ _ _ _ Er) in Hx. destruct Hx as [<-|[]]. left. reflexivity.
  - intros x [].
  - intros x Hx. right. exact Hx.
  - apply incl_refl.
Qed.

(* a handshake started from a 401 answer to a stored token: a new handshake object
   parses that answer, first Run, then the loop *)
Lemma rehandshake_loop_proved : forall k h r1 rs f0 fs c0 ok0 c p tok qs,
  client_parse (client_init k h) (r_tbl r1) (r_www r1) (r_info r1) = Some (c0, ok0) ->
  client_run sym_verify c0 f0 = (c, true) ->
  handshake_loop sym_verify 5 c false rs fs [] = Some (Some (p, tok), qs) ->
  proved k h (map atom (f0 :: fs)) (resp_values (r1 :: rs)) p.
Proof.
  intros k h r1 rs f0 fs c0 ok0 c p tok qs Ep Er H.
  pose proof (client_parse_inv _ _ _ _ _ _ _ _ _ _ (inv_init k h) Ep) as HI0.
  pose proof (client_run_inv _ _ _ _ _ _ _ _ HI0 Er) as HI1.
  rewrite resp_values_cons.
  eapply (loop_proved 5 k h c false rs fs [] _ _ (map atom (f0 :: fs)) _ p tok qs HI1); try exact H.
  - apply incl_appl, incl_refl.
  - intros x Hx. apply in_app_or in Hx. destruct Hx as [Hx|[]].
    apply (client_run_emitted _ _ _ _ Er) in Hx. destruct Hx as [<-|Hx]; [left; reflexivity|].
    rewrite (client_parse_out _ _ _ _ _ _ Ep) in Hx. destruct Hx.
  - intros x Hx. rewrite app_nil_r in Hx. apply in_or_app. left. exact Hx.
  - intros x Hx. right. exact Hx.
  - intros x Hx. apply in_or_app. right. exact Hx.
Qed.

Theorem auth_do_proved_l : forall k h resps fresh p qs,
  auth_do_i k h resps fresh = Some (Some p, qs) ->
  proved k h (map atom fresh) (resp_values resps) p.
Proof.
  intros k h resps fresh p qs H. unfold auth_do_i, auth_do in H. destruct fresh as [|f0 fs]; [discriminate|].
  destruct (client_run sym_verify (client_set_initiate (client_init k h)) f0) as [c ok] eqn:Er.
  destruct ok; [|discriminate].
  destruct (handshake_loop sym_verify 5 c false resps fs []) as [[[[q tok]|] qs']|] eqn:El; try discriminate.
  cbn in H. inversion H; subst. eapply initiate_loop_proved; eassumption.
Qed.

Theorem monitor5_model_l : forall k h resps fresh pid qs,
  auth_do_i k h resps fresh = Some (pid, qs) ->
  monitor5 (mkC5 k h fresh resps (z_of_on pid) qs) = [].
Proof.
  intros k h resps fresh pid qs H. unfold monitor5. cbn [c5_pid c5_key c5_host c5_fresh c5_resps].
  destruct pid as [p|]; cbn [z_of_on]; [|reflexivity].
  assert (E : (0 <=? Z.of_N p)%Z = true) by (apply Z.leb_le; lia). rewrite E, N2Z.id.
  rewrite (proved_proves _ _ _ _ _ (auth_do_proved_l _ _ _ _ _ _ H)). reflexivity.
Qed.

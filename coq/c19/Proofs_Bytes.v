(* C19 — byte-level lemmas: genDataToSign is injective for the protocol's two
   parameter-name sets and separates them; every value the header parser
   returns is a contiguous part of the header value. *)
From Coq Require Import List NArith ZArith Bool Lia.
From Verif Require Import c08.Varint c08.SymCrypto gen.Consts_c19 c19.Model.
Import ListNotations.
Local Open Scope N_scope.

(* ---- genDataToSign ------------------------------------------------------------- *)
Lemma gen_fields_cons : forall p l, gen_fields (p :: l) = put_field (kv p) ++ gen_fields l.
Proof. reflexivity. Qed.

Lemma put_field_nonempty : forall x r, put_field x ++ r <> [].
Proof.
  intros x r H. unfold put_field in H. pose proof (encode_nonempty (nlen x)) as E.
  destruct (encode (nlen x)); [congruence|discriminate].
Qed.

(* the sequence of length-prefixed fields determines the fields *)
Lemma gen_fields_inj : forall l l', gen_fields l = gen_fields l' -> map kv l = map kv l'.
Proof.
  induction l as [|p l IH]; intros [|q l'] H.
  - reflexivity.
  - rewrite gen_fields_cons in H. symmetry in H. apply put_field_nonempty in H. contradiction.
  - rewrite gen_fields_cons in H. apply put_field_nonempty in H. contradiction.
  - rewrite !gen_fields_cons in H. apply put_field_prefix_free in H. destruct H as [H1 H2].
    cbn [map]. rewrite H1. f_equal. apply IH, H2.
Qed.

(* with the same prefix, equal data means the same sorted "k=v" strings *)
Theorem gen_data_inj : forall prefix parts parts',
  gen_data prefix parts = gen_data prefix parts' ->
  map kv (sort_parts parts) = map kv (sort_parts parts').
Proof.
  intros prefix parts parts' H. unfold gen_data in H. apply app_inv_head in H.
  apply gen_fields_inj, H.
Qed.

Lemma kv_same_key : forall k v v', kv (k, v) = kv (k, v') -> v = v'.
Proof.
  intros k v v' H. unfold kv in H. cbn [fst snd] in H. apply app_inv_head in H.
  inversion H. reflexivity.
Qed.

Lemma list3_inj : forall (A : Type) (a b c a' b' c' : A),
  [a; b; c] = [a'; b'; c'] -> a = a' /\ b = b' /\ c = c'.
Proof. intros A a b c a' b' c' H. inversion H. auto. Qed.

Lemma sort_client : forall c s h,
  sort_parts [(k_challenge_client, c); (k_server_public_key, s); (k_hostname, h)] =
  [(k_challenge_client, c); (k_hostname, h); (k_server_public_key, s)].
Proof. intros. reflexivity. Qed.

Lemma sort_server : forall c p h,
  sort_parts [(k_challenge_server, c); (k_client_public_key, p); (k_hostname, h)] =
  [(k_challenge_server, c); (k_client_public_key, p); (k_hostname, h)].
Proof. intros. reflexivity. Qed.

Theorem client_sig_data_inj_l : forall c s h c' s' h',
  client_sig_data c s h = client_sig_data c' s' h' -> c = c' /\ s = s' /\ h = h'.
Proof.
  intros c s h c' s' h' H. unfold client_sig_data in H. apply gen_data_inj in H.
  rewrite !sort_client in H. cbn [map] in H. apply list3_inj in H. destruct H as [H1 [H2 H3]].
  apply kv_same_key in H1. apply kv_same_key in H2. apply kv_same_key in H3. auto.
Qed.

Theorem server_sig_data_inj_l : forall c p h c' p' h',
  server_sig_data c p h = server_sig_data c' p' h' -> c = c' /\ p = p' /\ h = h'.
Proof.
  intros c p h c' p' h' H. unfold server_sig_data in H. apply gen_data_inj in H.
  rewrite !sort_server in H. cbn [map] in H. apply list3_inj in H. destruct H as [H1 [H2 H3]].
  apply kv_same_key in H1. apply kv_same_key in H2. apply kv_same_key in H3. auto.
Qed.

(* what a client signs is never what a server signs *)
Theorem sig_data_separated_l : forall c s h c' p' h',
  client_sig_data c s h <> server_sig_data c' p' h'.
Proof.
  intros c s h c' p' h' H. unfold client_sig_data, server_sig_data in H. apply gen_data_inj in H.
  rewrite sort_client, sort_server in H. cbn [map] in H. apply list3_inj in H. destruct H as [H1 _].
  unfold kv in H1. cbn in H1. discriminate.
Qed.

(* ---- contiguous parts ---------------------------------------------------------- *)
Definition infixP (x l : bytes) : Prop := exists a b, l = a ++ x ++ b.

Lemma infixP_refl : forall l, infixP l l.
Proof. intros l. exists [], []. rewrite app_nil_r. reflexivity. Qed.

Lemma infixP_trans : forall x y z, infixP x y -> infixP y z -> infixP x z.
Proof.
  intros x y z [a [b H1]] [c [d H2]]. subst. exists (c ++ a), (b ++ d).
  rewrite !app_assoc. reflexivity.
Qed.

Lemma infixP_app_r : forall x a l, infixP x l -> infixP x (a ++ l).
Proof. intros x a l [c [d H]]. subst. exists (a ++ c), d. rewrite !app_assoc. reflexivity. Qed.

Lemma infixP_app_l : forall x l b, infixP x l -> infixP x (l ++ b).
Proof.
  intros x l b [c [d H]]. subst. exists c, (d ++ b). rewrite <- !app_assoc. reflexivity.
Qed.

Lemma is_prefix_true : forall p l, is_prefix p l = true <-> exists r, l = p ++ r.
Proof.
  induction p as [|x p IH]; intros l; cbn [is_prefix].
  - split; [intros _; exists l; reflexivity | reflexivity].
  - destruct l as [|y l]; [split; [discriminate | intros [r H]; discriminate]|].
    rewrite andb_true_iff, N.eqb_eq, IH. split.
    + intros [-> [r ->]]. exists r. reflexivity.
    + intros [r H]. inversion H. split; [reflexivity | exists r; reflexivity].
Qed.


(* ---- the parser only returns contiguous parts of the header ---------------------- *)
Lemma after_first_infix : forall p l rest, after_first p l = Some rest -> exists a, l = a ++ p ++ rest.
Proof.
  intros p l. induction l as [|x l IH]; intros rest H.
  - cbn [after_first] in H. destruct (is_prefix p []) eqn:E; [|discriminate].
    inversion H; subst. apply is_prefix_true in E. destruct E as [r E].
    exists []. cbn [app]. rewrite E at 1.
    assert (List.length ([] : bytes) = List.length (p ++ r)) by (rewrite <- E; reflexivity).
    rewrite app_length in H0. cbn in H0. destruct p; [|cbn in H0; lia]. destruct r; [|cbn in H0; lia].
    reflexivity.
  - cbn [after_first] in H. destruct (is_prefix p (x :: l)) eqn:E.
    + inversion H; subst. apply is_prefix_true in E. destruct E as [r E]. exists [].
      cbn [app]. rewrite E. rewrite skipn_app, Nat.sub_diag, skipn_all. cbn [skipn app]. reflexivity.
    + destruct (IH rest H) as [a Ha]. exists (x :: a). cbn [app]. rewrite <- Ha. reflexivity.
Qed.

Lemma skip_seps_suffix : forall l, exists pre, l = pre ++ skip_seps l.
Proof.
  induction l as [|b l [pre IH]]; cbn [skip_seps].
  - exists []. reflexivity.
  - destruct (is_sep b).
    + exists (b :: pre). cbn [app]. rewrite <- IH. reflexivity.
    + exists []. reflexivity.
Qed.

Lemma span_tok_app : forall l t s, span_tok l = (t, s) -> l = t ++ s.
Proof.
  induction l as [|b l IH]; intros t s H; cbn [span_tok] in H.
  - inversion H. reflexivity.
  - destruct (is_sep b).
    + inversion H. reflexivity.
    + destruct (span_tok l) as [t' s'] eqn:E. inversion H; subst.
      cbn [app]. rewrite (IH t' s eq_refl). reflexivity.
Qed.

Lemma span_tok_shorter : forall l t s, span_tok l = (t, s) -> (List.length s <= List.length l)%nat.
Proof.
  intros l t s H. apply span_tok_app in H. subst. rewrite app_length. lia.
Qed.

Lemma split_params_tok : forall data tok rest, split_params data = STok tok rest ->
  infixP tok data /\ infixP rest data /\ (List.length rest < List.length data)%nat.
Proof.
  intros data tok rest H. unfold split_params in H. destruct data as [|d0 data']; [discriminate|].
  destruct (skip_seps_suffix (d0 :: data')) as [pre Hpre].
  destruct (skip_seps (d0 :: data')) as [|y l] eqn:E; [discriminate|].
  destruct (span_tok (y :: l)) as [t s] eqn:Es.
  destruct (has_byte EQ t) eqn:Eh; [|discriminate]. inversion H; subst.
  pose proof (span_tok_app _ _ _ Es) as Happ.
  assert (Hne : tok <> []) by (intros ->; discriminate).
  repeat split.
  - exists pre, rest. rewrite Hpre, Happ. reflexivity.
  - exists (pre ++ tok), []. rewrite Hpre, Happ, app_nil_r, app_assoc. reflexivity.
  - rewrite Hpre, Happ, !app_length. destruct tok; [congruence|cbn [List.length]; lia].
Qed.

Lemma cut_eq_suffix : forall l k v, cut_eq l = (k, v) -> exists pre, l = pre ++ v.
Proof.
  induction l as [|b l IH]; intros k v H; cbn [cut_eq] in H.
  - inversion H. exists []. reflexivity.
  - destruct (N.eqb b EQ).
    + inversion H; subst. exists [b]. reflexivity.
    + destruct (cut_eq l) as [k' v'] eqn:E. inversion H; subst.
      destruct (IH k' v eq_refl) as [pre Hp]. exists (b :: pre). cbn [app]. rewrite <- Hp. reflexivity.
Qed.

Lemma unquote_infix : forall v m, unquote v = Some m -> infixP m v.
Proof.
  intros v m H. unfold unquote in H. destruct v as [|q r]; [discriminate|].
  destruct (N.eqb q QUOTE); [|discriminate].
  destruct (rev r) as [|q' m'] eqn:E; [discriminate|].
  destruct (N.eqb q' QUOTE); [|discriminate]. inversion H; subst.
  exists [q], [q']. cbn [app]. f_equal.
  rewrite <- (rev_involutive r), E. cbn [rev]. reflexivity.
Qed.

(* all parameter values of a record are contiguous parts of [hdr] *)
Definition bp_values (p : bparams) : list (option bytes) :=
  [b_bearer p; b_chalC p; b_chalS p; b_opaque p; b_pk p; b_sig p].

Definition bp_within (hdr : bytes) (p : bparams) : Prop :=
  forall raw, In (Some raw) (bp_values p) -> infixP raw hdr.

Lemma bp_within_empty : forall hdr, bp_within hdr bp_empty.
Proof.
  intros hdr raw H. cbn in H. repeat (destruct H as [H|H]; [discriminate|]). contradiction.
Qed.

Lemma bp_within_set : forall hdr p k v, bp_within hdr p -> infixP v hdr -> bp_within hdr (set_bparam p k v).
Proof.
  intros hdr p k v Hp Hv raw H. unfold set_bparam in H.
  repeat match type of H with
         | context [if ?c then _ else _] => destruct c
         end;
  cbn [bp_values b_bearer b_chalC b_chalS b_opaque b_pk b_sig In] in H;
  repeat (destruct H as [H|H];
          [first [ injection H as <-; exact Hv
                 | apply Hp; rewrite <- H; cbn [bp_values In]; tauto ] |]);
  try contradiction.
Qed.

Lemma parse_loop_within : forall fuel hdr data p p' ok,
  infixP data hdr -> bp_within hdr p -> parse_loop fuel data p = (p', ok) -> bp_within hdr p'.
Proof.
  induction fuel as [|f IH]; intros hdr data p p' ok Hd Hp H; cbn [parse_loop] in H.
  - inversion H; subst. exact Hp.
  - destruct (split_params data) as [| |tok rest] eqn:Es.
    + inversion H; subst. exact Hp.
    + inversion H; subst. exact Hp.
    + destruct (cut_eq tok) as [k v] eqn:Ec. destruct (unquote v) as [v'|] eqn:Eu.
      * destruct (split_params_tok _ _ _ Es) as [Ht [Hr _]].
        apply (IH hdr rest (set_bparam p k v') p' ok).
        -- eapply infixP_trans; eassumption.
        -- apply bp_within_set; [exact Hp|].
           destruct (cut_eq_suffix _ _ _ Ec) as [pre Hpre].
           eapply infixP_trans; [apply unquote_infix; exact Eu|].
           eapply infixP_trans; [|eapply infixP_trans; [exact Ht | exact Hd]].
           exists pre, []. rewrite app_nil_r. exact Hpre.
        -- exact H.
      * inversion H; subst. exact Hp.
Qed.

Theorem parse_scheme_params_within : forall hdr p e,
  parse_scheme_params hdr bp_empty = (p, e) -> bp_within hdr p.
Proof.
  intros hdr p e H. unfold parse_scheme_params in H.
  destruct (maxHeaderSize <? Z.of_nat (List.length hdr))%Z.
  - inversion H; subst. apply bp_within_empty.
  - destruct (after_first scheme hdr) as [rest|] eqn:Ea.
    + destruct (parse_loop (S (List.length rest)) rest bp_empty) as [p1 ok] eqn:El.
      inversion H; subst. eapply parse_loop_within; [|apply bp_within_empty|exact El].
      destruct (after_first_infix _ _ _ Ea) as [a Ha]. exists (a ++ scheme), [].
      rewrite app_nil_r, <- app_assoc. exact Ha.
    + inversion H; subst. apply bp_within_empty.
Qed.

(* C19 — ClientPeerIDAuth's token map across hostnames: one client object used against
   several servers under several hostnames (req.Host set, or empty with req.URL.Host
   set).  The entry of a hostname is only ever written by a handshake bound to that
   very hostname, and only read by requests that name it; the history monitor of
   Spec.v (kind 8) accepts every history of the model. *)
From Coq Require Import List NArith ZArith Bool Lia.
From Verif Require Import lib.Wire c08.Varint c08.SymCrypto gen.Consts_c19
     c19.Model c19.Spec c19.Proofs_Bytes c19.Proofs_Server c19.Proofs_Step c19.Proofs_Client
     c19.Proofs_Cache.
Import ListNotations.
Local Open Scope N_scope.

(* ---- the model's histories as cases ----------------------------------------------------- *)
Fixpoint model_hcalls (k : N) (m : tmap) (calls : list (N * N * list resp * list N)) : option (list call8) :=
  match calls with
  | [] => Some []
  | (rh, uh, resps, fresh) :: rest =>
      match auth_call_h_i k m rh uh resps fresh with
      | None => None
      | Some (pid, qs, m') =>
          match model_hcalls k m' rest with
          | Some l => Some (mkHCall rh uh (mkCall fresh resps (z_of_on pid) qs) :: l)
          | None => None
          end
      end
  end.

(* every hostname's entry was produced by the handshake the monitor remembers for
   that hostname *)
Definition tmap_inv (k : N) (m : tmap) (ls : lasts) : Prop :=
  forall h, cache_inv k h (tm_get h m) (find_last h ls).

Lemma tm_get_set : forall h r ca m,
  tm_get h (tm_set r ca m) =
  if N.eqb h r then match ca with Some _ => ca | None => tm_get r m end else tm_get h m.
Proof.
  intros h r ca m. destruct ca as [e|]; cbn [tm_set tm_get].
  - destruct (N.eqb h r); reflexivity.
  - destruct (N.eqb h r) eqn:E; [|reflexivity]. apply N.eqb_eq in E. subst. reflexivity.
Qed.

Lemma tm_get_set_same : forall h r m, tm_get h (tm_set r (tm_get r m) m) = tm_get h m.
Proof.
  intros h r m. rewrite tm_get_set. destruct (N.eqb h r) eqn:E; [|reflexivity].
  apply N.eqb_eq in E. subst. destruct (tm_get r m); reflexivity.
Qed.

Lemma tmap_inv_same : forall k m ls r, tmap_inv k m ls -> tmap_inv k (tm_set r (tm_get r m) m) ls.
Proof. intros k m ls r HI h. rewrite tm_get_set_same. apply HI. Qed.

Lemma names_first : forall e rh uh c, exists rest, names e (mkHCall rh uh c) = rh :: rest.
Proof.
  intros e rh uh c. unfold names. cbn [c8_rhost c8_uhost]. destruct (N.eqb rh e) eqn:E.
  - apply N.eqb_eq in E. subst. eexists. reflexivity.
  - eexists. reflexivity.
Qed.

(* a call that reports an id leaves an entry *)
Lemma auth_call_some : forall k h ca resps fresh p qs ca',
  auth_call sym_verify k h ca resps fresh = Some (Some p, qs, ca') -> exists e, ca' = Some e.
Proof.
  intros k h ca resps fresh p qs ca' H. unfold auth_call in H. destruct ca as [[tok cp]|].
  - destruct resps as [|r1 rs]; [discriminate|].
    destruct (negb (r_status r1 =? 401)%Z); [inversion H; subst; eexists; reflexivity|].
    destruct fresh as [|f0 fs]; [discriminate|].
    destruct (client_parse (client_init k h) (r_tbl r1) (r_www r1) (r_info r1)) as [[c0 ok0]|]; [|discriminate].
    destruct (client_run sym_verify c0 f0) as [c ok]. destruct ok; [|discriminate].
    destruct (handshake_loop sym_verify 5 c false rs fs []) as [[[[p' tok']|] qs']|]; try discriminate.
    inversion H; subst. eexists. reflexivity.
  - destruct fresh as [|f0 fs]; [discriminate|].
    destruct (client_run sym_verify (client_set_initiate (client_init k h)) f0) as [c ok]. destruct ok; [|discriminate].
    destruct (handshake_loop sym_verify 5 c false resps fs []) as [[[[p' tok']|] qs']|]; try discriminate.
    inversion H; subst. eexists. reflexivity.
Qed.

(* one call of the model: the monitor's check of it passes, and the invariant is kept
   (with the monitor's own next state) *)
Lemma auth_call_h_monitored : forall k e m ls rh uh resps fresh pid qs m' i rest,
  tmap_inv k m ls -> auth_call_h_i k m rh uh resps fresh = Some (pid, qs, m') ->
  exists ls', tmap_inv k m' ls' /\
    monitor_hcalls k e ls i (mkHCall rh uh (mkCall fresh resps (z_of_on pid) qs) :: rest)
    = monitor_hcalls k e ls' (i + 1) rest.
Proof.
  intros k e m ls rh uh resps fresh pid qs m' i rest HI H.
  unfold auth_call_h_i, auth_call_h in H.
  destruct (auth_call sym_verify k rh (tm_get rh m) resps fresh) as [[[pid0 qs0] ca']|] eqn:Ec; [|discriminate].
  inversion H; subst pid0 qs0 m'; clear H.
  pose proof (auth_call_monitored k rh (tm_get rh m) (find_last rh ls) resps fresh pid qs ca' (HI rh) Ec) as M.
  destruct (names_first e rh uh (mkCall fresh resps (z_of_on pid) qs)) as [more En].
  cbn [monitor_hcalls c8_call ca_pid ca_reqs ca_fresh ca_resps]. rewrite En.
  destruct pid as [p|]; cbn [z_of_on].
  - assert (E0 : (0 <=? Z.of_N p)%Z = true) by (apply Z.leb_le; lia). rewrite E0, N2Z.id.
    destruct (is_token_path qs).
    + destruct M as [-> (F & V & Hl & Hp)]. exists ls. split; [apply tmap_inv_same, HI|].
      cbn [token_ok existsb]. rewrite Hl, (proved_proves _ _ _ _ _ Hp). reflexivity.
    + destruct M as [Hp HI']. cbn [bound_host]. rewrite (proved_proves _ _ _ _ _ Hp).
      exists ((rh, (map atom fresh, resp_values resps)) :: ls). split; [|reflexivity].
      destruct (auth_call_some _ _ _ _ _ _ _ _ Ec) as [en ->].
      intro h. rewrite tm_get_set. cbn [find_last]. destruct (N.eqb h rh) eqn:E.
      * apply N.eqb_eq in E. subst h. exact HI'.
      * apply HI.
  - replace (0 <=? -1)%Z with false by reflexivity. exists ls. split; [|reflexivity].
    destruct M as [->|[-> E]]; [apply tmap_inv_same, HI|].
    pose proof (tmap_inv_same k m ls rh HI) as X. rewrite E in X. exact X.
Qed.

(* THE history clause across hostnames: the monitor accepts every history of the model *)
Theorem monitor_hcalls_model_l : forall calls k e m ls i cs,
  tmap_inv k m ls -> model_hcalls k m calls = Some cs -> monitor_hcalls k e ls i cs = [].
Proof.
  induction calls as [|[[[rh uh] resps] fresh] calls IH]; intros k e m ls i cs HI H; cbn [model_hcalls] in H.
  - inversion H. reflexivity.
  - destruct (auth_call_h_i k m rh uh resps fresh) as [[[pid qs] m']|] eqn:Ec; [|discriminate].
    destruct (model_hcalls k m' calls) as [l|] eqn:El; [|discriminate]. inversion H; subst; clear H.
    destruct (auth_call_h_monitored k e m ls rh uh resps fresh pid qs m' i l HI Ec) as (ls' & HI' & ->).
    eapply IH; eassumption.
Qed.

Lemma tmap_inv_empty : forall k, tmap_inv k [] [].
Proof. intros k h. exact I. Qed.

(* in words: whatever the token map holds for OTHER hostnames, the id a call reports
   was proven for the hostname of this request - in this very call, or by the handshake
   (bound to this hostname) that produced this hostname's entry *)
Theorem reported_id_proven_for_this_hostname_l : forall k m ls rh uh resps fresh p qs m',
  tmap_inv k m ls -> auth_call_h_i k m rh uh resps fresh = Some (Some p, qs, m') ->
  proved k rh (map atom fresh) (resp_values resps) p \/
  exists F V, find_last rh ls = Some (F, V) /\ proved k rh F V p.
Proof.
  intros k m ls rh uh resps fresh p qs m' HI H. unfold auth_call_h_i, auth_call_h in H.
  destruct (auth_call sym_verify k rh (tm_get rh m) resps fresh) as [[[pid0 qs0] ca']|] eqn:Ec; [|discriminate].
  inversion H; subst pid0 qs0 m'; clear H.
  pose proof (auth_call_monitored k rh (tm_get rh m) (find_last rh ls) resps fresh (Some p) qs ca' (HI rh) Ec) as M.
  cbn beta iota in M. destruct (is_token_path qs).
  - right. destruct M as [_ X]. exact X.
  - left. destruct M as [X _]. exact X.
Qed.

(* a request for a hostname that has no entry of its own never uses another hostname's
   token: it reports only what it proves itself *)
Theorem no_entry_no_borrowed_identity_l : forall k m rh uh resps fresh p qs m',
  tm_get rh m = None -> auth_call_h_i k m rh uh resps fresh = Some (Some p, qs, m') ->
  proved k rh (map atom fresh) (resp_values resps) p.
Proof.
  intros k m rh uh resps fresh p qs m' Hn H.
  unfold auth_call_h_i, auth_call_h in H. rewrite Hn in H. cbn [auth_call] in H.
  destruct fresh as [|f0 fs]; [discriminate|].
  destruct (client_run sym_verify (client_set_initiate (client_init k rh)) f0) as [c ok] eqn:Er.
  destruct ok; [|discriminate].
  destruct (handshake_loop sym_verify 5 c false resps fs []) as [[[[p' tok']|] qs']|] eqn:El; try discriminate.
  inversion H; subst. eapply initiate_loop_proved; eassumption.
Qed.

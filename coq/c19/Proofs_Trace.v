(* C19 — traces of honest servers and clients with the adversary; the shapes of
   what a server emits. *)
From Coq Require Import List NArith ZArith Bool Lia.
From Verif Require Import lib.Wire c08.Varint c08.SymCrypto gen.Consts_c19
     c19.Model c19.Spec c19.Proofs_Bytes c19.Proofs_Server c19.Proofs_Step c19.Proofs_Adv.
Import ListNotations.
Local Open Scope N_scope.

(* what honest parties did (ghost log) *)
Inductive litem :=
| LServerSig (sv : server) (host : N) (chalS cpk : term)   (* sv signed msg_server chalS cpk host *)
| LClientSig (c : N) (chal : term) (spk host : N)          (* c signed msg_client chal (TPub spk) host *)
| LMint (sv : server) (st : ostate)                        (* sv MACed this state *)
| LAccept (sv : server) (host : N) (now : Z) (p : N).      (* sv reported p to the application *)

Inductive event :=
| EvServer (sv : server) (host : N) (now : Z) (fresh : N) (o : option params)   (* None: no Authorization header *)
| EvClient (c : N) (chal : term) (spk host : N).

Definition sig_items (sv : server) (host : N) (out : ohdr) : list litem :=
  flat_map (fun x => match snd x with
                     | TSig _ (TPair (TBytes [2]) (TPair c (TPair b _))) _ => [LServerSig sv host c b]
                     | _ => []
                     end) out.

Definition mint_items (sv : server) (out : ohdr) : list litem :=
  flat_map (fun x => match snd x with
                     | TPair (TMac _ f) _ =>
                         match dec_state f with Some st => [LMint sv st] | None => [] end
                     | _ => []
                     end) out.

Definition server_log (sv : server) (host : N) (now : Z) (r : sres) : list litem :=
  match r with
  | SOk _ pid out =>
      (match pid with Some p => [LAccept sv host now p] | None => [] end)
      ++ sig_items sv host out ++ mint_items sv out
  | SErr _ => []
  end.

Definition out_terms (r : sres) : list term :=
  match r with SOk _ _ out => map snd out | SErr _ => [] end.

Definition pvals (P : params) : list (option pval) :=
  [p_bearer P; p_chalC P; p_chalS P; p_opaque P; p_pk P; p_sig P].

(* every decoded header value is something the adversary can derive *)
Definition derivable (kn : list term) (P : params) : Prop :=
  forall v t, In (Some v) (pvals P) -> pv_dec v = Some t -> knows kn t = true.

(* a request with (Some P) or without (None) an Authorization header *)
Definition server_any (sv : server) (host : N) (now : Z) (fresh : N) (o : option params) : sres :=
  match o with
  | None => run_challenge_client sv host now fresh
  | Some P => server_run_i sv host now fresh P
  end.
Definition params_of (o : option params) : params := match o with Some P => P | None => p_empty end.

Definition state := (list term * list litem)%type.

Definition step (s : state) (e : event) : state :=
  let '(kn, log) := s in
  match e with
  | EvServer sv host now fresh o =>
      let r := server_any sv host now fresh o in
      (flat_map subterms (out_terms r) ++ kn, server_log sv host now r ++ log)
  | EvClient c chal spk host =>
      (flat_map subterms [TSig c (msg_client chal (TPub spk) (atom host)) 0] ++ kn,
       [LClientSig c chal spk host] ++ log)
  end.

Definition run (s : state) (tr : list event) : state := fold_left step tr s.

(* ---- the shapes of a server's answers ------------------------------------------------ *)
Definition sig_out (sv : server) (host : N) (c b : term) : ohdr :=
  [(N_SIG, TSig (sv_key sv) (msg_server c b (atom host)) 0)].

Lemma server_sig_shape : forall sv host P cpk ss,
  server_sig sv host P cpk = Some ss -> ss = sig_out sv host (raw_term (p_chalS P)) cpk.
Proof.
  intros sv host P cpk ss H. unfold server_sig in H.
  destruct (plen (p_chalS P) <? challengeLen)%Z; [discriminate|]. inversion H. reflexivity.
Qed.

Lemma raw_term_bytes : forall v, exists l, raw_term v = TBytes l.
Proof.
  intros [x|]; cbn [raw_term]; [destruct (pv_len x =? 0)%Z|]; eexists; reflexivity.
Qed.

(* where the key of a verified signature came from *)
Definition key_from (sv : server) (P : params) (pkb : term) : Prop :=
  (exists v, p_pk P = Some v /\ pv_dec v = Some pkb) \/
  (exists oq blob s, p_opaque P = Some oq /\ pv_dec oq = Some blob /\ authentic sv blob s /\
                     os_cpk s = Some pkb).

Inductive shape (sv : server) (host : N) (now : Z) (fresh : N) (P : params) : sres -> Prop :=
| ShErr : forall e, shape sv host now fresh P (SErr e)
| ShChallenge :
    shape sv host now fresh P
          (SOk SChallengeClient None
               [(N_CHALC, atom fresh); (N_PK, TPub (sv_key sv));
                (N_OPAQUE, mk_blob (sv_mac sv) (challenge_state host now fresh None))])
| ShSign : forall pk cpk,
    p_pk P = Some pk -> pv_dec pk = Some cpk ->
    shape sv host now fresh P
          (SOk SSignChallenge None
               ([(N_CHALC, atom fresh); (N_PK, TPub (sv_key sv))] ++
                sig_out sv host (raw_term (p_chalS P)) cpk ++
                [(N_OPAQUE, mk_blob (sv_mac sv) (challenge_state host now fresh (norm_cpk cpk)))]))
| ShVerify : forall p sigs,
    challenge_proven sv host now p P ->
    (sigs = [] \/ exists pkb, key_from sv P pkb /\ sigs = sig_out sv host (raw_term (p_chalS P)) pkb) ->
    shape sv host now fresh P
          (SOk SVerifyChallenge (Some p)
               (sigs ++ [(N_BEARER, mk_blob (sv_mac sv) (token_state host now p))]))
| ShBearer : forall pid,
    (forall p, pid = Some p -> token_proven sv now p P) ->
    shape sv host now fresh P (SOk SVerifyBearer pid []).

Lemma key_source_from : forall sv P blob s pkb ci oq,
  p_opaque P = Some oq -> pv_dec oq = Some blob -> authentic sv blob s ->
  key_source s P = Some (pkb, ci) -> key_from sv P pkb.
Proof.
  intros sv P blob s pkb ci oq Ho Hd Ha H. unfold key_source in H.
  destruct (os_cpk s) as [b|] eqn:Ec.
  - inversion H; subst. right. exists oq, blob, s. auto.
  - destruct (plen (p_pk P) =? 0)%Z; [discriminate|].
    destruct (p_pk P) as [v|] eqn:Ep; [|discriminate].
    destruct (pv_dec v) as [b|] eqn:Ed; [|discriminate]. inversion H; subst.
    left. exists v. auto.
Qed.

Theorem server_run_shape : forall sv host now fresh P,
  shape sv host now fresh P (server_run_i sv host now fresh P).
Proof.
  intros sv host now fresh P. unfold server_run_i, server_run.
  destruct (select_state P) as [[| | |]|]; [apply ShChallenge| | | |apply ShErr].
  - (* verify challenge *)
    destruct (run_verify_challenge sym_verify sym_mac_check sv host now P) as [e|st pid out] eqn:E; [apply ShErr|].
    pose proof E as E0. unfold run_verify_challenge in E.
    destruct (p_opaque P) as [oq|] eqn:Eo; [|discriminate].
    destruct (p_sig P) as [sg|] eqn:Es; [|discriminate].
    destruct (pv_dec oq) as [blob|] eqn:Ed; [|discriminate].
    destruct (open_blob sym_mac_check (sv_mac sv) blob) as [e|s] eqn:Eb; [discriminate|].
    destruct (now >? os_created s + challengeTTL)%Z; [discriminate|].
    destruct (os_token s); [discriminate|].
    destruct (negb (host =? os_host s)); [discriminate|].
    destruct (key_source s P) as [[pkb ci]|] eqn:Ek; [|discriminate].
    destruct (unmarshal_pk pkb) as [k|]; [|discriminate].
    destruct (pv_dec sg) as [sgt|]; [|discriminate].
    destruct (sym_verify (TPub k) (msg_client (os_chal s) (TPub (sv_key sv)) (atom host)) sgt); [|discriminate].
    pose proof (open_blob_ok sym_mac_check sym_mac_ideal _ _ _ Eb) as Ha.
    destruct ci.
    + inversion E; subst. apply (ShVerify sv host now fresh P k []).
      * eapply verify_challenge_proven; [apply sym_ideal | apply sym_mac_ideal | exact E0].
      * left. reflexivity.
    + destruct (server_sig sv host P pkb) as [ss|] eqn:Ess; [|discriminate]. inversion E; subst.
      apply (ShVerify sv host now fresh P k ss).
      * eapply verify_challenge_proven; [apply sym_ideal | apply sym_mac_ideal | exact E0].
      * right. exists pkb. split; [eapply key_source_from; eassumption | eapply server_sig_shape; exact Ess].
  - (* bearer *)
    destruct (run_verify_bearer sym_mac_check sv now P) as [e|st pid out] eqn:E; [apply ShErr|].
    pose proof E as E0. unfold run_verify_bearer in E.
    destruct (p_bearer P) as [b|]; [|discriminate]. destruct (pv_dec b) as [blob|]; [|discriminate].
    destruct (open_blob sym_mac_check (sv_mac sv) blob) as [e|s]; [discriminate|].
    destruct (negb (os_token s)); [discriminate|].
    destruct (now >? os_created s + sv_ttl sv)%Z; [discriminate|]. inversion E; subst.
    apply ShBearer. intros p Hp. rewrite Hp in E0. eapply verify_bearer_proven; [apply sym_mac_ideal | exact E0].
  - (* sign challenge *)
    unfold run_sign_challenge. destruct (p_pk P) as [pk|] eqn:Ep; [|apply ShErr].
    destruct (pv_dec pk) as [cpk|] eqn:Ed; [|apply ShErr].
    destruct (server_sig sv host P cpk) as [ss|] eqn:Ess; [|apply ShErr].
    rewrite (server_sig_shape _ _ _ _ _ Ess). eapply ShSign; eassumption.
Qed.

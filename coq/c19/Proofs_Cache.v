(* C19 — ClientPeerIDAuth's token cache: along every history of AuthenticatedDo calls
   the id returned on the stored-token path is one that the handshake which produced
   the token proved; the history monitor of Spec.v accepts every history of the model. *)
From Coq Require Import List NArith ZArith Bool Lia.
From Verif Require Import lib.Wire c08.Varint c08.SymCrypto gen.Consts_c19
     c19.Model c19.Spec c19.Proofs_Bytes c19.Proofs_Server c19.Proofs_Step c19.Proofs_Client.
Import ListNotations.
Local Open Scope N_scope.

(* ---- the requests a handshake sends ---------------------------------------------------- *)
Lemma loop_prefix : forall steps c sent resps fresh reqs x qs,
  handshake_loop sym_verify steps c sent resps fresh reqs = Some (x, qs) ->
  exists more, qs = rev reqs ++ more.
Proof.
  induction steps as [|n IH]; intros c sent resps fresh reqs x qs H; cbn [handshake_loop] in H.
  - destruct (is_done c && sent); inversion H; subst; exists []; rewrite app_nil_r; reflexivity.
  - destruct (is_done c && sent); [inversion H; subst; exists []; rewrite app_nil_r; reflexivity|].
    assert (E : rev (cl_out c :: reqs) = rev reqs ++ [cl_out c]) by reflexivity.
    destruct resps as [|r rs]; [inversion H; subst; cbn [rev]; eexists; reflexivity|].
    destruct fresh as [|f fs]; [inversion H; subst; cbn [rev]; eexists; reflexivity|].
    destruct (client_parse c (r_tbl r) (r_www r) (r_info r)) as [[c1 ok1]|]; [|discriminate].
    destruct (client_run sym_verify c1 f) as [c2 ok2]. destruct ok2.
    + destruct (IH _ _ _ _ _ _ _ H) as [more Hm]. rewrite E in Hm. rewrite <- app_assoc in Hm.
      eexists. exact Hm.
    + inversion H; subst. cbn [rev]. eexists. reflexivity.
Qed.

(* a handshake that succeeds sends the header of the first Run first *)
Lemma loop_first : forall steps c resps fresh y qs,
  handshake_loop sym_verify steps c false resps fresh [] = Some (Some y, qs) ->
  exists more, qs = cl_out c :: more.
Proof.
  intros steps c resps fresh y qs H. destruct steps as [|n]; cbn [handshake_loop] in H;
    rewrite andb_false_r in H; [discriminate|].
  destruct resps as [|r rs]; [discriminate|]. destruct fresh as [|f fs]; [discriminate|].
  destruct (client_parse c (r_tbl r) (r_www r) (r_info r)) as [[c1 ok1]|]; [|discriminate].
  destruct (client_run sym_verify c1 f) as [c2 ok2]. destruct ok2; [|discriminate].
  destruct (loop_prefix _ _ _ _ _ _ _ _ H) as [more Hm]. exists more. exact Hm.
Qed.

(* ---- the stored token carries no challenge ------------------------------------------------ *)
Definition done_clean (c : client) : Prop := is_done c = true -> emitted_challenges (cl_out c) = [].

Lemma parse_pubkey_state : forall c1 P c' ok, parse_pubkey c1 P = (c', ok) -> cl_state c' = cl_state c1.
Proof.
  intros c1 P c' ok H. destruct (parse_pubkey_shape _ _ _ _ H) as [->|[_ [q ->]]]; reflexivity.
Qed.

Lemma client_parse_state : forall c tbl www info c' ok,
  client_parse c tbl www info = Some (c', ok) -> cl_state c' = cl_state c.
Proof.
  intros c tbl www info c' ok H. unfold client_parse in H.
  assert (B : forall hv, parse_body c tbl hv = Some (c', ok) -> cl_state c' = cl_state c).
  { intros hv Hb. unfold parse_body in Hb. destruct hv as [|b0 hv'].
    - inversion Hb. reflexivity.
    - destruct (parse_scheme_params (b0 :: hv') bp_empty) as [bp e].
      destruct (lift_params tbl bp) as [P|]; [|discriminate].
      destruct e; try (inversion Hb; reflexivity).
      destruct (parse_pubkey (set_p c P) P) as [c2 ok2] eqn:E. inversion Hb; subst.
      rewrite (parse_pubkey_state _ _ _ _ E). reflexivity. }
  remember (cl_state c) as st0 eqn:Est.
  destruct st0; try (inversion H; subst; symmetry; exact Est); eapply B; exact H.
Qed.

Lemma parse_done_clean : forall c tbl www info c' ok,
  done_clean c -> client_parse c tbl www info = Some (c', ok) -> done_clean c'.
Proof.
  intros c tbl www info c' ok Hd H Hdone. unfold is_done in Hdone.
  rewrite (client_parse_state _ _ _ _ _ _ H) in Hdone. rewrite (client_parse_out _ _ _ _ _ _ H).
  apply Hd. exact Hdone.
Qed.

Lemma run_sign_not_done : forall c f c' ok, cl_state c = CSignChallenge -> run_sign c f = (c', ok) -> is_done c' = false.
Proof.
  intros c f c' ok Est H. unfold run_sign in H.
  destruct (plen (p_chalC (cl_p c)) <? challengeLen)%Z.
  - inversion H; subst. unfold is_done. cbn. rewrite Est. reflexivity.
  - destruct (client_sig (set_chal c (atom f))); inversion H; subst; unfold is_done; cbn; [reflexivity|].
    rewrite Est. reflexivity.
Qed.

Lemma run_done_clean : forall c f c' ok,
  done_clean c -> client_run sym_verify c f = (c', ok) -> done_clean c'.
Proof.
  intros c f c' ok Hd H Hdone. unfold client_run in H. destruct (cl_state c) eqn:Est.
  - rewrite (run_sign_not_done _ _ _ _ Est H) in Hdone. discriminate.
  - destruct (client_verify sym_verify c); inversion H; subst.
    + cbn [cl_out set_state set_out]. apply emitted_echo. discriminate.
    + unfold is_done in Hdone. cbn in Hdone. rewrite Est in Hdone. discriminate.
  - inversion H; subst. apply Hd. unfold is_done. rewrite Est. reflexivity.
  - inversion H; subst. discriminate.
  - destruct ((plen (p_sig (cl_p c)) =? 0)%Z && negb (plen (p_chalC (cl_p c)) =? 0)%Z).
    + rewrite (run_sign_not_done (set_state c CSignChallenge) _ _ _ eq_refl H) in Hdone. discriminate.
    + destruct (client_verify sym_verify c); inversion H; subst; [discriminate|].
      unfold is_done in Hdone. cbn in Hdone. rewrite Est in Hdone. discriminate.
  - inversion H; subst. cbn [cl_out set_state set_out]. apply emitted_echo. discriminate.
Qed.

Lemma loop_token_clean : forall steps c sent resps fresh reqs p tok qs,
  done_clean c ->
  handshake_loop sym_verify steps c sent resps fresh reqs = Some (Some (p, tok), qs) ->
  emitted_challenges tok = [].
Proof.
  induction steps as [|n IH]; intros c sent resps fresh reqs p tok qs Hd H; cbn [handshake_loop] in H.
  - destruct (is_done c && sent) eqn:E; [|discriminate]. apply andb_true_iff in E.
    destruct (client_peer c); inversion H; subst. apply Hd, E.
  - destruct (is_done c && sent) eqn:E.
    + apply andb_true_iff in E. destruct (client_peer c); inversion H; subst. apply Hd, E.
    + destruct resps as [|r rs]; [discriminate|]. destruct fresh as [|f fs]; [discriminate|].
      destruct (client_parse c (r_tbl r) (r_www r) (r_info r)) as [[c1 ok1]|] eqn:Ep; [|discriminate].
      destruct (client_run sym_verify c1 f) as [c2 ok2] eqn:Er. destruct ok2; [|discriminate].
      eapply (IH c2); [|exact H]. eapply run_done_clean; [|exact Er]. eapply parse_done_clean; eassumption.
Qed.

Lemma not_done_clean : forall c, is_done c = false -> done_clean c.
Proof. intros c H Hd. congruence. Qed.

(* ---- the model's histories as cases ----------------------------------------------------- *)
Fixpoint model_calls (k h : N) (ca : cache) (calls : list (list resp * list N)) : option (list call7) :=
  match calls with
  | [] => Some []
  | (resps, fresh) :: rest =>
      match auth_call_i k h ca resps fresh with
      | None => None
      | Some (pid, qs, ca') =>
          match model_calls k h ca' rest with
          | Some l => Some (mkCall fresh resps (z_of_on pid) qs :: l)
          | None => None
          end
      end
  end.

(* the cached entry: its token carries no challenge, and its id was proven by the
   handshake whose draws / received values the monitor remembers *)
Definition cache_inv (k h : N) (ca : cache) (last : option (list term * list term)) : Prop :=
  match ca with
  | None => True
  | Some (tok, cp) =>
      emitted_challenges tok = [] /\ exists F V, last = Some (F, V) /\ proved k h F V cp
  end.

Lemma token_path_single : forall tok, emitted_challenges tok = [] -> is_token_path [tok] = true.
Proof. intros tok H. unfold is_token_path. rewrite H. reflexivity. Qed.

Lemma token_path_two : forall a b more, is_token_path (a :: b :: more) = false.
Proof. reflexivity. Qed.

Lemma initiate_out : forall k h f0 c ok,
  client_run sym_verify (client_set_initiate (client_init k h)) f0 = (c, ok) ->
  emitted_challenges (cl_out c) = [atom f0] /\ is_done c = false.
Proof. intros k h f0 c ok H. cbn in H. inversion H; subst. split; reflexivity. Qed.

Lemma token_path_first_run : forall q more, emitted_challenges q <> [] -> is_token_path (q :: more) = false.
Proof.
  intros q more H. destruct more; [|reflexivity]. unfold is_token_path.
  destruct (emitted_challenges q); [congruence | reflexivity].
Qed.

(* one call of the model: what the monitor checks holds, and the cache invariant is kept *)
Lemma auth_call_monitored : forall k h ca last resps fresh pid qs ca',
  cache_inv k h ca last -> auth_call_i k h ca resps fresh = Some (pid, qs, ca') ->
  match pid with
  | None => ca' = ca \/ ca' = None /\ ca = None
  | Some p =>
      if is_token_path qs then
        ca' = ca /\ exists F V, last = Some (F, V) /\ proved k h F V p
      else
        proved k h (map atom fresh) (resp_values resps) p /\
        cache_inv k h ca' (Some (map atom fresh, resp_values resps))
  end.
Proof.
  intros k h ca last resps fresh pid qs ca' HI H. unfold auth_call_i, auth_call in H.
  destruct ca as [[tok cp]|].
  - destruct HI as [Htok (F & V & Hl & Hp)].
    destruct resps as [|r1 rs]; [inversion H; subst; left; reflexivity|].
    destruct (negb (r_status r1 =? 401)%Z).
    + inversion H; subst. rewrite (token_path_single _ Htok). split; [reflexivity|]. exists F, V. auto.
    + destruct fresh as [|f0 fs]; [discriminate|].
      destruct (client_parse (client_init k h) (r_tbl r1) (r_www r1) (r_info r1)) as [[c0 ok0]|] eqn:Ep; [|discriminate].
      destruct (client_run sym_verify c0 f0) as [c ok] eqn:Er. destruct ok.
      * destruct (handshake_loop sym_verify 5 c false rs fs []) as [[[[p tok']|] qs']|] eqn:El; [| |discriminate].
        -- inversion H; subst. destruct (loop_first _ _ _ _ _ _ El) as [more ->].
           rewrite token_path_two. split.
           ++ eapply rehandshake_loop_proved; eassumption.
           ++ split.
              ** eapply loop_token_clean; [|exact El]. eapply run_done_clean; [|exact Er].
                 eapply parse_done_clean; [|exact Ep]. apply not_done_clean. reflexivity.
              ** eexists _, _. split; [reflexivity|]. eapply rehandshake_loop_proved; eassumption.
        -- inversion H; subst. left. reflexivity.
      * inversion H; subst. left. reflexivity.
  - destruct fresh as [|f0 fs]; [discriminate|].
    destruct (client_run sym_verify (client_set_initiate (client_init k h)) f0) as [c ok] eqn:Er. destruct ok.
    + destruct (handshake_loop sym_verify 5 c false resps fs []) as [[[[p tok']|] qs']|] eqn:El; [| |discriminate].
      * inversion H; subst. destruct (loop_first _ _ _ _ _ _ El) as [more ->].
        destruct (initiate_out _ _ _ _ _ Er) as [Eo Ed].
        rewrite token_path_first_run by (rewrite Eo; discriminate). split.
        -- eapply initiate_loop_proved; eassumption.
        -- split.
           ++ eapply loop_token_clean; [|exact El]. apply not_done_clean, Ed.
           ++ eexists _, _. split; [reflexivity|]. eapply initiate_loop_proved; eassumption.
      * inversion H; subst. left. reflexivity.
    + inversion H; subst. left. reflexivity.
Qed.

(* THE history clause: the monitor accepts every history of the model *)
Theorem monitor_calls_model_l : forall calls k h ca last i cs,
  cache_inv k h ca last -> model_calls k h ca calls = Some cs -> monitor_calls k h last i cs = [].
Proof.
  induction calls as [|[resps fresh] calls IH]; intros k h ca last i cs HI H; cbn [model_calls] in H.
  - inversion H. reflexivity.
  - destruct (auth_call_i k h ca resps fresh) as [[[pid qs] ca']|] eqn:Ec; [|discriminate].
    destruct (model_calls k h ca' calls) as [l|] eqn:El; [|discriminate]. inversion H; subst; clear H.
    pose proof (auth_call_monitored _ _ _ _ _ _ _ _ _ HI Ec) as M.
    cbn [monitor_calls ca_pid ca_reqs ca_fresh ca_resps]. destruct pid as [p|]; cbn [z_of_on].
    + assert (E0 : (0 <=? Z.of_N p)%Z = true) by (apply Z.leb_le; lia). rewrite E0, N2Z.id.
      destruct (is_token_path qs).
      * destruct M as [-> (F & V & -> & Hp)]. rewrite (proved_proves _ _ _ _ _ Hp).
        eapply IH; [|exact El]. exact HI.
      * destruct M as [Hp HI']. rewrite (proved_proves _ _ _ _ _ Hp). eapply IH; [exact HI' | exact El].
    + replace (0 <=? -1)%Z with false by reflexivity.
      eapply IH; [|exact El]. destruct M as [->|[-> ->]]; [exact HI | exact I].
Qed.

(* in words, for the stored-token path: whatever the history, an id returned by a
   call that only presented the stored token was proven in the handshake that
   produced that token *)
Theorem cached_id_was_proven_l : forall k h tok cp last r1 rs fresh,
  cache_inv k h (Some (tok, cp)) last -> (r_status r1 =? 401)%Z = false ->
  auth_call_i k h (Some (tok, cp)) (r1 :: rs) fresh = Some (Some cp, [tok], Some (tok, cp)) /\
  exists F V, last = Some (F, V) /\ proved k h F V cp.
Proof.
  intros k h tok cp last r1 rs fresh [Ht (F & V & Hl & Hp)] Hs. split.
  - unfold auth_call_i, auth_call. rewrite Hs. reflexivity.
  - exists F, V. auto.
Qed.

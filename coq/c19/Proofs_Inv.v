(* C19 — the trace invariant: every sensitive term the adversary holds was made
   by an honest party for a logged purpose; every accept traces back to a
   signature by the reported peer over a challenge this server minted. *)
From Coq Require Import List NArith ZArith Bool Lia.
From Verif Require Import lib.Wire c08.Varint c08.SymCrypto gen.Consts_c19
     c19.Model c19.Spec c19.Proofs_Bytes c19.Proofs_Server c19.Proofs_Step c19.Proofs_Adv c19.Proofs_Trace.
Import ListNotations.
Local Open Scope N_scope.

Section Invariant.
  Variable secret : N -> bool.
  Variable svs : list server.
  (* the servers' HMAC secrets are secret, and two honest servers do not share one *)
  Hypothesis svs_secret : forall sv, In sv svs -> secret (sv_mac sv) = true.
  Hypothesis svs_mac_inj : forall a b, In a svs -> In b svs -> sv_mac a = sv_mac b -> a = b.

  Definition sig_just (log : list litem) (k : N) (m : term) : Prop :=
    (exists chal spk host, m = msg_client chal (TPub spk) (atom host) /\ In (LClientSig k chal spk host) log) \/
    (exists sv host c b, sv_key sv = k /\ m = msg_server c b (atom host) /\ In (LServerSig sv host c b) log).

  Definition mac_just (log : list litem) (k : N) (f : term) : Prop :=
    exists sv st, sv_mac sv = k /\ f = enc_state st /\ In (LMint sv st) log.

  (* p signed a challenge that sv minted, for sv's key and that hostname *)
  Definition rooted (log : list litem) (sv : server) (p host : N) : Prop :=
    exists st0, In (LMint sv st0) log /\ os_token st0 = false /\ os_host st0 = host /\
                In (LClientSig p (os_chal st0) (sv_key sv) host) log.

  Definition origin_of (log : list litem) (sv : server) (host : N) (now : Z) (p : N) : Prop :=
    (exists st0, In (LMint sv st0) log /\ os_token st0 = false /\ os_host st0 = host /\
                 (now <= os_created st0 + challengeTTL)%Z /\
                 In (LClientSig p (os_chal st0) (sv_key sv) host) log) \/
    (exists st, In (LMint sv st) log /\ os_token st = true /\ os_pid st = Some p /\
                (now <= os_created st + sv_ttl sv)%Z /\ rooted log sv p (os_host st)).

  Record KnGood (kn : list term) (log : list litem) : Prop := mkKG {
    g_closed : closed kn;
    g_keys : no_secret_keys secret kn;
    g_sig : forall k m r, secret k = true -> In (TSig k m r) kn -> sig_just log k m;
    g_mac : forall k f, secret k = true -> In (TMac k f) kn -> mac_just log k f
  }.

  Record LogGood (log : list litem) : Prop := mkLG {
    g_mint_srv : forall sv st, In (LMint sv st) log -> In sv svs;
    g_token : forall sv st p, In (LMint sv st) log -> os_token st = true -> os_pid st = Some p ->
                              secret p = true -> rooted log sv p (os_host st);
    g_accept : forall sv host now p, In (LAccept sv host now p) log -> secret p = true ->
                                     origin_of log sv host now p
  }.

  (* ---- monotonicity in the log ---------------------------------------------------------- *)
  Lemma sig_just_mono : forall log log' k m, incl log log' -> sig_just log k m -> sig_just log' k m.
  Proof.
    intros log log' k m Hi [(c & s & h & E & H)|(sv & h & c & b & E1 & E2 & H)]; [left|right].
    - exists c, s, h. split; [exact E | apply Hi, H].
    - exists sv, h, c, b. repeat split; [exact E1 | exact E2 | apply Hi, H].
  Qed.

  Lemma mac_just_mono : forall log log' k f, incl log log' -> mac_just log k f -> mac_just log' k f.
  Proof.
    intros log log' k f Hi (sv & st & E1 & E2 & H). exists sv, st. repeat split; [exact E1|exact E2|apply Hi, H].
  Qed.

  Lemma rooted_mono : forall log log' sv p h, incl log log' -> rooted log sv p h -> rooted log' sv p h.
  Proof.
    intros log log' sv p h Hi (st0 & H1 & H2 & H3 & H4). exists st0. repeat split; auto.
  Qed.

  Lemma origin_mono : forall log log' sv h now p, incl log log' -> origin_of log sv h now p -> origin_of log' sv h now p.
  Proof.
    intros log log' sv h now p Hi [(st0 & H1 & H2 & H3 & H4 & H5)|(st & H1 & H2 & H3 & H4 & H5)]; [left|right].
    - exists st0. repeat split; auto.
    - exists st. repeat split; auto. eapply rooted_mono; eassumption.
  Qed.

  (* ---- sensitive sub-terms of what honest parties emit ------------------------------------ *)
  Lemma sens_pair : forall a b s, In s (subterms (TPair a b)) -> sens secret s = true ->
    In s (subterms a) \/ In s (subterms b).
  Proof.
    intros a b s H Hs. cbn [subterms] in H. destruct H as [<-|H]; [discriminate|]. apply in_app_or, H.
  Qed.

  Lemma sens_bytes : forall l s, In s (subterms (TBytes l)) -> sens secret s = true -> False.
  Proof. intros l s [<-|[]] H. discriminate. Qed.

  Lemma sens_pub : forall k s, In s (subterms (TPub k)) -> sens secret s = true -> False.
  Proof. intros k s [<-|[]] H. discriminate. Qed.

  Lemma enc_state_sens : forall st s, In s (subterms (enc_state st)) -> sens secret s = true ->
    (exists t, os_cpk st = Some t /\ In s (subterms t)) \/ In s (subterms (os_chal st)).
  Proof.
    intros st s H Hs. unfold enc_state in H.
    apply sens_pair in H; [|exact Hs]. destruct H as [H|H]; [exfalso; eapply sens_bytes; eassumption|].
    apply sens_pair in H; [|exact Hs]. destruct H as [H|H].
    { left. destruct (os_cpk st) as [t|]; cbn [enc_opt] in H.
      - apply sens_pair in H; [|exact Hs]. destruct H as [H|H]; [exfalso; eapply sens_bytes; eassumption|].
        exists t. split; [reflexivity | exact H].
      - exfalso; eapply sens_bytes; eassumption. }
    apply sens_pair in H; [|exact Hs]. destruct H as [H|H].
    { exfalso. destruct (os_pid st) as [q|]; cbn [enc_opt option_map] in H.
      - apply sens_pair in H; [|exact Hs]. destruct H as [H|H]; eapply sens_bytes; eassumption.
      - eapply sens_bytes; eassumption. }
    apply sens_pair in H; [|exact Hs]. destruct H as [H|H]; [right; exact H|].
    exfalso. apply sens_pair in H; [|exact Hs]. destruct H as [H|H]; eapply sens_bytes; eassumption.
  Qed.

  Lemma blob_sens : forall mac st s, In s (subterms (mk_blob mac st)) -> sens secret s = true ->
    s = TMac mac (enc_state st) \/ (exists t, os_cpk st = Some t /\ In s (subterms t)) \/
    In s (subterms (os_chal st)).
  Proof.
    intros mac st s H Hs. unfold mk_blob in H. apply sens_pair in H; [|exact Hs].
    destruct H as [H|H].
    - cbn [subterms] in H. destruct H as [<-|H]; [left; reflexivity|].
      right. apply enc_state_sens; assumption.
    - right. apply enc_state_sens; assumption.
  Qed.

  Lemma sig_sens : forall k c b h s,
    In s (subterms (TSig k (msg_server c b (atom h)) 0)) -> sens secret s = true ->
    s = TSig k (msg_server c b (atom h)) 0 \/ In s (subterms c) \/ In s (subterms b).
  Proof.
    intros k c b h s H Hs. cbn [subterms] in H. destruct H as [<-|H]; [left; reflexivity|]. right.
    change (In s (subterms (msg_server c b (atom h)))) in H. unfold msg_server in H.
    apply sens_pair in H; [|exact Hs]. destruct H as [H|H]; [exfalso; eapply sens_bytes; eassumption|].
    apply sens_pair in H; [|exact Hs]. destruct H as [H|H]; [left; exact H|].
    apply sens_pair in H; [|exact Hs]. destruct H as [H|H]; [right; exact H|].
    exfalso; eapply sens_bytes; eassumption.
  Qed.

  (* ---- tracing a proof back to the log ------------------------------------------------------ *)
  Lemma authentic_minted : forall kn log sv blob s,
    KnGood kn log -> LogGood log -> In sv svs -> knows kn blob = true -> authentic sv blob s ->
    In (LMint sv s) log.
  Proof.
    intros kn log sv blob s KG LG Hsv Hk [fields [-> Hd]].
    destruct (knows_pair kn _ _ (g_closed _ _ KG) Hk) as [Hm _].
    apply (known_mac_in secret kn _ _ (g_closed _ _ KG) (g_keys _ _ KG) (svs_secret sv Hsv)) in Hm.
    destruct (g_mac _ _ KG _ _ (svs_secret sv Hsv) Hm) as (sv' & st' & E1 & E2 & Hin).
    assert (sv' = sv) by (apply svs_mac_inj; [eapply g_mint_srv; eassumption | exact Hsv | exact E1]).
    subst sv'. subst fields. rewrite dec_enc_state in Hd. inversion Hd; subst. exact Hin.
  Qed.

  Lemma challenge_origin : forall kn log sv host now p P,
    KnGood kn log -> LogGood log -> In sv svs -> derivable kn P -> secret p = true ->
    challenge_proven sv host now p P ->
    exists st0, In (LMint sv st0) log /\ os_token st0 = false /\ os_host st0 = host /\
                (now <= os_created st0 + challengeTTL)%Z /\
                In (LClientSig p (os_chal st0) (sv_key sv) host) log.
  Proof.
    intros kn log sv host now p P KG LG Hsv Hd Hp (oq & sg & blob & s & sgt & Ho & Hs & Hdo & Hds & Ha & Htk & Hh & Ht & Hor).
    assert (Kb : knows kn blob = true) by (apply (Hd oq); [rewrite <- Ho; cbn; tauto | exact Hdo]).
    assert (Ks : knows kn sgt = true) by (apply (Hd sg); [rewrite <- Hs; cbn; tauto | exact Hds]).
    exists s. repeat split; try assumption.
    - apply (authentic_minted kn log sv blob s); assumption.
    - unfold sym_origin in Hor. destruct sgt; try discriminate. inversion Hor; subst.
      apply (known_sig_in secret kn _ _ _ (g_closed _ _ KG) (g_keys _ _ KG) Hp) in Ks.
      destruct (g_sig _ _ KG _ _ _ Hp Ks) as [(c & spk & h & E & Hin)|(sv' & h & c & b & _ & E & _)].
      + unfold msg_client, atom in E. inversion E; subst. exact Hin.
      + unfold msg_client, msg_server in E. discriminate.
  Qed.

  Lemma token_origin : forall kn log sv now p P,
    KnGood kn log -> LogGood log -> In sv svs -> derivable kn P -> token_proven sv now p P ->
    exists st, In (LMint sv st) log /\ os_token st = true /\ os_pid st = Some p /\
               (now <= os_created st + sv_ttl sv)%Z.
  Proof.
    intros kn log sv now p P KG LG Hsv Hd (b & blob & s & Hb & Hdb & Ha & Htk & Hp & Ht).
    assert (Kb : knows kn blob = true) by (apply (Hd b); [rewrite <- Hb; cbn; tauto | exact Hdb]).
    exists s. repeat split; try assumption. apply (authentic_minted kn log sv blob s); assumption.
  Qed.

  (* ---- extending knowledge and log ---------------------------------------------------------- *)
  Definition just_new (log' : list litem) (s : term) : Prop :=
    match s with
    | TSig k m _ => sig_just log' k m
    | TMac k f => mac_just log' k f
    | _ => False
    end.

  Lemma kn_extend : forall kn log log' ts,
    KnGood kn log -> incl log log' ->
    (forall s, In s (flat_map subterms ts) -> sens secret s = true -> In s kn \/ just_new log' s) ->
    KnGood (flat_map subterms ts ++ kn) log'.
  Proof.
    intros kn log log' ts [Hc Hk Hs Hm] Hi Hnew. constructor.
    - apply closed_add, Hc.
    - intros k Hsec Hin. apply in_app_or in Hin. destruct Hin as [Hin|Hin]; [|apply (Hk k Hsec Hin)].
      destruct (Hnew _ Hin Hsec) as [H|H]; [apply (Hk k Hsec H) | exact H].
    - intros k m r Hsec Hin. apply in_app_or in Hin. destruct Hin as [Hin|Hin].
      + destruct (Hnew _ Hin Hsec) as [H|H]; [eapply sig_just_mono; [exact Hi | eapply Hs; eassumption] | exact H].
      + eapply sig_just_mono; [exact Hi | eapply Hs; eassumption].
    - intros k f Hsec Hin. apply in_app_or in Hin. destruct Hin as [Hin|Hin].
      + destruct (Hnew _ Hin Hsec) as [H|H]; [eapply mac_just_mono; [exact Hi | eapply Hm; eassumption] | exact H].
      + eapply mac_just_mono; [exact Hi | eapply Hm; eassumption].
  Qed.

  Lemma incl_app_r' : forall (A : Type) (a b : list A), incl b (a ++ b).
  Proof. intros A a b x H. apply in_or_app. right. exact H. Qed.

  Lemma log_extend : forall log new,
    LogGood log ->
    (forall sv st, In (LMint sv st) new -> In sv svs) ->
    (forall sv st p, In (LMint sv st) new -> os_token st = true -> os_pid st = Some p ->
                     secret p = true -> rooted (new ++ log) sv p (os_host st)) ->
    (forall sv host now p, In (LAccept sv host now p) new -> secret p = true ->
                           origin_of (new ++ log) sv host now p) ->
    LogGood (new ++ log).
  Proof.
    intros log new [H1 H2 H3] N1 N2 N3. constructor.
    - intros sv st Hin. apply in_app_or in Hin. destruct Hin; [eapply N1 | eapply H1]; eassumption.
    - intros sv st p Hin Ht Hp Hs. apply in_app_or in Hin. destruct Hin as [Hin|Hin]; [eapply N2; eassumption|].
      eapply rooted_mono; [apply incl_app_r' | eapply H2; eassumption].
    - intros sv host now p Hin Hs. apply in_app_or in Hin. destruct Hin as [Hin|Hin]; [eapply N3; eassumption|].
      eapply origin_mono; [apply incl_app_r' | eapply H3; eassumption].
  Qed.

  (* an honest client signs what it is given *)
  Lemma step_client : forall kn log c chal spk host,
    KnGood kn log -> LogGood log -> knows kn chal = true ->
    KnGood (flat_map subterms [TSig c (msg_client chal (TPub spk) (atom host)) 0] ++ kn)
           ([LClientSig c chal spk host] ++ log) /\
    LogGood ([LClientSig c chal spk host] ++ log).
  Proof.
    intros kn log c chal spk host KG LG Hk. split.
    - eapply kn_extend; [exact KG | apply incl_app_r' |].
      intros s Hin Hs. cbn [flat_map] in Hin. rewrite app_nil_r in Hin.
      cbn [subterms] in Hin. destruct Hin as [<-|Hin].
      + right. cbn [just_new]. left. exists chal, spk, host. split; [reflexivity | left; reflexivity].
      + left. change (In s (subterms (msg_client chal (TPub spk) (atom host)))) in Hin. unfold msg_client in Hin.
        apply sens_pair in Hin; [|exact Hs]. destruct Hin as [Hin|Hin]; [exfalso; eapply sens_bytes; eassumption|].
        apply sens_pair in Hin; [|exact Hs]. destruct Hin as [Hin|Hin].
        * eapply (knows_sens secret kn (g_closed _ _ KG) (g_keys _ _ KG)); eassumption.
        * exfalso. apply sens_pair in Hin; [|exact Hs].
          destruct Hin as [Hin|Hin]; [eapply sens_bytes | eapply sens_pub]; eassumption.
    - apply log_extend; [exact LG | | | ].
      + intros sv st [H|[]]. discriminate.
      + intros sv st p [H|[]]. discriminate.
      + intros sv h now p [H|[]]. discriminate.
  Qed.

  (* ---- the log a server's answer produces ----------------------------------------------------- *)
  Lemma mint_items_blob : forall sv n mac st, mint_items sv [(n, mk_blob mac st)] = [LMint sv st].
  Proof. intros. unfold mint_items, mk_blob. cbn [flat_map snd]. rewrite dec_enc_state. reflexivity. Qed.

  Lemma mint_items_app : forall sv a b, mint_items sv (a ++ b) = mint_items sv a ++ mint_items sv b.
  Proof. intros. unfold mint_items. apply flat_map_app. Qed.

  Lemma sig_items_app : forall sv h a b, sig_items sv h (a ++ b) = sig_items sv h a ++ sig_items sv h b.
  Proof. intros. unfold sig_items. apply flat_map_app. Qed.

  Lemma norm_cpk_some : forall c t, norm_cpk c = Some t -> t = c.
  Proof. intros c t H. unfold norm_cpk in H. destruct c; try (inversion H; reflexivity). destruct b; [discriminate | inversion H; reflexivity]. Qed.

  (* the client key inside a known state is known *)
  Lemma knows_state_cpk : forall kn s t, closed kn -> knows kn (enc_state s) = true ->
    os_cpk s = Some t -> knows kn t = true.
  Proof.
    intros kn s t Hc Hk Ht. unfold enc_state in Hk. rewrite Ht in Hk. cbn [enc_opt] in Hk.
    apply knows_pair in Hk; [|exact Hc]. destruct Hk as [_ Hk].
    apply knows_pair in Hk; [|exact Hc]. destruct Hk as [Hk _].
    apply knows_pair in Hk; [|exact Hc]. exact (proj2 Hk).
  Qed.

  Lemma key_from_known : forall kn log sv P pkb,
    KnGood kn log -> LogGood log -> In sv svs -> derivable kn P -> key_from sv P pkb -> knows kn pkb = true.
  Proof.
    intros kn log sv P pkb KG LG Hsv Hd [(v & Hv & Hdv)|(oq & blob & s & Ho & Hdo & Ha & Hc)].
    - apply (Hd v); [rewrite <- Hv; cbn; tauto | exact Hdv].
    - assert (Kb : knows kn blob = true) by (apply (Hd oq); [rewrite <- Ho; cbn; tauto | exact Hdo]).
      pose proof Ha as Ha0. destruct Ha as [fields [-> Hds]].
      destruct (knows_pair kn _ _ (g_closed _ _ KG) Kb) as [Hm Hf].
      apply (known_mac_in secret kn _ _ (g_closed _ _ KG) (g_keys _ _ KG) (svs_secret sv Hsv)) in Hm.
      destruct (g_mac _ _ KG _ _ (svs_secret sv Hsv) Hm) as (sv' & st' & _ & E2 & _).
      subst fields. rewrite dec_enc_state in Hds. inversion Hds; subst.
      eapply knows_state_cpk; [apply (g_closed _ _ KG) | exact Hf | exact Hc].
  Qed.

  (* sensitive sub-terms of a blob an honest server mints from known material *)
  Lemma minted_blob_new : forall kn log log' sv st s,
    KnGood kn log -> In (LMint sv st) log' ->
    (forall t, os_cpk st = Some t -> knows kn t = true) ->
    (exists l, os_chal st = TBytes l) ->
    In s (subterms (mk_blob (sv_mac sv) st)) -> sens secret s = true ->
    In s kn \/ just_new log' s.
  Proof.
    intros kn log log' sv st s KG Hl Hc [l Hch] Hin Hs.
    destruct (blob_sens _ _ _ Hin Hs) as [->|[(t & Ht & Hin')|Hin']].
    - right. cbn [just_new]. exists sv, st. repeat split. exact Hl.
    - left. eapply (knows_sens secret kn (g_closed _ _ KG) (g_keys _ _ KG)); [apply Hc, Ht | exact Hin' | exact Hs].
    - rewrite Hch in Hin'. exfalso. eapply sens_bytes; eassumption.
  Qed.

  Lemma server_sig_new : forall kn log log' sv host c b s,
    KnGood kn log -> In (LServerSig sv host c b) log' ->
    (exists l, c = TBytes l) -> knows kn b = true ->
    In s (subterms (TSig (sv_key sv) (msg_server c b (atom host)) 0)) -> sens secret s = true ->
    In s kn \/ just_new log' s.
  Proof.
    intros kn log log' sv host c b s KG Hl [l ->] Hb Hin Hs.
    destruct (sig_sens _ _ _ _ _ Hin Hs) as [->|[Hin'|Hin']].
    - right. cbn [just_new]. right. exists sv, host, (TBytes l), b. repeat split. exact Hl.
    - exfalso. eapply sens_bytes; eassumption.
    - left. eapply (knows_sens secret kn (g_closed _ _ KG) (g_keys _ _ KG)); eassumption.
  Qed.

  (* ---- one honest server step preserves the invariant ------------------------------------------ *)
  Lemma in_terms : forall s ts, In s (flat_map subterms ts) -> exists x, In x ts /\ In s (subterms x).
  Proof. intros s ts H. apply in_flat_map in H. exact H. Qed.

  Lemma step_shape : forall kn log sv host now fresh P r,
    KnGood kn log -> LogGood log -> In sv svs -> derivable kn P -> shape sv host now fresh P r ->
    KnGood (flat_map subterms (out_terms r) ++ kn) (server_log sv host now r ++ log) /\
    LogGood (server_log sv host now r ++ log).
  Proof.
    intros kn log sv host now fresh P r KG LG Hsv Hd Sh.
    destruct Sh as [e| |pk cpk Hpk Hdpk|p sigs Hcp Hsigs|pid Htp].
    - (* error *) cbn [out_terms server_log flat_map app]. split; assumption.
    - (* a fresh challenge *)
      set (st0 := challenge_state host now fresh None).
      assert (EL : server_log sv host now
                     (SOk SChallengeClient None
                          [(N_CHALC, atom fresh); (N_PK, TPub (sv_key sv)); (N_OPAQUE, mk_blob (sv_mac sv) st0)])
                   = [LMint sv st0]).
      { unfold server_log, sig_items, mint_items, mk_blob. cbn [flat_map snd app atom]. rewrite dec_enc_state. reflexivity. }
      rewrite EL. split.
      + eapply kn_extend; [exact KG | apply incl_app_r' |].
        intros s Hin Hs. apply in_terms in Hin. destruct Hin as [x [Hx Hin]].
        cbn [out_terms map snd In] in Hx. destruct Hx as [<-|[<-|[<-|[]]]].
        * exfalso; eapply sens_bytes; eassumption.
        * exfalso; eapply sens_pub; eassumption.
        * eapply minted_blob_new; [exact KG | left; reflexivity | | | exact Hin | exact Hs].
          -- intros t Ht. discriminate.
          -- eexists. reflexivity.
      + apply log_extend; [exact LG | | | ].
        * intros sv' st [H|[]]. inversion H; subst. exact Hsv.
        * intros sv' st p [H|[]] Ht. inversion H; subst. discriminate.
        * intros sv' h n p [H|[]]. discriminate.
    - (* signing the client's challenge *)
      set (st1 := challenge_state host now fresh (norm_cpk cpk)).
      set (c := raw_term (p_chalS P)).
      assert (Kc : knows kn cpk = true) by (apply (Hd pk); [rewrite <- Hpk; cbn; tauto | exact Hdpk]).
      assert (EL : server_log sv host now
                     (SOk SSignChallenge None
                          ([(N_CHALC, atom fresh); (N_PK, TPub (sv_key sv))] ++ sig_out sv host c cpk ++
                           [(N_OPAQUE, mk_blob (sv_mac sv) st1)]))
                   = [LServerSig sv host c cpk; LMint sv st1]).
      { unfold server_log, sig_out, sig_items, mint_items, mk_blob, msg_server.
        cbn [flat_map snd app atom]. rewrite dec_enc_state. reflexivity. }
      rewrite EL. split.
      + eapply kn_extend; [exact KG | apply incl_app_r' |].
        intros s Hin Hs. apply in_terms in Hin. destruct Hin as [x [Hx Hin]].
        unfold sig_out in Hx. cbn [out_terms map snd In app] in Hx. destruct Hx as [<-|[<-|[<-|[<-|[]]]]].
        * exfalso; eapply sens_bytes; eassumption.
        * exfalso; eapply sens_pub; eassumption.
        * eapply server_sig_new; [exact KG | left; reflexivity | apply raw_term_bytes | exact Kc | exact Hin | exact Hs].
        * eapply minted_blob_new; [exact KG | right; left; reflexivity | | | exact Hin | exact Hs].
          -- intros t Ht. cbn in Ht. apply norm_cpk_some in Ht. subst. exact Kc.
          -- eexists. reflexivity.
      + apply log_extend; [exact LG | | | ].
        * intros sv' st [H|[H|[]]]; inversion H; subst. exact Hsv.
        * intros sv' st p [H|[H|[]]] Ht; inversion H; subst. discriminate.
        * intros sv' h n p [H|[H|[]]]; discriminate.
    - (* a verified challenge: accept, token, maybe the server's signature *)
      set (tok := token_state host now p).
      assert (Hroot : secret p = true ->
                exists st0, In (LMint sv st0) log /\ os_token st0 = false /\ os_host st0 = host /\
                            (now <= os_created st0 + challengeTTL)%Z /\
                            In (LClientSig p (os_chal st0) (sv_key sv) host) log).
      { intros Hp. eapply challenge_origin; eassumption. }
      assert (Hnew : forall extra,
                (forall sv' st, In (LMint sv' st) extra -> False) ->
                (forall sv' h n q, In (LAccept sv' h n q) extra -> False) ->
                LogGood (([LAccept sv host now p] ++ extra ++ [LMint sv tok]) ++ log)).
      { intros extra X1 X2. apply log_extend; [exact LG | | | ].
        - intros sv' st Hin. cbn [app] in Hin. destruct Hin as [H|Hin]; [discriminate|].
          apply in_app_or in Hin. destruct Hin as [Hin|[H|[]]]; [exfalso; eapply X1; exact Hin|].
          inversion H; subst. exact Hsv.
        - intros sv' st q Hin Ht Hq Hs. cbn [app] in Hin. destruct Hin as [H|Hin]; [discriminate|].
          apply in_app_or in Hin. destruct Hin as [Hin|[H|[]]]; [exfalso; eapply X1; exact Hin|].
          inversion H; subst. cbn in Hq. inversion Hq; subst q.
          destruct (Hroot Hs) as (st0 & A1 & A2 & A3 & _ & A5). exists st0. cbn [os_host tok token_state].
          repeat split; try assumption; apply in_or_app; right; assumption.
        - intros sv' h n q Hin Hs. cbn [app] in Hin. destruct Hin as [H|Hin].
          + inversion H; subst. destruct (Hroot Hs) as (st0 & A1 & A2 & A3 & A4 & A5). left. exists st0.
            repeat split; try assumption; apply in_or_app; right; assumption.
          + apply in_app_or in Hin. destruct Hin as [Hin|[H|[]]]; [exfalso; eapply X2; exact Hin | discriminate]. }
      destruct Hsigs as [->|(pkb & Hkf & ->)].
      + assert (EL : server_log sv host now (SOk SVerifyChallenge (Some p) ([] ++ [(N_BEARER, mk_blob (sv_mac sv) tok)]))
                     = [LAccept sv host now p] ++ [] ++ [LMint sv tok]).
        { unfold server_log, sig_items, mint_items, mk_blob. cbn [flat_map snd app]. rewrite dec_enc_state. reflexivity. }
        rewrite EL. split; [|apply Hnew; intros; contradiction].
        eapply kn_extend; [exact KG | apply incl_app_r' |].
        intros s Hin Hs. apply in_terms in Hin. destruct Hin as [x [Hx Hin]].
        cbn [out_terms map snd In app] in Hx. destruct Hx as [<-|[]].
        eapply minted_blob_new; [exact KG | right; left; reflexivity | | | exact Hin | exact Hs].
        * intros t Ht. discriminate.
        * eexists. reflexivity.
      + set (c := raw_term (p_chalS P)).
        assert (Kb : knows kn pkb = true) by (eapply key_from_known; eassumption).
        assert (EL : server_log sv host now (SOk SVerifyChallenge (Some p)
                                                 (sig_out sv host c pkb ++ [(N_BEARER, mk_blob (sv_mac sv) tok)]))
                     = [LAccept sv host now p] ++ [LServerSig sv host c pkb] ++ [LMint sv tok]).
        { unfold server_log, sig_out, sig_items, mint_items, mk_blob, msg_server.
          cbn [flat_map snd app atom]. rewrite dec_enc_state. reflexivity. }
        rewrite EL. split.
        * eapply kn_extend; [exact KG | apply incl_app_r' |].
          intros s Hin Hs. apply in_terms in Hin. destruct Hin as [x [Hx Hin]].
          unfold sig_out in Hx. cbn [out_terms map snd In app] in Hx. destruct Hx as [<-|[<-|[]]].
          -- eapply server_sig_new; [exact KG | right; left; reflexivity | apply raw_term_bytes | exact Kb | exact Hin | exact Hs].
          -- eapply minted_blob_new; [exact KG | right; right; left; reflexivity | | | exact Hin | exact Hs].
             ++ intros t Ht. discriminate.
             ++ eexists. reflexivity.
        * apply Hnew.
          -- intros sv' st [H|[]]. discriminate.
          -- intros sv' h n q [H|[]]. discriminate.
    - (* a bearer token *)
      assert (EK : flat_map subterms (out_terms (SOk SVerifyBearer pid [])) ++ kn = kn) by reflexivity.
      rewrite EK. destruct pid as [p|].
      + assert (EL : server_log sv host now (SOk SVerifyBearer (Some p) []) = [LAccept sv host now p]) by reflexivity.
        rewrite EL. split.
        * destruct KG as [G1 G2 G3 G4]. constructor; [exact G1 | exact G2 | |].
          -- intros k m r Hk Hin. eapply sig_just_mono; [apply incl_app_r' | eapply G3; eassumption].
          -- intros k f Hk Hin. eapply mac_just_mono; [apply incl_app_r' | eapply G4; eassumption].
        * apply log_extend; [exact LG | | | ].
          -- intros sv' st [H|[]]. discriminate.
          -- intros sv' st q [H|[]]. discriminate.
          -- intros sv' h n q [H|[]] Hs. inversion H; subst.
             destruct (token_origin kn log sv' n q P KG LG Hsv Hd (Htp q eq_refl)) as (st & B1 & B2 & B3 & B4).
             right. exists st. repeat split; try assumption.
             ++ apply in_or_app. right. exact B1.
             ++ eapply rooted_mono; [apply incl_app_r' | eapply (g_token _ LG); eassumption].
      + cbn [server_log app]. split; assumption.
  Qed.

  (* ---- traces ---------------------------------------------------------------------------------- *)
  (* an event is admissible when the server is honest and every header value is
     derivable by the adversary from what it knows at that moment; an honest
     client signs any challenge the adversary can produce, for any server key
     and its own hostname *)
  Definition ok_event (kn : list term) (e : event) : Prop :=
    match e with
    | EvServer sv _ _ _ o => In sv svs /\ derivable kn (params_of o)
    | EvClient _ chal _ _ => knows kn chal = true
    end.

  Fixpoint valid (s : state) (tr : list event) : Prop :=
    match tr with
    | [] => True
    | e :: r => ok_event (fst s) e /\ valid (step s e) r
    end.

  Definition good (s : state) : Prop := KnGood (fst s) (snd s) /\ LogGood (snd s).

  Lemma step_good : forall s e, good s -> ok_event (fst s) e -> good (step s e).
  Proof.
    intros [kn log] e [KG LG] Hok. cbn [fst snd] in *. destruct e as [sv host now fresh P|c chal spk host]; cbn [step ok_event] in *.
    - destruct Hok as [Hsv Hd].
      assert (Sh : shape sv host now fresh (params_of P) (server_any sv host now fresh P)).
      { destruct P as [P|]; cbn [server_any params_of]; [apply server_run_shape | apply ShChallenge]. }
      destruct (step_shape kn log sv host now fresh _ _ KG LG Hsv Hd Sh) as [A B].
      split; cbn [fst snd]; assumption.
    - destruct (step_client kn log c chal spk host KG LG Hok) as [A B]. split; cbn [fst snd]; assumption.
  Qed.

  Theorem run_good : forall tr s, good s -> valid s tr -> good (run s tr).
  Proof.
    induction tr as [|e tr IH]; intros s Hg Hv; cbn [run fold_left].
    - exact Hg.
    - destruct Hv as [Hok Hv]. apply IH; [apply step_good; assumption | exact Hv].
  Qed.

  (* the adversary starts with nothing an honest secret made *)
  Definition clean (kn0 : list term) : Prop :=
    closed kn0 /\ forall s, In s kn0 -> sens secret s = false.

  Lemma clean_good : forall kn0, clean kn0 -> good (kn0, []).
  Proof.
    intros kn0 [Hc Hs]. split; cbn [fst snd].
    - constructor; [exact Hc | | |].
      + intros k Hk Hin. apply Hs in Hin. cbn in Hin. congruence.
      + intros k m r Hk Hin. apply Hs in Hin. cbn in Hin. congruence.
      + intros k f Hk Hin. apply Hs in Hin. cbn in Hin. congruence.
    - constructor; intros; contradiction.
  Qed.

  (* ACCEPT IMPLIES ORIGIN *)
  Theorem accept_implies_origin_l : forall kn0 tr sv host now p,
    clean kn0 -> valid (kn0, []) tr ->
    In (LAccept sv host now p) (snd (run (kn0, []) tr)) -> secret p = true ->
    origin_of (snd (run (kn0, []) tr)) sv host now p.
  Proof.
    intros kn0 tr sv host now p Hc Hv Hin Hs.
    destruct (run_good tr (kn0, []) (clean_good kn0 Hc) Hv) as [_ LG].
    eapply (g_accept _ LG); eassumption.
  Qed.

  (* every reported identity is logged as an accept *)
  Lemma reported_logged : forall sv host now r p, reported r = Some p ->
    In (LAccept sv host now p) (server_log sv host now r).
  Proof.
    intros sv host now r p H. unfold reported in H. destruct r as [e|st [q|] out]; try discriminate.
    inversion H; subst. cbn [server_log app]. left. reflexivity.
  Qed.

  (* the client side: a signature that verifies under an honest key for the
     client's challenge was made by an honest server holding that key, in
     answer to exactly this challenge, client key and hostname *)
  Theorem client_accept_origin_l : forall kn log p ch c h sg,
    KnGood kn log -> secret p = true -> knows kn sg = true ->
    sym_verify (TPub p) (msg_server ch (TPub c) (atom h)) sg = true ->
    exists sv, sv_key sv = p /\ In (LServerSig sv h ch (TPub c)) log.
  Proof.
    intros kn log p ch c h sg KG Hp Hk Hv. apply sym_ideal in Hv. unfold sym_origin in Hv.
    destruct sg; try discriminate. inversion Hv; subst.
    apply (known_sig_in secret kn _ _ _ (g_closed _ _ KG) (g_keys _ _ KG) Hp) in Hk.
    destruct (g_sig _ _ KG _ _ _ Hp Hk) as [(c' & spk & h' & E & _)|(sv & h' & c' & b & E1 & E2 & Hin)].
    - unfold msg_client, msg_server in E. discriminate.
    - unfold msg_server, atom in E2. inversion E2; subst. exists sv. split; [reflexivity | exact Hin].
  Qed.
End Invariant.

(* C19 — property theorems (being filled in) *)
From Coq Require Import List NArith ZArith Bool.
From Verif Require Import lib.Wire c08.Varint c08.SymCrypto gen.Consts_c19 c19.Model c19.Spec.
Import ListNotations.

Theorem c19_challenge_ttl_is_five_minutes : challengeTTL = (5 * 60 * 1000000000)%Z.
Proof. reflexivity. Qed.
Print Assumptions c19_challenge_ttl_is_five_minutes.

(* C19 — HTTP Peer-ID auth reports only proven identities: the property theorems.
   Each is closed by [exact] of a lemma from Proofs_*.v and followed by Print Assumptions. *)
From Coq Require Import List NArith ZArith Bool.
From Verif Require Import lib.Wire c08.Varint c08.SymCrypto gen.Consts_c19 c19.Model c19.Spec
     c19.Proofs_Bytes c19.Proofs_Server c19.Proofs_Step c19.Proofs_Client
     c19.Proofs_Adv c19.Proofs_Trace c19.Proofs_Inv c19.Proofs_Mint c19.Proofs_Cache c19.Proofs_Hosts.
Import ListNotations.
Local Open Scope N_scope.

(* ==== the server ==================================================================== *)
(* HEADLINE (server).  For every server configuration, hostname, instant, header
   value and value table: the property monitor that judges the implementation's
   answers accepts the model's own answer, in both modes (handshake server,
   ServerPeerIDAuth over HTTP). *)
Theorem c19_monitor_accepts_model_server : forall mode sv host now fresh tr tbl hdr c,
  model_case3 mode sv host now fresh tr tbl hdr = Some c -> monitor3 c = [].
Proof. exact monitor3_model. Qed.
Print Assumptions c19_monitor_accepts_model_server.

(* The server reports p only if the header carries a proof: a state authentic
   under this server's secret that is a challenge for this hostname, not older
   than challengeTTL, with a signature valid under p's key over (that challenge,
   this server's public key, this hostname) — or an authentic, unexpired token
   naming p.  [proven] is Spec.v's boolean, [carried] the values occurring in
   the header. *)
Theorem c19_server_reports_only_proven : forall sv host now fresh tbl hdr r p,
  server_step_i sv host now fresh tbl hdr = Some r -> reported r = Some p ->
  proven sv host now (carried tbl hdr) p = true.
Proof. exact server_step_proven. Qed.
Print Assumptions c19_server_reports_only_proven.

(* the same on parsed parameters, for ANY signature scheme and MAC that obey
   the ideal rules (Section hypotheses), with the proof spelled out *)
Theorem c19_server_reports_only_proven_generic :
  forall (verify : term -> term -> term -> bool) (mac_check : N -> term -> term -> bool),
  (forall p m s, verify p m s = true <-> sym_origin s = Some (p, m)) ->
  (forall k m t, mac_check k m t = true <-> t = TMac k m) ->
  forall sv host now fresh P st p out,
  server_run verify mac_check sv host now fresh P = SOk st (Some p) out ->
  challenge_proven sv host now p P \/ token_proven sv now p P.
Proof. exact server_run_proven. Qed.
Print Assumptions c19_server_reports_only_proven_generic.

(* tokens are issued to proven peers only: whatever the server emits that is a
   token under its own secret names a peer that THIS request proves with a
   signature over this server's challenge (nothing of an earlier request, nothing
   unproven, ever becomes a token) *)
Theorem c19_tokens_issued_to_proven_peers_only : forall sv host now fresh tbl hdr st pid out,
  server_step_i sv host now fresh tbl hdr = Some (SOk st pid out) ->
  minted_ok sv host now (carried tbl hdr) out = true.
Proof. exact server_step_minted_ok. Qed.
Print Assumptions c19_tokens_issued_to_proven_peers_only.

(* state minted under a different secret, or altered in any way (anything that
   is not  HMAC_secret(fields) ++ fields) is rejected with ErrInvalidHMAC *)
Theorem c19_server_rejects_foreign_state : forall sv host now P oq sg blob,
  p_opaque P = Some oq -> p_sig P = Some sg -> pv_dec oq = Some blob ->
  (forall fields, blob <> TPair (TMac (sv_mac sv) fields) fields) ->
  run_verify_challenge sym_verify sym_mac_check sv host now P = SErr EInvalidHMAC.
Proof. exact (foreign_opaque_rejected sym_verify sym_mac_check sym_mac_ideal). Qed.
Print Assumptions c19_server_rejects_foreign_state.

Theorem c19_server_rejects_foreign_token : forall sv now P b blob,
  p_bearer P = Some b -> pv_dec b = Some blob ->
  (forall fields, blob <> TPair (TMac (sv_mac sv) fields) fields) ->
  run_verify_bearer sym_mac_check sv now P = SErr EInvalidHMAC.
Proof. exact (foreign_token_rejected sym_mac_check sym_mac_ideal). Qed.
Print Assumptions c19_server_rejects_foreign_token.

(* no cross use: this server's own challenge state is never accepted as a token,
   its own token never as a challenge *)
Theorem c19_no_cross_use_challenge_as_token : forall sv now P b s,
  p_bearer P = Some b -> pv_dec b = Some (mk_blob (sv_mac sv) s) -> os_token s = false ->
  run_verify_bearer sym_mac_check sv now P = SErr EOther.
Proof. exact (challenge_not_a_token sym_mac_check sym_mac_ideal). Qed.
Print Assumptions c19_no_cross_use_challenge_as_token.

Theorem c19_no_cross_use_token_as_challenge : forall sv host now P oq sg s,
  p_opaque P = Some oq -> p_sig P = Some sg -> pv_dec oq = Some (mk_blob (sv_mac sv) s) ->
  os_token s = true ->
  exists e, run_verify_challenge sym_verify sym_mac_check sv host now P = SErr e.
Proof. exact (token_not_a_challenge sym_verify sym_mac_check sym_mac_ideal). Qed.
Print Assumptions c19_no_cross_use_token_as_challenge.

(* use after expiry (strictly later than created + lifetime) *)
Theorem c19_expired_challenge_rejected : forall sv host now P oq sg s,
  p_opaque P = Some oq -> p_sig P = Some sg -> pv_dec oq = Some (mk_blob (sv_mac sv) s) ->
  (now > os_created s + challengeTTL)%Z ->
  run_verify_challenge sym_verify sym_mac_check sv host now P = SErr EExpiredChallenge.
Proof. exact (expired_challenge_rejected sym_verify sym_mac_check sym_mac_ideal). Qed.
Print Assumptions c19_expired_challenge_rejected.

Theorem c19_expired_token_rejected : forall sv now P b s,
  p_bearer P = Some b -> pv_dec b = Some (mk_blob (sv_mac sv) s) -> os_token s = true ->
  (now > os_created s + sv_ttl sv)%Z ->
  run_verify_bearer sym_mac_check sv now P = SErr EExpiredToken.
Proof. exact (expired_token_rejected sym_mac_check sym_mac_ideal). Qed.
Print Assumptions c19_expired_token_rejected.

(* ==== the client ==================================================================== *)
(* HEADLINE (client).  For every sequence of SetInitiateChallenge / ParseHeader /
   Run calls with arbitrary headers and random draws, the client monitor accepts
   the model's trace. *)
Theorem c19_monitor_accepts_model_client : forall ops k h steps,
  model_csteps (client_init k h) ops = Some steps -> monitor_client k h [] [] 0 steps = [].
Proof. intros ops k h steps. exact (monitor_client_model_l ops k h _ [] [] 0 steps (inv_init k h)). Qed.
Print Assumptions c19_monitor_accepts_model_client.

(* the invariant behind it: in every reachable client state, a reported id p
   comes with a received signature that verifies under p's key over one of the
   client's own challenges, the client's public key and its hostname *)
Theorem c19_client_reports_only_proven : forall k h c own vals o c' ok,
  Inv k h c own vals -> cop_step c o = Some (c', ok) ->
  Inv k h c' (emitted_challenges (cl_out c') ++ own) (vals_after o vals).
Proof. exact cop_step_inv. Qed.
Print Assumptions c19_client_reports_only_proven.

(* ClientPeerIDAuth.AuthenticatedDo without a stored token (the runHandshake loop,
   at most 5 round trips): for every script of responses and every sequence of
   random draws, an id is returned only if some response carried a signature
   that verifies under that id's key over a challenge drawn in this call, the
   client's public key and the hostname; and the monitor accepts the model. *)
Theorem c19_authenticated_do_reports_only_proven : forall k h resps fresh p qs,
  auth_do_i k h resps fresh = Some (Some p, qs) ->
  proved k h (map atom fresh) (resp_values resps) p.
Proof. exact auth_do_proved_l. Qed.
Print Assumptions c19_authenticated_do_reports_only_proven.

Theorem c19_monitor_accepts_model_authenticated_do : forall k h resps fresh pid qs,
  auth_do_i k h resps fresh = Some (pid, qs) ->
  monitor5 (mkC5 k h fresh resps (z_of_on pid) qs) = [].
Proof. exact monitor5_model_l. Qed.
Print Assumptions c19_monitor_accepts_model_authenticated_do.

(* HEADLINE (token cache).  For every history of AuthenticatedDo calls on one
   ClientPeerIDAuth (scripted responses, statuses and random draws arbitrary): the
   history monitor accepts the model — a call that runs a handshake proves the id
   it returns in that very call, and a call that only presents the stored token
   returns an id proven by the handshake that produced that token. *)
Theorem c19_monitor_accepts_model_history : forall calls k h cs,
  model_calls k h None calls = Some cs -> monitor_calls k h None 0 cs = [].
Proof. intros calls k h cs. exact (monitor_calls_model_l calls k h None None 0 cs I). Qed.
Print Assumptions c19_monitor_accepts_model_history.

Theorem c19_cached_id_was_proven : forall k h tok cp last r1 rs fresh,
  cache_inv k h (Some (tok, cp)) last -> (r_status r1 =? 401)%Z = false ->
  auth_call_i k h (Some (tok, cp)) (r1 :: rs) fresh = Some (Some cp, [tok], Some (tok, cp)) /\
  exists F V, last = Some (F, V) /\ proved k h F V cp.
Proof. exact cached_id_was_proven_l. Qed.
Print Assumptions c19_cached_id_was_proven.

(* HEADLINE (token map across hostnames).  For every history of AuthenticatedDo calls on
   one ClientPeerIDAuth whose requests name arbitrary hostnames (req.Host set, or empty
   with req.URL.Host set) and are answered by arbitrary scripted servers: the history
   monitor accepts the model - a call that runs a handshake proves the id it returns in
   that very call for a hostname its request names, and a call that only presents a
   stored token returns an id proven by the most recent handshake bound to a hostname
   this request names.  [e] is the atom that stands for the empty req.Host. *)
Theorem c19_monitor_accepts_model_history_across_hostnames : forall calls k e cs,
  model_hcalls k [] calls = Some cs -> monitor_hcalls k e [] 0 cs = [].
Proof. intros calls k e cs. exact (monitor_hcalls_model_l calls k e [] [] 0 cs (tmap_inv_empty k)). Qed.
Print Assumptions c19_monitor_accepts_model_history_across_hostnames.

(* whatever the token map holds for other hostnames: the id a call reports was proven
   for the hostname of THIS request, by a signature received in this call or by the
   handshake, bound to this hostname, that produced this hostname's entry *)
Theorem c19_reported_id_proven_for_this_hostname : forall k m ls rh uh resps fresh p qs m',
  tmap_inv k m ls -> auth_call_h_i k m rh uh resps fresh = Some (Some p, qs, m') ->
  proved k rh (map atom fresh) (resp_values resps) p \/
  exists F V, find_last rh ls = Some (F, V) /\ proved k rh F V p.
Proof. exact reported_id_proven_for_this_hostname_l. Qed.
Print Assumptions c19_reported_id_proven_for_this_hostname.

(* a request for a hostname without an entry of its own never borrows another
   hostname's token and identity *)
Theorem c19_no_entry_no_borrowed_identity : forall k m rh uh resps fresh p qs m',
  tm_get rh m = None -> auth_call_h_i k m rh uh resps fresh = Some (Some p, qs, m') ->
  proved k rh (map atom fresh) (resp_values resps) p.
Proof. exact no_entry_no_borrowed_identity_l. Qed.
Print Assumptions c19_no_entry_no_borrowed_identity.

(* ==== the adversary closure ========================================================= *)
(* For every set of honest servers with secret, pairwise different HMAC secrets,
   every adversary that starts with no term made with a secret, and every trace
   in which each header value is derivable from what the adversary has seen
   (all sub-terms of everything honest parties emitted): whenever a server
   reports an id p whose key is secret, p itself signed a challenge that this
   very server minted, for this server's key and hostname (challenge branch,
   unexpired), or the server minted the presented unexpired token for p after
   such a signature (token branch). *)
Theorem c19_accept_implies_origin :
  forall (secret : N -> bool) (svs : list server),
  (forall sv, In sv svs -> secret (sv_mac sv) = true) ->
  (forall a b, In a svs -> In b svs -> sv_mac a = sv_mac b -> a = b) ->
  forall kn0 tr sv host now p,
  clean secret kn0 -> valid svs (kn0, []) tr ->
  In (LAccept sv host now p) (snd (run (kn0, []) tr)) -> secret p = true ->
  origin_of (snd (run (kn0, []) tr)) sv host now p.
Proof. exact accept_implies_origin_l. Qed.
Print Assumptions c19_accept_implies_origin.

(* symmetric: a signature the adversary can present that verifies under an
   honest key for the client's challenge, key and hostname was made by an honest
   server holding that key in answer to exactly those *)
Theorem c19_client_accept_implies_origin :
  forall (secret : N -> bool) kn log p ch c h sg,
  KnGood secret kn log -> secret p = true -> knows kn sg = true ->
  sym_verify (TPub p) (msg_server ch (TPub c) (atom h)) sg = true ->
  exists sv, sv_key sv = p /\ In (LServerSig sv h ch (TPub c)) log.
Proof. exact client_accept_origin_l. Qed.
Print Assumptions c19_client_accept_implies_origin.

(* the invariant holds along every admissible trace *)
Theorem c19_trace_invariant :
  forall (secret : N -> bool) (svs : list server),
  (forall sv, In sv svs -> secret (sv_mac sv) = true) ->
  (forall a b, In a svs -> In b svs -> sv_mac a = sv_mac b -> a = b) ->
  forall tr s, good secret svs s -> valid svs s tr -> good secret svs (run s tr).
Proof. exact run_good. Qed.
Print Assumptions c19_trace_invariant.

(* ==== bytes ========================================================================= *)
(* genDataToSign: with the protocol's parameter names the signed bytes determine
   the three values, and a client's data never equals a server's *)
Theorem c19_client_sig_data_injective : forall c s h c' s' h',
  client_sig_data c s h = client_sig_data c' s' h' -> c = c' /\ s = s' /\ h = h'.
Proof. exact client_sig_data_inj_l. Qed.
Print Assumptions c19_client_sig_data_injective.

Theorem c19_server_sig_data_injective : forall c p h c' p' h',
  server_sig_data c p h = server_sig_data c' p' h' -> c = c' /\ p = p' /\ h = h'.
Proof. exact server_sig_data_inj_l. Qed.
Print Assumptions c19_server_sig_data_injective.

Theorem c19_sig_data_domains_separated : forall c s h c' p' h',
  client_sig_data c s h <> server_sig_data c' p' h'.
Proof. exact sig_data_separated_l. Qed.
Print Assumptions c19_sig_data_domains_separated.

Theorem c19_gen_data_injective : forall prefix parts parts',
  gen_data prefix parts = gen_data prefix parts' ->
  map kv (sort_parts parts) = map kv (sort_parts parts').
Proof. exact gen_data_inj. Qed.
Print Assumptions c19_gen_data_injective.

(* the parser returns only contiguous parts of the header value *)
Theorem c19_parser_values_within_header : forall hdr p e,
  parse_scheme_params hdr bp_empty = (p, e) -> bp_within hdr p.
Proof. exact parse_scheme_params_within. Qed.
Print Assumptions c19_parser_values_within_header.

(* ==== constants re-read from the source ============================================= *)
Theorem c19_challenge_ttl_is_five_minutes : challengeTTL = (5 * 60 * 1000000000)%Z.
Proof. reflexivity. Qed.
Print Assumptions c19_challenge_ttl_is_five_minutes.

Theorem c19_challenge_len_is_32 : challengeLen = 32%Z.
Proof. reflexivity. Qed.
Print Assumptions c19_challenge_len_is_32.

(* ==== non-vacuity =================================================================== *)
From Coq Require Import String.
(* a valid server-initiated handshake: server 1 (secret 2) at hostname 7 minted a
   challenge (atom 100) at instant 0; client 3 signed it *)
Definition ex_sv := mkSrv 1 2 3600000000000.
Definition ex_blob := mk_blob 2 (challenge_state 7 0 100 None).
Definition ex_sig := TSig 3 (msg_client (atom 100) (TPub 1) (atom 7)) 0.
Definition ex_pv (id : N) (t : term) := mkPV id 44 (Some t).
Definition ex_P (blob sg : term) :=
  mkP None None (Some (mkPV 200 44 None)) (Some (ex_pv 50 blob)) (Some (ex_pv 51 (TPub 3))) (Some (ex_pv 52 sg)).

Example model_accepts_valid_handshake :
  reported (server_run_i ex_sv 7 1000 101 (ex_P ex_blob ex_sig)) = Some 3.
Proof. vm_compute. reflexivity. Qed.

(* exactly at expiry the challenge is still accepted (time.After), one ns later it is not *)
Example model_accepts_at_expiry_instant :
  reported (server_run_i ex_sv 7 challengeTTL 101 (ex_P ex_blob ex_sig)) = Some 3 /\
  server_run_i ex_sv 7 (challengeTTL + 1) 101 (ex_P ex_blob ex_sig) = SErr EExpiredChallenge.
Proof. split; vm_compute; reflexivity. Qed.

(* the same request at a server with another secret, at another hostname, with
   a signature by another key, or over another server's key: rejected *)
Example model_rejects_near_misses :
  server_run_i (mkSrv 1 9 0) 7 1000 101 (ex_P ex_blob ex_sig) = SErr EInvalidHMAC /\
  server_run_i ex_sv 8 1000 101 (ex_P ex_blob ex_sig) = SErr EOther /\
  server_run_i ex_sv 7 1000 101 (ex_P ex_blob (TSig 4 (msg_client (atom 100) (TPub 1) (atom 7)) 0)) = SErr EOther /\
  server_run_i ex_sv 7 1000 101 (ex_P ex_blob (TSig 3 (msg_client (atom 100) (TPub 5) (atom 7)) 0)) = SErr EOther /\
  server_run_i ex_sv 7 1000 101 (ex_P ex_blob (TSig 3 (msg_server (atom 100) (TPub 1) (atom 7)) 0)) = SErr EOther.
Proof. repeat split; vm_compute; reflexivity. Qed.

(* the monitor rejects implementations' answers that the property forbids:
   the header carries blob "B" and signature "S"; the server answers "peer 3" *)
Definition ex_case (sv : server) (host : N) (now : Z) (pid : Z) : case3 :=
  mkC3 0 sv host now 101 (mkTr true true true false false)
       [(str "B"%string, (50, Some ex_blob)); (str "S"%string, (52, Some ex_sig))] (str "x B S"%string)
       0 1 pid [].

Example monitor_accepts_justified_report : monitor3 (ex_case ex_sv 7 1000 3) = [].
Proof. vm_compute. reflexivity. Qed.
Example monitor_rejects_expired : monitor3 (ex_case ex_sv 7 (challengeTTL + 1) 3) <> [].
Proof. vm_compute. discriminate. Qed.
Example monitor_rejects_foreign_secret : monitor3 (ex_case (mkSrv 1 9 0) 7 1000 3) <> [].
Proof. vm_compute. discriminate. Qed.
Example monitor_rejects_other_hostname : monitor3 (ex_case ex_sv 8 1000 3) <> [].
Proof. vm_compute. discriminate. Qed.
Example monitor_rejects_other_identity : monitor3 (ex_case ex_sv 7 1000 4) <> [].
Proof. vm_compute. discriminate. Qed.

(* an answer that hands a token for peer 3 to a request without any proof is rejected *)
Example monitor_rejects_token_for_unproven_peer :
  monitor3 (mkC3 0 ex_sv 7 1000 101 (mkTr true true true false false) [] []
                 0 0 (-1) [(N_OPAQUE, mk_blob 2 (mkOS true None (Some 3) (atom 100) 7 1000))]) <> [].
Proof. vm_compute. discriminate. Qed.

(* the client: a full client-initiated handshake in the model ends with the
   server's id reported; a report with nothing received is rejected by the monitor *)
Definition ex_srv_sig := TSig 1 (msg_server (atom 300) (TPub 3) (atom 7)) 0.
Definition ex_cl_ops : list cop :=
  [OInit; ORun 300;
   OParse [(str "K"%string, (60, Some (TPub 1))); (str "G"%string, (61, Some ex_srv_sig))] (str "libp2p-PeerID public-key=""K"", sig=""G"""%string) [];
   ORun 301].
Example model_client_reports_after_proof :
  match model_csteps (client_init 3 7) ex_cl_ops with
  | Some steps => map cs_pid steps = [-1; -1; -1; 1]%Z
  | None => False
  end.
Proof. vm_compute. reflexivity. Qed.

Example model_authenticated_do_accepts_honest_server :
  match auth_do_i 3 7 [mkResp 401 [(str "K"%string, (60, Some (TPub 1))); (str "G"%string, (61, Some ex_srv_sig))]
                              (str "libp2p-PeerID public-key=""K"", sig=""G"""%string) [];
                       mkResp 200 [] [] []] [300; 301; 302] with
  | Some (Some 1, _) => True
  | _ => False
  end.
Proof. vm_compute. exact I. Qed.

Example authenticated_do_monitor_rejects_unproven :
  monitor5 (mkC5 3 7 [300; 301] [mkResp 200 [] [] []] 1 []) <> [].
Proof. vm_compute. discriminate. Qed.

(* history: a handshake proves server 1; the next call only presents the token
   (one request, no challenge) and reports 2: rejected; reporting 1: accepted *)
Definition ex_call1 : call7 :=
  mkCall [300; 301; 302]
         [mkResp 401 [(str "K"%string, (60, Some (TPub 1))); (str "G"%string, (61, Some ex_srv_sig))]
                 (str "libp2p-PeerID public-key=""K"", sig=""G"""%string) [];
          mkResp 200 [] [] []]
         1 [[(N_CHALS, atom 300); (N_PK, TPub 3)]; [(N_SIG, TGarbage 1)]].
Example history_monitor_rejects_stale_cached_id :
  monitor_calls 3 7 None 0 [ex_call1; mkCall [] [mkResp 200 [] [] []] 2 [[(N_BEARER, atom 9)]]] <> [] /\
  monitor_calls 3 7 None 0 [ex_call1; mkCall [] [mkResp 200 [] [] []] 1 [[(N_BEARER, atom 9)]]] = [].
Proof. split; vm_compute; [discriminate | reflexivity]. Qed.

(* across hostnames (50 = the empty Host): a hand-built request to the server at 7 is
   answered with a signature over hostname 7; the next hand-built request goes to the
   server at 8, presents the stored token, and reports 1: rejected - the token was
   obtained for hostname 7.  The same towards 7 again: accepted.  A handshake whose only
   named hostname is 8 with a signature over 7: rejected. *)
Example hostname_monitor_rejects_identity_borrowed_from_another_hostname :
  monitor_hcalls 3 50 [] 0 [mkHCall 50 7 ex_call1;
                            mkHCall 50 8 (mkCall [] [mkResp 200 [] [] []] 1 [[(N_BEARER, atom 9)]])] = [902; 9; 1; 1]%Z /\
  monitor_hcalls 3 50 [] 0 [mkHCall 50 7 ex_call1;
                            mkHCall 50 7 (mkCall [] [mkResp 200 [] [] []] 1 [[(N_BEARER, atom 9)]])] = [] /\
  monitor_hcalls 3 50 [] 0 [mkHCall 7 8 ex_call1;
                            mkHCall 8 7 (mkCall [] [mkResp 200 [] [] []] 1 [[(N_BEARER, atom 9)]])] <> [] /\
  monitor_hcalls 3 50 [] 0 [mkHCall 8 7 ex_call1] <> [].
Proof. repeat split; vm_compute; try reflexivity; discriminate. Qed.

(* the model keeps the entries apart: after a handshake under Host 7, a request under
   Host 8 does not present the token (it starts its own handshake and, unanswered, errs) *)
Example model_keeps_hostnames_apart :
  match auth_call_h_i 3 [] 7 7 (ca_resps ex_call1) (ca_fresh ex_call1) with
  | Some (Some 1, _, m) =>
      match auth_call_h_i 3 m 8 7 [mkResp 200 [] [] []] [400; 401], auth_call_h_i 3 m 7 8 [mkResp 200 [] [] []] [400; 401] with
      | Some (None, _, _), Some (Some 1, [_], _) => True
      | _, _ => False
      end
  | _ => False
  end.
Proof. vm_compute. exact I. Qed.

Example client_monitor_rejects_unproven_report :
  monitor_client 3 7 [] [] 0 [mkCS 2 300 [] [] [] true 5 1 true false []] <> [].
Proof. vm_compute. discriminate. Qed.

(* the adversary model is inhabited: an admissible trace in which the server
   accepts the honest client 3 (keys 1..5 secret, the adversary owns key 9) *)
Definition ex_secret (k : N) : bool := k <=? 5.
Definition ex_trace : list event :=
  [EvServer ex_sv 7 0 100 None;
   EvClient 3 (atom 100) 1 7;
   EvServer ex_sv 7 1000 101 (Some (ex_P ex_blob ex_sig))].

Example adversary_trace_is_admissible_and_accepts :
  clean ex_secret [TKey 9] /\ valid [ex_sv] ([TKey 9], []) ex_trace /\
  In (LAccept ex_sv 7 1000 3) (snd (run ([TKey 9], []) ex_trace)).
Proof.
  split; [|split].
  - split.
    + intros t [<-|[]] s [<-|[]]. left. reflexivity.
    + intros s [<-|[]]. reflexivity.
  - cbn [valid ex_trace]. repeat split; try (left; reflexivity).
    + intros v t H. cbn in H. repeat (destruct H as [H|H]; [discriminate|]). contradiction.
    + intros v t H Hd. cbn [pvals params_of ex_P p_bearer p_chalC p_chalS p_opaque p_pk p_sig In] in H.
      repeat (destruct H as [H|H]; [first [discriminate | (inversion H; subst v; cbn in Hd; inversion Hd; subst t; vm_compute; reflexivity)]|]).
      contradiction.
  - vm_compute. left. reflexivity.
Qed.

(* C19 — the server: what a reported identity implies.  Generic in the signature
   and MAC checks (Section hypotheses: the ideal rules), then instantiated with
   the term algebra's computation rules. *)
From Coq Require Import List NArith ZArith Bool Lia.
From Verif Require Import lib.Wire c08.Varint c08.SymCrypto gen.Consts_c19 c19.Model c19.Spec c19.Proofs_Bytes.
Import ListNotations.
Local Open Scope N_scope.

(* ---- the state encoding is invertible --------------------------------------------- *)
Lemma dec_enc_state : forall s, dec_state (enc_state s) = Some s.
Proof.
  intros [tk cpk pid chal h tm]. unfold enc_state, dec_state. cbn [os_token os_cpk os_pid os_chal os_host os_created atom].
  destruct tk, cpk as [c|], pid as [q|], tm as [|z|z]; reflexivity.
Qed.

Lemma enc_state_inj : forall s s', enc_state s = enc_state s' -> s = s'.
Proof.
  intros s s' H. pose proof (dec_enc_state s) as E. rewrite H, dec_enc_state in E. congruence.
Qed.

Lemma bytes_eqb_eq : forall a b, bytes_eqb a b = true <-> a = b.
Proof.
  induction a as [|x a IH]; intros [|y b]; cbn [bytes_eqb]; split; intro H; try reflexivity; try discriminate.
  - apply andb_true_iff in H. destruct H as [H1 H2]. apply N.eqb_eq in H1. apply IH in H2. congruence.
  - inversion H; subst. rewrite N.eqb_refl. apply IH. reflexivity.
Qed.

(* ---- what it means that the request proves an identity (Prop level) ------------------ *)
(* the blob is HMAC ++ fields under this server's secret, and the fields are a state *)
Definition authentic (sv : server) (blob : term) (s : ostate) : Prop :=
  exists fields, blob = TPair (TMac (sv_mac sv) fields) fields /\ dec_state fields = Some s.

Definition challenge_proven (sv : server) (host : N) (now : Z) (p : N) (P : params) : Prop :=
  exists oq sg blob s sgt,
    p_opaque P = Some oq /\ p_sig P = Some sg /\ pv_dec oq = Some blob /\ pv_dec sg = Some sgt /\
    authentic sv blob s /\ os_token s = false /\ os_host s = host /\
    (now <= os_created s + challengeTTL)%Z /\
    sym_origin sgt = Some (TPub p, msg_client (os_chal s) (TPub (sv_key sv)) (atom host)).

Definition token_proven (sv : server) (now : Z) (p : N) (P : params) : Prop :=
  exists b blob s,
    p_bearer P = Some b /\ pv_dec b = Some blob /\ authentic sv blob s /\
    os_token s = true /\ os_pid s = Some p /\ (now <= os_created s + sv_ttl sv)%Z.

Section ServerProofs.
  Variable verify : term -> term -> term -> bool.
  Variable mac_check : N -> term -> term -> bool.
  Hypothesis verify_ideal : forall p m s, verify p m s = true <-> sym_origin s = Some (p, m).
  Hypothesis mac_ideal : forall k m t, mac_check k m t = true <-> t = TMac k m.

  Lemma open_blob_ok : forall sv blob s,
    open_blob mac_check (sv_mac sv) blob = inr s -> authentic sv blob s.
  Proof.
    intros sv blob s H. unfold open_blob in H. destruct blob; try discriminate.
    destruct (mac_check (sv_mac sv) blob2 blob1) eqn:E; [|discriminate].
    destruct (dec_state blob2) as [s'|] eqn:D; [|discriminate]. inversion H; subst.
    apply mac_ideal in E. subst. exists blob2. split; [reflexivity | exact D].
  Qed.

  (* a blob that is not authentic never opens *)
  Lemma open_blob_foreign : forall sv blob,
    (forall fields, blob <> TPair (TMac (sv_mac sv) fields) fields) ->
    open_blob mac_check (sv_mac sv) blob = inl EInvalidHMAC.
  Proof.
    intros sv blob H. unfold open_blob. destruct blob; try reflexivity.
    destruct (mac_check (sv_mac sv) blob2 blob1) eqn:E; [|reflexivity].
    apply mac_ideal in E. subst. exfalso. apply (H blob2). reflexivity.
  Qed.

  Lemma verify_challenge_proven : forall sv host now P st p out,
    run_verify_challenge verify mac_check sv host now P = SOk st (Some p) out ->
    challenge_proven sv host now p P.
  Proof.
    intros sv host now P st p out H. unfold run_verify_challenge in H.
    destruct (p_opaque P) as [oq|] eqn:Eo; [|discriminate].
    destruct (p_sig P) as [sg|] eqn:Es; [|discriminate].
    destruct (pv_dec oq) as [blob|] eqn:Ed; [|discriminate].
    destruct (open_blob mac_check (sv_mac sv) blob) as [e|s] eqn:Eb; [discriminate|].
    destruct (now >? os_created s + challengeTTL)%Z eqn:Et; [discriminate|].
    destruct (os_token s) eqn:Etk; [discriminate|].
    destruct (host =? os_host s) eqn:Eh; [|discriminate]. cbn [negb] in H.
    destruct (key_source s P) as [[pkb ci]|]; [|discriminate].
    destruct (unmarshal_pk pkb) as [k|] eqn:Ek; [|discriminate].
    destruct (pv_dec sg) as [sgt|] eqn:Esg; [|discriminate].
    destruct (verify (TPub k) (msg_client (os_chal s) (TPub (sv_key sv)) (atom host)) sgt) eqn:Ev; [|discriminate].
    assert (k = p).
    { destruct ci; [inversion H; reflexivity|].
      destruct (server_sig sv host P pkb); [inversion H; reflexivity | discriminate]. }
    subst k. apply verify_ideal in Ev. apply N.eqb_eq in Eh.
    exists oq, sg, blob, s, sgt. repeat split; try assumption; try reflexivity.
    - apply open_blob_ok, Eb.
    - symmetry. exact Eh.
    - rewrite Z.gtb_ltb in Et. apply Z.ltb_ge in Et. exact Et.
  Qed.

  Lemma verify_bearer_proven : forall sv now P st p out,
    run_verify_bearer mac_check sv now P = SOk st (Some p) out -> token_proven sv now p P.
  Proof.
    intros sv now P st p out H. unfold run_verify_bearer in H.
    destruct (p_bearer P) as [b|] eqn:Eb; [|discriminate].
    destruct (pv_dec b) as [blob|] eqn:Ed; [|discriminate].
    destruct (open_blob mac_check (sv_mac sv) blob) as [e|s] eqn:Eo; [discriminate|].
    destruct (os_token s) eqn:Etk; [|discriminate]. cbn [negb] in H.
    destruct (now >? os_created s + sv_ttl sv)%Z eqn:Et; [discriminate|].
    inversion H; subst. exists b, blob, s. repeat split; try assumption; try reflexivity.
    - apply open_blob_ok, Eo.
    - rewrite Z.gtb_ltb in Et. apply Z.ltb_ge in Et. exact Et.
  Qed.

  (* THE server clause on parsed parameters *)
  Theorem server_run_proven : forall sv host now fresh P st p out,
    server_run verify mac_check sv host now fresh P = SOk st (Some p) out ->
    challenge_proven sv host now p P \/ token_proven sv now p P.
  Proof.
    intros sv host now fresh P st p out H. unfold server_run in H.
    destruct (select_state P) as [[| | |]|].
    - unfold run_challenge_client in H. discriminate.
    - left. eapply verify_challenge_proven, H.
    - right. eapply verify_bearer_proven, H.
    - unfold run_sign_challenge in H.
      destruct (p_pk P) as [pk|]; [|discriminate]. destruct (pv_dec pk); [|discriminate].
      destruct (server_sig sv host P t); discriminate.
    - discriminate.
  Qed.

  (* state under a secret that is not this server's, or altered in any field *)
  Theorem foreign_opaque_rejected : forall sv host now P oq sg blob,
    p_opaque P = Some oq -> p_sig P = Some sg -> pv_dec oq = Some blob ->
    (forall fields, blob <> TPair (TMac (sv_mac sv) fields) fields) ->
    run_verify_challenge verify mac_check sv host now P = SErr EInvalidHMAC.
  Proof.
    intros sv host now P oq sg blob Ho Hs Hd Hf. unfold run_verify_challenge.
    rewrite Ho, Hs, Hd, (open_blob_foreign sv blob Hf). reflexivity.
  Qed.

  Theorem foreign_token_rejected : forall sv now P b blob,
    p_bearer P = Some b -> pv_dec b = Some blob ->
    (forall fields, blob <> TPair (TMac (sv_mac sv) fields) fields) ->
    run_verify_bearer mac_check sv now P = SErr EInvalidHMAC.
  Proof.
    intros sv now P b blob Hb Hd Hf. unfold run_verify_bearer.
    rewrite Hb, Hd, (open_blob_foreign sv blob Hf). reflexivity.
  Qed.

  (* opening an honest blob gives back the state *)
  Lemma open_mk_blob : forall sv s, open_blob mac_check (sv_mac sv) (mk_blob (sv_mac sv) s) = inr s.
  Proof.
    intros sv s. unfold open_blob, mk_blob.
    rewrite (proj2 (mac_ideal (sv_mac sv) (enc_state s) (TMac (sv_mac sv) (enc_state s))) eq_refl).
    rewrite dec_enc_state. reflexivity.
  Qed.

  (* a challenge state is never accepted as a token, a token never as a challenge *)
  Theorem challenge_not_a_token : forall sv now P b s,
    p_bearer P = Some b -> pv_dec b = Some (mk_blob (sv_mac sv) s) -> os_token s = false ->
    run_verify_bearer mac_check sv now P = SErr EOther.
  Proof.
    intros sv now P b s Hb Hd Ht. unfold run_verify_bearer. rewrite Hb, Hd, open_mk_blob, Ht. reflexivity.
  Qed.

  Theorem token_not_a_challenge : forall sv host now P oq sg s,
    p_opaque P = Some oq -> p_sig P = Some sg -> pv_dec oq = Some (mk_blob (sv_mac sv) s) ->
    os_token s = true ->
    exists e, run_verify_challenge verify mac_check sv host now P = SErr e.
  Proof.
    intros sv host now P oq sg s Ho Hs Hd Ht. unfold run_verify_challenge.
    rewrite Ho, Hs, Hd, open_mk_blob, Ht.
    destruct (now >? os_created s + challengeTTL)%Z; eexists; reflexivity.
  Qed.

  (* use after expiry *)
  Theorem expired_challenge_rejected : forall sv host now P oq sg s,
    p_opaque P = Some oq -> p_sig P = Some sg -> pv_dec oq = Some (mk_blob (sv_mac sv) s) ->
    (now > os_created s + challengeTTL)%Z ->
    run_verify_challenge verify mac_check sv host now P = SErr EExpiredChallenge.
  Proof.
    intros sv host now P oq sg s Ho Hs Hd Ht. unfold run_verify_challenge.
    rewrite Ho, Hs, Hd, open_mk_blob. apply Z.gt_lt, Z.ltb_lt in Ht. rewrite Z.gtb_ltb, Ht. reflexivity.
  Qed.

  Theorem expired_token_rejected : forall sv now P b s,
    p_bearer P = Some b -> pv_dec b = Some (mk_blob (sv_mac sv) s) -> os_token s = true ->
    (now > os_created s + sv_ttl sv)%Z ->
    run_verify_bearer mac_check sv now P = SErr EExpiredToken.
  Proof.
    intros sv now P b s Hb Hd Htk Ht. unfold run_verify_bearer.
    rewrite Hb, Hd, open_mk_blob, Htk. cbn [negb]. apply Z.gt_lt, Z.ltb_lt in Ht. rewrite Z.gtb_ltb, Ht. reflexivity.
  Qed.
End ServerProofs.

Lemma sym_mac_ideal : forall k m t, sym_mac_check k m t = true <-> t = TMac k m.
Proof. intros k m t. unfold sym_mac_check. apply term_eqb_eq. Qed.

(* C19 — the property as decidable predicates over what the implementation
   answered (monitor_case), the model replay (conform_case) and the wire format.
   No proofs here.

   WIRE FORMAT (one case per line, integers):
     bytes   := n b_1 .. b_n                         0 <= b_i <= 255
     term    := 0 n x_1..x_n      TBytes [x_1..x_n]  (atoms are  0 1 id)
              | 1 k               TKey k
              | 2 k               TPub k             the marshalled public key of key pair k
              | 3 k r term        TSig k m r         a signature by k over m (r: randomness / encoding)
              | 4 k term          TMac k m           HMAC under secret k over m
              | 5 term            THash m
              | 6 term term       TPair a b
              | 7 n               TGarbage n
     oterm   := 0 | 1 term
     vtable  := n (bytes id oterm)*                  raw parameter value, its atom number, what
                                                     base64.URLEncoding decodes it to (0 = error)
     ohdr    := n (name term)*                       parameters of an emitted header, in order;
                                                     name: 0 bearer 1 challenge-client 2 challenge-server
                                                           3 opaque 4 public-key 5 sig

   kind 1   genDataToSign:          1 <prefix:bytes> nparts (<k:bytes> <v:bytes>)* <out:bytes>
   kind 2   parsePeerIDAuthSchemeParams on a header value:
                                    2 <hdr:bytes> err p_bearer p_challenge-client p_challenge-server
                                      p_opaque p_public-key p_sig
              err: 0 nil, 1 errTooBig, 2 errInvalid;  p_x := 0 (nil) | 1 <bytes>
   kind 3   one request at a server:
                                    3 mode svkey svmac ttl host now fresh  notls hasfn fnok hastls sni
                                      <vtable> <hdr:bytes> OBS
              mode 0 (handshake.PeerIDAuthHandshakeServer: ParseHeaderVal, Run, PeerID, SetHeader):
                 OBS = cls state pid <ohdr>
                 cls: 0 no error, 1 ParseHeaderVal error, 2 ErrInvalidHMAC, 3 ErrExpiredChallenge,
                      4 ErrExpiredToken, 5 other Run error;  state: h.state;  pid: PeerID() (-1 = error)
              mode 1 (ServerPeerIDAuth over HTTP): OBS = status pid <ohdr>
                 pid = the argument of the Next callback (-1 = not called); status = HTTP status;
                 ohdr = the WWW-Authenticate / Authentication-Info header of the response
              ttl, now in ns (now relative to the harness' base instant), fresh = atom of the
              challenge the random source yields; the five flags describe the transport
              (NoTLS, ValidHostnameFn set, its answer, r.TLS set, Host == ServerName), mode 1 only.
   kind 4   one client handshake (handshake.PeerIDAuthHandshakeClient):
                                    4 ckey host nsteps step*
              step = op fresh <vtable> <www:bytes> <info:bytes>  ok state pid auth done <ohdr>
              op: 0 SetInitiateChallenge, 1 ParseHeader(WWW-Authenticate = www, Authentication-Info = info),
                  2 Run;   ok: the call returned nil;  state: h.state;  pid: PeerID() (-1 error);
              auth: ServerAuthenticated(); done: HandshakeDone(); ohdr: the header builder's content.
   kind 5   ClientPeerIDAuth.AuthenticatedDo (no stored token) against a scripted server, over HTTP:
                                    5 ckey host nfresh fresh* nresp (status <vtable> <www:bytes> <info:bytes>)*
                                      pid nreq <ohdr>*
              fresh: the challenge atom armed for each Run call, in order; the responses in the
              order served; pid: the peer id AuthenticatedDo returned (-1 = it returned an error);
              nreq requests were received, ohdr = their Authorization headers.
   kind 7   a history of AuthenticatedDo calls on ONE ClientPeerIDAuth (token cache) for one hostname,
            every call against scripted servers over HTTP, req.GetBody set:
                                    7 ckey host ncalls call*
              call = nfresh fresh* nresp (status <vtable> <www:bytes> <info:bytes>)* pid nreq <ohdr>*
              (as in kind 5; status matters for the first response of a call that presents a stored token)
   kind 8   a history of AuthenticatedDo calls on ONE ClientPeerIDAuth whose requests name different
            hostnames and go to different servers (every call against scripted servers over HTTP,
            req.GetBody set):
                                    8 ckey eatom ncalls hcall*
              hcall = rhost uhost call        (call as in kind 7)
              rhost = the atom of req.Host (eatom, the atom the harness gave the empty string, when the
              request was built by hand and has no Host), uhost = the atom of req.URL.Host (where the
              transport connects, and what it sends as Host when req.Host is empty). *)
From Coq Require Import List NArith ZArith Bool.
From Verif Require Import lib.Wire c08.Varint c08.SymCrypto gen.Consts_c19 c19.Model.
Import ListNotations.
Local Open Scope Z_scope.

(* ---- decoding combinators -------------------------------------------------------- *)
Definition obind {A B} (o : option A) (f : A -> option B) : option B :=
  match o with Some x => f x | None => None end.
Notation "'do' x <- a ; b" := (obind a (fun x => b)) (at level 200, x pattern, a at level 100, b at level 200).

Definition get_z (l : list Z) : option (Z * list Z) :=
  match l with x :: r => Some (x, r) | [] => None end.

Definition get_n (l : list Z) : option (N * list Z) :=
  match l with x :: r => if x <? 0 then None else Some (Z.to_N x, r) | [] => None end.

Fixpoint get_ns (n : nat) (l : list Z) : option (list N * list Z) :=
  match n with
  | O => Some ([], l)
  | S k => do (x, r) <- get_n l; do (xs, r') <- get_ns k r; Some (x :: xs, r')
  end.

Definition small (z : Z) : bool := (0 <=? z) && (z <=? 100000).

Definition get_bytes (l : list Z) : option (bytes * list Z) :=
  do (n, r) <- get_z l;
  if small n then get_ns (Z.to_nat n) r else None.

Fixpoint get_term (fuel : nat) (l : list Z) : option (term * list Z) :=
  match fuel with
  | O => None
  | S f =>
      do (tag, r) <- get_z l;
      if tag =? 0 then do (b, r1) <- get_bytes r; Some (TBytes b, r1)
      else if tag =? 1 then do (k, r1) <- get_n r; Some (TKey k, r1)
      else if tag =? 2 then do (k, r1) <- get_n r; Some (TPub k, r1)
      else if tag =? 3 then
        do (k, r1) <- get_n r; do (x, r2) <- get_n r1; do (m, r3) <- get_term f r2; Some (TSig k m x, r3)
      else if tag =? 4 then
        do (k, r1) <- get_n r; do (m, r2) <- get_term f r1; Some (TMac k m, r2)
      else if tag =? 5 then do (m, r1) <- get_term f r; Some (THash m, r1)
      else if tag =? 6 then
        do (a, r1) <- get_term f r; do (b, r2) <- get_term f r1; Some (TPair a b, r2)
      else if tag =? 7 then do (k, r1) <- get_n r; Some (TGarbage k, r1)
      else None
  end.

Definition get_t (l : list Z) : option (term * list Z) := get_term (S (length l)) l.

Definition get_oterm (l : list Z) : option (option term * list Z) :=
  do (tag, r) <- get_z l;
  if tag =? 0 then Some (None, r)
  else if tag =? 1 then do (t, r1) <- get_t r; Some (Some t, r1)
  else None.

Fixpoint get_vtable_n (n : nat) (l : list Z) : option (vtable * list Z) :=
  match n with
  | O => Some ([], l)
  | S k =>
      do (raw, r) <- get_bytes l; do (id, r1) <- get_n r; do (d, r2) <- get_oterm r1;
      do (rest, r3) <- get_vtable_n k r2; Some ((raw, (id, d)) :: rest, r3)
  end.
Definition get_vtable (l : list Z) : option (vtable * list Z) :=
  do (n, r) <- get_z l; if small n then get_vtable_n (Z.to_nat n) r else None.

Fixpoint get_ohdr_n (n : nat) (l : list Z) : option (ohdr * list Z) :=
  match n with
  | O => Some ([], l)
  | S k =>
      do (name, r) <- get_n l; do (t, r1) <- get_t r;
      do (rest, r2) <- get_ohdr_n k r1; Some ((name, t) :: rest, r2)
  end.
Definition get_ohdr (l : list Z) : option (ohdr * list Z) :=
  do (n, r) <- get_z l; if small n then get_ohdr_n (Z.to_nat n) r else None.

Definition get_obytes (l : list Z) : option (option bytes * list Z) :=
  do (tag, r) <- get_z l;
  if tag =? 0 then Some (None, r)
  else if tag =? 1 then do (b, r1) <- get_bytes r; Some (Some b, r1)
  else None.

Fixpoint get_parts (n : nat) (l : list Z) : option (list part * list Z) :=
  match n with
  | O => Some ([], l)
  | S k =>
      do (kk, r) <- get_bytes l; do (v, r1) <- get_bytes r;
      do (rest, r2) <- get_parts k r1; Some ((kk, v) :: rest, r2)
  end.

(* ---- equality tests ---------------------------------------------------------------- *)
Definition obytes_eqb (a b : option bytes) : bool :=
  match a, b with
  | None, None => true
  | Some x, Some y => bytes_eqb x y
  | _, _ => false
  end.

(* signatures are compared up to their randomness / encoding number *)
Fixpoint term_sim (a b : term) : bool :=
  match a, b with
  | TSig k m _, TSig k' m' _ => N.eqb k k' && term_sim m m'
  | TMac k m, TMac k' m' => N.eqb k k' && term_sim m m'
  | THash m, THash m' => term_sim m m'
  | TPair x y, TPair x' y' => term_sim x x' && term_sim y y'
  | _, _ => term_eqb a b
  end.

Definition ohdr_eqb (a b : ohdr) : bool :=
  list_eqb (fun x y => N.eqb (fst x) (fst y) && term_sim (snd x) (snd y)) a b.

Definition mism (code : Z) (more : list Z) : list Z := ERR_MISMATCH :: code :: more.
Definition viol (code : Z) (more : list Z) : list Z := ERR_PROPERTY :: code :: more.
Definition malformed (code : Z) : list Z := [ERR_MALFORMED; code].

Definition z_of_on (o : option N) : Z := match o with Some k => Z.of_N k | None => -1 end.

(* ---- kind 1 / kind 2: the byte-level functions -------------------------------------- *)
Definition conform1 (l : list Z) : list Z :=
  match (do (prefix, r) <- get_bytes l; do (n, r1) <- get_z r;
         if small n then
           do (parts, r2) <- get_parts (Z.to_nat n) r1; do (out, r3) <- get_bytes r2;
           Some (prefix, parts, out, r3)
         else None) with
  | Some (prefix, parts, out, []) =>
      if bytes_eqb (gen_data prefix parts) out then [] else mism 1 [zlen (gen_data prefix parts); zlen out]
  | _ => malformed 1
  end.

Definition perr_code (e : parse_err) : Z :=
  match e with PEok => 0 | PEtoobig => 1 | PEinvalid => 2 end.

Definition conform2 (l : list Z) : list Z :=
  match (do (hdr, r) <- get_bytes l; do (e, r0) <- get_z r;
         do (a, r1) <- get_obytes r0; do (b, r2) <- get_obytes r1; do (c, r3) <- get_obytes r2;
         do (d, r4) <- get_obytes r3; do (f, r5) <- get_obytes r4; do (g, r6) <- get_obytes r5;
         Some (hdr, e, mkBP a b c d f g, r6)) with
  | Some (hdr, e, obs, []) =>
      let '(p, pe) := parse_scheme_params hdr bp_empty in
      if negb (perr_code pe =? e) then mism 20 [perr_code pe; e]
      else if negb (obytes_eqb (b_bearer p) (b_bearer obs)) then mism 21 []
      else if negb (obytes_eqb (b_chalC p) (b_chalC obs)) then mism 22 []
      else if negb (obytes_eqb (b_chalS p) (b_chalS obs)) then mism 23 []
      else if negb (obytes_eqb (b_opaque p) (b_opaque obs)) then mism 24 []
      else if negb (obytes_eqb (b_pk p) (b_pk obs)) then mism 25 []
      else if negb (obytes_eqb (b_sig p) (b_sig obs)) then mism 26 []
      else []
  | _ => malformed 2
  end.

(* ---- kind 3: a request at a server ---------------------------------------------------- *)
Record transport := mkTr { tr_notls : bool; tr_hasfn : bool; tr_fnok : bool; tr_hastls : bool; tr_sni : bool }.

Record case3 := mkC3 {
  c3_mode : Z; c3_sv : server; c3_host : N; c3_now : Z; c3_fresh : N; c3_tr : transport;
  c3_tbl : vtable; c3_hdr : bytes;
  c3_o1 : Z; c3_o2 : Z; c3_pid : Z; c3_out : ohdr
}.

Definition decode3 (l : list Z) : option case3 :=
  do (mode, r) <- get_z l; do (k, r1) <- get_n r; do (mk, r2) <- get_n r1; do (ttl, r3) <- get_z r2;
  do (host, r4) <- get_n r3; do (now, r5) <- get_z r4; do (fresh, r6) <- get_n r5;
  do (f1, s1) <- get_z r6; do (f2, s2) <- get_z s1; do (f3, s3) <- get_z s2;
  do (f4, s4) <- get_z s3; do (f5, s5) <- get_z s4;
  do (tbl, r7) <- get_vtable s5; do (hdr, r8) <- get_bytes r7;
  do (o1, r9) <- get_z r8; do (o2, r10) <- get_z r9;
  if mode =? 0 then
    do (pid, r11) <- get_z r10; do (out, r12) <- get_ohdr r11;
    match r12 with
    | [] => Some (mkC3 mode (mkSrv k mk ttl) host now fresh (mkTr (zbool f1) (zbool f2) (zbool f3) (zbool f4) (zbool f5))
                       tbl hdr o1 o2 pid out)
    | _ => None
    end
  else if mode =? 1 then
    do (out, r11) <- get_ohdr r10;
    match r11 with
    | [] => Some (mkC3 mode (mkSrv k mk ttl) host now fresh (mkTr (zbool f1) (zbool f2) (zbool f3) (zbool f4) (zbool f5))
                       tbl hdr o1 (-1) o2 out)
    | _ => None
    end
  else None.

Definition ecls_code (e : ecls) : Z :=
  match e with EParse => 1 | EInvalidHMAC => 2 | EExpiredChallenge => 3 | EExpiredToken => 4 | EOther => 5 end.
Definition sstate_code (s : sstate) : Z :=
  match s with SChallengeClient => 0 | SVerifyChallenge => 1 | SVerifyBearer => 2 | SSignChallenge => 3 end.

(* ServeHTTPWithNextHandler before the handshake: 0 = goes on *)
Definition transport_status (t : transport) : Z :=
  if tr_notls t then
    (if negb (tr_hasfn t) then 500 else if negb (tr_fnok t) then 400 else 0)
  else
    (if negb (tr_hastls t) then 400 else if negb (tr_sni t) then 400
     else if tr_hasfn t && negb (tr_fnok t) then 400 else 0).

(* the response of ServeHTTP as the model predicts it: status (200 = next was
   called; the harness' Next handler answers 200), the id given to next, the header *)
Definition http_response (tr : transport) (sv : server) (host : N) (now : Z) (fresh : N)
           (r : sres) : Z * Z * ohdr :=
  let ts := transport_status tr in
  if negb (ts =? 0) then (ts, -1, [])
  else match r with
       | SOk _ (Some p) out => (200, Z.of_N p, out)
       | SOk _ None out => (401, -1, out)
       | SErr EInvalidHMAC | SErr EExpiredChallenge | SErr EExpiredToken =>
           match run_challenge_client sv host now fresh with
           | SOk _ _ out => (401, -1, out)
           | SErr _ => (401, -1, [])
           end
       | SErr _ => (400, -1, [])
       end.

Definition conform3 (c : case3) : list Z :=
  match server_step_i (c3_sv c) (c3_host c) (c3_now c) (c3_fresh c) (c3_tbl c) (c3_hdr c) with
  | None => malformed 31
  | Some r =>
      if c3_mode c =? 0 then
        match r with
        | SErr e => if ecls_code e =? c3_o1 c then [] else mism 30 [ecls_code e; c3_o1 c]
        | SOk st pid out =>
            if negb (c3_o1 c =? 0) then mism 30 [0; c3_o1 c]
            else if negb (sstate_code st =? c3_o2 c) then mism 31 [sstate_code st; c3_o2 c]
            else if negb (z_of_on pid =? c3_pid c) then mism 32 [z_of_on pid; c3_pid c]
            else if negb (ohdr_eqb out (c3_out c)) then mism 33 [zlen out; zlen (c3_out c)]
            else []
        end
      else
        let '(st, pid, out) := http_response (c3_tr c) (c3_sv c) (c3_host c) (c3_now c) (c3_fresh c) r in
        if negb (st =? c3_o1 c) then mism 35 [st; c3_o1 c]
        else if negb (pid =? c3_pid c) then mism 36 [pid; c3_pid c]
        else if negb (ohdr_eqb out (c3_out c)) then mism 37 [zlen out; zlen (c3_out c)]
        else []
  end.

(* -- the property at a server, judged from the request and the answer alone -- *)
(* is [x] a contiguous part of [l]? *)
Fixpoint is_infix (x l : bytes) : bool :=
  is_prefix x l || match l with [] => false | _ :: r => is_infix x r end.

(* the decoded values the request carries: every table entry whose raw string
   occurs in the header value *)
Definition carried (tbl : vtable) (hdr : bytes) : list term :=
  flat_map (fun e => match snd (snd e) with
                     | Some t => if is_infix (fst e) hdr then [t] else []
                     | None => [] end) tbl.

(* the blob is a state authenticated by this server's secret *)
Definition own_state (sv : server) (blob : term) : option ostate :=
  match blob with
  | TPair tag fields => if sym_mac_check (sv_mac sv) fields tag then dec_state fields else None
  | _ => None
  end.

(* "a signature, valid under that peer's public key, over the server's own
   unexpired challenge bound to the server's public key and the request's hostname" *)
Definition challenge_proof (sv : server) (host : N) (now : Z) (p : N) (blob sg : term) : bool :=
  match own_state sv blob with
  | Some s =>
      negb (os_token s) && N.eqb (os_host s) host && (now <=? os_created s + challengeTTL) &&
      sym_verify (TPub p) (msg_client (os_chal s) (TPub (sv_key sv)) (atom host)) sg
  | None => false
  end.

(* "an unexpired bearer token the server itself issued for that peer ID" *)
Definition token_proof (sv : server) (now : Z) (p : N) (blob : term) : bool :=
  match own_state sv blob with
  | Some s =>
      os_token s && (now <=? os_created s + sv_ttl sv) &&
      match os_pid s with Some q => N.eqb q p | None => false end
  | None => false
  end.

Definition proven (sv : server) (host : N) (now : Z) (vals : list term) (p : N) : bool :=
  existsb (fun b => existsb (fun s => challenge_proof sv host now p b s) vals) vals
  || existsb (fun b => token_proof sv now p b) vals.


(* the id the application was given (None = none) *)
Definition reported_obs (c : case3) : option N :=
  if c3_mode c =? 0 then
    (if (c3_o1 c =? 0) && (0 <=? c3_pid c) then Some (Z.to_N (c3_pid c)) else None)
  else (if 0 <=? c3_pid c then Some (Z.to_N (c3_pid c)) else None).

(* what the server hands out: a state authentic under its secret that is a token
   naming q may be emitted only in answer to a request that itself proves q with
   a signature over this server's challenge (tokens are issued to proven peers only) *)
Definition challenge_proven_in (sv : server) (host : N) (now : Z) (vals : list term) (q : N) : bool :=
  existsb (fun b => existsb (fun s => challenge_proof sv host now q b s) vals) vals.

Definition minted_ok (sv : server) (host : N) (now : Z) (vals : list term) (out : ohdr) : bool :=
  forallb (fun x => match own_state sv (snd x) with
                    | Some s =>
                        if os_token s then
                          match os_pid s with
                          | Some q => challenge_proven_in sv host now vals q
                          | None => true
                          end
                        else true
                    | None => true
                    end) out.

Definition monitor3 (c : case3) : list Z :=
  let vals := carried (c3_tbl c) (c3_hdr c) in
  match reported_obs c with
  | Some p =>
      if proven (c3_sv c) (c3_host c) (c3_now c) vals p then
        (if minted_ok (c3_sv c) (c3_host c) (c3_now c) vals (c3_out c) then [] else viol 6 [Z.of_N p])
      else viol 3 [Z.of_N p]
  | None =>
      if minted_ok (c3_sv c) (c3_host c) (c3_now c) vals (c3_out c) then [] else viol 6 [-1]
  end.

(* ---- kind 4: a client handshake ------------------------------------------------------- *)
Record cstep := mkCS {
  cs_op : Z; cs_fresh : N; cs_tbl : vtable; cs_www : bytes; cs_info : bytes;
  cs_ok : bool; cs_state : Z; cs_pid : Z; cs_auth : bool; cs_done : bool; cs_out : ohdr
}.

Fixpoint get_csteps (n : nat) (l : list Z) : option (list cstep * list Z) :=
  match n with
  | O => Some ([], l)
  | S k =>
      do (op, r) <- get_z l; do (fresh, r1) <- get_n r; do (tbl, r2) <- get_vtable r1;
      do (www, r3) <- get_bytes r2; do (info, r4) <- get_bytes r3;
      do (ok, r5) <- get_z r4; do (st, r6) <- get_z r5; do (pid, r7) <- get_z r6;
      do (au, r8) <- get_z r7; do (dn, r9) <- get_z r8; do (out, r10) <- get_ohdr r9;
      do (rest, r11) <- get_csteps k r10;
      Some (mkCS op fresh tbl www info (zbool ok) st pid (zbool au) (zbool dn) out :: rest, r11)
  end.

Definition decode4 (l : list Z) : option (N * N * list cstep) :=
  do (k, r) <- get_n l; do (host, r1) <- get_n r; do (n, r2) <- get_z r1;
  if small n then
    do (steps, r3) <- get_csteps (Z.to_nat n) r2;
    match r3 with [] => Some (k, host, steps) | _ => None end
  else None.

Definition cstate_code (s : cstate) : Z :=
  match s with CSignChallenge => 0 | CVerifyChallenge => 1 | CDone => 2
             | CInitiate => 3 | CVerifyAndSign => 4 | CWaitBearer => 5 end.

(* one operation on the model *)
Definition client_op (c : client) (s : cstep) : option (client * bool) :=
  if cs_op s =? 0 then Some (client_set_initiate c, true)
  else if cs_op s =? 1 then client_parse_i c (cs_tbl s) (cs_www s) (cs_info s)
  else if cs_op s =? 2 then Some (client_run_i c (cs_fresh s))
  else None.

Definition client_auth (c : client) : bool :=
  match client_peer c with Some _ => true | None => false end.
Definition client_done (c : client) : bool :=
  match cl_state c with CDone => true | _ => false end.

Fixpoint conform_client (c : client) (i : Z) (steps : list cstep) : list Z :=
  match steps with
  | [] => []
  | s :: r =>
      match client_op c s with
      | None => malformed 41
      | Some (c', ok) =>
          if negb (Bool.eqb ok (cs_ok s)) then mism 40 [i; boolz ok; boolz (cs_ok s)]
          else if negb (cstate_code (cl_state c') =? cs_state s) then mism 41 [i; cstate_code (cl_state c'); cs_state s]
          else if negb (z_of_on (client_peer c') =? cs_pid s) then mism 42 [i; z_of_on (client_peer c'); cs_pid s]
          else if negb (Bool.eqb (client_auth c') (cs_auth s)) then mism 43 [i]
          else if negb (Bool.eqb (client_done c') (cs_done s)) then mism 44 [i]
          else if negb (ohdr_eqb (cl_out c') (cs_out s)) then mism 45 [i; zlen (cl_out c'); zlen (cs_out s)]
          else conform_client c' (i + 1) r
      end
  end.

(* -- the property at a client, judged from the received headers, the emitted
      headers and the reported id alone -- *)
(* the challenges the client itself drew so far: the challenge-server values of
   the headers it emitted *)
Definition emitted_challenges (out : ohdr) : list term :=
  flat_map (fun x => if N.eqb (fst x) N_CHALS then [snd x] else []) out.

(* does a received value prove the server id p to this client? *)
Definition server_proof (ckey host : N) (own : list term) (p : N) (sg : term) : bool :=
  existsb (fun ch => sym_verify (TPub p) (msg_server ch (TPub ckey) (atom host)) sg) own.

Definition proves (ckey host : N) (own : list term) (vals : list term) (p : N) : bool :=
  existsb (server_proof ckey host own p) vals.

(* monitor state: the client's own challenges so far and every value received
   so far.  Whenever the client reports an id, one of the received values must
   be a signature under that id's key over one of the client's own challenges,
   the client's public key and the hostname. *)
Fixpoint monitor_client (ckey host : N) (own vals : list term) (i : Z) (steps : list cstep) : list Z :=
  match steps with
  | [] => []
  | s :: r =>
      let vals' :=
        if cs_op s =? 1 then carried (cs_tbl s) (cs_www s) ++ carried (cs_tbl s) (cs_info s) ++ vals
        else vals in
      let own' := emitted_challenges (cs_out s) ++ own in
      let ok :=
        if 0 <=? cs_pid s then proves ckey host own' vals' (Z.to_N (cs_pid s)) else true in
      if ok then monitor_client ckey host own' vals' (i + 1) r
      else viol 4 [i; cs_pid s]
  end.

(* ---- kind 5: AuthenticatedDo ------------------------------------------------------------ *)
Fixpoint get_resps (n : nat) (l : list Z) : option (list resp * list Z) :=
  match n with
  | O => Some ([], l)
  | S k =>
      do (st, r0) <- get_z l; do (tbl, r1) <- get_vtable r0;
      do (www, r2) <- get_bytes r1; do (info, r3) <- get_bytes r2;
      do (rest, r4) <- get_resps k r3; Some (mkResp st tbl www info :: rest, r4)
  end.

Fixpoint get_ohdrs (n : nat) (l : list Z) : option (list ohdr * list Z) :=
  match n with
  | O => Some ([], l)
  | S k => do (h, r) <- get_ohdr l; do (rest, r1) <- get_ohdrs k r; Some (h :: rest, r1)
  end.

Record case5 := mkC5 { c5_key : N; c5_host : N; c5_fresh : list N; c5_resps : list resp;
                       c5_pid : Z; c5_reqs : list ohdr }.

Definition decode5 (l : list Z) : option case5 :=
  do (k, r) <- get_n l; do (host, r1) <- get_n r; do (nf, r2) <- get_z r1;
  if small nf then
    do (fr, r3) <- get_ns (Z.to_nat nf) r2; do (nr, r4) <- get_z r3;
    if small nr then
      do (rs, r5) <- get_resps (Z.to_nat nr) r4; do (pid, r6) <- get_z r5; do (nq, r7) <- get_z r6;
      if small nq then
        do (qs, r8) <- get_ohdrs (Z.to_nat nq) r7;
        match r8 with [] => Some (mkC5 k host fr rs pid qs) | _ => None end
      else None
    else None
  else None.

Definition conform5 (c : case5) : list Z :=
  match auth_do_i (c5_key c) (c5_host c) (c5_resps c) (c5_fresh c) with
  | None => malformed 51
  | Some (pid, reqs) =>
      if negb (z_of_on pid =? c5_pid c) then mism 50 [z_of_on pid; c5_pid c]
      else if negb (list_eqb ohdr_eqb reqs (c5_reqs c)) then mism 51 [zlen reqs; zlen (c5_reqs c)]
      else []
  end.

(* everything the responses carried *)
Definition resp_values (rs : list resp) : list term :=
  flat_map (fun r => carried (r_tbl r) (r_www r) ++ carried (r_tbl r) (r_info r)) rs.

(* the property at AuthenticatedDo: the returned id must be proven by a received
   signature over one of the challenges the client's own random source produced
   in this call, the client's key and the hostname *)
Definition monitor5 (c : case5) : list Z :=
  if 0 <=? c5_pid c then
    if proves (c5_key c) (c5_host c) (map atom (c5_fresh c)) (resp_values (c5_resps c)) (Z.to_N (c5_pid c))
    then [] else viol 5 [c5_pid c]
  else [].

(* ---- kind 7: a history of AuthenticatedDo calls on one ClientPeerIDAuth ------------------ *)
Record call7 := mkCall { ca_fresh : list N; ca_resps : list resp; ca_pid : Z; ca_reqs : list ohdr }.

Fixpoint get_calls (n : nat) (l : list Z) : option (list call7 * list Z) :=
  match n with
  | O => Some ([], l)
  | S k =>
      do (nf, r0) <- get_z l;
      if small nf then
        do (fr, r1) <- get_ns (Z.to_nat nf) r0; do (nr, r2) <- get_z r1;
        if small nr then
          do (rs, r3) <- get_resps (Z.to_nat nr) r2; do (pid, r4) <- get_z r3; do (nq, r5) <- get_z r4;
          if small nq then
            do (qs, r6) <- get_ohdrs (Z.to_nat nq) r5;
            do (rest, r7) <- get_calls k r6; Some (mkCall fr rs pid qs :: rest, r7)
          else None
        else None
      else None
  end.

Definition decode7 (l : list Z) : option (N * N * list call7) :=
  do (k, r) <- get_n l; do (host, r1) <- get_n r; do (n, r2) <- get_z r1;
  if small n then
    do (cs, r3) <- get_calls (Z.to_nat n) r2;
    match r3 with [] => Some (k, host, cs) | _ => None end
  else None.

Fixpoint conform_calls (k h : N) (ca : cache) (i : Z) (calls : list call7) : list Z :=
  match calls with
  | [] => []
  | c :: r =>
      match auth_call_i k h ca (ca_resps c) (ca_fresh c) with
      | None => malformed 71
      | Some (pid, qs, ca') =>
          if negb (z_of_on pid =? ca_pid c) then mism 70 [i; z_of_on pid; ca_pid c]
          else if negb (list_eqb ohdr_eqb qs (ca_reqs c)) then mism 71 [i; zlen qs; zlen (ca_reqs c)]
          else conform_calls k h ca' (i + 1) r
      end
  end.

(* a call that only presented a stored token: one request, and it carries no challenge *)
Definition is_token_path (reqs : list ohdr) : bool :=
  match reqs with
  | [q] => match emitted_challenges q with [] => true | _ => false end
  | _ => false
  end.

(* The property along a history.  [last] = the random draws and the received values
   of the most recent call that returned an id through a handshake: the token in
   use was produced by that handshake.  A call that runs a handshake must prove
   the id it returns in that very call; a call that only presents the stored
   token must return an id that the handshake which produced the token proved. *)
Fixpoint monitor_calls (k h : N) (last : option (list term * list term)) (i : Z) (calls : list call7) : list Z :=
  match calls with
  | [] => []
  | c :: r =>
      if 0 <=? ca_pid c then
        let p := Z.to_N (ca_pid c) in
        if is_token_path (ca_reqs c) then
          match last with
          | Some (F, V) => if proves k h F V p then monitor_calls k h last (i + 1) r else viol 7 [i; ca_pid c]
          | None => viol 7 [i; ca_pid c]
          end
        else
          let F := map atom (ca_fresh c) in
          let V := resp_values (ca_resps c) in
          if proves k h F V p then monitor_calls k h (Some (F, V)) (i + 1) r else viol 8 [i; ca_pid c]
      else monitor_calls k h last (i + 1) r
  end.

(* ---- kind 8: a history of AuthenticatedDo calls across hostnames -------------------------- *)
Record call8 := mkHCall { c8_rhost : N; c8_uhost : N; c8_call : call7 }.

Fixpoint get_hcalls (n : nat) (l : list Z) : option (list call8 * list Z) :=
  match n with
  | O => Some ([], l)
  | S k =>
      do (rh, r0) <- get_n l; do (uh, r1) <- get_n r0;
      do (cs, r2) <- get_calls 1 r1;
      match cs with
      | [c] => do (rest, r3) <- get_hcalls k r2; Some (mkHCall rh uh c :: rest, r3)
      | _ => None
      end
  end.

Definition decode8 (l : list Z) : option (N * N * list call8) :=
  do (k, r) <- get_n l; do (e, r1) <- get_n r; do (n, r2) <- get_z r1;
  if small n then
    do (cs, r3) <- get_hcalls (Z.to_nat n) r2;
    match r3 with [] => Some (k, e, cs) | _ => None end
  else None.

Fixpoint conform_hcalls (k : N) (m : tmap) (i : Z) (calls : list call8) : list Z :=
  match calls with
  | [] => []
  | hc :: r =>
      let c := c8_call hc in
      match auth_call_h_i k m (c8_rhost hc) (c8_uhost hc) (ca_resps c) (ca_fresh c) with
      | None => malformed 81
      | Some (pid, qs, m') =>
          if negb (z_of_on pid =? ca_pid c) then mism 80 [i; z_of_on pid; ca_pid c]
          else if negb (list_eqb ohdr_eqb qs (ca_reqs c)) then mism 81 [i; zlen qs; zlen (ca_reqs c)]
          else conform_hcalls k m' (i + 1) r
      end
  end.

(* the hostnames a request names: its Host; for a request without a Host the empty
   name (which is what the handshake is bound to) or the host of its URL (which is
   what the transport sends) - the property does not say which, either is accepted *)
Definition names (e : N) (hc : call8) : list N :=
  if N.eqb (c8_rhost hc) e then [e; c8_uhost hc] else [c8_rhost hc].

Definition lasts := list (N * (list term * list term)).

Fixpoint find_last (h : N) (ls : lasts) : option (list term * list term) :=
  match ls with
  | [] => None
  | (h', x) :: r => if N.eqb h h' then Some x else find_last h r
  end.

(* the first of the named hostnames for which the values received in this call prove p *)
Fixpoint bound_host (k : N) (F V : list term) (p : N) (hs : list N) : option N :=
  match hs with
  | [] => None
  | h :: r => if proves k h F V p then Some h else bound_host k F V p r
  end.

Definition token_ok (k : N) (ls : lasts) (p : N) (hs : list N) : bool :=
  existsb (fun h => match find_last h ls with Some (F, V) => proves k h F V p | None => false end) hs.

(* The property along a history across hostnames.  [ls] = for every hostname H, the random
   draws and received values of the most recent call that returned an id through a
   handshake bound to H (a received signature over one of that call's challenges, the
   client's key and H).  A call that runs a handshake must prove the id it returns in
   that very call, for a hostname its request names; a call that only presents a stored
   token must return an id that the most recent handshake bound to a hostname THIS
   request names proved - a token obtained for one hostname says nothing about the
   server behind another. *)
Fixpoint monitor_hcalls (k e : N) (ls : lasts) (i : Z) (calls : list call8) : list Z :=
  match calls with
  | [] => []
  | hc :: r =>
      let c := c8_call hc in
      if 0 <=? ca_pid c then
        let p := Z.to_N (ca_pid c) in
        if is_token_path (ca_reqs c) then
          if token_ok k ls p (names e hc) then monitor_hcalls k e ls (i + 1) r
          else viol 9 [i; ca_pid c]
        else
          let F := map atom (ca_fresh c) in
          let V := resp_values (ca_resps c) in
          match bound_host k F V p (names e hc) with
          | Some h => monitor_hcalls k e ((h, (F, V)) :: ls) (i + 1) r
          | None => viol 10 [i; ca_pid c]
          end
      else monitor_hcalls k e ls (i + 1) r
  end.

(* ---- the two entry points -------------------------------------------------------------- *)
Definition conform_case (l : list Z) : list Z :=
  match l with
  | 1 :: r => conform1 r
  | 2 :: r => conform2 r
  | 3 :: r => match decode3 r with Some c => conform3 c | None => malformed 3 end
  | 4 :: r => match decode4 r with
              | Some (k, host, steps) => conform_client (client_init k host) 0 steps
              | None => malformed 4
              end
  | 5 :: r => match decode5 r with Some c => conform5 c | None => malformed 5 end
  | 7 :: r => match decode7 r with
              | Some (k, host, cs) => conform_calls k host None 0 cs
              | None => malformed 7
              end
  | 8 :: r => match decode8 r with
              | Some (k, _, cs) => conform_hcalls k [] 0 cs
              | None => malformed 8
              end
  | _ => malformed 0
  end.

Definition monitor_case (l : list Z) : list Z :=
  match l with
  | 1 :: _ => []
  | 2 :: _ => []
  | 3 :: r => match decode3 r with Some c => monitor3 c | None => malformed 3 end
  | 4 :: r => match decode4 r with
              | Some (k, host, steps) => monitor_client k host [] [] 0 steps
              | None => malformed 4
              end
  | 5 :: r => match decode5 r with Some c => monitor5 c | None => malformed 5 end
  | 7 :: r => match decode7 r with
              | Some (k, host, cs) => monitor_calls k host None 0 cs
              | None => malformed 7
              end
  | 8 :: r => match decode8 r with
              | Some (k, e, cs) => monitor_hcalls k e [] 0 cs
              | None => malformed 8
              end
  | _ => malformed 0
  end.

(* C19 — the adversary closure.  Honest servers and honest clients run next to a
   Dolev-Yao adversary (c08.SymCrypto.knows) that supplies every header value
   from what it can derive and learns every sub-term of everything the honest
   parties emit.  Invariant over all traces; accept_implies_origin follows. *)
From Coq Require Import List NArith ZArith Bool Lia.
From Verif Require Import lib.Wire c08.Varint c08.SymCrypto gen.Consts_c19
     c19.Model c19.Spec c19.Proofs_Bytes c19.Proofs_Server c19.Proofs_Step.
Import ListNotations.
Local Open Scope N_scope.

(* ---- sub-terms and knowledge -------------------------------------------------------- *)
Fixpoint subterms (t : term) : list term :=
  t :: match t with
       | TSig _ m _ | TMac _ m | THash m => subterms m
       | TPair a b => subterms a ++ subterms b
       | _ => []
       end.

Lemma subterms_self : forall t, In t (subterms t).
Proof. intros t. destruct t; left; reflexivity. Qed.

Lemma subterms_trans : forall t s u, In s (subterms t) -> In u (subterms s) -> In u (subterms t).
Proof.
  induction t; intros s u Hs Hu; cbn [subterms] in Hs;
    try (destruct Hs as [<-|[]]; exact Hu).
  - destruct Hs as [<-|Hs]; [exact Hu|]. cbn [subterms]. right. eapply IHt; eassumption.
  - destruct Hs as [<-|Hs]; [exact Hu|]. cbn [subterms]. right. eapply IHt; eassumption.
  - destruct Hs as [<-|Hs]; [exact Hu|]. cbn [subterms]. right. eapply IHt; eassumption.
  - destruct Hs as [<-|Hs]; [exact Hu|]. cbn [subterms]. right. apply in_or_app.
    apply in_app_or in Hs. destruct Hs as [Hs|Hs]; [left; eapply IHt1 | right; eapply IHt2]; eassumption.
Qed.

Definition closed (kn : list term) : Prop :=
  forall t, In t kn -> forall s, In s (subterms t) -> In s kn.

Lemma closed_add : forall kn ts, closed kn -> closed (flat_map subterms ts ++ kn).
Proof.
  intros kn ts Hc t Ht s Hs. apply in_app_or in Ht. apply in_or_app. destruct Ht as [Ht|Ht].
  - left. apply in_flat_map in Ht. destruct Ht as [x [Hx Ht]]. apply in_flat_map.
    exists x. split; [exact Hx | eapply subterms_trans; eassumption].
  - right. eapply Hc; eassumption.
Qed.

Lemma mem_term_In : forall t kn, mem_term t kn = true <-> In t kn.
Proof.
  intros t kn. unfold mem_term. rewrite existsb_exists. split.
  - intros [x [Hx He]]. apply term_eqb_eq in He. subst. exact Hx.
  - intros H. exists t. split; [exact H | apply term_eqb_eq; reflexivity].
Qed.

Lemma knows_mem : forall kn t, In t kn -> knows kn t = true.
Proof.
  intros kn t H. apply mem_term_In in H. destruct t; cbn [knows]; rewrite H; reflexivity.
Qed.

Section Adversary.
  Variable secret : N -> bool.

  (* terms only the holder of a secret can make *)
  Definition sens (t : term) : bool :=
    match t with
    | TKey k | TSig k _ _ | TMac k _ => secret k
    | _ => false
    end.

  Definition no_secret_keys (kn : list term) : Prop :=
    forall k, secret k = true -> ~ In (TKey k) kn.

  (* whatever the adversary derives, its sensitive sub-terms were already known *)
  Lemma knows_sens : forall kn, closed kn -> no_secret_keys kn ->
    forall t, knows kn t = true -> forall s, In s (subterms t) -> sens s = true -> In s kn.
  Proof.
    intros kn Hc Hk t. induction t; intros Hkn s Hs Hse; cbn [knows] in Hkn;
      apply orb_true_iff in Hkn;
      (destruct Hkn as [Hm|Hkn]; [apply mem_term_In in Hm; eapply Hc; eassumption|]);
      cbn [subterms] in Hs.
    - destruct Hs as [<-|[]]. discriminate.
    - discriminate.
    - destruct Hs as [<-|[]]. discriminate.
    - apply andb_true_iff in Hkn. destruct Hkn as [Hkey Hm]. apply mem_term_In in Hkey.
      destruct Hs as [<-|Hs].
      + cbn [sens] in Hse. exfalso. apply (Hk k Hse Hkey).
      + apply IHt; assumption.
    - apply andb_true_iff in Hkn. destruct Hkn as [Hkey Hm]. apply mem_term_In in Hkey.
      destruct Hs as [<-|Hs].
      + cbn [sens] in Hse. exfalso. apply (Hk k Hse Hkey).
      + apply IHt; assumption.
    - destruct Hs as [<-|Hs]; [discriminate|]. apply IHt; assumption.
    - apply andb_true_iff in Hkn. destruct Hkn as [H1 H2].
      destruct Hs as [<-|Hs]; [discriminate|]. apply in_app_or in Hs.
      destruct Hs as [Hs|Hs]; [apply IHt1 | apply IHt2]; assumption.
    - destruct Hs as [<-|[]]. discriminate.
  Qed.

  (* a known signature / MAC under a secret key is in the knowledge set itself *)
  Lemma known_sig_in : forall kn k m r, closed kn -> no_secret_keys kn -> secret k = true ->
    knows kn (TSig k m r) = true -> In (TSig k m r) kn.
  Proof.
    intros kn k m r Hc Hk Hs H. apply (knows_sens kn Hc Hk _ H); [apply subterms_self | exact Hs].
  Qed.

  Lemma known_mac_in : forall kn k m, closed kn -> no_secret_keys kn -> secret k = true ->
    knows kn (TMac k m) = true -> In (TMac k m) kn.
  Proof.
    intros kn k m Hc Hk Hs H. apply (knows_sens kn Hc Hk _ H); [apply subterms_self | exact Hs].
  Qed.

  (* components of known pairs are known *)
  Lemma knows_pair : forall kn a b, closed kn -> knows kn (TPair a b) = true ->
    knows kn a = true /\ knows kn b = true.
  Proof.
    intros kn a b Hc H. cbn [knows] in H. apply orb_true_iff in H. destruct H as [H|H].
    - apply mem_term_In in H. split; apply knows_mem; eapply Hc; try exact H; cbn [subterms]; right;
        apply in_or_app; [left|right]; apply subterms_self.
    - apply andb_true_iff in H. exact H.
  Qed.
End Adversary.

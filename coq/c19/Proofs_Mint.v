(* C19 — tokens are issued to proven peers only; the server monitor (report clause +
   issue clause) accepts every answer of the model. *)
From Coq Require Import List NArith ZArith Bool Lia.
From Verif Require Import lib.Wire c08.Varint c08.SymCrypto gen.Consts_c19
     c19.Model c19.Spec c19.Proofs_Bytes c19.Proofs_Server c19.Proofs_Step c19.Proofs_Adv c19.Proofs_Trace.
Import ListNotations.
Local Open Scope N_scope.

Lemma own_state_blob : forall sv st, own_state sv (mk_blob (sv_mac sv) st) = Some st.
Proof.
  intros sv st. unfold own_state, mk_blob.
  rewrite (proj2 (sym_mac_ideal (sv_mac sv) (enc_state st) _) eq_refl). apply dec_enc_state.
Qed.

Lemma minted_ok_app : forall sv host now vals a b,
  minted_ok sv host now vals (a ++ b) = minted_ok sv host now vals a && minted_ok sv host now vals b.
Proof. intros. unfold minted_ok. apply forallb_app. Qed.

(* whatever the model's server emits passes the issue clause *)
Lemma shape_minted_ok : forall sv host now fresh P r vals,
  (forall v t, In (Some v) [p_opaque P; p_sig P] -> pv_dec v = Some t -> In t vals) ->
  shape sv host now fresh P r ->
  forall st pid out, r = SOk st pid out -> minted_ok sv host now vals out = true.
Proof.
  intros sv host now fresh P r vals Hin Sh st pid out E.
  destruct Sh as [e| |pk cpk Hpk Hd|p sigs Hcp Hsigs|pid' Htp]; inversion E; subst; clear E.
  - unfold minted_ok. cbn [forallb snd atom own_state]. rewrite own_state_blob. reflexivity.
  - unfold sig_out, minted_ok. cbn [app forallb snd atom own_state msg_server].
    rewrite own_state_blob. reflexivity.
  - rewrite minted_ok_app. apply andb_true_iff. split.
    + destruct Hsigs as [->|(pkb & _ & ->)]; [reflexivity|]. reflexivity.
    + unfold minted_ok. cbn [forallb snd]. rewrite own_state_blob. cbn [token_state os_token os_pid].
      rewrite (challenge_proven_exists sv host now p P vals Hin Hcp). reflexivity.
  - reflexivity.
Qed.

Lemma challenge_out_minted_ok : forall sv host now fresh vals st pid out,
  run_challenge_client sv host now fresh = SOk st pid out -> minted_ok sv host now vals out = true.
Proof.
  intros sv host now fresh vals st pid out H.
  eapply (shape_minted_ok sv host now fresh p_empty _ vals); [|apply ShChallenge|exact H].
  intros v t Hin. cbn in Hin. destruct Hin as [Hin|[Hin|[]]]; discriminate.
Qed.

Theorem server_step_minted_ok : forall sv host now fresh tbl hdr st pid out,
  server_step_i sv host now fresh tbl hdr = Some (SOk st pid out) ->
  minted_ok sv host now (carried tbl hdr) out = true.
Proof.
  intros sv host now fresh tbl hdr st pid out H. unfold server_step_i, server_step in H.
  destruct hdr as [|h0 hdr'].
  - assert (H1 : run_challenge_client sv host now fresh = SOk st pid out) by congruence.
    eapply challenge_out_minted_ok. exact H1.
  - destruct (parse_scheme_params (h0 :: hdr') bp_empty) as [bp e] eqn:Ep.
    destruct e; try discriminate.
    destruct (lift_params tbl bp) as [P|] eqn:El; [|discriminate].
    assert (H1 : server_run sym_verify sym_mac_check sv host now fresh P = SOk st pid out) by congruence. clear H.
    pose proof (lift_params_within _ _ _ _ (parse_scheme_params_within _ _ _ Ep) El) as Hw.
    eapply (shape_minted_ok sv host now fresh P _ (carried tbl (h0 :: hdr'))); [|apply server_run_shape|exact H1].
    intros v t Hin Hd. apply (Hw v t); [|exact Hd]. cbn [In] in *. destruct Hin as [Hin|[Hin|[]]]; rewrite Hin; tauto.
Qed.

Lemma z_of_on_nonneg : forall o, (0 <=? z_of_on o)%Z = true -> exists p, o = Some p /\ Z.to_N (z_of_on o) = p.
Proof.
  intros [p|] H; cbn [z_of_on] in *; [|discriminate]. exists p. split; [reflexivity | apply N2Z.id].
Qed.

Lemma minted_ok_nil : forall sv host now vals, minted_ok sv host now vals [] = true.
Proof. reflexivity. Qed.

Theorem monitor3_model : forall mode sv host now fresh tr tbl hdr c,
  model_case3 mode sv host now fresh tr tbl hdr = Some c -> monitor3 c = [].
Proof.
  intros mode sv host now fresh tr tbl hdr c H. unfold model_case3 in H.
  destruct (server_step_i sv host now fresh tbl hdr) as [r|] eqn:Es; [|discriminate].
  destruct (mode =? 0)%Z.
  - destruct r as [e|st pid out]; inversion H; subst; clear H; unfold monitor3, reported_obs;
      cbn [c3_mode c3_o1 c3_pid c3_sv c3_host c3_now c3_tbl c3_hdr c3_out].
    + rewrite Z.eqb_refl. destruct (ecls_code e =? 0)%Z eqn:E; [destruct e; discriminate | reflexivity].
    + rewrite Z.eqb_refl. cbn [andb Z.eqb]. rewrite (server_step_minted_ok _ _ _ _ _ _ _ _ _ Es).
      destruct (0 <=? z_of_on pid)%Z eqn:E; [|reflexivity].
      destruct (z_of_on_nonneg _ E) as [p [-> Hp]]. rewrite Hp.
      rewrite (server_step_proven _ _ _ _ _ _ _ p Es eq_refl). reflexivity.
  - unfold http_response in H. destruct (negb (transport_status tr =? 0)%Z).
    + inversion H; subst. reflexivity.
    + destruct r as [e|st [p|] out].
      * assert (G : forall o, (let '(s1, p1, o1) := (401%Z, (-1)%Z, o) in
                              Some (mkC3 1 sv host now fresh tr tbl hdr s1 (-1) p1 o1)) = Some c ->
                              minted_ok sv host now (carried tbl hdr) o = true -> monitor3 c = []).
        { intros o Ho Hm. inversion Ho; subst. unfold monitor3, reported_obs.
          cbn [c3_mode c3_o1 c3_pid c3_sv c3_host c3_now c3_tbl c3_hdr c3_out]. rewrite Hm. reflexivity. }
        destruct e; try (inversion H; subst; reflexivity);
          (destruct (run_challenge_client sv host now fresh) as [e'|st' pid' out'] eqn:Ec;
           [inversion H; subst; reflexivity | apply (G out' H); eapply challenge_out_minted_ok; exact Ec]).
      * inversion H; subst; clear H. unfold monitor3, reported_obs.
        cbn [c3_mode c3_o1 c3_pid c3_sv c3_host c3_now c3_tbl c3_hdr c3_out].
        replace (1 =? 0)%Z with false by reflexivity.
        assert (E : (0 <=? Z.of_N p)%Z = true) by (apply Z.leb_le; lia). rewrite E, N2Z.id.
        rewrite (server_step_proven _ _ _ _ _ _ _ p Es eq_refl).
        rewrite (server_step_minted_ok _ _ _ _ _ _ _ _ _ Es). reflexivity.
      * inversion H; subst; clear H. unfold monitor3, reported_obs.
        cbn [c3_mode c3_o1 c3_pid c3_sv c3_host c3_now c3_tbl c3_hdr c3_out].
        rewrite (server_step_minted_ok _ _ _ _ _ _ _ _ _ Es). reflexivity.
Qed.

(* C19 — from the header value to the monitor: the values the model's server
   acts on are carried by the header, so the property monitor of Spec.v accepts
   every answer of the model (both modes). *)
From Coq Require Import List NArith ZArith Bool Lia.
From Verif Require Import lib.Wire c08.Varint c08.SymCrypto gen.Consts_c19
     c19.Model c19.Spec c19.Proofs_Bytes c19.Proofs_Server.
Import ListNotations.
Local Open Scope N_scope.

Lemma is_infix_of : forall x l, infixP x l -> is_infix x l = true.
Proof.
  intros x l [a [b H]]. subst l. induction a as [|y a IH]; cbn [app].
  - destruct (x ++ b) eqn:E; cbn [is_infix]; rewrite <- ?E;
      rewrite (proj2 (is_prefix_true x (x ++ b)) (ex_intro _ b eq_refl)); reflexivity.
  - cbn [is_infix]. rewrite IH. apply orb_true_r.
Qed.

Lemma lookup_in : forall tbl raw v, lookup tbl raw = Some v ->
  exists r i, In (r, (i, pv_dec v)) tbl /\ r = raw.
Proof.
  induction tbl as [|[r [i d]] tbl IH]; intros raw v H; cbn [lookup] in H; [discriminate|].
  destruct (bytes_eqb r raw) eqn:E.
  - inversion H; subst. cbn [pv_dec]. apply bytes_eqb_eq in E. exists r, i. split; [left; reflexivity | exact E].
  - destruct (IH raw v H) as [r' [i' [Hin Hr]]]. exists r', i'. split; [right; exact Hin | exact Hr].
Qed.

Lemma carried_in : forall tbl hdr raw i t,
  In (raw, (i, Some t)) tbl -> infixP raw hdr -> In t (carried tbl hdr).
Proof.
  intros tbl hdr raw i t Hin Hinf. unfold carried. apply in_flat_map.
  exists (raw, (i, Some t)). split; [exact Hin|]. cbn [fst snd].
  rewrite (is_infix_of _ _ Hinf). left. reflexivity.
Qed.

(* a lifted parameter is described by the table and occurs in the header *)
Lemma lift1_carried : forall tbl hdr o v t,
  (forall raw, o = Some raw -> infixP raw hdr) ->
  lift1 tbl o = Some (Some v) -> pv_dec v = Some t -> In t (carried tbl hdr).
Proof.
  intros tbl hdr o v t Hw H Hd. unfold lift1 in H. destruct o as [raw|]; [|discriminate].
  destruct (lookup tbl raw) as [v'|] eqn:El; [|discriminate]. inversion H; subst v'.
  destruct (lookup_in _ _ _ El) as [r [i [Hin Hr]]]. subst r. rewrite Hd in Hin.
  eapply carried_in; [exact Hin | apply Hw; reflexivity].
Qed.

Definition params_within (tbl : vtable) (hdr : bytes) (P : params) : Prop :=
  forall v t, In (Some v) [p_bearer P; p_chalC P; p_chalS P; p_opaque P; p_pk P; p_sig P] ->
              pv_dec v = Some t -> In t (carried tbl hdr).

Lemma lift_params_within : forall tbl hdr bp P,
  bp_within hdr bp -> lift_params tbl bp = Some P -> params_within tbl hdr P.
Proof.
  intros tbl hdr bp P Hw H. unfold lift_params in H.
  destruct (lift1 tbl (b_bearer bp)) as [a|] eqn:E1; [|discriminate].
  destruct (lift1 tbl (b_chalC bp)) as [b|] eqn:E2; [|discriminate].
  destruct (lift1 tbl (b_chalS bp)) as [c|] eqn:E3; [|discriminate].
  destruct (lift1 tbl (b_opaque bp)) as [d|] eqn:E4; [|discriminate].
  destruct (lift1 tbl (b_pk bp)) as [e|] eqn:E5; [|discriminate].
  destruct (lift1 tbl (b_sig bp)) as [f|] eqn:E6; [|discriminate].
  inversion H; subst. intros v t Hin Hd. cbn [p_bearer p_chalC p_chalS p_opaque p_pk p_sig In] in Hin.
  assert (W : forall o, In o (bp_values bp) -> forall raw, o = Some raw -> infixP raw hdr).
  { intros o Ho raw ->. apply Hw, Ho. }
  destruct Hin as [Hin|[Hin|[Hin|[Hin|[Hin|[Hin|[]]]]]]]; subst.
  - eapply lift1_carried; [apply W|exact E1|exact Hd]. cbn; tauto.
  - eapply lift1_carried; [apply W|exact E2|exact Hd]. cbn; tauto.
  - eapply lift1_carried; [apply W|exact E3|exact Hd]. cbn; tauto.
  - eapply lift1_carried; [apply W|exact E4|exact Hd]. cbn; tauto.
  - eapply lift1_carried; [apply W|exact E5|exact Hd]. cbn; tauto.
  - eapply lift1_carried; [apply W|exact E6|exact Hd]. cbn; tauto.
Qed.

(* ---- Prop-level proofs imply the monitor's boolean ------------------------------------ *)
Lemma authentic_own_state : forall sv blob s, authentic sv blob s -> own_state sv blob = Some s.
Proof.
  intros sv blob s [fields [-> Hd]]. unfold own_state.
  rewrite (proj2 (sym_mac_ideal (sv_mac sv) fields _) eq_refl). exact Hd.
Qed.

Lemma challenge_proven_exists : forall sv host now p P vals,
  (forall v t, In (Some v) [p_opaque P; p_sig P] -> pv_dec v = Some t -> In t vals) ->
  challenge_proven sv host now p P -> challenge_proven_in sv host now vals p = true.
Proof.
  intros sv host now p P vals Hin (oq & sg & blob & s & sgt & Ho & Hs & Hdo & Hds & Ha & Htk & Hh & Ht & Hor).
  unfold challenge_proven_in.
  apply existsb_exists. exists blob. split; [apply (Hin oq); [rewrite Ho; cbn; tauto | exact Hdo]|].
  apply existsb_exists. exists sgt. split; [apply (Hin sg); [rewrite Hs; cbn; tauto | exact Hds]|].
  unfold challenge_proof. rewrite (authentic_own_state _ _ _ Ha), Htk, Hh, N.eqb_refl.
  apply Z.leb_le in Ht. rewrite Ht. cbn [negb andb]. apply sym_ideal. exact Hor.
Qed.

Lemma challenge_proven_bool : forall sv host now p P vals,
  (forall v t, In (Some v) [p_opaque P; p_sig P] -> pv_dec v = Some t -> In t vals) ->
  challenge_proven sv host now p P -> proven sv host now vals p = true.
Proof.
  intros sv host now p P vals Hin H. unfold proven. apply orb_true_iff. left.
  exact (challenge_proven_exists sv host now p P vals Hin H).
Qed.

Lemma token_proven_bool : forall sv host now p P vals,
  (forall v t, p_bearer P = Some v -> pv_dec v = Some t -> In t vals) ->
  token_proven sv now p P -> proven sv host now vals p = true.
Proof.
  intros sv host now p P vals Hin (b & blob & s & Hb & Hd & Ha & Htk & Hp & Ht).
  unfold proven. apply orb_true_iff. right.
  apply existsb_exists. exists blob. split; [apply (Hin b); assumption|].
  unfold token_proof. rewrite (authentic_own_state _ _ _ Ha), Htk, Hp, N.eqb_refl.
  apply Z.leb_le in Ht. rewrite Ht. reflexivity.
Qed.

(* THE server clause on header values: an identity is reported only if the
   header carries a proof of it *)
Theorem server_step_proven : forall sv host now fresh tbl hdr r p,
  server_step_i sv host now fresh tbl hdr = Some r -> reported r = Some p ->
  proven sv host now (carried tbl hdr) p = true.
Proof.
  intros sv host now fresh tbl hdr r p H Hr. unfold server_step_i, server_step in H.
  destruct hdr as [|h0 hdr'].
  - inversion H; subst. discriminate.
  - destruct (parse_scheme_params (h0 :: hdr') bp_empty) as [bp e] eqn:Ep.
    destruct e; try (inversion H; subst; discriminate).
    destruct (lift_params tbl bp) as [P|] eqn:El; [|discriminate]. inversion H; subst r. clear H.
    pose proof (lift_params_within _ _ _ _ (parse_scheme_params_within _ _ _ Ep) El) as Hw.
    unfold reported in Hr.
    destruct (server_run sym_verify sym_mac_check sv host now fresh P) as [e|st pid out] eqn:Er; [discriminate|].
    destruct pid as [q|]; [|discriminate]. inversion Hr; subst q.
    destruct (server_run_proven sym_verify sym_mac_check sym_ideal sym_mac_ideal _ _ _ _ _ _ _ _ Er) as [Hc|Ht].
    + eapply challenge_proven_bool; [|exact Hc]. intros v t Hin Hd. apply (Hw v t); [|exact Hd].
      cbn [In] in *. destruct Hin as [Hin|[Hin|[]]]; rewrite Hin; tauto.
    + eapply token_proven_bool; [|exact Ht]. intros v t Hb Hd. apply (Hw v t); [|exact Hd].
      rewrite <- Hb. cbn; tauto.
Qed.

(* ---- the model's own answers as cases, and the monitor on them ------------------------ *)
Definition model_case3 (mode : Z) (sv : server) (host : N) (now : Z) (fresh : N) (tr : transport)
           (tbl : vtable) (hdr : bytes) : option case3 :=
  match server_step_i sv host now fresh tbl hdr with
  | None => None
  | Some r =>
      if (mode =? 0)%Z then
        match r with
        | SErr e => Some (mkC3 0 sv host now fresh tr tbl hdr (ecls_code e) 0 (-1) [])
        | SOk st pid out => Some (mkC3 0 sv host now fresh tr tbl hdr 0 (sstate_code st) (z_of_on pid) out)
        end
      else
        let '(st, pid, out) := http_response tr sv host now fresh r in
        Some (mkC3 1 sv host now fresh tr tbl hdr st (-1) pid out)
  end.


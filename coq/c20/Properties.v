(* C20 — property theorems only.  Each is closed by [exact] of a lemma from
   Proofs.v and followed by Print Assumptions. *)
From Coq Require Import List Arith ZArith Bool.
From Verif Require Import lib.Wire c20.Model c20.Spec c20.Proofs c20.Proofs_Probe gen.Consts_c20.
Import ListNotations.

(* THE property on traces: for every window size n >= 1, every threshold m and
   every finite sequence of request / record-result events, the observable
   trace of the counter satisfies the property monitor of Spec.v:
   requests are refused only in a blocked period, a blocked period starts only
   after a full window of n results with fewer than m successes (counted since
   the last success-while-blocked), a success while blocked clears it, and in
   a blocked period never n consecutive requests are refused and probes are
   exactly n requests apart. *)
Theorem c20_counter_trace_holds : forall n m ops, 1 <= n ->
  holds_counter n m (ctrace (init_counter n m) ops) = true.
Proof. exact holds_counter_model. Qed.
Print Assumptions c20_counter_trace_holds.

Theorem c20_successes_is_count : forall n m c, 1 <= n -> reachable n m c ->
  successes c = count_true (window c) /\ length (window c) <= cN c.
Proof. exact successes_is_count_l. Qed.
Print Assumptions c20_successes_is_count.

Theorem c20_blocked_needs_full_window : forall n m c, 1 <= n -> reachable n m c ->
  st c = Blocked ->
  length (window c) = cN c /\ (count_true (window c) < cMin c)%Z.
Proof. exact blocked_needs_full_window_l. Qed.
Print Assumptions c20_blocked_needs_full_window.

(* from any reachable blocked state, among the next N requests exactly one is
   let through as a probe and the others are refused *)
Theorem c20_probe_one_in_N : forall n m c, 1 <= n -> reachable n m c -> st c = Blocked ->
  let outs := snd (requests_n c (cN c)) in
  count_probing outs = 1 /\ (forall x, In x outs -> x = Probing \/ x = Blocked).
Proof. intros n m c Hn Hr. exact (probe_one_in_N_l c (reachable_cinv n m c Hn Hr)). Qed.
Print Assumptions c20_probe_one_in_N.

(* one success while blocked clears the state; it then takes at least N further
   results before the counter can block again *)
Theorem c20_cannot_stay_blocked : forall n m c bs, 1 <= n -> reachable n m c ->
  st c = Blocked -> length bs < cN c ->
  st (record_result c true) = Probing /\
  st (records (record_result c true) bs) = Probing.
Proof.
  intros n m c bs Hn Hr Hb Hl. pose proof (reachable_cinv n m c Hn Hr) as Hi. split.
  - exact (proj1 (success_unblocks_l c Hi Hb)).
  - exact (cannot_stay_blocked_l c bs Hi Hb Hl).
Qed.
Print Assumptions c20_cannot_stay_blocked.

(* FilterAddrs: the two returned lists partition the input in input order;
   private addresses and addresses that are neither UDP nor IPv6 are always
   kept; an address is removed only if it is public and (UDP with the UDP
   counter answering Blocked, unless it is IPv6 and the IPv6 counter is
   probing) or symmetrically *)
Theorem c20_filter_sound : forall d addrs,
  let '(u, v) := filter_results d addrs in
  let kept := snd (fst (filter_addrs d addrs)) in
  let removed := snd (filter_addrs d addrs) in
  kept = filter (keep u v) addrs /\
  removed = filter (fun a => negb (keep u v a)) addrs /\
  (forall a, In a addrs <-> In a kept \/ In a removed) /\
  (forall a, In a kept -> In a removed -> False) /\
  (forall a, In a addrs -> a_pub a = false -> In a kept) /\
  (forall a, In a addrs -> a_udp a = false -> a_ip6 a = false -> In a kept) /\
  (forall a, In a removed ->
     a_pub a = true /\
     ((a_udp a = true /\ u = Blocked /\ ~ (a_ip6 a = true /\ v = Probing)) \/
      (a_ip6 a = true /\ v = Blocked /\ ~ (a_udp a = true /\ u = Probing)))).
Proof.
  intros d addrs. pose proof (filter_addrs_lists d addrs) as H.
  destruct (filter_results d addrs) as [u v]. destruct H as [H1 H2].
  cbv zeta. rewrite H1, H2. repeat split.
  - apply filter_partition.
  - apply filter_partition.
  - apply filter_disjoint.
  - intros a Hin Hp. apply filter_In. split; [exact Hin|]. apply keep_private, Hp.
  - intros a Hin Hu Hv. apply filter_In. split; [exact Hin|]. apply keep_other_kind; assumption.
  - apply filter_In in H. destruct H as [_ H]. apply negb_true_iff in H.
    apply (keep_false_inv u v a H).
  - apply filter_In in H. destruct H as [_ H]. apply negb_true_iff in H.
    apply (keep_false_inv u v a H).
Qed.
Print Assumptions c20_filter_sound.

(* a counter answers Blocked only from its own Blocked state (normal mode) *)
Theorem c20_blocked_answer_needs_blocked_state : forall ro c,
  snd (get_filter_state ro c) = Blocked ->
  if ro then st c <> Allowed else st c = Blocked.
Proof. exact get_filter_state_blocked. Qed.
Print Assumptions c20_blocked_answer_needs_blocked_state.

(* read-only mode: neither operation changes any state, and the answer is
   Allowed iff the state is Allowed *)
Theorem c20_readonly_frozen : forall d, d_ro d = true ->
  (forall addrs, fst (fst (filter_addrs d addrs)) = d) /\
  (forall a b, det_record d a b = d) /\
  (forall c, snd (get_filter_state true c) = Allowed <-> st c = Allowed).
Proof.
  intros d H. repeat split.
  - intros addrs. apply readonly_filter_frozen, H.
  - intros a b. apply readonly_record_frozen, H.
  - apply readonly_answer.
  - apply readonly_answer.
Qed.
Print Assumptions c20_readonly_frozen.

(* the detector-level trace monitor holds on every history of FilterAddrs /
   RecordResult issued through a read-write or a read-only detector sharing the
   two counters, and direct counter updates, from every initial pair of counters *)
Theorem c20_detector_trace_holds : forall p ops i,
  monitor_det (cview_of (fst p)) (cview_of (snd p)) i (dtrace p ops) = [].
Proof. intros p ops i. exact (monitor_det_model ops p i). Qed.
Print Assumptions c20_detector_trace_holds.

(* "one request in every N is let through as a probe", at detector level and
   over every history: while a counter is Blocked, never N consecutive pure
   requests of its kind are refused, whatever other traffic (private-only
   peers, the other kind, read-only detectors, dials that never reached a
   transport) is interleaved — such traffic must not use up the probe slot *)
Theorem c20_probe_slot_holds : forall k p ops i, pok p ->
  probe_run k (nN (sel k p)) (fst (cview_of (sel k p))) 0 i (dtrace p ops) = [].
Proof. intros k p ops i H. exact (probe_run_model k ops p 0 i (pinv_start k p H)). Qed.
Print Assumptions c20_probe_slot_holds.

(* everything [monitor_case] evaluates on a detector case accepts every model
   trace from the configured initial pair *)
Theorem c20_monitor_case_accepts_model : forall un um vn vm ops, (0 <= un)%Z -> (0 <= vn)%Z ->
  let p := (mk_counter_opt un um, mk_counter_opt vn vm) in
  monitor_det (cview_of (fst p)) (cview_of (snd p)) 0 (dtrace p ops) = [] /\
  probe_run true (Z.to_nat un) (fst (cview_of (fst p))) 0 0 (dtrace p ops) = [] /\
  probe_run false (Z.to_nat vn) (fst (cview_of (snd p))) 0 0 (dtrace p ops) = [].
Proof. exact monitor_case_det_model. Qed.
Print Assumptions c20_monitor_case_accepts_model.

(* regenerated obligation: every BlackHoleSuccessCounter literal in /repo's
   non-test sources satisfies the precondition 1 <= N of the theorems above
   (bh_configs is re-read from the source on every run) *)
Theorem c20_configs_wf : forall p, In p bh_configs -> (1 <= fst p)%Z.
Proof.
  intros p H.
  assert (E : forallb (fun p => (1 <=? fst p)%Z) bh_configs = true) by (vm_compute; reflexivity).
  rewrite forallb_forall in E. apply Z.leb_le, E, H.
Qed.
Print Assumptions c20_configs_wf.

(* ---- non-vacuity --------------------------------------------------------- *)
(* a reachable Blocked state exists (N = 3, MinSuccesses = 1, three failures),
   so the implications above are not vacuous; and the monitor rejects a trace
   that blocks too early *)
Example blocked_reachable :
  let c := fst (crun (init_counter 3 1) [Rec false; Rec false; Rec false]) in
  reachable 3 1 c /\ st c = Blocked.
Proof. split; [eexists; reflexivity | reflexivity]. Qed.

Example monitor_rejects_early_block :
  holds_counter 3 1 [(Rec false, Probing); (Rec false, Blocked)] = false.
Proof. reflexivity. Qed.

Example monitor_rejects_no_probe :
  holds_counter 2 1 [(Rec false, Probing); (Rec false, Blocked);
                     (Req, Blocked); (Req, Blocked)] = false.
Proof. reflexivity. Qed.

(* a read-only detector that bumps the shared request counter is rejected *)
Example monitor_rejects_readonly_change :
  monitor_case [1; 2; 1; 0; 0;  10; 1; 0;  0; 1; 0; 0; 9; 0; 0; 0]%Z <> [].
Proof. vm_compute. discriminate. Qed.

Example monitor_rejects_private_removed :
  monitor_case [1; 2; 1; 0; 0;  10; 0; 1; 2; 0;  0; 0; 0; 0; 9; 0; 0; 0]%Z <> [].
Proof. vm_compute. discriminate. Qed.

(* udp N = 2, Min = 1: two failed dials block; then a private-only request that
   bumps the counter (reported internals: requests = 1) makes the next two real
   requests both refused: the probe slot was used up by the private request.
   The probe clause alone rejects the trace ([monitor_det] does not). *)
Example probe_rejects_slot_consumed :
  probe_run true 2 0 0 0
    ([(TDet false (DRecord (mkAddr true true false 0) false), DO [] (0, (0, 1, 0))%Z (9, (0, 0, 0))%Z);
     (TDet false (DRecord (mkAddr true true false 0) false), DO [] (2, (0, 2, 0))%Z (9, (0, 0, 0))%Z);
     (TDet false (DFilter [mkAddr true true false 0]), DO [false] (2, (1, 2, 0))%Z (9, (0, 0, 0))%Z);
     (TDet false (DFilter [mkAddr true true false 0]), DO [false] (2, (2, 2, 0))%Z (9, (0, 0, 0))%Z)]%Z : list (top * dobs)) <> [].
Proof. vm_compute. discriminate. Qed.

(* a dialAddr that never reached a transport but changed a counter is rejected *)
Example monitor_rejects_nodial_record :
  monitor_case [1; 2; 1; 0; 0;  15; 0; 3;  0; 0; 1; 0;  9; 0; 0; 0]%Z <> [].
Proof. vm_compute. discriminate. Qed.

(* a success recorded on a Blocked counter that leaves it Blocked is rejected
   ("a single success while blocked clears the state") *)
Example probe_rejects_success_not_unblocking :
  probe_run true 2 2 0 0
    ([(TDet false (DRecord (mkAddr true true false 0) true), DO [] (2, (0, 2, 0))%Z (9, (0, 0, 0))%Z)]
       : list (top * dobs)) <> [].
Proof. vm_compute. discriminate. Qed.

(* "known-good" claimed before a full observation window is rejected (N = 3,
   MinSuccesses = 1: one success is not yet a window) *)
Example monitor_rejects_early_allowed :
  holds_counter 3 1 [(Rec true, Allowed)] = false /\
  holds_counter 3 1 [(Rec true, Probing); (Rec false, Probing); (Rec false, Allowed)] = true.
Proof. split; reflexivity. Qed.

(* C20 — the property as a decidable predicate over observable traces
   (monitor), and the decoding of correspondence lines.  No proofs here. *)
From Coq Require Import List Arith ZArith Bool.
From Verif Require Import lib.Wire c20.Model.
Import ListNotations.

(* ---- counter monitor --------------------------------------------------- *)
(* Abstract bookkeeping the property talks about, computed from the
   operations and the *observed* answers only:
     results  : dial results recorded since the last success-while-blocked
     cur      : last observed state (Probing before anything was recorded)
     run      : consecutive Blocked answers to requests in the current
                blocked period
     probed   : a probe was already let through in the current blocked period *)
Record mon := mkMon { results : list bool; cur : bhstate; run : nat; probed : bool }.

Definition mon_init := mkMon [] Probing 0 false.

Definition count_true (l : list bool) : Z :=
  fold_right (fun (b : bool) (acc : Z) => if b then (acc + 1)%Z else acc) 0%Z l.

Definition lastn {A} (n : nat) (l : list A) : list A := skipn (length l - n) l.

(* "a full observation window in which fewer than the required number of
   dials succeeded" *)
Definition full_bad_window (n : nat) (m : Z) (rs : list bool) : bool :=
  Nat.leb n (length rs) && Z.ltb (count_true (lastn n rs)) m.

(* one monitored step: returns None when the observation violates the
   property *)
Definition mon_step (n : nat) (m : Z) (s : mon) (o : cop) (obs : bhstate) : option mon :=
  match o with
  | Req =>
      match cur s with
      | Blocked =>
          match obs with
          | Blocked =>
              (* never N consecutive refusals: one request in every N probes *)
              if Nat.ltb (S (run s)) n
              then Some (mkMon (results s) Blocked (S (run s)) (probed s))
              else None
          | Probing =>
              (* probes are exactly N requests apart within a blocked period *)
              if negb (probed s) || Nat.eqb (S (run s)) n
              then Some (mkMon (results s) Blocked 0 true)
              else None
          | Allowed => None
          end
      | _ =>
          (* not blocked: requests are never refused *)
          match obs with
          | Blocked => None
          | _ => Some s
          end
      end
  | Rec b =>
      let rs := if bhstate_eqb (cur s) Blocked && b then [] else results s ++ [b] in
      match obs with
      | Blocked =>
          (* blocked only after a full window with < m successes; a success
             while blocked clears the state *)
          if full_bad_window n m rs
          then Some (mkMon rs Blocked
                       (if bhstate_eqb (cur s) Blocked then run s else 0)
                       (if bhstate_eqb (cur s) Blocked then probed s else false))
          else None
      | x => Some (mkMon rs x 0 false)
      end
  end.

Fixpoint mon_run (n : nat) (m : Z) (s : mon) (tr : list (cop * bhstate)) : bool :=
  match tr with
  | [] => true
  | (o, obs) :: r =>
      match mon_step n m s o obs with
      | Some s' => mon_run n m s' r
      | None => false
      end
  end.

Definition holds_counter (n : nat) (m : Z) (tr : list (cop * bhstate)) : bool :=
  mon_run n m mon_init tr.

(* ---- detector monitor -------------------------------------------------- *)
(* One FilterAddrs call, judged against the counter states observed before
   it ([None] = counter not configured). *)
Definition st_is (o : option bhstate) (x : bhstate) : bool :=
  match o with Some s => bhstate_eqb s x | None => false end.

(* may address [a] legitimately be removed? *)
Definition removable (ro : bool) (u v : option bhstate) (a : addr) : bool :=
  a_pub a &&
  ((a_udp a && (if ro then (match u with None => false | Some s => negb (bhstate_eqb s Allowed) end)
                else st_is u Blocked))
   || (a_ip6 a && (if ro then (match v with None => false | Some s => negb (bhstate_eqb s Allowed) end)
                   else st_is v Blocked))).

(* must address [a] be removed?  Only read-only mode has a must-refuse
   clause: "refuses unless the state is known-good". *)
Definition must_remove (ro : bool) (u v : option bhstate) (a : addr) : bool :=
  ro && a_pub a &&
  ((a_udp a && (match u with None => false | Some s => negb (bhstate_eqb s Allowed) end))
   || (a_ip6 a && (match v with None => false | Some s => negb (bhstate_eqb s Allowed) end))).

(* [flags]: per input address, true = returned as valid, false = returned as
   black-holed (the harness reports anything else as a malformed case). *)
Definition filter_ok (ro : bool) (u v : option bhstate)
           (addrs : list addr) (flags : list bool) : bool :=
  Nat.eqb (length addrs) (length flags) &&
  forallb (fun af : addr * bool =>
             let '(a, kept) := af in
             if kept then negb (must_remove ro u v a) else removable ro u v a)
          (combine addrs flags).

(* ---- wire decoding ------------------------------------------------------ *)
Local Open Scope Z_scope.

Definition st_of_z (z : Z) : option bhstate :=
  if z =? 0 then Some Probing else if z =? 1 then Some Allowed
  else if z =? 2 then Some Blocked else None.
Definition z_of_st (s : bhstate) : Z :=
  match s with Probing => 0 | Allowed => 1 | Blocked => 2 end.
Definition z_of_ost (s : option bhstate) : Z :=
  match s with Some x => z_of_st x | None => 9 end.

Definition cop_of_z (z : Z) : option cop :=
  if z =? 0 then Some Req else if z =? 1 then Some (Rec false)
  else if z =? 2 then Some (Rec true) else None.

(* counter case:  0 N minS (op obs)*   ; minS is sent as minS (may be 0..) *)
Fixpoint decode_ctrace (l : list Z) (fuel : nat) : option (list (cop * bhstate)) :=
  match fuel with
  | O => None
  | S f =>
    match l with
    | [] => Some []
    | o :: x :: r =>
        match cop_of_z o, st_of_z x, decode_ctrace r f with
        | Some o', Some x', Some t => Some ((o', x') :: t)
        | _, _, _ => None
        end
    | _ => None
    end
  end.

Fixpoint first_diff (i : Z) (a b : list bhstate) : list Z :=
  match a, b with
  | [], [] => []
  | x :: ra, y :: rb =>
      if bhstate_eqb x y then first_diff (i + 1) ra rb
      else [ERR_MISMATCH; i; z_of_st x; z_of_st y]
  | _, _ => [ERR_MISMATCH; i; -1; -1]
  end.

Definition conform_counter (n : nat) (m : Z) (tr : list (cop * bhstate)) : list Z :=
  let '(_, outs) := crun (init_counter n m) (map fst tr) in
  first_diff 0 outs (map snd tr).

(* index of the first step at which the monitor fails *)
Fixpoint mon_fail_index (n : nat) (m : Z) (s : mon) (i : Z) (tr : list (cop * bhstate)) : list Z :=
  match tr with
  | [] => []
  | (o, obs) :: r =>
      match mon_step n m s o obs with
      | Some s' => mon_fail_index n m s' (i + 1) r
      | None => [ERR_PROPERTY; i; z_of_st (cur s); z_of_st obs]
      end
  end.

(* detector case:
     1 ro udpN udpMin ip6N ip6Min  op*
   op = 10 k cls_1..cls_k flag_1..flag_k ust vst     (FilterAddrs; ust/vst after)
      | 11 cls succ ust vst                          (RecordResult)
      | 12 which succ ust vst                        (RecordResult directly on the
                                                      shared udp (0) / ipv6 (1) counter)
   cls = pub + 2*udp + 4*ip6 ; flag 1 = valid, 0 = black-holed;
   ust/vst = 0/1/2 state of the udp / ipv6 counter after the op, 9 = nil. *)
Definition addr_of_cls (id : nat) (z : Z) : addr :=
  mkAddr (Z.testbit z 0) (Z.testbit z 1) (Z.testbit z 2) id.

Fixpoint addrs_of (i : nat) (l : list Z) : list addr :=
  match l with [] => [] | z :: r => addr_of_cls i z :: addrs_of (S i) r end.

Inductive dobs := DO (flags : list bool) (u v : Z).

(* trace operations: the detector's own operations, plus a RecordResult issued
   directly on one of the shared counters (that is how a read-only detector's
   counters change in the real system: they are shared with the main swarm) *)
Inductive top := TDet (o : dop) | TDirect (ip6 : bool) (success : bool).

Fixpoint decode_dtrace (l : list Z) (fuel : nat) : option (list (top * dobs)) :=
  match fuel with
  | O => None
  | S f =>
    match l with
    | [] => Some []
    | 10 :: k :: r =>
        let cls := ztake k r in
        let r1 := zdrop k r in
        let fl := ztake k r1 in
        match zdrop k r1 with
        | u :: v :: r2 =>
            if (zlen cls =? k) && (zlen fl =? k) && forallb (fun z => (z =? 0) || (z =? 1)) fl then
              match decode_dtrace r2 f with
              | Some t => Some ((TDet (DFilter (addrs_of 0 cls)), DO (map zbool fl) u v) :: t)
              | None => None
              end
            else None
        | _ => None
        end
    | 11 :: c :: s :: u :: v :: r =>
        match decode_dtrace r f with
        | Some t => Some ((TDet (DRecord (addr_of_cls 0 c) (zbool s)), DO [] u v) :: t)
        | None => None
        end
    | 12 :: w :: s :: u :: v :: r =>
        match decode_dtrace r f with
        | Some t => Some ((TDirect (zbool w) (zbool s), DO [] u v) :: t)
        | None => None
        end
    | _ => None
    end
  end.

Definition ost (o : option counter) : option bhstate :=
  match o with Some c => Some (st c) | None => None end.

(* the answers the two counters give for one FilterAddrs call *)
Definition filter_results (d : detector) (addrs : list addr) : bhstate * bhstate :=
  let has_udp := existsb (fun a => a_pub a && a_udp a) addrs in
  let has_ip6 := existsb (fun a => a_pub a && a_ip6 a) addrs in
  (match d_udp d with
   | Some c => if has_udp then snd (get_filter_state (d_ro d) c) else Allowed
   | None => Allowed end,
   match d_ip6 d with
   | Some c => if has_ip6 then snd (get_filter_state (d_ro d) c) else Allowed
   | None => Allowed end).

(* per input address: is it returned as valid?  (Proofs.filter_addrs_lists
   shows the two lists returned by filter_addrs are exactly the addresses
   flagged true / false, in input order) *)
Definition filter_flags (d : detector) (addrs : list addr) : list bool :=
  let '(u, v) := filter_results d addrs in map (keep u v) addrs.

(* one step of the trace-level model: new detector and what is observed *)
Definition tstep (d : detector) (o : top) : detector * dobs :=
  let '(d', fl) :=
    match o with
    | TDet (DFilter l) => (fst (fst (filter_addrs d l)), filter_flags d l)
    | TDet (DRecord a b) => (det_record d a b, [])
    | TDirect w b =>
        (if w then mkDet (d_udp d) (option_map (fun c => record_result c b) (d_ip6 d)) (d_ro d)
         else mkDet (option_map (fun c => record_result c b) (d_udp d)) (d_ip6 d) (d_ro d), [])
    end in
  (d', DO fl (z_of_ost (ost (d_udp d'))) (z_of_ost (ost (d_ip6 d')))).

Fixpoint dtrace (d : detector) (ops : list top) : list (top * dobs) :=
  match ops with
  | [] => []
  | o :: r => let '(d', x) := tstep d o in (o, x) :: dtrace d' r
  end.

(* model replay against observations *)
Definition dobs_eqb (a b : dobs) : bool :=
  let '(DO f1 u1 v1) := a in let '(DO f2 u2 v2) := b in
  list_eqb Bool.eqb f1 f2 && (u1 =? u2) && (v1 =? v2).

Fixpoint conform_det (d : detector) (i : Z) (tr : list (top * dobs)) : list Z :=
  match tr with
  | [] => []
  | (o, x) :: r =>
      let '(d', mx) := tstep d o in
      if dobs_eqb mx x then conform_det d' (i + 1) r
      else let '(DO _ mu mv) := mx in let '(DO _ u v) := x in
           [ERR_MISMATCH; i; mu; mv; u; v]
  end.

Definition ostz (z : Z) : option bhstate := st_of_z z.

(* property monitor on the detector trace: judged only from observations *)
Fixpoint monitor_det (ro : bool) (u v : option bhstate) (i : Z) (tr : list (top * dobs)) : list Z :=
  match tr with
  | [] => []
  | (o, DO fl u' v') :: r =>
      let ok :=
        match o with
        | TDet (DFilter l) => filter_ok ro u v l fl
        | _ => true
        end in
      (* read-only: the detector's own operations never change state *)
      let frozen :=
        match o with
        | TDet _ => negb ro || ((z_of_ost u =? u') && (z_of_ost v =? v'))
        | TDirect _ _ => true
        end in
      if ok && frozen then monitor_det ro (ostz u') (ostz v') (i + 1) r
      else [ERR_PROPERTY; i; z_of_ost u; z_of_ost v; u'; v']
  end.

Definition mk_counter_opt (n m : Z) : option counter :=
  if n =? 0 then None else Some (init_counter (Z.to_nat n) m).

Definition conform_case (l : list Z) : list Z :=
  match l with
  | 0 :: n :: m :: r =>
      if n <=? 0 then [ERR_MALFORMED; 0] else
      match decode_ctrace r (S (length r)) with
      | Some tr => conform_counter (Z.to_nat n) m tr
      | None => [ERR_MALFORMED; 1]
      end
  | 1 :: ro :: un :: um :: vn :: vm :: r =>
      match decode_dtrace r (S (length r)) with
      | Some tr => conform_det (mkDet (mk_counter_opt un um) (mk_counter_opt vn vm) (zbool ro)) 0 tr
      | None => [ERR_MALFORMED; 2]
      end
  | _ => [ERR_MALFORMED; 3]
  end.

Definition monitor_case (l : list Z) : list Z :=
  match l with
  | 0 :: n :: m :: r =>
      if n <=? 0 then [ERR_MALFORMED; 0] else
      match decode_ctrace r (S (length r)) with
      | Some tr => mon_fail_index (Z.to_nat n) m mon_init 0 tr
      | None => [ERR_MALFORMED; 1]
      end
  | 1 :: ro :: un :: um :: vn :: vm :: r =>
      match decode_dtrace r (S (length r)) with
      | Some tr =>
          monitor_det (zbool ro)
            (if un =? 0 then None else Some Probing)
            (if vn =? 0 then None else Some Probing) 0 tr
      | None => [ERR_MALFORMED; 2]
      end
  | _ => [ERR_MALFORMED; 3]
  end.

(* C20 — the property as a decidable predicate over observable traces
   (monitor), and the decoding of correspondence lines.  No proofs here. *)
From Coq Require Import List Arith ZArith Bool.
From Verif Require Import lib.Wire c20.Model.
Import ListNotations.

(* ---- counter monitor --------------------------------------------------- *)
(* Abstract bookkeeping the property talks about, computed from the
   operations and the *observed* answers only:
     results  : dial results recorded since the last success-while-blocked
     cur      : last observed state (Probing before anything was recorded)
     run      : consecutive Blocked answers to requests in the current
                blocked period
     probed   : a probe was already let through in the current blocked period *)
Record mon := mkMon { results : list bool; cur : bhstate; run : nat; probed : bool }.

Definition mon_init := mkMon [] Probing 0 false.

Definition count_true (l : list bool) : Z :=
  fold_right (fun (b : bool) (acc : Z) => if b then (acc + 1)%Z else acc) 0%Z l.

Definition lastn {A} (n : nat) (l : list A) : list A := skipn (length l - n) l.

(* "a full observation window in which fewer than the required number of
   dials succeeded" *)
Definition full_bad_window (n : nat) (m : Z) (rs : list bool) : bool :=
  Nat.leb n (length rs) && Z.ltb (count_true (lastn n rs)) m.

(* "known-good": a full observation window with at least the required number of
   successes *)
Definition full_good_window (n : nat) (m : Z) (rs : list bool) : bool :=
  Nat.leb n (length rs) && Z.leb m (count_true (lastn n rs)).

(* one monitored step: returns None when the observation violates the
   property *)
Definition mon_step (n : nat) (m : Z) (s : mon) (o : cop) (obs : bhstate) : option mon :=
  match o with
  | Req =>
      match cur s with
      | Blocked =>
          match obs with
          | Blocked =>
              (* never N consecutive refusals: one request in every N probes *)
              if Nat.ltb (S (run s)) n
              then Some (mkMon (results s) Blocked (S (run s)) (probed s))
              else None
          | Probing =>
              (* probes are exactly N requests apart within a blocked period *)
              if negb (probed s) || Nat.eqb (S (run s)) n
              then Some (mkMon (results s) Blocked 0 true)
              else None
          | Allowed => None
          end
      | _ =>
          (* not blocked: requests are never refused, and the answer is the state *)
          if bhstate_eqb obs (cur s) then Some s else None
      end
  | Rec b =>
      let rs := if bhstate_eqb (cur s) Blocked && b then [] else results s ++ [b] in
      match obs with
      | Blocked =>
          (* blocked only after a full window with < m successes; a success
             while blocked clears the state *)
          if full_bad_window n m rs
          then Some (mkMon rs Blocked
                       (if bhstate_eqb (cur s) Blocked then run s else 0)
                       (if bhstate_eqb (cur s) Blocked then probed s else false))
          else None
      | Allowed =>
          (* known-good only after a full window with enough successes *)
          if full_good_window n m rs then Some (mkMon rs Allowed 0 false) else None
      | Probing =>
          (* still probing exactly while the window is not full *)
          if Nat.ltb (length rs) n then Some (mkMon rs Probing 0 false) else None
      end
  end.

Fixpoint mon_run (n : nat) (m : Z) (s : mon) (tr : list (cop * bhstate)) : bool :=
  match tr with
  | [] => true
  | (o, obs) :: r =>
      match mon_step n m s o obs with
      | Some s' => mon_run n m s' r
      | None => false
      end
  end.

Definition holds_counter (n : nat) (m : Z) (tr : list (cop * bhstate)) : bool :=
  mon_run n m mon_init tr.

(* ---- detector monitor -------------------------------------------------- *)
(* One FilterAddrs call, judged against the counter states observed before
   it ([None] = counter not configured). *)
Definition st_is (o : option bhstate) (x : bhstate) : bool :=
  match o with Some s => bhstate_eqb s x | None => false end.

(* may address [a] legitimately be removed? *)
Definition removable (ro : bool) (u v : option bhstate) (a : addr) : bool :=
  a_pub a &&
  ((a_udp a && (if ro then (match u with None => false | Some s => negb (bhstate_eqb s Allowed) end)
                else st_is u Blocked))
   || (a_ip6 a && (if ro then (match v with None => false | Some s => negb (bhstate_eqb s Allowed) end)
                   else st_is v Blocked))).

(* must address [a] be removed?  Only read-only mode has a must-refuse
   clause: "refuses unless the state is known-good". *)
Definition must_remove (ro : bool) (u v : option bhstate) (a : addr) : bool :=
  ro && a_pub a &&
  ((a_udp a && (match u with None => false | Some s => negb (bhstate_eqb s Allowed) end))
   || (a_ip6 a && (match v with None => false | Some s => negb (bhstate_eqb s Allowed) end))).

(* one FilterAddrs call is ONE request: the verdict is per request, so two
   addresses of the same class in one call get the same verdict *)
Definition same_cls (a b : addr) : bool :=
  Bool.eqb (a_pub a) (a_pub b) && Bool.eqb (a_udp a) (a_udp b) && Bool.eqb (a_ip6 a) (a_ip6 b).

Definition verdict_consistent (ps : list (addr * bool)) : bool :=
  forallb (fun x => forallb (fun y => negb (same_cls (fst x) (fst y)) || Bool.eqb (snd x) (snd y)) ps) ps.

(* [flags]: per input address, true = returned as valid, false = returned as
   black-holed (the harness reports anything else as a malformed case). *)
Definition filter_ok (ro : bool) (u v : option bhstate)
           (addrs : list addr) (flags : list bool) : bool :=
  Nat.eqb (length addrs) (length flags) &&
  forallb (fun af : addr * bool =>
             let '(a, kept) := af in
             if kept then negb (must_remove ro u v a) else removable ro u v a)
          (combine addrs flags) &&
  verdict_consistent (combine addrs flags).

(* ---- wire decoding ------------------------------------------------------ *)
Local Open Scope Z_scope.

Definition st_of_z (z : Z) : option bhstate :=
  if z =? 0 then Some Probing else if z =? 1 then Some Allowed
  else if z =? 2 then Some Blocked else None.
Definition z_of_st (s : bhstate) : Z :=
  match s with Probing => 0 | Allowed => 1 | Blocked => 2 end.
Definition z_of_ost (s : option bhstate) : Z :=
  match s with Some x => z_of_st x | None => 9 end.

Definition cop_of_z (z : Z) : option cop :=
  if z =? 0 then Some Req else if z =? 1 then Some (Rec false)
  else if z =? 2 then Some (Rec true) else None.

(* internal state of a counter as the harness reads it after every op (the
   harness is in-package): requests, len(dialResults), successes.  Compared by
   the conformance only; the property monitor looks at answers and states. *)
Definition cint := (Z * Z * Z)%type.
Definition cint_of (c : counter) : cint :=
  (Z.of_nat (requests c), Z.of_nat (length (window c)), successes c).
Definition cint_eqb (a b : cint) : bool :=
  let '(a1, a2, a3) := a in let '(b1, b2, b3) := b in (a1 =? b1) && (a2 =? b2) && (a3 =? b3).

(* counter case:  0 N minS (op obs requests wlen successes)* *)
Fixpoint decode_ctrace (l : list Z) (fuel : nat) : option (list (cop * bhstate * cint)) :=
  match fuel with
  | O => None
  | S f =>
    match l with
    | [] => Some []
    | o :: x :: rq :: wl :: sc :: r =>
        match cop_of_z o, st_of_z x, decode_ctrace r f with
        | Some o', Some x', Some t => Some ((o', x', (rq, wl, sc)) :: t)
        | _, _, _ => None
        end
    | _ => None
    end
  end.

(* model replay of a counter trace, comparing answer and internals at every step *)
Fixpoint conform_counter_run (c : counter) (i : Z) (tr : list (cop * bhstate * cint)) : list Z :=
  match tr with
  | [] => []
  | (o, x, ci) :: r =>
      let '(c', y) := cstep c o in
      if bhstate_eqb x y && cint_eqb ci (cint_of c') then conform_counter_run c' (i + 1) r
      else let '(m1, m2, m3) := cint_of c' in let '(i1, i2, i3) := ci in
           [ERR_MISMATCH; i; z_of_st y; z_of_st x; m1; m2; m3; i1; i2; i3]
  end.

Definition conform_counter (n : nat) (m : Z) (tr : list (cop * bhstate * cint)) : list Z :=
  conform_counter_run (init_counter n m) 0 tr.

(* index of the first step at which the monitor fails *)
Fixpoint mon_fail_index (n : nat) (m : Z) (s : mon) (i : Z) (tr : list (cop * bhstate)) : list Z :=
  match tr with
  | [] => []
  | (o, obs) :: r =>
      match mon_step n m s o obs with
      | Some s' => mon_fail_index n m s' (i + 1) r
      | None => [ERR_PROPERTY; i; z_of_st (cur s); z_of_st obs]
      end
  end.

(* detector case:
     1 udpN udpMin ip6N ip6Min  op*
   op = 10 ro k cls_1..cls_k flag_1..flag_k OBS     FilterAddrs on a detector whose readOnly = ro
      | 11 ro cls succ OBS                           RecordResult on that detector
      | 12 which succ OBS                            RecordResult directly on the shared udp (0) /
                                                     ipv6 (1) counter
      | 13 ro k cls_1..cls_k flag_1..flag_k OBS     like 10 but through Swarm.filterKnownUndialables
                                                     (one request per dial, whatever the number of addresses)
      | 14 ro cls succ OBS                           Swarm.dialAddr whose transport dial ended with success = succ
                                                     (recorded like 11); succ 2 / 3 = failure / success of a dial
                                                     during which a concurrent dial to the peer won (context
                                                     cancelled with errConcurrentDialSuccessful): recorded all the same
      | 15 ro cls OBS                                Swarm.dialAddr that returned before any transport dial
      | 16 ro cls flag OBS                           Swarm.CanDial for one address: one request, like 13 with
                                                     a single address; flag = the answer
   The two counters are shared by a read-write and a read-only detector, as in a
   real node (main swarm and the AutoNAT dialer swarm).
   cls = pub + 2*udp + 4*ip6 (+ 8: the address is also a /p2p-circuit address whose relay hop
         is the transport address the three bits describe; bit 3 only tells the replay which
         address to rebuild and is ignored here: FilterAddrs and RecordResult both classify an
         address by its outer transport address, circuit or not);
   flag 1 = valid, 0 = black-holed;
   OBS = ust ureq uwl usucc vst vreq vwl vsucc : state (0/1/2, 9 = nil counter)
         and internals of the udp / ipv6 counter after the op. *)
Definition addr_of_cls (id : nat) (z : Z) : addr :=
  mkAddr (Z.testbit z 0) (Z.testbit z 1) (Z.testbit z 2) id.

Fixpoint addrs_of (i : nat) (l : list Z) : list addr :=
  match l with [] => [] | z :: r => addr_of_cls i z :: addrs_of (S i) r end.

(* what is observed of one counter: state code and internals *)
Definition cview := (Z * cint)%type.
Definition cview_of (o : option counter) : cview :=
  match o with Some c => (z_of_st (st c), cint_of c) | None => (9, (0, 0, 0)) end.
Definition cview_eqb (a b : cview) : bool := (fst a =? fst b) && cint_eqb (snd a) (snd b).

Inductive dobs := DO (flags : list bool) (u v : cview).

(* trace operations: the detector's own operations with the read-only flag of
   the detector they go through, plus a RecordResult issued directly on one of
   the shared counters *)
Inductive top :=
| TDet (ro : bool) (o : dop)
| TDirect (ip6 : bool) (success : bool)
| TNoDial.   (* Swarm.dialAddr returned without calling a transport (context already cancelled,
                no transport for the address): no dial was made, so nothing may be recorded *)

Definition decode_obs (l : list Z) : option (cview * cview * list Z) :=
  match l with
  | a :: b :: c :: d :: e :: f :: g :: h :: r => Some ((a, (b, c, d)), (e, (f, g, h)), r)
  | _ => None
  end.

Fixpoint decode_dtrace (l : list Z) (fuel : nat) : option (list (top * dobs)) :=
  match fuel with
  | O => None
  | S f =>
    match l with
    | [] => Some []
    | code :: ro :: k :: r =>
        if (code =? 10) || (code =? 13) then
          let cls := ztake k r in
          let r1 := zdrop k r in
          let fl := ztake k r1 in
          match decode_obs (zdrop k r1) with
          | Some (u, v, r2) =>
              if (zlen cls =? k) && (zlen fl =? k) && forallb (fun z => (z =? 0) || (z =? 1)) fl then
                match decode_dtrace r2 f with
                | Some t => Some ((TDet (zbool ro) (DFilter (addrs_of 0 cls)), DO (map zbool fl) u v) :: t)
                | None => None
                end
              else None
          | None => None
          end
        else if (code =? 11) || (code =? 14) then
          match r with
          | s :: r1 =>
              match decode_obs r1 with
              | Some (u, v, r2) =>
                  match decode_dtrace r2 f with
                  | Some t => Some ((TDet (zbool ro) (DRecord (addr_of_cls 0 k) ((s =? 1) || (s =? 3))), DO [] u v) :: t)
                  | None => None
                  end
              | None => None
              end
          | _ => None
          end
        else if code =? 16 then
          match r with
          | fl :: r1 =>
              match decode_obs r1 with
              | Some (u, v, r2) =>
                  if (fl =? 0) || (fl =? 1) then
                    match decode_dtrace r2 f with
                    | Some t => Some ((TDet (zbool ro) (DFilter [addr_of_cls 0 k]), DO [zbool fl] u v) :: t)
                    | None => None
                    end
                  else None
              | None => None
              end
          | _ => None
          end
        else if code =? 15 then
          match decode_obs r with
          | Some (u, v, r2) =>
              match decode_dtrace r2 f with
              | Some t => Some ((TNoDial, DO [] u v) :: t)
              | None => None
              end
          | None => None
          end
        else if code =? 12 then
          match decode_obs r with
          | Some (u, v, r2) =>
              match decode_dtrace r2 f with
              | Some t => Some ((TDirect (zbool ro) (zbool k), DO [] u v) :: t)
              | None => None
              end
          | None => None
          end
        else None
    | _ => None
    end
  end.

Definition ost (o : option counter) : option bhstate :=
  match o with Some c => Some (st c) | None => None end.

(* the answers the two counters give for one FilterAddrs call *)
Definition filter_results (d : detector) (addrs : list addr) : bhstate * bhstate :=
  let has_udp := existsb (fun a => a_pub a && a_udp a) addrs in
  let has_ip6 := existsb (fun a => a_pub a && a_ip6 a) addrs in
  (match d_udp d with
   | Some c => if has_udp then snd (get_filter_state (d_ro d) c) else Allowed
   | None => Allowed end,
   match d_ip6 d with
   | Some c => if has_ip6 then snd (get_filter_state (d_ro d) c) else Allowed
   | None => Allowed end).

(* per input address: is it returned as valid?  (Proofs.filter_addrs_lists
   shows the two lists returned by filter_addrs are exactly the addresses
   flagged true / false, in input order) *)
Definition filter_flags (d : detector) (addrs : list addr) : list bool :=
  let '(u, v) := filter_results d addrs in map (keep u v) addrs.

(* the pair of shared counters *)
Definition pair := (option counter * option counter)%type.
Definition det_of (p : pair) (ro : bool) : detector := mkDet (fst p) (snd p) ro.
Definition pair_of (d : detector) : pair := (d_udp d, d_ip6 d).

(* one step of the trace-level model: new counters and what is observed *)
Definition tstep (p : pair) (o : top) : pair * dobs :=
  let '(p', fl) :=
    match o with
    | TDet ro (DFilter l) => (pair_of (fst (fst (filter_addrs (det_of p ro) l))), filter_flags (det_of p ro) l)
    | TDet ro (DRecord a b) => (pair_of (det_record (det_of p ro) a b), [])
    | TDirect w b =>
        (if w then (fst p, option_map (fun c => record_result c b) (snd p))
         else (option_map (fun c => record_result c b) (fst p), snd p), [])
    | TNoDial => (p, [])
    end in
  (p', DO fl (cview_of (fst p')) (cview_of (snd p'))).

Fixpoint dtrace (p : pair) (ops : list top) : list (top * dobs) :=
  match ops with
  | [] => []
  | o :: r => let '(p', x) := tstep p o in (o, x) :: dtrace p' r
  end.

Definition dobs_eqb (a b : dobs) : bool :=
  let '(DO f1 u1 v1) := a in let '(DO f2 u2 v2) := b in
  list_eqb Bool.eqb f1 f2 && cview_eqb u1 u2 && cview_eqb v1 v2.

Fixpoint conform_det (p : pair) (i : Z) (tr : list (top * dobs)) : list Z :=
  match tr with
  | [] => []
  | (o, x) :: r =>
      let '(p', mx) := tstep p o in
      if dobs_eqb mx x then conform_det p' (i + 1) r
      else let '(DO _ mu mv) := mx in let '(DO _ u v) := x in
           [ERR_MISMATCH; i; fst mu; fst (fst (snd mu)); fst mv; fst (fst (snd mv));
            fst u; fst (fst (snd u)); fst v; fst (fst (snd v))]
  end.

Definition ostz (z : Z) : option bhstate := st_of_z z.

(* property monitor on the detector trace: judged only from observations.
   [u], [v]: what was observed of the two counters before the op. *)
Fixpoint monitor_det (u v : cview) (i : Z) (tr : list (top * dobs)) : list Z :=
  match tr with
  | [] => []
  | (o, DO fl u' v') :: r =>
      let ok :=
        match o with
        | TDet ro (DFilter l) => filter_ok ro (ostz (fst u)) (ostz (fst v)) l fl
        | _ => true
        end in
      (* read-only: the detector's own operations never change any state *)
      let frozen :=
        match o with
        | TDet true _ | TNoDial => cview_eqb u u' && cview_eqb v v'
        | _ => true
        end in
      if ok && frozen then monitor_det u' v' (i + 1) r
      else [ERR_PROPERTY; i; fst u; fst v; fst u'; fst v'; boolz ok; boolz frozen]
  end.

(* ---- "one request in every N is let through as a probe", at detector level ----
   [k] = true: the UDP counter, false: the IPv6 counter.  A FilterAddrs call on a
   read-write detector is a request on counter k iff it names a public address of
   kind k.  It is a *pure* request when every public address it names is of kind
   k only, and it is *refused* when all of them come back black-holed.  In a
   blocked period never [n] consecutive pure requests are refused: requests that
   do not involve the counter (private-only peers, the other kind, read-only
   detectors) must not use up the probe slot. *)
Definition akind (k : bool) (a : addr) : bool := if k then a_udp a else a_ip6 a.
Definition aother (k : bool) (a : addr) : bool := if k then a_ip6 a else a_udp a.

Definition involves (k : bool) (l : list addr) : bool :=
  existsb (fun a => a_pub a && akind k a) l.

Definition pure_kind (k : bool) (l : list addr) : bool :=
  existsb a_pub l &&
  forallb (fun a => negb (a_pub a) || (akind k a && negb (aother k a))) l.

Definition all_pub_removed (l : list addr) (fl : list bool) : bool :=
  forallb (fun af : addr * bool => negb (a_pub (fst af)) || negb (snd af)) (combine l fl).

Fixpoint probe_run (k : bool) (n : nat) (sb : Z) (run : nat) (i : Z) (tr : list (top * dobs)) : list Z :=
  match tr with
  | [] => []
  | (o, DO fl u' v') :: r =>
      let s' := fst (if k then u' else v') in
      match o with
      | TDet false (DFilter l) =>
          if involves k l then
            if pure_kind k l && (sb =? 2) && all_pub_removed l fl then
              if Nat.ltb (S run) n then probe_run k n s' (S run) (i + 1) r
              else [ERR_PROPERTY; i; 77; boolz k; Z.of_nat (S run); Z.of_nat n]
            else probe_run k n s' 0 (i + 1) r
          else probe_run k n s' run (i + 1) r
      | TDet false (DRecord a b) =>
          (* "a single success while blocked clears the state" *)
          if a_pub a && akind k a && b && (sb =? 2) && (s' =? 2)
          then [ERR_PROPERTY; i; 78; boolz k]
          else probe_run k n s' (if a_pub a && akind k a && b then 0%nat else run) (i + 1) r
      | TDirect w b =>
          if Bool.eqb w (negb k) && b && (sb =? 2) && (s' =? 2)
          then [ERR_PROPERTY; i; 78; boolz k]
          else probe_run k n s' (if Bool.eqb w (negb k) && b then 0%nat else run) (i + 1) r
      | _ => probe_run k n s' run (i + 1) r
      end
  end.

Definition mk_counter_opt (n m : Z) : option counter :=
  if n =? 0 then None else Some (init_counter (Z.to_nat n) m).

Definition conform_case (l : list Z) : list Z :=
  match l with
  | 0 :: n :: m :: r =>
      if n <=? 0 then [ERR_MALFORMED; 0] else
      match decode_ctrace r (S (length r)) with
      | Some tr => conform_counter (Z.to_nat n) m tr
      | None => [ERR_MALFORMED; 1]
      end
  | 1 :: un :: um :: vn :: vm :: r =>
      match decode_dtrace r (S (length r)) with
      | Some tr => conform_det (mk_counter_opt un um, mk_counter_opt vn vm) 0 tr
      | None => [ERR_MALFORMED; 2]
      end
  | _ => [ERR_MALFORMED; 3]
  end.

Definition monitor_case (l : list Z) : list Z :=
  match l with
  | 0 :: n :: m :: r =>
      if n <=? 0 then [ERR_MALFORMED; 0] else
      match decode_ctrace r (S (length r)) with
      | Some tr => mon_fail_index (Z.to_nat n) m mon_init 0 (map fst tr)
      | None => [ERR_MALFORMED; 1]
      end
  | 1 :: un :: um :: vn :: vm :: r =>
      match decode_dtrace r (S (length r)) with
      | Some tr =>
          match monitor_det (cview_of (mk_counter_opt un um)) (cview_of (mk_counter_opt vn vm)) 0 tr with
          | [] =>
              match probe_run true (Z.to_nat un) (fst (cview_of (mk_counter_opt un um))) 0 0 tr with
              | [] => probe_run false (Z.to_nat vn) (fst (cview_of (mk_counter_opt vn vm))) 0 0 tr
              | d => d
              end
          | d => d
          end
      | None => [ERR_MALFORMED; 2]
      end
  | _ => [ERR_MALFORMED; 3]
  end.

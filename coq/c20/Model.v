(* C20 — black-hole detection.  Executable model transcribed from
   /repo/p2p/net/swarm/black_hole_detector.go.  No proofs in this file. *)
From Coq Require Import List Arith ZArith Bool.
Import ListNotations.

Inductive bhstate := Probing | Allowed | Blocked.

Definition bhstate_eqb (a b : bhstate) : bool :=
  match a, b with
  | Probing, Probing | Allowed, Allowed | Blocked, Blocked => true
  | _, _ => false
  end.

(* BlackHoleSuccessCounter.  [cN], [cMin] are the configuration fields N and
   MinSuccesses; Go's [int] fields [successes] and [MinSuccesses] are Z so that
   "successes = number of true entries" is a theorem, not a typing fact. *)
Record counter := mkCounter {
  cN : nat;
  cMin : Z;
  requests : nat;
  window : list bool;      (* dialResults, oldest first *)
  successes : Z;
  st : bhstate
}.

Definition init_counter (n : nat) (m : Z) : counter :=
  mkCounter n m 0 [] 0%Z Probing.

(* updateState *)
Definition update_state (c : counter) : counter :=
  let s :=
    if Nat.ltb (length (window c)) (cN c) then Probing
    else if Z.leb (cMin c) (successes c) then Allowed
    else Blocked in
  mkCounter (cN c) (cMin c) (requests c) (window c) (successes c) s.

(* reset *)
Definition reset (c : counter) : counter :=
  update_state (mkCounter (cN c) (cMin c) 0 [] 0%Z (st c)).

(* RecordResult *)
Definition record_result (c : counter) (success : bool) : counter :=
  if bhstate_eqb (st c) Blocked && success then reset c
  else
    let s1 := if success then (successes c + 1)%Z else successes c in
    let w1 := window c ++ [success] in
    let '(s2, w2) :=
      if Nat.ltb (cN c) (length w1)
      then ((if hd false w1 then (s1 - 1)%Z else s1), tl w1)
      else (s1, w1) in
    update_state (mkCounter (cN c) (cMin c) (requests c) w2 s2 (st c)).

(* HandleRequest *)
Definition handle_request (c : counter) : counter * bhstate :=
  let r := S (requests c) in
  let c' := mkCounter (cN c) (cMin c) r (window c) (successes c) (st c) in
  (c', match st c with
       | Allowed => Allowed
       | Probing => Probing
       | Blocked => if Nat.eqb (Nat.modulo r (cN c)) 0 then Probing else Blocked
       end).

(* ---- detector --------------------------------------------------------- *)

(* An address as the filter sees it: the three predicates the code evaluates
   (manet.IsPublicAddr, isProtocolAddr P_UDP, isProtocolAddr P_IP6) and an
   identity so that lists of addresses can be compared. *)
Record addr := mkAddr { a_pub : bool; a_udp : bool; a_ip6 : bool; a_id : nat }.

Record detector := mkDet {
  d_udp : option counter;
  d_ip6 : option counter;
  d_ro : bool
}.

(* getFilterState *)
Definition get_filter_state (ro : bool) (c : counter) : counter * bhstate :=
  if ro then (c, if bhstate_eqb (st c) Allowed then Allowed else Blocked)
  else handle_request c.

Definition keep (udpRes ip6Res : bhstate) (a : addr) : bool :=
  if negb (a_pub a) then true
  else if bhstate_eqb udpRes Probing && a_udp a then true
  else if bhstate_eqb ip6Res Probing && a_ip6 a then true
  else if bhstate_eqb udpRes Blocked && a_udp a then false
  else if bhstate_eqb ip6Res Blocked && a_ip6 a then false
  else true.

(* FilterAddrs: new detector, kept addresses, black-holed addresses *)
Definition filter_addrs (d : detector) (addrs : list addr)
  : detector * list addr * list addr :=
  let has_udp := existsb (fun a => a_pub a && a_udp a) addrs in
  let has_ip6 := existsb (fun a => a_pub a && a_ip6 a) addrs in
  let '(u', udpRes) :=
    match d_udp d with
    | Some c => if has_udp
                then let '(c', r) := get_filter_state (d_ro d) c in (Some c', r)
                else (Some c, Allowed)
    | None => (None, Allowed)
    end in
  let '(v', ip6Res) :=
    match d_ip6 d with
    | Some c => if has_ip6
                then let '(c', r) := get_filter_state (d_ro d) c in (Some c', r)
                else (Some c, Allowed)
    | None => (None, Allowed)
    end in
  (mkDet u' v' (d_ro d),
   filter (keep udpRes ip6Res) addrs,
   filter (fun a => negb (keep udpRes ip6Res a)) addrs).

(* blackHoleDetector.RecordResult *)
Definition det_record (d : detector) (a : addr) (success : bool) : detector :=
  if d_ro d || negb (a_pub a) then d
  else
    let u' := match d_udp d with
              | Some c => if a_udp a then Some (record_result c success) else Some c
              | None => None end in
    let v' := match d_ip6 d with
              | Some c => if a_ip6 a then Some (record_result c success) else Some c
              | None => None end in
    mkDet u' v' (d_ro d).

(* ---- operation language shared by theorems and correspondence ---------- *)

Inductive cop := Req | Rec (success : bool).

Definition cstep (c : counter) (o : cop) : counter * bhstate :=
  match o with
  | Req => handle_request c
  | Rec b => let c' := record_result c b in (c', st c')
  end.

Fixpoint crun (c : counter) (ops : list cop) : counter * list bhstate :=
  match ops with
  | [] => (c, [])
  | o :: r => let '(c1, x) := cstep c o in
              let '(c2, xs) := crun c1 r in (c2, x :: xs)
  end.

Inductive dop := DFilter (addrs : list addr) | DRecord (a : addr) (success : bool).

Definition dstep (d : detector) (o : dop) : detector :=
  match o with
  | DFilter l => fst (fst (filter_addrs d l))
  | DRecord a b => det_record d a b
  end.

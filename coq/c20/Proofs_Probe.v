(* C20 — the detector-level probe clause: on every history of a pair of shared
   counters, a blocked period never refuses N consecutive pure requests of a
   kind; requests that do not involve a counter leave its probe slot alone. *)
From Coq Require Import List Arith ZArith Bool Lia.
From Verif Require Import c20.Model c20.Spec c20.Proofs.
Import ListNotations.

Definition sel (k : bool) (p : pair) : option counter := if k then fst p else snd p.
Definition nN (o : option counter) : nat := match o with Some c => cN c | None => 0 end.

(* coupling between the counter and the monitor's run length *)
Definition pinv (o : option counter) (run : nat) : Prop :=
  match o with
  | None => True
  | Some c => cinv c /\ (st c = Blocked -> run <= requests c mod cN c) /\ (st c <> Blocked -> run = 0)
  end.

Definition pok (p : pair) : Prop :=
  (forall c, fst p = Some c -> cinv c) /\ (forall c, snd p = Some c -> cinv c).

Lemma filter_sel k p l :
  sel k (pair_of (fst (fst (filter_addrs (det_of p false) l)))) =
  match sel k p with
  | Some c => if involves k l then Some (fst (handle_request c)) else Some c
  | None => None
  end.
Proof.
  unfold involves, akind, sel, filter_addrs, get_filter_state.
  destruct p as [[cu|] [cv|]]; destruct k; cbv iota; cbn [det_of d_udp d_ip6 d_ro fst snd];
    destruct (existsb (fun a => a_pub a && a_udp a) l);
    destruct (existsb (fun a => a_pub a && a_ip6 a) l); reflexivity.
Qed.

Lemma record_sel k p a b :
  sel k (pair_of (det_record (det_of p false) a b)) =
  match sel k p with
  | Some c => if a_pub a && akind k a then Some (record_result c b) else Some c
  | None => None
  end.
Proof.
  unfold akind, sel, det_record.
  destruct p as [[cu|] [cv|]]; destruct k; cbv iota; cbn [det_of d_udp d_ip6 d_ro fst snd orb];
    destruct (a_pub a); cbn [negb andb pair_of d_udp d_ip6 fst snd];
    try destruct (a_udp a); try destruct (a_ip6 a); reflexivity.
Qed.

Lemma direct_sel k (p : pair) (w : bool) b :
  sel k (if w then (fst p, option_map (fun c => record_result c b) (snd p))
         else (option_map (fun c => record_result c b) (fst p), snd p)) =
  match sel k p with
  | Some c => if Bool.eqb w (negb k) then Some (record_result c b) else Some c
  | None => None
  end.
Proof.
  unfold sel. destruct p as [[cu|] [cv|]]; destruct k, w; reflexivity.
Qed.

Lemma filter_result_blocked (k : bool) p l :
  (if k then fst (filter_results (det_of p false) l) else snd (filter_results (det_of p false) l)) = Blocked ->
  match sel k p with
  | Some c => involves k l = true /\ snd (handle_request c) = Blocked
  | None => False
  end.
Proof.
  unfold filter_results, involves, akind, sel, get_filter_state.
  destruct p as [[cu|] [cv|]]; destruct k; cbv iota; cbn [det_of d_udp d_ip6 d_ro fst snd];
    try discriminate;
    destruct (existsb (fun a => a_pub a && a_udp a) l);
    destruct (existsb (fun a => a_pub a && a_ip6 a) l);
    try discriminate; intros H; (split; [reflexivity|exact H]).
Qed.

(* a refused pure request was answered Blocked by its counter *)
Lemma refused_blocked k p l :
  pure_kind k l = true ->
  all_pub_removed l (filter_flags (det_of p false) l) = true ->
  match sel k p with
  | Some c => involves k l = true /\ snd (handle_request c) = Blocked
  | None => False
  end.
Proof.
  unfold pure_kind, all_pub_removed, filter_flags. intros Hp Hr.
  apply andb_prop in Hp. destruct Hp as [Hex Hall].
  apply existsb_exists in Hex. destruct Hex as (a & Hin & Hpub).
  rewrite forallb_forall in Hall. specialize (Hall a Hin). rewrite Hpub in Hall. cbn [negb orb] in Hall.
  apply andb_prop in Hall. destruct Hall as [Hk Ho]. apply negb_true_iff in Ho.
  apply filter_result_blocked.
  destruct (filter_results (det_of p false) l) as [u v].
  rewrite forallb_combine_map in Hr. rewrite forallb_forall in Hr. specialize (Hr a Hin).
  cbn [fst snd] in Hr. rewrite Hpub in Hr. cbn [negb orb] in Hr. apply negb_true_iff in Hr.
  apply keep_false_inv in Hr. destruct Hr as (_ & [(Hu & E & _)|(Hv & E & _)]);
    unfold akind, aother in Hk, Ho; destruct k; cbn [fst snd]; congruence.
Qed.

Lemma handle_request_blocked c : cinv c -> snd (handle_request c) = Blocked ->
  st c = Blocked /\ S (requests c) mod cN c = S (requests c mod cN c) /\ S (requests c mod cN c) < cN c.
Proof.
  intros (HN & _) H. unfold handle_request in H. cbn [snd] in H.
  destruct (st c); try discriminate. split; [reflexivity|].
  destruct (Nat.eqb_spec (S (requests c) mod cN c) 0) as [|Hne]; [discriminate|].
  rewrite S_mod in Hne |- * by exact HN.
  destruct (Nat.eqb_spec (requests c mod cN c) (cN c - 1)) as [|Hx]; [congruence|].
  split; [reflexivity|].
  pose proof (Nat.mod_upper_bound (requests c) (cN c) ltac:(lia)). lia.
Qed.

Lemma record_false_requests c : requests (record_result c false) = requests c.
Proof.
  unfold record_result. rewrite andb_false_r.
  destruct (Nat.ltb (cN c) (length (window c ++ [false]))); reflexivity.
Qed.

Lemma record_cN c b : cN (record_result c b) = cN c.
Proof.
  unfold record_result. destruct (bhstate_eqb (st c) Blocked && b); [reflexivity|].
  destruct (Nat.ltb (cN c) (length (window c ++ [b]))); reflexivity.
Qed.

Lemma pinv_record c run b : pinv (Some c) run ->
  pinv (Some (record_result c b)) (if b then 0 else run).
Proof.
  intros (Hi & Hb & Hn). cbn [pinv]. split; [apply cinv_record, Hi|].
  destruct b.
  - split; intros _; [lia|reflexivity].
  - rewrite record_false_requests, record_cN.
    destruct (st c) eqn:E.
    + rewrite Hn by discriminate. split; intros _; [lia|reflexivity].
    + rewrite Hn by discriminate. split; intros _; [lia|reflexivity].
    + rewrite (fail_keeps_blocked c Hi E). split; [intros _; apply Hb; reflexivity|congruence].
Qed.

Lemma pinv_request_reset c run : pinv (Some c) run -> pinv (Some (fst (handle_request c))) 0.
Proof.
  intros (Hi & _ & _). cbn [pinv]. split; [exact Hi|]. split; intros _; [lia|reflexivity].
Qed.

Lemma sel_view (k : bool) a b : fst (if k then cview_of a else cview_of b) = fst (cview_of (sel k (a, b))).
Proof. destruct k; reflexivity. Qed.

Lemma sel_view' (k : bool) (q : pair) :
  fst (if k then cview_of (fst q) else cview_of (snd q)) = fst (cview_of (sel k q)).
Proof. destruct k; reflexivity. Qed.

Lemma z_of_st_blocked s : (z_of_st s =? 2)%Z = true -> s = Blocked.
Proof. destruct s; cbn; intros H; try discriminate; reflexivity. Qed.

Lemma z_of_st_cases s : z_of_st s = 0%Z \/ z_of_st s = 1%Z \/ z_of_st s = 2%Z.
Proof. destruct s; cbn; auto. Qed.

(* the "success while blocked" check of [probe_run] never fires on a counter step *)
Lemma unblock_check c (t b : bool) : cinv c ->
  t && b && (z_of_st (st c) =? 2)%Z &&
  (z_of_st (st (if t then record_result c b else c)) =? 2)%Z = false.
Proof.
  intros Hi. destruct t; [|reflexivity]. destruct b; [|reflexivity]. cbn [andb].
  destruct (Z.eqb_spec (z_of_st (st c)) 2) as [E|]; [|reflexivity]. cbn [andb].
  apply Z.eqb_eq in E. apply z_of_st_blocked in E.
  destruct (success_unblocks_l c Hi E) as (Hs & _). rewrite Hs. reflexivity.
Qed.

Lemma unblock_check_opt o (t b : bool) run : pinv o run ->
  t && b && (fst (cview_of o) =? 2)%Z &&
  (fst (cview_of (match o with
                  | Some c => if t then Some (record_result c b) else Some c
                  | None => None end)) =? 2)%Z = false.
Proof.
  destruct o as [c|]; intros H.
  - destruct H as (Hi & _). pose proof (unblock_check c t b Hi) as U.
    destruct t; cbn [cview_of fst] in *; exact U.
  - destruct t, b; reflexivity.
Qed.

Lemma probe_run_model k ops : forall p run i,
  pinv (sel k p) run ->
  probe_run k (nN (sel k p)) (fst (cview_of (sel k p))) run i (dtrace p ops) = [].
Proof.
  induction ops as [|o r IH]; intros p run i Hinv; [reflexivity|].
  cbn [dtrace]. destruct (tstep p o) as [p' x] eqn:E.
  unfold tstep in E. cbn [probe_run].
  destruct o as [ro [l|a b]|w b|].
  - (* FilterAddrs *)
    injection E as <- <-. destruct ro.
    + rewrite readonly_filter_frozen by reflexivity. destruct p as [pu pv].
      cbn [pair_of det_of d_udp d_ip6 fst snd]. rewrite sel_view. apply IH, Hinv.
    + set (p' := pair_of (fst (fst (filter_addrs (det_of p false) l)))).
      change (fst (if k then cview_of (d_udp (fst (fst (filter_addrs (det_of p false) l))))
                   else cview_of (d_ip6 (fst (fst (filter_addrs (det_of p false) l))))))
        with (fst (if k then cview_of (fst p') else cview_of (snd p'))).
      rewrite sel_view'.
      pose proof (filter_sel k p l) as Hsel. fold p' in Hsel.
      destruct (involves k l) eqn:Hinvl.
      * destruct (pure_kind k l && (fst (cview_of (sel k p)) =? 2)%Z &&
                  all_pub_removed l (filter_flags (det_of p false) l)) eqn:Href.
        -- apply andb_prop in Href. destruct Href as [Href Hrem].
           apply andb_prop in Href. destruct Href as [Hpure _].
           pose proof (refused_blocked k p l Hpure Hrem) as Hb.
           destruct (sel k p) as [c|] eqn:Ec; [|destruct Hb].
           destruct Hb as [_ Hb]. destruct Hinv as (Hi & Hbl & Hnb).
           destruct (handle_request_blocked c Hi Hb) as (Hst & Hmod & Hlt).
           specialize (Hbl Hst). cbn [nN].
           destruct (Nat.ltb_spec (S run) (cN c)) as [_|Hge]; [|lia].
           replace (cN c) with (nN (sel k p')) by (rewrite Hsel; reflexivity).
           apply IH. rewrite Hsel. cbn [pinv]. split; [exact Hi|].
           cbn [handle_request fst requests cN st]. split; [intros _; lia|congruence].
        -- replace (nN (sel k p)) with (nN (sel k p')) by (rewrite Hsel; destruct (sel k p); reflexivity).
           apply IH. rewrite Hsel. destruct (sel k p) as [c|]; [|exact I].
           apply (pinv_request_reset c run Hinv).
      * replace (nN (sel k p)) with (nN (sel k p')) by (rewrite Hsel; destruct (sel k p); reflexivity).
        apply IH. rewrite Hsel. destruct (sel k p) as [c|]; [exact Hinv|exact I].
  - (* RecordResult through a detector *)
    injection E as <- <-. destruct ro.
    + rewrite readonly_record_frozen by reflexivity. destruct p as [pu pv].
      cbn [pair_of det_of d_udp d_ip6 fst snd]. rewrite sel_view. apply IH, Hinv.
    + set (p' := pair_of (det_record (det_of p false) a b)).
      change (fst (if k then cview_of (d_udp (det_record (det_of p false) a b))
                   else cview_of (d_ip6 (det_record (det_of p false) a b))))
        with (fst (if k then cview_of (fst p') else cview_of (snd p'))).
      rewrite sel_view'.
      pose proof (record_sel k p a b) as Hsel. fold p' in Hsel.
      assert (Hc : a_pub a && akind k a && b && (fst (cview_of (sel k p)) =? 2)%Z &&
                   (fst (cview_of (sel k p')) =? 2)%Z = false)
        by (rewrite Hsel; exact (unblock_check_opt _ _ _ _ Hinv)).
      rewrite Hc.
      replace (nN (sel k p)) with (nN (sel k p'))
        by (rewrite Hsel; destruct (sel k p); [destruct (a_pub a && akind k a); cbn [nN]; [apply record_cN|]|]; reflexivity).
      apply IH. rewrite Hsel. destruct (sel k p) as [c|]; [|exact I].
      destruct (a_pub a && akind k a); cbn [andb].
      * apply pinv_record, Hinv.
      * exact Hinv.
  - (* RecordResult directly on one counter *)
    cbv beta iota zeta in E.
    set (p1 := if w then (fst p, option_map (fun c => record_result c b) (snd p))
               else (option_map (fun c => record_result c b) (fst p), snd p)) in *.
    injection E as <- <-.
    rewrite sel_view'.
    assert (Hsel : sel k p1 = match sel k p with
                              | Some c => if Bool.eqb w (negb k) then Some (record_result c b) else Some c
                              | None => None end) by apply direct_sel.
    assert (Hc : Bool.eqb w (negb k) && b && (fst (cview_of (sel k p)) =? 2)%Z &&
                 (fst (cview_of (sel k p1)) =? 2)%Z = false)
      by (rewrite Hsel; exact (unblock_check_opt _ _ _ _ Hinv)).
    rewrite Hc.
    replace (nN (sel k p)) with (nN (sel k p1))
      by (rewrite Hsel; destruct (sel k p); [destruct (Bool.eqb w (negb k)); cbn [nN]; [apply record_cN|]|]; reflexivity).
    apply IH. rewrite Hsel. destruct (sel k p) as [c|]; [|exact I].
    destruct (Bool.eqb w (negb k)); cbn [andb].
    + apply pinv_record, Hinv.
    + exact Hinv.
  - (* no dial *)
    injection E as <- <-. rewrite sel_view'. apply IH, Hinv.
Qed.

Lemma pinv_start k p : pok p -> pinv (sel k p) 0.
Proof.
  intros [Hu Hv]. unfold sel. destruct k.
  - destruct (fst p) as [c|] eqn:E; [|exact I]. cbn [pinv]. split; [apply Hu; reflexivity|].
    split; intros _; [lia|reflexivity].
  - destruct (snd p) as [c|] eqn:E; [|exact I]. cbn [pinv]. split; [apply Hv; reflexivity|].
    split; intros _; [lia|reflexivity].
Qed.

Lemma pok_mk un um vn vm : (0 <= un)%Z -> (0 <= vn)%Z ->
  pok (mk_counter_opt un um, mk_counter_opt vn vm).
Proof.
  intros Hu Hv. unfold pok, mk_counter_opt; cbn [fst snd]. split; intros c H.
  - destruct (Z.eqb_spec un 0); [discriminate|]. injection H as <-. apply cinv_init. lia.
  - destruct (Z.eqb_spec vn 0); [discriminate|]. injection H as <-. apply cinv_init. lia.
Qed.

Lemma nN_mk n m : nN (mk_counter_opt n m) = Z.to_nat n.
Proof. unfold mk_counter_opt. destruct (Z.eqb_spec n 0) as [->|]; reflexivity. Qed.

(* the whole detector-case monitor of [monitor_case] accepts every model trace *)
Lemma monitor_case_det_model un um vn vm ops : (0 <= un)%Z -> (0 <= vn)%Z ->
  let p := (mk_counter_opt un um, mk_counter_opt vn vm) in
  monitor_det (cview_of (fst p)) (cview_of (snd p)) 0 (dtrace p ops) = [] /\
  probe_run true (Z.to_nat un) (fst (cview_of (fst p))) 0 0 (dtrace p ops) = [] /\
  probe_run false (Z.to_nat vn) (fst (cview_of (snd p))) 0 0 (dtrace p ops) = [].
Proof.
  intros Hu Hv p. pose proof (pok_mk un um vn vm Hu Hv) as Hok. fold p in Hok.
  split; [apply monitor_det_model|]. split.
  - rewrite <- (nN_mk un um). apply (probe_run_model true ops p 0 0 (pinv_start true p Hok)).
  - rewrite <- (nN_mk vn vm). apply (probe_run_model false ops p 0 0 (pinv_start false p Hok)).
Qed.

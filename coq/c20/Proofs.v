(* C20 — proofs.  Invariants of the counter by induction over arbitrary
   operation sequences, coupling with the trace monitor of Spec.v, and the
   filter theorems of the detector. *)
From Coq Require Import List Arith ZArith Bool Lia.
From Verif Require Import lib.Wire c20.Model c20.Spec.
Import ListNotations.

(* ---- list facts --------------------------------------------------------- *)
Lemma count_true_app l b :
  count_true (l ++ [b]) = (count_true l + (if b then 1 else 0))%Z.
Proof.
  induction l as [|x l IH]; cbn [app count_true fold_right].
  - destruct b; reflexivity.
  - fold (count_true (l ++ [b])). fold (count_true l). rewrite IH.
    destruct x, b; lia.
Qed.

Lemma count_true_cons x l :
  count_true (x :: l) = ((if x then 1 else 0) + count_true l)%Z.
Proof. unfold count_true; cbn [fold_right]. destruct x; lia. Qed.

Lemma count_true_bounds l : (0 <= count_true l <= Z.of_nat (length l))%Z.
Proof.
  induction l as [|x l IH]; [cbn; lia|].
  rewrite count_true_cons; cbn [length]; destruct x; lia.
Qed.

Lemma lastn_length {A} n (l : list A) : length (lastn n l) = Nat.min n (length l).
Proof. unfold lastn. rewrite skipn_length. lia. Qed.

Lemma lastn_all {A} n (l : list A) : length l <= n -> lastn n l = l.
Proof. intros H. unfold lastn. replace (length l - n) with 0 by lia. reflexivity. Qed.

Lemma skipn_app_one {A} k (l : list A) b :
  k <= length l -> skipn k (l ++ [b]) = skipn k l ++ [b].
Proof.
  revert k; induction l as [|x l IH]; intros k Hk; cbn [length] in Hk.
  - replace k with 0 by lia. reflexivity.
  - destruct k as [|k]; [reflexivity|]. cbn [app skipn]. apply IH. lia.
Qed.

Lemma tl_skipn {A} k (l : list A) : tl (skipn k l) = skipn (S k) l.
Proof.
  revert k; induction l as [|x l IH]; intros k.
  - destruct k; reflexivity.
  - destruct k as [|k]; [reflexivity|]. cbn [skipn]. rewrite IH. reflexivity.
Qed.

(* the sliding window of RecordResult is "the last n results" *)
Lemma lastn_snoc {A} n (rs : list A) b : 1 <= n ->
  lastn n (rs ++ [b]) =
  (if Nat.ltb n (length (lastn n rs ++ [b]))
   then tl (lastn n rs ++ [b]) else lastn n rs ++ [b]).
Proof.
  intros Hn. rewrite app_length, lastn_length. cbn [length].
  destruct (Nat.ltb_spec n (Nat.min n (length rs) + 1)) as [H|H].
  - assert (Hl : n <= length rs) by lia.
    unfold lastn. rewrite app_length; cbn [length].
    rewrite <- skipn_app_one by lia. rewrite tl_skipn. f_equal. lia.
  - assert (Hl : length rs < n) by lia.
    rewrite (lastn_all n rs) by lia. apply lastn_all.
    rewrite app_length; cbn [length]; lia.
Qed.

(* ---- counter invariant -------------------------------------------------- *)
Definition state_of (n : nat) (m : Z) (w : list bool) (s : Z) : bhstate :=
  if Nat.ltb (length w) n then Probing else if Z.leb m s then Allowed else Blocked.

Definition cinv (c : counter) : Prop :=
  1 <= cN c /\
  successes c = count_true (window c) /\
  length (window c) <= cN c /\
  st c = state_of (cN c) (cMin c) (window c) (successes c).

Lemma cinv_init n m : 1 <= n -> cinv (init_counter n m).
Proof.
  intros H. destruct n as [|n]; [lia|].
  unfold cinv, init_counter, state_of; cbn. repeat split; lia.
Qed.

Lemma update_state_st c :
  st (update_state c) = state_of (cN c) (cMin c) (window c) (successes c).
Proof. reflexivity. Qed.

Lemma cinv_record c b : cinv c -> cinv (record_result c b).
Proof.
  intros (HN & Hs & Hl & Hst). unfold record_result.
  destruct (bhstate_eqb (st c) Blocked && b) eqn:Hb.
  - unfold reset, cinv, update_state, state_of; cbn. repeat split; try lia.
  - set (s1 := if b then (successes c + 1)%Z else successes c).
    set (w1 := window c ++ [b]).
    assert (Hs1 : s1 = count_true w1).
    { unfold s1, w1. rewrite count_true_app, Hs. destruct b; lia. }
    assert (Hl1 : length w1 = S (length (window c))).
    { unfold w1. rewrite app_length; cbn; lia. }
    destruct (Nat.ltb_spec (cN c) (length w1)) as [Hlt|Hge].
    + destruct w1 as [|x w1'] eqn:Ew; [cbn in Hl1; lia|].
      cbn [hd tl]. unfold cinv, update_state, state_of; cbn [cN cMin window successes st].
      cbn [length] in Hl1, Hlt. rewrite count_true_cons in Hs1.
      repeat split; try lia. destruct x; lia.
    + unfold cinv, update_state, state_of; cbn [cN cMin window successes st].
      repeat split; try lia.
Qed.

Lemma cinv_request c : cinv c -> cinv (fst (handle_request c)).
Proof. intros H; exact H. Qed.

Lemma cinv_step c o : cinv c -> cinv (fst (cstep c o)).
Proof. destruct o; cbn; [apply cinv_request | apply cinv_record]. Qed.

Lemma crun_cons c o r :
  crun c (o :: r) =
  (fst (crun (fst (cstep c o)) r), snd (cstep c o) :: snd (crun (fst (cstep c o)) r)).
Proof.
  cbn [crun]. destruct (cstep c o) as [c1 x]. cbn [fst snd]. destruct (crun c1 r) as [c2 xs]. reflexivity.
Qed.

Lemma cinv_run ops : forall c, cinv c -> cinv (fst (crun c ops)).
Proof.
  induction ops as [|o r IH]; intros c H; [exact H|].
  rewrite crun_cons. cbn [fst]. apply IH, cinv_step, H.
Qed.

(* reachable states: anything crun can produce from a fresh counter *)
Definition reachable (n : nat) (m : Z) (c : counter) : Prop :=
  exists ops, c = fst (crun (init_counter n m) ops).

Lemma reachable_cinv n m c : 1 <= n -> reachable n m c -> cinv c.
Proof. intros Hn [ops ->]. apply cinv_run, cinv_init, Hn. Qed.

(* ---- the individual sentences of the property --------------------------- *)

(* successes counts the true entries of a window of at most N results *)
Lemma successes_is_count_l n m c : 1 <= n -> reachable n m c ->
  successes c = count_true (window c) /\ length (window c) <= cN c.
Proof. intros Hn Hr. destruct (reachable_cinv n m c Hn Hr) as (_ & H1 & H2 & _). split; assumption. Qed.

(* blocking needs a full window with fewer than MinSuccesses successes *)
Lemma blocked_needs_full_window_l n m c : 1 <= n -> reachable n m c ->
  st c = Blocked ->
  length (window c) = cN c /\ (count_true (window c) < cMin c)%Z.
Proof.
  intros Hn Hr Hb. destruct (reachable_cinv n m c Hn Hr) as (HN & Hs & Hl & Hst).
  rewrite Hst in Hb. unfold state_of in Hb.
  destruct (Nat.ltb_spec (length (window c)) (cN c)); [discriminate|].
  destruct (Z.leb_spec (cMin c) (successes c)); [discriminate|]. split; lia.
Qed.

(* a success while blocked clears everything *)
Lemma success_unblocks_l c : cinv c -> st c = Blocked ->
  let c' := record_result c true in
  st c' = Probing /\ window c' = [] /\ requests c' = 0 /\ successes c' = 0%Z.
Proof.
  intros (HN & _) Hb. unfold record_result. rewrite Hb. cbn.
  destruct (cN c) as [|k]; [lia|]. auto.
Qed.

(* a failure never unblocks, and requests do not change the state *)
Lemma fail_keeps_blocked c : cinv c -> st c = Blocked -> st (record_result c false) = Blocked.
Proof.
  intros (HN & Hs & Hl & Hst) Hb. unfold record_result. rewrite Hb. cbn [bhstate_eqb andb].
  rewrite Hst in Hb. unfold state_of in Hb.
  destruct (Nat.ltb_spec (length (window c)) (cN c)) as [|Hfull]; [discriminate|].
  destruct (Z.leb_spec (cMin c) (successes c)) as [|Hlow]; [discriminate|].
  assert (Hl1 : length (window c ++ [false]) = S (cN c)) by (rewrite app_length; cbn; lia).
  destruct (Nat.ltb_spec (cN c) (length (window c ++ [false]))); [|lia].
  destruct (window c) as [|x w] eqn:Ew; [cbn in *; lia|].
  cbn [app hd tl]. rewrite update_state_st. cbn [cN cMin window successes].
  unfold state_of. cbn [length] in *. rewrite app_length in *. cbn [length] in *.
  destruct (Nat.ltb_spec (length w + 1) (cN c)); [lia|].
  destruct x; destruct (Z.leb_spec (cMin c) (successes c - 1)); destruct (Z.leb_spec (cMin c) (successes c)); try reflexivity; lia.
Qed.

(* n requests in a row *)
Fixpoint requests_n (c : counter) (k : nat) : counter * list bhstate :=
  match k with
  | O => (c, [])
  | S k' => let '(c1, x) := handle_request c in
            let '(c2, xs) := requests_n c1 k' in (c2, x :: xs)
  end.

Fixpoint count_probing (l : list bhstate) : nat :=
  match l with
  | [] => 0
  | Probing :: r => S (count_probing r)
  | _ :: r => count_probing r
  end.

(* number of k in (r, r+len] with k mod n = 0 *)
Fixpoint multiples (n r len : nat) : nat :=
  match len with
  | O => 0
  | S l => (if Nat.eqb (Nat.modulo (S r) n) 0 then 1 else 0) + multiples n (S r) l
  end.

Lemma requests_n_blocked c k : st c = Blocked ->
  count_probing (snd (requests_n c k)) = multiples (cN c) (requests c) k /\
  (forall x, In x (snd (requests_n c k)) -> x = Probing \/ x = Blocked).
Proof.
  revert c; induction k as [|k IH]; intros c Hb; cbn [requests_n multiples].
  - split; [reflexivity | intros x []].
  - set (c1 := mkCounter (cN c) (cMin c) (S (requests c)) (window c) (successes c) (st c)).
    assert (E : handle_request c =
                (c1, if Nat.eqb (S (requests c) mod cN c) 0 then Probing else Blocked)).
    { unfold handle_request, c1. rewrite Hb. reflexivity. }
    rewrite E. clear E.
    assert (Hb1 : st c1 = Blocked) by exact Hb.
    specialize (IH c1 Hb1). destruct (requests_n c1 k) as [c2 xs] eqn:E.
    cbn [snd] in *. destruct IH as [IH1 IH2]. cbn [cN requests c1] in IH1.
    split.
    + destruct (Nat.eqb (S (requests c) mod cN c) 0); cbn [count_probing]; rewrite IH1; reflexivity.
    + intros x [Hx|Hx]; [|apply IH2, Hx].
      destruct (Nat.eqb (S (requests c) mod cN c) 0); subst x; auto.
Qed.

(* among any n consecutive integers exactly one is a multiple of n *)
Lemma multiples_window n : 1 <= n -> forall len r, len <= n ->
  multiples n r len = (if Nat.ltb (n - 1 - r mod n) len then 1 else 0).
Proof.
  intros Hn. induction len as [|len IH]; intros r Hlen; cbn [multiples].
  - destruct (Nat.ltb_spec (n - 1 - r mod n) 0); [lia|reflexivity].
  - rewrite IH by lia.
    assert (Hr : r mod n < n) by (apply Nat.mod_upper_bound; lia).
    assert (HS : S r mod n = if Nat.eqb (r mod n) (n - 1) then 0 else S (r mod n)).
    { destruct (Nat.eqb_spec (r mod n) (n - 1)) as [E|E].
      - pose proof (Nat.div_mod r n ltac:(lia)) as D.
        replace (S r) with ((r / n + 1) * n) by lia. apply Nat.mod_mul. lia.
      - pose proof (Nat.div_mod r n ltac:(lia)) as D.
        replace (S r) with (S (r mod n) + (r / n) * n) by lia.
        rewrite Nat.mod_add by lia. apply Nat.mod_small. lia. }
    rewrite HS.
    destruct (Nat.eqb_spec (r mod n) (n - 1)) as [E|E].
    + cbn [Nat.eqb]. destruct (Nat.ltb_spec (n - 1 - 0) len); [lia|].
      destruct (Nat.ltb_spec (n - 1 - r mod n) (S len)); lia.
    + cbn [Nat.eqb].
      destruct (Nat.ltb_spec (n - 1 - S (r mod n)) len);
      destruct (Nat.ltb_spec (n - 1 - r mod n) (S len)); lia.
Qed.

Lemma probe_one_in_N_l c : cinv c -> st c = Blocked ->
  let outs := snd (requests_n c (cN c)) in
  count_probing outs = 1 /\ (forall x, In x outs -> x = Probing \/ x = Blocked).
Proof.
  intros (HN & _) Hb. destruct (requests_n_blocked c (cN c) Hb) as [H1 H2].
  split; [|exact H2]. rewrite H1, multiples_window by lia.
  assert (requests c mod cN c < cN c) by (apply Nat.mod_upper_bound; lia).
  destruct (Nat.ltb_spec (cN c - 1 - requests c mod cN c) (cN c)); [reflexivity|lia].
Qed.

(* ---- coupling with the trace monitor ------------------------------------ *)
Definition coupled (c : counter) (s : mon) : Prop :=
  cinv c /\
  cur s = st c /\
  window c = lastn (cN c) (results s) /\
  (st c = Blocked ->
     if probed s then run s = requests c mod cN c else run s <= requests c mod cN c).

Lemma coupled_init n m : 1 <= n -> coupled (init_counter n m) mon_init.
Proof.
  intros Hn. unfold coupled. split; [apply cinv_init, Hn|].
  cbn. repeat split; try reflexivity. discriminate.
Qed.

Lemma S_mod n r : 1 <= n ->
  S r mod n = if Nat.eqb (r mod n) (n - 1) then 0 else S (r mod n).
Proof.
  intros Hn. assert (Hr : r mod n < n) by (apply Nat.mod_upper_bound; lia).
  pose proof (Nat.div_mod r n ltac:(lia)) as D.
  destruct (Nat.eqb_spec (r mod n) (n - 1)) as [E|E].
  - replace (S r) with ((r / n + 1) * n) by lia. apply Nat.mod_mul. lia.
  - replace (S r) with (S (r mod n) + (r / n) * n) by lia.
    rewrite Nat.mod_add by lia. apply Nat.mod_small. lia.
Qed.

Lemma full_bad_window_of_blocked c s :
  coupled c s -> st c = Blocked -> full_bad_window (cN c) (cMin c) (results s) = true.
Proof.
  intros (Hinv & _ & Hw & _) Hb. destruct Hinv as (HN & Hs & Hl & Hst).
  rewrite Hst in Hb. unfold state_of in Hb.
  destruct (Nat.ltb_spec (length (window c)) (cN c)) as [|Hfull]; [discriminate|].
  destruct (Z.leb_spec (cMin c) (successes c)) as [|Hlow]; [discriminate|].
  unfold full_bad_window. rewrite <- Hw.
  rewrite Hw, lastn_length in Hfull.
  apply andb_true_intro; split; [apply Nat.leb_le; lia | apply Z.ltb_lt; lia].
Qed.

Lemma window_of_state c s : coupled c s ->
  match st c with
  | Probing => Nat.ltb (length (results s)) (cN c) = true
  | Allowed => full_good_window (cN c) (cMin c) (results s) = true
  | Blocked => full_bad_window (cN c) (cMin c) (results s) = true
  end.
Proof.
  intros Hc. pose proof Hc as (Hinv & _ & Hw & _). destruct Hinv as (HN & Hs & Hl & Hst).
  rewrite Hst. unfold state_of.
  destruct (Nat.ltb_spec (length (window c)) (cN c)) as [Hlt|Hfull].
  - rewrite Hw, lastn_length in Hlt. apply Nat.ltb_lt. lia.
  - rewrite Hw, lastn_length in Hfull.
    destruct (Z.leb_spec (cMin c) (successes c)) as [Hok|Hlow].
    + unfold full_good_window. rewrite <- Hw.
      apply andb_true_intro; split; [apply Nat.leb_le; lia | apply Z.leb_le; lia].
    + unfold full_bad_window. rewrite <- Hw.
      apply andb_true_intro; split; [apply Nat.leb_le; lia | apply Z.ltb_lt; lia].
Qed.

Lemma coupled_step c s o : coupled c s ->
  exists s', mon_step (cN c) (cMin c) s o (snd (cstep c o)) = Some s' /\
             coupled (fst (cstep c o)) s'.
Proof.
  intros Hc. pose proof Hc as (Hinv & Hcur & Hw & Hrun).
  pose proof Hinv as (HN & Hs & Hl & Hst).
  destruct o as [|b].
  - (* request *)
    cbn [cstep]. unfold handle_request. cbn [fst snd mon_step]. rewrite Hcur.
    destruct (st c) eqn:Est.
    + eexists; split; [reflexivity|]. unfold coupled, cinv; cbn. repeat split; auto; discriminate.
    + eexists; split; [reflexivity|]. unfold coupled, cinv; cbn. repeat split; auto; discriminate.
    + specialize (Hrun eq_refl).
      assert (Hr : requests c mod cN c < cN c) by (apply Nat.mod_upper_bound; lia).
      rewrite (S_mod (cN c) (requests c)) by lia.
      destruct (Nat.eqb_spec (requests c mod cN c) (cN c - 1)) as [E|E].
      * change (0 =? 0) with true. cbv iota.
        assert (Hok : negb (probed s) || Nat.eqb (S (run s)) (cN c) = true).
        { destruct (probed s); cbn [negb orb]; [|reflexivity]. apply Nat.eqb_eq. lia. }
        rewrite Hok. eexists; split; [reflexivity|].
        unfold coupled, cinv; cbn. repeat split; auto. intros _.
        replace (S (requests c)) with ((requests c / cN c + 1) * cN c).
        -- symmetry; apply Nat.mod_mul; lia.
        -- pose proof (Nat.div_mod (requests c) (cN c) ltac:(lia)); lia.
      * change (S (requests c mod cN c) =? 0) with false. cbv iota.
        assert (Hlt : Nat.ltb (S (run s)) (cN c) = true).
        { apply Nat.ltb_lt. destruct (probed s); lia. }
        rewrite Hlt. eexists; split; [reflexivity|].
        unfold coupled, cinv; cbn. repeat split; auto. intros _.
        rewrite (S_mod (cN c) (requests c)) by lia.
        destruct (Nat.eqb_spec (requests c mod cN c) (cN c - 1)); [lia|].
        destruct (probed s); lia.
  - (* record *)
    cbn [cstep fst snd]. pose proof (cinv_record c b Hinv) as Hinv'.
    unfold mon_step. rewrite Hcur.
    destruct (bhstate_eqb (st c) Blocked && b) eqn:Hreset.
    + (* success while blocked *)
      apply andb_prop in Hreset. destruct Hreset as [Hb1 Hb2]. subst b.
      assert (Est : st c = Blocked) by (destruct (st c); try discriminate; reflexivity).
      destruct (success_unblocks_l c Hinv Est) as (H1 & H2 & H3 & H4). cbn zeta in *.
      rewrite H1. cbn [length]. replace (Nat.ltb 0 (cN c)) with true by (symmetry; apply Nat.ltb_lt; lia).
      eexists; split; [reflexivity|].
      unfold coupled. split; [exact Hinv'|]. cbn [cur results run probed].
      rewrite H1, H2. repeat split; try reflexivity. discriminate.
    + (* ordinary record: window slides *)
      assert (HN' : cN (record_result c b) = cN c).
      { unfold record_result. rewrite Hreset.
        destruct (Nat.ltb (cN c) (length (window c ++ [b]))); reflexivity. }
      assert (HM' : cMin (record_result c b) = cMin c).
      { unfold record_result. rewrite Hreset.
        destruct (Nat.ltb (cN c) (length (window c ++ [b]))); reflexivity. }
      assert (HR' : requests (record_result c b) = requests c).
      { unfold record_result. rewrite Hreset.
        destruct (Nat.ltb (cN c) (length (window c ++ [b]))); reflexivity. }
      assert (HW' : window (record_result c b) = lastn (cN c) (results s ++ [b])).
      { rewrite lastn_snoc by lia. rewrite <- Hw. unfold record_result. rewrite Hreset.
        destruct (Nat.ltb (cN c) (length (window c ++ [b]))); reflexivity. }
      assert (Hcpl : forall (x : bhstate) (r : nat) (p : bool),
                 x = st (record_result c b) ->
                 (x = Blocked ->
                  if p then r = requests c mod cN c else r <= requests c mod cN c) ->
                 coupled (record_result c b) (mkMon (results s ++ [b]) x r p)).
      { intros x r p Hx Hrp. unfold coupled. split; [exact Hinv'|]. cbn [cur results run probed].
        rewrite HN', HR'. split; [exact Hx|]. split; [exact HW'|].
        intros Hbk. apply Hrp. rewrite Hx. exact Hbk. }
      assert (Hws : forall x, x = st (record_result c b) ->
                 match x with
                 | Probing => Nat.ltb (length (results s ++ [b])) (cN c) = true
                 | Allowed => full_good_window (cN c) (cMin c) (results s ++ [b]) = true
                 | Blocked => True
                 end).
      { intros x Hx.
        pose proof (window_of_state (record_result c b) (mkMon (results s ++ [b]) x 0 false)) as F.
        rewrite HN', HM' in F. cbn [results] in F.
        assert (Hcp : coupled (record_result c b) (mkMon (results s ++ [b]) x 0 false)).
        { apply Hcpl; [exact Hx|]. intros _. lia. }
        specialize (F Hcp). rewrite <- Hx in F. destruct x; [exact F|exact F|exact I]. }
      destruct (st (record_result c b)) eqn:Est'.
      * rewrite (Hws Probing eq_refl). eexists; split; [reflexivity|]. apply Hcpl; [reflexivity|discriminate].
      * rewrite (Hws Allowed eq_refl). eexists; split; [reflexivity|]. apply Hcpl; [reflexivity|discriminate].
      * (* blocked after the record *)
        assert (Hfb : full_bad_window (cN c) (cMin c) (results s ++ [b]) = true).
        { pose proof (full_bad_window_of_blocked (record_result c b)
                        (mkMon (results s ++ [b]) Blocked 0 false)) as F.
          rewrite HN', HM' in F. apply F; [|exact Est'].
          apply Hcpl; [reflexivity|]. intros _. lia. }
        rewrite Hfb. eexists; split; [reflexivity|].
        destruct (bhstate_eqb (st c) Blocked) eqn:Hwas.
        -- apply Hcpl; [reflexivity|]. intros _. apply Hrun. destruct (st c); try discriminate; reflexivity.
        -- apply Hcpl; [reflexivity|]. intros _. lia.
Qed.

(* trace of the model on an op list *)
Definition ctrace (c : counter) (ops : list cop) : list (cop * bhstate) :=
  combine ops (snd (crun c ops)).

Lemma mon_run_model ops : forall c s, coupled c s ->
  mon_run (cN c) (cMin c) s (ctrace c ops) = true.
Proof.
  induction ops as [|o r IH]; intros c s Hc; [reflexivity|].
  unfold ctrace. rewrite crun_cons. cbn [snd combine mon_run].
  destruct (coupled_step c s o Hc) as (s' & Hs' & Hc').
  rewrite Hs'.
  assert (HN : cN (fst (cstep c o)) = cN c /\ cMin (fst (cstep c o)) = cMin c).
  { destruct o as [|b]; cbn; [split; reflexivity|]. unfold record_result.
    destruct (bhstate_eqb (st c) Blocked && b); [split; reflexivity|].
    destruct (Nat.ltb (cN c) (length (window c ++ [b]))); split; reflexivity. }
  destruct HN as [E1 E2]. rewrite <- E1, <- E2. apply IH, Hc'.
Qed.

Lemma holds_counter_model n m ops : 1 <= n ->
  holds_counter n m (ctrace (init_counter n m) ops) = true.
Proof.
  intros Hn. unfold holds_counter.
  apply (mon_run_model ops (init_counter n m) mon_init), coupled_init, Hn.
Qed.

(* ---- cannot stay blocked ------------------------------------------------- *)
(* after a success while blocked, at least N further results are needed
   before the counter can block again *)
Fixpoint records (c : counter) (bs : list bool) : counter :=
  match bs with [] => c | b :: r => records (record_result c b) r end.

Lemma probing_while_short c : cinv c -> length (window c) < cN c -> st c = Probing.
Proof.
  intros (_ & _ & _ & Hst) H. rewrite Hst. unfold state_of.
  destruct (Nat.ltb_spec (length (window c)) (cN c)); [reflexivity|lia].
Qed.

Lemma record_window_length c b : cinv c -> st c <> Blocked ->
  length (window (record_result c b)) = Nat.min (cN c) (S (length (window c))) /\
  cN (record_result c b) = cN c.
Proof.
  intros (HN & _ & Hl & _) Hnb. unfold record_result.
  replace (bhstate_eqb (st c) Blocked) with false by (destruct (st c); try reflexivity; congruence).
  cbn [andb].
  assert (L : length (window c ++ [b]) = S (length (window c))) by (rewrite app_length; cbn; lia).
  destruct (Nat.ltb_spec (cN c) (length (window c ++ [b]))); cbn [update_state window cN].
  - split; [|reflexivity]. destruct (window c ++ [b]) eqn:E; cbn in *; lia.
  - split; [|reflexivity]. lia.
Qed.

Lemma cannot_block_early bs : forall c, cinv c ->
  length (window c) + length bs < cN c -> st (records c bs) = Probing.
Proof.
  induction bs as [|b r IH]; intros c Hinv Hlen; cbn [records length] in *.
  - apply probing_while_short; [exact Hinv|lia].
  - assert (Hp : st c = Probing) by (apply probing_while_short; [exact Hinv|lia]).
    destruct (record_window_length c b Hinv) as [L1 L2]; [congruence|].
    apply IH; [apply cinv_record, Hinv|]. rewrite L1, L2. lia.
Qed.

Lemma cannot_stay_blocked_l c bs : cinv c -> st c = Blocked ->
  length bs < cN c -> st (records (record_result c true) bs) = Probing.
Proof.
  intros Hinv Hb Hlen.
  destruct (success_unblocks_l c Hinv Hb) as (H1 & H2 & _). cbn zeta in *.
  assert (E : cN (record_result c true) = cN c) by (unfold record_result; rewrite Hb; reflexivity).
  apply cannot_block_early; [apply cinv_record, Hinv|]. rewrite H2, E. cbn; lia.
Qed.

(* ---- detector ------------------------------------------------------------ *)
Lemma filter_partition {A} (f : A -> bool) l x :
  In x l <-> (In x (filter f l) \/ In x (filter (fun a => negb (f a)) l)).
Proof.
  rewrite !filter_In. destruct (f x) eqn:E; cbn; intuition congruence.
Qed.

Lemma filter_disjoint {A} (f : A -> bool) l x :
  In x (filter f l) -> In x (filter (fun a => negb (f a)) l) -> False.
Proof. rewrite !filter_In. intros [_ H1] [_ H2]. rewrite H1 in H2. discriminate. Qed.

Lemma keep_private u v a : a_pub a = false -> keep u v a = true.
Proof. intros H. unfold keep. rewrite H. reflexivity. Qed.

Lemma keep_other_kind u v a : a_udp a = false -> a_ip6 a = false -> keep u v a = true.
Proof. intros H1 H2. unfold keep. rewrite H1, H2. rewrite !andb_false_r. destruct (a_pub a); reflexivity. Qed.

Lemma keep_false_inv u v a : keep u v a = false ->
  a_pub a = true /\
  ((a_udp a = true /\ u = Blocked /\ ~ (a_ip6 a = true /\ v = Probing)) \/
   (a_ip6 a = true /\ v = Blocked /\ ~ (a_udp a = true /\ u = Probing))).
Proof.
  unfold keep. destruct (a_pub a), (a_udp a), (a_ip6 a), u, v; cbn; intros H; try discriminate;
    (split; [reflexivity|]); intuition congruence.
Qed.

Lemma filter_addrs_lists d addrs :
  let '(u, v) := filter_results d addrs in
  snd (fst (filter_addrs d addrs)) = filter (keep u v) addrs /\
  snd (filter_addrs d addrs) = filter (fun a => negb (keep u v a)) addrs.
Proof.
  unfold filter_results, filter_addrs.
  destruct (d_udp d) as [cu|], (d_ip6 d) as [cv|];
    destruct (existsb (fun a => a_pub a && a_udp a) addrs),
             (existsb (fun a => a_pub a && a_ip6 a) addrs);
    repeat match goal with |- context [get_filter_state ?r ?c] => destruct (get_filter_state r c) end;
    cbn; split; reflexivity.
Qed.

(* a counter can answer Blocked only when its own state is Blocked (normal
   mode) or not Allowed (read-only mode) *)
Lemma get_filter_state_blocked ro c : snd (get_filter_state ro c) = Blocked ->
  if ro then st c <> Allowed else st c = Blocked.
Proof.
  unfold get_filter_state, handle_request. destruct ro; cbn.
  - destruct (st c); cbn; congruence.
  - destruct (st c); congruence.
Qed.

Lemma readonly_counter_frozen c : fst (get_filter_state true c) = c.
Proof. reflexivity. Qed.

Lemma readonly_filter_frozen d addrs : d_ro d = true ->
  fst (fst (filter_addrs d addrs)) = d.
Proof.
  intros H. unfold filter_addrs. rewrite H.
  destruct d as [[cu|] [cv|] ro]; cbn in *; subst ro;
    destruct (existsb (fun a => a_pub a && a_udp a) addrs),
             (existsb (fun a => a_pub a && a_ip6 a) addrs); reflexivity.
Qed.

Lemma readonly_record_frozen d a b : d_ro d = true -> det_record d a b = d.
Proof. intros H. unfold det_record. rewrite H. reflexivity. Qed.

Lemma readonly_answer c :
  snd (get_filter_state true c) = Allowed <-> st c = Allowed.
Proof. cbn. destruct (st c); cbn; split; congruence. Qed.

(* ---- detector trace monitor holds on every model trace ------------------- *)
Lemma forallb_combine_map {A B} (P : A * B -> bool) (f : A -> B) l :
  forallb P (combine l (map f l)) = forallb (fun a => P (a, f a)) l.
Proof. induction l as [|x l IH]; cbn; [reflexivity|]. rewrite IH. reflexivity. Qed.

Lemma existsb_in {A} (f : A -> bool) l x : In x l -> f x = true -> existsb f l = true.
Proof. intros H1 H2. apply existsb_exists. exists x. split; assumption. Qed.

Lemma z_of_ost_inj a b : z_of_ost a = z_of_ost b -> a = b.
Proof. destruct a as [[]|], b as [[]|]; cbn; intros H; try reflexivity; discriminate. Qed.

Lemma ostz_z_of_ost o : ostz (z_of_ost o) = o.
Proof. destruct o as [[]|]; reflexivity. Qed.

Lemma filter_flag_ok d l a : In a l ->
  let '(ur, vr) := filter_results d l in
  let u := ost (d_udp d) in let v := ost (d_ip6 d) in
  (if keep ur vr a then negb (must_remove (d_ro d) u v a) else removable (d_ro d) u v a) = true.
Proof.
  intros Hin. unfold filter_results.
  set (hu := existsb (fun a => a_pub a && a_udp a) l).
  set (hv := existsb (fun a => a_pub a && a_ip6 a) l).
  assert (Hhu : a_pub a = true -> a_udp a = true -> hu = true).
  { intros P U. apply (existsb_in _ l a Hin). rewrite P, U. reflexivity. }
  assert (Hhv : a_pub a = true -> a_ip6 a = true -> hv = true).
  { intros P U. apply (existsb_in _ l a Hin). rewrite P, U. reflexivity. }
  unfold keep, must_remove, removable, get_filter_state, handle_request, st_is, ost.
  destruct d as [[cu|] [cv|] ro]; cbn [d_udp d_ip6 d_ro];
    destruct (a_pub a) eqn:P; cbn [negb andb orb]; try reflexivity;
    destruct (a_udp a) eqn:U; destruct (a_ip6 a) eqn:V;
    try (rewrite (Hhu eq_refl eq_refl)); try (rewrite (Hhv eq_refl eq_refl));
    destruct ro; cbn [negb andb orb fst snd bhstate_eqb];
    try destruct hu; try destruct hv; cbn [negb andb orb fst snd bhstate_eqb];
    try (destruct (st cu)); try (destruct (st cv));
    cbn [negb andb orb fst snd bhstate_eqb]; try reflexivity;
    repeat match goal with |- context [Nat.eqb ?x 0] => destruct (Nat.eqb x 0) end;
    cbn [negb andb orb fst snd bhstate_eqb]; reflexivity.
Qed.

Lemma keep_same_cls u v a b : same_cls a b = true -> keep u v a = keep u v b.
Proof.
  unfold same_cls, keep. intros H.
  apply andb_prop in H. destruct H as [H H3]. apply andb_prop in H. destruct H as [H1 H2].
  apply eqb_prop in H1, H2, H3. rewrite H1, H2, H3. reflexivity.
Qed.

Lemma in_combine_map {A B} (f : A -> B) l x : In x (combine l (map f l)) -> snd x = f (fst x).
Proof.
  induction l as [|a l IH]; cbn; [intros []|]. intros [<-|H]; [reflexivity|apply IH, H].
Qed.

Lemma verdict_consistent_map (f : addr -> bool) l :
  (forall a b, same_cls a b = true -> f a = f b) ->
  verdict_consistent (combine l (map f l)) = true.
Proof.
  intros Hf. unfold verdict_consistent. apply forallb_forall. intros x Hx.
  apply forallb_forall. intros y Hy.
  destruct (same_cls (fst x) (fst y)) eqn:E; [|reflexivity]. cbn [negb orb].
  rewrite (in_combine_map f l x Hx), (in_combine_map f l y Hy), (Hf _ _ E).
  apply eqb_reflx.
Qed.

Lemma filter_ok_model d l :
  filter_ok (d_ro d) (ost (d_udp d)) (ost (d_ip6 d)) l (filter_flags d l) = true.
Proof.
  unfold filter_ok, filter_flags. pose proof (filter_flag_ok d l) as H.
  destruct (filter_results d l) as [ur vr].
  rewrite map_length, Nat.eqb_refl. cbn [andb].
  rewrite verdict_consistent_map by (apply keep_same_cls). rewrite andb_true_r.
  rewrite forallb_combine_map. apply forallb_forall. intros a Hin. apply (H a Hin).
Qed.

Lemma cint_eqb_refl c : cint_eqb c c = true.
Proof. destruct c as [[a b] d]. unfold cint_eqb. rewrite !Z.eqb_refl. reflexivity. Qed.

Lemma cview_eqb_refl c : cview_eqb c c = true.
Proof. destruct c as [a b]. unfold cview_eqb; cbn [fst snd]. rewrite Z.eqb_refl, cint_eqb_refl. reflexivity. Qed.

Lemma ostz_cview o : ostz (fst (cview_of o)) = ost o.
Proof. destruct o as [c|]; [|reflexivity]. cbn. destruct (st c); reflexivity. Qed.

Lemma monitor_det_model ops : forall p i,
  monitor_det (cview_of (fst p)) (cview_of (snd p)) i (dtrace p ops) = [].
Proof.
  induction ops as [|o r IH]; intros p i; [reflexivity|]. destruct p as [pu pv].
  cbn [dtrace]. destruct (tstep (pu, pv) o) as [p' x] eqn:E.
  unfold tstep in E. cbn [monitor_det].
  destruct o as [ro [l|a b]|w b|].
  - injection E as <- <-.
    rewrite !ostz_cview.
    pose proof (filter_ok_model (det_of (pu, pv) ro) l) as Hok. cbn [det_of d_ro d_udp d_ip6] in Hok.
    cbn [fst snd] in *. rewrite Hok. cbn [andb].
    destruct ro.
    + rewrite readonly_filter_frozen by reflexivity. cbn [pair_of det_of d_udp d_ip6 fst snd].
      rewrite !cview_eqb_refl. cbn [andb]. apply (IH (pu, pv)).
    + apply (IH (pair_of (fst (fst (filter_addrs (det_of (pu, pv) false) l))))).
  - injection E as <- <-. cbn [andb fst snd].
    destruct ro.
    + rewrite readonly_record_frozen by reflexivity. cbn [pair_of det_of d_udp d_ip6 fst snd].
      rewrite !cview_eqb_refl. cbn [andb]. apply (IH (pu, pv)).
    + apply (IH (pair_of (det_record (det_of (pu, pv) false) a b))).
  - destruct w; cbv beta iota zeta in E; injection E as <- <-; cbn [andb fst snd];
      [apply (IH (pu, option_map (fun c => record_result c b) pv))
      |apply (IH (option_map (fun c => record_result c b) pu, pv))].
  - injection E as <- <-. cbn [andb fst snd]. rewrite !cview_eqb_refl. apply (IH (pu, pv)).
Qed.

(* the model conforms to its own trace (sanity of the conformance function) *)
Lemma dobs_eqb_refl x : dobs_eqb x x = true.
Proof.
  destruct x as [f u v]. unfold dobs_eqb. rewrite !cview_eqb_refl.
  replace (list_eqb Bool.eqb f f) with true; [reflexivity|].
  induction f as [|b f IH]; cbn; [reflexivity|]. rewrite <- IH. destruct b; reflexivity.
Qed.

Lemma conform_det_model ops : forall p i, conform_det p i (dtrace p ops) = [].
Proof.
  induction ops as [|o r IH]; intros p i; [reflexivity|].
  cbn [dtrace]. destruct (tstep p o) as [p' x] eqn:E. cbn [conform_det]. rewrite E.
  rewrite dobs_eqb_refl. apply IH.
Qed.

(* the counter model conforms to its own trace, internals included *)
Definition ctrace_full (c : counter) (ops : list cop) : list (cop * bhstate * cint) :=
  (fix go c ops :=
     match ops with
     | [] => []
     | o :: r => let '(c', y) := cstep c o in (o, y, cint_of c') :: go c' r
     end) c ops.

Lemma bhstate_eqb_refl x : bhstate_eqb x x = true.
Proof. destruct x; reflexivity. Qed.

Lemma conform_counter_model ops : forall c i, conform_counter_run c i (ctrace_full c ops) = [].
Proof.
  induction ops as [|o r IH]; intros c i; [reflexivity|].
  cbn [ctrace_full conform_counter_run]. destruct (cstep c o) as [c' y] eqn:E.
  cbn [conform_counter_run]. rewrite E, bhstate_eqb_refl, cint_eqb_refl. cbn [andb]. apply IH.
Qed.

(* C18 — lemmas.  Part 2: verifyRawCerts and the dialer's confirmation. *)
From Coq Require Import List ZArith Bool Lia.
From Verif Require Import lib.Wire c18.Model c18.Spec.
Import ListNotations.
Local Open Scope Z_scope.

Lemma mh_mem_In x l : mh_mem x l = true <-> In x l.
Proof.
  unfold mh_mem. rewrite existsb_exists. split.
  - intros (y & Hin & He). unfold mh_eqb in He. apply andb_true_iff in He as [H1 H2].
    apply Z.eqb_eq in H1, H2. destruct x, y; cbn in *; subst. exact Hin.
  - intros Hin. exists x. split; [exact Hin|]. unfold mh_eqb. rewrite !Z.eqb_refl. reflexivity.
Qed.

Lemma pinned_advertises hashes h :
  existsb (fun x => (fst x =? SHA2_256) && (snd x =? h)) hashes = advertises hashes h.
Proof.
  unfold advertises, mh_mem, mh_eqb. induction hashes as [|a r IH]; [reflexivity|].
  cbn [existsb fst snd]. rewrite IH. rewrite (Z.eqb_sym (fst a)), (Z.eqb_sym (snd a)). reflexivity.
Qed.

(* what an accepting run of verifyRawCerts went through, in the code's order *)
Lemma verify_ok_inv p chain hashes :
  verify_raw_certs p chain hashes = VOk ->
  exists pre leaf, chain = pre ++ [leaf] /\
    advertises hashes (x_hash leaf) = true /\ x_parse leaf = true /\ rsa_test p leaf = false /\
    x_na leaf - x_nb leaf <= pMaxLife p /\ x_nb leaf <= 0 <= x_na leaf.
Proof.
  unfold verify_raw_certs. destruct (rev chain) as [|leaf r] eqn:Er; [discriminate|].
  rewrite pinned_advertises.
  destruct (advertises hashes (x_hash leaf)) eqn:Ea; [|discriminate].
  destruct (x_parse leaf) eqn:Ep; cbn [negb]; [|discriminate].
  destruct (rsa_test p leaf) eqn:Hs; [discriminate|].
  destruct (Z.ltb_spec (pMaxLife p) (x_na leaf - x_nb leaf)) as [|Hl]; [discriminate|].
  destruct (Z.ltb_spec 0 (x_nb leaf)) as [|Hb]; cbn [orb]; [discriminate|].
  destruct (Z.ltb_spec (x_na leaf) 0) as [|Ha]; [discriminate|].
  intros _. exists (rev r), leaf. split.
  - rewrite <- (rev_involutive chain), Er. reflexivity.
  - repeat split; try assumption; lia.
Qed.

(* the hypothesis the proof forces about the certificate's algorithm: the
   code recognises RSA by six PKCS#1 v1.5 SignatureAlgorithm values only *)
Definition rsa_recognised (p : params) (c : xcert) : Prop :=
  pRsaRule p = 0 -> x_sig c <> 2 /\ (x_pubrsa c = true -> x_sig c = 1).

Lemma rsa_test_false p c : rsa_recognised p c -> rsa_test p c = false -> is_rsa c = false.
Proof.
  unfold rsa_recognised, rsa_test. intros Hr Ht.
  destruct (Z.eqb_spec (pRsaRule p) 0) as [E|]; [|exact Ht].
  destruct (Hr E) as (Hpss & Hkey). unfold is_rsa. rewrite Ht.
  destruct (x_pubrsa c); [specialize (Hkey eq_refl); apply Z.eqb_neq in Ht; contradiction|].
  destruct (Z.eqb_spec (x_sig c) 2); [contradiction|]. reflexivity.
Qed.

Lemma accept_diag_ok p c hashes :
  pMaxLife p <= spec_max_validity -> rsa_recognised p c ->
  verify_raw_certs p [c] hashes = VOk -> accept_diag [c] hashes = [].
Proof.
  intros Hm Hrec Hv. apply verify_ok_inv in Hv as (pre & leaf & E & Ha & Hp & Hs & Hl & Hb1 & Hb2).
  assert (pre = [] /\ leaf = c) as (-> & ->).
  { destruct pre as [|a [|b r]]; cbn in E.
    - inversion E. auto.
    - discriminate.
    - discriminate. }
  unfold accept_diag. rewrite Ha, Hp. cbn [negb].
  rewrite (rsa_test_false p c Hrec Hs).
  destruct (Z.leb_spec (x_na c - x_nb c) spec_max_validity); [|lia]. cbn [negb].
  destruct (Z.leb_spec (x_nb c) 0); [|lia]. destruct (Z.leb_spec 0 (x_na c)); [|lia]. reflexivity.
Qed.

Lemma verify_empty p hashes : verify_raw_certs p [] hashes = VNoCert.
Proof. reflexivity. Qed.

Lemma z_of_vres_0 r : z_of_vres r = 0 -> r = VOk.
Proof. destruct r; cbn; intros; try discriminate; reflexivity. Qed.

Lemma monitor_verify_ok p chain hashes :
  pMaxLife p <= spec_max_validity -> (length chain <= 1)%nat -> Forall (rsa_recognised p) chain ->
  monitor_verify chain hashes (z_of_vres (verify_raw_certs p chain hashes)) = [].
Proof.
  intros Hm Hl Hr. unfold monitor_verify.
  destruct (Z.eqb_spec (z_of_vres (verify_raw_certs p chain hashes)) 0) as [E|]; [|reflexivity].
  apply z_of_vres_0 in E. destruct chain as [|c [|c2 r]].
  - rewrite verify_empty in E. discriminate.
  - inversion Hr; subst. eapply accept_diag_ok; eassumption.
  - cbn in Hl. lia.
Qed.

Lemma confirm_spec sent rcvd : confirm sent rcvd = true <-> forall h, In h sent -> In h rcvd.
Proof.
  unfold confirm. rewrite forallb_forall. split; intros Hx h Hin.
  - apply mh_mem_In, Hx, Hin.
  - apply mh_mem_In, Hx, Hin.
Qed.

Lemma dial_connected_inv p chain addr dec srv :
  dial p chain addr dec srv = 0 ->
  verify_raw_certs p chain addr = VOk /\ dec = true /\ forall h, In h addr -> In h srv.
Proof.
  unfold dial. destruct (verify_raw_certs p chain addr) eqn:Ev; try discriminate.
  destruct dec; cbn [andb]; [|discriminate].
  destruct (confirm addr srv) eqn:Ec; [|discriminate].
  intros _. split; [reflexivity|]. split; [reflexivity|]. apply confirm_spec, Ec.
Qed.

Lemma monitor_dial_ok p chain addr dec srv :
  pMaxLife p <= spec_max_validity -> (length chain <= 1)%nat -> Forall (rsa_recognised p) chain ->
  monitor_dial chain addr dec srv (dial p chain addr dec srv) = [].
Proof.
  intros Hm Hl Hr. unfold monitor_dial.
  destruct (Z.eqb_spec (dial p chain addr dec srv) 0) as [E|]; [|reflexivity].
  apply dial_connected_inv in E as (Hv & -> & Hc).
  destruct chain as [|c [|c2 r]].
  - rewrite verify_empty in Hv. discriminate.
  - inversion Hr; subst. rewrite (accept_diag_ok p c addr Hm) by assumption.
    cbn [andb]. replace (forallb (fun h => mh_mem h srv) addr) with true; [reflexivity|].
    symmetry. apply forallb_forall. intros h Hin. apply mh_mem_In, Hc, Hin.
  - cbn in Hl. lia.
Qed.

(* with the complete RSA test nothing has to be assumed about the certificate *)
Lemma rsa_rule1_recognised p chain : pRsaRule p <> 0 -> Forall (rsa_recognised p) chain.
Proof. intros Hr. apply Forall_forall. intros c _ E. contradiction. Qed.

(* with the pinned tree's test the clause fails *)
Lemma verify_refuted_gen p : pRsaRule p = 0 -> pMaxLife p = spec_max_validity ->
  exists c hashes, verify_raw_certs p [c] hashes = VOk /\ is_rsa c = true /\
    monitor_verify [c] hashes (z_of_vres (verify_raw_certs p [c] hashes)) <> [].
Proof.
  intros Hr Hm. exists (mkX 1 true true 2 (-3600 * SEC) (86400 * SEC)), [(SHA2_256, 1)].
  assert (E : verify_raw_certs p [mkX 1 true true 2 (-3600 * SEC) (86400 * SEC)] [(SHA2_256, 1)] = VOk).
  { unfold verify_raw_certs, rsa_test. rewrite Hr, Hm. vm_compute. reflexivity. }
  split; [exact E|]. split; [reflexivity|]. rewrite E. vm_compute. discriminate.
Qed.

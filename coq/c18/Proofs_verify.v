(* C18 — lemmas.  Part 2: verifyRawCerts and the dialer's confirmation. *)
From Coq Require Import List ZArith Bool Lia.
From Verif Require Import lib.Wire c18.Model c18.Spec.
Import ListNotations.
Local Open Scope Z_scope.

Lemma mh_mem_In x l : mh_mem x l = true <-> In x l.
Proof.
  unfold mh_mem. rewrite existsb_exists. split.
  - intros (y & Hin & He). unfold mh_eqb in He. apply andb_true_iff in He as [H1 H2].
    apply Z.eqb_eq in H1, H2. destruct x, y; cbn in *; subst. exact Hin.
  - intros Hin. exists x. split; [exact Hin|]. unfold mh_eqb. rewrite !Z.eqb_refl. reflexivity.
Qed.

Lemma pinned_advertises hashes h :
  existsb (fun x => (fst x =? SHA2_256) && (snd x =? h)) hashes = advertises hashes h.
Proof.
  unfold advertises, mh_mem, mh_eqb. induction hashes as [|a r IH]; [reflexivity|].
  cbn [existsb fst snd]. rewrite IH. rewrite (Z.eqb_sym (fst a)), (Z.eqb_sym (snd a)). reflexivity.
Qed.

(* what an accepting run of verifyRawCerts went through, in the code's order,
   for any "cert uses RSA" test *)
Lemma verify_with_ok_inv rsa p chain hashes :
  verify_with rsa p chain hashes = VOk ->
  exists leaf, inspected p chain = Some leaf /\
    advertises hashes (x_hash leaf) = true /\ x_parse leaf = true /\ rsa leaf = false /\
    x_na leaf - x_nb leaf <= pMaxLife p /\ x_nb leaf <= 0 <= x_na leaf.
Proof.
  unfold verify_with. destruct (inspected p chain) as [leaf|]; [|discriminate].
  rewrite pinned_advertises.
  destruct (advertises hashes (x_hash leaf)) eqn:Ea; [|discriminate].
  destruct (x_parse leaf) eqn:Ep; cbn [negb]; [|discriminate].
  destruct (rsa leaf) eqn:Hs; [discriminate|].
  destruct (Z.ltb_spec (pMaxLife p) (x_na leaf - x_nb leaf)) as [|Hl]; [discriminate|].
  destruct (Z.ltb_spec 0 (x_nb leaf)) as [|Hb]; cbn [orb]; [discriminate|].
  destruct (Z.ltb_spec (x_na leaf) 0) as [|Ha]; [discriminate|].
  intros _. exists leaf. repeat split; try assumption; lia.
Qed.

Lemma verify_ok_inv p chain hashes :
  verify_raw_certs p chain hashes = VOk ->
  exists leaf, inspected p chain = Some leaf /\
    advertises hashes (x_hash leaf) = true /\ x_parse leaf = true /\ is_rsa leaf = false /\
    x_na leaf - x_nb leaf <= pMaxLife p /\ x_nb leaf <= 0 <= x_na leaf.
Proof. apply verify_with_ok_inv. Qed.

(* when the inspected certificate is the server's (the first of the chain):
   the verifier looks at rawCerts[0] (the current tree), or the chain has at
   most one entry *)
Definition inspects_server_cert (p : params) (chain : list xcert) : Prop :=
  pLeafLast p = 0 \/ (length chain <= 1)%nat.

Lemma inspected_first p chain : inspects_server_cert p chain -> inspected p chain = hd_error chain.
Proof.
  unfold inspects_server_cert, inspected. intros [E | Hl].
  - rewrite E. reflexivity.
  - destruct (pLeafLast p =? 0); [reflexivity|]. destruct chain as [|a [|b r]]; [reflexivity | reflexivity|].
    cbn in Hl. lia.
Qed.

Lemma accept_diag_ok p chain hashes :
  pMaxLife p <= spec_max_validity -> inspects_server_cert p chain ->
  verify_raw_certs p chain hashes = VOk -> accept_diag chain hashes = [].
Proof.
  intros Hm Hi Hv. apply verify_ok_inv in Hv as (leaf & E & Ha & Hp & Hs & Hl & Hb1 & Hb2).
  rewrite (inspected_first p chain Hi) in E. destruct chain as [|c r]; [discriminate|].
  cbn in E. inversion E; subst leaf.
  unfold accept_diag. rewrite Ha, Hp, Hs. cbn [negb].
  destruct (Z.leb_spec (x_na c - x_nb c) spec_max_validity); [|lia]. cbn [negb].
  destruct (Z.leb_spec (x_nb c) 0); [|lia]. destruct (Z.leb_spec 0 (x_na c)); [|lia]. reflexivity.
Qed.

Lemma z_of_vres_0 r : z_of_vres r = 0 -> r = VOk.
Proof. destruct r; cbn; intros; try discriminate; reflexivity. Qed.

Lemma monitor_verify_ok p chain hashes :
  pMaxLife p <= spec_max_validity -> inspects_server_cert p chain ->
  monitor_verify chain hashes (z_of_vres (verify_raw_certs p chain hashes)) = [].
Proof.
  intros Hm Hi. unfold monitor_verify.
  destruct (Z.eqb_spec (z_of_vres (verify_raw_certs p chain hashes)) 0) as [E|]; [|reflexivity].
  apply z_of_vres_0 in E. eapply accept_diag_ok; eassumption.
Qed.

(* non-vacuity of the "server certificate" clause, about the parametric model: a
   verifier that inspects the LAST certificate of the chain accepts
   [unpinned; pinned], and the monitor rejects that acceptance *)
Definition ex_unpinned : xcert := mkX 1 true false 0 (-3600 * SEC) (3600 * SEC).
Definition ex_pinned : xcert := mkX 2 true false 0 (-3600 * SEC) (3600 * SEC).

Lemma last_cert_verifier_accepts_unpinned_chain p : pLeafLast p <> 0 -> pMaxLife p = spec_max_validity ->
  verify_raw_certs p [ex_unpinned; ex_pinned] [(SHA2_256, 2)] = VOk /\
  advertises [(SHA2_256, 2)] (x_hash ex_unpinned) = false /\
  monitor_verify [ex_unpinned; ex_pinned] [(SHA2_256, 2)]
    (z_of_vres (verify_raw_certs p [ex_unpinned; ex_pinned] [(SHA2_256, 2)])) <> [].
Proof.
  intros Hr Hm.
  assert (E : verify_raw_certs p [ex_unpinned; ex_pinned] [(SHA2_256, 2)] = VOk).
  { unfold verify_raw_certs, verify_with, inspected. apply Z.eqb_neq in Hr. rewrite Hr, Hm.
    vm_compute. reflexivity. }
  split; [exact E|]. split; [reflexivity|]. rewrite E. vm_compute. discriminate.
Qed.

(* ---- the RSA rule: what the tree did before the repair --------------------- *)
(* six PKCS#1 v1.5 SignatureAlgorithm values only *)
Definition old_rsa_test (c : xcert) : bool := x_sig c =? 1.

(* the four witnesses of the repaired defect (fixed corpus cases of the harness):
   RSA key + RSA-PSS signature, RSA key under an ECDSA signature, each as
   presented to verifyRawCerts and to a real Dial *)
Definition corpus_rsa_pss : xcert := mkX 1 true true 2 (-3600 * SEC) (86400 * SEC).
Definition corpus_rsa_key_ecdsa_sig : xcert := mkX 1 true true 0 (-3600 * SEC) (86400 * SEC).

Lemma rsa_regression_detected_gen p c : pMaxLife p = spec_max_validity ->
  c = corpus_rsa_pss \/ c = corpus_rsa_key_ecdsa_sig ->
  verify_with old_rsa_test p [c] [(SHA2_256, 1)] = VOk /\
  monitor_verify [c] [(SHA2_256, 1)] (z_of_vres (verify_with old_rsa_test p [c] [(SHA2_256, 1)])) <> [] /\
  verify_raw_certs p [c] [(SHA2_256, 1)] = VRsa.
Proof.
  intros Hm Hc.
  assert (Hi : inspected p [c] = Some c) by (unfold inspected; destruct (pLeafLast p =? 0); reflexivity).
  assert (E : verify_with old_rsa_test p [c] [(SHA2_256, 1)] = VOk).
  { unfold verify_with. rewrite Hi, Hm. destruct Hc as [-> | ->]; vm_compute; reflexivity. }
  split; [exact E|]. split.
  - rewrite E. destruct Hc as [-> | ->]; vm_compute; discriminate.
  - unfold verify_raw_certs, verify_with. rewrite Hi. destruct Hc as [-> | ->]; vm_compute; reflexivity.
Qed.

(* ---- the dialer -------------------------------------------------------------- *)
Lemma confirm_spec sent rcvd : confirm sent rcvd = true <-> forall h, In h sent -> In h rcvd.
Proof.
  unfold confirm. rewrite forallb_forall. split; intros Hx h Hin.
  - apply mh_mem_In, Hx, Hin.
  - apply mh_mem_In, Hx, Hin.
Qed.

Lemma dial_connected_inv p chain addr dec srv :
  dial p chain addr dec srv = 0 ->
  verify_raw_certs p chain addr = VOk /\ dec = true /\ forall h, In h addr -> In h srv.
Proof.
  unfold dial. destruct (verify_raw_certs p chain addr) eqn:Ev; try discriminate.
  destruct dec; cbn [andb]; [|discriminate].
  destruct (confirm addr srv) eqn:Ec; [|discriminate].
  intros _. split; [reflexivity|]. split; [reflexivity|]. apply confirm_spec, Ec.
Qed.

Lemma monitor_dial_ok p chain addr dec srv :
  pMaxLife p <= spec_max_validity -> inspects_server_cert p chain ->
  monitor_dial chain addr dec srv (dial p chain addr dec srv) = [].
Proof.
  intros Hm Hi. unfold monitor_dial.
  destruct (Z.eqb_spec (dial p chain addr dec srv) 0) as [E|]; [|reflexivity].
  apply dial_connected_inv in E as (Hv & -> & Hc).
  rewrite (accept_diag_ok p chain addr Hm Hi Hv).
  cbn [andb]. replace (forallb (fun h => mh_mem h srv) addr) with true; [reflexivity|].
  symmetry. apply forallb_forall. intros h Hin. apply mh_mem_In, Hc, Hin.
Qed.

(* a verifier that inspects the first certificate refuses that chain *)
Lemma first_cert_verifier_refuses_unpinned_chain p : pLeafLast p = 0 ->
  verify_raw_certs p [ex_unpinned; ex_pinned] [(SHA2_256, 2)] = VMismatch.
Proof.
  intros Hr. unfold verify_raw_certs, verify_with, inspected. rewrite Hr. vm_compute. reflexivity.
Qed.

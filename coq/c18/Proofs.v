(* C18 — lemmas.  Part 1: the certificate manager on an exact clock. *)
From Coq Require Import List ZArith Bool Lia.
From Verif Require Import lib.Wire c18.Model c18.Spec.
Import ListNotations.
Local Open Scope Z_scope.

(* ---- well-formed parameters ---------------------------------------------- *)
Definition wf (p : params) : Prop :=
  0 < pS p /\ 0 < pP p /\ (SEC | pV p) /\ (SEC | pS p).

(* a key offset: non-negative whole seconds *)
Definition wfoff (off : Z) : Prop := 0 <= off /\ (SEC | off).

Lemma MS_div_SEC : (MS | SEC).
Proof. exists 1000. reflexivity. Qed.

Lemma div_MS x : (SEC | x) -> (MS | x).
Proof. intros Hx. eapply Z.divide_trans; [apply MS_div_SEC | exact Hx]. Qed.

Lemma quot_MS x : (MS | x) -> Z.quot x MS * MS = x.
Proof. intros [q ->]. rewrite Z.quot_mul; [reflexivity | unfold MS; lia]. Qed.

Lemma sec_floor_id x : (SEC | x) -> sec_floor x = x.
Proof. intros [q ->]. unfold sec_floor. rewrite Z.div_mul; [reflexivity | unfold SEC; lia]. Qed.

Lemma wf_P_div p : wf p -> (SEC | pP p).
Proof.
  intros (_ & _ & HV & HS). unfold pP. apply Z.divide_sub_r; [exact HV|].
  apply Z.divide_mul_r. exact HS.
Qed.

Lemma key_offset_wf p b0 b1 :
  wf p -> 0 <= b0 -> 0 <= b1 -> wfoff (key_offset p b0 b1) /\ key_offset p b0 b1 < pV p.
Proof.
  intros Hwf H0 H1. pose proof Hwf as (HS & HP & HV & HSd).
  assert (HVpos : 0 < pV p) by (unfold pP in HP; lia).
  unfold key_offset. set (a := (b0 + 256 * b1) * MINUTE).
  assert (Ha : 0 <= a) by (unfold a, MINUTE, SEC; lia).
  split; [split|].
  - apply Z.rem_nonneg; lia.
  - rewrite Z.rem_eq by lia. apply Z.divide_sub_r.
    + unfold a, MINUTE. exists ((b0 + 256 * b1) * 60). ring.
    + apply Z.divide_mul_l. exact HV.
  - apply Z.rem_bound_pos; lia.
Qed.

Section Manager.
  Variable p : params.
  Variable off : Z.
  Hypothesis Hwf : wf p.
  Hypothesis Hoff : wfoff off.

  Let V := pV p.
  Let S := pS p.
  Let P := pP p.

  (* start of bucket number c of this key *)
  Definition grid (c : Z) : Z := off + c * pP p.

  Definition cfg_at (c : Z) : cfg :=
    mkCfg (grid c) (grid c + pV p) (grid c) (grid c + pV p).

  Definition mgr_at (c : Z) (hl : bool) : mgr :=
    let l := if hl then Some (cfg_at (c - 1)) else None in
    mkMgr l (cfg_at c) (cfg_at (c + 1))
          ((match l with Some a => [a] | None => [] end) ++ [cfg_at c; cfg_at (c + 1)])
          [cfg_at c; cfg_at (c + 1)]
          (grid c + pV p - pS p).

  (* "served now": valid for the skew already, timer (End - skew) not yet due *)
  Definition bounds (c t : Z) : Prop :=
    0 <= c /\ grid c + pS p <= t /\ t < grid c + pV p - pS p.

  Lemma grid_div c : (SEC | grid c).
  Proof.
    unfold grid. apply Z.divide_add_r; [apply Hoff|].
    apply Z.divide_mul_r. apply wf_P_div, Hwf.
  Qed.

  Lemma grid_succ c : grid (c + 1) = grid c + pP p.
  Proof. unfold grid. ring. Qed.

  Lemma grid_pred c : grid (c - 1) = grid c - pP p.
  Proof. unfold grid. ring. Qed.

  Lemma new_cfg_at c : new_cfg (grid c) (grid c + pV p) = cfg_at c.
  Proof.
    unfold new_cfg, cfg_at. rewrite !sec_floor_id; [reflexivity| |].
    - apply Z.divide_add_r; [apply grid_div | apply Hwf].
    - apply grid_div.
  Qed.

  Lemma bounds_unique c c' t : bounds c t -> bounds c' t -> c = c'.
  Proof.
    unfold bounds, grid, pP. intros (H0 & H1 & H2) (H0' & H1' & H2').
    destruct Hwf as (HS & HP & _). unfold pP in HP.
    assert (pP p = pV p - 2 * pS p) by reflexivity.
    nia.
  Qed.

  (* getCurrentBucketStartTime is the floor onto the key's grid *)
  Lemma bucket_bounds n : off <= n ->
    exists c, 0 <= c /\ bucket_start p n off = grid c /\ grid c <= n < grid c + pP p.
  Proof.
    intros Hn. destruct Hwf as (HS & HP & HVd & HSd). destruct Hoff as (Ho0 & Hod).
    pose proof (quot_MS _ (div_MS _ (wf_P_div p Hwf))) as EP.
    pose proof (quot_MS _ (div_MS _ Hod)) as EO.
    unfold bucket_start. set (pms := Z.quot (pP p) MS) in *. set (offms := Z.quot off MS) in *.
    assert (Hpms : 0 < pms) by (unfold MS in *; nia).
    assert (Hx : 0 <= n / MS - offms).
    { assert (offms <= n / MS); [|lia]. apply Z.div_le_lower_bound; unfold MS in *; lia. }
    rewrite (Z.quot_div_nonneg (n / MS - offms) pms) by lia.
    set (x := n / MS - offms) in *. set (c := x / pms).
    exists c. split; [apply Z.div_pos; lia|].
    assert (Eg : (offms + c * pms) * MS = grid c) by (unfold grid; rewrite <- EP, <- EO; ring).
    split; [exact Eg|]. rewrite <- Eg.
    pose proof (Z.div_mod x pms ltac:(lia)) as Dx. pose proof (Z.mod_pos_bound x pms Hpms) as Bx.
    fold c in Dx. remember (pms * c) as u eqn:Eu. remember (x mod pms) as r.
    assert (MS_pos : 0 < MS) by (unfold MS; lia).
    pose proof (Z.div_mod n MS ltac:(lia)) as Dn. pose proof (Z.mod_pos_bound n MS MS_pos) as Bn.
    remember (n mod MS) as r2. remember (n / MS) as nd.
    replace (c * pms) with u by lia.
    rewrite <- EP. unfold MS in *. nia.
  Qed.

  (* newCertManager at an instant of the domain *)
  Lemma init_at now : off + pS p <= now ->
    exists c, init p off now = mgr_at c false /\ bounds c now.
  Proof.
    intros Hn. destruct (bucket_bounds (now - pS p) ltac:(lia)) as (c & Hc0 & Eb & Hlo & Hhi).
    exists c. split.
    - unfold init. rewrite Eb. rewrite new_cfg_at. unfold rolled, mk_mgr, mgr_at.
      cbn [c_end cfg_at].
      replace (grid c + pV p - 2 * pS p) with (grid (c + 1)) by (rewrite grid_succ; unfold pP; lia).
      rewrite new_cfg_at. f_equal. lia.
    - unfold bounds. unfold pP in Hhi. lia.
  Qed.

  (* the timer fires *)
  Lemma fire_at c hl : fire p (mgr_at c hl) = mgr_at (c + 1) true.
  Proof.
    unfold fire, rolled, mk_mgr. cbn [m_cur m_next m_timer mgr_at c_end cfg_at].
    replace (grid (c + 1) + pV p - 2 * pS p) with (grid (c + 1 + 1)) by (rewrite !grid_succ; unfold pP; lia).
    rewrite new_cfg_at. unfold mgr_at. replace (c + 1 - 1) with c by lia. f_equal. lia.
  Qed.

  (* mock.Add up to [target] *)
  Lemma adv_loop_at fuel : forall c hl now target,
    bounds c now -> now <= target ->
    target - (grid c + pV p - pS p) < Z.of_nat fuel * pP p ->
    exists c' hl', adv_loop p fuel (mgr_at c hl) target = mgr_at c' hl' /\ bounds c' target /\
                   c <= c' /\ (target - now <= pP p -> c' <= c + 1) /\
                   (c' = c -> hl' = hl) /\ (c < c' -> hl' = true).
  Proof.
    destruct Hwf as (HS & HP & _).
    induction fuel as [|f IH]; intros c hl now target Hb Hle Hf.
    - exists c, hl. cbn [adv_loop]. unfold bounds in *. repeat split; try lia; auto.
    - cbn [adv_loop]. cbn [m_timer mgr_at].
      destruct (Z.leb_spec (grid c + pV p - pS p) target) as [Hdue|Hnot].
      + rewrite fire_at.
        destruct (IH (c + 1) true (grid c + pV p - pS p) target) as (c' & hl' & E & Hb' & Hc' & Hstep & Hsame & Hup).
        * unfold bounds in *. rewrite grid_succ. unfold pP in *. lia.
        * lia.
        * rewrite grid_succ. lia.
        * exists c', hl'. split; [exact E|]. split; [exact Hb'|]. split; [lia|]. split; [|split].
          -- intros Hd. unfold bounds in Hb, Hb'. destruct Hb' as (_ & Hb1 & Hb2).
             assert (grid c' = grid c + (c' - c) * pP p) by (unfold grid; ring).
             unfold pP in *. nia.
          -- intros ->. lia.
          -- intros Hlt. assert (c' = c + 1 \/ c + 1 < c') as [Ec | Hgt] by lia; [apply Hsame, Ec | apply Hup, Hgt].
      + exists c, hl. unfold bounds in *. repeat split; try lia; auto.
  Qed.

  Lemma adv_fuel_enough d : 0 <= d -> d < Z.of_nat (adv_fuel p d) * pP p.
  Proof.
    intros Hd. destruct Hwf as (_ & HP & _). unfold adv_fuel.
    rewrite Nat2Z.inj_succ, Z2Nat.id by (apply Z.div_pos; lia).
    pose proof (Z.div_mod d (pP p) ltac:(lia)). pose proof (Z.mod_pos_bound d (pP p) HP). nia.
  Qed.

  Lemma step_adv_at c hl now d : bounds c now -> 0 <= d ->
    exists c' hl', adv_loop p (adv_fuel p d) (mgr_at c hl) (now + d) = mgr_at c' hl' /\
                   bounds c' (now + d) /\ c <= c' /\ (d <= pP p -> c' <= c + 1) /\
                   (c' = c -> hl' = hl) /\ (c < c' -> hl' = true).
  Proof.
    intros Hb Hd.
    destruct (adv_loop_at (adv_fuel p d) c hl now (now + d) Hb ltac:(lia)) as (c' & hl' & E & Hb' & Hc & Hs & Hsame & Hup).
    - pose proof (adv_fuel_enough d Hd). unfold bounds in Hb. lia.
    - exists c', hl'. split; [exact E | split; [exact Hb' | split; [exact Hc | split; [intros; apply Hs; lia | split; assumption]]]].
  Qed.

  (* a restart (or a second manager) at an instant where a manager serves
     bucket c starts in the same bucket *)
  Lemma init_same_bucket c now : bounds c now -> init p off now = mgr_at c false.
  Proof.
    intros Hb. assert (Hn : off + pS p <= now).
    { destruct Hwf as (_ & HP & _). unfold bounds, grid in Hb. nia. }
    destruct (init_at now Hn) as (c' & E & Hb'). rewrite E.
    rewrite (bounds_unique c' c now Hb' Hb). reflexivity.
  Qed.

  (* ---- reachability ------------------------------------------------------ *)
  Definition op_ok (o : op) : Prop := match o with Adv d => 0 <= d | _ => True end.
  Definition op_small (o : op) : Prop := match o with Adv d => 0 <= d <= pP p | _ => True end.

  Definition winv (w : world) : Prop := exists c hl, w_mgr w = mgr_at c hl /\ bounds c (w_now w).

  Lemma start_winv t0 : off + pS p <= t0 -> winv (start_world p off t0).
  Proof.
    intros Ht. destruct (init_at t0 Ht) as (c & E & Hb). exists c, false. split; assumption.
  Qed.

  Lemma step_winv w o : winv w -> op_ok o -> winv (step p off w o).
  Proof.
    intros (c & hl & E & Hb) Ho. destruct o as [d | | | s e]; cbn [step op_ok] in *.
    - rewrite E. destruct (step_adv_at c hl (w_now w) d Hb Ho) as (c' & hl' & E' & Hb' & _).
      exists c', hl'. split; assumption.
    - exists c, false. split; [apply init_same_bucket|]; assumption.
    - exists c, hl. split; assumption.
    - exists c, hl. split; assumption.
  Qed.

  Lemma run_winv ops : forall w, winv w -> Forall op_ok ops -> winv (run p off w ops).
  Proof.
    induction ops as [|o r IH]; intros w Hw Hf; [exact Hw|].
    inversion Hf; subst. unfold run. cbn [fold_left]. apply IH; [apply step_winv|]; assumption.
  Qed.
End Manager.

(* ---- state-level consequences (every history of the domain) ---------------- *)
Definition history_ok (p : params) (off t0 : Z) (ops : list op) : Prop :=
  wf p /\ wfoff off /\ off + pS p <= t0 /\ Forall op_ok ops.

Lemma reach_winv p off t0 ops : history_ok p off t0 ops ->
  winv p off (run p off (start_world p off t0) ops).
Proof.
  intros (Hwf & Hoff & Ht & Hops). apply run_winv; try assumption. apply start_winv; assumption.
Qed.

Lemma served_valid_l p off t0 ops : history_ok p off t0 ops ->
  let w := run p off (start_world p off t0) ops in
  let c := served (w_mgr w) in
  c_start c + pS p <= w_now w /\ w_now w + pS p < c_end c /\ c_end c - c_start c = pV p.
Proof.
  intros Hh. destruct (reach_winv _ _ _ _ Hh) as (c & hl & E & (_ & H1 & H2)).
  cbv zeta. rewrite E. unfold served. cbn [m_cur mgr_at cfg_at c_start c_end]. lia.
Qed.

Lemma advertised_l p off t0 ops : history_ok p off t0 ops ->
  let m := w_mgr (run p off (start_world p off t0) ops) in
  In (served m) (m_addr m) /\ In (m_next m) (m_addr m) /\
  In (served m) (m_ser m) /\ In (m_next m) (m_ser m) /\
  (forall l, m_last m = Some l -> In l (m_ser m)).
Proof.
  intros Hh. destruct (reach_winv _ _ _ _ Hh) as (c & hl & E & _).
  cbv zeta. rewrite E. unfold served. cbn [m_cur m_next m_addr m_ser m_last mgr_at].
  repeat split; try (cbn; tauto).
  - apply in_or_app. right. cbn. tauto.
  - apply in_or_app. right. cbn. tauto.
  - intros l Hl. apply in_or_app. left. destruct hl; inversion Hl. cbn. tauto.
Qed.

(* the served certificate is a function of the key's offset and the instant
   alone: the bucket containing now - skew; independent of the start instant,
   of the number of rollovers and of restarts *)
Lemma served_closed_form_l p off t0 ops : history_ok p off t0 ops ->
  let w := run p off (start_world p off t0) ops in
  let s := bucket_start p (w_now w - pS p) off in
  served (w_mgr w) = mkCfg s (s + pV p) s (s + pV p) /\
  m_cur (init p off (w_now w)) = served (w_mgr w) /\
  m_next (init p off (w_now w)) = m_next (w_mgr w) /\
  m_addr (init p off (w_now w)) = m_addr (w_mgr w).
Proof.
  intros Hh. pose proof Hh as (Hwf & Hoff & _). destruct (reach_winv _ _ _ _ Hh) as (c & hl & E & Hb).
  cbv zeta. pose proof (init_same_bucket p off Hwf Hoff c _ Hb) as Ei.
  rewrite Ei, E. unfold served. cbn [m_cur m_next m_addr mgr_at]. repeat split.
  assert (Hn : off <= w_now (run p off (start_world p off t0) ops) - pS p).
  { destruct Hwf as (_ & HP & _). destruct Hb as (H0 & H1 & _). unfold grid in H1. nia. }
  destruct (bucket_bounds p off Hwf Hoff _ Hn) as (c' & Hc0 & Eb & Hlo & Hhi).
  rewrite Eb. assert (c' = c); [|subst; reflexivity].
  apply (bounds_unique p off Hwf c' c (w_now (run p off (start_world p off t0) ops))); [|exact Hb].
  unfold bounds. unfold pP in Hhi. lia.
Qed.

(* ---- an address learned at any time survives the following period ---------- *)
Lemma run_app p off w a b : run p off w (a ++ b) = run p off (run p off w a) b.
Proof. unfold run. apply fold_left_app. Qed.

Lemma step_now_mono p off w o : op_ok o -> w_now w <= w_now (step p off w o).
Proof. destruct o; cbn [step op_ok w_now]; lia. Qed.

Lemma run_now_mono p off ops : forall w, Forall op_ok ops -> w_now w <= w_now (run p off w ops).
Proof.
  induction ops as [|o r IH]; intros w Hf; [cbn; lia|].
  inversion Hf; subst. unfold run. cbn [fold_left].
  etransitivity; [apply (step_now_mono p off w o); assumption|]. apply IH. assumption.
Qed.

Lemma address_survives_l p off t0 ops1 ops2 : history_ok p off t0 (ops1 ++ ops2) ->
  let w1 := run p off (start_world p off t0) ops1 in
  let w2 := run p off w1 ops2 in
  w_now w2 < c_end (served (w_mgr w1)) - pS p + pP p ->
  In (served (w_mgr w2)) (m_addr (w_mgr w1)) /\ In (served (w_mgr w2)) (m_ser (w_mgr w1)) /\
  (served (w_mgr w2) = served (w_mgr w1) \/ served (w_mgr w2) = m_next (w_mgr w1)).
Proof.
  intros (Hwf & Hoff & Ht & Hops). apply Forall_app in Hops as [Ho1 Ho2]. cbv zeta.
  set (w1 := run p off (start_world p off t0) ops1).
  assert (Hw1 : winv p off w1) by (apply run_winv; try assumption; apply start_winv; assumption).
  assert (Hw2 : winv p off (run p off w1 ops2)) by (apply run_winv; assumption).
  pose proof (run_now_mono p off ops2 w1 Ho2) as Hmono.
  destruct Hw1 as (c & hl & E1 & (Hc0 & B1 & B2)). destruct Hw2 as (c' & hl' & E2 & (Hc0' & B1' & B2')).
  rewrite E1, E2. unfold served. cbn [m_cur m_next m_addr m_ser mgr_at cfg_at c_end]. intros Hlt.
  destruct Hwf as (HS & HP & _).
  assert (Hg : grid p off c' = grid p off c + (c' - c) * pP p) by (unfold grid; ring).
  assert (c' = c \/ c' = c + 1) as [-> | ->] by (unfold pP in *; nia).
  - split; [cbn; tauto|]. split; [apply in_or_app; right; cbn; tauto|]. left. reflexivity.
  - split; [cbn; tauto|]. split; [apply in_or_app; right; cbn; tauto|]. right. reflexivity.
Qed.

(* C18 — property theorems only. *)
From Coq Require Import List ZArith Bool Lia.
From Verif Require Import lib.Wire c18.Model c18.Spec c18.Proofs c18.Proofs_verify gen.Consts_c18.
Import ListNotations.
Local Open Scope Z_scope.

Theorem c18_served_valid_with_skew : forall p off t0 ops, history_ok p off t0 ops ->
  let w := run p off (start_world p off t0) ops in
  let c := served (w_mgr w) in
  c_start c + pS p <= w_now w /\ w_now w + pS p < c_end c /\ c_end c - c_start c = pV p.
Proof. exact served_valid_l. Qed.
Print Assumptions c18_served_valid_with_skew.

(* C18 — property theorems only.  Each is closed by [exact]/[apply] of lemmas
   from Proofs*.v and followed by Print Assumptions.

   Vocabulary: [p] = (certValidity, clockSkewAllowance, verifier bound);
   [cparams] = the values in /repo now (gen/Consts_c18.v, regenerated each run);
   [off] = the key's bucket offset; instants are ns since the epoch;
   [history_ok p off t0 ops]: well-formed parameters, the manager is created at
   t0 >= off + skew (any wall clock after 1970-01-15T01:00Z) and then sees any
   finite sequence of clock advances (any d >= 0, hence any number of rollovers
   with the timer firing exactly at End - skew), restarts, second managers and
   regenerations. *)
From Coq Require Import List ZArith Bool Lia.
From Verif Require Import lib.Wire c18.Model c18.Spec c18.Proofs c18.Proofs_verify c18.Proofs_trace gen.Consts_c18.
Import ListNotations.
Local Open Scope Z_scope.

(* regenerated obligation: the constants in /repo are whole seconds, the skew
   is positive, two skews fit into the validity, the validity is at most the
   14 days of the property and the verifier's bound IS 14 days *)
Theorem c18_consts_wf :
  wf cparams /\ pV cparams <= spec_max_validity /\ pMaxLife cparams = spec_max_validity.
Proof.
  unfold wf. repeat split; try (vm_compute; congruence).
  - apply Z.mod_divide; [discriminate | vm_compute; reflexivity].
  - apply Z.mod_divide; [discriminate | vm_compute; reflexivity].
Qed.
Print Assumptions c18_consts_wf.

(* THE property on timelines: the monitor that is run on the implementation's
   observations accepts every trace of the model — for every key offset, every
   start instant of the domain, every sequence of clock steps of at most one
   period each (the harness contract that no period goes unsampled; any number
   of them, hence any number of rollovers), restarts, second managers and
   regenerated certificates.  Clauses checked at every sample: served
   certificate valid for >= skew before and after, validity <= 14 days, both
   advertised lists contain the served hash and the hash of whatever is served
   at any later sample of the current or following period, a freshly started
   manager serves what the running one serves, equal (start, end) means equal
   certificate, and (clause 9) every hash of an address given out by a manager
   is in the list that same manager sends in the handshake at every later sample
   of the current and the following period (so a dial with that address
   completes: this is why lastConfig is kept). *)
Theorem c18_manager_trace_holds : forall H p off t0 ops,
  wf p -> wfoff off -> pV p <= spec_max_validity ->
  (forall a b, H a (a + pV p) = H b (b + pV p) -> a = b) ->
  off + pS p <= t0 -> Forall (op_small p) ops ->
  monitor_mgr (pS p) (model_events H p off t0 ops) = [] /\
  events_wf (pP p) (model_events H p off t0 ops) = true.
Proof.
  intros H p off t0 ops Hwf Hoff HV Hinj Ht Hops. split.
  - exact (monitor_mgr_model H p off Hwf Hoff Hinj HV t0 ops Ht Hops).
  - exact (model_events_wf H p off t0 ops Hops).
Qed.
Print Assumptions c18_manager_trace_holds.

(* the same, for the constants now in /repo and an offset derived from the
   first two public-key bytes exactly as init does: this is literally the
   branch of monitor_case taken for a kind-1 case *)
Theorem c18_monitor_case_accepts_model : forall H b0 b1 t0 ops,
  (forall a b, H a (a + pV cparams) = H b (b + pV cparams) -> a = b) ->
  in_domain cparams b0 b1 t0 = true -> Forall (op_small cparams) ops ->
  let evs := model_events H cparams (key_offset cparams b0 b1) t0 ops in
  (if in_domain cparams b0 b1 t0 && events_wf (pP cparams) evs
   then monitor_mgr (pS cparams) evs else [ERR_MALFORMED; 1]) = [].
Proof.
  intros H b0 b1 t0 ops Hinj Hd Hops. cbv zeta. rewrite Hd.
  destruct c18_consts_wf as (Hwf & HV & _).
  unfold in_domain in Hd. repeat (apply andb_true_iff in Hd as [Hd ?]).
  assert (Hoff : wfoff (key_offset cparams b0 b1)) by (apply key_offset_wf; [exact Hwf | lia | lia]).
  destruct (c18_manager_trace_holds H cparams _ t0 ops Hwf Hoff HV Hinj ltac:(lia) Hops) as [E1 E2].
  rewrite E2. exact E1.
Qed.
Print Assumptions c18_monitor_case_accepts_model.

(* sentence 1a: at every instant the served certificate has been valid for at
   least the skew allowance and stays valid for (more than) that long; its
   validity period is exactly certValidity *)
Theorem c18_served_valid_with_skew : forall p off t0 ops, history_ok p off t0 ops ->
  let w := run p off (start_world p off t0) ops in
  let c := served (w_mgr w) in
  c_start c + pS p <= w_now w /\ w_now w + pS p < c_end c /\ c_end c - c_start c = pV p.
Proof. exact served_valid_l. Qed.
Print Assumptions c18_served_valid_with_skew.

(* sentence 1b: ... whose validity period does not exceed 14 days (for the
   constants in /repo now) *)
Theorem c18_validity_at_most_14d : forall off t0 ops, history_ok cparams off t0 ops ->
  let c := served (w_mgr (run cparams off (start_world cparams off t0) ops)) in
  c_end c - c_start c <= spec_max_validity.
Proof.
  intros off t0 ops Hh. cbv zeta. destruct (served_valid_l _ _ _ _ Hh) as (_ & _ & E).
  rewrite E. apply c18_consts_wf.
Qed.
Print Assumptions c18_validity_at_most_14d.

(* sentence 1c: the advertised hashes (address component and early-data list)
   always contain the served certificate and the next one; the early-data list
   also keeps the previous one *)
Theorem c18_advertised_contains_current_and_next : forall p off t0 ops, history_ok p off t0 ops ->
  let m := w_mgr (run p off (start_world p off t0) ops) in
  In (served m) (m_addr m) /\ In (m_next m) (m_addr m) /\
  In (served m) (m_ser m) /\ In (m_next m) (m_ser m) /\
  (forall l, m_last m = Some l -> In l (m_ser m)).
Proof. exact advertised_l. Qed.
Print Assumptions c18_advertised_contains_current_and_next.

(* sentence 1d: an address (or early-data list) read at any instant contains
   the certificate served at every later instant up to the end of the
   FOLLOWING certificate period (= End - skew + one period), whatever happens
   in between (rollover, restarts) *)
Theorem c18_address_survives_two_periods : forall p off t0 ops1 ops2,
  history_ok p off t0 (ops1 ++ ops2) ->
  let w1 := run p off (start_world p off t0) ops1 in
  let w2 := run p off w1 ops2 in
  w_now w2 < c_end (served (w_mgr w1)) - pS p + pP p ->
  In (served (w_mgr w2)) (m_addr (w_mgr w1)) /\ In (served (w_mgr w2)) (m_ser (w_mgr w1)) /\
  (served (w_mgr w2) = served (w_mgr w1) \/ served (w_mgr w2) = m_next (w_mgr w1)).
Proof. exact address_survives_l. Qed.
Print Assumptions c18_address_survives_two_periods.

(* sentence 1e: certificates are a deterministic function of the host key and
   the time bucket: after ANY history the served certificate is the one of the
   bucket containing now - skew (a closed form that mentions neither the start
   instant nor the rollovers nor the restarts), and a manager started now serves
   and advertises exactly the same *)
Theorem c18_cert_is_function_of_key_and_bucket : forall p off t0 ops, history_ok p off t0 ops ->
  let w := run p off (start_world p off t0) ops in
  let s := bucket_start p (w_now w - pS p) off in
  served (w_mgr w) = mkCfg s (s + pV p) s (s + pV p) /\
  m_cur (init p off (w_now w)) = served (w_mgr w) /\
  m_next (init p off (w_now w)) = m_next (w_mgr w) /\
  m_addr (init p off (w_now w)) = m_addr (w_mgr w).
Proof. exact served_closed_form_l. Qed.
Print Assumptions c18_cert_is_function_of_key_and_bucket.

(* consequence for a dialer holding an address learned while bucket c was
   served, dialing while c or c+1 is served by a manager that was not
   restarted since: the served certificate is pinned by the address and every
   hash of the address is confirmed by the server's early data (the reason
   lastConfig is kept).  After a restart inside bucket c+1 the early-data list
   no longer holds bucket c's hash: see the manifest's level_note. *)
Theorem c18_learned_address_confirmed : forall H p off c hl c' hl',
  wf p -> c <= c' <= c + 1 -> (c' = c + 1 -> hl' = true) ->
  let addr := hashes_of H (m_addr (mgr_at p off c hl)) in
  advertises addr (Hc H p off c') = true /\
  confirm addr (hashes_of H (m_ser (mgr_at p off c' hl'))) = true.
Proof. intros H p off c hl c' hl' _. exact (learned_address_confirmed H p off c hl c' hl'). Qed.
Print Assumptions c18_learned_address_confirmed.

(* the same end to end (clause 17 of the dial monitor): a dial at any instant
   [now] at which bucket c' is served by a manager that was not restarted, with
   the certhashes its address carried while bucket c = c' or c' - 1 was served,
   passes the certificate check (pinned, parseable, ECDSA, validity = certValidity,
   valid now with the skew to spare) and the confirmation, i.e. completes; and
   the monitor for such dials accepts the model's answer *)
Theorem c18_learned_address_dial_completes : forall H off c hl c' hl' now,
  wfoff off -> (forall a b, H a (a + pV cparams) = H b (b + pV cparams) -> a = b) ->
  bounds cparams off c' now -> c <= c' <= c + 1 -> (c' = c + 1 -> hl' = true) ->
  let x := served_xcert H cparams off c' now in
  let addr := hashes_of H (m_addr (mgr_at cparams off c hl)) in
  let srv := hashes_of H (m_ser (mgr_at cparams off c' hl')) in
  dial cparams [x] addr true srv = 0 /\ monitor_genuine_dial [x] addr true srv (dial cparams [x] addr true srv) = [].
Proof.
  intros H off c hl c' hl' now Hoff Hinj Hb Hk Hhl. destruct c18_consts_wf as (Hwf & HV & HM).
  apply learned_dial_completes; try assumption; rewrite HM; try exact HV; lia.
Qed.
Print Assumptions c18_learned_address_dial_completes.

(* sentence 2a, about the certificate the verifier inspects — complete,
   including "not RSA" (RSA public key, or any of the nine RSA signature
   algorithms, PKCS#1 v1.5 and PSS): whenever verifyRawCerts accepts, the
   inspected certificate parses, its SHA-256 under the sha2-256 code is in the
   dialed address, it is not RSA, valid for at most 14 days, and
   NotBefore <= now <= NotAfter.  Every chain, every hash list, no hypothesis. *)
Theorem c18_verify_sound : forall chain hashes,
  verify_raw_certs cparams chain hashes = VOk ->
  exists c, inspected cparams chain = Some c /\ In (SHA2_256, x_hash c) hashes /\ x_parse c = true /\
            is_rsa c = false /\ x_na c - x_nb c <= spec_max_validity /\ x_nb c <= 0 <= x_na c.
Proof.
  intros chain hashes Hv. destruct c18_consts_wf as (_ & _ & HM).
  destruct (verify_ok_inv _ _ _ Hv) as (c & E & Ha & Hp & Hs & Hl & Hb).
  exists c. split; [exact E|]. split; [apply mh_mem_In; exact Ha|]. split; [exact Hp|].
  split; [exact Hs|]. rewrite <- HM. split; assumption.
Qed.
Print Assumptions c18_verify_sound.

(* a regression of the RSA rule is detected: with the test the tree had before
   the repair (six PKCS#1 v1.5 SignatureAlgorithm values only) the two
   certificate shapes of the repaired defect are accepted and the monitor
   rejects that acceptance; the repaired model answers "cert uses RSA".  The
   harness presents these shapes to the real verifier and to a real Dial on
   every run (corpus.* counters; they must be refused). *)
Theorem c18_rsa_regression_detected : forall c,
  c = corpus_rsa_pss \/ c = corpus_rsa_key_ecdsa_sig ->
  verify_with old_rsa_test cparams [c] [(SHA2_256, 1)] = VOk /\
  monitor_verify [c] [(SHA2_256, 1)] (z_of_vres (verify_with old_rsa_test cparams [c] [(SHA2_256, 1)])) <> [] /\
  verify_raw_certs cparams [c] [(SHA2_256, 1)] = VRsa.
Proof. intros c Hc. apply rsa_regression_detected_gen; [apply c18_consts_wf | exact Hc]. Qed.
Print Assumptions c18_rsa_regression_detected.

(* regenerated obligation: verifyRawCerts inspects rawCerts[0] (the index is
   re-read from crypto.go on every run into gen/Consts_c18.v).  If the source
   goes back to rawCerts[len(rawCerts)-1] this proof, and with it the two
   theorems below, no longer checks. *)
Theorem c18_verifier_inspects_first : pLeafLast cparams = 0.
Proof. vm_compute. reflexivity. Qed.
Print Assumptions c18_verifier_inspects_first.

(* sentence 2a, about WHICH certificate is judged: for every presented chain
   (any length) and every hash list, whenever the verifier accepts, the SERVER
   certificate — the first of the chain, the one TLS authenticates — is pinned
   under the sha2-256 code, parses, is not RSA, is valid for at most 14 days and
   is currently valid; an empty chain is never accepted.  I.e. the monitor that
   is run on the implementation accepts whatever the model answers.
   No hypothesis. *)
Theorem c18_verify_server_cert : forall chain hashes,
  monitor_verify chain hashes (z_of_vres (verify_raw_certs cparams chain hashes)) = [].
Proof.
  intros chain hashes. destruct c18_consts_wf as (_ & _ & HM).
  apply monitor_verify_ok; [rewrite HM; lia | left; exact c18_verifier_inspects_first].
Qed.
Print Assumptions c18_verify_server_cert.

(* a regression of the choice of certificate is detected (non-vacuity of the
   clause above, on the parametric model): with the same constants but the LAST
   certificate of the chain inspected, [unpinned; pinned] is accepted although
   the server certificate's hash is not in the address, and the monitor rejects
   that acceptance; the current model refuses the chain.  The harness presents
   chains of two and three (first / last / all pinned, bad first certificate)
   to the real verifier and to a real Dial on every run. *)
Theorem c18_server_cert_regression_detected :
  let p1 := mkParams (pV cparams) (pS cparams) (pMaxLife cparams) 1 in
  verify_raw_certs p1 [ex_unpinned; ex_pinned] [(SHA2_256, 2)] = VOk /\
  advertises [(SHA2_256, 2)] (x_hash ex_unpinned) = false /\
  monitor_verify [ex_unpinned; ex_pinned] [(SHA2_256, 2)]
    (z_of_vres (verify_raw_certs p1 [ex_unpinned; ex_pinned] [(SHA2_256, 2)])) <> [] /\
  verify_raw_certs cparams [ex_unpinned; ex_pinned] [(SHA2_256, 2)] = VMismatch.
Proof.
  cbv zeta. destruct c18_consts_wf as (_ & _ & HM).
  destruct (last_cert_verifier_accepts_unpinned_chain
              (mkParams (pV cparams) (pS cparams) (pMaxLife cparams) 1)) as (A & B & C);
    [cbn; discriminate | exact HM |].
  split; [exact A | split; [exact B | split; [exact C |]]].
  apply first_cert_verifier_refuses_unpinned_chain. exact c18_verifier_inspects_first.
Qed.
Print Assumptions c18_server_cert_regression_detected.

(* regenerated obligation: in dial(), for an address with certhashes, the
   VerifyPeerCertificate callback that is installed is exactly
   verifyRawCerts(rawCerts, certHashes) — whatever tls.Config the user supplied
   through WithTLSClientConfig — and an address without certhashes is refused
   (the source text is re-read on every run).  Model.dial relies on it. *)
Theorem c18_dial_installs_verifier : dialInstallsVerifier = 1.
Proof. vm_compute. reflexivity. Qed.
Print Assumptions c18_dial_installs_verifier.

(* sentence 2b: the dialer completes the connection only if the certificate
   check passed AND the server's early data decoded AND every hash of the
   dialed address is in it; and the dial monitor (server certificate pinned and
   within the rules, every address hash confirmed) accepts whatever the model
   answers, for every chain.  No hypothesis. *)
Theorem c18_dialer_requires_confirmation : forall chain addr dec srv,
  dialInstallsVerifier = 1 /\
  (dial cparams chain addr dec srv = 0 ->
   verify_raw_certs cparams chain addr = VOk /\ dec = true /\ forall h, In h addr -> In h srv) /\
  monitor_dial chain addr dec srv (dial cparams chain addr dec srv) = [].
Proof.
  intros chain addr dec srv. split; [exact c18_dial_installs_verifier|]. split.
  - apply dial_connected_inv.
  - destruct c18_consts_wf as (_ & _ & HM).
    apply monitor_dial_ok; [rewrite HM; lia | left; exact c18_verifier_inspects_first].
Qed.
Print Assumptions c18_dialer_requires_confirmation.

(* ---- non-vacuity --------------------------------------------------------- *)
(* the hypotheses are satisfiable: the constants are well-formed (above), a
   hash function separating buckets exists, and a concrete history with four
   rollovers, a restart and a second manager is in the domain *)
Definition ex_H (s e : Z) : Z := s.
Definition ex_ops : list op :=
  [Adv 5; Probe; Adv (pP cparams); Adv (pP cparams - 7); Restart; Adv 1; Adv (pP cparams);
   Regen 0 1; Adv (pP cparams); Probe].
Definition ex_t0 : Z := 1700000000 * SEC + 123.

Example ex_H_separates : forall a b, ex_H a (a + pV cparams) = ex_H b (b + pV cparams) -> a = b.
Proof. intros a b E. exact E. Qed.

Example ex_history_in_domain :
  history_ok cparams (key_offset cparams 57 4) ex_t0 ex_ops /\
  in_domain cparams 57 4 ex_t0 = true /\ Forall (op_small cparams) ex_ops.
Proof.
  split; [|split; [vm_compute; reflexivity|]].
  - split; [apply c18_consts_wf|]. split; [apply key_offset_wf; [apply c18_consts_wf | lia | lia]|].
    split; [vm_compute; congruence|]. repeat constructor; vm_compute; congruence.
  - repeat constructor; vm_compute; congruence.
Qed.

(* four distinct certificates are served along it *)
Example ex_four_rollovers :
  let w := run cparams (key_offset cparams 57 4) (start_world cparams (key_offset cparams 57 4) ex_t0) ex_ops in
  c_start (served (w_mgr w)) =
  c_start (m_cur (init cparams (key_offset cparams 57 4) ex_t0)) + 4 * pP cparams.
Proof. vm_compute. reflexivity. Qed.

(* the monitor rejects bad timelines: a served certificate that is within the
   last skew allowance of its life (the rollover came late) *)
Definition late (e : ev) : ev :=
  match e with
  | EAdv d (mkSnap t l c n (mkCobs s en h) ser addr) => EAdv d (mkSnap t l c n (mkCobs (s - pP cparams) (en - pP cparams) h) ser addr)
  | x => x
  end.
Example monitor_rejects_late_rollover :
  monitor_mgr (pS cparams) (map late (model_events ex_H cparams (key_offset cparams 57 4) ex_t0 ex_ops)) <> [].
Proof. vm_compute. discriminate. Qed.

(* ... an address component that lacks the next certificate *)
Definition drop_next (e : ev) : ev :=
  match e with
  | EInit (mkSnap t l c n v ser addr) => EInit (mkSnap t l c n v ser (firstn 1 addr))
  | EAdv d (mkSnap t l c n v ser addr) => EAdv d (mkSnap t l c n v ser (firstn 1 addr))
  | x => x
  end.
Example monitor_rejects_unadvertised_next :
  monitor_mgr (pS cparams) (map drop_next (model_events ex_H cparams (key_offset cparams 57 4) ex_t0 ex_ops)) <> [].
Proof. vm_compute. discriminate. Qed.

(* ... a restarted manager that serves another certificate *)
Definition other_on_restart (e : ev) : ev :=
  match e with
  | ERestart (mkSnap t l c n (mkCobs s en h) ser addr) =>
      ERestart (mkSnap t l c n (mkCobs s en (h + 1)) ser ((SHA2_256, h + 1) :: addr))
  | x => x
  end.
Example monitor_rejects_restart_with_other_cert :
  monitor_mgr (pS cparams) (map other_on_restart (model_events ex_H cparams (key_offset cparams 57 4) ex_t0 ex_ops)) <> [].
Proof. vm_compute. discriminate. Qed.

(* ... a manager that stops confirming the previous certificate's hash after a
   rollover (an address learned one period ago then fails in upgrade()) *)
Definition forget_last (e : ev) : ev :=
  match e with
  | EAdv d (mkSnap t l c n v ser addr) =>
      EAdv d (mkSnap t l c n v (if (length ser =? 3)%nat then skipn 1 ser else ser) addr)
  | x => x
  end.
Example monitor_rejects_unconfirmed_previous_hash :
  monitor_mgr (pS cparams) (map forget_last (model_events ex_H cparams (key_offset cparams 57 4) ex_t0 ex_ops)) <> [].
Proof. vm_compute. discriminate. Qed.

(* the verifier monitor rejects an accepted expired / unpinned / too long /
   RSA certificate and an empty chain; the dial monitor an unconfirmed hash *)
Example monitor_rejects_bad_accepts :
  monitor_case [2; 1; 1; 1; 0; 0; -10; -5;  1; 18; 1;  0] <> [] /\
  monitor_case [2; 1; 1; 1; 0; 0; -10; 5;   1; 18; 2;  0] <> [] /\
  monitor_case [2; 1; 1; 1; 0; 0; -10; 5;   1; 22; 1;  0] <> [] /\
  monitor_case [2; 1; 1; 1; 0; 0; -10; 1209600000000000;  1; 18; 1;  0] <> [] /\
  monitor_case [2; 1; 1; 1; 1; 1; -10; 5;   1; 18; 1;  0] <> [] /\
  monitor_case [2; 0;  1; 18; 1;  0] <> [] /\
  monitor_case [2; 1; 1; 1; 1; 2; -10; 5;   1; 18; 1;  0] <> [] /\
  monitor_case [2; 1; 1; 1; 1; 0; -10; 5;   1; 18; 1;  0] <> [] /\
  monitor_case [2; 2; 1; 1; 0; 0; -10; 5;  2; 1; 0; 0; -10; 5;   1; 18; 2;  0] <> [] /\
  monitor_case [2; 2; 1; 1; 0; 0; -10; 5;  2; 1; 0; 0; -10; 5;   1; 18; 1;  0] = [] /\
  monitor_case [2; 1; 1; 1; 0; 0; -10; 5;   1; 18; 1;  0] = [] /\
  monitor_case [3; 1; 1; 1; 0; 0; -10; 5;   2; 18; 1; 18; 2;  1;  1; 18; 1;  0] <> [] /\
  monitor_case [3; 1; 1; 1; 0; 0; -10; 5;   2; 18; 1; 18; 2;  1;  2; 18; 2; 18; 1;  0] = [] /\
  monitor_case [7; 0; 1; 1; 1; 0; 0; -10; 5;   2; 18; 1; 18; 2;  1;  2; 18; 2; 18; 1;  2] <> [] /\
  monitor_case [3; 1; 1; 1; 0; 0; -10; 5;   0;  1;  1; 18; 1;  0] <> [] /\
  monitor_case [3; 1; 1; 1; 0; 0; -10; 5;   2; 18; 1; 18; 9;  1;  3; 18; 1; 18; 1; 18; 2;  0] <> [].
Proof. vm_compute. repeat split; discriminate. Qed.

(* transport lifecycle tokens (operations on the listener's transport between two
   observations: failed Listens, listener Close, another Listen) are not events:
   the decoder drops them, so a history with them is judged exactly as the same
   observations without them *)
Example lifecycle_tokens_are_dropped : forall f code dt r,
  decode_events (S f) (5 :: code :: dt :: r) = decode_events f r.
Proof. reflexivity. Qed.

(* ... and the monitor rejects the recorded history of a real transport whose
   manager stopped rolling after a Listen that failed on a busy UDP port (the
   listener opened afterwards still serves the first certificate one and two
   periods later): clause 1 at the third observation *)
Example monitor_rejects_frozen_listener_after_failed_listen :
  monitor_case [5; 17; 127; 119783340000000000; 5; 1; 0; 0; 119783340000000000; 0; 0; 0; 0; 119779740000000000; 120989340000000000; 1; 1; 120982140000000000; 122191740000000000; 2; 119779740000000000; 120989340000000000; 1; 2; 18; 1; 18; 2; 2; 18; 1; 18; 2; 5; 5; 1202399999000000; 1; 1202399999000000; 120985739999000000; 0; 0; 0; 0; 119779740000000000; 120989340000000000; 1; 1; 120982140000000000; 122191740000000000; 2; 119779740000000000; 120989340000000000; 1; 2; 18; 1; 18; 2; 2; 18; 1; 18; 2; 1; 1202400000000000; 122188139999000000; 0; 0; 0; 0; 119779740000000000; 120989340000000000; 1; 1; 120982140000000000; 122191740000000000; 2; 119779740000000000; 120989340000000000; 1; 2; 18; 1; 18; 2; 2; 18; 1; 18; 2] <> [].
Proof. vm_compute. discriminate. Qed.

(* C18 — the property as decidable predicates over observations (monitor),
   the model replay (conform) and the wire decoding.  No proofs here.

   WIRE FORMAT (one case per line, integers; instants in ns since the epoch)

   kind 1 / kind 4 : one host key, one timeline of a certManager on a mock clock
       K b0 b1 t0 ev*          K = 1: inside the property's domain (t0 - skew >= offset,
                                      i.e. any wall clock after 1970-01-15T01:00Z)
                               K = 4: before it (conformance only: Go's truncating
                                      division in getCurrentBucketStartTime)
       b0 b1 = first two bytes of the raw public key (offset = LE uint16 minutes % validity)
       ev = 0 SNAP             newCertManager at t0 (must be the first event, only there)
          | 1 d SNAP           mock.Add(d), d >= 0, then observe
          | 2 SNAP             Close + newCertManager (same key) at the same instant
          | 3 SNAP             a second manager, same key, same instant (observed, closed)
          | 4 s e h            generateCert(key, s, e) called again: hash id h
       SNAP = t  lp ls le lh  cs ce ch  np ns ne nh  vs ve vh  k (code id)^k  j (code id)^j
              t            mock clock
              lp ls le lh  lastConfig: present?, NotBefore, NotAfter, hash id
              cs ce ch     currentConfig ;  np ns ne nh  nextConfig
              vs ve vh     GetConfig().Certificates[0].Leaf (the certificate served)
              k ...        SerializedCertHashes() decoded: multihash code, digest id
              j ...        AddrComponent() certhashes decoded
       hash / digest ids are small integers the harness assigns per distinct byte string.

   kind 6 : as kind 3 with one more leading field:  6 cfg n CERT^n ...
       cfg = how the dialing transport was built: 0 default, 1 WithTLSClientConfig
       (other fields set, no callback), 2 WithTLSClientConfig whose tls.Config
       already has a VerifyPeerCertificate that accepts everything.  The model and
       the monitor ignore cfg: the property does not depend on it.

   kind 7 : as kind 6 (7 cfg n CERT^n ...), with the harness's guarantee that the
       server is an untampered listener that has been up across >= 1 rollover and
       that the dialed certhashes are exactly those listener.Multiaddr() carried
       at an instant of the current or the previous certificate period: such a
       dial must complete (clause 17).

   kind 5 : as kind 1, but of a real LISTENER that stays open: "newCertManager" is
       transport.Listen, vs ve vh is the leaf certificate presented in a real
       QUIC/TLS handshake against the listener at that instant, j.. are the
       certhashes of listener.Multiaddr().  Same model, same monitor.

       Lifecycle tokens (listener timelines only):  5 code dt  may stand before any event:
       an operation on the transport that the next event observes, carried out dt ns
       into that event's advance (0 for the other events), before its observation:
       code = 1 Listen on a UDP port in use (fails in the QUIC layer)
            | 2 Listen on an address the transport refuses (no /webtransport, a /certhash)
            | 3 the observed listener is closed   | 4 Listen succeeds (observed from now on)
            | 5 a further listener on the same transport (the observation goes through it)
            | 6 Listen on the port of its own open listener (fails in the QUIC layer)
       They are NOT events: the decoder drops them, so model and monitor see the same
       timeline of observations as without them.  That is the content of the claim
       "a Listen that fails, and opening/closing listeners, do not touch the certificate
       manager (created once per transport)": conformance compares every observation
       with the manager of the model that knows nothing of these operations, and the
       property's clauses are judged at every observation as always.

   kind 2 : one verifyRawCerts call
       2 n CERT^n  k (code id)^k  res
       CERT = id parses pubrsa sig nb na    (see Model.xcert; nb/na relative to time.Now())
       res  = 0 nil | 1 "no cert" | 2 ErrCertHashMismatch | 3 parse error | 4 "cert uses RSA"
            | 5 too long | 6 not valid

   kind 3 : one real Dial against a real listener (loopback)
       3 n CERT^n  k (code id)^k  dec  j (code id)^j  outcome
       CERT^n = the chain the server presents; k.. = certhashes of the dialed address;
       dec = the server's early-data hashes decode; j.. = those hashes;
       outcome = 0 connected | 1 refused by the TLS certificate check | 2 refused in upgrade() *)
From Coq Require Import List ZArith Bool.
From Verif Require Import lib.Wire c18.Model gen.Consts_c18.
Import ListNotations.
Local Open Scope Z_scope.

(* the parameters as they are in /repo now (regenerated on every run) *)
Definition cparams : params := mkParams certValidity clockSkewAllowance verifyMaxLifetime verifyLeafLast.

(* the numbers the property text fixes *)
Definition spec_max_validity : Z := 14 * 24 * 3600 * SEC.

(* ---- observations --------------------------------------------------------- *)
Record cobs := mkCobs { o_s : Z; o_e : Z; o_h : Z }.

Record snap := mkSnap {
  sn_t : Z;
  sn_last : option cobs; sn_cur : cobs; sn_next : option cobs;
  sn_srv : cobs;
  sn_ser : list (Z * Z);
  sn_addr : list (Z * Z)
}.

Inductive ev :=
| EInit (s : snap) | EAdv (d : Z) (s : snap) | ERestart (s : snap) | EProbe (s : snap)
| ERegen (s e h : Z).

(* ---- the property on a timeline ------------------------------------------- *)
(* what the monitor looks at: the instant, the served certificate, the two
   advertised hash lists, and whether the sample was taken at the same
   instant as the previous one from a freshly started manager *)
(* [s_fresh]: taken from a manager started at that instant (restart or second
   manager); [s_probe]: that manager is a second one, observed once and closed
   (the long-running one goes on) *)
Record sample := mkSample {
  s_t : Z; s_srv : cobs; s_ser : list (Z * Z); s_addr : list (Z * Z); s_fresh : bool; s_probe : bool
}.

Definition sample_of (fresh probe : bool) (s : snap) : sample :=
  mkSample (sn_t s) (sn_srv s) (sn_ser s) (sn_addr s) fresh probe.

Fixpoint samples_of (l : list ev) : list sample :=
  match l with
  | [] => []
  | EInit s :: r => sample_of false false s :: samples_of r
  | EAdv _ s :: r => sample_of false false s :: samples_of r
  | ERestart s :: r => sample_of true false s :: samples_of r
  | EProbe s :: r => sample_of true true s :: samples_of r
  | ERegen _ _ _ :: r => samples_of r
  end.

Definition advertises (l : list (Z * Z)) (h : Z) : bool := mh_mem (SHA2_256, h) l.

(* clause 1: valid for at least the skew allowance, stays valid that long;
   clause 2: validity period at most 14 days;
   clauses 3/4: both advertised lists contain the served certificate's hash *)
Definition sample_diag (skew : Z) (x : sample) : list Z :=
  let c := s_srv x in
  if negb ((o_s c + skew <=? s_t x) && (s_t x + skew <=? o_e c)) then [1; s_t x - o_s c; o_e c - s_t x]
  else if negb (o_e c - o_s c <=? spec_max_validity) then [2; o_e c - o_s c]
  else if negb (advertises (s_addr x) (o_h c)) then [3; o_h c]
  else if negb (advertises (s_ser x) (o_h c)) then [4; o_h c]
  else [].

(* clauses 5/6: a hash list read at sample i contains the certificate served
   at every later sample up to the end of the FOLLOWING certificate period,
   i.e. as long as the served certificate changed at most [budget] = 1 times.
   [h] = hash of the certificate served at the previous sample looked at. *)
Fixpoint ahead_ok (l : list (Z * Z)) (h : Z) (budget : nat) (rest : list sample) : bool :=
  match rest with
  | [] => true
  | x :: r =>
      let h' := o_h (s_srv x) in
      if h' =? h then ahead_ok l h budget r
      else match budget with
           | O => true
           | S b => advertises l h' && ahead_ok l h' b r
           end
  end.

(* clause 8: a manager started at this instant serves the certificate the
   running one serves (the sample before it, taken at the same instant) *)
Definition fresh_ok (prev x : sample) : bool :=
  negb (s_fresh x) ||
  ((s_t x =? s_t prev) && (o_h (s_srv x) =? o_h (s_srv prev)) &&
   (o_s (s_srv x) =? o_s (s_srv prev)) && (o_e (s_srv x) =? o_e (s_srv prev))).

(* clause 9: an address learned from a manager (every hash of its address
   component at sample i) is CONFIRMED by that same manager — every one of those
   hashes is in the list it sends in the handshake — at every later sample up to
   the end of the following certificate period, i.e. while the served
   certificate changed at most once.  Ends at a restart (the manager that gave
   out the address is gone; a fresh one cannot know the previous certificate's
   hash is still in use); second managers are skipped.  This is what makes a
   dial with that address complete: upgrade() demands confirmation of every
   hash of the dialed address. *)
Fixpoint confirm_ahead (a : list (Z * Z)) (h : Z) (budget : nat) (rest : list sample) : bool :=
  match rest with
  | [] => true
  | y :: r =>
      if s_probe y then confirm_ahead a h budget r
      else if s_fresh y then true
      else
        let h' := o_h (s_srv y) in
        if h' =? h then confirm a (s_ser y) && confirm_ahead a h budget r
        else match budget with
             | O => true
             | S b => confirm a (s_ser y) && confirm_ahead a h' b r
             end
  end.

(* for the diagnostic only: the instant of the first later sample whose
   handshake list does not confirm the address (0 if none) *)
Fixpoint confirm_fail_t (a : list (Z * Z)) (rest : list sample) : Z :=
  match rest with
  | [] => 0
  | y :: r => if s_probe y || confirm a (s_ser y) then confirm_fail_t a r else s_t y
  end.

Fixpoint timeline_diag (skew : Z) (i : Z) (prev : option sample) (l : list sample) : list Z :=
  match l with
  | [] => []
  | x :: r =>
      match sample_diag skew x with
      | [] =>
          if negb (ahead_ok (s_addr x) (o_h (s_srv x)) 1 r) then [ERR_PROPERTY; i; 5]
          else if negb (ahead_ok (s_ser x) (o_h (s_srv x)) 1 r) then [ERR_PROPERTY; i; 6]
          else if negb (match prev with Some p => fresh_ok p x | None => negb (s_fresh x) end)
               then [ERR_PROPERTY; i; 8]
          else if negb (s_probe x || confirm_ahead (s_addr x) (o_h (s_srv x)) 1 r)
               then [ERR_PROPERTY; i; 9; s_t x; confirm_fail_t (s_addr x) r]
          else timeline_diag skew (i + 1) (Some x) r
      | d => ERR_PROPERTY :: i :: d
      end
  end.

(* clause 7: certificates are a function of (key, time bucket): within one
   history (one key) equal (start, end) means equal certificate *)
Definition triples_of (l : list ev) : list (Z * Z * Z) :=
  flat_map (fun e => match e with
                     | EInit s | EAdv _ s | ERestart s | EProbe s =>
                         [(o_s (sn_srv s), o_e (sn_srv s), o_h (sn_srv s))]
                     | ERegen s e h => [(s, e, h)]
                     end) l.

Definition triple_ok (a b : Z * Z * Z) : bool :=
  let '(s1, e1, h1) := a in let '(s2, e2, h2) := b in
  negb ((s1 =? s2) && (e1 =? e2)) || (h1 =? h2).

Definition functional (t : list (Z * Z * Z)) : bool :=
  forallb (fun a => forallb (triple_ok a) t) t.

Definition monitor_mgr (skew : Z) (l : list ev) : list Z :=
  match timeline_diag skew 0 None (samples_of l) with
  | [] => if functional (triples_of l) then [] else [ERR_PROPERTY; -1; 7]
  | d => d
  end.

(* harness contract for a kind-1 timeline: starts with EInit and only there,
   steps are 0 <= d <= one period (so no certificate period goes unsampled) *)
Definition ev_wf (maxgap : Z) (e : ev) : bool :=
  match e with
  | EInit _ => false
  | EAdv d _ => (0 <=? d) && (d <=? maxgap)
  | _ => true
  end.

Definition events_wf (maxgap : Z) (l : list ev) : bool :=
  match l with
  | EInit _ :: r => forallb (ev_wf maxgap) r
  | _ => false
  end.

(* ---- the property on one verifier call / one dial -------------------------- *)
(* "accepts a server certificate only if its SHA-256 equals one of the hashes
   in the dialed address and it meets the validity rules (not RSA, at most 14
   days, currently valid)".  The server certificate of a presented chain is its
   FIRST entry: that is the certificate whose key signs the TLS handshake
   (crypto/tls authenticates certs[0]; with InsecureSkipVerify nothing links
   the further entries to it). *)
Definition accept_diag (chain : list xcert) (hashes : list (Z * Z)) : list Z :=
  match chain with
  | [] => [ERR_PROPERTY; 10]
  | c :: _ =>
      if negb (advertises hashes (x_hash c)) then [ERR_PROPERTY; 11; x_hash c]
      else if negb (x_parse c) then [ERR_PROPERTY; 12]
      else if is_rsa c then [ERR_PROPERTY; 13; boolz (x_pubrsa c); x_sig c]
      else if negb (x_na c - x_nb c <=? spec_max_validity) then [ERR_PROPERTY; 14; x_na c - x_nb c]
      else if negb ((x_nb c <=? 0) && (0 <=? x_na c)) then [ERR_PROPERTY; 15; x_nb c; x_na c]
      else []
  end.

Definition monitor_verify (chain : list xcert) (hashes : list (Z * Z)) (res : Z) : list Z :=
  if res =? 0 then accept_diag chain hashes else [].

(* "... and completes the connection only if the server confirms, inside the
   authenticated handshake, every certificate hash the dialer relied on" *)
Definition monitor_dial (chain : list xcert) (addr : list (Z * Z)) (dec : bool)
           (srv : list (Z * Z)) (outcome : Z) : list Z :=
  if outcome =? 0 then
    match accept_diag chain addr with
    | [] => if dec && forallb (fun h => mh_mem h srv) addr then [] else [ERR_PROPERTY; 16]
    | d => d
    end
  else [].

(* clause 17 ("an address learned at any time keeps verifying through the current
   and the following certificate period", end to end): a dial against an
   UNTAMPERED listener that stayed up, with exactly the certhashes its multiaddr
   carried at some instant of the current or the previous certificate period,
   completes (and, as for every dial, only under the conditions above) *)
Definition monitor_genuine_dial (chain : list xcert) (addr : list (Z * Z)) (dec : bool)
           (srv : list (Z * Z)) (outcome : Z) : list Z :=
  match monitor_dial chain addr dec srv outcome with
  | [] => if outcome =? 0 then [] else [ERR_PROPERTY; 17; outcome]
  | d => d
  end.

(* ---- the model's own trace (what the theorems are about) ------------------- *)
Section Trace.
  Variable H : Z -> Z -> Z.       (* hash id of generateCert(key, s, e) *)
  Variable p : params.
  Variable off : Z.

  Definition cobs_of (c : cfg) : cobs := mkCobs (c_start c) (c_end c) (H (c_rs c) (c_re c)).
  Definition hashes_of (l : list cfg) : list (Z * Z) :=
    map (fun c => (SHA2_256, H (c_rs c) (c_re c))) l.

  Definition snap_of (now : Z) (m : mgr) : snap :=
    mkSnap now (option_map cobs_of (m_last m)) (cobs_of (m_cur m)) (Some (cobs_of (m_next m)))
           (cobs_of (served m)) (hashes_of (m_ser m)) (hashes_of (m_addr m)).

  Definition ev_of (w' : world) (o : op) : ev :=
    match o with
    | Adv d => EAdv d (snap_of (w_now w') (w_mgr w'))
    | Restart => ERestart (snap_of (w_now w') (w_mgr w'))
    | Probe => EProbe (snap_of (w_now w') (init p off (w_now w')))
    | Regen s e => ERegen s e (H s e)
    end.

  Fixpoint events_from (w : world) (ops : list op) : list ev :=
    match ops with
    | [] => []
    | o :: r => let w' := step p off w o in ev_of w' o :: events_from w' r
    end.

  Definition model_events (t0 : Z) (ops : list op) : list ev :=
    let w := start_world p off t0 in
    EInit (snap_of (w_now w) (w_mgr w)) :: events_from w ops.
End Trace.

(* ---- conformance: replay on the model, compare every observation ----------- *)
(* the harness numbers hashes in order of first appearance; the model knows a
   certificate by (requested start, requested end).  The two must be related by
   an injective function throughout the case. *)
Definition assoc := list (Z * Z * Z).

Fixpoint bind (a : assoc) (k1 k2 h : Z) : option assoc :=
  match a with
  | [] => Some [(k1, k2, h)]
  | (x1, x2, y) :: r =>
      if (x1 =? k1) && (x2 =? k2) then (if y =? h then Some a else None)
      else if y =? h then None
      else match bind r k1 k2 h with Some r' => Some ((x1, x2, y) :: r') | None => None end
  end.

Definition chk_cfg (a : assoc) (c : cfg) (o : cobs) : option assoc :=
  if (c_start c =? o_s o) && (c_end c =? o_e o) then bind a (c_rs c) (c_re c) (o_h o) else None.

Definition chk_ocfg (a : assoc) (c : option cfg) (o : option cobs) : option assoc :=
  match c, o with
  | None, None => Some a
  | Some c', Some o' => chk_cfg a c' o'
  | _, _ => None
  end.

Fixpoint chk_list (a : assoc) (cs : list cfg) (hs : list (Z * Z)) : option assoc :=
  match cs, hs with
  | [], [] => Some a
  | c :: cr, (code, h) :: hr =>
      if code =? SHA2_256 then
        match bind a (c_rs c) (c_re c) h with Some a' => chk_list a' cr hr | None => None end
      else None
  | _, _ => None
  end.

Definition obind {A B} (x : option A) (f : A -> option B) : option B :=
  match x with Some v => f v | None => None end.

Definition chk_snap (a : assoc) (now : Z) (m : mgr) (s : snap) : option assoc :=
  if sn_t s =? now then
    obind (chk_ocfg a (m_last m) (sn_last s)) (fun a1 =>
    obind (chk_cfg a1 (m_cur m) (sn_cur s)) (fun a2 =>
    obind (chk_ocfg a2 (Some (m_next m)) (sn_next s)) (fun a3 =>
    obind (chk_cfg a3 (served m) (sn_srv s)) (fun a4 =>
    obind (chk_list a4 (m_ser m) (sn_ser s)) (fun a5 =>
    chk_list a5 (m_addr m) (sn_addr s))))))
  else None.

Fixpoint conform_events (p : params) (off : Z) (a : assoc) (w : world) (i : Z) (l : list ev) : list Z :=
  match l with
  | [] => []
  | e :: r =>
      let '(w', res) :=
        match e with
        | EInit _ => (w, None)
        | EAdv d s => let w' := step p off w (Adv d) in (w', chk_snap a (w_now w') (w_mgr w') s)
        | ERestart s => let w' := step p off w Restart in (w', chk_snap a (w_now w') (w_mgr w') s)
        | EProbe s => (w, chk_snap a (w_now w) (init p off (w_now w)) s)
        | ERegen s e h => (w, bind a s e h)
        end in
      match res with
      | Some a' => conform_events p off a' w' (i + 1) r
      | None => [ERR_MISMATCH; i; w_now w'; c_start (m_cur (w_mgr w')); c_end (m_cur (w_mgr w'));
                 m_timer (w_mgr w')]
      end
  end.

Definition conform_mgr (p : params) (b0 b1 t0 : Z) (l : list ev) : list Z :=
  let off := key_offset p b0 b1 in
  match l with
  | EInit s :: r =>
      let w := start_world p off t0 in
      match chk_snap [] (w_now w) (w_mgr w) s with
      | Some a => conform_events p off a w 1 r
      | None => [ERR_MISMATCH; 0; w_now w; c_start (m_cur (w_mgr w)); c_end (m_cur (w_mgr w));
                 m_timer (w_mgr w)]
      end
  | _ => [ERR_MALFORMED; 10]
  end.

Definition z_of_vres (r : vres) : Z :=
  match r with VOk => 0 | VNoCert => 1 | VMismatch => 2 | VParse => 3 | VRsa => 4
             | VTooLong => 5 | VNotValid => 6 end.

(* ---- wire decoding ---------------------------------------------------------- *)
Fixpoint take_pairs (n : nat) (l : list Z) : option (list (Z * Z) * list Z) :=
  match n with
  | O => Some ([], l)
  | S k => match l with
           | c :: h :: r => match take_pairs k r with
                            | Some (ps, r') => Some ((c, h) :: ps, r')
                            | None => None end
           | _ => None
           end
  end.

Definition take_plist (l : list Z) : option (list (Z * Z) * list Z) :=
  match l with
  | n :: r => if (0 <=? n) && (n <=? 64) then take_pairs (Z.to_nat n) r else None
  | [] => None
  end.

Definition decode_snap (l : list Z) : option (snap * list Z) :=
  match l with
  | t :: lp :: ls :: le :: lh :: cs :: ce :: ch :: np :: ns :: ne :: nh :: vs :: ve :: vh :: r =>
      match take_plist r with
      | Some (ser, r1) =>
          match take_plist r1 with
          | Some (addr, r2) =>
              Some (mkSnap t (if zbool lp then Some (mkCobs ls le lh) else None) (mkCobs cs ce ch)
                           (if zbool np then Some (mkCobs ns ne nh) else None) (mkCobs vs ve vh)
                           ser addr, r2)
          | None => None
          end
      | None => None
      end
  | _ => None
  end.

Fixpoint decode_events (fuel : nat) (l : list Z) : option (list ev) :=
  match fuel with
  | O => None
  | S f =>
      match l with
      | [] => Some []
      | 0 :: r => match decode_snap r with
                  | Some (s, r') => option_map (cons (EInit s)) (decode_events f r')
                  | None => None end
      | 1 :: d :: r => match decode_snap r with
                       | Some (s, r') => option_map (cons (EAdv d s)) (decode_events f r')
                       | None => None end
      | 2 :: r => match decode_snap r with
                  | Some (s, r') => option_map (cons (ERestart s)) (decode_events f r')
                  | None => None end
      | 3 :: r => match decode_snap r with
                  | Some (s, r') => option_map (cons (EProbe s)) (decode_events f r')
                  | None => None end
      | 4 :: s :: e :: h :: r => option_map (cons (ERegen s e h)) (decode_events f r)
      | 5 :: _ :: _ :: r => decode_events f r      (* lifecycle token: not an event *)
      | _ => None
      end
  end.

Fixpoint take_certs (n : nat) (l : list Z) : option (list xcert * list Z) :=
  match n with
  | O => Some ([], l)
  | S k => match l with
           | id :: pa :: pr :: sg :: nb :: na :: r =>
               match take_certs k r with
               | Some (cs, r') => Some (mkX id (zbool pa) (zbool pr) sg nb na :: cs, r')
               | None => None end
           | _ => None
           end
  end.

Definition take_chain (l : list Z) : option (list xcert * list Z) :=
  match l with
  | n :: r => if (0 <=? n) && (n <=? 8) then take_certs (Z.to_nat n) r else None
  | [] => None
  end.

Inductive dcase :=
| DMgr (indomain : bool) (b0 b1 t0 : Z) (l : list ev)
| DVerify (chain : list xcert) (hashes : list (Z * Z)) (res : Z)
| DDial (genuine : bool) (chain : list xcert) (addr : list (Z * Z)) (dec : bool) (srv : list (Z * Z)) (outcome : Z).

Definition decode_dial (genuine : bool) (r : list Z) : option dcase :=
  match take_chain r with
  | Some (ch, r1) =>
      match take_plist r1 with
      | Some (ad, dec :: r2) =>
          match take_plist r2 with
          | Some (sv, [outcome]) => Some (DDial genuine ch ad (zbool dec) sv outcome)
          | _ => None end
      | _ => None
      end
  | None => None
  end.

Definition decode_case (l : list Z) : option dcase :=
  match l with
  | 1 :: b0 :: b1 :: t0 :: r =>
      option_map (DMgr true b0 b1 t0) (decode_events (S (length r)) r)
  | 4 :: b0 :: b1 :: t0 :: r =>
      option_map (DMgr false b0 b1 t0) (decode_events (S (length r)) r)
  | 5 :: b0 :: b1 :: t0 :: r =>
      option_map (DMgr true b0 b1 t0) (decode_events (S (length r)) r)
  | 2 :: r =>
      match take_chain r with
      | Some (ch, r1) => match take_plist r1 with
                         | Some (hs, [res]) => Some (DVerify ch hs res)
                         | _ => None end
      | None => None
      end
  | 6 :: _ :: r     (* as kind 3, preceded by the dialer's configuration class *)
  | 3 :: r => decode_dial false r
  | 7 :: _ :: r => decode_dial true r
  | _ => None
  end.

(* the domain of the timeline clauses: the bucket arithmetic is only a floor
   when (t0 - skew) - offset >= 0 *)
Definition in_domain (p : params) (b0 b1 t0 : Z) : bool :=
  (0 <=? b0) && (b0 <? 256) && (0 <=? b1) && (b1 <? 256) &&
  (key_offset p b0 b1 + pS p <=? t0).

Definition conform_case (l : list Z) : list Z :=
  match decode_case l with
  | Some (DMgr _ b0 b1 t0 evs) => conform_mgr cparams b0 b1 t0 evs
  | Some (DVerify ch hs res) =>
      let r := z_of_vres (verify_raw_certs cparams ch hs) in
      if r =? res then [] else [ERR_MISMATCH; 0; r; res]
  | Some (DDial _ ch ad dec sv outcome) =>
      let r := dial cparams ch ad dec sv in
      if r =? outcome then [] else [ERR_MISMATCH; 0; r; outcome]
  | None => [ERR_MALFORMED; 0]
  end.

Definition monitor_case (l : list Z) : list Z :=
  match decode_case l with
  | Some (DMgr true b0 b1 t0 evs) =>
      if in_domain cparams b0 b1 t0 && events_wf (pP cparams) evs
      then monitor_mgr (pS cparams) evs
      else [ERR_MALFORMED; 1]
  | Some (DMgr false b0 b1 t0 evs) =>
      if in_domain cparams b0 b1 t0 then [ERR_MALFORMED; 2] else []
  | Some (DVerify ch hs res) => monitor_verify ch hs res
  | Some (DDial g ch ad dec sv outcome) =>
      if g then monitor_genuine_dial ch ad dec sv outcome else monitor_dial ch ad dec sv outcome
  | None => [ERR_MALFORMED; 0]
  end.

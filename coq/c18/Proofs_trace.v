(* C18 — lemmas.  Part 3: the property monitor accepts every trace of the model. *)
From Coq Require Import List ZArith Bool Lia.
From Verif Require Import lib.Wire c18.Model c18.Spec c18.Proofs c18.Proofs_verify.
Import ListNotations.
Local Open Scope Z_scope.

Section Trace.
  Variable H : Z -> Z -> Z.
  Variable p : params.
  Variable off : Z.
  Hypothesis Hwf : wf p.
  Hypothesis Hoff : wfoff off.
  (* certificates of different buckets differ (X.509 encodes NotBefore) and so
     do their hashes (SHA-256 collision freeness) *)
  Hypothesis Hinj : forall a b, H a (a + pV p) = H b (b + pV p) -> a = b.
  Hypothesis HV14 : pV p <= spec_max_validity.

  Notation grid := (grid p off).
  Notation cfg_at := (cfg_at p off).
  Notation mgr_at := (mgr_at p off).
  Notation bounds := (bounds p off).

  Definition Hc (k : Z) : Z := H (grid k) (grid k + pV p).

  Lemma Hc_inj a b : Hc a = Hc b -> a = b.
  Proof.
    unfold Hc. intros E. apply Hinj in E. unfold Proofs.grid in E.
    destruct Hwf as (_ & HP & _). nia.
  Qed.

  Lemma cobs_at c : cobs_of H (cfg_at c) = mkCobs (grid c) (grid c + pV p) (Hc c).
  Proof. reflexivity. Qed.

  Lemma advertises_in l x : In x l -> advertises (hashes_of H l) (H (c_rs x) (c_re x)) = true.
  Proof.
    intros Hin. unfold advertises. apply mh_mem_In. unfold hashes_of.
    apply (in_map (fun c => (SHA2_256, H (c_rs c) (c_re c)))) in Hin. exact Hin.
  Qed.

  Lemma addr_advertises c hl k : c <= k <= c + 1 ->
    advertises (hashes_of H (m_addr (mgr_at c hl))) (Hc k) = true.
  Proof.
    intros Hk. assert (k = c \/ k = c + 1) as [-> | ->] by lia.
    - apply (advertises_in _ (cfg_at c)). cbn. tauto.
    - apply (advertises_in _ (cfg_at (c + 1))). cbn. tauto.
  Qed.

  Lemma ser_advertises c hl k : c <= k <= c + 1 ->
    advertises (hashes_of H (m_ser (mgr_at c hl))) (Hc k) = true.
  Proof.
    intros Hk. assert (k = c \/ k = c + 1) as [-> | ->] by lia.
    - apply (advertises_in _ (cfg_at c)). cbn [m_ser Proofs.mgr_at]. apply in_or_app. right. cbn. tauto.
    - apply (advertises_in _ (cfg_at (c + 1))). cbn [m_ser Proofs.mgr_at]. apply in_or_app. right. cbn. tauto.
  Qed.

  (* ---- shape of the model's event list ------------------------------------ *)
  (* [etl c t l]: l continues a timeline whose last sample was taken at instant
     t while bucket c was being served *)
  Inductive etl : Z -> Z -> list ev -> Prop :=
  | etl_nil c t : etl c t []
  | etl_adv c t c' hl t' d l :
      c <= c' <= c + 1 -> bounds c' t' -> etl c' t' l ->
      etl c t (EAdv d (snap_of H t' (mgr_at c' hl)) :: l)
  | etl_restart c t hl l :
      bounds c t -> etl c t l -> etl c t (ERestart (snap_of H t (mgr_at c hl)) :: l)
  | etl_probe c t hl l :
      bounds c t -> etl c t l -> etl c t (EProbe (snap_of H t (mgr_at c hl)) :: l)
  | etl_regen c t s e l :
      etl c t l -> etl c t (ERegen s e (H s e) :: l).

  Lemma events_from_etl ops : forall w c hl,
    w_mgr w = mgr_at c hl -> bounds c (w_now w) -> Forall (op_small p) ops ->
    etl c (w_now w) (events_from H p off w ops).
  Proof.
    induction ops as [|o r IH]; intros w c hl E Hb Hf; [constructor|].
    inversion Hf as [|? ? Ho Hr]; subst. cbn [events_from].
    destruct o as [d | | | s e]; cbn [step ev_of op_small] in *.
    - rewrite E. destruct (step_adv_at p off Hwf Hoff c hl (w_now w) d Hb ltac:(lia)) as (c' & hl' & E' & Hb' & Hc1 & Hc2).
      cbn [w_now w_mgr]. rewrite E'. apply etl_adv; [lia | exact Hb' |].
      apply (IH (mkWorld (w_now w + d) (mgr_at c' hl')) c' hl'); [reflexivity | exact Hb' | exact Hr].
    - cbn [w_now w_mgr]. rewrite (init_same_bucket p off Hwf Hoff c _ Hb).
      apply etl_restart; [exact Hb|].
      apply (IH (mkWorld (w_now w) (mgr_at c false)) c false); [reflexivity | exact Hb | exact Hr].
    - rewrite (init_same_bucket p off Hwf Hoff c _ Hb).
      apply etl_probe; [exact Hb|]. apply (IH w c hl); assumption.
    - apply etl_regen. apply (IH w c hl); assumption.
  Qed.

  (* ---- samples -------------------------------------------------------------- *)
  Definition sample_at (c : Z) (hl : bool) (t : Z) (fr pr : bool) : sample :=
    sample_of fr pr (snap_of H t (mgr_at c hl)).

  Inductive tl : Z -> Z -> list sample -> Prop :=
  | tl_nil c t : tl c t []
  | tl_cons c t c' hl t' fr pr l :
      c <= c' <= c + 1 -> bounds c' t' -> (fr = true -> c' = c /\ t' = t) -> tl c' t' l ->
      tl c t (sample_at c' hl t' fr pr :: l).

  Lemma etl_tl c t l : etl c t l -> tl c t (samples_of l).
  Proof.
    induction 1; cbn [samples_of].
    - constructor.
    - apply (tl_cons c t c' hl t' false false); try assumption. discriminate.
    - apply (tl_cons c t c hl t true false); try assumption; [lia | auto].
    - apply (tl_cons c t c hl t true true); try assumption; [lia | auto].
    - assumption.
  Qed.

  Lemma srv_hash c hl t fr pr : o_h (s_srv (sample_at c hl t fr pr)) = Hc c.
  Proof. reflexivity. Qed.

  Lemma ahead_ok_tl l : forall c0 t0 budget lst,
    tl c0 t0 l ->
    (forall k, c0 <= k <= c0 + Z.of_nat budget -> advertises lst (Hc k) = true) ->
    ahead_ok lst (Hc c0) budget l = true.
  Proof.
    induction l as [|x r IH]; intros c0 t0 budget lst Htl Hadv; [reflexivity|].
    inversion Htl as [|? ? c' hl t' fr pr ? Hc' Hb Hfr Hr]; subst.
    cbn [ahead_ok]. rewrite srv_hash.
    destruct (Z.eqb_spec (Hc c') (Hc c0)) as [E|NE].
    - apply Hc_inj in E. subst c'. apply (IH c0 t'); assumption.
    - assert (c' = c0 + 1) by (assert (c' <> c0) by congruence; lia). subst c'.
      destruct budget as [|b]; [reflexivity|].
      rewrite Hadv by lia. cbn [andb].
      apply (IH (c0 + 1) t'); [assumption|]. intros k Hk. apply Hadv. lia.
  Qed.

  Lemma sample_diag_ok c hl t fr pr : bounds c t -> sample_diag (pS p) (sample_at c hl t fr pr) = [].
  Proof.
    intros (_ & H1 & H2). unfold sample_diag.
    cbn [s_srv s_t s_addr s_ser sample_at sample_of snap_of sn_t sn_srv sn_addr sn_ser served m_cur Proofs.mgr_at].
    rewrite cobs_at. cbn [o_s o_e o_h].
    destruct (Z.leb_spec (grid c + pS p) t); [|lia].
    destruct (Z.leb_spec (t + pS p) (grid c + pV p)); [|lia]. cbn [andb negb].
    destruct (Z.leb_spec (grid c + pV p - grid c) spec_max_validity); [|lia]. cbn [negb].
    rewrite (addr_advertises c hl c ltac:(lia)).
    rewrite (ser_advertises c hl c ltac:(lia)).
    reflexivity.
  Qed.

  (* ---- an address learned at any time: the dialer's two checks succeed ------- *)
  (* from a state serving bucket c (address = [c, c+1]) to any later state still
     in bucket c or c+1 of a manager that has not been restarted in between:
     the served certificate is pinned by the old address and every hash of the
     old address is confirmed by the new early-data list *)
  Lemma learned_address_confirmed c hl c' hl' :
    c <= c' <= c + 1 -> (c' = c + 1 -> hl' = true) ->
    let addr := hashes_of H (m_addr (mgr_at c hl)) in
    advertises addr (Hc c') = true /\
    confirm addr (hashes_of H (m_ser (mgr_at c' hl'))) = true.
  Proof.
    intros Hk Hhl. cbv zeta. split; [apply addr_advertises; lia|].
    apply confirm_spec. intros h Hin.
    cbn [m_addr Proofs.mgr_at hashes_of map] in Hin.
    assert (c' = c \/ c' = c + 1) as [-> | ->] by lia.
    - cbn [m_ser Proofs.mgr_at]. unfold hashes_of. rewrite map_app. apply in_or_app. right. exact Hin.
    - rewrite (Hhl eq_refl). cbn [m_ser Proofs.mgr_at app]. replace (c + 1 - 1) with c by lia.
      cbn [hashes_of map]. destruct Hin as [<- | [<- | []]]; cbn; tauto.
  Qed.

  Lemma addr_confirmed ci hli c0 m : ci <= c0 <= ci + 1 -> (c0 = ci + 1 -> m = true) ->
    confirm (hashes_of H (m_addr (mgr_at ci hli))) (hashes_of H (m_ser (mgr_at c0 m))) = true.
  Proof. intros Hk Hm. exact (proj2 (learned_address_confirmed ci hli c0 m Hk Hm)). Qed.

  (* ---- clause 9: the manager that gave out an address confirms it ----------- *)
  (* [eseg c m l] / [seg c m l]: l continues a timeline whose long-running manager
     is mgr_at c m (m = it still holds lastConfig) *)
  Inductive eseg : Z -> bool -> list ev -> Prop :=
  | eseg_nil c m : eseg c m []
  | eseg_adv c m c' hl' t' d l :
      c <= c' <= c + 1 -> (c' = c -> hl' = m) -> (c < c' -> hl' = true) -> eseg c' hl' l ->
      eseg c m (EAdv d (snap_of H t' (mgr_at c' hl')) :: l)
  | eseg_restart c m t l :
      eseg c false l -> eseg c m (ERestart (snap_of H t (mgr_at c false)) :: l)
  | eseg_probe c m t l :
      eseg c m l -> eseg c m (EProbe (snap_of H t (mgr_at c false)) :: l)
  | eseg_regen c m s e l :
      eseg c m l -> eseg c m (ERegen s e (H s e) :: l).

  Lemma events_from_eseg ops : forall w c hl,
    w_mgr w = mgr_at c hl -> bounds c (w_now w) -> Forall (op_small p) ops ->
    eseg c hl (events_from H p off w ops).
  Proof.
    induction ops as [|o r IH]; intros w c hl E Hb Hf; [constructor|].
    inversion Hf as [|? ? Ho Hr]; subst. cbn [events_from].
    destruct o as [d | | | s e]; cbn [step ev_of op_small] in *.
    - rewrite E. destruct (step_adv_at p off Hwf Hoff c hl (w_now w) d Hb ltac:(lia))
        as (c' & hl' & E' & Hb' & Hc1 & Hc2 & Hsame & Hup).
      cbn [w_now w_mgr]. rewrite E'. apply eseg_adv; [lia | exact Hsame | exact Hup |].
      apply (IH (mkWorld (w_now w + d) (mgr_at c' hl')) c' hl'); [reflexivity | exact Hb' | exact Hr].
    - cbn [w_now w_mgr]. rewrite (init_same_bucket p off Hwf Hoff c _ Hb).
      apply eseg_restart.
      apply (IH (mkWorld (w_now w) (mgr_at c false)) c false); [reflexivity | exact Hb | exact Hr].
    - rewrite (init_same_bucket p off Hwf Hoff c _ Hb).
      apply eseg_probe. apply (IH w c hl); assumption.
    - apply eseg_regen. apply (IH w c hl); assumption.
  Qed.

  Inductive seg : Z -> bool -> list sample -> Prop :=
  | seg_nil c m : seg c m []
  | seg_adv c m c' hl' t' l :
      c <= c' <= c + 1 -> (c' = c -> hl' = m) -> (c < c' -> hl' = true) -> seg c' hl' l ->
      seg c m (sample_at c' hl' t' false false :: l)
  | seg_restart c m t l : seg c false l -> seg c m (sample_at c false t true false :: l)
  | seg_probe c m t l : seg c m l -> seg c m (sample_at c false t true true :: l).

  Lemma eseg_seg c m l : eseg c m l -> seg c m (samples_of l).
  Proof.
    induction 1; cbn [samples_of].
    - constructor.
    - apply seg_adv; assumption.
    - apply seg_restart; assumption.
    - apply seg_probe; assumption.
    - assumption.
  Qed.

  (* address given out while bucket ci was served; the manager now serves c0 *)
  Lemma confirm_ahead_seg l : forall c0 m budget ci hli,
    seg c0 m l -> ci <= c0 -> Z.of_nat budget = ci + 1 - c0 -> (c0 = ci + 1 -> m = true) ->
    confirm_ahead (hashes_of H (m_addr (mgr_at ci hli))) (Hc c0) budget l = true.
  Proof.
    induction l as [|y r IH]; intros c0 m budget ci hli Hseg Hle Hbud Hm; [reflexivity|].
    inversion Hseg as [| ? ? c' hl' t' ? Hc' Hsame Hup Hr | ? ? t ? Hr | ? ? t ? Hr]; subst; cbn [confirm_ahead].
    - cbn [s_probe s_fresh sample_at sample_of]. rewrite srv_hash.
      destruct (Z.eqb_spec (Hc c') (Hc c0)) as [E|NE].
      + apply Hc_inj in E. subst c'. rewrite (Hsame eq_refl).
        cbn [s_ser sample_at sample_of snap_of sn_ser].
        rewrite (addr_confirmed ci hli c0 m ltac:(lia) Hm). cbn [andb].
        apply (IH c0 m); try assumption. rewrite <- (Hsame eq_refl). exact Hr.
      + assert (c' = c0 + 1) by (assert (c' <> c0) by congruence; lia). subst c'.
        destruct budget as [|b]; [reflexivity|].
        assert (c0 = ci) by lia. subst c0.
        rewrite (Hup ltac:(lia)) in *.
        cbn [s_ser sample_at sample_of snap_of sn_ser].
        rewrite (addr_confirmed ci hli (ci + 1) true ltac:(lia) ltac:(auto)). cbn [andb].
        apply (IH (ci + 1) true); try assumption; [lia | lia | auto].
    - reflexivity.
    - cbn [s_probe sample_at sample_of]. apply (IH c0 m); assumption.
  Qed.

  Fixpoint clause9_all (l : list sample) : Prop :=
    match l with
    | [] => True
    | x :: r => (s_probe x || confirm_ahead (s_addr x) (o_h (s_srv x)) 1 r = true) /\ clause9_all r
    end.

  Lemma seg_clause9 l : forall c m, seg c m l -> clause9_all l.
  Proof.
    induction l as [|x r IH]; intros c m Hseg; [exact I|].
    inversion Hseg as [| ? ? c' hl' t' ? Hc' Hsame Hup Hr | ? ? t ? Hr | ? ? t ? Hr]; subst; cbn [clause9_all].
    - split; [|eapply IH; exact Hr]. cbn [s_probe sample_at sample_of orb]. rewrite srv_hash.
      apply (confirm_ahead_seg r c' hl' 1%nat c' hl'); [exact Hr | lia | cbn; lia | lia].
    - split; [|eapply IH; exact Hr]. cbn [s_probe sample_at sample_of orb]. rewrite srv_hash.
      apply (confirm_ahead_seg r c false 1%nat c false); [exact Hr | lia | cbn; lia | lia].
    - split; [reflexivity | eapply IH; exact Hr].
  Qed.

  Lemma timeline_ok l : forall c t i pv,
    tl c t l -> clause9_all l -> s_t pv = t -> s_srv pv = cobs_of H (cfg_at c) ->
    timeline_diag (pS p) i (Some pv) l = [].
  Proof.
    induction l as [|x r IH]; intros c t i pv Htl H9a Ht Hs; [reflexivity|]. destruct H9a as [H9 H9r].
    inversion Htl as [|? ? c' hl t' fr pr ? Hc' Hb Hfr Hr]; subst.
    cbn [timeline_diag]. rewrite (sample_diag_ok c' hl t' fr pr Hb).
    assert (A1 : ahead_ok (s_addr (sample_at c' hl t' fr pr)) (o_h (s_srv (sample_at c' hl t' fr pr))) 1 r = true).
    { rewrite srv_hash. apply (ahead_ok_tl r c' t'); [assumption|]. intros k Hk.
      apply (addr_advertises c' hl k). cbn in Hk. lia. }
    assert (A2 : ahead_ok (s_ser (sample_at c' hl t' fr pr)) (o_h (s_srv (sample_at c' hl t' fr pr))) 1 r = true).
    { rewrite srv_hash. apply (ahead_ok_tl r c' t'); [assumption|]. intros k Hk.
      apply (ser_advertises c' hl k). cbn in Hk. lia. }
    rewrite A1, A2. cbn [negb].
    assert (A3 : fresh_ok pv (sample_at c' hl t' fr pr) = true).
    { unfold fresh_ok. destruct fr; [|reflexivity]. destruct (Hfr eq_refl) as [-> ->].
      cbn [s_fresh sample_at sample_of negb orb s_t s_srv sn_t sn_srv snap_of served m_cur Proofs.mgr_at].
      rewrite Hs. rewrite !Z.eqb_refl. reflexivity. }
    rewrite A3, H9. cbn [negb].
    apply (IH c' t'); [assumption | assumption | reflexivity | reflexivity].
  Qed.

  (* ---- determinism table ----------------------------------------------------- *)
  Lemma etl_triples c t l : etl c t l ->
    forall s e h, In (s, e, h) (triples_of l) -> h = H s e.
  Proof.
    induction 1; intros s0 e0 h0 Hin; cbn [triples_of flat_map] in Hin.
    - destruct Hin.
    - apply in_app_or in Hin as [Hin|Hin]; [|eapply IHetl; exact Hin].
      destruct Hin as [Hin|[]]. inversion Hin; subst. reflexivity.
    - apply in_app_or in Hin as [Hin|Hin]; [|eapply IHetl; exact Hin].
      destruct Hin as [Hin|[]]. inversion Hin; subst. reflexivity.
    - apply in_app_or in Hin as [Hin|Hin]; [|eapply IHetl; exact Hin].
      destruct Hin as [Hin|[]]. inversion Hin; subst. reflexivity.
    - apply in_app_or in Hin as [Hin|Hin]; [|eapply IHetl; exact Hin].
      destruct Hin as [Hin|[]]. inversion Hin; subst. reflexivity.
  Qed.

  Lemma functional_ok (T : list (Z * Z * Z)) :
    (forall s e h, In (s, e, h) T -> h = H s e) -> functional T = true.
  Proof.
    intros HT. unfold functional. apply forallb_forall. intros [[s1 e1] h1] H1.
    apply forallb_forall. intros [[s2 e2] h2] H2. unfold triple_ok.
    destruct (Z.eqb_spec s1 s2) as [->|]; [|reflexivity].
    destruct (Z.eqb_spec e1 e2) as [->|]; [|reflexivity]. cbn [andb negb orb].
    rewrite (HT _ _ _ H1), (HT _ _ _ H2). apply Z.eqb_refl.
  Qed.

  (* ---- the headline ---------------------------------------------------------- *)
  Lemma monitor_mgr_model t0 ops :
    off + pS p <= t0 -> Forall (op_small p) ops ->
    monitor_mgr (pS p) (model_events H p off t0 ops) = [].
  Proof.
    intros Ht Hops. destruct (init_at p off Hwf Hoff t0 Ht) as (c & E & Hb).
    unfold model_events, start_world. cbn [w_now w_mgr]. rewrite E.
    pose proof (events_from_etl ops (mkWorld t0 (mgr_at c false)) c false eq_refl Hb Hops) as Hetl.
    cbn [w_now] in Hetl.
    set (evs := events_from H p off (mkWorld t0 (mgr_at c false)) ops) in *.
    unfold monitor_mgr. cbn [samples_of].
    fold (sample_at c false t0 false false).
    assert (Hd : timeline_diag (pS p) 0 None (sample_at c false t0 false false :: samples_of evs) = []).
    { pose proof (etl_tl _ _ _ Hetl) as Htl.
      cbn [timeline_diag]. rewrite (sample_diag_ok c false t0 false false Hb).
      assert (A1 : ahead_ok (s_addr (sample_at c false t0 false false)) (o_h (s_srv (sample_at c false t0 false false))) 1 (samples_of evs) = true).
      { rewrite srv_hash. apply (ahead_ok_tl _ c t0); [assumption|]. intros k Hk.
        apply (addr_advertises c false k). cbn in Hk. lia. }
      assert (A2 : ahead_ok (s_ser (sample_at c false t0 false false)) (o_h (s_srv (sample_at c false t0 false false))) 1 (samples_of evs) = true).
      { rewrite srv_hash. apply (ahead_ok_tl _ c t0); [assumption|]. intros k Hk.
        apply (ser_advertises c false k). cbn in Hk. lia. }
      pose proof (eseg_seg _ _ _ (events_from_eseg ops (mkWorld t0 (mgr_at c false)) c false eq_refl Hb Hops)) as Hseg.
      fold evs in Hseg.
      assert (A4 : confirm_ahead (s_addr (sample_at c false t0 false false))
                     (o_h (s_srv (sample_at c false t0 false false))) 1 (samples_of evs) = true).
      { rewrite srv_hash. apply (confirm_ahead_seg _ c false 1%nat c false); [exact Hseg | lia | cbn; lia | lia]. }
      rewrite A1, A2, A4. cbn [negb orb s_fresh s_probe sample_at sample_of].
      apply (timeline_ok _ c t0); [assumption | eapply seg_clause9; exact Hseg | reflexivity | reflexivity]. }
    rewrite Hd.
    rewrite functional_ok; [reflexivity|].
    intros s e h Hin. cbn [triples_of flat_map] in Hin. apply in_app_or in Hin as [Hin|Hin].
    - destruct Hin as [Hin|[]]. inversion Hin; subst. reflexivity.
    - eapply etl_triples; eassumption.
  Qed.

  (* the wf condition the monitor imposes on a case is the hypothesis above *)
  Lemma model_events_wf t0 ops : Forall (op_small p) ops ->
    events_wf (pP p) (model_events H p off t0 ops) = true.
  Proof.
    intros Hops. unfold model_events, events_wf.
    generalize (start_world p off t0). induction ops as [|o r IH]; intros w; [reflexivity|].
    inversion Hops as [|? ? Ho Hr]; subst. cbn [events_from forallb].
    rewrite (IH Hr). rewrite andb_true_r.
    destruct o as [d| | |s e]; cbn [ev_of ev_wf op_small] in *; try reflexivity.
    destruct (Z.leb_spec 0 d); [|lia]. destruct (Z.leb_spec d (pP p)); [|lia]. reflexivity.
  Qed.


  (* ---- clause 17: a dial with a learned address against the running listener completes ---- *)
  (* the certificate bucket c' presents at instant [now], as the dialer's verifier sees it *)
  Definition served_xcert (c' now : Z) : xcert :=
    mkX (Hc c') true false 0 (grid c' - now) (grid c' + pV p - now).

  Lemma learned_dial_completes c hl c' hl' now :
    bounds c' now -> c <= c' <= c + 1 -> (c' = c + 1 -> hl' = true) -> pV p <= pMaxLife p ->
    pMaxLife p <= spec_max_validity ->
    let addr := hashes_of H (m_addr (mgr_at c hl)) in
    let srv := hashes_of H (m_ser (mgr_at c' hl')) in
    dial p [served_xcert c' now] addr true srv = 0 /\
    monitor_genuine_dial [served_xcert c' now] addr true srv (dial p [served_xcert c' now] addr true srv) = [].
  Proof.
    intros (_ & B1 & B2) Hk Hhl HV HM. cbv zeta. destruct Hwf as (HS & _).
    assert (E : dial p [served_xcert c' now] (hashes_of H (m_addr (mgr_at c hl))) true
                     (hashes_of H (m_ser (mgr_at c' hl'))) = 0).
    { unfold dial, verify_raw_certs, verify_with.
      assert (Hi : inspected p [served_xcert c' now] = Some (served_xcert c' now))
        by (unfold inspected; destruct (pLeafLast p =? 0); reflexivity).
      rewrite Hi, pinned_advertises.
      replace (x_hash (served_xcert c' now)) with (Hc c') by reflexivity.
      rewrite (addr_advertises c hl c' Hk).
      replace (x_parse (served_xcert c' now)) with true by reflexivity.
      replace (is_rsa (served_xcert c' now)) with false by reflexivity.
      replace (x_na (served_xcert c' now)) with (grid c' + pV p - now) by reflexivity.
      replace (x_nb (served_xcert c' now)) with (grid c' - now) by reflexivity.
      cbn [negb].
      destruct (Z.ltb_spec (pMaxLife p) (grid c' + pV p - now - (grid c' - now))); [lia|].
      destruct (Z.ltb_spec 0 (grid c' - now)); [lia|].
      destruct (Z.ltb_spec (grid c' + pV p - now) 0); [lia|]. cbn [orb andb].
      rewrite (addr_confirmed c hl c' hl' Hk Hhl). reflexivity. }
    split; [exact E|]. unfold monitor_genuine_dial.
    rewrite (monitor_dial_ok p _ _ true _ HM); [rewrite E; reflexivity|].
    right. cbn. lia.
  Qed.
End Trace.

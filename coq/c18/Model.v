(* C18 — WebTransport certificates.  Executable model transcribed from
   /repo/p2p/transport/webtransport/{cert_manager,crypto,transport}.go.
   No proofs in this file.

   Time is Z, in NANOSECONDS since the Unix epoch (time.Time / time.Duration).
   The bucket arithmetic of getCurrentBucketStartTime is done in milliseconds
   with Go's truncating division, exactly as in the code; X.509 stores
   NotBefore / NotAfter with one-second resolution, which is modelled by
   [sec_floor] on what the parsed Leaf reports. *)
From Coq Require Import List ZArith Bool.
Import ListNotations.
Local Open Scope Z_scope.

(* certValidity, clockSkewAllowance, the literal bound in verifyRawCerts, and
   which certificate of the presented chain verifyRawCerts inspects:
   0 = rawCerts[0], the certificate TLS authenticates (the tree since a6acc86),
   1 = rawCerts[len(rawCerts)-1] (what the tree did before; kept as a parameter
   so that a regression is a changed constant, not a silently wrong model).
   All four are re-read from /repo on every run. *)
Record params := mkParams { pV : Z; pS : Z; pMaxLife : Z; pLeafLast : Z }.

(* validityMinusTwoSkew *)
Definition pP (p : params) : Z := pV p - 2 * pS p.

Definition MS : Z := 1000000.
Definition SEC : Z := 1000000000.
Definition MINUTE : Z := 60 * SEC.

(* ---- certificates -------------------------------------------------------- *)
(* generateCert(key, start, end): [c_rs],[c_re] are the requested instants
   (start is also the HKDF salt), [c_start],[c_end] what the parsed leaf
   reports as NotBefore / NotAfter. The host key is fixed within a history. *)
Record cfg := mkCfg { c_rs : Z; c_re : Z; c_start : Z; c_end : Z }.

Definition sec_floor (x : Z) : Z := (x / SEC) * SEC.

(* newCertConfig *)
Definition new_cfg (s e : Z) : cfg := mkCfg s e (sec_floor s) (sec_floor e).

(* offset := (time.Duration(binary.LittleEndian.Uint16(pubkeyBytes)) * time.Minute) % certValidity *)
Definition key_offset (p : params) (b0 b1 : Z) : Z :=
  Z.rem ((b0 + 256 * b1) * MINUTE) (pV p).

(* getCurrentBucketStartTime(now, offset):
     currentBucket := (now.UnixMilli() - offset.Milliseconds()) / validityMinusTwoSkew.Milliseconds()
     time.UnixMilli(offset.Milliseconds() + currentBucket*validityMinusTwoSkew.Milliseconds())
   UnixMilli floors, Duration.Milliseconds and Go's / truncate. *)
Definition bucket_start (p : params) (now off : Z) : Z :=
  let pms := Z.quot (pP p) MS in
  let offms := Z.quot off MS in
  let cb := Z.quot (now / MS - offms) pms in
  (offms + cb * pms) * MS.

(* ---- certManager --------------------------------------------------------- *)
Record mgr := mkMgr {
  m_last : option cfg;      (* lastConfig, initially nil *)
  m_cur : cfg;              (* currentConfig *)
  m_next : cfg;             (* nextConfig *)
  m_ser : list cfg;         (* serializedCertHashes (as certificates) *)
  m_addr : list cfg;        (* addrComp (as certificates) *)
  m_timer : Z               (* instant at which the background timer fires *)
}.

(* rollConfig: next := cert from nextConfig.End()-2*skew; last := current;
   current := next; then the two caches are rebuilt *)
Definition rolled (p : params) (prev : option cfg) (nxt : cfg) : option cfg * cfg * cfg :=
  let ns := c_end nxt - 2 * pS p in
  (prev, nxt, new_cfg ns (ns + pV p)).

(* cacheSerializedCertHashes / cacheAddrComponent (nextConfig is never nil
   after rollConfig) and the timer: d := current.End()-skew - now; fires at now+d *)
Definition mk_mgr (p : params) (x : option cfg * cfg * cfg) (now : Z) : mgr :=
  let '(l, c, n) := x in
  mkMgr l c n
        ((match l with Some a => [a] | None => [] end) ++ [c; n])
        [c; n]
        (now + (c_end c - pS p - now)).

(* newCertManager at instant [now]: init + background *)
Definition init (p : params) (off now : Z) : mgr :=
  let st := bucket_start p (now - pS p) off in
  mk_mgr p (rolled p None (new_cfg st (st + pV p))) now.

(* the timer fires (clock.Now() = the timer instant with an exact clock) *)
Definition fire (p : params) (m : mgr) : mgr :=
  mk_mgr p (rolled p (Some (m_cur m)) (m_next m)) (m_timer m).

(* GetConfig *)
Definition served (m : mgr) : cfg := m_cur m.

(* ---- the world: a mock clock and one long-running manager ----------------- *)
Record world := mkWorld { w_now : Z; w_mgr : mgr }.

(* mock.Add(d): run every timer that is due up to the target, in order, the
   clock standing at the timer's instant while it is processed *)
Fixpoint adv_loop (p : params) (fuel : nat) (m : mgr) (target : Z) : mgr :=
  match fuel with
  | O => m
  | S f => if m_timer m <=? target then adv_loop p f (fire p m) target else m
  end.

Definition adv_fuel (p : params) (d : Z) : nat := S (Z.to_nat (d / pP p)).

Inductive op :=
| Adv (d : Z)            (* advance the clock by d >= 0 *)
| Restart                (* Close; newCertManager with the same key, same instant *)
| Probe                  (* a second manager with the same key at this instant (observed, then closed) *)
| Regen (s e : Z).       (* generateCert(key, s, e) called again (observed) *)

Definition step (p : params) (off : Z) (w : world) (o : op) : world :=
  match o with
  | Adv d => mkWorld (w_now w + d) (adv_loop p (adv_fuel p d) (w_mgr w) (w_now w + d))
  | Restart => mkWorld (w_now w) (init p off (w_now w))
  | Probe => w
  | Regen _ _ => w
  end.

Definition start_world (p : params) (off t0 : Z) : world := mkWorld t0 (init p off t0).

Definition run (p : params) (off : Z) (w : world) (ops : list op) : world :=
  fold_left (step p off) ops w.

(* ---- verifyRawCerts ------------------------------------------------------ *)
(* what the verifier can see of a certificate.  Instants are relative to the
   verifier's time.Now(). [x_sig]: 0 ECDSA, 1 RSA PKCS#1 v1.5 (the six values
   the code lists), 2 RSA-PSS, 3 Ed25519.  [x_parse] = x509.ParseCertificate
   succeeds. *)
Record xcert := mkX {
  x_hash : Z;        (* identity of sha256(raw) *)
  x_parse : bool;
  x_pubrsa : bool;   (* PublicKeyAlgorithm == RSA *)
  x_sig : Z;
  x_nb : Z;          (* NotBefore - now *)
  x_na : Z           (* NotAfter - now *)
}.

Definition is_rsa (c : xcert) : bool := x_pubrsa c || (x_sig c =? 1) || (x_sig c =? 2).

Definition SHA2_256 : Z := 18.   (* multihash.SHA2_256 = 0x12 *)

Definition mh_eqb (a b : Z * Z) : bool := (fst a =? fst b) && (snd a =? snd b).
Definition mh_mem (x : Z * Z) (l : list (Z * Z)) : bool := existsb (mh_eqb x) l.

Inductive vres := VOk | VNoCert | VMismatch | VParse | VRsa | VTooLong | VNotValid.

(* the certificate of the chain that is inspected *)
Definition inspected (p : params) (chain : list xcert) : option xcert :=
  if pLeafLast p =? 0 then hd_error chain else hd_error (rev chain).

(* [rsa] = the "cert uses RSA" test.  The repaired tree rejects an RSA public
   key and the nine RSA SignatureAlgorithm values (PKCS#1 v1.5 and PSS): is_rsa.
   The parameter exists so that the theorems can also speak about the test the
   tree had before the repair (Proofs_verify.old_rsa_test). *)
Definition verify_with (rsa : xcert -> bool) (p : params) (chain : list xcert) (hashes : list (Z * Z)) : vres :=
  match inspected p chain with
  | None => VNoCert
  | Some leaf =>
      if existsb (fun h => (fst h =? SHA2_256) && (snd h =? x_hash leaf)) hashes then
        if negb (x_parse leaf) then VParse
        else if rsa leaf then VRsa
        else if pMaxLife p <? x_na leaf - x_nb leaf then VTooLong
        else if (0 <? x_nb leaf) || (x_na leaf <? 0) then VNotValid
        else VOk
      else VMismatch
  end.

Definition verify_raw_certs := verify_with is_rsa.

(* ---- upgrade(): the Noise early-data callback ----------------------------- *)
(* every hash used to dial must be among the hashes the server sent *)
Definition confirm (sent rcvd : list (Z * Z)) : bool :=
  forallb (fun s => mh_mem s rcvd) sent.

(* dialWithScope: 0 = connected, 1 = refused by the certificate check,
   2 = refused in upgrade (server's list undecodable or a hash missing) *)
Definition dial (p : params) (chain : list xcert) (addr_hashes : list (Z * Z))
           (srv_decodes : bool) (srv_hashes : list (Z * Z)) : Z :=
  match verify_raw_certs p chain addr_hashes with
  | VOk => if srv_decodes && confirm addr_hashes srv_hashes then 0 else 2
  | _ => 1
  end.

(* C15 — property theorems only.  Each is closed by [exact] of a lemma from
   Proofs*.v and followed by Print Assumptions.  "initial st": no node yet,
   every thread (Emitter(), Emitter.Close, Emit, Subscribe, replay goroutines,
   Subscription.Close, drainer, consumer) at its first program counter; the
   lists of subscriptions / emitters / Emit calls are arbitrary, as are buffer
   sizes.  "run step st sched" executes an ARBITRARY schedule (list of thread
   names; a thread that is not enabled is skipped). *)
From Coq Require Import List Arith ZArith Bool.
From Verif Require Import lib.Wire c15.Lts c15.Model c15.Spec c15.Proofs c15.Proofs_Chan c15.Proofs_Loc
  c15.Proofs_List c15.Proofs_Safe c15.Proofs_Init c15.Proofs_Once c15.Proofs_Thm c15.Proofs_Grow
  c15.Proofs_First c15.Proofs_Wild c15.Proofs_Live c15.Proofs_Dead c15.Proofs_Pend c15.Proofs_Idx c15.Proofs_Prog
  c15.Proofs_Valid c15.Proofs_WildOK c15.Proofs_Blk c15.Proofs_Obs c15.Proofs_Loc3 c15.Proofs_WSI c15.Proofs_TY c15.Proofs_Rule13 c15.Proofs_Reads
  c15.Proofs_Wire c15.Proofs_Disc c15.Proofs_Mon c15.Proofs_Cpl c15.Proofs_RCtx c15.Proofs_Prom c15.Proofs_R3 c15.Proofs_CEv c15.Proofs_ChI c15.Proofs_R5 c15.Proofs_Loc4 c15.Proofs_R4
  c15.Proofs_RegA c15.Proofs_RegB c15.Proofs_RegW c15.Proofs_RegRun c15.Proofs_MD c15.Proofs_RF c15.Proofs_R9 c15.Proofs_R7
  c15.Proofs_NodeEv c15.Proofs_Keep c15.Proofs_EmitPc c15.Proofs_Last c15.Proofs_Old c15.Proofs_R6 c15.Proofs_Z c15.Proofs_R8 c15.Proofs_Head c15.Proofs_Rej.
Import ListNotations.

(* the checked tie: a label trace accepted by conform_case's search is the
   visible trace of the LTS under some schedule *)
Theorem c15_accepted_trace_is_model_trace : forall fuel st tr,
  accepted fuel st tr = true -> exists sched, trace step st sched = tr.
Proof. exact accepted_sound. Qed.
Print Assumptions c15_accepted_trace_is_model_trace.

(* initial states built from any configuration are initial *)
Theorem c15_init_state_initial : forall nt sl ms el,
  initial (init_state nt (map (fun p => new_sub (fst p) (snd p)) sl) ms (map (fun p => new_emit (fst p) (snd p)) el)).
Proof. exact init_state_initial. Qed.
Print Assumptions c15_init_state_initial.

(* exactly once, in node-lock order (hence per emitter in emission order):
   for a typed subscription s and a node n, the items sent to s through n
   followed by what the holder of n.lk still owes s are exactly the items
   promised to s at the linearisation points (ghost expd, written when an Emit
   takes n.lk while s is in n.sinks, and when Subscribe appends s to a node
   that retains an event) *)
Theorem c15_exactly_once_in_order : forall st sched s c n, initial st ->
  nth_error (subs (run step st sched)) s = Some c -> styps c <> None ->
  proj n (hist c) ++ pend (run step st sched) s n = proj n (expd c).
Proof. exact exactly_once_in_order_l. Qed.
Print Assumptions c15_exactly_once_in_order.

(* whenever n.lk is free: delivered = promised; and until Close starts, what
   the consumer read followed by what is buffered is exactly the promise *)
Theorem c15_exactly_once_quiescent : forall st sched s c n nd, initial st ->
  nth_error (subs (run step st sched)) s = Some c -> styps c <> None ->
  nth_error (nodes (run step st sched)) n = Some nd -> holder nd = None ->
  proj n (hist c) = proj n (expd c) /\
  (drain c = 0 -> proj n (recv c) ++ proj n (buf c) = proj n (expd c)).
Proof. exact exactly_once_quiescent_l. Qed.
Print Assumptions c15_exactly_once_quiescent.

(* what is promised at an Emit's linearisation point: one copy per occurrence
   of the subscription in n.sinks at that instant, nothing to anybody else *)
Theorem c15_emit_lock_promises : forall st k e m nd, nth_error (emits st) k = Some e -> epc e = ELock ->
  nth_error (emitters st) (eem e) = Some m -> nth_error (nodes st) (mnode m) = Some nd -> holder nd = None ->
  exists st', step st (TEmit k) = Some (None, st') /\
    forall s c, nth_error (subs st) s = Some c ->
      exists c', nth_error (subs st') s = Some c' /\
                 expd c' = expd c ++ repeat (mnode m, eev e) (cnt (sinks nd) s) /\ hist c' = hist c.
Proof. exact emit_lock_promises. Qed.
Print Assumptions c15_emit_lock_promises.

(* no panic: no send ever targets a closed channel *)
Theorem c15_never_send_on_closed : forall st sched, initial st -> panicked (run step st sched) = false.
Proof. exact never_send_on_closed_l. Qed.
Print Assumptions c15_never_send_on_closed.

(* every sink an Emit is about to send to (typed or wildcard) is an open channel *)
Theorem c15_send_targets_open : forall st sched k e n s r, initial st ->
  nth_error (emits (run step st sched)) k = Some e -> (epc e = ESend n (s :: r) \/ epc e = EWSend n (s :: r)) ->
  exists c, nth_error (subs (run step st sched)) s = Some c /\ closed c = false.
Proof. exact targets_open_l. Qed.
Print Assumptions c15_send_targets_open.

(* nothing is delivered to a closed subscription: once the channel is closed
   no node lists the sink any more *)
Theorem c15_closed_is_unlisted : forall st sched s c n nd, initial st ->
  nth_error (subs (run step st sched)) s = Some c -> closed c = true ->
  nth_error (nodes (run step st sched)) n = Some nd -> ~ In s (sinks nd).
Proof. exact closed_unlisted_l. Qed.
Print Assumptions c15_closed_is_unlisted.

(* emit blocks, never drops: a send to a full open channel is not enabled ... *)
Theorem c15_emit_blocks_when_full : forall st s it c, nth_error (subs st) s = Some c -> closed c = false ->
  room c = false -> send st s it = None.
Proof. exact send_blocks_when_full. Qed.
Print Assumptions c15_emit_blocks_when_full.

(* ... and no step discards: everything ever sent into a channel is still
   buffered or was taken from its head by a receiver, in FIFO order; until
   Close starts the only receiver is the consumer *)
Theorem c15_emit_blocks_not_drops : forall st sched s c, initial st ->
  nth_error (subs (run step st sched)) s = Some c ->
  exists taken, hist c = taken ++ buf c /\ (drain c = 0 -> taken = recv c).
Proof. exact chan_integrity_l. Qed.
Print Assumptions c15_emit_blocks_not_drops.

(* node lock discipline (what the in-order argument rests on): a thread inside
   a node's critical region is the recorded holder; at most one is inside *)
Theorem c15_node_lock_mutual_exclusion : forall st sched n t1 t2, initial st ->
  in_region (run step st sched) n t1 -> in_region (run step st sched) n t2 -> t1 = t2.
Proof. exact mutual_exclusion_l. Qed.
Print Assumptions c15_node_lock_mutual_exclusion.

(* order in a channel = order of sending: histories, promise lists and received
   lists are only ever extended at the end (any schedule, any continuation) *)
Theorem c15_history_append_only : forall st sched more s c,
  nth_error (subs (run step st sched)) s = Some c ->
  exists c', nth_error (subs (run step st (sched ++ more))) s = Some c' /\
    (exists h, hist c' = hist c ++ h) /\ (exists e, expd c' = expd c ++ e) /\ (exists r, recv c' = recv c ++ r).
Proof. exact history_append_only_l. Qed.
Print Assumptions c15_history_append_only.

(* before a typed subscription has joined node n nothing of n is promised to it *)
Theorem c15_nothing_before_join : forall st sched s c n, initial st ->
  nth_error (subs (run step st sched)) s = Some c -> styps c <> None -> ~ In n (snodes c) ->
  proj n (expd c) = [].
Proof. exact nothing_before_join_l. Qed.
Print Assumptions c15_nothing_before_join.

(* stateful replay first: the step that appends s to n.sinks promises s exactly
   the retained event of n (most recent earlier event of a stateful type, if
   any) and hands n.lk to the replay goroutine, so no Emit on n can be promised
   to s before it; if s had not joined n before, it is the first n-item *)
Theorem c15_stateful_replay_first : forall st sched s c i n tys nd, initial st ->
  let st1 := run step st sched in
  nth_error (subs st1) s = Some c -> spc c = SApp i n -> styps c = Some tys ->
  nth_error (nodes st1) n = Some nd -> holder nd = None ->
  exists st2 c2 nd2, step st1 (TSub s) = Some (None, st2) /\
    nth_error (subs st2) s = Some c2 /\ nth_error (nodes st2) n = Some nd2 /\
    holder nd2 = Some (TReplay s i) /\ sinks nd2 = sinks nd ++ [s] /\
    hist c2 = hist c /\ expd c2 = expd c ++ retained nd n /\
    (~ In n (snodes c) -> proj n (expd c2) = retained nd n).
Proof. exact stateful_replay_first_l. Qed.
Print Assumptions c15_stateful_replay_first.

(* wildcard subscriptions, same rules: per Emit call k, what k sent to the
   wildcard subscription s followed by what k still owes it under the read lock
   is exactly what s was promised when k took the read lock *)
Theorem c15_wildcard_same_rules : forall st sched s c k, initial st ->
  nth_error (subs (run step st sched)) s = Some c -> styps c = None ->
  proj k (hist c) ++ pendw (run step st sched) k s = proj k (expd c).
Proof. exact wildcard_same_rules_l. Qed.
Print Assumptions c15_wildcard_same_rules.

(* no deadlock (partial: a state-predicate progress lemma, not liveness under
   fairness; DESIGN.md section 10).  A held node lock is never leaked: its
   recorded holder is a thread inside that node's critical region; and that
   thread can take a step unless it is sending to a full open channel, in which
   case the channel's consumer (if a receive is pending) or its drainer (if
   Close has started) can take a step.  So every thread waiting for n.lk waits
   for a thread that waits only for a live consumer or for Close.  (Kept as the
   node-lock instance; the general statement is c15_no_deadlock below.) *)
Theorem c15_no_deadlock_partial : forall st sched n nd t, initial st ->
  nth_error (nodes (run step st sched)) n = Some nd -> holder nd = Some t ->
  in_region (run step st sched) n t /\
  (enabled (run step st sched) t \/ exists x, stalled_on_full (run step st sched) x).
Proof. exact no_deadlock_partial_l. Qed.
Print Assumptions c15_no_deadlock_partial.

(* NO DEADLOCK, as a state-predicate progress theorem over every schedule (not
   liveness under fairness, DESIGN.md section 10): in every reachable state in
   which some operation (Emitter(), Emitter.Close, Emit, Subscribe incl. its replay
   goroutines, Subscription.Close) is unfinished, some thread can take a step that
   is not an environment stimulus - provided every full open channel has a receive
   pending or its Close has started (consumers_live).  All lock-wait chains are
   covered: node lock -> holder inside the region (no leak) -> channel room;
   wildcard write lock -> announced writer -> readers (counted by rdrs) -> channel
   room; wildcard Close -> its drainer; the bus lock is never waited for. *)
Theorem c15_no_deadlock : forall st sched, fresh_init st ->
  consumers_live (run step st sched) -> in_flight (run step st sched) = true -> some_progress (run step st sched).
Proof. exact no_deadlock_l. Qed.
Print Assumptions c15_no_deadlock.

Theorem c15_init_state_fresh_init : forall nt sl ml el,
  fresh_init (init_state nt (map (fun p => new_sub (fst p) (snd p)) sl) (map (fun p => new_emitter (fst p) (snd p)) ml)
                         (map (fun p => new_emit (fst p) (snd p)) el)).
Proof. exact init_state_fresh_init. Qed.
Print Assumptions c15_init_state_fresh_init.

(* THE MONITOR'S NO-DEADLOCK CLAUSE (rule 13) ACCEPTS EVERY TRACE OF THE MODEL: for
   every schedule, whenever the reached state is quiescent (nothing but environment
   stimuli enabled - the only states in which the harness writes a stimulus label
   and rule 13 is evaluated), the labels seen so far contain no operation that is
   blocked without a stalled, unread, unclosed subscription of a matching type to
   blame.  blocked_badly is the very function mon_go calls (Spec.v); the
   configuration is the initial one (it never changes: run_oc). *)
Theorem c15_monitor_rule13_accepts_model : forall st sched, wf_init st ->
  quiescent step thrs stim (run step st sched) = true ->
  blocked_badly (ocfg_of_state st) (trace step st sched) = None.
Proof. exact rule13_accepts_model_init_l. Qed.
Print Assumptions c15_monitor_rule13_accepts_model.

(* the coupling between the visible trace and the state that the clause-by-clause
   proofs rest on: started / returned operations and outstanding receives can be
   read off the program counters, for every schedule *)
Theorem c15_trace_state_coupling : forall st sched, fresh_init st -> Obs (run step st sched) (trace step st sched).
Proof. exact obs_run. Qed.
Print Assumptions c15_trace_state_coupling.

Theorem c15_init_state_wf_init : forall nt sl ml el,
  Forall (fun p => match fst p with Some tys => NoDup tys | None => True end) sl ->
  wf_init (init_state nt (map (fun p => new_sub (fst p) (snd p)) sl) (map (fun p => new_emitter (fst p) (snd p)) ml)
                      (map (fun p => new_emit (fst p) (snd p)) el)).
Proof. exact init_state_wf_init. Qed.
Print Assumptions c15_init_state_wf_init.

(* provenance of reported values on every model trace (the state-level fact behind rules 1-3;
   the rules themselves, with the monitor's functions, are c15_monitor_rule1..3 below): whatever
   value the consumer of s reports is the event of an Emit call that has started, of a type s
   subscribes to (any type if s is a wildcard subscription). *)
Theorem c15_monitor_reads_provenance : forall st sched s v, wf_init st -> In (LRead s v) (trace step st sched) -> (v <> -2)%Z ->
  exists k e m c, nth_error (emits (run step st sched)) k = Some e /\ eev e = v /\
    (o_started (trace step st sched) (TEmit k) || o_returned (trace step st sched) (TEmit k)) = true /\
    nth_error (emitters (run step st sched)) (eem e) = Some m /\ nth_error (subs (run step st sched)) s = Some c /\
    (styps c = None \/ exists tys, styps c = Some tys /\ In (mty m) tys).
Proof. exact reads_provenance_l. Qed.
Print Assumptions c15_monitor_reads_provenance.

(* the same for holders of the wildcard read lock *)
Theorem c15_reader_progress_partial : forall st sched k e n todo, initial st ->
  nth_error (emits (run step st sched)) k = Some e -> epc e = EWSend n todo ->
  enabled (run step st sched) (TEmit k) \/ exists x, stalled_on_full (run step st sched) x.
Proof. exact reader_progress_l. Qed.
Print Assumptions c15_reader_progress_partial.

(* After fix 8aeecd5 basicBus.lk only protects sections that cannot block: in the
   model it is never held across a step (nobody ever waits for it), tryDropNode
   never waits (pending > 0 or TryLock failure = in use), so the only lock-wait
   chains left are: node lock -> its holder (c15_no_deadlock_partial) -> channel
   room -> consumer / Close; wildcard write lock -> readers -> channel room. *)
Theorem c15_bus_lock_never_held : forall st sched, initial st -> blk (run step st sched) = None.
Proof. exact bus_lock_never_held_l. Qed.
Print Assumptions c15_bus_lock_never_held.

Theorem c15_try_drop_never_waits : forall st ty, exists st', try_drop st ty = Some st'.
Proof. exact try_drop_total. Qed.
Print Assumptions c15_try_drop_never_waits.

(* the pending count (fix 8aeecd5): while a Subscribe call is between withNode's
   lookup (under basicBus.lk) and its n.lk.Lock(), the node exists, its pending
   count is positive and the bus map still maps the node's type to it - it cannot
   be dropped in between.  (Initial states built by init_state satisfy the two
   extra hypotheses: c15_init_state_fresh.) *)
Theorem c15_node_not_dropped_before_lock : forall st sched s c i n, initial st ->
  Forall (fun m => mnew m = 0) (emitters st) -> Forall (fun o => o = None) (bmap st) ->
  nth_error (subs (run step st sched)) s = Some c -> spc c = SApp i n ->
  exists nd, nth_error (nodes (run step st sched)) n = Some nd /\ npend nd > 0 /\
             (nty nd < length (bmap (run step st sched)) -> nth_error (bmap (run step st sched)) (nty nd) = Some (Some n)).
Proof. exact not_dropped_before_lock_l. Qed.
Print Assumptions c15_node_not_dropped_before_lock.

Theorem c15_init_state_fresh : forall nt ss ml es,
  Forall (fun m => mnew m = 0) (emitters (init_state nt ss (map (fun p => new_emitter (fst p) (snd p)) ml) es)) /\
  Forall (fun o => o = None) (bmap (init_state nt ss (map (fun p => new_emitter (fst p) (snd p)) ml) es)).
Proof. exact init_state_fresh. Qed.
Print Assumptions c15_init_state_fresh.

(* GENUINE DEFECT still present after 8aeecd5 (known_findings/C15.json, replayed on the
   real bus): the full statement "no reachable state is quiescent with operations in
   flight while every stalled sender is stalled on a subscription that nobody holds yet"
   is FALSE.  Witness: two multi-type Subscribes with crossing type orders, each half
   registered, and two Emits each holding the node lock the other Subscribe needs,
   stalled on the other's channel.  (c15_no_deadlock stays true: its hypothesis
   consumers_live cannot be met in that state.) *)
Theorem c15_no_deadlock_full_refuted : ~ no_deadlock_full.
Proof. exact no_deadlock_full_refuted_l. Qed.
Print Assumptions c15_no_deadlock_full_refuted.

(* the schedule that deadlocked the unrepaired bus (half-registered multi-type
   Subscribe + Emit stalled on it + third operation on the same type), continued:
   the Subscribe returns, Close releases the Emit, the third operation returns *)
Theorem c15_former_deadlock_completes :
  let st := run step dl_init dl_sched in
  (exists c, nth_error (subs st) 1 = Some c /\ spc c = SDone) /\
  (exists e, nth_error (emits st) 1 = Some e /\ epc e = EDone) /\
  (exists m, nth_error (emitters st) 1 = Some m /\ mnew m = 4) /\ panicked st = false.
Proof. exact former_deadlock_completes_l. Qed.
Print Assumptions c15_former_deadlock_completes.

(* ==== THE MONITOR ON MODEL TRACES: wire format, discipline, one theorem per rule ===========
   Setting of the headline: cfg any well-formed configuration (cfg_wf), sched any DISCIPLINED
   schedule (a stimulus - the start of an operation, a receive request - is taken only in a
   quiescent state: how the harness drives the real bus and what conform_case searches for),
   wire_of_run = the wire line the harness would write for that run (configuration, labels,
   optional end marker).  read_rule_ok r / quiet_rule_ok r: the monitor's own functions
   d_check_read / d_check_quiet never answer r at a step of such a run. *)

(* the wire format round trip: what monitor_case decodes is what was encoded *)
Theorem c15_wire_round_trip : forall c ls, nonneg (c_ntypes c) = true -> decode (encode c ls) = Some (c, ls).
Proof. exact decode_encode. Qed.
Print Assumptions c15_wire_round_trip.

Theorem c15_wire_labels_round_trip : forall tr fin, forallb op_label tr = true -> (fin = 0 \/ fin = 4 \/ fin = 5)%Z ->
  wire_labels (wire_of tr fin) = Some (tr, fin).
Proof. exact wire_labels_of. Qed.
Print Assumptions c15_wire_labels_round_trip.

Theorem c15_monitor_case_on_runs : forall c sched fin, cfg_wf c = true -> nonneg (c_ntypes c) = true -> (fin = 0 \/ fin = 4 \/ fin = 5)%Z ->
  monitor_case (wire_of_run c sched fin) = d_monitor (dcfg_of_cfg c) (trace step (init_of c) sched) fin.
Proof. exact monitor_case_run. Qed.
Print Assumptions c15_monitor_case_on_runs.

(* harness-shaped runs are disciplined: the run conform_case finds for an accepted label list *)
Theorem c15_accepted_run_is_disciplined : forall fuel st tr, accepted fuel st tr = true ->
  exists sched, trace step st sched = tr /\ disciplined step thrs stim st sched.
Proof. exact accepted_disciplined. Qed.
Print Assumptions c15_accepted_run_is_disciplined.

(* rules 1-3: a reported value is the event of a started, not failed Emit of a subscribed type *)
Theorem c15_monitor_rule1 : read_rule_ok 1. Proof. exact rule1_ok. Qed.
Print Assumptions c15_monitor_rule1.
Theorem c15_monitor_rule2 : read_rule_ok 2. Proof. exact rule2_ok. Qed.
Print Assumptions c15_monitor_rule2.
Theorem c15_monitor_rule3 : read_rule_ok 3. Proof. exact rule3_ok. Qed.
Print Assumptions c15_monitor_rule3.
(* rule 4: nothing is delivered to a receive that started after Close returned (uses the discipline) *)
Theorem c15_monitor_rule4 : read_rule_ok 4. Proof. exact rule4_ok. Qed.
Print Assumptions c15_monitor_rule4.
(* rule 5: no duplicates *)
Theorem c15_monitor_rule5 : read_rule_ok 5. Proof. exact rule5_ok. Qed.
Print Assumptions c15_monitor_rule5.
(* rule 6: an event whose Emit returned before Subscribe started arrives only as the retained event of a
   stateful type, first of its type, and it is the last such event *)
Theorem c15_monitor_rule6 : read_rule_ok 6. Proof. exact rule6_ok. Qed.
Print Assumptions c15_monitor_rule6.
(* rule 7: no event is overtaken by the event of a later, non-overlapping Emit *)
Theorem c15_monitor_rule7 : read_rule_ok 7. Proof. exact rule7_ok. Qed.
Print Assumptions c15_monitor_rule7.
(* rule 8: a due retained event is delivered before fresh events of its type *)
Theorem c15_monitor_rule8 : read_rule_ok 8. Proof. exact rule8_ok. Qed.
Print Assumptions c15_monitor_rule8.
(* rule 9: Emit does not return while a subscriber's channel is full (no drop) *)
Theorem c15_monitor_rule9 : quiet_rule_ok 9. Proof. exact rule9_ok. Qed.
Print Assumptions c15_monitor_rule9.
(* rule 10: a consumer waiting at a quiescent point has been handed everything that is due (uses the discipline) *)
Theorem c15_monitor_rule10 : quiet_rule_ok 10. Proof. exact rule10_ok. Qed.
Print Assumptions c15_monitor_rule10.
(* rule 14: after Close of a typed subscription returned, no receive on it is left unanswered at a quiescent point
   (the channel is closed); with rule 4: after ANY Close call returned nothing more is delivered *)
Theorem c15_monitor_rule14 : quiet_rule_ok 14. Proof. exact rule14_ok. Qed.
Print Assumptions c15_monitor_rule14.
(* rule 12 from rule 13: at the end marker (final_ok) nothing is left in flight *)
Theorem c15_monitor_rule12_from_rule13 : forall o tr, all_closing tr (length (o_sub o)) -> all_subscribed tr (length (o_sub o)) ->
  blocked_badly o tr = None -> existsb (fun t => o_started tr t && negb (o_returned tr t)) (o_ops o) = false.
Proof. exact rule12_from_13. Qed.
Print Assumptions c15_monitor_rule12_from_rule13.

(* the invariants the rule theorems rest on, for every schedule of every well-formed configuration *)
Theorem c15_promise_provenance : forall st sched, wf_init st -> NoDup (map eev (emits st)) -> Prom (run step st sched) (trace step st sched).
Proof. exact prom_run. Qed.
Print Assumptions c15_promise_provenance.
Theorem c15_node_registration : forall c s1, cfg_wf c = true -> RegA (St c s1).
Proof. exact rega_cfg. Qed.
Print Assumptions c15_node_registration.
Theorem c15_must_deliver : forall c s1, cfg_wf c = true -> MD (St c s1) (Tr c s1).
Proof. exact md_cfg. Qed.
Print Assumptions c15_must_deliver.
Theorem c15_emit_never_drops : forall c s1 s cs k e, cfg_wf c = true -> nth_error (subs (St c s1)) s = Some cs -> nth_error (emits (St c s1)) k = Some e ->
  a_fresh (Tr c s1) s k = true -> a_ok (Tr c s1) k = true -> o_started (Tr c s1) (TClose s) = false ->
  (match styps cs with None => True | Some tys => exists m, nth_error (emitters (St c s1)) (eem e) = Some m /\ In (mty m) tys end) ->
  In (eev e) (map snd (hist cs)).
Proof. exact fresh_delivered. Qed.
Print Assumptions c15_emit_never_drops.

(* the replay side: which node an Emit locks, what a node retains, old events, due replays *)
Theorem c15_same_node : forall c s1, cfg_wf c = true -> SN (St c s1) (Tr c s1).
Proof. exact sn_cfg. Qed.
Print Assumptions c15_same_node.
Theorem c15_retained_event : forall c s1, cfg_wf c = true -> NL (St c s1) (Tr c s1).
Proof. exact nl_cfg. Qed.
Print Assumptions c15_retained_event.
Theorem c15_old_event_is_the_retained_one : forall c s1, cfg_wf c = true -> OLD (St c s1) (Tr c s1).
Proof. exact old_cfg. Qed.
Print Assumptions c15_old_event_is_the_retained_one.
Theorem c15_due_replay_is_promised_first : forall c s1, cfg_wf c = true -> ZI (St c s1) (Tr c s1).
Proof. exact z_cfg. Qed.
Print Assumptions c15_due_replay_is_promised_first.

(* THE HEADLINE: THE MONITOR ACCEPTS EVERY TRACE OF THE MODEL.  For every well-formed
   configuration, every disciplined schedule and fin = 0 (the log stops) or fin = 5 (end marker,
   written in a final_ok state: quiescent, every returned Subscribe closing, no Subscribe still
   in flight - the last conjunct excludes exactly the known finding, the crossing multi-type
   Subscribe deadlock, see c15_no_deadlock_full_refuted), monitor_case run on the WIRE line the
   harness would write for that run answers [] (accepted): all of rules 1-14, with the monitor's
   own functions, decoding included. *)
Theorem c15_monitor_accepts_model : forall c sched fin,
  cfg_wf c = true -> nonneg (c_ntypes c) = true -> Disc c sched ->
  (fin = 0 \/ (fin = 5 /\ final_ok c sched))%Z ->
  monitor_case (wire_of_run c sched fin) = [].
Proof. exact monitor_accepts_model_l. Qed.
Print Assumptions c15_monitor_accepts_model.

(* ==== THE REJECTED SUBSCRIBE CALL (an entry of the type list is not a pointer / is nil) ========
   In the model: the subscription wired to no type (rejected_sub c := styps c = Some []).
   It is a NO-OP ON THE BUS STATE: each of its two steps (start; return of the error, code 1) leaves nodes,
   bus map, wildcard node, emitters, emits and every other subscription untouched and changes nothing of
   its own record but the program counter - from ANY state, reachable or not. *)
Theorem c15_rejected_subscribe_is_noop : forall st s c l st',
  nth_error (subs st) s = Some c -> rejected_sub c -> (spc c = S0 \/ spc c = SRet) ->
  step st (TSub s) = Some (l, st') ->
  nodes st' = nodes st /\ bmap st' = bmap st /\ wild st' = wild st /\ emitters st' = emitters st /\
  emits st' = emits st /\ panicked st' = panicked st /\ blk st' = blk st /\
  exists p, subs st' = upd (subs st) s (c_spc c p) /\
    ((spc c = S0 /\ p = SRet /\ l = Some (LStart (TSub s))) \/ (spc c = SRet /\ p = SDone /\ l = Some (LRet (TSub s) 1%Z))).
Proof. exact rejected_subscribe_noop. Qed.
Print Assumptions c15_rejected_subscribe_is_noop.

(* ... and it never waits for anything *)
Theorem c15_rejected_subscribe_never_blocks : forall st s c,
  nth_error (subs st) s = Some c -> rejected_sub c -> (spc c = S0 \/ spc c = SRet) ->
  exists l st', step st (TSub s) = Some (l, st').
Proof. exact rejected_subscribe_never_blocks. Qed.
Print Assumptions c15_rejected_subscribe_never_blocks.

(* an error return of Subscribe is seen in a model trace only for a rejected call (every schedule, any start state) *)
Theorem c15_error_return_only_when_rejected : forall st sched s,
  o_rejected (trace step st sched) s = true ->
  exists c, nth_error (subs (run step st sched)) s = Some c /\ rejected_sub c.
Proof. exact rej_run. Qed.
Print Assumptions c15_error_return_only_when_rejected.

(* the channel of a rejected call is listed nowhere, so nothing is ever sent to it *)
Theorem c15_rejected_never_listed : forall st sched x c, wf_init st ->
  nth_error (subs (run step st sched)) x = Some c -> rejected_sub c ->
  (forall n nd, nth_error (nodes (run step st sched)) n = Some nd -> ~ In x (sinks nd)) /\
  ~ In x (wsinks (wild (run step st sched))).
Proof. exact rejected_never_listed. Qed.
Print Assumptions c15_rejected_never_listed.

(* "never deadlocks / an emit blocks [only] when a subscriber is slow", the Emit instance of rule 13 spelled out: at
   every quiescent point of every run an Emit that has not returned has a subscription to blame that is
   somebody's - its Subscribe call has begun and did not return an error (o_root demands negb (o_rejected ..)),
   its Close has not started, its consumer is not receiving *)
Theorem c15_stalled_emit_has_live_root : forall st sched k, wf_init st ->
  quiescent step thrs stim (run step st sched) = true -> In (TEmit k) (o_ops (ocfg_of_state st)) ->
  o_started (trace step st sched) (TEmit k) = true -> o_returned (trace step st sched) (TEmit k) = false ->
  o_legit (ocfg_of_state st) (trace step st sched) (TEmit k) = true.
Proof. exact stalled_emit_has_live_root. Qed.
Print Assumptions c15_stalled_emit_has_live_root.

(* ---- non-vacuity ------------------------------------------------------------- *)
(* one stateful emitter of type 0, one typed subscription (buffer 1), events 100
   and 101: Emit(100); Subscribe; receive 100 (replay); Emit(101); receive 101;
   Close - accepted by the LTS and by the monitor *)
Definition ex_good : list Z := [1; 1; 1; 2; 0; 1; 0; 1; 1; 0; 0; 100; 0; 101; 15; 0; 0; 0; 0; 1; 0; 0; 0; 0; 2; 0; 0; 1; 2; 0; 0; 0; 3; 0; 0; 1; 3; 0; 0; 2; 0; 0; 0; 3; 0; 0; 100; 0; 2; 1; 0; 1; 2; 1; 0; 2; 0; 0; 0; 3; 0; 0; 101; 0; 4; 0; 0; 1; 4; 0; 0; 5; 0; 0; 0]%Z.
Example ex_good_ok : conform_case ex_good = [] /\ monitor_case ex_good = [].
Proof. vm_compute. split; reflexivity. Qed.

(* the same run with 100 delivered twice: not a trace of the LTS, and the monitor
   reports rule 5 (duplicate) *)
Definition ex_dup : list Z := [1; 1; 1; 2; 0; 1; 0; 1; 1; 0; 0; 100; 0; 101; 15; 0; 0; 0; 0; 1; 0; 0; 0; 0; 2; 0; 0; 1; 2; 0; 0; 0; 3; 0; 0; 1; 3; 0; 0; 2; 0; 0; 0; 3; 0; 0; 100; 0; 2; 1; 0; 1; 2; 1; 0; 2; 0; 0; 0; 3; 0; 0; 100; 0; 4; 0; 0; 1; 4; 0; 0; 5; 0; 0; 0]%Z.
Example ex_dup_rejected : conform_case ex_dup <> [] /\ monitor_case ex_dup = [902; 5; 11; 0; 100]%Z.
Proof. vm_compute. split; [discriminate|reflexivity]. Qed.

(* the retained event is skipped (101 arrives while the consumer waits, 100 never): rule 10 *)
Definition ex_noreplay : list Z := [1; 1; 1; 2; 0; 1; 0; 1; 1; 0; 0; 100; 0; 101; 13; 0; 0; 0; 0; 1; 0; 0; 0; 0; 2; 0; 0; 1; 2; 0; 0; 0; 3; 0; 0; 1; 3; 0; 0; 2; 0; 0; 0; 0; 2; 1; 0; 1; 2; 1; 0; 3; 0; 0; 101; 0; 4; 0; 0; 1; 4; 0; 0; 5; 0; 0; 0]%Z.
Example ex_noreplay_rejected : conform_case ex_noreplay <> [] /\ monitor_case ex_noreplay = [902; 10; 7; 0]%Z.
Proof. vm_compute. split; [discriminate|reflexivity]. Qed.

(* buffer 0, two Emits return although nothing was received (dropped): rule 9 *)
Definition ex_drop : list Z := [1; 1; 1; 2; 0; 1; 0; 0; 1; 0; 0; 100; 0; 101; 11; 0; 0; 0; 0; 1; 0; 0; 0; 0; 3; 0; 0; 1; 3; 0; 0; 0; 2; 0; 0; 1; 2; 0; 0; 0; 2; 1; 0; 1; 2; 1; 0; 2; 0; 0; 0; 3; 0; 0; 101; 5; 0; 0; 0]%Z.
Example ex_drop_rejected : conform_case ex_drop <> [] /\ monitor_case ex_drop = [902; 9; 6; 0]%Z.
Proof. vm_compute. split; [discriminate|reflexivity]. Qed.

(* an event is received after Close returned: rule 4 *)
Definition ex_afterclose : list Z := [1; 1; 1; 2; 0; 1; 0; 1; 1; 0; 0; 100; 0; 101; 11; 0; 0; 0; 0; 1; 0; 0; 0; 0; 3; 0; 0; 1; 3; 0; 0; 0; 2; 0; 0; 1; 2; 0; 0; 0; 4; 0; 0; 1; 4; 0; 0; 2; 0; 0; 0; 3; 0; 0; 100; 5; 0; 0; 0]%Z.
Example ex_afterclose_rejected : conform_case ex_afterclose <> [] /\ monitor_case ex_afterclose = [902; 4; 9; 0; 100]%Z.
Proof. vm_compute. split; [discriminate|reflexivity]. Qed.

(* Emit and Close never return: the no-deadlock clause (rule 13: the Emit is blocked at
   the final quiescent point although the subscription is being closed) *)
Definition ex_stuck : list Z := [1; 1; 1; 2; 0; 1; 0; 0; 1; 0; 0; 100; 0; 101; 7; 0; 0; 0; 0; 1; 0; 0; 0; 0; 3; 0; 0; 1; 3; 0; 0; 0; 2; 0; 0; 0; 4; 0; 0; 5; 0; 0; 0]%Z.
Example ex_stuck_rejected : monitor_case ex_stuck = [902; 13; 6; 2; 0]%Z.
Proof. vm_compute. reflexivity. Qed.

(* a reachable state meeting the hypotheses of the progress lemma: the emitter
   holds n.lk and is stalled on the full unbuffered channel of a subscriber that
   nobody reads *)
Definition ex_init : state := init_state 1 [new_sub (Some [0]) 0] [new_emitter 0 false] [new_emit 0 100%Z].
Definition ex_sched : list thr :=
  [TEmNew 0; TEmNew 0; TEmNew 0; TEmNew 0; TSub 0; TSub 0; TSub 0; TReplay 0 0; TSub 0; TEmit 0; TEmit 0; TEmit 0; TEmit 0].
Example ex_stalled :
  initial ex_init /\
  (exists nd, nth_error (nodes (run step ex_init ex_sched)) 0 = Some nd /\ holder nd = Some (TEmit 0)) /\
  step (run step ex_init ex_sched) (TEmit 0) = None /\
  (exists c, nth_error (subs (run step ex_init ex_sched)) 0 = Some c /\ room c = false /\ closed c = false /\ expd c = [(0, 100%Z)] /\ hist c = []).
Proof.
  split; [exact (init_state_initial 1 [(Some [0], 0)] [new_emitter 0 false] [(0, 100%Z)])|].
  vm_compute. split; [eexists; split; reflexivity|]. split; [reflexivity|]. eexists. repeat split.
Qed.

(* the hypotheses of c15_no_deadlock are satisfiable in a state with an unfinished
   Emit: the stalled state above after its consumer started a receive *)
Example ex_no_deadlock_hyps :
  let st := run step ex_init (ex_sched ++ [TReq 0]) in
  fresh_init ex_init /\ consumers_live st /\ in_flight st = true.
Proof.
  split; [exact (init_state_fresh_init 1 [(Some [0], 0)] [(0, false)] [(0, 100%Z)])|]. split; [|vm_compute; reflexivity].
  intros s c H. destruct s as [|s]; [|vm_compute in H; destruct s; discriminate].
  vm_compute in H. inversion H; subst. intros _ R. vm_compute in R. discriminate.
Qed.

(* Emitter(T0); Subscribe([new(T0), 5], buffer 0) is rejected; Emit returns; Emitter.Close: a trace of the
   LTS, accepted by the monitor *)
Definition ex_rej_good : list Z := [1; 1; 1; 1; 0; 0; 4; 0; 1; 0; 0; 100; 9; 0; 0; 0; 0; 1; 0; 0; 0; 0; 3; 0; 0; 1; 3; 0; 1; 0; 2; 0; 0; 1; 2; 0; 0; 0; 1; 0; 0; 1; 1; 0; 0; 5; 0; 0; 0]%Z.
Example ex_rej_good_ok : conform_case ex_rej_good = [] /\ monitor_case ex_rej_good = [].
Proof. vm_compute. split; reflexivity. Qed.

(* the same history on a bus where the rejected call left its sink behind: the Emit never returns although no
   subscription exists, a second Emit is started behind it - not a trace of the LTS (the second start comes
   in a state that cannot be quiescent: the first Emit can always go on), and the monitor reports rule 13
   for the first Emit (2, 0) at that point *)
Definition ex_rej_leak : list Z := [1; 1; 1; 2; 0; 0; 4; 0; 1; 0; 0; 100; 0; 101; 7; 0; 0; 0; 0; 1; 0; 0; 0; 0; 3; 0; 0; 1; 3; 0; 1; 0; 2; 0; 0; 0; 2; 1; 0; 5; 0; 0; 0]%Z.
Example ex_rej_leak_rejected : conform_case ex_rej_leak = [901; 6]%Z /\ monitor_case ex_rej_leak = [902; 13; 5; 2; 0]%Z.
Proof. vm_compute. split; reflexivity. Qed.

(* a rejected call that answers "ok" is not a trace of the LTS *)
Definition ex_rej_accepted : list Z := [1; 1; 1; 1; 0; 0; 4; 0; 1; 0; 0; 100; 3; 0; 3; 0; 0; 1; 3; 0; 0; 5; 0; 0; 0]%Z.
Example ex_rej_accepted_rejected : conform_case ex_rej_accepted <> [].
Proof. vm_compute. discriminate. Qed.

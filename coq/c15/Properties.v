(* C15 — property theorems only.  Each is closed by [exact] of a lemma from
   Proofs*.v and followed by Print Assumptions. *)
From Coq Require Import List Arith ZArith Bool.
From Verif Require Import lib.Wire c15.Lts c15.Model c15.Spec c15.Proofs.
Import ListNotations.

(* what conform_case establishes for a recorded run: the label trace of the
   implementation is the visible trace of the LTS under some schedule, so every
   theorem below about all schedules applies to it *)
Theorem c15_accepted_trace_is_model_trace : forall fuel st tr,
  accepted fuel st tr = true -> exists sched, trace step st sched = tr.
Proof. exact accepted_sound. Qed.
Print Assumptions c15_accepted_trace_is_model_trace.

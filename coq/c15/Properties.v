(* C15 — property theorems only (each closed by [exact] of a lemma). *)
From Coq Require Import List Arith ZArith Bool.
From Verif Require Import lib.Wire c15.Lts c15.Model c15.Spec.
Import ListNotations.

(* an accepted label trace is the visible trace of the LTS under some schedule *)
Theorem c15_trace_accepted_sound : forall fuel st tr,
  accepted fuel st tr = true -> exists sched, trace step st sched = tr.
Proof.
  intros fuel st tr H. eapply trace_accepted_sound; [|exact H].
  intros a b E. destruct a, b; cbn in E; try discriminate;
    repeat match goal with
    | H : _ && _ = true |- _ => apply andb_true_iff in H; destruct H
    end.
  all: admit.
Abort.

(* C15 — the keep flag of a node: set exactly by stateful emitters registered on it; n.last is
   only written while keep is set. *)
From Coq Require Import List Arith ZArith Bool Lia.
From Verif Require Import lib.Wire c15.Lts c15.Model c15.Spec c15.Proofs c15.Proofs_Chan c15.Proofs_Loc c15.Proofs_List c15.Proofs_Safe
  c15.Proofs_Init c15.Proofs_Live c15.Proofs_Pend c15.Proofs_Idx c15.Proofs_Dead c15.Proofs_Prog c15.Proofs_Valid c15.Proofs_WildOK
  c15.Proofs_Blk c15.Proofs_Obs c15.Proofs_Rule13 c15.Proofs_Mon c15.Proofs_Tr c15.Proofs_Cpl c15.Proofs_RCtx c15.Proofs_R3 c15.Proofs_R5 c15.Proofs_R4
  c15.Proofs_RegRun c15.Proofs_MD c15.Proofs_NodeEv.
Import ListNotations.

Record KP (st : state) : Prop := {
  kp1 : forall n nd, nth_error (nodes st) n = Some nd -> keep nd = false -> nlast nd = None;
  kp2 : forall n nd, nth_error (nodes st) n = Some nd -> keep nd = true ->
        exists j m, nth_error (emitters st) j = Some m /\ mstateful m = true /\ mnode m = n /\ 3 <= mnew m;
  kp3 : forall j m, nth_error (emitters st) j = Some m -> mstateful m = true -> 3 <= mnew m ->
        exists nd, nth_error (nodes st) (mnode m) = Some nd /\ keep nd = true }.

Lemma emitter_static : forall st t l st' j m m', step st t = Some (l, st') -> nth_error (emitters st) j = Some m ->
  nth_error (emitters st') j = Some m' -> mty m' = mty m /\ mstateful m' = mstateful m.
Proof.
  intros st t l st' j m m' E Hj Hj'. pose proof (step_ds _ _ _ _ E) as H. unfold dstat in H. inversion H as [[A B C]].
  unfold sE in A. assert (X : nth_error (map fE (emitters st')) j = nth_error (map fE (emitters st)) j) by (rewrite A; reflexivity).
  rewrite !nth_error_map, Hj, Hj' in X. cbn in X. unfold fE in X. inversion X. auto.
Qed.

Lemma emitter_fwd : forall st t l st' j m, step st t = Some (l, st') -> nth_error (emitters st) j = Some m ->
  exists m', nth_error (emitters st') j = Some m' /\ mty m' = mty m /\ mstateful m' = mstateful m /\ (2 <= mnew m -> mnode m' = mnode m) /\ mnew m <= mnew m'.
Proof.
  intros st t l st' j m E Hj.
  assert (L : length (emitters st') = length (emitters st)).
  { pose proof (step_ds _ _ _ _ E) as H. unfold dstat in H. inversion H as [[A B C]]. unfold sE in A.
    rewrite <- (map_length fE (emitters st')), A, map_length. reflexivity. }
  destruct (nth_error (emitters st') j) as [m'|] eqn:Hj'; [|apply nth_error_None in Hj'; assert (j < length (emitters st)) by (apply nth_error_Some; congruence); lia].
  destruct (emitter_back _ _ _ _ _ _ E Hj') as [m0 [H0 [A [B [C _]]]]]. rewrite Hj in H0. inversion H0; subst m0.
  destruct (emitter_static _ _ _ _ _ _ _ E Hj Hj') as [S1 S2]. exists m'. repeat split; auto.
Qed.

Lemma kv_nth : forall st n nd, nth_error (nodes st) n = Some nd -> nth_error (kv st) n = Some (nty nd, keep nd, nlast nd).
Proof. intros. unfold kv. rewrite nth_error_map, H. reflexivity. Qed.
Lemma kv_inv : forall st n x, nth_error (kv st) n = Some x -> exists nd, nth_error (nodes st) n = Some nd /\ x = (nty nd, keep nd, nlast nd).
Proof. intros st n x H. unfold kv in H. rewrite nth_error_map in H. destruct (nth_error (nodes st) n) as [nd|]; [|discriminate]. exists nd. inversion H. auto. Qed.

Lemma step_kp : forall st t l st', Valid st -> KP st -> step st t = Some (l, st') -> KP st'.
Proof.
  intros st t l st' V [K1 K2 K3] E. pose proof (step_node_ev _ _ _ _ E) as Ev.
  (* how a node of the new state relates to the old one *)
  assert (BK : forall n nd', nth_error (nodes st') n = Some nd' ->
     (keep nd' = false /\ nlast nd' = None /\ length (nodes st) <= n) \/
     exists nd, nth_error (nodes st) n = Some nd /\
       ((keep nd' = keep nd /\ (nlast nd' = nlast nd \/ keep nd = true)) \/
        (exists j m, t = TEmNew j /\ nth_error (emitters st) j = Some m /\ mnew m = 2 /\ mnode m = n /\ keep nd' = (keep nd || mstateful m) /\ nlast nd' = nlast nd))).
  { intros n nd' Hn'. pose proof (kv_nth _ _ _ Hn') as X.
    destruct Ev as [S|ty S|k e m nd Ht Ek Ep Em En Eh S|j m nd Ht Ej Em En S]; rewrite S in X.
    - destruct (kv_inv _ _ _ X) as [nd [En Y]]. inversion Y. right. exists nd. split; [exact En|]. left. split; [congruence|left; congruence].
    - apply nth_error_app_inv in X. destruct X as [X|[Hl Y]].
      + destruct (kv_inv _ _ _ X) as [nd [En Y]]. inversion Y. right. exists nd. split; [exact En|]. left. split; [congruence|left; congruence].
      + inversion Y. left. unfold kv in Hl. rewrite map_length in Hl. repeat split; auto. lia.
    - apply nth_error_upd_inv in X. destruct X as [[-> [Y _]]|[N X]].
      + inversion Y as [[Y1 Y2 Y3]]. right. exists nd. split; [exact En|]. left. split; [congruence|]. destruct (keep nd); [right; reflexivity|left; congruence].
      + destruct (kv_inv _ _ _ X) as [nd0 [En0 Y]]. inversion Y. right. exists nd0. split; [exact En0|]. left. split; [congruence|left; congruence].
    - apply nth_error_upd_inv in X. destruct X as [[-> [Y _]]|[N X]].
      + inversion Y as [[Y1 Y2 Y3]]. right. exists nd. split; [exact En|]. right. exists j, m. repeat split; auto.
      + destruct (kv_inv _ _ _ X) as [nd0 [En0 Y]]. inversion Y. right. exists nd0. split; [exact En0|]. left. split; [congruence|left; congruence]. }
  (* nodes persist, keep only rises *)
  assert (FW : forall n nd, nth_error (nodes st) n = Some nd -> exists nd', nth_error (nodes st') n = Some nd' /\ (keep nd = true -> keep nd' = true)).
  { intros n nd Hn. pose proof (kv_nth _ _ _ Hn) as X.
    assert (Y : exists x, nth_error (kv st') n = Some x /\ (keep nd = true -> snd (fst x) = true)).
    { destruct Ev as [S|ty S|k e m nd0 Ht Ek Ep Em En Eh S|j m nd0 Ht Ej Em En S]; rewrite S.
      - eexists. split; [exact X|auto].
      - eexists. split; [apply nth_error_app_old; exact X|auto].
      - destruct (Nat.eq_dec (mnode m) n) as [Hq|Hq].
        + subst n. rewrite En in Hn. inversion Hn; subst nd0. eexists. split; [eapply nth_error_upd_eq; exact X|auto].
        + eexists. split; [rewrite nth_error_upd_neq by assumption; exact X|auto].
      - destruct (Nat.eq_dec (mnode m) n) as [Hq|Hq].
        + subst n. rewrite En in Hn. inversion Hn; subst nd0. eexists. split; [eapply nth_error_upd_eq; exact X|]. cbn. intros ->. reflexivity.
        + eexists. split; [rewrite nth_error_upd_neq by assumption; exact X|auto]. }
    destruct Y as [x [Hx Hk]]. destruct (kv_inv _ _ _ Hx) as [nd' [Hn' Y]]. exists nd'. split; [exact Hn'|]. subst x. exact Hk. }
  constructor.
  - intros n nd' Hn' Hk. destruct (BK n nd' Hn') as [[_ [X _]]|[nd [Hn [[A B]|[j [m [_ [_ [_ [_ [A B]]]]]]]]]]].
    + exact X.
    + destruct B as [B|B]; [rewrite B; apply (K1 n nd Hn); congruence|congruence].
    + rewrite B. apply (K1 n nd Hn). rewrite Hk in A. symmetry in A. apply orb_false_iff in A. apply A.
  - intros n nd' Hn' Hk. destruct (BK n nd' Hn') as [[X _]|[nd [Hn [[A _]|[j [m [Ht [Ej [Em [Emn [A _]]]]]]]]]]]; [congruence| |].
    + destruct (K2 n nd Hn ltac:(congruence)) as [j [m [Ej [Ms [Mn M3]]]]]. destruct (emitter_fwd _ _ _ _ _ _ E Ej) as [m' [Ej' [_ [S2 [S3 S4]]]]].
      exists j, m'. split; [exact Ej'|]. split; [congruence|]. split; [rewrite S3 by lia; exact Mn|lia].
    + rewrite Hk in A. symmetry in A. apply orb_true_iff in A. destruct A as [A|A].
      * destruct (K2 n nd Hn A) as [j0 [m0 [Ej0 [Ms [Mn M3]]]]]. destruct (emitter_fwd _ _ _ _ _ _ E Ej0) as [m' [Ej' [_ [S2 [S3 S4]]]]].
        exists j0, m'. split; [exact Ej'|]. split; [congruence|]. split; [rewrite S3 by lia; exact Mn|lia].
      * destruct (emitter_fwd _ _ _ _ _ _ E Ej) as [m' [Ej' [_ [S2 [S3 S4]]]]]. exists j, m'. split; [exact Ej'|]. split; [congruence|]. split.
        -- rewrite S3 by lia. exact Emn.
        -- (* the registration step moves mnew from 2 to 3 *)
           subst t. cbn [step] in E. unfold step_emnew in E. rewrite Ej, Em in E. destruct (nth_error (nodes st) (mnode m)) as [ndx|]; [|discriminate].
           destruct (holder ndx); [discriminate|]. inversion E; subst. cbn in Ej'. rewrite (nth_error_upd_eq _ _ _ _ Ej) in Ej'. inversion Ej'; subst m'. cbn. lia.
  - intros j m' Ej' Ms M3. destruct (emitter_back _ _ _ _ _ _ E Ej') as [m [Ej [_ [Nd [Mn _]]]]].
    destruct (emitter_static _ _ _ _ _ _ _ E Ej Ej') as [_ S2].
    destruct (Nat.le_gt_cases 3 (mnew m)) as [Ge|Lt].
    + destruct (K3 j m Ej ltac:(congruence) Ge) as [nd [Hn Hk]]. destruct (FW _ _ Hn) as [nd' [Hn' Hk']]. exists nd'. rewrite Nd by lia. auto.
    + (* the emitter has just been registered *)
      destruct t; try (apply emitters_other in E; [rewrite E in Ej'; rewrite Ej in Ej'; inversion Ej'; subst; lia|exact I]); cbn [step] in E.
      * unfold step_emnew in E. destruct (nth_error (emitters st) j0) as [m0|] eqn:Ej0; [|discriminate].
        destruct (Nat.eq_dec j0 j) as [->|Nj].
        -- rewrite Ej in Ej0. inversion Ej0; subst m0. destruct (mnew m) as [|[|[|?]]] eqn:Em; try lia.
           ++ inversion E; subst. cbn in Ej'. rewrite (nth_error_upd_eq _ _ _ _ Ej) in Ej'. inversion Ej'; subst m'. cbn in M3. lia.
           ++ destruct (with_node st (mty m)) as [[st1 n1]|] eqn:Ew; [|discriminate]. inversion E; subst. cbn in Ej'. rewrite (proj2 (with_node_emits _ _ _ _ Ew)) in Ej'.
              rewrite (nth_error_upd_eq _ _ _ _ Ej) in Ej'. inversion Ej'; subst m'. cbn in M3. lia.
           ++ destruct (nth_error (nodes st) (mnode m)) as [nd|] eqn:Hn; [|discriminate]. destruct (holder nd); [discriminate|]. inversion E; subst.
              cbn in Ej'. rewrite (nth_error_upd_eq _ _ _ _ Ej) in Ej'. inversion Ej'; subst m'. cbn. rewrite (nth_error_upd_eq _ _ _ _ Hn). eexists. split; [reflexivity|].
              cbn. cbn in Ms. rewrite Ms. apply orb_true_r.
        -- exfalso. assert (X : nth_error (emitters st') j = Some m).
           { destruct (mnew m0) as [|[|[|[|?]]]]; try discriminate; try (brute E; inversion E; subst; cbn; rewrite nth_error_upd_neq by assumption; exact Ej).
             destruct (with_node st (mty m0)) as [[st1 n1]|] eqn:Ew; [|discriminate]. inversion E; subst. cbn. rewrite (proj2 (with_node_emits _ _ _ _ Ew)).
             rewrite nth_error_upd_neq by assumption. exact Ej. }
           rewrite X in Ej'. inversion Ej'; subst. lia.
      * exfalso. unfold step_emclose in E. destruct (nth_error (emitters st) j0) as [m0|] eqn:Ej0; [|discriminate].
        assert (X : mnew m' = mnew m).
        { destruct (Nat.eq_dec j0 j) as [->|Nj].
          - rewrite Ej in Ej0. inversion Ej0; subst m0.
            destruct (mcl m); try discriminate; try (brute E; inversion E; subst; cbn in Ej'; rewrite (nth_error_upd_eq _ _ _ _ Ej) in Ej'; inversion Ej'; reflexivity).
            apply otau_Some in E. destruct E as [E _]. apply option_map_Some in E. destruct E as [x [E ->]]. cbn in Ej'. rewrite (proj2 (try_drop_emits _ _ _ E)) in Ej'.
            rewrite (nth_error_upd_eq _ _ _ _ Ej) in Ej'. inversion Ej'; reflexivity.
          - destruct (mcl m0); try discriminate; try (brute E; inversion E; subst; cbn in Ej'; rewrite nth_error_upd_neq in Ej' by assumption; rewrite Ej in Ej'; inversion Ej'; reflexivity).
            apply otau_Some in E. destruct E as [E _]. apply option_map_Some in E. destruct E as [x [E ->]]. cbn in Ej'. rewrite (proj2 (try_drop_emits _ _ _ E)) in Ej'.
            rewrite nth_error_upd_neq in Ej' by assumption. rewrite Ej in Ej'. inversion Ej'; reflexivity. }
        lia.
Qed.

Lemma kp_cfg : forall c s1, cfg_wf c = true -> KP (St c s1).
Proof.
  intros c s1 W. unfold St. apply (coupled_run_all (fun st _ => KP st)).
  - destruct (cfg_wf_init c W) as [[[Hn _] [He _]] _]. constructor.
    + intros n nd H. rewrite Hn in H. destruct n; discriminate.
    + intros n nd H. rewrite Hn in H. destruct n; discriminate.
    + intros j m Hj _ H3. rewrite Forall_forall in He. destruct (He m (nth_error_In _ _ Hj)) as [X _]. lia.
  - intros s0 t l st' K E. destruct (reach_cfg c s0 W) as [G _]. eapply step_kp; [apply G|exact K|exact E].
Qed.

(* C15 — wildcard listing: a wildcard subscription whose Subscribe appended it and whose Close
   has not removed it is in the wildcard sink list; nSinks counts at least the wildcard
   subscriptions between nSinks.Add(1) and nSinks.Add(-1). *)
From Coq Require Import List Arith ZArith Bool Lia.
From Verif Require Import c15.Lts c15.Model c15.Spec c15.Proofs_Chan c15.Proofs_Loc c15.Proofs_List c15.Proofs_Safe
  c15.Proofs_Init c15.Proofs_Live c15.Proofs_Pend c15.Proofs_Idx c15.Proofs_Dead c15.Proofs_Prog c15.Proofs_Valid c15.Proofs_WildOK
  c15.Proofs_Once c15.Proofs_First c15.Proofs_Blk c15.Proofs_Loc3 c15.Proofs_WSI c15.Proofs_TY.
Import ListNotations.

Definition wview := (option (list nat) * sub_pc * close_pc)%type.
Definition fW (c : sub) : wview := (styps c, spc c, cpc c).
Definition wv (st : state) : list wview := map fW (subs st).

Definition counted_spc (p : sub_pc) : bool := match p with SW2 | SW3 | SRet | SDone => true | _ => false end.
Definition counted_cpc (q : close_pc) : bool := match q with K0 | KW1 => true | _ => false end.
Definition wlive (x : wview) : bool :=
  let '(t, p, q) := x in (match t with None => true | Some _ => false end) && counted_spc p && counted_cpc q.

Record RW (ws : list nat) (ns : nat) (v : list wview) : Prop := {
  rw1 : forall s p q, nth_error v s = Some (None, p, q) -> sub_ok_pc p = true -> close_ok_pc q = true -> In s ws;
  rw2 : cntf wlive v <= ns }.
Definition RegW (st : state) : Prop := RW (wsinks (wild st)) (nsinks (wild st)) (wv st).

Definition rw_same (st st' : state) : Prop :=
  wsinks (wild st') = wsinks (wild st) /\ nsinks (wild st') = nsinks (wild st) /\ wv st' = wv st.
Lemma RegW_same : forall st st', RegW st -> rw_same st st' -> RegW st'.
Proof. intros st st' R [A [B C]]. unfold RegW. rewrite A, B, C. exact R. Qed.

Lemma fW_expect : forall l tg it i, map fW (expect_all l tg it i) = map fW l.
Proof. induction l as [|c l IH]; intros; cbn; [reflexivity|]. f_equal. apply IH. Qed.

Ltac rw_fin :=
  unfold rw_same, wv;
  cbn [wild wsinks nsinks subs set_emitter set_emitters set_sub set_subs set_node set_nodes set_blk set_bmap set_wild set_emit set_emits set_panicked];
  repeat split; try reflexivity; try apply fW_expect;
  try (eapply (map_upd_same fW); [eassumption|reflexivity]).

Lemma send_rw : forall st s it st', send st s it = Some st' -> rw_same st st'.
Proof.
  intros st s it st' E. unfold send in E. destruct (nth_error (subs st) s) as [c|] eqn:Ec; [|discriminate].
  destruct (closed c); [inversion E; subst; rw_fin|]. destruct (room c); [|discriminate]. inversion E; subst. rw_fin.
Qed.
Lemma try_drop_rw : forall st ty st', try_drop st ty = Some st' -> rw_same st st'.
Proof. intros st ty st' E. unfold try_drop in E. brute E; inversion E; subst; rw_fin. Qed.
Lemma with_node_rw : forall st ty st1 n, with_node st ty = Some (st1, n) -> rw_same st st1.
Proof.
  intros st ty st1 n E. unfold with_node in E. destruct (lookup st ty) as [sl m] eqn:El.
  destruct (nth_error (nodes sl) m); inversion E; subst.
  unfold lookup in El. destruct (nth_error (bmap st) ty) as [[k|]|]; inversion El; subst; rw_fin.
Qed.
Lemma rw_trans : forall a b c, rw_same a b -> rw_same b c -> rw_same a c.
Proof. intros a b c [A1 [A2 A3]] [B1 [B2 B3]]. unfold rw_same. repeat split; congruence. Qed.

Lemma other_rw : forall st t l st', (match t with TSub _ | TClose _ => False | _ => True end) ->
  step st t = Some (l, st') -> rw_same st st'.
Proof.
  intros st t l st' Ht E. destruct t; try contradiction; cbn [step] in E.
  - unfold step_emnew in E. destruct (nth_error (emitters st) j) as [m|]; [|discriminate].
    destruct (mnew m) as [|[|[|[|?]]]]; try discriminate; try solve [brute E; inversion E; subst; rw_fin].
    destruct (with_node st (mty m)) as [[st1 n]|] eqn:Ew; [|discriminate]. inversion E; subst.
    eapply rw_trans; [eapply with_node_rw; eassumption|rw_fin].
  - unfold step_emclose in E. destruct (nth_error (emitters st) j) as [m|]; [|discriminate].
    destruct (mcl m); try discriminate; try solve [brute E; inversion E; subst; rw_fin].
    apply otau_Some in E. destruct E as [E _]. apply option_map_Some in E. destruct E as [x [E ->]]. eapply rw_trans; [eapply try_drop_rw; eassumption|rw_fin].
  - unfold step_emit in E. destruct (nth_error (emits st) k) as [e|]; [|discriminate].
    destruct (nth_error (emitters st) (eem e)) as [m|]; [|discriminate].
    destruct (epc e) as [| | |n [|x r]|n|n|n [|x r]|c|]; try discriminate; try solve [brute E; inversion E; subst; rw_fin];
      apply otau_Some in E; destruct E as [E _]; apply option_map_Some in E; destruct E as [x0 [E ->]]; (eapply rw_trans; [eapply send_rw; eassumption|rw_fin]).
  - unfold step_replay in E. destruct (nth_error (subs st) s) as [c|] eqn:Ec; [|discriminate].
    destruct (nth_error (rpend c) i) as [[|]|]; try discriminate.
    destruct (nth_error (snodes c) i) as [n|]; [|discriminate]. destruct (nth_error (nodes st) n) as [nd|]; [|discriminate].
    destruct (keep nd); [destruct (nlast nd) as [lv|]|]; try solve [inversion E; subst; rw_fin].
    apply otau_Some in E. destruct E as [E _]. apply option_map_Some in E. destruct E as [x [E ->]].
    eapply rw_trans; [eapply send_rw; eassumption|]. destruct (nth_error (subs x) s) as [c'|] eqn:Ec'; [rw_fin|unfold rw_same; auto].
  - unfold step_drain in E. destruct (nth_error (subs st) s) as [c|] eqn:Ec; [|discriminate]. brute E; inversion E; subst; rw_fin.
  - unfold step_req in E. destruct (nth_error (subs st) s) as [c|] eqn:Ec; [|discriminate]. inversion E; subst; rw_fin.
  - unfold step_recv in E. destruct (nth_error (subs st) s) as [c|] eqn:Ec; [|discriminate]. brute E; inversion E; subst; rw_fin.
  - unfold step_read in E. destruct (nth_error (subs st) s) as [c|] eqn:Ec; [|discriminate]. brute E; inversion E; subst; rw_fin.
Qed.

Lemma RW_upd : forall ws ws' ns ns' v s x x', RW ws ns v -> nth_error v s = Some x ->
  (forall y, In y ws -> y <> s -> In y ws') ->
  (forall p q, x' = (None, p, q) -> sub_ok_pc p = true -> close_ok_pc q = true -> In s ws') ->
  (cntf wlive v + (if wlive x' then 1 else 0) <= ns' + (if wlive x then 1 else 0) \/ (ns <= ns' /\ (wlive x' = true -> wlive x = true))) ->
  RW ws' ns' (upd v s x').
Proof.
  intros ws ws' ns ns' v s x x' [R1 R2] Hs Hw Hx Hc. constructor.
  - intros s0 p q H Hp Hq. apply nth_error_upd_inv in H. destruct H as [[-> [X _]]|[N H]]; [eapply Hx; eauto|].
    apply Hw; [eapply R1; eassumption|exact N].
  - pose proof (cntf_upd wlive v s x' x Hs) as X. destruct Hc as [Hc|[Hc1 Hc2]]; [lia|].
    destruct (wlive x'), (wlive x); try lia; specialize (Hc2 eq_refl); discriminate.
Qed.

Lemma RegW_sub_upd : forall st s c stx c' ws' ns', RegW st -> nth_error (subs st) s = Some c ->
  wv stx = wv st -> wsinks (wild stx) = ws' -> nsinks (wild stx) = ns' -> styps c' = styps c -> cpc c' = cpc c ->
  (forall y, In y (wsinks (wild st)) -> y <> s -> In y ws') ->
  (styps c = None -> sub_ok_pc (spc c') = true -> close_ok_pc (cpc c) = true -> In s ws') ->
  (cntf wlive (wv st) + (if wlive (fW c') then 1 else 0) <= ns' + (if wlive (fW c) then 1 else 0) \/
   (nsinks (wild st) <= ns' /\ (wlive (fW c') = true -> wlive (fW c) = true))) ->
  RegW (set_sub stx s c').
Proof.
  intros st s c stx c' ws' ns' R Ec Hv Hw Hn Ht Hk Hy Hin Hc.
  assert (Vs : nth_error (wv st) s = Some (fW c)) by (unfold wv; rewrite nth_error_map, Ec; reflexivity).
  unfold RegW. cbn [wild set_sub set_subs]. rewrite Hw, Hn.
  unfold wv. cbn [subs set_sub set_subs]. rewrite (map_upd fW). fold (wv stx). rewrite Hv.
  eapply (RW_upd _ _ _ _ _ s (fW c)); [exact R|exact Vs|exact Hy| |exact Hc].
  intros p q X Hp Hq. unfold fW in X. inversion X as [[X1 X2 X3]]. apply Hin; [congruence|rewrite X2; exact Hp|rewrite <- Hk, X3; exact Hq].
Qed.

Lemma sub_rw : forall st s l st', Forall sub_loc (subs st) -> WSV st -> RegW st -> step_sub st s = Some (l, st') -> RegW st'.
Proof.
  intros st s l st' HL W R E. unfold step_sub in E. destruct (nth_error (subs st) s) as [c|] eqn:Ec; [|discriminate].
  assert (Vs : nth_error (wv st) s = Some (fW c)) by (unfold wv; rewrite nth_error_map, Ec; reflexivity).
  destruct (Forall_nth_error _ _ _ _ HL Ec) as [_ [P2 [P3 _]]].
  assert (K0c : spc c <> SDone -> cpc c = K0).
  { intros N. destruct (cpc c) eqn:X; try reflexivity; exfalso; apply N, P2; congruence. }
  destruct (spc c) eqn:Ep.
  - destruct (styps c) as [tys|] eqn:Et; inversion E; subst; (eapply (RegW_sub_upd st s c _ _ _ _ R Ec); try reflexivity; [auto|cbn; intros; congruence|]);
      right; (split; [cbn; lia|]); unfold fW, wlive; cbn; rewrite ?Et; cbn; intros; try discriminate; destruct tys; discriminate.
  - destruct (styps c) as [tys|] eqn:Et; [|discriminate]. destruct (nth_error tys i) as [ty|]; [|discriminate].
    destruct (with_node st ty) as [[st1 n]|] eqn:Ew; [|discriminate]. inversion E; subst. destruct (with_node_rw _ _ _ _ Ew) as [A [B C]].
    eapply (RegW_sub_upd st s c st1 _ _ _ R Ec); try reflexivity; [exact C|rewrite A; auto|intros; congruence|].
    right. rewrite B. split; [cbn; lia|]. unfold fW, wlive. cbn. rewrite Et. cbn. intros; discriminate.
  - destruct (styps c) as [tys|] eqn:Et; [|discriminate]. destruct (nth_error (nodes st) n) as [nd|] eqn:En; [|discriminate].
    destruct (holder nd); [discriminate|]. inversion E; subst. clear E.
    eapply (RegW_sub_upd st s c (set_node st n _) _ _ _ R Ec); try reflexivity; [destruct (keep nd); [destruct (nlast nd)|]; reflexivity|destruct (keep nd); [destruct (nlast nd)|]; reflexivity|auto|intros; congruence|].
    right. split; [cbn; lia|]. unfold fW, wlive. destruct (keep nd); [destruct (nlast nd)|]; cbn; rewrite Et; cbn; intros; discriminate.
  - (* nSinks.Add(1) *)
    inversion E; subst. eapply (RegW_sub_upd st s c (set_wild st _) _ _ _ R Ec); try reflexivity; [auto|intros _ X; discriminate|].
    left. assert (A1 : wlive (fW c) = false) by (unfold fW, wlive; rewrite Ep; cbn; rewrite andb_false_r; reflexivity). rewrite A1.
    pose proof (rw2 _ _ _ R) as R2. cbn [wild nsinks set_wild]. destruct (wlive (fW (c_spc c SW2))); lia.
  - destruct (wpend (wild st)); [discriminate|]. inversion E; subst. eapply (RegW_sub_upd st s c (set_wild st _) _ _ _ R Ec); try reflexivity; [auto|intros _ X; discriminate|].
    right. split; [cbn; lia|]. unfold fW, wlive. cbn. rewrite Ep. auto.
  - (* append to the wildcard list *)
    destruct (Nat.eqb (rdrs (wild st)) 0); [|discriminate]. inversion E; subst. eapply (RegW_sub_upd st s c (set_wild st _) _ _ _ R Ec); try reflexivity.
    + intros y Hy _. cbn. apply in_or_app. left. exact Hy.
    + intros _ _ _. cbn. apply in_or_app. right. left. reflexivity.
    + right. split; [cbn; lia|]. unfold fW, wlive. cbn. rewrite Ep. auto.
  - inversion E; subst. eapply (RegW_sub_upd st s c _ _ _ _ R Ec); try reflexivity; [auto| |].
    + intros Et _ Hq. destruct R as [R1 _]. eapply (R1 s SRet (cpc c)); [rewrite Vs; unfold fW; rewrite Et, Ep; reflexivity|reflexivity|exact Hq].
    + right. split; [cbn; lia|]. unfold fW, wlive. cbn. rewrite Ep. auto.
  - destruct (styps c); discriminate.
Qed.

Lemma cntf_pos : forall {A} (f : A -> bool) l i x, nth_error l i = Some x -> f x = true -> cntf f l >= 1.
Proof.
  intros A f l i x H Hf. unfold cntf. assert (Hin : In x (filter f l)) by (apply filter_In; split; [eapply nth_error_In, H|exact Hf]).
  destruct (filter f l); [contradiction|cbn; lia].
Qed.

Lemma close_rw : forall st s l st', Forall sub_loc (subs st) -> Forall loc3 (subs st) -> RegW st -> step_close st s = Some (l, st') -> RegW st'.
Proof.
  intros st s l st' HL L3 R E. unfold step_close in E. destruct (nth_error (subs st) s) as [c|] eqn:Ec; [|discriminate].
  assert (Vs : nth_error (wv st) s = Some (fW c)) by (unfold wv; rewrite nth_error_map, Ec; reflexivity).
  destruct (Forall_nth_error _ _ _ _ HL Ec) as [_ [P2 [_ P4]]]. destruct (Forall_nth_error _ _ _ _ L3 Ec) as [_ KW].
  (* the general shape: subscription s gets a new Close pc *)
  assert (G : forall stx c' ws' ns', wv stx = wv st -> wsinks (wild stx) = ws' -> nsinks (wild stx) = ns' -> fW c' = (styps c, spc c, cpc c') ->
            (forall y, In y (wsinks (wild st)) -> y <> s -> In y ws') ->
            (styps c = None -> sub_ok_pc (spc c) = true -> close_ok_pc (cpc c') = true -> In s ws') ->
            (cntf wlive (wv st) + (if wlive (fW c') then 1 else 0) <= ns' + (if wlive (fW c) then 1 else 0) \/
             (nsinks (wild st) <= ns' /\ (wlive (fW c') = true -> wlive (fW c) = true))) ->
            RegW (set_sub stx s c')).
  { intros stx c' ws' ns' Hv Hw Hn Hf Hy Hin Hc. unfold RegW. cbn [wild set_sub set_subs]. rewrite Hw, Hn.
    unfold wv. cbn [subs set_sub set_subs]. rewrite (map_upd fW). fold (wv stx). rewrite Hv.
    eapply (RW_upd _ _ _ _ _ s (fW c)); [exact R|exact Vs|exact Hy| |exact Hc].
    intros p q X Hp Hq. rewrite Hf in X. inversion X as [[X1 X2 X3]]. apply Hin; [exact X1|rewrite X2; exact Hp|rewrite X3; exact Hq]. }
  assert (OldIn : styps c = None -> sub_ok_pc (spc c) = true -> close_ok_pc (cpc c) = true -> In s (wsinks (wild st))).
  { intros Et Hp Hq. eapply (rw1 _ _ _ R s (spc c) (cpc c)); [rewrite Vs; unfold fW; rewrite Et; reflexivity|exact Hp|exact Hq]. }
  (* a typed Close pc: nothing to show *)
  assert (TY : forall stx c', typed_cpc (cpc c) = true -> wv stx = wv st -> wsinks (wild stx) = wsinks (wild st) -> nsinks (wild stx) = nsinks (wild st) ->
            fW c' = (styps c, spc c, cpc c') -> RegW (set_sub stx s c')).
  { intros stx c' Tc Hv Hw Hn Hf. assert (Et : styps c <> None) by (intros X; destruct (P4 X) as [_ [Y _]]; congruence).
    eapply G; try eassumption; [auto|intros X; contradiction|]. right. split; [lia|]. rewrite Hf. unfold fW, wlive. destruct (styps c); [cbn; intros; discriminate|contradiction]. }
  destruct (cpc c) eqn:Ek; try discriminate.
  - destruct (spc c) eqn:Ep; try discriminate. inversion E; subst. eapply G; try reflexivity; try (unfold fW; cbn; rewrite Ep; reflexivity); [auto| |].
    + intros Et _ _. apply OldIn; [exact Et|reflexivity|reflexivity].
    + right. split; [cbn; lia|]. unfold fW, wlive. cbn. rewrite ?Ek. destruct (styps c); cbn; [intros; discriminate|rewrite !andb_true_r; auto].
  - destruct (nth_error (snodes c) i) as [n|]; [|discriminate]. destruct (nth_error (nodes st) n) as [nd|]; [|discriminate].
    destruct (holder nd); [discriminate|]. inversion E; subst. apply (TY (set_node st n _)); reflexivity.
  - inversion E; subst. apply TY; reflexivity.
  - destruct (nth_error (snodes c) i) as [n|]; [|discriminate]. destruct (nth_error (nodes st) n) as [nd|]; [|discriminate].
    apply otau_Some in E. destruct E as [E _]. apply option_map_Some in E. destruct E as [x [E ->]]. destruct (try_drop_rw _ _ _ E) as [A [B C]].
    apply (TY x); try assumption; reflexivity.
  - inversion E; subst. apply TY; reflexivity.
  - (* nSinks.Add(-1) *)
    assert (Et : styps c = None) by (apply KW; reflexivity). assert (Ep : spc c = SDone) by (apply P2; congruence).
    inversion E; subst. eapply (G (set_wild st _)); try reflexivity; [auto| |].
    + intros _ Hp _. apply OldIn; [exact Et|exact Hp|reflexivity].
    + left. assert (A1 : wlive (fW c) = true) by (unfold fW, wlive; rewrite Et, Ep, Ek; reflexivity). rewrite A1.
      assert (A2 : wlive (fW (c_cpc c KW2)) = false) by (unfold fW, wlive; cbn; apply andb_false_r). rewrite A2.
      pose proof (rw2 _ _ _ R) as R2. pose proof (cntf_pos wlive _ s _ Vs A1). cbn [wild nsinks set_wild]. lia.
  - assert (Et : styps c = None) by (apply KW; reflexivity).
    destruct (wpend (wild st)); [discriminate|]. inversion E; subst. eapply (G (set_wild st _)); try reflexivity; [auto| |].
    + intros _ Hp _. apply OldIn; [exact Et|exact Hp|reflexivity].
    + right. split; [cbn; lia|]. unfold fW, wlive. cbn. rewrite andb_false_r. intros; discriminate.
  - destruct (Nat.eqb (rdrs (wild st)) 0); [|discriminate]. inversion E; subst. eapply (G (set_wild st _)); try reflexivity.
    + intros y Hy Ny. cbn. apply filter_In. split; [exact Hy|]. apply negb_true_iff, Nat.eqb_neq. exact Ny.
    + intros _ _ X. discriminate.
    + right. split; [cbn; lia|]. unfold fW, wlive. cbn. rewrite andb_false_r. intros; discriminate.
  - inversion E; subst. eapply G; try reflexivity; [auto|intros _ _ X; discriminate|]. right. split; [lia|]. unfold fW, wlive. cbn. rewrite andb_false_r. intros; discriminate.
  - destruct (Nat.eqb (drain c) 3); [|discriminate]. inversion E; subst. eapply G; try reflexivity; [auto|intros _ _ X; discriminate|]. right. split; [lia|]. unfold fW, wlive. cbn. rewrite andb_false_r. intros; discriminate.
  - inversion E; subst. eapply G; try reflexivity; [auto|intros _ _ X; discriminate|]. right. split; [lia|]. unfold fW, wlive. cbn. rewrite andb_false_r. intros; discriminate.
Qed.

Lemma step_rw : forall st t l st', Forall sub_loc (subs st) -> Forall loc3 (subs st) -> WSV st -> RegW st -> step st t = Some (l, st') -> RegW st'.
Proof.
  intros st t l st' HL L3 W R E.
  destruct t; try (eapply RegW_same; [exact R|eapply other_rw; [|exact E]; exact I]); cbn [step] in E.
  - eapply sub_rw; eassumption.
  - eapply close_rw; eassumption.
Qed.

Lemma initial_rw : forall st, initial st -> RegW st.
Proof.
  intros st [_ [Hw [_ [_ [Hs _]]]]]. unfold RegW. rewrite Hw. cbn. constructor.
  - intros s p q H Hp. unfold wv in H. rewrite nth_error_map in H. destruct (nth_error (subs st) s) as [c|] eqn:Ec; [|discriminate].
    rewrite (Forall_nth_error _ _ _ _ Hs Ec) in H. cbn in H. inversion H; subst. discriminate.
  - assert (Z : forall l : list sub, Forall (fun c => c = new_sub (styps c) (ccap c)) l -> cntf wlive (map fW l) = 0).
    { induction l as [|c l IH]; intros H; [reflexivity|]. inversion H; subst. unfold cntf in *. cbn. rewrite H2. cbn. rewrite andb_false_r. cbn. apply IH, H3. }
    unfold wv. rewrite (Z _ Hs). lia.
Qed.

(* C15 — rule 9 (and the first half of rule 10): what an Emit that returned nil after
   Subscribe(s) returned promised to s has entered the channel of s (emit blocks, never
   drops); at a quiescent point the consumer has been handed everything but at most a
   buffer-full. *)
From Coq Require Import List Arith ZArith Bool Lia.
From Verif Require Import lib.Wire c15.Lts c15.Model c15.Spec c15.Proofs c15.Proofs_Chan c15.Proofs_Loc c15.Proofs_List c15.Proofs_Safe
  c15.Proofs_Init c15.Proofs_Once c15.Proofs_First c15.Proofs_Wild c15.Proofs_Thm c15.Proofs_Grow c15.Proofs_Live c15.Proofs_Pend c15.Proofs_Idx c15.Proofs_Dead c15.Proofs_Prog c15.Proofs_Valid c15.Proofs_WildOK
  c15.Proofs_Blk c15.Proofs_Obs c15.Proofs_Loc3 c15.Proofs_WSI c15.Proofs_TY c15.Proofs_Rule13 c15.Proofs_Reads c15.Proofs_Wire c15.Proofs_Disc c15.Proofs_Mon c15.Proofs_MonS
  c15.Proofs_Tr c15.Proofs_Cpl c15.Proofs_RInv c15.Proofs_RCtx c15.Proofs_Prom c15.Proofs_R3 c15.Proofs_CEv c15.Proofs_ChI c15.Proofs_R5 c15.Proofs_Loc4 c15.Proofs_R4
  c15.Proofs_RegA c15.Proofs_RegB c15.Proofs_RegW c15.Proofs_RegRun c15.Proofs_MD c15.Proofs_RF.
Import ListNotations.
Local Open Scope Z_scope.

Lemma rf_cfg : forall c s1, cfg_wf c = true -> RF (St c s1) (Tr c s1).
Proof.
  intros c s1 W. unfold St, Tr. apply (coupled_run_all RF).
  - intros s cs i n nd k e Ec Er. destruct (cfg_wf_init c W) as [[[_ [_ [_ [_ [Hs _]]]]] _] _].
    rewrite (Forall_nth_error _ _ _ _ Hs Ec) in Er. cbn in Er. destruct i; discriminate.
  - intros s0 t l st' R E. destruct (reach_cfg c s0 W) as [G _].
    eapply rf_step; [apply (trok_cfg c s0 W)|apply (prom_cfg c s0 W)|apply (ids_nodup c s0 W)|apply G|exact R|exact E].
Qed.

(* a returned Emit is at its final program counter *)
Lemma ok_done : forall c s1 k e, cfg_wf c = true -> nth_error (emits (St c s1)) k = Some e -> a_ok (Tr c s1) k = true -> epc e = EDone.
Proof.
  intros c s1 k e W Ek Hok. destruct (trok_cfg c s1 W) as [O _ _]. apply ok_returned in Hok.
  pose proof (obM _ _ O k (epc e)) as OM. unfold xM in OM. rewrite nth_error_map, Ek in OM. specialize (OM eq_refl).
  unfold tstat in OM. fold (Tr c s1) in OM. rewrite Hok in OM. destruct (epc e); cbn in OM; try discriminate. reflexivity.
Qed.

(* emit blocks, never drops, in the monitor's terms *)
Lemma fresh_delivered : forall c s1 s cs k e, cfg_wf c = true -> nth_error (subs (St c s1)) s = Some cs -> nth_error (emits (St c s1)) k = Some e ->
  a_fresh (Tr c s1) s k = true -> a_ok (Tr c s1) k = true -> o_started (Tr c s1) (TClose s) = false ->
  (match styps cs with None => True | Some tys => exists m, nth_error (emitters (St c s1)) (eem e) = Some m /\ In (mty m) tys end) ->
  In (eev e) (map snd (hist cs)).
Proof.
  intros c s1 s cs k e W Ec Ek Hf Hok Hc Hm. pose proof (ok_done c s1 k e W Ek Hok) as Ed.
  pose proof (md_cfg c s1 W) as [_ M2 M3]. pose proof (init_initial c W) as Hi.
  destruct (styps cs) as [tys|] eqn:Et.
  - destruct Hm as [m [Em Hty]].
    assert (L : lk_pc false (epc e) (a_ok (Tr c s1) k)) by (rewrite Ed; exact Hok).
    destruct (M2 s cs k e m tys Ec Et Ek Em Hty Hf L) as [X|X]; [|congruence].
    set (n := mnode m) in *.
    assert (P : In (n, eev e) (proj n (expd cs))) by (apply filter_In; split; [exact X|apply Nat.eqb_refl]).
    rewrite <- (exactly_once_in_order_l (init_of c) s1 s cs n Hi Ec ltac:(congruence)) in P. apply in_app_or in P. destruct P as [P|P].
    + apply filter_In in P. apply in_map_iff. exists (n, eev e). split; [reflexivity|apply P].
    + exfalso. unfold pend in P. fold (St c s1) in P. destruct (nth_error (nodes (St c s1)) n) as [nd|] eqn:En; [|contradiction].
      destruct (holder nd) as [[| |k'| |s' i| | | | |]|] eqn:Eh; try contradiction.
      * unfold pend_emit in P. destruct (nth_error (emits (St c s1)) k') as [e'|] eqn:Ek'; [|contradiction].
        destruct (epc e') eqn:Ep'; try contradiction. destruct (Nat.eqb n0 n); [|contradiction]. apply repeat_spec in P. inversion P as [Ev].
        assert (k' = k) by (eapply (Proofs_RCtx.ids_unique c s1); eauto). subst k'. rewrite Ek in Ek'. inversion Ek'; subst e'. congruence.
      * unfold pend_replay in P. destruct (Nat.eqb s' s) eqn:Es; [|contradiction]. apply Nat.eqb_eq in Es. subst s'. rewrite Ec in P.
        destruct (nth_error (rpend cs) i) as [[|]|] eqn:Er; try contradiction. destruct (nth_error (snodes cs) i) as [m'|] eqn:Esn; try contradiction.
        destruct (Nat.eqb m' n) eqn:Em'; [|contradiction]. apply Nat.eqb_eq in Em'. subst m'. unfold retained in P.
        destruct (keep nd); [|contradiction]. destruct (nlast nd) as [lv|] eqn:El; [|contradiction]. destruct P as [P|[]]. inversion P as [Ev].
        pose proof (rf_cfg c s1 W s cs i n nd k e Ec Er Esn En ltac:(congruence) Ek) as F. congruence.
  - assert (L : lk_pc true (epc e) (a_ok (Tr c s1) k)) by (rewrite Ed; exact Hok).
    destruct (M3 s cs k e Ec Et Ek Hf L) as [X|X]; [|congruence].
    assert (P : In (k, eev e) (proj k (expd cs))) by (apply filter_In; split; [exact X|apply Nat.eqb_refl]).
    rewrite <- (wildcard_same_rules_l (init_of c) s1 s cs k Hi Ec Et) in P. apply in_app_or in P. destruct P as [P|P].
    + apply filter_In in P. apply in_map_iff. exists (k, eev e). split; [reflexivity|apply P].
    + exfalso. unfold pendw in P. fold (St c s1) in P. rewrite Ek, Ed in P. contradiction.
Qed.

(* ---- quiescent states ------------------------------------------------------------------ *)
Lemma quiet_stim : forall st t lab st', quiescent step thrs stim st = true -> step st t = Some (Some lab, st') -> stim lab = true.
Proof.
  intros st t lab st' Q E. destruct (stim lab) eqn:S; [reflexivity|exfalso]. apply (quiescent_no_progress st Q).
  exists t, (Some lab), st'. split; [exact E|]. intros lab0 X. inversion X; subst. exact S.
Qed.

Lemma quiet_hand : forall st s cs, quiescent step thrs stim st = true -> nth_error (subs st) s = Some cs -> hand cs = [].
Proof.
  intros st s cs Q Ec. destruct (hand cs) as [|v r] eqn:Eh; [reflexivity|exfalso].
  assert (E : step st (TRead s) = Some (Some (LRead s v), set_sub st s (c_hand cs r))) by (cbn; unfold step_read; rewrite Ec, Eh; reflexivity).
  pose proof (quiet_stim _ _ _ _ Q E) as X. discriminate X.
Qed.

Lemma quiet_want : forall st s cs, quiescent step thrs stim st = true -> nth_error (subs st) s = Some cs -> (want cs > 0)%nat -> closed cs = false -> buf cs = [].
Proof.
  intros st s cs Q Ec Hw Hc. destruct (buf cs) as [|it b] eqn:Eb; [reflexivity|exfalso].
  destruct (want cs) as [|w] eqn:Ew; [lia|].
  eapply (quiet_no_tau st (TRecv s)); [exact Q|]. cbn. unfold step_recv. rewrite Ec, Ew, Eb. reflexivity.
Qed.

(* Subscribe(s) returned, Close(s) not started *)
Lemma open_sub_pcs : forall c s1 s cs, cfg_wf c = true -> nth_error (subs (St c s1)) s = Some cs ->
  o_returned (Tr c s1) (TSub s) = true -> o_started (Tr c s1) (TClose s) = false -> spc cs = SDone /\ cpc cs = K0 /\ closed cs = false /\ drain cs = 0%nat.
Proof.
  intros c s1 s cs W Ec R Hc. destruct (trok_cfg c s1 W) as [O TS _]. destruct (reach_cfg c s1 W) as [G _].
  assert (Sp : spc cs = SDone).
  { pose proof (obS _ _ O s (spc cs)) as N. unfold xS in N. rewrite nth_error_map, Ec in N. specialize (N eq_refl).
    unfold tstat in N. fold (Tr c s1) in N. rewrite R in N. destruct (spc cs); cbn in N; try discriminate. reflexivity. }
  assert (Kp : cpc cs = K0).
  { pose proof (obC _ _ O s (cpc cs)) as N. unfold xC in N. rewrite nth_error_map, Ec in N. specialize (N eq_refl).
    unfold tstat in N. fold (Tr c s1) in N. rewrite Hc in N. destruct (o_returned (Tr c s1) (TClose s)) eqn:X; [rewrite (TS _ X) in Hc; discriminate|].
    destruct (cpc cs); cbn in N; try discriminate. reflexivity. }
  split; [exact Sp|]. split; [exact Kp|]. split.
  - destruct (closed cs) eqn:X; [|reflexivity]. destruct (Forall_nth_error _ _ _ _ (gL _ G) Ec) as [P1 _]. destruct (P1 X); congruence.
  - destruct (Forall_nth_error _ _ _ _ (loc4_cfg c s1 W) Ec) as [Q1 _]. apply Q1, Kp.
Qed.

Lemma filter_all : forall {A} (f : A -> bool) l, (forall x, In x l -> f x = true) -> filter f l = l.
Proof. intros A f l. induction l as [|a l IH]; intros H; [reflexivity|]. cbn. rewrite (H a (or_introl eq_refl)). f_equal. apply IH. intros x Hx. apply H. right. exact Hx. Qed.

(* while the channel is open the consumer has been handed exactly what it received *)
Lemma recv_count : forall c s1 s cs, cfg_wf c = true -> nth_error (subs (St c s1)) s = Some cs -> closed cs = false ->
  reads_d (Tr c s1) s ++ hand cs = map snd (recv cs).
Proof.
  intros c s1 s cs W Ec Hc. destruct (chani_cfg c s1 W s cs Ec) as [_ RD NC _]. unfold cw in RD, NC. cbv beta iota in RD, NC.
  specialize (NC Hc). rewrite <- RD. symmetry. apply filter_all. intros v Hv. rewrite Forall_forall in NC. specialize (NC v Hv).
  unfold nm2. apply negb_true_iff, Z.eqb_neq, NC.
Qed.

(* the monitor's type match, on the state *)
Lemma matches_state : forall c s1 s cs k e, nth_error (subs (St c s1)) s = Some cs -> nth_error (emits (St c s1)) k = Some e ->
  dm_matches (dcfg_of_cfg c) s k = true ->
  match styps cs with None => True | Some tys => exists m, nth_error (emitters (St c s1)) (eem e) = Some m /\ In (mty m) tys end.
Proof.
  intros c s1 s cs k e Ec Ek H. unfold dm_matches in H. rewrite (d_state c s1) in H. fold (St c s1) in H.
  rewrite (dm_wild_state _ _ s cs Ec), (dm_tys_state _ _ s cs Ec), dm_ty_state, Ek in H. destruct (styps cs) as [tys|]; [|exact Logic.I].
  cbn in H. destruct (nth_error (emitters (St c s1)) (eem e)) as [m|]; [|discriminate]. cbn in H. exists m. split; [reflexivity|].
  apply existsb_exists in H. destruct H as [ty [Hin Heq]]. apply Nat.eqb_eq in Heq. subst ty. exact Hin.
Qed.

Definition evk (st : state) (k : nat) : Z := match nth_error (emits st) k with Some e => eev e | None => 0 end.

Lemma due_in_hist : forall c s1 s cs k, cfg_wf c = true -> nth_error (subs (St c s1)) s = Some cs -> o_started (Tr c s1) (TClose s) = false ->
  In k (a_due (dcfg_of_cfg c) (Tr c s1) s) -> In (evk (St c s1) k) (map snd (hist cs)).
Proof.
  intros c s1 s cs k W Ec Hc Hin. unfold a_due in Hin. apply filter_In in Hin. destruct Hin as [Hk H].
  apply andb_true_iff in H. destruct H as [H Hf]. apply andb_true_iff in H. destruct H as [Hm Hok].
  rewrite (d_state c s1), dm_emits_state in Hk. apply in_seq in Hk. fold (St c s1) in Hk.
  destruct (nth_error (emits (St c s1)) k) as [e|] eqn:Ek; [|apply nth_error_None in Ek; lia].
  unfold evk. rewrite Ek. eapply fresh_delivered; try eassumption. eapply matches_state; eassumption.
Qed.

Lemma due_bound : forall c s1 s cs, cfg_wf c = true -> nth_error (subs (St c s1)) s = Some cs -> o_started (Tr c s1) (TClose s) = false ->
  (length (a_due (dcfg_of_cfg c) (Tr c s1) s) <= length (hist cs))%nat.
Proof.
  intros c s1 s cs W Ec Hc. set (due := a_due (dcfg_of_cfg c) (Tr c s1) s).
  apply (Nat.le_trans _ (length (map snd (hist cs)))); [|rewrite map_length; apply Nat.le_refl]. rewrite <- (map_length (evk (St c s1)) due). apply NoDup_incl_length.
  - apply NoDup_map_of_inj.
    + unfold due, a_due. apply NoDup_filter. unfold dm_emits. apply seq_NoDup.
    + intros x y Hx Hy E. unfold due, a_due in Hx, Hy. apply filter_In in Hx, Hy. destruct Hx as [Hx _], Hy as [Hy _].
      rewrite (d_state c s1), dm_emits_state in Hx, Hy. apply in_seq in Hx, Hy. fold (St c s1) in Hx, Hy. unfold evk in E.
      destruct (nth_error (emits (St c s1)) x) as [ex|] eqn:Ex; [|apply nth_error_None in Ex; lia].
      destruct (nth_error (emits (St c s1)) y) as [ey|] eqn:Ey; [|apply nth_error_None in Ey; lia].
      eapply (Proofs_RCtx.ids_unique c s1); eassumption.
  - intros v Hv. apply in_map_iff in Hv. destruct Hv as [k [<- Hk]]. eapply due_in_hist; eassumption.
Qed.

Lemma rule9_ok : quiet_rule_ok 9.
Proof.
  intros c s1 s W D Q Ls. fold (St c s1) in Q. fold (Tr c s1). unfold d_check_quiet. unfold a_returned, a_started.
  destruct (o_returned (Tr c s1) (TClose s) && negb (dm_wild (dcfg_of_cfg c) s) && Nat.ltb (o_nread (Tr c s1) s) (o_nreq (Tr c s1) s)); [discriminate|].
  destruct (o_returned (Tr c s1) (TSub s)) eqn:R; [|cbn; discriminate]. destruct (o_started (Tr c s1) (TClose s)) eqn:Hc; [cbn; discriminate|]. cbn [negb orb].
  assert (Ex : exists cs, nth_error (subs (St c s1)) s = Some cs).
  { destruct (nth_error (subs (St c s1)) s) as [cs|] eqn:Ec; [eauto|]. apply nth_error_None in Ec.
    pose proof (d_state c s1) as Dd. unfold dcfg_of_cfg, dcfg_of_state in Dd. inversion Dd as [[D1 D2 D3]]. fold (St c s1) in D2.
    assert (length (sS (St c s1)) = length (c_subs c)) by (rewrite <- D2, map_length; reflexivity). unfold sS in H. rewrite map_length in H. lia. }
  destruct Ex as [cs Ec]. destruct (open_sub_pcs c s1 s cs W Ec R Hc) as [Sp [Kp [Cl Dr]]].
  assert (B : (length (a_due (dcfg_of_cfg c) (Tr c s1) s) <= o_nread (Tr c s1) s + dm_cap (dcfg_of_cfg c) s)%nat).
  { pose proof (due_bound c s1 s cs W Ec Hc) as DB.
    destruct (chan_integrity_l (init_of c) s1 s cs (init_initial c W) Ec) as [taken [Hh Ht]]. specialize (Ht Dr). subst taken.
    pose proof (recv_count c s1 s cs W Ec Cl) as RC. pose proof (quiet_hand _ s cs Q Ec) as Hh0. rewrite Hh0, app_nil_r in RC.
    assert (Lr : length (recv cs) = o_nread (Tr c s1) s) by (assert (X : length (map snd (recv cs)) = length (recv cs)) by apply map_length; rewrite <- X, <- RC; apply reads_d_length).
    destruct (chani_cfg c s1 W s cs Ec) as [_ _ _ BD]. unfold cw in BD. cbv beta iota in BD. rewrite Dr in BD. cbn in BD.
    assert (Cp : dm_cap (dcfg_of_cfg c) s = ccap cs) by (rewrite (d_state c s1); apply (dm_cap_state _ _ s cs Ec)). rewrite Cp. rewrite Hh, app_length in DB.
    destruct (want cs) as [|w] eqn:Ew; [lia|]. assert (X : buf cs = []) by (apply (quiet_want _ s cs Q Ec); [lia|exact Cl]).
    assert (Lb : length (buf cs) = 0%nat) by (rewrite X; reflexivity). lia. }
  apply Nat.ltb_ge in B. rewrite B. destruct (_ && _); discriminate.
Qed.

(* C15 — two more per-subscription invariants used by the rule-13 theorem: while a
   typed Close is removing the sink and the channel is still open its drainer is
   running; the wildcard Close program counters occur only in wildcard subscriptions. *)
From Coq Require Import List Arith ZArith Bool Lia.
From Verif Require Import c15.Lts c15.Model c15.Spec c15.Proofs_Chan c15.Proofs_Loc c15.Proofs_List c15.Proofs_Safe
  c15.Proofs_Init c15.Proofs_Live c15.Proofs_Pend c15.Proofs_Idx c15.Proofs_Dead c15.Proofs_Prog c15.Proofs_Valid c15.Proofs_WildOK
  c15.Proofs_Once c15.Proofs_First c15.Proofs_Blk.
Import ListNotations.

Definition loc3 (c : sub) : Prop :=
  (typed_cpc (cpc c) = true -> closed c = false -> drain c = 1) /\ (kwpc (cpc c) = true -> styps c = None).

Ltac l3_sub Ec :=
  let y := fresh in let Hy := fresh in let Py := fresh in
  intros y Hy Py; rewrite Ec in Hy; inversion Hy; subst; clear Hy; destruct Py as [Q1 Q2]; unfold loc3; cbn.
Ltac l3_auto := split; intros; try discriminate; try congruence; eauto.

Lemma send_l3 : forall st s it st', Forall loc3 (subs st) -> send st s it = Some st' -> Forall loc3 (subs st').
Proof.
  intros st s it st' H E. unfold send in E. destruct (nth_error (subs st) s) as [c|] eqn:Ec; [|discriminate].
  destruct (closed c). { inversion E; subst. exact H. }
  destruct (room c); [|discriminate]. inversion E; subst. cbn. apply Forall_upd; [exact H|]. l3_sub Ec. auto.
Qed.

Lemma expect_l3 : forall l tg it i, Forall loc3 l -> Forall loc3 (expect_all l tg it i).
Proof. induction l as [|c l IH]; intros tg it i H; cbn; [constructor|]. inversion H; subst. constructor; [exact H2|apply IH; assumption]. Qed.

Lemma step_l3 : forall st t l st', Forall loc3 (subs st) -> step st t = Some (l, st') -> Forall loc3 (subs st').
Proof.
  intros st t l st' H E. destruct t; cbn [step] in E.
  - rewrite (emnew_subs _ _ _ _ E). exact H.
  - rewrite (emclose_subs _ _ _ _ E). exact H.
  - unfold step_emit in E. destruct (nth_error (emits st) k) as [e|]; [|discriminate].
    destruct (nth_error (emitters st) (eem e)) as [m|]; [|discriminate].
    destruct (epc e) as [| | |n [|x r]|n|n|n [|x r]|c|]; try discriminate;
      try solve [brute E; inversion E; subst; cbn; try apply expect_l3; exact H];
      otau_inv E; cbn; eapply send_l3; eassumption.
  - unfold step_sub in E. destruct (nth_error (subs st) s) as [c|] eqn:Ec; [|discriminate].
    destruct (spc c) eqn:Ep.
    + destruct (styps c); inversion E; subst; cbn; (apply Forall_upd; [exact H|]); l3_sub Ec; auto.
    + destruct (styps c) as [tys|]; [|discriminate]. destruct (nth_error tys i) as [ty|]; [|discriminate].
      destruct (with_node st ty) as [[st1 n]|] eqn:Ew; [|discriminate]. inversion E; subst. cbn.
      rewrite (with_node_subs _ _ _ _ Ew). apply Forall_upd; [exact H|]. l3_sub Ec. auto.
    + destruct (styps c) as [tys|]; [|discriminate]. destruct (nth_error (nodes st) n) as [nd|]; [|discriminate].
      destruct (holder nd); [discriminate|]. inversion E; subst. cbn. apply Forall_upd; [exact H|].
      destruct (keep nd); [destruct (nlast nd)|]; l3_sub Ec; auto.
    + inversion E; subst; cbn; (apply Forall_upd; [exact H|]); l3_sub Ec; auto.
    + destruct (wpend (wild st)); [discriminate|]. inversion E; subst; cbn; (apply Forall_upd; [exact H|]); l3_sub Ec; auto.
    + destruct (Nat.eqb (rdrs (wild st)) 0); [|discriminate]. inversion E; subst; cbn; (apply Forall_upd; [exact H|]); l3_sub Ec; auto.
    + inversion E; subst; cbn; (apply Forall_upd; [exact H|]); l3_sub Ec; auto.
    + destruct (styps c); discriminate.
  - unfold step_replay in E. destruct (nth_error (subs st) s) as [c|] eqn:Ec; [|discriminate].
    destruct (nth_error (rpend c) i) as [[|]|]; try discriminate.
    destruct (nth_error (snodes c) i) as [n|]; [|discriminate]. destruct (nth_error (nodes st) n) as [nd|]; [|discriminate].
    destruct (keep nd); [destruct (nlast nd) as [lv|]|]; try solve [inversion E; subst; cbn; apply Forall_upd; [exact H|]; l3_sub Ec; auto].
    otau_inv E. pose proof (send_l3 _ _ _ _ H E) as H1. destruct (nth_error (subs x) s) as [c'|] eqn:Ec'; [|exact H1]. cbn.
    apply Forall_upd; [exact H1|]. l3_sub Ec'. auto.
  - unfold step_close in E. destruct (nth_error (subs st) s) as [c|] eqn:Ec; [|discriminate].
    destruct (cpc c) eqn:Ek; try discriminate.
    + destruct (spc c); try discriminate. inversion E; subst. cbn. apply Forall_upd; [exact H|]. l3_sub Ec.
      destruct (styps H0) as [tys|] eqn:Et; [destruct (snodes H0)|]; l3_auto.
    + destruct (nth_error (snodes c) i) as [n|]; [|discriminate]. destruct (nth_error (nodes st) n) as [nd|]; [|discriminate].
      destruct (holder nd); [discriminate|]. inversion E; subst. cbn. apply Forall_upd; [exact H|]. l3_sub Ec. rewrite Ek in *. unfold knext.
      destruct ((match remove_swap s (sinks nd) with [] => true | _ :: _ => false end) && Nat.eqb (nem nd) 0);
        [|destruct (Nat.ltb (S i) (length (snodes H0)))]; l3_auto.
    + inversion E; subst. cbn. apply Forall_upd; [exact H|]. l3_sub Ec. rewrite Ek in *. l3_auto.
    + destruct (nth_error (snodes c) i) as [n|]; [|discriminate]. destruct (nth_error (nodes st) n) as [nd|]; [|discriminate].
      otau_inv E. cbn. rewrite (try_drop_subs _ _ _ E). apply Forall_upd; [exact H|]. l3_sub Ec. rewrite Ek in *. unfold knext.
      destruct (Nat.ltb (S i) (length (snodes H0))); l3_auto.
    + inversion E; subst. cbn. apply Forall_upd; [exact H|]. l3_sub Ec. rewrite Ek in *. l3_auto.
    + inversion E; subst. cbn. apply Forall_upd; [exact H|]. l3_sub Ec. rewrite Ek in *. l3_auto.
    + destruct (wpend (wild st)); [discriminate|]. inversion E; subst. cbn. apply Forall_upd; [exact H|]. l3_sub Ec. rewrite Ek in *. l3_auto.
    + destruct (Nat.eqb (rdrs (wild st)) 0); [|discriminate]. inversion E; subst. cbn. apply Forall_upd; [exact H|]. l3_sub Ec. rewrite Ek in *. l3_auto.
    + inversion E; subst. cbn. apply Forall_upd; [exact H|]. l3_sub Ec. rewrite Ek in *. l3_auto.
    + destruct (Nat.eqb (drain c) 3); [|discriminate]. inversion E; subst. cbn. apply Forall_upd; [exact H|]. l3_sub Ec. rewrite Ek in *. l3_auto.
    + inversion E; subst. cbn. apply Forall_upd; [exact H|]. l3_sub Ec. rewrite Ek in *. l3_auto.
  - unfold step_drain in E. destruct (nth_error (subs st) s) as [c|] eqn:Ec; [|discriminate].
    destruct (draining c); [|discriminate]. destruct (buf c).
    + destruct (Nat.eqb (drain c) 2 || closed c) eqn:Ex; [|discriminate]. inversion E; subst. cbn.
      apply Forall_upd; [exact H|]. l3_sub Ec. split; [|exact Q2]. intros T Cl. exfalso. rewrite (Q1 T Cl), Cl in Ex. discriminate.
    + inversion E; subst. cbn. apply Forall_upd; [exact H|]. l3_sub Ec. auto.
  - unfold step_req in E. destruct (nth_error (subs st) s) as [c|] eqn:Ec; [|discriminate]. inversion E; subst. cbn.
    apply Forall_upd; [exact H|]. l3_sub Ec. auto.
  - unfold step_recv in E. destruct (nth_error (subs st) s) as [c|] eqn:Ec; [|discriminate].
    destruct (want c); [discriminate|]. destruct (buf c).
    + destruct (closed c) eqn:Ecl; [|discriminate]. inversion E; subst. cbn. apply Forall_upd; [exact H|]. l3_sub Ec. l3_auto.
    + inversion E; subst. cbn. apply Forall_upd; [exact H|]. l3_sub Ec. auto.
  - unfold step_read in E. destruct (nth_error (subs st) s) as [c|] eqn:Ec; [|discriminate].
    destruct (hand c); [discriminate|]. inversion E; subst. cbn. apply Forall_upd; [exact H|]. l3_sub Ec. auto.
Qed.

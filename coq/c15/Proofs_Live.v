(* C15 — progress lemmas (state predicates, not liveness under fairness):
   lock holders never wait for locks, only for channel room; a full open
   channel is emptied by its consumer (if a receive is pending) or by the
   drainer (if Close has started); and no lock is ever leaked: whoever is
   recorded as holder of a node lock is inside that node's critical region. *)
From Coq Require Import List Arith ZArith Bool Lia.
From Verif Require Import c15.Lts c15.Model c15.Proofs_Chan c15.Proofs_Loc c15.Proofs_List c15.Proofs_Safe
  c15.Proofs_Init.
Import ListNotations.

Definition enabled (st : state) (t : thr) : Prop := exists l st', step st t = Some (l, st').

(* thread t is stalled on a send to the full, open channel x; x's consumer (if a
   receive is pending) and x's drainer (if Close has started) can take a step *)
Definition stalled_on_full (st : state) (x : nat) : Prop :=
  exists c, nth_error (subs st) x = Some c /\ closed c = false /\ room c = false /\
            (want c > 0 -> enabled st (TRecv x)) /\ (draining c = true -> enabled st (TDrain x)).

Lemma full_has_item : forall c, room c = false -> (want c > 0 \/ draining c = true) -> buf c <> [].
Proof.
  intros c Hr Hw E. unfold room in Hr. rewrite E in Hr. apply Nat.ltb_ge in Hr. cbn [length] in Hr.
  destruct Hw as [Hw|Hw]; [lia|]. rewrite Hw in Hr. lia.
Qed.

Lemma send_progress : forall st x it c, nth_error (subs st) x = Some c -> closed c = false ->
  (exists st', send st x it = Some st') \/ stalled_on_full st x.
Proof.
  intros st x it c Ec Hc. destruct (room c) eqn:Hr.
  - left. unfold send. rewrite Ec, Hc, Hr. eauto.
  - right. exists c. repeat split; auto.
    + intros Hw. unfold enabled. cbn. unfold step_recv. rewrite Ec.
      destruct (want c) as [|w'] eqn:Ew; [lia|]. destruct (buf c) eqn:Eb; [|unfold tau; eauto].
      exfalso. apply (full_has_item c Hr); [left; lia|exact Eb].
    + intros Hd. unfold enabled. cbn. unfold step_drain. rewrite Ec, Hd.
      destruct (buf c) eqn:Eb; [|unfold tau; eauto]. exfalso. apply (full_has_item c Hr); [right; exact Hd|exact Eb].
Qed.

(* ---- an Emit past its start refers to an existing emitter ------------------- *)
Ltac brute E :=
  repeat match type of E with
         | context[match ?x with _ => _ end] => let Q := fresh "Q" in destruct x eqn:Q; try discriminate
         | context[if ?x then _ else _] => let Q := fresh "Q" in destruct x eqn:Q; try discriminate
         end.

Lemma send_emits : forall st s it st', send st s it = Some st' -> emits st' = emits st /\ emitters st' = emitters st.
Proof. intros st s it st' E. unfold send in E. brute E; inversion E; subst; split; reflexivity. Qed.
Lemma try_drop_emits : forall st t st', try_drop st t = Some st' -> emits st' = emits st /\ emitters st' = emitters st.
Proof. intros st t st' E. unfold try_drop in E. brute E; inversion E; subst; split; reflexivity. Qed.
Lemma lookup_emits : forall st ty, emits (fst (lookup st ty)) = emits st /\ emitters (fst (lookup st ty)) = emitters st.
Proof. intros st ty. unfold lookup. destruct (nth_error (bmap st) ty) as [[n|]|]; split; reflexivity. Qed.
Lemma with_node_emits : forall st ty st1 n, with_node st ty = Some (st1, n) -> emits st1 = emits st /\ emitters st1 = emitters st.
Proof.
  intros st ty st1 n E. unfold with_node in E. pose proof (lookup_emits st ty) as [A B].
  destruct (lookup st ty) as [sl m]. cbn in A, B. destruct (nth_error (nodes sl) m); inversion E; subst. split; assumption.
Qed.

Definition has_emitter (st : state) : Prop :=
  forall k e, nth_error (emits st) k = Some e -> epc e <> E0 -> eem e < length (emitters st).

Lemma has_emitter_same : forall st st', has_emitter st -> emits st' = emits st ->
  length (emitters st') = length (emitters st) -> has_emitter st'.
Proof. intros st st' H H1 H2 k e Hk Hp. rewrite H2. rewrite H1 in Hk. exact (H k e Hk Hp). Qed.

Definition em_same (st st' : state) : Prop := emits st' = emits st /\ length (emitters st') = length (emitters st).

Ltac fin_em :=
  unfold em_same; cbn [emits emitters set_emitter set_emitters set_sub set_subs set_node set_nodes set_blk set_bmap set_wild set_emit set_emits set_panicked];
  split; [try reflexivity; try assumption; try congruence | rewrite ?upd_length; try reflexivity; try congruence].

Lemma emnew_em : forall st j l st', step_emnew st j = Some (l, st') -> em_same st st'.
Proof.
  intros st j l st' E. unfold step_emnew in E. destruct (nth_error (emitters st) j) as [m|]; [|discriminate].
  destruct (mnew m) as [|[|[|[|?]]]]; try discriminate.
  - inversion E; subst. fin_em.
  - destruct (with_node st (mty m)) as [[st1 n]|] eqn:Ew; [|discriminate]. destruct (with_node_emits _ _ _ _ Ew) as [A B].
    inversion E; subst. fin_em.
  - brute E; inversion E; subst; fin_em.
  - inversion E; subst. fin_em.
Qed.

Lemma emclose_em : forall st j l st', step_emclose st j = Some (l, st') -> em_same st st'.
Proof.
  intros st j l st' E. unfold step_emclose in E. destruct (nth_error (emitters st) j) as [m|]; [|discriminate].
  destruct (mcl m); try discriminate.
  - brute E; inversion E; subst; fin_em.
  - brute E; inversion E; subst; fin_em.
  - brute E; inversion E; subst; fin_em.
  - inversion E; subst. fin_em.
  - otau_inv E. destruct (try_drop_emits _ _ _ E) as [A B]. fin_em.
  - inversion E; subst. fin_em.
Qed.

Lemma sub_em : forall st s l st', step_sub st s = Some (l, st') -> em_same st st'.
Proof.
  intros st s l st' E. unfold step_sub in E. destruct (nth_error (subs st) s) as [c|]; [|discriminate].
  destruct (spc c); try discriminate.
  - destruct (styps c); inversion E; subst; fin_em.
  - destruct (styps c) as [tys|]; [|discriminate]. destruct (nth_error tys i) as [ty|]; [|discriminate].
    destruct (with_node st ty) as [[st1 n]|] eqn:Ew; [|discriminate]. destruct (with_node_emits _ _ _ _ Ew) as [A B].
    inversion E; subst. fin_em.
  - brute E; inversion E; subst; fin_em.
  - inversion E; subst. fin_em.
  - brute E; inversion E; subst; fin_em.
  - brute E; inversion E; subst; fin_em.
  - inversion E; subst. fin_em.
Qed.

Lemma replay_em : forall st s i l st', step_replay st s i = Some (l, st') -> em_same st st'.
Proof.
  intros st s i l st' E. unfold step_replay in E. destruct (nth_error (subs st) s) as [c|]; [|discriminate].
  destruct (nth_error (rpend c) i) as [[|]|]; try discriminate.
  destruct (nth_error (snodes c) i) as [n|]; [|discriminate].
  destruct (nth_error (nodes st) n) as [nd|]; [|discriminate].
  destruct (keep nd); [destruct (nlast nd)|].
  - otau_inv E. destruct (send_emits _ _ _ _ E) as [A B]. destruct (nth_error (subs x) s); fin_em.
  - inversion E; subst. fin_em.
  - inversion E; subst. fin_em.
Qed.

Lemma close_em : forall st s l st', step_close st s = Some (l, st') -> em_same st st'.
Proof.
  intros st s l st' E. unfold step_close in E. destruct (nth_error (subs st) s) as [c|]; [|discriminate].
  destruct (cpc c); try discriminate.
  - brute E; inversion E; subst; fin_em.
  - brute E; inversion E; subst; fin_em.
  - inversion E; subst. fin_em.
  - destruct (nth_error (snodes c) i) as [n|]; [|discriminate]. destruct (nth_error (nodes st) n) as [nd|]; [|discriminate].
    otau_inv E. destruct (try_drop_emits _ _ _ E) as [A B]. fin_em.
  - inversion E; subst. fin_em.
  - inversion E; subst. fin_em.
  - brute E; inversion E; subst; fin_em.
  - brute E; inversion E; subst; fin_em.
  - inversion E; subst. fin_em.
  - brute E; inversion E; subst; fin_em.
  - inversion E; subst. fin_em.
Qed.

Lemma step_has_emitter : forall st t l st', has_emitter st -> step st t = Some (l, st') -> has_emitter st'.
Proof.
  intros st t l st' H E.
  assert (S : forall st2, em_same st st2 -> has_emitter st2).
  { intros st2 [A B]. exact (has_emitter_same st st2 H A B). }
  destruct t; cbn in E.
  - apply S. eapply emnew_em, E.
  - apply S. eapply emclose_em, E.
  - (* Emit *)
    unfold step_emit in E. destruct (nth_error (emits st) k) as [e|] eqn:Ek; [|discriminate].
    destruct (nth_error (emitters st) (eem e)) as [m|] eqn:Em; [|discriminate].
    assert (Hlt : eem e < length (emitters st)) by (apply nth_error_Some; congruence).
    assert (G : forall stx p, emits stx = emits st -> length (emitters stx) = length (emitters st) ->
                has_emitter (set_emit stx k (e_pc e p))).
    { intros stx p A B k' e' Hk' Hp'. cbn in Hk'. cbn [emitters set_emit set_emits]. rewrite B. rewrite A in Hk'.
      apply nth_error_upd_inv in Hk'. destruct Hk' as [[-> [-> _]]|[N Hk']]; [exact Hlt|exact (H k' e' Hk' Hp')]. }
    destruct (epc e) as [| | |n todo|n|n|n todo|c|]; try discriminate.
    + destruct (Nat.eqb (mnew m) 4); inversion E; subst. apply G; reflexivity.
    + inversion E; subst. apply G; reflexivity.
    + brute E; inversion E; subst; apply G; reflexivity.
    + destruct todo as [|x r].
      * brute E; inversion E; subst; apply G; reflexivity.
      * otau_inv E. destruct (send_emits _ _ _ _ E) as [A B]. apply G; [exact A|rewrite B; reflexivity].
    + inversion E; subst. apply G; reflexivity.
    + brute E; inversion E; subst; apply G; reflexivity.
    + destruct todo as [|x r].
      * inversion E; subst. apply G; reflexivity.
      * otau_inv E. destruct (send_emits _ _ _ _ E) as [A B]. apply G; [exact A|rewrite B; reflexivity].
    + inversion E; subst. apply G; reflexivity.
  - apply S. eapply sub_em, E.
  - apply S. eapply replay_em, E.
  - apply S. eapply close_em, E.
  - apply S. unfold step_drain in E. brute E; inversion E; subst; fin_em.
  - apply S. unfold step_req in E. brute E; inversion E; subst; fin_em.
  - apply S. unfold step_recv in E. brute E; inversion E; subst; fin_em.
  - apply S. unfold step_read in E. brute E; inversion E; subst; fin_em.
Qed.

Lemma initial_has_emitter : forall st, initial st -> has_emitter st.
Proof.
  intros st [_ [_ [_ [_ [_ He]]]]] k e Hk Hp. rewrite Forall_forall in He. exfalso. apply Hp, He. eapply nth_error_In, Hk.
Qed.

(* a node-lock holder can step, or is stalled on a full open channel *)
Lemma region_progress_l : forall st sched n t, initial st ->
  in_region (run step st sched) n t ->
  enabled (run step st sched) t \/ exists x, stalled_on_full (run step st sched) x.
Proof.
  intros st0 sched n t H R. destruct (safe_run st0 sched (initial_safe st0 H)) as [HL I].
  set (st := run step st0 sched) in *. destruct t; cbn in R; try contradiction.
  - destruct R as [e [todo [Ek Ep]]]. destruct (iL st I k e n todo Ek Ep) as [nd [En [Hh Hs]]].
    assert (HE : has_emitter st).
    { apply (invariant_run _ _ _ step has_emitter); [|apply initial_has_emitter, H]. intros a t0 l b Ha E. eapply step_has_emitter; eassumption. }
    unfold enabled. cbn. unfold step_emit. rewrite Ek.
    destruct (nth_error (emitters st) (eem e)) as [m|] eqn:Eme.
    + rewrite Ep. destruct todo as [|x r].
      * left. rewrite En. unfold tau. eauto.
      * destruct (listed_open st n nd x HL I En (Hs x (or_introl eq_refl))) as [c [Ec Hc]].
        destruct (send_progress st x (n, eev e) c Ec Hc) as [[st' E]|S]; [left; rewrite E; cbn; unfold tau; eauto|right; eauto].
    + exfalso. assert (X : eem e < length (emitters st)) by (apply (HE k e Ek); rewrite Ep; discriminate).
      apply nth_error_None in Eme. lia.
  - destruct R as [c [Ec [Er Es]]]. destruct (iR st I s c i n Ec Er Es) as [nd [En [Hh Hin]]].
    unfold enabled. cbn. unfold step_replay. rewrite Ec, Er, Es, En.
    destruct (keep nd); [destruct (nlast nd) as [lv|]|]; try solve [left; unfold tau; eauto].
    destruct (listed_open st n nd s HL I En Hin) as [c0 [Ec0 Hc]]. rewrite Ec in Ec0. inversion Ec0; subst c0.
    destruct (send_progress st s (n, lv) c Ec Hc) as [[st' E]|S]; [left; rewrite E; cbn; unfold tau; eauto|right; eauto].
Qed.

(* ---- no leaked node lock --------------------------------------------------------- *)
Definition NoLeak (st : state) : Prop :=
  forall n nd t, nth_error (nodes st) n = Some nd -> holder nd = Some t -> in_region st n t.

Lemma NL_same : forall st st', NoLeak st -> nodes st' = nodes st -> emits st' = emits st -> subs st' = subs st -> NoLeak st'.
Proof.
  intros st st' N H1 H2 H3 n nd t Hn Hh. rewrite H1 in Hn. specialize (N n nd t Hn Hh).
  destruct t; cbn in *; try contradiction; [rewrite H2|rewrite H3]; exact N.
Qed.

Lemma in_region_set_sub : forall st x c c' n t, nth_error (subs st) x = Some c ->
  (forall i, nth_error (rpend c) i = Some true -> nth_error (rpend c') i = Some true) ->
  (forall i m, nth_error (snodes c) i = Some m -> nth_error (snodes c') i = Some m) ->
  in_region st n t -> in_region (set_sub st x c') n t.
Proof.
  intros st x c c' n t Ec H1 H2 R. destruct t; cbn in *; try contradiction; [exact R|].
  destruct R as [cs [A [B C]]]. destruct (Nat.eq_dec x s) as [->|N].
  - exists c'. rewrite (nth_error_upd_eq _ _ _ _ Ec). rewrite Ec in A. inversion A; subst cs. auto.
  - exists cs. rewrite nth_error_upd_neq by assumption. auto.
Qed.

Lemma NL_sub : forall st x c c', NoLeak st -> nth_error (subs st) x = Some c ->
  (forall i, nth_error (rpend c) i = Some true -> nth_error (rpend c') i = Some true) ->
  (forall i m, nth_error (snodes c) i = Some m -> nth_error (snodes c') i = Some m) ->
  NoLeak (set_sub st x c').
Proof.
  intros st x c c' N Ec H1 H2 n nd t Hn Hh. cbn in Hn. eapply in_region_set_sub; [exact Ec|exact H1|exact H2|].
  exact (N n nd t Hn Hh).
Qed.

Lemma NL_emit : forall st k e p, NoLeak st -> nth_error (emits st) k = Some e ->
  (forall n todo, epc e = ESend n todo -> exists todo', p = ESend n todo') -> NoLeak (set_emit st k (e_pc e p)).
Proof.
  intros st k e p N Ek Hp n nd t Hn Hh. cbn in Hn. specialize (N n nd t Hn Hh).
  destruct t; cbn in *; try contradiction; [|exact N].
  destruct N as [e0 [todo [A B]]]. destruct (Nat.eq_dec k k0) as [->|Nk].
  - rewrite Ek in A. inversion A; subst e0. destruct (Hp n todo B) as [todo' ->].
    exists (e_pc e (ESend n todo')), todo'. rewrite (nth_error_upd_eq _ _ _ _ Ek). split; reflexivity.
  - exists e0, todo. rewrite nth_error_upd_neq by assumption. auto.
Qed.

Lemma NL_node : forall st m nd nd', NoLeak st -> nth_error (nodes st) m = Some nd -> holder nd' = holder nd ->
  NoLeak (set_node st m nd').
Proof.
  intros st m nd nd' N Em Hh n nd0 t Hn Ht. cbn in Hn. apply nth_error_upd_inv in Hn.
  assert (R : in_region st n t).
  { destruct Hn as [[-> [-> _]]|[_ Hn]]; [apply (N m nd t Em); congruence|exact (N n nd0 t Hn Ht)]. }
  destruct t; cbn in *; try contradiction; exact R.
Qed.

Lemma NL_lookup : forall st ty, NoLeak st -> NoLeak (fst (lookup st ty)).
Proof.
  intros st ty N. unfold lookup. destruct (nth_error (bmap st) ty) as [[n|]|]; cbn [fst]; try exact N;
    (intros n0 nd0 t Hn Ht; cbn in Hn; apply nth_error_app_inv in Hn; destruct Hn as [Hn|[_ ->]]; [|discriminate];
     specialize (N n0 nd0 t Hn Ht); destruct t; cbn in *; try contradiction; exact N).
Qed.

Lemma NL_with_node : forall st ty st1 n, NoLeak st -> with_node st ty = Some (st1, n) -> NoLeak st1.
Proof.
  intros st ty st1 n N E. unfold with_node in E. pose proof (NL_lookup st ty N) as N1.
  destruct (lookup st ty) as [sl m]. cbn in N1. destruct (nth_error (nodes sl) m) as [nd|] eqn:En; inversion E; subst.
  eapply NL_node; [exact N1|exact En|reflexivity].
Qed.
Lemma NL_try_drop : forall st t st', NoLeak st -> try_drop st t = Some st' -> NoLeak st'.
Proof. intros st t st' N E. unfold try_drop in E. brute E; inversion E; subst; (eapply NL_same; [exact N| | |]; reflexivity). Qed.

Ltac nl_same N := eapply NL_same; [exact N| | |]; reflexivity.
Ltac nl_sub N Ec := eapply NL_sub; [exact N|exact Ec|intros ? X; exact X|intros ? ? X; exact X].

Lemma emit_nl : forall st k l st', Inv2 st -> NoLeak st -> step_emit st k = Some (l, st') -> NoLeak st'.
Proof.
  intros st k l st' I N E. unfold step_emit in E.
  destruct (nth_error (emits st) k) as [e|] eqn:Ek; [|discriminate].
  destruct (nth_error (emitters st) (eem e)) as [m|]; [|discriminate].
  destruct (epc e) as [| | |n todo|n|n|n todo|c|] eqn:Ep.
  - destruct (Nat.eqb (mnew m) 4); inversion E; subst. apply NL_emit; auto. intros; congruence.
  - inversion E; subst. apply NL_emit; auto. intros; congruence.
  - destruct (nth_error (nodes st) (mnode m)) as [nd|] eqn:En; [|discriminate].
    destruct (holder nd) eqn:Hh; [discriminate|]. inversion E; subst. clear E.
    intros n0 nd0 t Hn Ht. cbn [nodes set_emit set_emits set_subs set_node set_nodes] in Hn.
    apply nth_error_upd_inv in Hn. destruct Hn as [[-> [-> _]]|[Nn Hn]].
    + cbn in Ht. inversion Ht; subst t. cbn. eexists. eexists. rewrite (nth_error_upd_eq _ _ _ _ Ek). split; reflexivity.
    + specialize (N n0 nd0 t Hn Ht). destruct t; cbn in *; try contradiction.
      * destruct N as [e0 [todo [A B]]]. destruct (Nat.eq_dec k k0) as [->|Nk]; [congruence|].
        exists e0, todo. rewrite nth_error_upd_neq by assumption. auto.
      * destruct N as [c [A [B C]]]. rewrite nth_error_expect, A. cbn. eexists. split; [reflexivity|]. auto.
  - destruct todo as [|x r].
    + destruct (nth_error (nodes st) n) as [nd|] eqn:En; [|discriminate]. inversion E; subst. clear E.
      intros n0 nd0 t Hn Ht. cbn [nodes set_emit set_emits set_node set_nodes] in Hn.
      apply nth_error_upd_inv in Hn. destruct Hn as [[-> [-> _]]|[Nn Hn]]; [discriminate|].
      specialize (N n0 nd0 t Hn Ht). destruct t; cbn in *; try contradiction; [|exact N].
      destruct N as [e0 [todo [A B]]]. destruct (Nat.eq_dec k k0) as [->|Nk]; [congruence|].
      exists e0, todo. rewrite nth_error_upd_neq by assumption. auto.
    + otau_inv E. unfold send in E. destruct (nth_error (subs st) x) as [cx|] eqn:Ecx; [|discriminate].
      assert (G : forall stx, NoLeak stx -> emits stx = emits st -> NoLeak (set_emit stx k (e_pc e (ESend n r)))).
      { intros stx Nx A. apply NL_emit; [exact Nx|rewrite A; exact Ek|]. intros n1 t1 X. rewrite Ep in X. inversion X; subst. eauto. }
      destruct (closed cx).
      * inversion E; subst. apply G; [nl_same N|reflexivity].
      * destruct (room cx); [|discriminate]. inversion E; subst. apply G; [nl_sub N Ecx|reflexivity].
  - inversion E; subst. apply NL_emit; auto. intros; congruence.
  - destruct (wpend (wild st)); [discriminate|]. inversion E; subst. clear E.
    intros n0 nd0 t Hn Ht. cbn in Hn. specialize (N n0 nd0 t Hn Ht). destruct t; cbn in *; try contradiction.
    + destruct N as [e0 [todo [A B]]]. destruct (Nat.eq_dec k k0) as [->|Nk]; [congruence|].
      exists e0, todo. rewrite nth_error_upd_neq by assumption. auto.
    + destruct N as [c [A [B C]]]. rewrite nth_error_expect, A. cbn. eexists. split; [reflexivity|]. auto.
  - destruct todo as [|x r].
    + inversion E; subst. apply (NL_emit (set_wild st _)); [nl_same N|exact Ek|intros; congruence].
    + otau_inv E. unfold send in E. destruct (nth_error (subs st) x) as [cx|] eqn:Ecx; [|discriminate].
      assert (G : forall stx, NoLeak stx -> emits stx = emits st -> NoLeak (set_emit stx k (e_pc e (EWSend n r)))).
      { intros stx Nx A. apply NL_emit; [exact Nx|rewrite A; exact Ek|]. intros; congruence. }
      destruct (closed cx).
      * inversion E; subst. apply G; [nl_same N|reflexivity].
      * destruct (room cx); [|discriminate]. inversion E; subst. apply G; [nl_sub N Ecx|reflexivity].
  - inversion E; subst. apply NL_emit; auto. intros; congruence.
  - discriminate.
Qed.

Lemma emnew_nl : forall st j l st', NoLeak st -> step_emnew st j = Some (l, st') -> NoLeak st'.
Proof.
  intros st j l st' N E. unfold step_emnew in E. destruct (nth_error (emitters st) j) as [m|]; [|discriminate].
  destruct (mnew m) as [|[|[|[|?]]]]; try discriminate.
  - inversion E; subst. nl_same N.
  - destruct (with_node st (mty m)) as [[st1 n]|] eqn:Ew; [|discriminate]. inversion E; subst.
    eapply (NL_same st1); [eapply NL_with_node; eassumption| | |]; reflexivity.
  - destruct (nth_error (nodes st) (mnode m)) as [nd|] eqn:En; [|discriminate]. destruct (holder nd); [discriminate|].
    inversion E; subst. eapply (NL_same (set_node st (mnode m) _)); [|reflexivity|reflexivity|reflexivity].
    eapply NL_node; [exact N|exact En|reflexivity].
  - inversion E; subst. nl_same N.
Qed.

Lemma emclose_nl : forall st j l st', NoLeak st -> step_emclose st j = Some (l, st') -> NoLeak st'.
Proof.
  intros st j l st' N E. unfold step_emclose in E. destruct (nth_error (emitters st) j) as [m|]; [|discriminate].
  destruct (mcl m); try discriminate.
  - brute E; inversion E; subst; nl_same N.
  - brute E; inversion E; subst; nl_same N.
  - destruct (nth_error (nodes st) (mnode m)) as [nd|] eqn:En; [|discriminate]. inversion E; subst.
    eapply (NL_same (set_node st (mnode m) _)); [|reflexivity|reflexivity|reflexivity].
    eapply NL_node; [exact N|exact En|reflexivity].
  - inversion E; subst. nl_same N.
  - otau_inv E. eapply (NL_same x); [eapply NL_try_drop; eassumption| | |]; reflexivity.
  - inversion E; subst. nl_same N.
Qed.

Lemma sub_nl : forall st s l st', Inv2 st -> NoLeak st -> step_sub st s = Some (l, st') -> NoLeak st'.
Proof.
  intros st s l st' I N E. unfold step_sub in E.
  destruct (nth_error (subs st) s) as [c|] eqn:Ec; [|discriminate].
  destruct (spc c) eqn:Ep.
  - destruct (styps c); inversion E; subst; nl_sub N Ec.
  - destruct (styps c) as [tys|] eqn:Et; [|discriminate]. destruct (nth_error tys i) as [ty|]; [|discriminate].
    destruct (with_node st ty) as [[st1 n]|] eqn:Ew; [|discriminate]. inversion E; subst.
    eapply NL_sub; [eapply NL_with_node; eassumption|rewrite (with_node_subs _ _ _ _ Ew); exact Ec|intros ? X; exact X|intros ? ? X; exact X].
  - destruct (styps c) as [tys|] eqn:Et; [|discriminate].
    pose proof N as N1. pose proof I as I1.
    destruct (nth_error (nodes st) n) as [nd|] eqn:En; [|discriminate].
    destruct (holder nd) eqn:Hh; [discriminate|]. inversion E; subst. clear E.
    assert (Ec1 : nth_error (subs st) s = Some c) by exact Ec.
    pose proof (iIdx st I1 s c Ec1) as Hi. unfold idx_ok in Hi. rewrite Ep in Hi.
    pose proof (iLen st I1 s c Ec1) as Hlen.
    intros n0 nd0 t Hn Ht. cbn [nodes set_sub set_subs set_node set_nodes set_blk] in Hn.
    set (c2 := match keep nd with | true => match nlast nd with | Some l0 => _ | None => _ end | false => _ end).
    assert (Hr2 : rpend c2 = rpend c ++ [true]) by (unfold c2; destruct (keep nd); [destruct (nlast nd)|]; reflexivity).
    assert (Hn2 : snodes c2 = snodes c ++ [n]) by (unfold c2; destruct (keep nd); [destruct (nlast nd)|]; reflexivity).
    apply nth_error_upd_inv in Hn. destruct Hn as [[-> [-> _]]|[Nn Hn]].
    + cbn in Ht. inversion Ht; subst t. cbn. exists c2. rewrite (nth_error_upd_eq _ _ _ _ Ec1), Hr2, Hn2.
      split; [reflexivity|]. rewrite !nth_error_app2 by lia.
      replace (i - length (rpend c)) with 0 by lia. replace (i - length (snodes c)) with 0 by lia. split; reflexivity.
    + specialize (N1 n0 nd0 t Hn Ht). destruct t; cbn in *; try contradiction; [exact N1|].
      destruct N1 as [cs [A [B C]]]. destruct (Nat.eq_dec s s0) as [->|Ns].
      * exists c2. rewrite (nth_error_upd_eq _ _ _ _ Ec1). rewrite Ec1 in A. inversion A; subst cs.
        rewrite Hr2, Hn2. split; [reflexivity|]. split; apply nth_error_app_old; assumption.
      * exists cs. rewrite nth_error_upd_neq by assumption. auto.
  - inversion E; subst. eapply NL_sub; [eapply NL_same; [exact N| | |]; reflexivity|exact Ec|intros ? X; exact X|intros ? ? X; exact X].
  - destruct (wpend (wild st)); [discriminate|]. inversion E; subst.
    eapply NL_sub; [eapply NL_same; [exact N| | |]; reflexivity|exact Ec|intros ? X; exact X|intros ? ? X; exact X].
  - destruct (Nat.eqb (rdrs (wild st)) 0); [|discriminate]. inversion E; subst.
    eapply NL_sub; [eapply NL_same; [exact N| | |]; reflexivity|exact Ec|intros ? X; exact X|intros ? ? X; exact X].
  - inversion E; subst. nl_sub N Ec.
  - destruct (styps c); discriminate.
Qed.

Lemma NL_replay_done : forall st s c i n nd c2, NoLeak st -> nth_error (subs st) s = Some c ->
  nth_error (snodes c) i = Some n -> nth_error (nodes st) n = Some nd ->
  rpend c2 = upd (rpend c) i false -> snodes c2 = snodes c ->
  NoLeak (set_node (set_sub st s c2) n (n_holder nd None)).
Proof.
  intros st s c i n nd c2 N Ec Es En H1 H2 n0 nd0 t Hn Ht. cbn [nodes set_sub set_subs set_node set_nodes] in Hn.
  apply nth_error_upd_inv in Hn. destruct Hn as [[-> [-> _]]|[Nn Hn]]; [discriminate|].
  specialize (N n0 nd0 t Hn Ht). destruct t; cbn in *; try contradiction; [exact N|].
  destruct N as [cs [A [B C]]]. destruct (Nat.eq_dec s s0) as [->|Ns].
  - exists c2. rewrite (nth_error_upd_eq _ _ _ _ Ec). rewrite Ec in A. inversion A; subst cs. rewrite H1, H2.
    split; [reflexivity|]. split; [|exact C]. destruct (Nat.eq_dec i i0) as [->|Ni]; [congruence|].
    rewrite nth_error_upd_neq by assumption. exact B.
  - exists cs. rewrite nth_error_upd_neq by assumption. auto.
Qed.

Lemma replay_nl : forall st s i l st', NoLeak st -> step_replay st s i = Some (l, st') -> NoLeak st'.
Proof.
  intros st s i l st' N E. unfold step_replay in E.
  destruct (nth_error (subs st) s) as [c|] eqn:Ec; [|discriminate].
  destruct (nth_error (rpend c) i) as [[|]|] eqn:Er; try discriminate.
  destruct (nth_error (snodes c) i) as [n|] eqn:Es; [|discriminate].
  destruct (nth_error (nodes st) n) as [nd|] eqn:En; [|discriminate].
  destruct (keep nd); [destruct (nlast nd) as [lv|]|].
  - otau_inv E. unfold send in E. rewrite Ec in E. destruct (closed c).
    + inversion E; subst. cbn [subs set_panicked]. rewrite Ec.
      eapply (NL_same (set_node (set_sub st s _) n (n_holder nd None))); [|reflexivity|reflexivity|reflexivity].
      eapply (NL_replay_done st s c i n nd); try eassumption; reflexivity.
    + destruct (room c); [|discriminate]. inversion E; subst. cbn [subs set_sub set_subs]. rewrite (nth_error_upd_eq _ _ _ _ Ec).
      assert (X : set_sub (set_sub st s (push c (n, lv))) s (c_rpend (push c (n, lv)) (upd (rpend (push c (n, lv))) i false))
                = set_sub st s (c_rpend (push c (n, lv)) (upd (rpend c) i false))).
      { unfold set_sub, set_subs. cbn. f_equal. clear. generalize (subs st). intros l. revert s.
        induction l as [|a l IH]; intros [|s]; cbn; try reflexivity. f_equal. apply IH. }
      rewrite X. eapply (NL_replay_done st s c i n nd); try eassumption; reflexivity.
  - inversion E; subst. eapply (NL_replay_done st s c i n nd); try eassumption; reflexivity.
  - inversion E; subst. eapply (NL_replay_done st s c i n nd); try eassumption; reflexivity.
Qed.

Lemma close_nl : forall st s l st', NoLeak st -> step_close st s = Some (l, st') -> NoLeak st'.
Proof.
  intros st s l st' N E. unfold step_close in E.
  destruct (nth_error (subs st) s) as [c|] eqn:Ec; [|discriminate].
  destruct (cpc c).
  - destruct (spc c); try discriminate. inversion E; subst. nl_sub N Ec.
  - destruct (nth_error (snodes c) i) as [n|]; [|discriminate].
    destruct (nth_error (nodes st) n) as [nd|] eqn:En; [|discriminate].
    destruct (holder nd); [discriminate|]. inversion E; subst.
    eapply NL_sub; [eapply NL_node; [exact N|exact En|reflexivity]|exact Ec|intros ? X; exact X|intros ? ? X; exact X].
  - inversion E; subst. nl_sub N Ec.
  - destruct (nth_error (snodes c) i) as [n|]; [|discriminate].
    destruct (nth_error (nodes st) n) as [nd|]; [|discriminate].
    otau_inv E. eapply NL_sub; [eapply NL_try_drop; eassumption|rewrite (try_drop_subs _ _ _ E); exact Ec|intros ? X; exact X|intros ? ? X; exact X].
  - inversion E; subst. nl_sub N Ec.
  - inversion E; subst. eapply NL_sub; [eapply NL_same; [exact N| | |]; reflexivity|exact Ec|intros ? X; exact X|intros ? ? X; exact X].
  - destruct (wpend (wild st)); [discriminate|]. inversion E; subst.
    eapply NL_sub; [eapply NL_same; [exact N| | |]; reflexivity|exact Ec|intros ? X; exact X|intros ? ? X; exact X].
  - destruct (Nat.eqb (rdrs (wild st)) 0); [|discriminate]. inversion E; subst.
    eapply NL_sub; [eapply NL_same; [exact N| | |]; reflexivity|exact Ec|intros ? X; exact X|intros ? ? X; exact X].
  - inversion E; subst. nl_sub N Ec.
  - destruct (Nat.eqb (drain c) 3); [|discriminate]. inversion E; subst. nl_sub N Ec.
  - inversion E; subst. nl_sub N Ec.
  - discriminate.
Qed.

Lemma step_nl : forall st t l st', Safe st -> NoLeak st -> step st t = Some (l, st') -> NoLeak st'.
Proof.
  intros st t l st' [HL I] N E. destruct t; cbn in E.
  - eapply emnew_nl; eassumption.
  - eapply emclose_nl; eassumption.
  - eapply emit_nl; eassumption.
  - eapply sub_nl; eassumption.
  - eapply replay_nl; eassumption.
  - eapply close_nl; eassumption.
  - unfold step_drain in E. destruct (nth_error (subs st) s) as [c|] eqn:Ec; [|discriminate]. brute E; inversion E; subst; nl_sub N Ec.
  - unfold step_req in E. destruct (nth_error (subs st) s) as [c|] eqn:Ec; [|discriminate]. inversion E; subst; nl_sub N Ec.
  - unfold step_recv in E. destruct (nth_error (subs st) s) as [c|] eqn:Ec; [|discriminate]. brute E; inversion E; subst; nl_sub N Ec.
  - unfold step_read in E. destruct (nth_error (subs st) s) as [c|] eqn:Ec; [|discriminate]. brute E; inversion E; subst; nl_sub N Ec.
Qed.

Lemma no_leaked_lock_l : forall st sched n nd t, initial st ->
  nth_error (nodes (run step st sched)) n = Some nd -> holder nd = Some t -> in_region (run step st sched) n t.
Proof.
  intros st sched n nd t H.
  assert (F : Safe (run step st sched) /\ NoLeak (run step st sched)).
  { apply (invariant_run _ _ _ step (fun s => Safe s /\ NoLeak s)).
    - intros a t0 l b [Sa Na] E. split; [eapply step_safe; eassumption|eapply step_nl; eassumption].
    - split; [apply initial_safe, H|]. destruct H as [Hn _]. intros n0 nd0 t0 X. rewrite Hn in X. destruct n0; discriminate. }
  exact (proj2 F n nd t).
Qed.

(* the progress lemma: a held node lock is held by a thread inside the region
   (not leaked), and that thread can take a step unless it is sending to a
   full open channel, in which case the channel's consumer (if a receive is
   pending) or drainer (if Close started) can take a step.  So whoever waits
   for n.lk waits for a thread that only waits for a live consumer or Close. *)
Lemma no_deadlock_partial_l : forall st sched n nd t, initial st ->
  nth_error (nodes (run step st sched)) n = Some nd -> holder nd = Some t ->
  in_region (run step st sched) n t /\
  (enabled (run step st sched) t \/ exists x, stalled_on_full (run step st sched) x).
Proof.
  intros st sched n nd t H Hn Hh. pose proof (no_leaked_lock_l st sched n nd t H Hn Hh) as R.
  split; [exact R|]. exact (region_progress_l st sched n t H R).
Qed.

(* a wildcard read-lock holder (an Emit in its wildcard send loop) can step,
   or is stalled on a full open wildcard channel *)
Lemma reader_progress_l : forall st sched k e n todo, initial st ->
  nth_error (emits (run step st sched)) k = Some e -> epc e = EWSend n todo ->
  enabled (run step st sched) (TEmit k) \/ exists x, stalled_on_full (run step st sched) x.
Proof.
  intros st0 sched k e n todo H Ek Ep. destruct (safe_run st0 sched (initial_safe st0 H)) as [HL I].
  assert (HE : has_emitter (run step st0 sched)).
  { apply (invariant_run _ _ _ step has_emitter); [|apply initial_has_emitter, H]. intros a t0 l b Ha E. eapply step_has_emitter; eassumption. }
  set (st := run step st0 sched) in *. unfold enabled. cbn. unfold step_emit. rewrite Ek.
  destruct (nth_error (emitters st) (eem e)) as [m|] eqn:Eme.
  - rewrite Ep. destruct todo as [|x r].
    + left. unfold tau. eauto.
    + destruct (wild_open st x HL (iW2 st I k e n (x :: r) x Ek Ep (or_introl eq_refl))) as [c [Ec Hc]].
      destruct (send_progress st x (k, eev e) c Ec Hc) as [[st' E]|S]; [left; rewrite E; cbn; unfold tau; eauto|right; eauto].
  - exfalso. assert (X : eem e < length (emitters st)) by (apply (HE k e Ek); rewrite Ep; discriminate).
    apply nth_error_None in Eme. lia.
Qed.

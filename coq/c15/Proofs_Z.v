(* C15 — replay-due: if the monitor considers the replay of a type due for a subscription,
   the retained event was promised to it first, by a not-fresh Emit, and is pending or sent. *)
From Coq Require Import List Arith ZArith Bool Lia.
From Verif Require Import lib.Wire c15.Lts c15.Model c15.Spec c15.Proofs c15.Proofs_Chan c15.Proofs_Loc c15.Proofs_List c15.Proofs_Safe
  c15.Proofs_Init c15.Proofs_Once c15.Proofs_First c15.Proofs_Wild c15.Proofs_Thm c15.Proofs_Grow c15.Proofs_Live c15.Proofs_Pend c15.Proofs_Idx c15.Proofs_Dead c15.Proofs_Prog c15.Proofs_Valid c15.Proofs_WildOK
  c15.Proofs_Blk c15.Proofs_Obs c15.Proofs_Loc3 c15.Proofs_WSI c15.Proofs_TY c15.Proofs_Rule13 c15.Proofs_Reads c15.Proofs_Wire c15.Proofs_Disc c15.Proofs_Mon c15.Proofs_MonS
  c15.Proofs_Tr c15.Proofs_Cpl c15.Proofs_RInv c15.Proofs_RCtx c15.Proofs_Prom c15.Proofs_R3 c15.Proofs_CEv c15.Proofs_ChI c15.Proofs_R5 c15.Proofs_Loc4 c15.Proofs_R4
  c15.Proofs_RegA c15.Proofs_RegB c15.Proofs_RegW c15.Proofs_RegRun c15.Proofs_MD c15.Proofs_RF c15.Proofs_R9 c15.Proofs_R7 c15.Proofs_NodeEv c15.Proofs_Keep c15.Proofs_EmitPc c15.Proofs_Last c15.Proofs_Old c15.Proofs_R6.
Import ListNotations.
Local Open Scope Z_scope.

(* "stateful emitter j stayed open until Subscribe(s) returned", valid also before that return *)
Definition qopen (pre : list label) (j s : nat) : bool :=
  negb (before_ pre (lab_is_start (TEmClose j)) (lab_is_ret (TSub s))) && (o_returned pre (TSub s) || negb (o_started pre (TEmClose j))).

Lemma qopen_mono : forall pre l j s, qopen (pre ++ olab l) j s = true -> qopen pre j s = true.
Proof.
  intros pre l j s H. destruct l as [x|]; [|cbn in H; rewrite app_nil_r in H; exact H]. cbn [olab] in H. unfold qopen in *.
  rewrite before_app, o_returned_app, o_started_app in H. fold (o_returned pre (TSub s)) in H.
  destruct (o_returned pre (TSub s)) eqn:R; cbn [orb] in *.
  - rewrite andb_true_r in *. exact H.
  - assert (B : before_ pre (lab_is_start (TEmClose j)) (lab_is_ret (TSub s)) = false).
    { unfold before_. assert (X : cut (lab_is_ret (TSub s)) pre = None) by (apply cut_none; exact R). rewrite X. reflexivity. }
    rewrite B. cbn [negb andb]. destruct (lab_is_ret (TSub s) x) eqn:Lx.
    + fold (o_started pre (TEmClose j)) in H. rewrite andb_true_r in H. exact H.
    + cbn [negb andb orb] in H. destruct (o_started pre (TEmClose j)); [cbn in H; discriminate|reflexivity].
Qed.

Definition rd_pair (pre : list label) (s j k0 : nat) : Prop :=
  before_ pre (lab_is_ret (TEmNew j)) (lab_is_start (TEmit k0)) = true /\ a_ok pre k0 = true /\ a_old pre s k0 = true /\ qopen pre j s = true.

Definition zcc (st : state) (pre : list label) (s : nat) (c : sub) (i n : nat) : Prop :=
  exists lv rest kx ex, proj n (expd c) = (n, lv) :: rest /\ nth_error (emits st) kx = Some ex /\ eev ex = lv /\ a_fresh pre s kx = false /\
    ((nth_error (rpend c) i = Some true /\ exists nd, nth_error (nodes st) n = Some nd /\ keep nd = true /\ nlast nd = Some lv) \/ In (n, lv) (hist c)).
Definition znr (st : state) (pre : list label) (s n : nat) : Prop :=
  forall j mj k0 e0 m0 nd, nth_error (emitters st) j = Some mj -> mstateful mj = true -> nth_error (nodes st) n = Some nd -> mty mj = nty nd ->
    nth_error (emits st) k0 = Some e0 -> nth_error (emitters st) (eem e0) = Some m0 -> mty m0 = mty mj -> rd_pair pre s j k0 -> False.
Definition ZI (st : state) (pre : list label) : Prop :=
  forall s c i n, nth_error (subs st) s = Some c -> nth_error (snodes c) i = Some n -> zcc st pre s c i n \/ znr st pre s n.

Lemma rv_back : forall st st' s c', rV st' = rV st -> nth_error (subs st') s = Some c' -> exists c, nth_error (subs st) s = Some c /\ fR c' = fR c.
Proof.
  intros st st' s c' H Ec'. assert (X : nth_error (rV st') s = Some (fR c')) by (unfold rV; rewrite nth_error_map, Ec'; reflexivity).
  rewrite H in X. unfold rV in X. rewrite nth_error_map in X. destruct (nth_error (subs st) s) as [c|]; [|discriminate]. exists c. split; [reflexivity|]. cbn in X. congruence.
Qed.

Lemma rv_cases : forall st t l st' s c', step st t = Some (l, st') -> nth_error (subs st') s = Some c' ->
  exists c, nth_error (subs st) s = Some c /\
    (fR c' = fR c \/
     (exists i0, t = TReplay s i0 /\ nth_error (rpend c) i0 = Some true /\ snodes c' = snodes c /\ rpend c' = upd (rpend c) i0 false) \/
     (exists i n, t = TSub s /\ spc c = SApp i n /\ snodes c' = snodes c ++ [n] /\ rpend c' = rpend c ++ [true])).
Proof.
  intros st t l st' s c' E Ec'.
  assert (F : rV st' = rV st -> exists c, nth_error (subs st) s = Some c /\ (fR c' = fR c \/
     (exists i0, t = TReplay s i0 /\ nth_error (rpend c) i0 = Some true /\ snodes c' = snodes c /\ rpend c' = upd (rpend c) i0 false) \/
     (exists i n, t = TSub s /\ spc c = SApp i n /\ snodes c' = snodes c ++ [n] /\ rpend c' = rpend c ++ [true]))).
  { intros H. destruct (rv_back _ _ _ _ H Ec') as [c [Ec X]]. exists c. auto. }
  destruct t; try (apply F; eapply other_rv; [|exact E]; exact I); cbn [step] in E.
  - unfold step_sub in E. destruct (nth_error (subs st) s0) as [c0|] eqn:Ec0; [|discriminate].
    destruct (spc c0) eqn:Ep; try solve [brute E; inversion E; subst; apply F; rv_fin].
    + destruct (styps c0) as [tys|]; [|discriminate]. destruct (nth_error tys i) as [ty|]; [|discriminate].
      destruct (with_node st ty) as [[st1 n]|] eqn:Ew; [|discriminate]. inversion E; subst. apply F. unfold rV. cbn. rewrite <- (with_node_subs _ _ _ _ Ew).
      apply (map_upd_same fR _ s0 _ c0); [rewrite (with_node_subs _ _ _ _ Ew); exact Ec0|reflexivity].
    + destruct (styps c0) as [tys|]; [|discriminate]. destruct (nth_error (nodes st) n) as [nd|] eqn:En; [|discriminate]. destruct (holder nd); [discriminate|].
      inversion E; subst. clear E. cbn in Ec'. apply nth_error_upd_inv in Ec'. destruct Ec' as [[-> [-> _]]|[N Ec']]; [|exists c'; auto].
      exists c0. split; [exact Ec0|]. right. right. exists i, n. split; [reflexivity|]. split; [exact Ep|]. destruct (keep nd); [destruct (nlast nd)|]; auto.
  - unfold step_replay in E. destruct (nth_error (subs st) s0) as [c0|] eqn:Ec0; [|discriminate].
    destruct (nth_error (rpend c0) i) as [[|]|] eqn:Er; try discriminate.
    destruct (nth_error (snodes c0) i) as [n|]; [|discriminate]. destruct (nth_error (nodes st) n) as [nd|] eqn:En; [|discriminate].
    assert (G : forall stx cx, nth_error (subs stx) s0 = Some cx -> fR cx = fR c0 -> (forall s1, s1 <> s0 -> nth_error (subs stx) s1 = nth_error (subs st) s1) ->
              nth_error (subs (set_node (set_sub stx s0 (c_rpend cx (upd (rpend cx) i false))) n (n_holder nd None))) s = Some c' ->
              exists c, nth_error (subs st) s = Some c /\ (fR c' = fR c \/
     (exists i0, TReplay s0 i = TReplay s i0 /\ nth_error (rpend c) i0 = Some true /\ snodes c' = snodes c /\ rpend c' = upd (rpend c) i0 false) \/
     (exists i1 n1, TReplay s0 i = TSub s /\ spc c = SApp i1 n1 /\ snodes c' = snodes c ++ [n1] /\ rpend c' = rpend c ++ [true]))).
    { intros stx cx Hx Hf Ho H. cbn in H. apply nth_error_upd_inv in H. destruct H as [[-> [-> _]]|[N H]].
      - exists c0. split; [exact Ec0|]. right. left. exists i. unfold fR in Hf. inversion Hf as [[A B]]. cbn. rewrite A, B. auto.
      - rewrite (Ho s N) in H. exists c'. auto. }
    destruct (keep nd); [destruct (nlast nd) as [lv|]|]; try solve [inversion E; subst; (eapply (G st c0); eauto)].
    apply otau_Some in E. destruct E as [E _]. apply option_map_Some in E. destruct E as [x [E ->]].
    destruct (nth_error (subs x) s0) as [cx|] eqn:Ex.
    + eapply (G x cx); [exact Ex| | |exact Ec'].
      * unfold send in E. rewrite Ec0 in E. destruct (closed c0); [inversion E; subst; cbn in Ex; rewrite Ec0 in Ex; inversion Ex; reflexivity|].
        destruct (room c0); [|discriminate]. inversion E; subst. cbn in Ex. rewrite (nth_error_upd_eq _ _ _ _ Ec0) in Ex. inversion Ex. reflexivity.
      * intros s1 N1. unfold send in E. rewrite Ec0 in E. destruct (closed c0); [inversion E; subst; reflexivity|].
        destruct (room c0); [|discriminate]. inversion E; subst. cbn. apply nth_error_upd_neq. congruence.
    + apply F. apply (send_rv _ _ _ _ E).
Qed.

(* an event that has been promised belongs to an Emit that has started *)
Lemma expd_started : forall c s1 s cs t v k e, cfg_wf c = true -> nth_error (subs (St c s1)) s = Some cs -> In (t, v) (expd cs) ->
  nth_error (emits (St c s1)) k = Some e -> eev e = v -> o_started (Tr c s1) (TEmit k) = true.
Proof.
  intros c s1 s cs t v k e W Ec Hx Ek Ev. destruct (prom_cfg c s1 W) as [T _ _ _].
  assert (Vx : nth_error (pX (St c s1)) s = Some (styps cs, expd cs)) by (unfold pX; rewrite nth_error_map, Ec; reflexivity).
  destruct (T s _ _ t v Vx Hx) as [k0 [j [p [A [B _]]]]]. unfold pE in A. rewrite nth_error_map in A.
  destruct (nth_error (emits (St c s1)) k0) as [e0|] eqn:Ek0; [|discriminate]. inversion A; subst.
  assert (k0 = k) by (eapply (Proofs_RCtx.ids_unique c s1); eauto). subst k0. rewrite Ek in Ek0. inversion Ek0; subst e0.
  eapply (locked_started _ _ k e _ (trok_cfg c s1 W) Ek B).
Qed.

Lemma emit_fwd_static : forall st t l st' k e, step st t = Some (l, st') -> nth_error (emits st) k = Some e ->
  exists e', nth_error (emits st') k = Some e' /\ eev e' = eev e /\ eem e' = eem e.
Proof.
  intros st t l st' k e E Ek.
  assert (L : length (emits st') = length (emits st)).
  { pose proof (step_ds _ _ _ _ E) as H. unfold dstat in H. inversion H as [[A B C]]. unfold sM in C. rewrite <- (map_length fM (emits st')), C, map_length. reflexivity. }
  destruct (nth_error (emits st') k) as [e'|] eqn:Ek'; [|apply nth_error_None in Ek'; assert (k < length (emits st))%nat by (apply nth_error_Some; congruence); lia].
  destruct (emit_back_static _ _ _ _ _ _ E Ek') as [e0 [Ek0 [A B]]]. rewrite Ek in Ek0. inversion Ek0; subst e0. exists e'. auto.
Qed.

(* while a replay goroutine holds the node its retained event does not change *)
Lemma nlast_held_fwd : forall c s0 t l st' s cs i n nd, cfg_wf c = true -> step (St c s0) t = Some (l, st') ->
  nth_error (subs (St c s0)) s = Some cs -> nth_error (rpend cs) i = Some true -> nth_error (snodes cs) i = Some n -> nth_error (nodes (St c s0)) n = Some nd ->
  exists nd', nth_error (nodes st') n = Some nd' /\ nlast nd' = nlast nd /\ (keep nd = true -> keep nd' = true).
Proof.
  intros c s0 t l st' s cs i n nd W E Ec Er Es En. destruct (reach_cfg c s0 W) as [G _].
  destruct (node_keep_fwd _ _ _ _ _ _ E En) as [nd' [En' [Hk _]]]. exists nd'. split; [exact En'|]. split; [|exact Hk].
  destruct (node_back _ _ _ _ _ _ E En') as [[_ [_ X]]|[nd0 [En0 [Same|[kl [el [ml [_ [_ [_ [_ [_ [Hh _]]]]]]]]]]]]].
  - assert (n < length (nodes (St c s0)))%nat by (apply nth_error_Some; congruence). lia.
  - rewrite En in En0. inversion En0; subst nd0. exact Same.
  - exfalso. rewrite En in En0. inversion En0; subst nd0. destruct (iR _ (gI _ G) s cs i n Ec Er Es) as [ndx [Enx [Hx _]]]. rewrite En in Enx. inversion Enx; subst ndx. congruence.
Qed.

Lemma rd_back : forall c s0 t l st' s j k0, cfg_wf c = true -> step (St c s0) t = Some (l, st') -> o_started (Tr c s0) (TSub s) = true ->
  rd_pair (Tr c s0 ++ olab l) s j k0 -> rd_pair (Tr c s0) s j k0.
Proof.
  intros c s0 t l st' s j k0 W E Hs [B [Ok [Old Q]]]. destruct (trok_cfg c s0 W) as [O TS _].
  rewrite (old_frozen _ l s k0 Hs) in Old. destruct (old_returned _ _ _ Old) as [R _].
  split; [|split; [eapply ok_back; eassumption|split; [exact Old|eapply qopen_mono, Q]]].
  destruct (before_step _ _ _ _ B) as [X|[_ X]]; [exact X|]. rewrite (TS _ R) in X. discriminate.
Qed.

(* the old indices: what held before the step holds after it *)
Lemma znr_step : forall c s0 t l st' s n, cfg_wf c = true -> step (St c s0) t = Some (l, st') -> o_started (Tr c s0) (TSub s) = true ->
  (n < length (nodes (St c s0)))%nat -> znr (St c s0) (Tr c s0) s n -> znr st' (Tr c s0 ++ olab l) s n.
Proof.
  intros c s0 t l st' s n W E Hs Ln H j mj' k0 e0' m0' nd' Ej' Ms' Hn' Ty' Ek0' Em0' Tq Hrd.
  destruct (emitter_back _ _ _ _ _ _ E Ej') as [mj [Ej [Tyj _]]]. destruct (emitter_static _ _ _ _ _ _ _ E Ej Ej') as [_ Msj].
  destruct (emit_back_static _ _ _ _ _ _ E Ek0') as [e0 [Ek0 [Eem _]]]. rewrite <- Eem in Em0'. destruct (emitter_back _ _ _ _ _ _ E Em0') as [m0 [Em0 [Ty0 _]]].
  destruct (nth_error (nodes (St c s0)) n) as [nd|] eqn:Hn; [|apply nth_error_None in Hn; lia].
  destruct (node_keep_fwd _ _ _ _ _ _ E Hn) as [ndx [Hnx [_ Tn]]]. rewrite Hn' in Hnx. inversion Hnx; subst ndx.
  eapply (H j mj k0 e0 m0 nd); try eassumption; try congruence. eapply rd_back; eassumption.
Qed.

Lemma zcc_step : forall c s0 t l st' s cs cs' i n, cfg_wf c = true -> step (St c s0) t = Some (l, st') ->
  nth_error (subs (St c s0)) s = Some cs -> nth_error (subs st') s = Some cs' -> nth_error (snodes cs) i = Some n ->
  (forall i1, i1 <> i -> nth_error (rpend cs') i1 = nth_error (rpend cs) i1 \/ True) ->
  (nth_error (rpend cs') i = nth_error (rpend cs) i \/ (t = TReplay s i /\ nth_error (rpend cs) i = Some true)) ->
  zcc (St c s0) (Tr c s0) s cs i n -> zcc st' (Tr c s0 ++ olab l) s cs' i n.
Proof.
  intros c s0 t l st' s cs cs' i n W E Ec Ec' Es _ Hr [lv [rest [kx [ex [P [Ekx [Ev [Hf Hp]]]]]]]].
  destruct (Grows_back _ _ _ _ (step_grows _ _ _ _ E) Ec') as [cs0 [Ec0 [[hh Hh] [[xx Hx] _]]]]. rewrite Ec in Ec0. inversion Ec0; subst cs0.
  destruct (emit_fwd_static _ _ _ _ _ _ E Ekx) as [ex' [Ekx' [Ev' _]]].
  assert (Hin : In (n, lv) (expd cs)).
  { assert (In (n, lv) (proj n (expd cs))) by (rewrite P; left; reflexivity). apply filter_In in H. apply H. }
  assert (Hf' : a_fresh (Tr c s0 ++ olab l) s kx = false).
  { destruct (a_fresh (Tr c s0 ++ olab l) s kx) eqn:F; [|reflexivity]. destruct (fresh_step _ _ _ _ F) as [X|[_ [X _]]]; [congruence|].
    rewrite (expd_started c s0 s cs n lv kx ex W Ec Hin Ekx Ev) in X. discriminate. }
  exists lv, (rest ++ proj n xx), kx, ex'. split; [rewrite Hx, proj_app, P; reflexivity|]. split; [exact Ekx'|]. split; [congruence|]. split; [exact Hf'|].
  destruct Hp as [[Hrp [nd [En [Kp El]]]]|Hh0]; [|right; rewrite Hh; apply in_or_app; left; exact Hh0].
  destruct Hr as [Hr|[Ht _]].
  - left. split; [rewrite Hr; exact Hrp|]. destruct (nlast_held_fwd c s0 t l st' s cs i n nd W E Ec Hrp Es En) as [nd' [En' [Hl Hk]]]. exists nd'. split; [exact En'|]. split; [auto|congruence].
  - (* the replay goroutine of this very node finishes: it has sent the retained event *)
    right. subst t. pose proof E as E0. cbn [step] in E. unfold step_replay in E. fold (St c s0) in E. rewrite Ec, Hrp, Es, En, Kp, El in E.
    apply otau_Some in E. destruct E as [E _]. apply option_map_Some in E. destruct E as [x [E Est]].
    unfold send in E. rewrite Ec in E. destruct (closed cs) eqn:Cl.
    + exfalso. inversion E; subst x. assert (Pn : panicked st' = true).
      { rewrite Est. cbn. rewrite Ec. reflexivity. }
      pose proof (never_send_on_closed_l (init_of c) (s0 ++ [TReplay s i]) (init_initial c W)) as NP.
      rewrite run_app in NP. cbn [run] in NP. fold (St c s0) in NP. rewrite E0 in NP. congruence.
    + destruct (room cs); [|discriminate]. inversion E; subst x. rewrite Est in Ec'. cbn in Ec'.
      assert (X : nth_error (upd (subs (St c s0)) s (push cs (n, lv))) s = Some (push cs (n, lv))) by (eapply nth_error_upd_eq, Ec).
      rewrite X in Ec'. cbn in Ec'. rewrite upd_upd in Ec'. rewrite (nth_error_upd_eq _ _ _ _ Ec) in Ec'. inversion Ec'; subst cs'. cbn. apply in_or_app. right. left. reflexivity.
Qed.

Lemma joined_started : forall c s0 s cs i n, cfg_wf c = true -> nth_error (subs (St c s0)) s = Some cs -> nth_error (snodes cs) i = Some n ->
  o_started (Tr c s0) (TSub s) = true.
Proof.
  intros c s0 s cs i n W Ec Es. destruct (reach_cfg c s0 W) as [G _]. eapply sub_pc_started; [exact W|exact Ec|].
  intros X. pose proof (iIdx _ (gI _ G) s cs Ec) as IX. unfold idx_ok in IX. rewrite X in IX. rewrite IX in Es. destruct i; discriminate.
Qed.

(* the registration thread of Emitter() has five program counters *)
Lemma mnew_le4_cfg : forall c s1 j m, cfg_wf c = true -> nth_error (emitters (St c s1)) j = Some m -> (mnew m <= 4)%nat.
Proof.
  intros c s1 j m W. unfold St. revert j m.
  apply (invariant_run _ _ _ step (fun st => forall j m, nth_error (emitters st) j = Some m -> (mnew m <= 4)%nat)).
  - intros a t l b H E j m' Hj'. destruct t; try (apply emitters_other in E; [rewrite E in Hj'; eapply H; exact Hj'|exact I]); cbn [step] in E.
    + unfold step_emnew in E. destruct (nth_error (emitters a) j0) as [m|] eqn:Ej; [|discriminate].
      assert (U : forall stx n k, emitters stx = emitters a -> (k <= 4)%nat -> nth_error (emitters (set_emitter stx j0 (m_new m n k))) j = Some m' -> (mnew m' <= 4)%nat).
      { intros stx n k Hx Hk Hq. cbn in Hq. rewrite Hx in Hq. apply nth_error_upd_inv in Hq. destruct Hq as [[_ [-> _]]|[_ Hq]]; [cbn; exact Hk|eapply H; exact Hq]. }
      destruct (mnew m) as [|[|[|[|?]]]]; try discriminate.
      * inversion E; subst. eapply (U a _ 1%nat); [reflexivity|lia|exact Hj'].
      * destruct (with_node a (mty m)) as [[st1 n]|] eqn:Ew; [|discriminate]. inversion E; subst. eapply (U st1 n 2%nat); [apply (proj2 (with_node_emits _ _ _ _ Ew))|lia|exact Hj'].
      * destruct (nth_error (nodes a) (mnode m)) as [nd|]; [|discriminate]. destruct (holder nd); [discriminate|]. inversion E; subst.
        eapply (U (set_node a (mnode m) _) _ 3%nat); [reflexivity|lia|exact Hj'].
      * inversion E; subst. eapply (U a _ 4%nat); [reflexivity|lia|exact Hj'].
    + destruct (emitter_back a (TEmClose j0) l b j m' E Hj') as [m [Hm _]]. unfold step_emclose in E. destruct (nth_error (emitters a) j0) as [m0|] eqn:Ej; [|discriminate].
      assert (X : mnew m' = mnew m).
      { destruct (Nat.eq_dec j0 j) as [->|Nj].
        - rewrite Hm in Ej. inversion Ej; subst m0.
          destruct (mcl m); try discriminate; try (brute E; inversion E; subst; cbn in Hj'; rewrite (nth_error_upd_eq _ _ _ _ Hm) in Hj'; inversion Hj'; reflexivity).
          apply otau_Some in E. destruct E as [E _]. apply option_map_Some in E. destruct E as [x [E ->]]. cbn in Hj'. rewrite (proj2 (try_drop_emits _ _ _ E)) in Hj'.
          rewrite (nth_error_upd_eq _ _ _ _ Hm) in Hj'. inversion Hj'; reflexivity.
        - destruct (mcl m0); try discriminate; try (brute E; inversion E; subst; cbn in Hj'; rewrite nth_error_upd_neq in Hj' by assumption; rewrite Hm in Hj'; inversion Hj'; reflexivity).
          apply otau_Some in E. destruct E as [E _]. apply option_map_Some in E. destruct E as [x [E ->]]. cbn in Hj'. rewrite (proj2 (try_drop_emits _ _ _ E)) in Hj'.
          rewrite nth_error_upd_neq in Hj' by assumption. rewrite Hm in Hj'. inversion Hj'; reflexivity. }
      rewrite X. eapply H; exact Hm.
  - intros j m Hj. destruct (cfg_wf_init c W) as [[_ [He _]] _]. rewrite Forall_forall in He. destruct (He m (nth_error_In _ _ Hj)) as [X _]. lia.
Qed.

Lemma z_step_cfg : forall c s0 t l st', cfg_wf c = true -> ZI (St c s0) (Tr c s0) -> step (St c s0) t = Some (l, st') -> ZI st' (Tr c s0 ++ olab l).
Proof.
  intros c s0 t l st' W H E s cs' i n Ec' Es'. destruct (reach_cfg c s0 W) as [G [_ [_ TV]]]. destruct (gV _ G) as [V1 [V2 [V3 [_ V5]]]].
  destruct (trok_cfg c s0 W) as [O TS TC].
  destruct (rv_cases _ _ _ _ _ _ E Ec') as [cs [Ec Hrv]].
  (* an index that existed before the step *)
  assert (OLDI : nth_error (snodes cs) i = Some n ->
            (nth_error (rpend cs') i = nth_error (rpend cs) i \/ (t = TReplay s i /\ nth_error (rpend cs) i = Some true)) ->
            zcc st' (Tr c s0 ++ olab l) s cs' i n \/ znr st' (Tr c s0 ++ olab l) s n).
  { intros Es Hr. pose proof (joined_started c s0 s cs i n W Ec Es) as Hs.
    assert (Ln : (n < length (nodes (St c s0)))%nat) by (apply (V2 s cs n Ec), (nth_error_In _ _ Es)).
    destruct (H s cs i n Ec Es) as [Z|Z]; [left; eapply zcc_step; eauto|right; eapply znr_step; eauto]. }
  destruct Hrv as [Hf|[[i0 [Ht [Hr0 [Hsn Hrp]]]]|[i1 [n1 [Ht [Ep [Hsn Hrp]]]]]]].
  - unfold fR in Hf. inversion Hf as [[A B]]. apply OLDI; [rewrite <- B; exact Es'|left; rewrite A; reflexivity].
  - apply OLDI; [rewrite <- Hsn; exact Es'|]. rewrite Hrp. destruct (Nat.eq_dec i0 i) as [->|N]; [right; auto|left; apply nth_error_upd_neq; exact N].
  - rewrite Hsn in Es'. apply nth_error_app_inv in Es'. destruct Es' as [Es|[Hi Hn]].
    + apply OLDI; [exact Es|]. left. rewrite Hrp. apply nth_error_app1. rewrite (iLen _ (gI _ G) s cs Ec). apply nth_error_Some. congruence.
    + (* the node just joined *)
      subst n1 t. pose proof E as E0. cbn [step] in E. unfold step_sub in E. fold (St c s0) in E. rewrite Ec, Ep in E.
      destruct (styps cs) as [tys|] eqn:Et; [|discriminate]. destruct (nth_error (nodes (St c s0)) n) as [nd|] eqn:En; [|discriminate]. destruct (holder nd) eqn:Eh; [discriminate|].
      inversion E; subst l st'. clear E. rewrite olab_none.
      assert (Ln : (n < length (nodes (St c s0)))%nat) by (apply nth_error_Some; congruence).
      assert (Hs : o_started (Tr c s0) (TSub s) = true) by (eapply sub_pc_started; [exact W|exact Ec|congruence]).
      assert (NRt : o_returned (Tr c s0) (TSub s) = false).
      { pose proof (obS _ _ O s (spc cs)) as N. unfold xS in N. rewrite nth_error_map in N. fold (St c s0) in N. rewrite Ec in N. specialize (N eq_refl). rewrite Ep in N. cbn in N.
        apply tstat_started in N. apply N. }
      cbn in Ec'. rewrite (nth_error_upd_eq _ _ _ _ Ec) in Ec'. inversion Ec' as [Ecs']. clear Ec'.
      (* without a retained event no replay can be due: a stateful emitter that stayed open would have kept one *)
      assert (NRE : forall ndo stx, nth_error (nodes (St c s0)) n = Some ndo -> (keep ndo = false \/ nlast ndo = None) ->
                emitters stx = emitters (St c s0) -> emits stx = emits (St c s0) ->
                (forall ndx, nth_error (nodes stx) n = Some ndx -> nty ndx = nty ndo) -> znr stx (Tr c s0) s n).
      { intros ndo stx Eno Hno Hem Hes Hnt j mj k0 e0 m0 ndx Ej Ms Hnx Ty Ek0 Em0 Tq [Bf [Ok [Old Q]]].
        rewrite Hem in Ej, Em0. rewrite Hes in Ek0. specialize (Hnt ndx Hnx).
        destruct (before_true _ _ _ Bf) as [Rn _]. fold (o_returned (Tr c s0) (TEmNew j)) in Rn.
        pose proof (obE _ _ O j (mnew mj) (mnode mj) (mcl mj)) as OE. unfold wE in OE. rewrite nth_error_map in OE. fold (St c s0) in OE. rewrite Ej in OE.
        destruct (OE eq_refl) as [OE1 OE2]. unfold tstat in OE1, OE2. fold (Tr c s0) in OE1, OE2. rewrite Rn in OE1.
        assert (M4 : mnew mj = 4%nat).
        { pose proof (mnew_le4_cfg c s0 j mj W Ej) as Le. destruct (mnew mj) as [|[|[|[|?]]]]; cbn in OE1; try discriminate. lia. }
        unfold qopen in Q. rewrite NRt in Q. cbn [orb] in Q. apply andb_true_iff in Q. destruct Q as [_ Q]. apply negb_true_iff in Q.
        assert (C0j : mcl mj = C0).
        { rewrite Q in OE2. destruct (o_returned (Tr c s0) (TEmClose j)) eqn:Rc; [rewrite (TS _ Rc) in Q; discriminate|]. destruct (mcl mj); cbn in OE2; try discriminate. reflexivity. }
        pose proof (ok_done c s0 k0 e0 W Ek0 Ok) as Ed0.
        assert (L0 : lk_pc false (epc e0) (a_ok (Tr c s0) k0)) by (rewrite Ed0; exact Ok).
        destruct (open_registered c s0 j mj W Ej M4 (or_introl C0j)) as [ndj [Enj [Tyj Regj]]].
        pose proof (nl2 _ _ (nl_cfg c s0 W) j mj k0 e0 m0 ndj Ej Ms M4 C0j Ek0 Em0 Tq Bf L0 Enj) as NL0.
        destruct (kp3 _ (kp_cfg c s0 W) j mj Ej Ms ltac:(lia)) as [ndk [Enk Kpk]]. rewrite Enj in Enk. inversion Enk; subst ndk.
        assert (Regn : nth_error (bmap (St c s0)) (nty nd) = Some (Some n)).
        { eapply (ra1 _ _ _ (rega_cfg c s0 W) n (nty nd) (nem nd) (sinks nd) (npend nd)); [unfold vA; rewrite nth_error_map, En; reflexivity|].
          right. right. eapply npend_pos_sub; [apply G|exact Ec|exact Ep|exact En]. }
        rewrite En in Eno. inversion Eno; subst ndo.
        assert (Hq : mnode mj = n) by (rewrite <- Hnt, <- Ty in Regn; rewrite Regj in Regn; inversion Regn; reflexivity).
        rewrite Hq, En in Enj. inversion Enj; subst ndj. destruct Hno as [X|X]; congruence. }
      destruct (keep nd) eqn:Kp; [destruct (nlast nd) as [lv|] eqn:El|].
      * (* a retained event is promised *)
        left. destruct (prom_cfg c s0 W) as [_ PN _ _].
        assert (Vl : nth_error (pL (St c s0)) n = Some (Some lv)) by (unfold pL; rewrite nth_error_map, En; cbn; rewrite El; reflexivity).
        destruct (PN n lv Vl) as [k1 [j1 [p1 [A [B _]]]]]. unfold pE in A. rewrite nth_error_map in A.
        destruct (nth_error (emits (St c s0)) k1) as [e1|] eqn:Ek1; [|discriminate]. inversion A as [[A1 A2 A3]].
        exists lv, [], k1, e1. split; [|split; [exact Ek1|split; [exact A2|split]]].
        -- cbn [expd c_expd c_app]. rewrite proj_app.
           pose proof (sapp_fresh _ s cs i1 n tys (gI _ G) (TYV_TY _ TV) (gV _ G) Ec Ep Et Ln) as NF.
           pose proof (Forall_nth_error _ _ _ _ (proj2 (full1_run (init_of c) s0 (init_initial c W))) Ec ltac:(congruence) n NF) as Z. fold (St c s0) in Z.
           rewrite Z. cbn. rewrite Nat.eqb_refl. rewrite ?A2. reflexivity.
        -- destruct (a_fresh (Tr c s0) s k1) eqn:F; [|reflexivity]. destruct (fresh_returned _ _ _ F) as [X _]. congruence.
        -- left. split.
           ++ cbn [rpend c_expd c_app]. rewrite Hi. rewrite <- (iLen _ (gI _ G) s cs Ec). rewrite nth_error_app2 by lia. rewrite Nat.sub_diag. reflexivity.
           ++ eexists. cbn. rewrite (nth_error_upd_eq _ _ _ _ En). split; [reflexivity|]. cbn. auto.
      * right. eapply (NRE nd); [exact En|right; exact El|reflexivity|reflexivity|].
        intros ndx Hx. cbn in Hx. rewrite (nth_error_upd_eq _ _ _ _ En) in Hx. inversion Hx. reflexivity.
      * right. eapply (NRE nd); [exact En|left; exact Kp|reflexivity|reflexivity|].
        intros ndx Hx. cbn in Hx. rewrite (nth_error_upd_eq _ _ _ _ En) in Hx. inversion Hx. reflexivity.
Qed.

Lemma z_cfg : forall c s1, cfg_wf c = true -> ZI (St c s1) (Tr c s1).
Proof.
  intros c s1 W. unfold St, Tr. apply (coupled_run_all ZI).
  - intros s cs i n Ec Es. destruct (cfg_wf_init c W) as [[[_ [_ [_ [_ [Hs _]]]]] _] _]. rewrite (Forall_nth_error _ _ _ _ Hs Ec) in Es. cbn in Es. destruct i; discriminate.
  - intros s0 t l st' H E. eapply z_step_cfg; eassumption.
Qed.

(* C15 — the conditions under which d_check_read / d_check_quiet report each rule. *)
From Coq Require Import List Arith ZArith Bool Lia.
From Verif Require Import lib.Wire c15.Lts c15.Model c15.Spec.
Import ListNotations.
Local Open Scope Z_scope.

Section C.
  Variable d : dcfg.
  Variable pre : list label.
  Variable s : nat.
  Variable v : Z.
  Variable k : nat.

  Definition c2 := negb (dm_matches d s k).
  Definition c3 := negb (a_started pre (TEmit k)) || a_failed pre k.
  Definition c4 := a_after_close pre s.
  Definition c5 := a_read pre s (Z.eqb v).
  Definition c6 :=
    a_old pre s k &&
    (dm_wild d s
     || negb (existsb (fun j => match nth_error (d_em d) j with
                                | Some (t, true) => ty_eqb (Some t) (dm_ty d k) && a_started pre (TEmNew j) | _ => false end)
                      (seq 0 (length (d_em d))))
     || a_read pre s (fun v' => ty_eqb (dm_ev_ty d v') (dm_ty d k))
     || existsb (fun k2 => ty_eqb (dm_ty d k2) (dm_ty d k) && a_ok pre k2 && a_rbs pre k k2 && a_old pre s k2) (dm_emits d)).
  Definition c7 :=
    negb (a_started pre (TClose s)) &&
    existsb (fun k2 => negb (Nat.eqb k2 k) && dm_matches d s k2 && a_ok pre k2 && a_fresh pre s k2 && a_rbs pre k2 k
                       && match dm_ev d k2 with Some v2 => negb (a_read pre s (Z.eqb v2)) | None => false end) (dm_emits d).
  Definition c8 :=
    negb (a_started pre (TClose s)) && a_fresh pre s k
    && match dm_ty d k with Some ty => a_replay_due d pre s ty | None => false end
    && negb (a_read pre s (fun v' => ty_eqb (dm_ev_ty d v') (dm_ty d k) && a_nonfresh d pre s v')).
End C.

Lemma d_check_read_inv : forall d pre s v,
  match dm_find d v with
  | None => d_check_read d pre s v = 1
  | Some k =>
      let r := d_check_read d pre s v in
      (r = 2 /\ c2 d s k = true) \/ (r = 3 /\ c3 pre k = true) \/ (r = 4 /\ c4 pre s = true) \/ (r = 5 /\ c5 pre s v = true) \/
      (r = 6 /\ c6 d pre s k = true) \/ (r = 7 /\ c7 d pre s k = true) \/ (r = 8 /\ c8 d pre s k = true) \/ r = 0
  end.
Proof.
  intros d pre s v. unfold d_check_read. destruct (dm_find d v) as [k|]; [|reflexivity]. cbv zeta.
  fold (c2 d s k). destruct (c2 d s k) eqn:E2; [tauto|].
  fold (c3 pre k). destruct (c3 pre k) eqn:E3; [tauto|].
  fold (c4 pre s). destruct (c4 pre s) eqn:E4; [tauto|].
  fold (c5 pre s v). destruct (c5 pre s v) eqn:E5; [tauto|].
  fold (c6 d pre s k). destruct (c6 d pre s k) eqn:E6; [tauto|].
  fold (c7 d pre s k). destruct (c7 d pre s k) eqn:E7; [tauto|].
  fold (c8 d pre s k). destruct (c8 d pre s k) eqn:E8; tauto.
Qed.

(* to exclude rule r it suffices that its condition is false for the Emit call found *)
Lemma read_not : forall d pre s v r k, dm_find d v = Some k ->
  (r = 1 \/ (r = 2 /\ c2 d s k = false) \/ (r = 3 /\ c3 pre k = false) \/ (r = 4 /\ c4 pre s = false) \/ (r = 5 /\ c5 pre s v = false) \/
   (r = 6 /\ c6 d pre s k = false) \/ (r = 7 /\ c7 d pre s k = false) \/ (r = 8 /\ c8 d pre s k = false)) ->
  d_check_read d pre s v <> r.
Proof.
  intros d pre s v r k Hf H. pose proof (d_check_read_inv d pre s v) as I. rewrite Hf in I. cbv zeta in I.
  intros X. rewrite X in I.
  destruct H as [->|[[-> H]|[[-> H]|[[-> H]|[[-> H]|[[-> H]|[[-> H]|[-> H]]]]]]]];
    destruct I as [[A B]|[[A B]|[[A B]|[[A B]|[[A B]|[[A B]|[[A B]|A]]]]]]]; try discriminate; congruence.
Qed.

(* Labelled transition systems with named threads, executable steps,
   arbitrary schedules, and a trace acceptor.  Self-contained (stdlib only);
   reusable by C06 / C12:  From Verif Require Import c15.Lts.

   A system is  step : St -> Thr -> option (option Lab * St)
     None            the thread is not enabled in this state
     Some (None,s')  an internal (tau) step
     Some (Some l,s') a visible step with label l
   Each thread has at most one step in a state (its program counter lives in
   the state); nondeterminism is only the choice of the thread = the schedule. *)
From Coq Require Import List Bool Arith.
Import ListNotations.

Section LTS.
  Variables St Thr Lab : Type.
  Variable step : St -> Thr -> option (option Lab * St).

  (* run a schedule; a scheduled thread that is not enabled is skipped *)
  Fixpoint run (s : St) (sched : list Thr) : St :=
    match sched with
    | [] => s
    | t :: r => match step s t with Some (_, s') => run s' r | None => run s r end
    end.

  Fixpoint trace (s : St) (sched : list Thr) : list Lab :=
    match sched with
    | [] => []
    | t :: r => match step s t with
                | Some (Some l, s') => l :: trace s' r
                | Some (None, s') => trace s' r
                | None => trace s r
                end
    end.

  Definition Reachable (init s : St) : Prop := exists sched, run init sched = s.

  Lemma run_app : forall a b s, run s (a ++ b) = run (run s a) b.
  Proof. induction a as [|t a IH]; intros b s; cbn; [reflexivity|].
    destruct (step s t) as [[l s']|]; apply IH. Qed.

  Lemma trace_app : forall a b s, trace s (a ++ b) = trace s a ++ trace (run s a) b.
  Proof. induction a as [|t a IH]; intros b s; cbn; [reflexivity|].
    destruct (step s t) as [[[l|] s']|]; cbn; rewrite ?IH; reflexivity. Qed.

  (* invariants hold along EVERY schedule *)
  Theorem invariant_run : forall (P : St -> Prop),
    (forall s t l s', P s -> step s t = Some (l, s') -> P s') ->
    forall sched s, P s -> P (run s sched).
  Proof. intros P Hs. induction sched as [|t r IH]; intros s Hp; cbn; [exact Hp|].
    destruct (step s t) as [[l s']|] eqn:E; [apply IH, (Hs _ _ _ _ Hp E)|apply IH, Hp]. Qed.

  Theorem invariant_reachable : forall (P : St -> Prop) init,
    P init -> (forall s t l s', P s -> step s t = Some (l, s') -> P s') ->
    forall s, Reachable init s -> P s.
  Proof. intros P init Hi Hs s [sched <-]. apply invariant_run; assumption. Qed.

  (* two-state (history) invariants: R relates a state to every later one *)
  Theorem relation_run : forall (R : St -> St -> Prop),
    (forall s, R s s) -> (forall a b c, R a b -> R b c -> R a c) ->
    (forall s t l s', step s t = Some (l, s') -> R s s') ->
    forall sched s, R s (run s sched).
  Proof. intros R Hr Ht Hs. induction sched as [|t r IH]; intros s; cbn; [apply Hr|].
    destruct (step s t) as [[l s']|] eqn:E; [eapply Ht; [apply (Hs _ _ _ _ E)|apply IH]|apply IH]. Qed.

  Lemma reachable_step : forall init s t l s', Reachable init s ->
    step s t = Some (l, s') -> Reachable init s'.
  Proof. intros init s t l s' [sc <-] E. exists (sc ++ [t]). rewrite run_app. cbn. rewrite E. reflexivity. Qed.

  Lemma reachable_run : forall init s sched, Reachable init s -> Reachable init (run s sched).
  Proof. intros init s sched [sc <-]. exists (sc ++ sched). apply run_app. Qed.

  (* ---- trace acceptor --------------------------------------------------
     Is a recorded sequence of visible labels a trace of the system?  A set
     of candidate states is pushed through the labels; between labels it is
     closed under tau steps (breadth first, bounded by fuel).  [stim l] marks
     labels issued by an environment that waits for quiescence first: before
     such a label only states in which nothing but stimuli is enabled are
     kept.  [st_eqb] only removes duplicates, so any boolean is sound. *)
  Variable thrs : St -> list Thr.
  Variable st_eqb : St -> St -> bool.
  Variable lab_eqb : Lab -> Lab -> bool.
  Hypothesis lab_eqb_eq : forall a b, lab_eqb a b = true -> a = b.
  Variable stim : Lab -> bool.

  Definition tau_succ (s : St) : list St :=
    flat_map (fun t => match step s t with Some (None, s') => [s'] | _ => [] end) (thrs s).

  Definition vis_succ (l : Lab) (s : St) : list St :=
    flat_map (fun t => match step s t with
                       | Some (Some l', s') => if lab_eqb l l' then [s'] else []
                       | _ => [] end) (thrs s).

  Definition quiescent (s : St) : bool :=
    forallb (fun t => match step s t with
                      | Some (None, _) => false
                      | Some (Some l, _) => stim l
                      | None => true end) (thrs s).

  Fixpoint add_new (cands seen acc : list St) : list St :=
    match cands with
    | [] => rev acc
    | c :: r => if existsb (st_eqb c) seen || existsb (st_eqb c) acc
                then add_new r seen acc else add_new r seen (c :: acc)
    end.

  Fixpoint closure (fuel : nat) (front seen : list St) : list St :=
    match fuel with
    | O => seen
    | S f => match add_new (flat_map tau_succ front) seen [] with
             | [] => seen
             | new => closure f new (seen ++ new)
             end
    end.

  (* The candidate set is tau-closed once at the start and again after every
     stimulus; the other visible labels (returns, reports) are thread-local
     steps, after which a tau-closed set is still tau-closed, so it is not
     recomputed (this only affects completeness, never soundness). *)
  Fixpoint accept (fuel : nat) (S : list St) (tr : list Lab) : bool :=
    match tr with
    | [] => match S with [] => false | _ => true end
    | l :: r =>
        let C := if stim l then filter quiescent S else S in
        let S1 := add_new (flat_map (vis_succ l) C) [] [] in
        accept fuel (if stim l then closure fuel S1 S1 else S1) r
    end.

  Definition trace_accepted (fuel : nat) (init : St) (tr : list Lab) : bool :=
    accept fuel (closure fuel [init] [init]) tr.

  Definition RunsTo (init : St) (tr : list Lab) (s : St) : Prop :=
    exists sched, run init sched = s /\ trace init sched = tr.

  Lemma add_new_sub : forall cands seen acc x,
    In x (add_new cands seen acc) -> In x cands \/ In x acc.
  Proof. induction cands as [|c r IH]; intros seen acc x H; cbn in H.
    - right. apply in_rev, H.
    - destruct (existsb (st_eqb c) seen || existsb (st_eqb c) acc).
      + destruct (IH _ _ _ H); [left; right|right]; assumption.
      + destruct (IH _ _ _ H) as [|[|]]; [left; right; assumption|left; left; assumption|right; assumption]. Qed.

  Lemma tau_succ_runs : forall init tr s y, RunsTo init tr s -> In y (tau_succ s) -> RunsTo init tr y.
  Proof. intros init tr s y [sc [H1 H2]] H. apply in_flat_map in H. destruct H as [t [_ H]].
    destruct (step s t) as [[[l|] s']|] eqn:E; try contradiction. destruct H as [<-|[]].
    exists (sc ++ [t]). rewrite run_app, trace_app, H1, H2. cbn. rewrite E. split; [reflexivity|apply app_nil_r]. Qed.

  Lemma vis_succ_runs : forall init tr s l y, RunsTo init tr s -> In y (vis_succ l s) -> RunsTo init (tr ++ [l]) y.
  Proof. intros init tr s l y [sc [H1 H2]] H. apply in_flat_map in H. destruct H as [t [_ H]].
    destruct (step s t) as [[[l'|] s']|] eqn:E; try contradiction.
    destruct (lab_eqb l l') eqn:El; [|contradiction]. apply lab_eqb_eq in El. subst l'.
    destruct H as [<-|[]]. exists (sc ++ [t]). rewrite run_app, trace_app, H1, H2. cbn. rewrite E. split; reflexivity. Qed.

  Lemma closure_runs : forall init tr fuel front seen,
    (forall x, In x front -> RunsTo init tr x) -> (forall x, In x seen -> RunsTo init tr x) ->
    forall x, In x (closure fuel front seen) -> RunsTo init tr x.
  Proof. induction fuel as [|f IH]; intros front seen Hf Hs x H; cbn in H; [apply Hs, H|].
    destruct (add_new (flat_map tau_succ front) seen []) as [|n0 nw] eqn:E; [apply Hs, H|].
    assert (Hn : forall y, In y (n0 :: nw) -> RunsTo init tr y).
    { intros y Hy. rewrite <- E in Hy. apply add_new_sub in Hy. destruct Hy as [Hy|[]].
      apply in_flat_map in Hy. destruct Hy as [z [Hz Hy]]. eapply tau_succ_runs; [apply Hf, Hz|exact Hy]. }
    apply (IH (n0 :: nw) (seen ++ n0 :: nw)); [exact Hn| |exact H].
    intros y Hy. apply in_app_or in Hy. destruct Hy; [apply Hs|apply Hn]; assumption. Qed.

  Lemma accept_sound_gen : forall init fuel tr pre S,
    (forall x, In x S -> RunsTo init pre x) -> accept fuel S tr = true ->
    exists s, RunsTo init (pre ++ tr) s.
  Proof. induction tr as [|l r IH]; intros pre S HS H; cbn in H.
    - destruct S as [|x S]; [discriminate|]. exists x. rewrite app_nil_r. apply HS. left. reflexivity.
    - replace (pre ++ l :: r) with ((pre ++ [l]) ++ r) by (rewrite <- app_assoc; reflexivity).
      assert (H1 : forall x, In x (add_new (flat_map (vis_succ l) (if stim l then filter quiescent S else S)) [] []) ->
                             RunsTo init (pre ++ [l]) x).
      { intros x Hx. apply add_new_sub in Hx. destruct Hx as [Hx|[]].
        apply in_flat_map in Hx. destruct Hx as [z [Hz Hx]]. eapply vis_succ_runs; [|exact Hx].
        apply HS. destruct (stim l); [apply filter_In in Hz; apply Hz|exact Hz]. }
      eapply IH; [|exact H]. intros x Hx. destruct (stim l); [|apply H1, Hx].
      eapply closure_runs; [| |exact Hx]; exact H1. Qed.

  (* an accepted trace IS a trace of the system under some schedule *)
  Theorem trace_accepted_sound : forall fuel init tr,
    trace_accepted fuel init tr = true -> exists sched, trace init sched = tr.
  Proof. intros fuel init tr H.
    assert (H0 : forall x, In x [init] -> RunsTo init [] x).
    { intros x [<-|[]]. exists []. split; reflexivity. }
    destruct (accept_sound_gen init fuel tr [] (closure fuel [init] [init])) as [s [sc [_ Ht]]].
    - intros x Hx. eapply closure_runs; [| |exact Hx]; exact H0.
    - exact H.
    - exists sc. exact Ht. Qed.
  (* ---- depth-first acceptor ------------------------------------------------
     Searches for ONE run with the given visible trace: fire the next label
     if it is enabled (stimuli only in quiescent states), otherwise try the
     tau steps.  [memo] collects (remaining length, state) pairs already
     known to fail; it only prunes.  Much cheaper than pushing whole state
     sets when many threads run independently. *)
  Definition memo_has (memo : list (nat * St)) (n : nat) (s : St) : bool :=
    existsb (fun p => Nat.eqb (fst p) n && st_eqb (snd p) s) memo.

  Fixpoint dfs (fuel : nat) (s : St) (tr : list Lab) (memo : list (nat * St)) : bool * list (nat * St) :=
    match fuel with
    | O => (false, memo)
    | S f =>
        match tr with
        | [] => (true, memo)
        | l :: r =>
            if memo_has memo (length tr) s then (false, memo) else
            let now := if stim l && negb (quiescent s) then [] else map (fun x => (x, r)) (vis_succ l s) in
            let later := map (fun x => (x, tr)) (tau_succ s) in
            let res :=
              (fix go (cands : list (St * list Lab)) (memo : list (nat * St)) : bool * list (nat * St) :=
                 match cands with
                 | [] => (false, memo)
                 | (x, tr') :: cs => let '(b, m') := dfs f x tr' memo in
                                     if b then (true, m') else go cs m'
                 end) (now ++ later) memo in
            if fst res then res else (false, (length tr, s) :: snd res)
        end
    end.

  Definition trace_accepted_dfs (fuel : nat) (init : St) (tr : list Lab) : bool :=
    fst (dfs fuel init tr []).

  Lemma tau_succ_step : forall s y, In y (tau_succ s) -> exists t, step s t = Some (None, y).
  Proof. intros s y H. apply in_flat_map in H. destruct H as [t [_ H]].
    destruct (step s t) as [[[l|] s']|] eqn:E; try contradiction. destruct H as [<-|[]]. exists t. exact E. Qed.

  Lemma vis_succ_step : forall l s y, In y (vis_succ l s) -> exists t, step s t = Some (Some l, y).
  Proof. intros l s y H. apply in_flat_map in H. destruct H as [t [_ H]].
    destruct (step s t) as [[[l'|] s']|] eqn:E; try contradiction.
    destruct (lab_eqb l l') eqn:El; [|contradiction]. apply lab_eqb_eq in El. subst l'.
    destruct H as [<-|[]]. exists t. exact E. Qed.

  Lemma dfs_sound : forall fuel s tr memo, fst (dfs fuel s tr memo) = true ->
    exists sched, trace s sched = tr.
  Proof. induction fuel as [|f IH]; intros s tr memo H; cbn in H; [discriminate|].
    destruct tr as [|l r]; [exists []; reflexivity|].
    destruct (memo_has memo (length (l :: r)) s); [discriminate|].
    set (now := if stim l && negb (quiescent s) then [] else map (fun x => (x, r)) (vis_succ l s)) in H.
    set (later := map (fun x => (x, l :: r)) (tau_succ s)) in H.
    assert (Hc : forall x tr', In (x, tr') (now ++ later) ->
              (exists t, step s t = Some (Some l, x) /\ tr' = r) \/ (exists t, step s t = Some (None, x) /\ tr' = l :: r)).
    { intros x tr' Hin. apply in_app_or in Hin. destruct Hin as [Hin|Hin].
      - left. unfold now in Hin. destruct (stim l && negb (quiescent s)); [destruct Hin|].
        apply in_map_iff in Hin. destruct Hin as [y [Ey Hy]]. inversion Ey; subst.
        destruct (vis_succ_step _ _ _ Hy) as [t Ht]. exists t. split; [exact Ht|reflexivity].
      - right. apply in_map_iff in Hin. destruct Hin as [y [Ey Hy]]. inversion Ey; subst.
        destruct (tau_succ_step _ _ Hy) as [t Ht]. exists t. split; [exact Ht|reflexivity]. }
    revert H Hc. generalize (now ++ later). clear now later. intros cands. revert memo.
    induction cands as [|[x tr'] cs IHc]; intros memo H Hc.
    - cbn in H. discriminate.
    - cbn in H. destruct (dfs f x tr' memo) as [b m'] eqn:E. destruct b.
      + assert (E1 : fst (dfs f x tr' memo) = true) by (rewrite E; reflexivity).
        destruct (IH _ _ _ E1) as [sc Hsc].
        destruct (Hc x tr' (or_introl eq_refl)) as [[t [Ht ->]]|[t [Ht ->]]];
          exists (t :: sc); cbn; rewrite Ht, Hsc; reflexivity.
      + apply (IHc m').
        * destruct ((fix go (cands : list (St * list Lab)) (memo : list (nat * St)) {struct cands} : bool * list (nat * St) :=
             match cands with
             | [] => (false, memo)
             | (x, tr') :: cs => let '(b, m') := dfs f x tr' memo in if b then (true, m') else go cs m'
             end) cs m') as [b2 m2] eqn:E2. cbn in H |- *. destruct b2; [reflexivity|discriminate].
        * intros y tr2 Hin. apply Hc. right. exact Hin. Qed.

  Theorem trace_accepted_dfs_sound : forall fuel init tr,
    trace_accepted_dfs fuel init tr = true -> exists sched, trace init sched = tr.
  Proof. intros fuel init tr H. eapply dfs_sound. exact H. Qed.
End LTS.

Arguments run {St Thr Lab}. Arguments trace {St Thr Lab}. Arguments Reachable {St Thr Lab}.
Arguments trace_accepted {St Thr Lab}. Arguments trace_accepted_dfs {St Thr Lab}. Arguments quiescent {St Thr Lab}.

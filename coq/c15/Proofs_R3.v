(* C15 — rule 3: a value read is the event of an Emit that started and did not fail.
   Also the common witness lemma for a reported value. *)
From Coq Require Import List Arith ZArith Bool Lia.
From Verif Require Import lib.Wire c15.Lts c15.Model c15.Spec c15.Proofs c15.Proofs_Chan c15.Proofs_Loc c15.Proofs_List c15.Proofs_Safe
  c15.Proofs_Init c15.Proofs_Once c15.Proofs_First c15.Proofs_Live c15.Proofs_Pend c15.Proofs_Idx c15.Proofs_Dead c15.Proofs_Prog c15.Proofs_Valid c15.Proofs_WildOK
  c15.Proofs_Blk c15.Proofs_Obs c15.Proofs_WSI c15.Proofs_TY c15.Proofs_Rule13 c15.Proofs_Reads c15.Proofs_Wire c15.Proofs_Disc c15.Proofs_Mon c15.Proofs_MonS
  c15.Proofs_Tr c15.Proofs_Cpl c15.Proofs_RInv c15.Proofs_RCtx c15.Proofs_Prom.
Import ListNotations.
Local Open Scope Z_scope.

(* the reachable state and trace of a configuration *)
Definition St (c : cfg) (s1 : list thr) := run step (init_of c) s1.
Definition Tr (c : cfg) (s1 : list thr) := trace step (init_of c) s1.

Lemma init_ids : forall c, cfg_wf c = true -> NoDup (map eev (emits (init_of c))).
Proof. intros c W. pose proof (ids_nodup c [] W) as H. exact H. Qed.

Lemma prom_cfg : forall c s1, cfg_wf c = true -> Prom (St c s1) (Tr c s1).
Proof. intros c s1 W. apply prom_run; [apply cfg_wf_init, W|apply init_ids, W]. Qed.

Lemma trok_cfg : forall c s1, cfg_wf c = true -> TrOK (St c s1) (Tr c s1).
Proof. intros c s1 W. apply trok_run. apply (cfg_wf_init c W). Qed.

(* a value in the consumer's hand is the event of exactly one Emit call k, which the monitor
   finds, and it was promised to the subscription *)
Lemma hand_witness : forall c s1 s cs v, cfg_wf c = true -> nth_error (subs (St c s1)) s = Some cs -> In v (hand cs) -> v <> -2 ->
  exists tag k e, In (tag, v) (recv cs) /\ In (tag, v) (hist cs) /\ In (tag, v) (expd cs) /\
    nth_error (emits (St c s1)) k = Some e /\ eev e = v /\ dm_find (dcfg_of_cfg c) v = Some k /\
    lk_pc (is_none (styps cs)) (epc e) (a_ok (Tr c s1) k).
Proof.
  intros c s1 s cs v W Ec Hv Nv. pose proof (cfg_wf_init c W) as WI. pose proof WI as [[Hi _] _].
  destruct (prov_run _ s1 WI) as [_ FH]. destruct (Forall_nth_error _ _ _ _ FH Ec) as [R1 [_ R3]].
  destruct (R3 v Hv) as [X|X]; [contradiction|]. apply in_map_iff in X. destruct X as [[tag v'] [Ev Hr]]. cbn in Ev. subst v'.
  pose proof (R1 _ Hr) as Hh. pose proof (hist_in_expd _ s1 s cs tag v Hi Ec Hh) as Hx.
  destruct (prom_cfg c s1 W) as [T _ _ _].
  assert (Vx : nth_error (pX (St c s1)) s = Some (styps cs, expd cs)) by (unfold pX; rewrite nth_error_map; unfold St in Ec; unfold St; rewrite Ec; reflexivity).
  destruct (T s _ _ tag v Vx Hx) as [k [j [p [A [B _]]]]].
  unfold pE in A. rewrite nth_error_map in A. destruct (nth_error (emits (St c s1)) k) as [e|] eqn:Ek; [|discriminate]. inversion A; subst.
  exists tag, k, e. repeat split; auto.
  rewrite (d_state c s1). apply dm_find_uniq; [apply ids_nodup, W|exact Ek].
Qed.

Lemma locked_started : forall st tr k e w, TrOK st tr -> nth_error (emits st) k = Some e -> lk_pc w (epc e) (a_ok tr k) ->
  o_started tr (TEmit k) = true /\ a_failed tr k = false.
Proof.
  intros st tr k e w [O S C] Ek L.
  assert (X : tstat tr (TEmit k) = st_emit (epc e)) by (eapply (obM _ _ O k); unfold xM; rewrite nth_error_map, Ek; reflexivity).
  assert (NF : o_returned tr (TEmit k) = false -> a_failed tr k = false).
  { intros H. apply not_true_is_false. intros F. apply failed_returned in F. congruence. }
  destruct (epc e); cbn in L; try contradiction; cbn in X;
    try (destruct (tstat_started _ _ X) as [A B]; split; [exact A|apply NF, B]).
  split; [apply S, tstat_done, X|]. apply not_true_is_false. intros F. exact (C k L F).
Qed.

Lemma rule3_ok : read_rule_ok 3.
Proof.
  intros c s1 t s v st' W D E Hv. destruct (read_step_inv _ _ _ _ _ E) as [cs [r [Ec [Eh _]]]].
  destruct (hand_witness c s1 s cs v W Ec ltac:(rewrite Eh; left; reflexivity) Hv) as [tag [k [e [_ [_ [_ [Ek [Ev [F L]]]]]]]]].
  eapply read_not; [exact F|]. right. right. left. split; [reflexivity|]. unfold c3.
  destruct (locked_started _ _ k e _ (trok_cfg c s1 W) Ek L) as [A B]. unfold a_started. fold (Tr c s1). rewrite A, B. reflexivity.
Qed.

(* C15 — per-subscription facts about the drainer and the close flag that rule 4 rests on:
   the drainer runs exactly while Close is in progress, it leaves only an empty channel,
   a typed Close has closed the channel when it returns, a wildcard Close has waited for
   its drainer. *)
From Coq Require Import List Arith ZArith Bool Lia.
From Verif Require Import c15.Lts c15.Model c15.Spec c15.Proofs_Chan c15.Proofs_Loc c15.Proofs_List c15.Proofs_Safe
  c15.Proofs_Init c15.Proofs_Live c15.Proofs_Pend c15.Proofs_Idx c15.Proofs_Dead c15.Proofs_Prog c15.Proofs_Valid c15.Proofs_WildOK
  c15.Proofs_Once c15.Proofs_First c15.Proofs_Blk c15.Proofs_Loc3 c15.Proofs_WSI.
Import ListNotations.

Definition loc4 (c : sub) : Prop :=
  (cpc c = K0 -> drain c = 0) /\
  (cpc c <> K0 -> drain c <> 0) /\
  (drain c = 3 -> buf c = []) /\
  (styps c <> None -> (cpc c = KRet \/ cpc c = KDone) -> closed c = true) /\
  (styps c <> None -> drain c = 3 -> closed c = true) /\
  (styps c = None -> (cpc c = KRet \/ cpc c = KDone) -> drain c = 3) /\
  (styps c = None -> drain c = 3 -> cpc c = KW5 \/ cpc c = KRet \/ cpc c = KDone) /\
  (drain c = 2 -> cpc c = KW5 /\ styps c = None) /\
  drain c <= 3.

Ltac l4_sub Ec :=
  let y := fresh in let Hy := fresh in let Py := fresh in
  intros y Hy Py; rewrite Ec in Hy; inversion Hy; subst; clear Hy; destruct Py as [Q1 [Q2 [Q3 [Q4 [Q5 [Q6 [Q7 [Q8 Q9]]]]]]]]; unfold loc4; cbn.
Ltac l4_fwd := repeat match goal with
  | Q : ?A -> _, H : ?A |- _ => specialize (Q H)
  | Q : ?A <> ?B -> _ |- _ => let X := fresh in assert (X : A <> B) by congruence; specialize (Q X); clear X
  end.
Ltac l4_one :=
  intros; try discriminate; try congruence; eauto; try lia;
  try solve [match goal with Q : _ |- _ => apply Q; solve [congruence | intuition congruence] end];
  try (match goal with H : _ \/ _ |- _ => destruct H; try discriminate; try congruence end);
  try solve [exfalso; eauto; congruence];
  try solve [l4_fwd; intuition (try discriminate; try congruence)].
Ltac l4_split := split; [|split; [|split; [|split; [|split; [|split; [|split; [|split]]]]]]].
Ltac l4_auto := l4_split; l4_one.

Lemma send_l4 : forall st s it st', Forall loc4 (subs st) ->
  (forall c, nth_error (subs st) s = Some c -> styps c = None -> drain c = 3 -> False) ->
  send st s it = Some st' -> Forall loc4 (subs st').
Proof.
  intros st s it st' H NT E. unfold send in E. destruct (nth_error (subs st) s) as [c|] eqn:Ec; [|discriminate].
  destruct (closed c) eqn:Ecl. { inversion E; subst. exact H. }
  destruct (room c); [|discriminate]. inversion E; subst. cbn. apply Forall_upd; [exact H|]. l4_sub Ec.
  l4_split; auto. intros D3. exfalso. destruct (styps H0) eqn:Et; [|exact (NT H0 eq_refl Et D3)].
  assert (X : closed H0 = true) by (apply Q5; [congruence|exact D3]). congruence.
Qed.

Lemma expect_l4 : forall l tg it i, Forall loc4 l -> Forall loc4 (expect_all l tg it i).
Proof. induction l as [|c l IH]; intros tg it i H; cbn; [constructor|]. inversion H; subst. constructor; [exact H2|apply IH; assumption]. Qed.

Lemma step_l4 : forall st t l st', Forall sub_loc (subs st) -> Inv2 st -> TY st -> WSV st -> Forall idx2 (subs st) -> Forall loc3 (subs st) ->
  Forall loc4 (subs st) -> step st t = Some (l, st') -> Forall loc4 (subs st').
Proof.
  intros st t l st' HL I T W X2 L3 H E. destruct t; cbn [step] in E.
  - rewrite (emnew_subs _ _ _ _ E). exact H.
  - rewrite (emclose_subs _ _ _ _ E). exact H.
  - unfold step_emit in E. destruct (nth_error (emits st) k) as [e|] eqn:Ek; [|discriminate].
    destruct (nth_error (emitters st) (eem e)) as [m|]; [|discriminate].
    destruct (epc e) as [| | |n [|x r]|n|n|n [|x r]|c|] eqn:Ep; try discriminate;
      try solve [brute E; inversion E; subst; cbn; try apply expect_l4; exact H].
    + otau_inv E. cbn. eapply send_l4; [exact H| |exact E]. intros c Ec Et D3.
      destruct (iL st I k e n (x :: r) Ek Ep) as [nd [En [_ Hin]]].
      destruct (sink_typed st n nd x HL I T En (Hin x (or_introl eq_refl))) as [c' [tys [Ec' [Et' _]]]]. congruence.
    + otau_inv E. cbn. eapply send_l4; [exact H| |exact E]. intros c Ec Et D3.
      destruct W as [WA WB]. assert (Vk : nth_error (xM st) k = Some (EWSend n (x :: r))) by (unfold xM; rewrite nth_error_map, Ek; cbn; rewrite Ep; reflexivity).
      pose proof (WB k n (x :: r) x Vk (or_introl eq_refl)) as Hw. destruct (WA x Hw) as [p [q [_ [Hq [_ Cq]]]]].
      unfold xC in Hq. rewrite nth_error_map, Ec in Hq. inversion Hq; subst q.
      destruct (Forall_nth_error _ _ _ _ H Ec) as [_ [_ [_ [_ [_ [_ [Q7 _]]]]]]]. destruct (Q7 Et D3) as [Y|[Y|Y]]; rewrite Y in Cq; discriminate.
  - unfold step_sub in E. destruct (nth_error (subs st) s) as [c|] eqn:Ec; [|discriminate].
    destruct (spc c) eqn:Ep.
    + destruct (styps c); inversion E; subst; cbn; (apply Forall_upd; [exact H|]); l4_sub Ec; l4_auto.
    + destruct (styps c) as [tys|]; [|discriminate]. destruct (nth_error tys i) as [ty|]; [|discriminate].
      destruct (with_node st ty) as [[st1 n]|] eqn:Ew; [|discriminate]. inversion E; subst. cbn.
      rewrite (with_node_subs _ _ _ _ Ew). apply Forall_upd; [exact H|]. l4_sub Ec. l4_auto.
    + destruct (styps c) as [tys|]; [|discriminate]. destruct (nth_error (nodes st) n) as [nd|]; [|discriminate].
      destruct (holder nd); [discriminate|]. inversion E; subst. cbn. apply Forall_upd; [exact H|].
      destruct (keep nd); [destruct (nlast nd)|]; l4_sub Ec; l4_auto.
    + inversion E; subst; cbn; (apply Forall_upd; [exact H|]); l4_sub Ec; l4_auto.
    + destruct (wpend (wild st)); [discriminate|]. inversion E; subst; cbn; (apply Forall_upd; [exact H|]); l4_sub Ec; l4_auto.
    + destruct (Nat.eqb (rdrs (wild st)) 0); [|discriminate]. inversion E; subst; cbn; (apply Forall_upd; [exact H|]); l4_sub Ec; l4_auto.
    + inversion E; subst; cbn; (apply Forall_upd; [exact H|]); l4_sub Ec; l4_auto.
    + destruct (styps c); discriminate.
  - unfold step_replay in E. destruct (nth_error (subs st) s) as [c|] eqn:Ec; [|discriminate].
    destruct (nth_error (rpend c) i) as [[|]|] eqn:Er; try discriminate.
    destruct (nth_error (snodes c) i) as [n|]; [|discriminate]. destruct (nth_error (nodes st) n) as [nd|]; [|discriminate].
    destruct (keep nd); [destruct (nlast nd) as [lv|]|]; try solve [inversion E; subst; cbn; apply Forall_upd; [exact H|]; l4_sub Ec; l4_auto].
    otau_inv E.
    assert (NT : forall c0, nth_error (subs st) s = Some c0 -> styps c0 = None -> drain c0 = 3 -> False).
    { intros c0 Ec0 Et _. rewrite Ec in Ec0. inversion Ec0; subst c0. destruct (Forall_nth_error _ _ _ _ HL Ec) as [_ [_ [_ P4]]].
      destruct (P4 Et) as [_ [_ [_ Rp]]]. rewrite Rp in Er. destruct i; discriminate. }
    pose proof (send_l4 _ _ _ _ H NT E) as H1. destruct (nth_error (subs x) s) as [c'|] eqn:Ec'; [|exact H1]. cbn.
    apply Forall_upd; [exact H1|]. l4_sub Ec'. l4_auto.
  - unfold step_close in E. destruct (nth_error (subs st) s) as [c|] eqn:Ec; [|discriminate].
    destruct (cpc c) eqn:Ek; try discriminate.
    + destruct (spc c); try discriminate. inversion E; subst. cbn. apply Forall_upd; [exact H|]. l4_sub Ec.
      destruct (styps H0) as [tys|] eqn:Et; [destruct (snodes H0)|]; l4_auto.
    + destruct (nth_error (snodes c) i) as [n|]; [|discriminate]. destruct (nth_error (nodes st) n) as [nd|]; [|discriminate].
      destruct (holder nd); [discriminate|]. inversion E; subst. cbn. apply Forall_upd; [exact H|]. l4_sub Ec. rewrite Ek in *. unfold knext.
      destruct ((match remove_swap s (sinks nd) with [] => true | _ :: _ => false end) && Nat.eqb (nem nd) 0);
        [|destruct (Nat.ltb (S i) (length (snodes H0)))]; l4_auto.
    + inversion E; subst. cbn. apply Forall_upd; [exact H|]. l4_sub Ec. rewrite Ek in *. l4_auto.
    + destruct (nth_error (snodes c) i) as [n|]; [|discriminate]. destruct (nth_error (nodes st) n) as [nd|]; [|discriminate].
      otau_inv E. cbn. rewrite (try_drop_subs _ _ _ E). apply Forall_upd; [exact H|]. l4_sub Ec. rewrite Ek in *. unfold knext.
      destruct (Nat.ltb (S i) (length (snodes H0))); l4_auto.
    + assert (TT : styps c <> None) by (intros Et; destruct (Forall_nth_error _ _ _ _ HL Ec) as [_ [_ [_ P4]]]; destruct (P4 Et) as [_ [P _]]; rewrite Ek in P; discriminate).
      inversion E; subst. cbn. apply Forall_upd; [exact H|]. l4_sub Ec. rewrite Ek in *. l4_auto.
    + inversion E; subst. cbn. apply Forall_upd; [exact H|]. l4_sub Ec. rewrite Ek in *. l4_auto.
    + destruct (wpend (wild st)); [discriminate|]. inversion E; subst. cbn. apply Forall_upd; [exact H|]. l4_sub Ec. rewrite Ek in *. l4_auto.
    + destruct (Nat.eqb (rdrs (wild st)) 0); [|discriminate]. inversion E; subst. cbn. apply Forall_upd; [exact H|]. l4_sub Ec. rewrite Ek in *. l4_auto.
    + assert (D1 : drain c = 1) by (destruct (Forall_nth_error _ _ _ _ X2 Ec) as [_ [_ [_ P]]]; apply P; rewrite Ek; reflexivity).
      assert (TN : styps c = None) by (destruct (Forall_nth_error _ _ _ _ L3 Ec) as [_ P]; apply P; rewrite Ek; reflexivity).
      inversion E; subst. cbn. apply Forall_upd; [exact H|]. l4_sub Ec. rewrite Ek in *. rewrite D1. cbn. l4_auto.
    + destruct (Nat.eqb (drain c) 3) eqn:D3; [|discriminate]. apply Nat.eqb_eq in D3.
      assert (TN : styps c = None) by (destruct (Forall_nth_error _ _ _ _ L3 Ec) as [_ P]; apply P; rewrite Ek; reflexivity).
      inversion E; subst. cbn. apply Forall_upd; [exact H|]. l4_sub Ec. rewrite Ek in *. l4_auto.
    + inversion E; subst. cbn. apply Forall_upd; [exact H|]. l4_sub Ec. rewrite Ek in *. l4_auto.
  - unfold step_drain in E. destruct (nth_error (subs st) s) as [c|] eqn:Ec; [|discriminate].
    destruct (draining c) eqn:Ed; [|discriminate]. destruct (buf c) eqn:Eb.
    + destruct (Nat.eqb (drain c) 2 || closed c) eqn:Ex; [|discriminate]. inversion E; subst. cbn.
      destruct (Forall_nth_error _ _ _ _ HL Ec) as [_ [_ [_ P4]]].
      apply Forall_upd; [exact H|]. l4_sub Ec. rewrite Eb.
      assert (DD : drain H0 = 1 \/ drain H0 = 2).
      { unfold draining in Ed. apply orb_true_iff in Ed. destruct Ed as [X|X]; apply Nat.eqb_eq in X; auto. }
      apply orb_true_iff in Ex. l4_split.
      * intros K. specialize (Q1 K). lia.
      * intros _. discriminate.
      * reflexivity.
      * exact Q4.
      * intros Ty _. destruct Ex as [X|X]; [|exact X]. apply Nat.eqb_eq in X. destruct (Q8 X) as [_ Y]. congruence.
      * reflexivity.
      * intros Ty _. destruct Ex as [X|X]; [apply Nat.eqb_eq in X; destruct (Q8 X) as [Y _]; left; exact Y|].
        destruct (P4 Ty) as [Z _]. congruence.
      * intros X. discriminate.
      * lia.
    + inversion E; subst. cbn. apply Forall_upd; [exact H|]. l4_sub Ec. l4_split; auto. intros D3. specialize (Q3 D3). rewrite Eb in Q3. discriminate.
  - unfold step_req in E. destruct (nth_error (subs st) s) as [c|] eqn:Ec; [|discriminate]. inversion E; subst. cbn.
    apply Forall_upd; [exact H|]. l4_sub Ec. l4_auto.
  - unfold step_recv in E. destruct (nth_error (subs st) s) as [c|] eqn:Ec; [|discriminate].
    destruct (want c); [discriminate|]. destruct (buf c) eqn:Eb.
    + destruct (closed c) eqn:Ecl; [|discriminate]. inversion E; subst. cbn. apply Forall_upd; [exact H|]. l4_sub Ec. l4_auto.
    + inversion E; subst. cbn. apply Forall_upd; [exact H|]. l4_sub Ec. l4_split; auto. intros D3. specialize (Q3 D3). rewrite Eb in Q3. discriminate.
  - unfold step_read in E. destruct (nth_error (subs st) s) as [c|] eqn:Ec; [|discriminate].
    destruct (hand c); [discriminate|]. inversion E; subst. cbn. apply Forall_upd; [exact H|]. l4_sub Ec. l4_auto.
Qed.

Lemma initial_l4 : forall st, initial st -> Forall loc4 (subs st).
Proof.
  intros st [_ [_ [_ [_ [Hs _]]]]]. apply Forall_forall. intros c Hc. rewrite Forall_forall in Hs. rewrite (Hs c Hc).
  unfold loc4, new_sub. cbn. repeat split; intros; try discriminate; try congruence; auto; try lia; destruct H0; discriminate.
Qed.

(* C15 — the monitor on model traces: the static configuration, the run of d_go along
   a schedule, and the assembly of the per-rule lemmas. *)
From Coq Require Import List Arith ZArith Bool Lia.
From Verif Require Import lib.Wire c15.Lts c15.Model c15.Spec c15.Proofs c15.Proofs_Chan c15.Proofs_Loc c15.Proofs_List c15.Proofs_Safe
  c15.Proofs_Init c15.Proofs_Live c15.Proofs_Pend c15.Proofs_Idx c15.Proofs_Dead c15.Proofs_Prog c15.Proofs_Valid c15.Proofs_WildOK
  c15.Proofs_Blk c15.Proofs_Obs c15.Proofs_Rule13 c15.Proofs_Wire c15.Proofs_Disc.
Import ListNotations.
Local Open Scope Z_scope.

(* ---- the static part of the state = the configuration the monitor is given -------- *)
Definition fE (m : emitter) := (mty m, mstateful m).
Definition fS (c : sub) := (styps c, ccap c).
Definition fM (e : emit) := (eem e, eev e).
Definition sE (st : state) := map fE (emitters st).
Definition sS (st : state) := map fS (subs st).
Definition sM (st : state) := map fM (emits st).
Definition dstat (st : state) := (sE st, sS st, sM st).
Ltac ds_fin :=
  unfold dstat, sE, sS, sM;
  cbn [subs emits emitters set_emitter set_emitters set_sub set_subs set_node set_nodes set_blk set_bmap set_wild set_emit set_emits set_panicked];
  (apply f_equal2; [apply f_equal2|]); try reflexivity;
  try (eapply (map_upd_same fE); [eassumption|reflexivity]);
  try (eapply (map_upd_same fS); [eassumption|reflexivity]);
  try (eapply (map_upd_same fM); [eassumption|reflexivity]).

Lemma fS_expect : forall l tg it i, map fS (expect_all l tg it i) = map fS l.
Proof. induction l as [|c l IH]; intros; cbn; [reflexivity|]. f_equal. apply IH. Qed.

Lemma send_ds : forall st s it st', send st s it = Some st' -> dstat st' = dstat st.
Proof.
  intros st s it st' E. unfold send in E. destruct (nth_error (subs st) s) as [c|] eqn:Ec; [|discriminate].
  destruct (closed c); [inversion E; subst; ds_fin|]. destruct (room c); [|discriminate]. inversion E; subst. ds_fin.
Qed.
Lemma try_drop_ds : forall st ty st', try_drop st ty = Some st' -> dstat st' = dstat st.
Proof. intros st ty st' E. unfold try_drop in E. brute E; inversion E; subst; ds_fin. Qed.
Lemma with_node_ds : forall st ty st1 n, with_node st ty = Some (st1, n) -> dstat st1 = dstat st.
Proof.
  intros st ty st1 n E. unfold with_node in E. destruct (lookup st ty) as [sl m] eqn:El.
  destruct (nth_error (nodes sl) m); inversion E; subst.
  unfold lookup in El. destruct (nth_error (bmap st) ty) as [[k|]|]; inversion El; subst; ds_fin.
Qed.

Lemma step_ds : forall st t l st', step st t = Some (l, st') -> dstat st' = dstat st.
Proof.
  intros st t l st' E. destruct t; cbn [step] in E.
  - unfold step_emnew in E. destruct (nth_error (emitters st) j) as [m|] eqn:Ej; [|discriminate].
    destruct (mnew m) as [|[|[|[|?]]]]; try discriminate; try solve [brute E; inversion E; subst; ds_fin].
    destruct (with_node st (mty m)) as [[st1 n]|] eqn:Ew; [|discriminate]. inversion E; subst.
    rewrite <- (with_node_ds _ _ _ _ Ew). assert (Ej' : nth_error (emitters st1) j = Some m) by (rewrite (proj2 (with_node_emits _ _ _ _ Ew)); exact Ej). ds_fin.
  - unfold step_emclose in E. destruct (nth_error (emitters st) j) as [m|] eqn:Ej; [|discriminate].
    destruct (mcl m); try discriminate; try solve [brute E; inversion E; subst; ds_fin].
    otau_inv E. rewrite <- (try_drop_ds _ _ _ E). assert (Ej' : nth_error (emitters x) j = Some m) by (rewrite (proj2 (try_drop_emits _ _ _ E)); exact Ej). ds_fin.
  - unfold step_emit in E. destruct (nth_error (emits st) k) as [e|] eqn:Ek; [|discriminate].
    destruct (nth_error (emitters st) (eem e)) as [m|]; [|discriminate].
    destruct (epc e) as [| | |n [|x r]|n|n|n [|x r]|c|]; try discriminate;
      try solve [brute E; inversion E; subst; ds_fin; apply fS_expect].
    + otau_inv E. rewrite <- (send_ds _ _ _ _ E). assert (Ek' : nth_error (emits x0) k = Some e) by (rewrite (proj1 (send_emits _ _ _ _ E)); exact Ek). ds_fin.
    + otau_inv E. rewrite <- (send_ds _ _ _ _ E). assert (Ek' : nth_error (emits x0) k = Some e) by (rewrite (proj1 (send_emits _ _ _ _ E)); exact Ek). ds_fin.
  - unfold step_sub in E. destruct (nth_error (subs st) s) as [c|] eqn:Ec; [|discriminate].
    destruct (spc c); try solve [brute E; inversion E; subst; ds_fin].
    destruct (styps c) as [tys|] eqn:Et; [|discriminate]. destruct (nth_error tys i) as [ty|]; [|discriminate].
    destruct (with_node st ty) as [[st1 n]|] eqn:Ew; [|discriminate]. inversion E; subst.
    rewrite <- (with_node_ds _ _ _ _ Ew). assert (Ec' : nth_error (subs st1) s = Some c) by (rewrite (with_node_subs _ _ _ _ Ew); exact Ec). ds_fin.
  - unfold step_replay in E. destruct (nth_error (subs st) s) as [c|] eqn:Ec; [|discriminate].
    destruct (nth_error (rpend c) i) as [[|]|]; try discriminate.
    destruct (nth_error (snodes c) i) as [n|]; [|discriminate]. destruct (nth_error (nodes st) n) as [nd|]; [|discriminate].
    destruct (keep nd); [destruct (nlast nd) as [lv|]|]; try solve [inversion E; subst; ds_fin].
    otau_inv E. rewrite <- (send_ds _ _ _ _ E). destruct (nth_error (subs x) s) as [c'|] eqn:Ec'; [ds_fin|reflexivity].
  - unfold step_close in E. destruct (nth_error (subs st) s) as [c|] eqn:Ec; [|discriminate].
    destruct (cpc c); try discriminate; try solve [brute E; inversion E; subst; ds_fin].
    destruct (nth_error (snodes c) i) as [n|]; [|discriminate]. destruct (nth_error (nodes st) n) as [nd|]; [|discriminate].
    otau_inv E. rewrite <- (try_drop_ds _ _ _ E). assert (Ec' : nth_error (subs x) s = Some c) by (rewrite (try_drop_subs _ _ _ E); exact Ec). ds_fin.
  - unfold step_drain in E. destruct (nth_error (subs st) s) as [c|] eqn:Ec; [|discriminate]. brute E; inversion E; subst; ds_fin.
  - unfold step_req in E. destruct (nth_error (subs st) s) as [c|] eqn:Ec; [|discriminate]. inversion E; subst; ds_fin.
  - unfold step_recv in E. destruct (nth_error (subs st) s) as [c|] eqn:Ec; [|discriminate]. brute E; inversion E; subst; ds_fin.
  - unfold step_read in E. destruct (nth_error (subs st) s) as [c|] eqn:Ec; [|discriminate]. brute E; inversion E; subst; ds_fin.
Qed.

Lemma run_ds : forall st sched, dstat (run step st sched) = dstat st.
Proof.
  intros st sched. apply (relation_run _ _ _ step (fun a b => dstat b = dstat a)); [reflexivity|congruence|].
  intros s t l s' E. eapply step_ds, E.
Qed.

(* rule 13 with the initial configuration, as the monitor evaluates it *)

Definition dcfg_of_state (nt : nat) (st : state) : dcfg := mkDcfg nt (sE st) (sS st) (sM st).

Lemma run_dcfg : forall nt st sched, dcfg_of_state nt (run step st sched) = dcfg_of_state nt st.
Proof.
  intros nt st sched. pose proof (run_ds st sched) as H. unfold dstat in H. inversion H. unfold dcfg_of_state. congruence.
Qed.

Lemma dcfg_init : forall c, dcfg_of_state (Z.to_nat (c_ntypes c)) (init_of c) = dcfg_of_cfg c.
Proof.
  intros c. unfold dcfg_of_state, dcfg_of_cfg, init_of, init_state, sE, sS, sM. cbn [emitters subs emits]. rewrite !map_map. f_equal.
  apply map_ext. intros [[w cap] tys]. reflexivity.
Qed.

Lemma ocfg_dcfg : forall nt st, ocfg_of_dcfg (dcfg_of_state nt st) = ocfg_of_state st.
Proof. intros. unfold ocfg_of_dcfg, dcfg_of_state, ocfg_of_state, sE, sS, sM. cbn. rewrite !map_map. reflexivity. Qed.

(* ---- d_go along a schedule: it suffices to pass the check at every visible step ---- *)
Lemma d_go_sched : forall (P : list Z -> Prop) d, P [] -> forall sched st pre,
  (forall s1 t s2 l st', sched = s1 ++ t :: s2 -> step (run step st s1) t = Some (Some l, st') ->
     P (d_check_label d (pre ++ trace step st s1) l)) ->
  P (d_go d pre (trace step st sched)).
Proof.
  intros P d P0. induction sched as [|t r IH]; intros st pre H; cbn; [exact P0|].
  destruct (step st t) as [[[l|] st']|] eqn:E.
  - cbn. pose proof (H [] t r l st' eq_refl E) as H0. cbn in H0. rewrite app_nil_r in H0.
    destruct (d_check_label d pre l) eqn:Ed; [|exact H0]. apply IH.
    intros s1 t1 s2 l1 st1 Hs E1. rewrite <- app_assoc. specialize (H (t :: s1) t1 s2 l1 st1). cbn in H. rewrite E in H. apply H; [rewrite Hs; reflexivity|exact E1].
  - apply IH. intros s1 t1 s2 l1 st1 Hs E1. specialize (H (t :: s1) t1 s2 l1 st1). cbn in H. rewrite E in H. apply H; [rewrite Hs; reflexivity|exact E1].
  - apply IH. intros s1 t1 s2 l1 st1 Hs E1. specialize (H (t :: s1) t1 s2 l1 st1). cbn in H. rewrite E in H. apply H; [rewrite Hs; reflexivity|exact E1].
Qed.

(* ---- what the harness writes for a run of the model, and what monitor_case makes of it ---- *)
Definition wire_of_run (c : cfg) (sched : list thr) (fin : Z) : list Z :=
  encode c (wire_of (trace step (init_of c) sched) fin).

Lemma monitor_case_run : forall c sched fin, cfg_wf c = true -> nonneg (c_ntypes c) = true -> (fin = 0 \/ fin = 4 \/ fin = 5) ->
  monitor_case (wire_of_run c sched fin) = d_monitor (dcfg_of_cfg c) (trace step (init_of c) sched) fin.
Proof.
  intros c sched fin W N F. unfold monitor_case, wire_of_run. rewrite (decode_encode c _ N), W. cbn [negb].
  rewrite (wire_labels_of _ fin (trace_op_labels sched (init_of c)) F). reflexivity.
Qed.

(* ---- rule 13 at quiescent points, rule 12 at the end marker -------------------------- *)
Lemma quiet_rule13 : forall st nt sched, wf_init st -> quiescent step thrs stim (run step st sched) = true ->
  blocked_badly (ocfg_of_dcfg (dcfg_of_state nt st)) (trace step st sched) = None.
Proof. intros st nt sched H Q. rewrite ocfg_dcfg. apply rule13_accepts_model_init_l; assumption. Qed.

(* the situation in which the harness writes the end marker: it has closed whatever can be
   closed (a Subscribe call that returned an error handed out nothing to close).  [all_subscribed]: no Subscribe call is still in flight - this excludes exactly the
   known finding (crossing multi-type Subscribes stalled on each other), see
   c15_no_deadlock_full_refuted. *)
Definition all_closing (tr : list label) (n : nat) : Prop :=
  forall s, (s < n)%nat -> o_returned tr (TSub s) = true -> o_rejected tr s = false -> o_started tr (TClose s) = true.
Definition all_subscribed (tr : list label) (n : nat) : Prop :=
  forall s, (s < n)%nat -> o_started tr (TSub s) = true -> o_returned tr (TSub s) = true.

Lemma no_root : forall tr n s, all_closing tr n -> all_subscribed tr n -> (s < n)%nat -> o_root tr s = false.
Proof.
  intros tr n s A B Hs. unfold o_root. destruct (o_rejected tr s) eqn:J; [rewrite andb_false_r; reflexivity|].
  destruct (o_returned tr (TSub s)) eqn:R.
  - rewrite (A s Hs R J). rewrite orb_true_r. reflexivity.
  - destruct (o_started tr (TSub s)) eqn:S; [rewrite (B s Hs S) in R; discriminate|]. reflexivity.
Qed.

Lemma no_root_exists : forall tr o f, all_closing tr (length (o_sub o)) -> all_subscribed tr (length (o_sub o)) ->
  existsb (fun s => f s && o_root tr s) (o_subs o) = false.
Proof.
  intros tr o f A B. apply not_true_is_false. intros H. apply existsb_exists in H. destruct H as [s [Hs H]].
  unfold o_subs in Hs. apply in_seq in Hs. rewrite (no_root tr _ s A B) in H by lia. rewrite andb_false_r in H. discriminate.
Qed.

Lemma o_ops_op : forall o t, In t (o_ops o) -> op_thr t = true.
Proof.
  intros o t H. unfold o_ops in H. apply in_app_or in H. destruct H as [H|H]; [|apply in_app_or in H; destruct H as [H|H]].
  - apply in_flat_map in H. destruct H as [j [_ [<-|[<-|[]]]]]; reflexivity.
  - apply in_map_iff in H. destruct H as [k [<- _]]. reflexivity.
  - apply in_flat_map in H. destruct H as [j [_ [<-|[<-|[]]]]]; reflexivity.
Qed.

Lemma rule12_from_13 : forall o tr, all_closing tr (length (o_sub o)) -> all_subscribed tr (length (o_sub o)) ->
  blocked_badly o tr = None ->
  existsb (fun t => o_started tr t && negb (o_returned tr t)) (o_ops o) = false.
Proof.
  intros o tr A B H. apply not_true_is_false. intros X. apply existsb_exists in X. destruct X as [t [Ht X]].
  unfold blocked_badly in H. pose proof (find_none _ _ H t Ht) as N. cbn in N. rewrite X in N. cbn in N.
  apply negb_false_iff in N.
  assert (R : forall s, In s (o_subs o) -> o_root tr s = false).
  { intros s Hs. unfold o_subs in Hs. apply in_seq in Hs. apply (no_root tr _ s A B). lia. }
  assert (E : forall f, existsb (fun s => f s) (o_subs o) = true -> (forall s, In s (o_subs o) -> f s = false) -> False).
  { intros f Hf Hn. apply existsb_exists in Hf. destruct Hf as [s [Hs Hf]]. rewrite (Hn s Hs) in Hf. discriminate. }
  pose proof (o_ops_op o t Ht) as Op. unfold o_legit in N. destruct t; try discriminate.
  - destruct (o_emitter_ty o j); [|discriminate]. apply (E _ N). intros s Hs. rewrite (R s Hs). reflexivity.
  - destruct (o_emit_ty o k); [|discriminate]. apply (E _ N). intros s Hs. rewrite (R s Hs). reflexivity.
  - destruct (nth_error (o_sub o) s) as [[tys|]|]; try discriminate; apply (E _ N); intros x Hx; rewrite (R x Hx), andb_false_r; reflexivity.
  - destruct (nth_error (o_sub o) s) as [[tys|]|]; try discriminate; apply (E _ N); intros x Hx; rewrite (R x Hx), andb_false_r; reflexivity.
Qed.

(* ---- well-formed configurations give well-formed initial states ------------------------ *)
Lemma znodup_NoDup : forall l, znodup l = true -> NoDup l.
Proof.
  induction l as [|x r IH]; intros H; [constructor|]. cbn in H. apply andb_true_iff in H. destruct H as [H1 H2].
  constructor; [|apply IH, H2]. intros Hin. apply negb_true_iff in H1.
  assert (X : existsb (Z.eqb x) r = true) by (apply existsb_exists; exists x; split; [exact Hin|apply Z.eqb_refl]). congruence.
Qed.

Lemma NoDup_to_nat : forall l, (forall x, In x l -> 0 <= x) -> NoDup l -> NoDup (map Z.to_nat l).
Proof.
  induction l as [|x r IH]; intros Hp H; cbn; [constructor|]. inversion H; subst. constructor.
  - intros Hin. apply in_map_iff in Hin. destruct Hin as [y [Ey Hy]]. assert (x = y); [|subst; contradiction].
    pose proof (Hp x (or_introl eq_refl)). pose proof (Hp y (or_intror Hy)). lia.
  - apply IH; [intros y Hy; apply Hp; right; exact Hy|assumption].
Qed.

Lemma init_of_shape : forall c, init_of c =
  init_state (Z.to_nat (c_ntypes c))
    (map (fun p => new_sub (fst p) (snd p)) (map (fun s => let '(w, cap, tys) := s in ((if Z.eqb w 1 then None else Some (map Z.to_nat (vtys w tys))), Z.to_nat cap)) (c_subs c)))
    (map (fun p => new_emitter (fst p) (snd p)) (map (fun p => (Z.to_nat (fst p), zbool (snd p))) (c_emitters c)))
    (map (fun p => new_emit (fst p) (snd p)) (map (fun p => (Z.to_nat (fst p), snd p)) (c_emits c))).
Proof.
  intros c. unfold init_of. rewrite !map_map. f_equal. apply map_ext. intros [[w cap] tys]. reflexivity.
Qed.

Lemma cfg_wf_init : forall c, cfg_wf c = true -> wf_init (init_of c).
Proof.
  intros c W. rewrite init_of_shape. apply init_state_wf_init. apply Forall_forall. intros p Hp.
  apply in_map_iff in Hp. destruct Hp as [[[w cap] tys] [<- Hs]]. cbn [fst].
  destruct (Z.eqb w 1); [exact I|]. unfold cfg_wf in W. repeat (apply andb_true_iff in W; destruct W as [W ?]).
  rewrite forallb_forall in H1. specialize (H1 _ Hs). cbn in H1. repeat (apply andb_true_iff in H1; destruct H1 as [H1 ?]).
  unfold vtys. destruct (Z.leb 2 w); [constructor|].
  apply NoDup_to_nat; [|apply znodup_NoDup; assumption].
  intros x Hx. rewrite forallb_forall in H4. specialize (H4 x Hx). unfold in_range in H4. apply andb_true_iff in H4. destruct H4 as [H4 _]. apply Z.leb_le, H4.
Qed.

Lemma cfg_wf_ids : forall c, cfg_wf c = true -> NoDup (map snd (d_emit (dcfg_of_cfg c))).
Proof.
  intros c W. unfold dcfg_of_cfg. cbn [d_emit]. rewrite map_map. cbn [snd]. apply znodup_NoDup.
  unfold cfg_wf in W. apply andb_true_iff in W. apply W.
Qed.

(* ---- assembly: the per-rule obligations and what they give ------------------------------ *)
Definition Disc (c : cfg) (sched : list thr) : Prop := disciplined step thrs stim (init_of c) sched.

(* rule r (1..8) is never reported for a value the consumer reads *)
Definition read_rule_ok (r : Z) : Prop := forall c s1 t s v st',
  cfg_wf c = true -> Disc c s1 ->
  step (run step (init_of c) s1) t = Some (Some (LRead s v), st') -> v <> -2 ->
  d_check_read (dcfg_of_cfg c) (trace step (init_of c) s1) s v <> r.
(* rule r (9, 10) is never reported at a quiescent point *)
Definition quiet_rule_ok (r : Z) : Prop := forall c s1 s,
  cfg_wf c = true -> Disc c s1 -> quiescent step thrs stim (run step (init_of c) s1) = true -> (s < length (c_subs c))%nat ->
  d_check_quiet (dcfg_of_cfg c) (trace step (init_of c) s1) s <> r.

(* the monitor's verdict is "accepted", or names a rule of the list M *)
Definition allowed (M : list Z) (res : list Z) : Prop :=
  res = [] \/ exists r rest, res = ERR_PROPERTY :: r :: rest /\ In r M.

Lemma d_check_read_range : forall d pre s v, In (d_check_read d pre s v) [0; 1; 2; 3; 4; 5; 6; 7; 8].
Proof.
  intros. unfold d_check_read. destruct (dm_find d v); [|cbn; tauto].
  repeat match goal with |- context[if ?x then _ else _] => destruct x end; cbn; tauto.
Qed.
Lemma d_check_quiet_range : forall d pre s, In (d_check_quiet d pre s) [0; 9; 10; 14].
Proof.
  intros. unfold d_check_quiet.
  repeat match goal with |- context[if ?x then _ else _] => destruct x end; cbn; tauto.
Qed.

Lemma first_bad_some : forall f l x r, first_bad f l = Some (x, r) -> r = f x /\ r <> 0 /\ In x l.
Proof.
  induction l as [|y l IH]; intros x r H; cbn in H; [discriminate|].
  destruct (f y =? 0) eqn:E; [destruct (IH _ _ H) as [A [B C]]; repeat split; auto; right; exact C|]. inversion H; subst. split; [reflexivity|]. split; [apply Z.eqb_neq, E|left; reflexivity].
Qed.

Section ASM.
  Variable M : list Z.
  Hypothesis HR : forall r, In r [1; 2; 3; 4; 5; 6; 7; 8] -> ~ In r M -> read_rule_ok r.
  Hypothesis HQ : forall r, In r [9; 10; 14] -> ~ In r M -> quiet_rule_ok r.

  Lemma quiet_point_allowed : forall c s1, cfg_wf c = true -> Disc c s1 ->
    quiescent step thrs stim (run step (init_of c) s1) = true ->
    allowed M (d_quiet_point (dcfg_of_cfg c) (trace step (init_of c) s1)).
  Proof.
    intros c s1 W D Q. unfold d_quiet_point.
    destruct (first_bad _ _) as [[s r]|] eqn:F.
    - destruct (first_bad_some _ _ _ _ F) as [Er [Nz Hin]]. right. exists r, [Z.of_nat (length (trace step (init_of c) s1)); Z.of_nat s].
      split; [reflexivity|]. destruct (in_dec Z.eq_dec r M) as [I|N]; [exact I|exfalso].
      pose proof (d_check_quiet_range (dcfg_of_cfg c) (trace step (init_of c) s1) s) as Rg. rewrite <- Er in Rg.
      destruct Rg as [X|Rg]; [congruence|]. apply (HQ r Rg N c s1 s W D Q); [|symmetry; exact Er].
      apply in_seq in Hin. unfold dcfg_of_cfg in Hin. cbn in Hin. rewrite map_length in Hin. lia.
    - rewrite <- dcfg_init. rewrite (quiet_rule13 _ _ s1 (cfg_wf_init c W) Q). left. reflexivity.
  Qed.

  Lemma check_label_allowed : forall c s1 t s2 l st', cfg_wf c = true -> Disc c (s1 ++ t :: s2) ->
    step (run step (init_of c) s1) t = Some (Some l, st') ->
    allowed M (d_check_label (dcfg_of_cfg c) (trace step (init_of c) s1) l).
  Proof.
    intros c s1 t s2 l st' W D E.
    unfold Disc in *. assert (D1 : disciplined step thrs stim (init_of c) s1) by (apply disciplined_app in D; apply D).
    assert (Q : stim l = true -> quiescent step thrs stim (run step (init_of c) s1) = true).
    { intros Hs. eapply disciplined_at; eassumption. }
    destruct l as [t0|t0 code|s|s v]; cbn [d_check_label].
    - apply quiet_point_allowed; auto.
    - left. reflexivity.
    - apply quiet_point_allowed; auto.
    - destruct (v =? -2) eqn:Ev; [left; reflexivity|]. apply Z.eqb_neq in Ev.
      destruct (d_check_read (dcfg_of_cfg c) (trace step (init_of c) s1) s v =? 0) eqn:E0; [left; reflexivity|].
      apply Z.eqb_neq in E0. right. eexists. eexists. split; [reflexivity|].
      set (r := d_check_read (dcfg_of_cfg c) (trace step (init_of c) s1) s v) in *.
      destruct (in_dec Z.eq_dec r M) as [I|N]; [exact I|exfalso].
      pose proof (d_check_read_range (dcfg_of_cfg c) (trace step (init_of c) s1) s v) as Rg. fold r in Rg.
      destruct Rg as [X|Rg]; [congruence|]. exact (HR r Rg N c s1 t s v st' W D1 E Ev eq_refl).
  Qed.

  Lemma d_go_allowed : forall c sched, cfg_wf c = true -> Disc c sched ->
    allowed M (d_go (dcfg_of_cfg c) [] (trace step (init_of c) sched)).
  Proof.
    intros c sched W D. apply (d_go_sched (allowed M)); [left; reflexivity|].
    intros s1 t s2 l st' Hs E. cbn [app]. subst sched. eapply check_label_allowed; eassumption.
  Qed.
End ASM.

(* the state in which the harness writes the end marker *)
Definition final_ok (c : cfg) (sched : list thr) : Prop :=
  quiescent step thrs stim (run step (init_of c) sched) = true /\
  all_closing (trace step (init_of c) sched) (length (c_subs c)) /\
  all_subscribed (trace step (init_of c) sched) (length (c_subs c)).

Lemma monitor_model_gen : forall M,
  (forall r, In r [1; 2; 3; 4; 5; 6; 7; 8] -> ~ In r M -> read_rule_ok r) ->
  (forall r, In r [9; 10; 14] -> ~ In r M -> quiet_rule_ok r) ->
  forall c sched fin, cfg_wf c = true -> nonneg (c_ntypes c) = true -> Disc c sched ->
  (fin = 0 \/ (fin = 5 /\ final_ok c sched)) ->
  allowed M (monitor_case (wire_of_run c sched fin)).
Proof.
  intros M HR HQ c sched fin W N D F.
  rewrite (monitor_case_run c sched fin W N) by (destruct F as [->|[-> _]]; auto).
  unfold d_monitor. pose proof (d_go_allowed M HR HQ c sched W D) as G.
  destruct (d_go (dcfg_of_cfg c) [] (trace step (init_of c) sched)) as [|x r] eqn:Eg; [|exact G].
  destruct F as [->|[-> [Q [A B]]]]; [left; reflexivity|]. cbn [Z.eqb]. unfold d_end.
  pose proof (quiet_point_allowed M HQ c sched W D Q) as P.
  destruct (d_quiet_point (dcfg_of_cfg c) (trace step (init_of c) sched)) as [|y r] eqn:Ep; [|exact P].
  assert (L : length (o_sub (ocfg_of_dcfg (dcfg_of_cfg c))) = length (c_subs c)).
  { unfold ocfg_of_dcfg, dcfg_of_cfg. cbn. rewrite !map_length. reflexivity. }
  rewrite (rule12_from_13 (ocfg_of_dcfg (dcfg_of_cfg c)) (trace step (init_of c) sched)).
  - left. reflexivity.
  - rewrite L. exact A.
  - rewrite L. exact B.
  - rewrite <- dcfg_init. apply quiet_rule13; [apply cfg_wf_init, W|exact Q].
Qed.

(* what conform_case establishes: an accepted label list is the trace of a disciplined schedule *)
Lemma accepted_disciplined : forall fuel st tr, accepted fuel st tr = true ->
  exists sched, trace step st sched = tr /\ disciplined step thrs stim st sched.
Proof.
  intros fuel st tr H. unfold accepted, trace_accepted_dfs in H.
  eapply dfs_sound_disc; [|exact H]. apply lab_eqb_eq.
Qed.

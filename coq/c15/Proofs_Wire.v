(* C15 — the wire format: encoding a configuration and a label list the way the
   harness does, and decoding it back (decode / wire_labels of Spec.v). *)
From Coq Require Import List Arith ZArith Bool Lia.
From Verif Require Import lib.Wire c15.Lts c15.Model c15.Spec.
Import ListNotations.
Local Open Scope Z_scope.

Definition flat_pairs (l : list (Z * Z)) : list Z := flat_map (fun p => [fst p; snd p]) l.
Definition flat_subs (l : list (Z * Z * list Z)) : list Z :=
  flat_map (fun s => let '(w, c, tys) := s in w :: c :: zlen tys :: tys) l.
Definition flat_labels (l : list wl) : list Z := flat_map (fun x => let '(k, a, b, v) := x in [k; a; b; v]) l.

Definition encode (c : cfg) (ls : list wl) : list Z :=
  c_ntypes c :: zlen (c_emitters c) :: zlen (c_subs c) :: zlen (c_emits c)
  :: flat_pairs (c_emitters c) ++ flat_subs (c_subs c) ++ flat_pairs (c_emits c) ++ zlen ls :: flat_labels ls.

Lemma take_pairs_app : forall l r, take_pairs (length l) (flat_pairs l ++ r) = Some (l, r).
Proof. induction l as [|[a b] l IH]; intros r; [reflexivity|]. cbn [flat_pairs flat_map length app fst snd]. fold (flat_pairs l). cbn [take_pairs]. rewrite IH. reflexivity. Qed.

Lemma zlen_nonneg : forall {A} (l : list A), nonneg (zlen l) = true.
Proof. intros. unfold nonneg, zlen. apply Z.leb_le. lia. Qed.
Lemma zlen_to_nat : forall {A} (l : list A), Z.to_nat (zlen l) = length l.
Proof. intros. unfold zlen. apply Nat2Z.id. Qed.

Lemma take_subs_app : forall l r, take_subs (length l) (flat_subs l ++ r) = Some (l, r).
Proof.
  induction l as [|[[w c] tys] l IH]; intros r; [reflexivity|].
  cbn [flat_subs flat_map length]. fold (flat_subs l). rewrite <- !app_comm_cons, <- app_assoc. cbn [take_subs].
  assert (A : Z.ltb (zlen tys) 0 = false) by (apply Z.ltb_ge; unfold zlen; lia).
  assert (B : Z.ltb (zlen (tys ++ flat_subs l ++ r)) (zlen tys) = false).
  { apply Z.ltb_ge. unfold zlen. rewrite app_length. lia. }
  rewrite A, B. cbn [orb].
  unfold zdrop, ztake. rewrite zlen_to_nat. rewrite skipn_app, firstn_app, Nat.sub_diag, skipn_all, firstn_all. cbn [skipn firstn app]. rewrite app_nil_r.
  rewrite IH. reflexivity.
Qed.

Lemma take_labels_flat : forall l, take_labels (length l) (flat_labels l) = Some l.
Proof. induction l as [|[[[k a] b] v] l IH]; [reflexivity|]. cbn [flat_labels flat_map length app]. fold (flat_labels l). cbn [take_labels]. rewrite IH. reflexivity. Qed.

Lemma decode_encode : forall c ls, nonneg (c_ntypes c) = true -> decode (encode c ls) = Some (c, ls).
Proof.
  intros [nt ems ss es] ls Hn. unfold encode, decode. cbn [c_ntypes c_emitters c_subs c_emits] in *.
  rewrite Hn, !zlen_nonneg. cbn [andb]. rewrite !zlen_to_nat.
  rewrite take_pairs_app, take_subs_app, take_pairs_app, zlen_nonneg, zlen_to_nat, take_labels_flat. reflexivity.
Qed.

(* ---- labels --------------------------------------------------------------------- *)
Definition op_thr (t : thr) : bool := match t with TEmNew _ | TEmClose _ | TEmit _ | TSub _ | TClose _ => true | _ => false end.
Definition op_label (l : label) : bool := match l with LStart t | LRet t _ => op_thr t | _ => true end.

Definition wire_of_label (l : label) : wl :=
  match l with
  | LStart t => (0, fst (thr_code t), snd (thr_code t), 0)
  | LRet t c => (1, fst (thr_code t), snd (thr_code t), c)
  | LReq s => (2, Z.of_nat s, 0, 0)
  | LRead s v => (3, Z.of_nat s, 0, v)
  end.
(* fin: 0 nothing follows, 4 a panic label, 5 the end marker *)
Definition wire_of (tr : list label) (fin : Z) : list wl :=
  map wire_of_label tr ++ (if fin =? 0 then [] else [(fin, 0, 0, 0)]).

Lemma thr_of_code : forall t, op_thr t = true -> thr_of (fst (thr_code t)) (snd (thr_code t)) = Some t.
Proof. intros t H. destruct t; try discriminate; cbn; rewrite Nat2Z.id; reflexivity. Qed.

Lemma wire_labels_of : forall tr fin, forallb op_label tr = true -> (fin = 0 \/ fin = 4 \/ fin = 5) ->
  wire_labels (wire_of tr fin) = Some (tr, fin).
Proof.
  intros tr fin H Hf. unfold wire_of. induction tr as [|l tr IH].
  - cbn. destruct Hf as [->|[->| ->]]; reflexivity.
  - cbn [map app]. cbn in H. apply andb_true_iff in H. destruct H as [Hl H]. specialize (IH H).
    destruct l as [t|t c|s|s v]; cbn [wire_of_label wire_labels].
    + cbn [Z.eqb orb]. rewrite IH. cbn. rewrite (thr_of_code t Hl). reflexivity.
    + cbn [Z.eqb orb]. rewrite IH. cbn. rewrite (thr_of_code t Hl). reflexivity.
    + cbn [Z.eqb orb]. rewrite IH. cbn. rewrite Nat2Z.id. reflexivity.
    + cbn [Z.eqb orb]. rewrite IH. cbn. rewrite Nat2Z.id. reflexivity.
Qed.

(* every visible label of the model is an operation label *)
Ltac brk E :=
  repeat match type of E with
         | context[match ?x with _ => _ end] => destruct x; try discriminate E
         | context[if ?x then _ else _] => destruct x; try discriminate E end.
Lemma step_op_label : forall st t l st', step st t = Some (Some l, st') -> op_label l = true.
Proof.
  intros st t l st' E. destruct t; cbn [step] in E;
    [unfold step_emnew in E|unfold step_emclose in E|unfold step_emit in E|unfold step_sub in E|unfold step_replay in E
    |unfold step_close in E|unfold step_drain in E|unfold step_req in E|unfold step_recv in E|unfold step_read in E];
    unfold otau, tau, vis in E; brk E; inversion E; reflexivity.
Qed.

Lemma trace_op_labels : forall sched st, forallb op_label (trace step st sched) = true.
Proof.
  induction sched as [|t r IH]; intros st; cbn; [reflexivity|].
  destruct (step st t) as [[[l|] st']|] eqn:E; cbn; rewrite ?IH; auto. rewrite (step_op_label _ _ _ _ E). reflexivity.
Qed.

(* C15 — the headline: the monitor accepts the wire trace of every disciplined run of the
   model (assembly of the per-rule lemmas). *)
From Coq Require Import List Arith ZArith Bool Lia.
From Verif Require Import lib.Wire c15.Lts c15.Model c15.Spec c15.Proofs c15.Proofs_Disc c15.Proofs_Mon c15.Proofs_RCtx c15.Proofs_R3 c15.Proofs_R5 c15.Proofs_R4
  c15.Proofs_R9 c15.Proofs_R7 c15.Proofs_R6 c15.Proofs_R8.
Import ListNotations.
Local Open Scope Z_scope.

Lemma all_read_rules : forall r, In r [1; 2; 3; 4; 5; 6; 7; 8] -> read_rule_ok r.
Proof.
  intros r Hr. cbn in Hr. destruct Hr as [<-|[<-|[<-|[<-|[<-|[<-|[<-|[<-|[]]]]]]]]].
  - exact rule1_ok. - exact rule2_ok. - exact rule3_ok. - exact rule4_ok. - exact rule5_ok. - exact rule6_ok. - exact rule7_ok. - exact rule8_ok.
Qed.

Lemma all_quiet_rules : forall r, In r [9; 10; 14] -> quiet_rule_ok r.
Proof. intros r Hr. cbn in Hr. destruct Hr as [<-|[<-|[<-|[]]]]; [exact rule9_ok|exact rule10_ok|exact rule14_ok]. Qed.

Lemma monitor_accepts_model_l : forall c sched fin,
  cfg_wf c = true -> nonneg (c_ntypes c) = true -> Disc c sched ->
  (fin = 0 \/ (fin = 5 /\ final_ok c sched)) ->
  monitor_case (wire_of_run c sched fin) = [].
Proof.
  intros c sched fin W N D F.
  destruct (monitor_model_gen [] (fun r Hr _ => all_read_rules r Hr) (fun r Hr _ => all_quiet_rules r Hr) c sched fin W N D F) as [X|[r [rest [_ []]]]].
  exact X.
Qed.

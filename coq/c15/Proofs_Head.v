(* C15 — the headline: the monitor accepts the wire trace of every disciplined run of the
   model (assembly of the per-rule lemmas). *)
From Coq Require Import List Arith ZArith Bool Lia.
From Verif Require Import lib.Wire c15.Lts c15.Model c15.Spec c15.Proofs c15.Proofs_Disc c15.Proofs_Mon c15.Proofs_RCtx c15.Proofs_R3 c15.Proofs_R5 c15.Proofs_R4 c15.Proofs_R9 c15.Proofs_R7 c15.Proofs_R6.
Import ListNotations.
Local Open Scope Z_scope.

(* rules whose coupling is not (yet) proved *)
Definition missing_rules : list Z := [8; 10].

Lemma monitor_accepts_model_partial_l : forall c sched fin,
  cfg_wf c = true -> nonneg (c_ntypes c) = true -> Disc c sched ->
  (fin = 0 \/ (fin = 5 /\ final_ok c sched)) ->
  allowed missing_rules (monitor_case (wire_of_run c sched fin)).
Proof.
  apply monitor_model_gen.
  - intros r Hr Nm. cbn in Hr. unfold missing_rules in Nm. cbn in Nm.
    destruct Hr as [<-|[<-|[<-|[<-|[<-|[<-|[<-|[<-|[]]]]]]]]];
      try (exfalso; apply Nm; tauto).
    + exact rule1_ok. + exact rule2_ok. + exact rule3_ok. + exact rule4_ok. + exact rule5_ok. + exact rule6_ok. + exact rule7_ok.
  - intros r Hr Nm. cbn in Hr. unfold missing_rules in Nm. cbn in Nm. destruct Hr as [<-|[<-|[]]]; try (exfalso; apply Nm; tauto). exact rule9_ok.
Qed.

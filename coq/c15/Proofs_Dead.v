(* C15 — after fix 8aeecd5 (do not wait for a node lock while holding the bus
   lock): basicBus.lk only protects sections that cannot block, so in the model
   it is never held across steps, tryDropNode never waits, and the schedule that
   used to deadlock (half-registered multi-type Subscribe + Emit stalled on it +
   bus-lock waiter) now lets the Subscribe return. *)
From Coq Require Import List Arith ZArith Bool.
From Verif Require Import c15.Lts c15.Model c15.Proofs_Chan c15.Proofs_Loc c15.Proofs_Init c15.Proofs_Live.
Import ListNotations.

Lemma try_drop_total : forall st ty, exists st', try_drop st ty = Some st'.
Proof.
  intros st ty. unfold try_drop.
  repeat match goal with |- context[match ?x with _ => _ end] => destruct x end; eauto.
Qed.

Lemma with_node_blk : forall st ty st1 n, with_node st ty = Some (st1, n) -> blk st1 = blk st.
Proof.
  intros st ty st1 n E. unfold with_node in E. destruct (lookup st ty) as [sl m] eqn:El.
  destruct (nth_error (nodes sl) m); inversion E; subst. cbn.
  unfold lookup in El. destruct (nth_error (bmap st) ty) as [[k|]|]; inversion El; reflexivity.
Qed.

Lemma try_drop_blk : forall st ty st', try_drop st ty = Some st' -> blk st' = blk st.
Proof. intros st ty st' E. unfold try_drop in E. brute E; inversion E; subst; reflexivity. Qed.

Lemma send_blk : forall st s it st', send st s it = Some st' -> blk st' = blk st.
Proof. intros st s it st' E. unfold send in E. brute E; inversion E; subst; reflexivity. Qed.

Lemma step_blk : forall st t l st', step st t = Some (l, st') -> blk st' = blk st.
Proof.
  intros st t l st' E. destruct t; cbn in E.
  - unfold step_emnew in E. destruct (nth_error (emitters st) j) as [m|]; [|discriminate].
    destruct (mnew m) as [|[|[|[|?]]]]; try discriminate.
    + inversion E; reflexivity.
    + destruct (with_node st (mty m)) as [[st1 n]|] eqn:Ew; [|discriminate]. inversion E; subst. cbn. apply (with_node_blk _ _ _ _ Ew).
    + brute E; inversion E; subst; reflexivity.
    + inversion E; reflexivity.
  - unfold step_emclose in E. destruct (nth_error (emitters st) j) as [m|]; [|discriminate].
    destruct (mcl m); try discriminate; try (brute E; inversion E; subst; reflexivity).
    otau_inv E. cbn. apply (try_drop_blk _ _ _ E).
  - unfold step_emit in E. destruct (nth_error (emits st) k) as [e|]; [|discriminate].
    destruct (nth_error (emitters st) (eem e)) as [m|]; [|discriminate].
    destruct (epc e) as [| | |n [|x r]|n|n|n [|x r]|c|]; try discriminate;
      try (brute E; inversion E; subst; reflexivity); otau_inv E; cbn; apply (send_blk _ _ _ _ E).
  - unfold step_sub in E. destruct (nth_error (subs st) s) as [c|]; [|discriminate].
    destruct (spc c); try (brute E; inversion E; subst; reflexivity).
    destruct (styps c) as [tys|]; [|discriminate]. destruct (nth_error tys i) as [ty|]; [|discriminate].
    destruct (with_node st ty) as [[st1 n]|] eqn:Ew; [|discriminate]. inversion E; subst. cbn. apply (with_node_blk _ _ _ _ Ew).
  - unfold step_replay in E. destruct (nth_error (subs st) s) as [c|]; [|discriminate].
    destruct (nth_error (rpend c) i) as [[|]|]; try discriminate.
    destruct (nth_error (snodes c) i) as [n|]; [|discriminate].
    destruct (nth_error (nodes st) n) as [nd|]; [|discriminate].
    destruct (keep nd); [destruct (nlast nd)|]; try (inversion E; subst; reflexivity).
    otau_inv E. pose proof (send_blk _ _ _ _ E) as B. destruct (nth_error (subs x) s); cbn; exact B.
  - unfold step_close in E. destruct (nth_error (subs st) s) as [c|]; [|discriminate].
    destruct (cpc c); try discriminate; try (brute E; inversion E; subst; reflexivity).
    destruct (nth_error (snodes c) i) as [n|]; [|discriminate]. destruct (nth_error (nodes st) n) as [nd|]; [|discriminate].
    otau_inv E. cbn. apply (try_drop_blk _ _ _ E).
  - unfold step_drain in E. brute E; inversion E; subst; reflexivity.
  - unfold step_req in E. brute E; inversion E; subst; reflexivity.
  - unfold step_recv in E. brute E; inversion E; subst; reflexivity.
  - unfold step_read in E. brute E; inversion E; subst; reflexivity.
Qed.

(* basicBus.lk is never held across a step: nobody ever waits for it *)
Lemma bus_lock_never_held_l : forall st sched, initial st -> blk (run step st sched) = None.
Proof.
  intros st sched [_ [_ [_ [Hb _]]]].
  apply (invariant_run _ _ _ step (fun s => blk s = None)); [|exact Hb].
  intros a t l b Ha E. rewrite (step_blk _ _ _ _ E). exact Ha.
Qed.

(* the former deadlock schedule (known finding of the unrepaired tree), continued:
   the third operation no longer holds the bus lock, the Subscribe returns, and
   closing it releases the stalled Emit *)
Definition dl_init : state :=
  init_state 2 [new_sub (Some [1]) 0; new_sub (Some [1; 0]) 0]
             [new_emitter 1 false; new_emitter 1 false] [new_emit 0 100%Z; new_emit 0 101%Z].

Definition dl_sched : list thr :=
  [TEmNew 0; TEmNew 0; TEmNew 0; TEmNew 0;
   TSub 0; TSub 0; TSub 0; TReplay 0 0; TSub 0;
   TEmit 0; TEmit 0; TEmit 0;              (* Emit(100): holds n.lk, stalled on sub0 *)
   TSub 1; TSub 1;                          (* Subscribe([T1,T0]): looked T1's node up (pending), waits for n.lk *)
   TEmNew 1; TEmNew 1;                      (* Emitter(T1): looked the node up (pending), waits for n.lk *)
   TEmit 1; TEmit 1;                        (* Emit(101): waits for n.lk *)
   TReq 0; TEmit 0; TRecv 0; TRead 0; TEmit 0; TEmit 0; TEmit 0;   (* consumer of sub0 reads 100 *)
   TSub 1;                                  (* joins T1's node *)
   TReplay 1 0;
   TEmit 1;                                 (* takes n.lk: sinks = [sub0; sub1] *)
   TReq 0; TEmit 1; TRecv 0; TRead 0;       (* consumer of sub0 reads 101 *)
   TEmit 1;                                 (* stalled on sub1's channel, holding n.lk *)
   TSub 1; TSub 1; TReplay 1 1; TSub 1;     (* the Subscribe finishes with T0 and RETURNS *)
   TClose 1; TEmit 1; TDrain 1; TEmit 1; TEmit 1; TEmit 1;   (* Close(sub1): drainer releases the Emit, which returns *)
   TEmNew 1; TEmNew 1].                     (* Emitter(T1) gets n.lk and returns *)

Lemma former_deadlock_completes_l :
  let st := run step dl_init dl_sched in
  (exists c, nth_error (subs st) 1 = Some c /\ spc c = SDone) /\
  (exists e, nth_error (emits st) 1 = Some e /\ epc e = EDone) /\
  (exists m, nth_error (emitters st) 1 = Some m /\ mnew m = 4) /\ panicked st = false.
Proof. vm_compute. repeat split; eexists; split; reflexivity. Qed.

(* ---- GENUINE DEFECT still present after 8aeecd5 (known_findings/C15.json) -------------
   Two multi-type Subscribes with crossing type orders, each half registered (joined its
   first node, waiting for the lock of its second), and two Emits, each holding the node
   lock the other Subscribe needs and stalled on the channel of a subscription whose
   Subscribe has not returned - so that no consumer can read it and nobody can close it.
   No bus lock is involved: node.emit sends, under n.lk, to sinks of subscriptions that
   are not yet handed to their caller.  Replayed on the real bus (5 of 5 attempts). *)
Definition emit_in_flight' (e : emit) : bool := match epc e with E0 | EDone => false | _ => true end.
Definition sub_in_flight' (c : sub) : bool :=
  (match spc c with S0 | SDone => false | _ => true end) || (match cpc c with K0 | KDone => false | _ => true end).
Definition handed_out (st : state) (x : nat) : bool :=
  match nth_error (subs st) x with Some c => (match spc c with SDone => true | _ => false end) | None => false end.
Definition emit_stalled_on_handed_out (st : state) (e : emit) : bool :=
  match epc e with ESend _ (x :: _) | EWSend _ (x :: _) => handed_out st x | _ => false end.
(* nothing but environment stimuli is enabled, operations are in flight, and every
   stalled sender is stalled on a subscription nobody holds yet *)
Definition deadlocked (st : state) : bool :=
  quiescent step thrs stim st && (existsb emit_in_flight' (emits st) || existsb sub_in_flight' (subs st))
  && negb (existsb (emit_stalled_on_handed_out st) (emits st)).
Definition no_deadlock_full : Prop := forall st sched, initial st -> deadlocked (run step st sched) = false.

Definition dl2_init : state :=
  init_state 2 [new_sub (Some [0; 1]) 0; new_sub (Some [1; 0]) 0; new_sub (Some [0]) 0]
             [new_emitter 0 false; new_emitter 1 false] [new_emit 0 100%Z; new_emit 0 101%Z; new_emit 1 102%Z].

Definition dl2_sched : list thr :=
  [TEmNew 0; TEmNew 0; TEmNew 0; TEmNew 0; TEmNew 1; TEmNew 1; TEmNew 1; TEmNew 1;
   TSub 2; TSub 2; TSub 2; TReplay 2 0; TSub 2;          (* sub2 = Subscribe(T0), returned, slow consumer *)
   TEmit 0; TEmit 0; TEmit 0;                            (* Emit(100): holds T0's lock, stalled on sub2 *)
   TSub 0; TSub 0;                                       (* sub0 = Subscribe([T0,T1]): waits for T0's lock *)
   TEmit 1; TEmit 1;                                     (* Emit(101): waits for T0's lock *)
   TSub 1; TSub 1; TSub 1; TReplay 1 0; TSub 1;          (* sub1 = Subscribe([T1,T0]): joined T1, waits for T0's lock *)
   TEmit 2; TEmit 2; TEmit 2;                            (* Emit(102): holds T1's lock, stalled on sub1 (not returned) *)
   TReq 2; TEmit 0; TRecv 2; TRead 2; TEmit 0; TEmit 0; TEmit 0;   (* sub2's consumer reads 100; Emit(100) returns *)
   TSub 0; TReplay 0 0; TSub 0;                          (* sub0 joins T0, then waits for T1's lock *)
   TEmit 1;                                              (* Emit(101) takes T0's lock: sinks [sub2; sub0] *)
   TReq 2; TEmit 1; TRecv 2; TRead 2;                    (* sub2's consumer reads 101 *)
   TEmit 1].                                             (* stalled on sub0 (not returned), holding T0's lock *)

Lemma no_deadlock_full_refuted_l : ~ no_deadlock_full.
Proof.
  intros H.
  assert (I : initial dl2_init)
    by exact (init_state_initial 2 [(Some [0; 1], 0); (Some [1; 0], 0); (Some [0], 0)] [new_emitter 0 false; new_emitter 1 false]
                                 [(0, 100%Z); (0, 101%Z); (1, 102%Z)]).
  specialize (H dl2_init dl2_sched I). vm_compute in H. discriminate.
Qed.

(* C15 — the FULL no-deadlock statement is false of the faithful model (and of
   the code: the witness below was replayed on the real bus, see
   known_findings/C15.json).  Cycle: a multi-type Subscribe has joined its first
   node and needs basicBus.lk for the second; an Emit on the first type holds
   n.lk and is stalled on the new subscription's channel, which nobody can read
   or close because Subscribe has not returned; a third operation (Emitter(),
   Subscribe, tryDropNode) holds basicBus.lk while waiting for n.lk. *)
From Coq Require Import List Arith ZArith Bool.
From Verif Require Import c15.Lts c15.Model c15.Proofs_Init.
Import ListNotations.

Definition emit_in_flight (e : emit) : bool := match epc e with E0 | EDone => false | _ => true end.
Definition sub_in_flight (c : sub) : bool :=
  (match spc c with S0 | SDone => false | _ => true end) || (match cpc c with K0 | KDone => false | _ => true end)
  || existsb (fun b : bool => b) (rpend c).
Definition emitter_in_flight (m : emitter) : bool :=
  (match mnew m with 1 | 2 | 3 => true | _ => false end) || (match mcl m with C0 | C5 => false | _ => true end).
Definition in_flight (st : state) : bool :=
  existsb emit_in_flight (emits st) || existsb sub_in_flight (subs st) || existsb emitter_in_flight (emitters st).

(* the subscription whose channel a sender is stalled on has been handed to its
   caller (Subscribe returned), so a consumer or Close can release the sender *)
Definition handed_out (st : state) (x : nat) : bool :=
  match nth_error (subs st) x with Some c => (match spc c with SDone => true | _ => false end) | None => false end.
Definition emit_stalled_on_handed_out (st : state) (e : emit) : bool :=
  match epc e with ESend _ (x :: _) | EWSend _ (x :: _) => handed_out st x | _ => false end.
Definition sub_replay_stalled_on_handed_out (st : state) (c : sub) : bool :=
  existsb (fun b : bool => b) (rpend c) && (match spc c with SDone => true | _ => false end).
Definition releasable (st : state) : bool :=
  existsb (emit_stalled_on_handed_out st) (emits st) || existsb (sub_replay_stalled_on_handed_out st) (subs st).

(* nothing but environment stimuli is enabled, operations are in flight, and no
   consumer or Close can release any of them *)
Definition deadlocked (st : state) : bool :=
  quiescent step thrs stim st && in_flight st && negb (releasable st).

Definition no_deadlock_full : Prop :=
  forall st sched, initial st -> deadlocked (run step st sched) = false.

Definition dl_init : state :=
  init_state 2 [new_sub (Some [1]) 0; new_sub (Some [1; 0]) 0]
             [new_emitter 1 false; new_emitter 1 false] [new_emit 0 100%Z; new_emit 0 101%Z].

Definition dl_sched : list thr :=
  [TEmNew 0; TEmNew 0; TEmNew 0; TEmNew 0;
   TSub 0; TSub 0; TSub 0; TReplay 0 0; TSub 0;
   TEmit 0; TEmit 0; TEmit 0;              (* Emit(100): holds n.lk, stalled on sub0 *)
   TSub 1; TSub 1;                          (* Subscribe([T1,T0]): holds b.lk, waits for n.lk *)
   TEmNew 1;                                (* Emitter(T1): waits for b.lk *)
   TEmit 1; TEmit 1;                        (* Emit(101): waits for n.lk *)
   TReq 0; TEmit 0; TRecv 0; TRead 0; TEmit 0; TEmit 0; TEmit 0;   (* consumer of sub0 reads 100 *)
   TSub 1;                                  (* joins T1's node, releases b.lk, needs it again for T0 *)
   TEmNew 1;                                (* takes b.lk, waits for n.lk *)
   TReplay 1 0;
   TEmit 1;                                 (* takes n.lk: sinks = [sub0; sub1] *)
   TReq 0; TEmit 1; TRecv 0; TRead 0;       (* consumer of sub0 reads 101 *)
   TEmit 1].                                (* stalled on sub1, whose Subscribe cannot return *)

Lemma no_deadlock_refuted_l : ~ no_deadlock_full.
Proof.
  intros H.
  assert (I : initial dl_init)
    by exact (init_state_initial 2 [(Some [1], 0); (Some [1; 0], 0)] [new_emitter 1 false; new_emitter 1 false] [(0, 100%Z); (0, 101%Z)]).
  specialize (H dl_init dl_sched I). vm_compute in H. discriminate.
Qed.

(* what the witness state looks like *)
Lemma dl_state_l :
  let st := run step dl_init dl_sched in
  (exists c, nth_error (subs st) 1 = Some c /\ spc c = SBus 1 /\ buf c = [] /\ ccap c = 0 /\ want c = 0) /\
  (exists e, nth_error (emits st) 1 = Some e /\ epc e = ESend 0 [1]) /\
  (exists nd, nth_error (nodes st) 0 = Some nd /\ holder nd = Some (TEmit 1)) /\
  blk st = Some (TEmNew 1) /\
  step st (TSub 1) = None /\ step st (TEmit 1) = None /\ step st (TEmNew 1) = None.
Proof. vm_compute. repeat split; eexists; repeat split. Qed.

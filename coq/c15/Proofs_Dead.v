(* C15 — after fix 8aeecd5 (do not wait for a node lock while holding the bus
   lock): basicBus.lk only protects sections that cannot block, so in the model
   it is never held across steps, tryDropNode never waits, and the schedule that
   used to deadlock (half-registered multi-type Subscribe + Emit stalled on it +
   bus-lock waiter) now lets the Subscribe return. *)
From Coq Require Import List Arith ZArith Bool.
From Verif Require Import c15.Lts c15.Model c15.Proofs_Chan c15.Proofs_Loc c15.Proofs_Init c15.Proofs_Live.
Import ListNotations.

Lemma try_drop_total : forall st ty, exists st', try_drop st ty = Some st'.
Proof.
  intros st ty. unfold try_drop.
  repeat match goal with |- context[match ?x with _ => _ end] => destruct x end; eauto.
Qed.

Lemma with_node_blk : forall st ty st1 n, with_node st ty = Some (st1, n) -> blk st1 = blk st.
Proof.
  intros st ty st1 n E. unfold with_node in E. destruct (lookup st ty) as [sl m] eqn:El.
  destruct (nth_error (nodes sl) m); inversion E; subst. cbn.
  unfold lookup in El. destruct (nth_error (bmap st) ty) as [[k|]|]; inversion El; reflexivity.
Qed.

Lemma try_drop_blk : forall st ty st', try_drop st ty = Some st' -> blk st' = blk st.
Proof. intros st ty st' E. unfold try_drop in E. brute E; inversion E; subst; reflexivity. Qed.

Lemma send_blk : forall st s it st', send st s it = Some st' -> blk st' = blk st.
Proof. intros st s it st' E. unfold send in E. brute E; inversion E; subst; reflexivity. Qed.

Lemma step_blk : forall st t l st', step st t = Some (l, st') -> blk st' = blk st.
Proof.
  intros st t l st' E. destruct t; cbn in E.
  - unfold step_emnew in E. destruct (nth_error (emitters st) j) as [m|]; [|discriminate].
    destruct (mnew m) as [|[|[|[|?]]]]; try discriminate.
    + inversion E; reflexivity.
    + destruct (with_node st (mty m)) as [[st1 n]|] eqn:Ew; [|discriminate]. inversion E; subst. cbn. apply (with_node_blk _ _ _ _ Ew).
    + brute E; inversion E; subst; reflexivity.
    + inversion E; reflexivity.
  - unfold step_emclose in E. destruct (nth_error (emitters st) j) as [m|]; [|discriminate].
    destruct (mcl m); try discriminate; try (brute E; inversion E; subst; reflexivity).
    otau_inv E. cbn. apply (try_drop_blk _ _ _ E).
  - unfold step_emit in E. destruct (nth_error (emits st) k) as [e|]; [|discriminate].
    destruct (nth_error (emitters st) (eem e)) as [m|]; [|discriminate].
    destruct (epc e) as [| | |n [|x r]|n|n|n [|x r]|c|]; try discriminate;
      try (brute E; inversion E; subst; reflexivity); otau_inv E; cbn; apply (send_blk _ _ _ _ E).
  - unfold step_sub in E. destruct (nth_error (subs st) s) as [c|]; [|discriminate].
    destruct (spc c); try (brute E; inversion E; subst; reflexivity).
    destruct (styps c) as [tys|]; [|discriminate]. destruct (nth_error tys i) as [ty|]; [|discriminate].
    destruct (with_node st ty) as [[st1 n]|] eqn:Ew; [|discriminate]. inversion E; subst. cbn. apply (with_node_blk _ _ _ _ Ew).
  - unfold step_replay in E. destruct (nth_error (subs st) s) as [c|]; [|discriminate].
    destruct (nth_error (rpend c) i) as [[|]|]; try discriminate.
    destruct (nth_error (snodes c) i) as [n|]; [|discriminate].
    destruct (nth_error (nodes st) n) as [nd|]; [|discriminate].
    destruct (keep nd); [destruct (nlast nd)|]; try (inversion E; subst; reflexivity).
    otau_inv E. pose proof (send_blk _ _ _ _ E) as B. destruct (nth_error (subs x) s); cbn; exact B.
  - unfold step_close in E. destruct (nth_error (subs st) s) as [c|]; [|discriminate].
    destruct (cpc c); try discriminate; try (brute E; inversion E; subst; reflexivity).
    destruct (nth_error (snodes c) i) as [n|]; [|discriminate]. destruct (nth_error (nodes st) n) as [nd|]; [|discriminate].
    otau_inv E. cbn. apply (try_drop_blk _ _ _ E).
  - unfold step_drain in E. brute E; inversion E; subst; reflexivity.
  - unfold step_req in E. brute E; inversion E; subst; reflexivity.
  - unfold step_recv in E. brute E; inversion E; subst; reflexivity.
  - unfold step_read in E. brute E; inversion E; subst; reflexivity.
Qed.

(* basicBus.lk is never held across a step: nobody ever waits for it *)
Lemma bus_lock_never_held_l : forall st sched, initial st -> blk (run step st sched) = None.
Proof.
  intros st sched [_ [_ [_ [Hb _]]]].
  apply (invariant_run _ _ _ step (fun s => blk s = None)); [|exact Hb].
  intros a t l b Ha E. rewrite (step_blk _ _ _ _ E). exact Ha.
Qed.

(* the former deadlock schedule (known finding of the unrepaired tree), continued:
   the third operation no longer holds the bus lock, the Subscribe returns, and
   closing it releases the stalled Emit *)
Definition dl_init : state :=
  init_state 2 [new_sub (Some [1]) 0; new_sub (Some [1; 0]) 0]
             [new_emitter 1 false; new_emitter 1 false] [new_emit 0 100%Z; new_emit 0 101%Z].

Definition dl_sched : list thr :=
  [TEmNew 0; TEmNew 0; TEmNew 0; TEmNew 0;
   TSub 0; TSub 0; TSub 0; TReplay 0 0; TSub 0;
   TEmit 0; TEmit 0; TEmit 0;              (* Emit(100): holds n.lk, stalled on sub0 *)
   TSub 1; TSub 1;                          (* Subscribe([T1,T0]): looked T1's node up (pending), waits for n.lk *)
   TEmNew 1; TEmNew 1;                      (* Emitter(T1): looked the node up (pending), waits for n.lk *)
   TEmit 1; TEmit 1;                        (* Emit(101): waits for n.lk *)
   TReq 0; TEmit 0; TRecv 0; TRead 0; TEmit 0; TEmit 0; TEmit 0;   (* consumer of sub0 reads 100 *)
   TSub 1;                                  (* joins T1's node *)
   TReplay 1 0;
   TEmit 1;                                 (* takes n.lk: sinks = [sub0; sub1] *)
   TReq 0; TEmit 1; TRecv 0; TRead 0;       (* consumer of sub0 reads 101 *)
   TEmit 1;                                 (* stalled on sub1's channel, holding n.lk *)
   TSub 1; TSub 1; TReplay 1 1; TSub 1;     (* the Subscribe finishes with T0 and RETURNS *)
   TClose 1; TEmit 1; TDrain 1; TEmit 1; TEmit 1; TEmit 1;   (* Close(sub1): drainer releases the Emit, which returns *)
   TEmNew 1; TEmNew 1].                     (* Emitter(T1) gets n.lk and returns *)

Lemma former_deadlock_completes_l :
  let st := run step dl_init dl_sched in
  (exists c, nth_error (subs st) 1 = Some c /\ spc c = SDone) /\
  (exists e, nth_error (emits st) 1 = Some e /\ epc e = EDone) /\
  (exists m, nth_error (emitters st) 1 = Some m /\ mnew m = 4) /\ panicked st = false.
Proof. vm_compute. repeat split; eexists; split; reflexivity. Qed.

(* C15 — common context of the per-rule lemmas: the monitor's configuration is the static
   part of every reachable state; shape of the step that reports a value. *)
From Coq Require Import List Arith ZArith Bool Lia.
From Verif Require Import lib.Wire c15.Lts c15.Model c15.Spec c15.Proofs c15.Proofs_Chan c15.Proofs_Loc c15.Proofs_List c15.Proofs_Safe
  c15.Proofs_Init c15.Proofs_Live c15.Proofs_Pend c15.Proofs_Idx c15.Proofs_Dead c15.Proofs_Prog c15.Proofs_Valid c15.Proofs_WildOK
  c15.Proofs_Blk c15.Proofs_Obs c15.Proofs_Rule13 c15.Proofs_Reads c15.Proofs_Wire c15.Proofs_Disc c15.Proofs_Mon c15.Proofs_MonS
  c15.Proofs_Tr c15.Proofs_Cpl c15.Proofs_RInv.
Import ListNotations.
Local Open Scope Z_scope.

Definition NT (c : cfg) := Z.to_nat (c_ntypes c).

Lemma d_state : forall c s1, dcfg_of_cfg c = dcfg_of_state (NT c) (run step (init_of c) s1).
Proof. intros. rewrite run_dcfg. symmetry. apply dcfg_init. Qed.

Lemma ids_nodup : forall c s1, cfg_wf c = true -> NoDup (map eev (emits (run step (init_of c) s1))).
Proof.
  intros c s1 W. pose proof (cfg_wf_ids c W) as H. rewrite (d_state c s1) in H. unfold dcfg_of_state, sM in H. cbn in H.
  rewrite map_map in H. exact H.
Qed.

Lemma ids_unique : forall c s1 k1 k2 e1 e2, cfg_wf c = true ->
  nth_error (emits (run step (init_of c) s1)) k1 = Some e1 -> nth_error (emits (run step (init_of c) s1)) k2 = Some e2 ->
  eev e1 = eev e2 -> k1 = k2.
Proof.
  intros c s1 k1 k2 e1 e2 W H1 H2 E. pose proof (ids_nodup c s1 W) as ND.
  eapply (proj1 (NoDup_nth_error _) ND k1 k2).
  - apply nth_error_Some. rewrite nth_error_map, H1. discriminate.
  - rewrite !nth_error_map, H1, H2. cbn. congruence.
Qed.

Lemma read_step_inv : forall st t s v st', step st t = Some (Some (LRead s v), st') ->
  exists c r, nth_error (subs st) s = Some c /\ hand c = v :: r /\ st' = set_sub st s (c_hand c r) /\ t = TRead s.
Proof.
  intros st t s v st' E. pose proof (vis_label_inv _ _ _ _ E) as T. cbn in T. subst t. cbn [step] in E.
  unfold step_read in E. destruct (nth_error (subs st) s) as [c|] eqn:Ec; [|discriminate]. destruct (hand c) as [|x r] eqn:Eh; [discriminate|].
  inversion E; subst. exists c, r. auto.
Qed.

(* the step that reports a value, seen from the end of the extended schedule *)
Lemma read_in_trace : forall init s1 t s v st', step (run step init s1) t = Some (Some (LRead s v), st') ->
  trace step init (s1 ++ [t]) = trace step init s1 ++ [LRead s v] /\ run step init (s1 ++ [t]) = st'.
Proof. intros. rewrite trace_app, run_app. cbn. rewrite H. auto. Qed.

(* rules 1 and 2 *)
Lemma rule1_ok : read_rule_ok 1.
Proof.
  intros c s1 t s v st' W D E Hv.
  destruct (read_in_trace _ _ _ _ _ _ E) as [Tr Rn].
  assert (Hin : In (LRead s v) (trace step (init_of c) (s1 ++ [t]))) by (rewrite Tr; apply in_or_app; right; left; reflexivity).
  destruct (reads_provenance_l _ _ s v (cfg_wf_init c W) Hin Hv) as [k [e [m [cc [Ek [Ev _]]]]]].
  pose proof (dm_find_uniq (NT c) _ k e (ids_nodup c (s1 ++ [t]) W) Ek) as F. rewrite <- (d_state c (s1 ++ [t])), Ev in F.
  eapply read_not; [exact F|left; reflexivity].
Qed.

Lemma rule2_ok : read_rule_ok 2.
Proof.
  intros c s1 t s v st' W D E Hv.
  destruct (read_in_trace _ _ _ _ _ _ E) as [Tr Rn].
  assert (Hin : In (LRead s v) (trace step (init_of c) (s1 ++ [t]))) by (rewrite Tr; apply in_or_app; right; left; reflexivity).
  destruct (reads_provenance_l _ _ s v (cfg_wf_init c W) Hin Hv) as [k [e [m [cc [Ek [Ev [_ [Em [Ec Ht]]]]]]]]].
  pose proof (dm_find_uniq (NT c) _ k e (ids_nodup c (s1 ++ [t]) W) Ek) as F. rewrite <- (d_state c (s1 ++ [t])), Ev in F.
  eapply read_not; [exact F|right; left; split; [reflexivity|]].
  unfold c2. apply negb_false_iff. unfold dm_matches. rewrite (d_state c (s1 ++ [t])).
  rewrite (dm_wild_state _ _ s cc Ec), (dm_tys_state _ _ s cc Ec), dm_ty_state, Ek, Em. cbn.
  destruct Ht as [->|[tys [-> Hi]]]; [reflexivity|]. cbn. apply existsb_exists. exists (mty m). split; [exact Hi|apply Nat.eqb_refl].
Qed.

(* C15 — node registration on the reachable states of a well-formed configuration; an
   emitter that is not yet marked closed has not passed the CompareAndSwap of Close. *)
From Coq Require Import List Arith ZArith Bool Lia.
From Verif Require Import lib.Wire c15.Lts c15.Model c15.Spec c15.Proofs c15.Proofs_Chan c15.Proofs_Loc c15.Proofs_List c15.Proofs_Safe
  c15.Proofs_Init c15.Proofs_Live c15.Proofs_Pend c15.Proofs_Idx c15.Proofs_Dead c15.Proofs_Prog c15.Proofs_Valid c15.Proofs_WildOK
  c15.Proofs_Blk c15.Proofs_Obs c15.Proofs_Loc3 c15.Proofs_WSI c15.Proofs_TY c15.Proofs_Rule13 c15.Proofs_Mon c15.Proofs_MonS
  c15.Proofs_Tr c15.Proofs_Cpl c15.Proofs_RCtx c15.Proofs_R3 c15.Proofs_R5 c15.Proofs_R4 c15.Proofs_RegA c15.Proofs_RegB c15.Proofs_RegW.
Import ListNotations.

Lemma bmap_len_cfg : forall c s1, length (bmap (St c s1)) = NT c.
Proof.
  intros c s1. unfold St. apply (relation_run _ _ _ step (fun a b => length (bmap a) = NT c -> length (bmap b) = NT c)).
  - auto. - auto.
  - intros a t l b E H. rewrite (bmap_len_step _ _ _ _ E). exact H.
  - unfold init_of, init_state. cbn. apply repeat_length.
Qed.

Lemma in_range_nat : forall n x, in_range n x = true -> (Z.to_nat x < Z.to_nat n)%nat.
Proof. intros n x H. unfold in_range in H. apply andb_true_iff in H. destruct H as [A B]. apply Z.leb_le in A. apply Z.ltb_lt in B. lia. Qed.

Lemma inrange_cfg : forall c s1, cfg_wf c = true -> InRange (St c s1).
Proof.
  intros c s1 W. unfold InRange. rewrite !(bmap_len_cfg c s1). pose proof (d_state c s1) as D. unfold dcfg_of_cfg, dcfg_of_state in D. inversion D as [[D1 D2 D3]].
  unfold cfg_wf in W. repeat (apply andb_true_iff in W; destruct W as [W ?]). split.
  - intros j m Ej. assert (X : nth_error (sE (St c s1)) j = Some (fE m)) by (unfold sE; rewrite nth_error_map; unfold St in *; rewrite Ej; reflexivity).
    unfold St in X. rewrite <- D1, nth_error_map in X. destruct (nth_error (c_emitters c) j) as [p|] eqn:Ep; [|discriminate]. cbn in X. unfold fE in X. inversion X as [[Y Z]].
    rewrite forallb_forall in W. specialize (W p (nth_error_In _ _ Ep)). apply andb_true_iff in W. destruct W as [W _]. try rewrite <- Y. unfold NT. apply in_range_nat, W.
  - intros s cs tys ty Ec Et Hin. assert (X : nth_error (sS (St c s1)) s = Some (fS cs)) by (unfold sS; rewrite nth_error_map; unfold St in *; rewrite Ec; reflexivity).
    unfold St in X. rewrite <- D2, nth_error_map in X. destruct (nth_error (c_subs c) s) as [[[w cap] tz]|] eqn:Es; [|discriminate]. cbn in X. unfold fS in X. inversion X as [[Y Z]].
    rewrite Et in Y. destruct (w =? 1)%Z; [discriminate|]. inversion Y; subst tys. apply in_map_iff in Hin. destruct Hin as [z [<- Hz]].
    assert (Hz' : In z tz) by (unfold vtys in Hz; destruct (Z.leb 2 w); [destruct Hz|exact Hz]). clear Hz. rename Hz' into Hz.
    rewrite forallb_forall in H1. specialize (H1 _ (nth_error_In _ _ Es)). cbn in H1. repeat (apply andb_true_iff in H1; destruct H1 as [H1 ?]).
    rewrite forallb_forall in H4. unfold NT. apply in_range_nat, H4, Hz.
Qed.

Lemma rega_cfg : forall c s1, cfg_wf c = true -> RegA (St c s1).
Proof.
  intros c s1 W. unfold St. apply (coupled_run_all (fun st _ => RegA st)); [apply initial_rega, (cfg_wf_init c W)|].
  intros s0 t l st' R E. destruct (reach_cfg c s0 W) as [G _]. eapply step_rega; [apply G|apply G|apply (inrange_cfg c s0 W)|exact R|exact E].
Qed.

(* ---- mclosed = false only before the CompareAndSwap of Emitter.Close -------------------- *)
Definition em_ok (m : emitter) : Prop := mclosed m = false -> mcl m = C0 \/ mcl m = C1.

Lemma emitters_other : forall st t l st', (match t with TEmNew _ | TEmClose _ => False | _ => True end) ->
  step st t = Some (l, st') -> emitters st' = emitters st.
Proof.
  intros st t l st' Ht E. destruct t; try contradiction; cbn [step] in E.
  - unfold step_emit in E. destruct (nth_error (emits st) k) as [e|]; [|discriminate].
    destruct (nth_error (emitters st) (eem e)) as [m|]; [|discriminate].
    destruct (epc e) as [| | |n [|x r]|n|n|n [|x r]|c|]; try discriminate; try solve [brute E; inversion E; subst; reflexivity];
      apply otau_Some in E; destruct E as [E _]; apply option_map_Some in E; destruct E as [x0 [E ->]]; cbn; apply (proj2 (send_emits _ _ _ _ E)).
  - unfold step_sub in E. destruct (nth_error (subs st) s) as [c|]; [|discriminate].
    destruct (spc c); try solve [brute E; inversion E; subst; reflexivity].
    destruct (styps c) as [tys|]; [|discriminate]. destruct (nth_error tys i) as [ty|]; [|discriminate].
    destruct (with_node st ty) as [[st1 n]|] eqn:Ew; [|discriminate]. inversion E; subst. cbn. apply (proj2 (with_node_emits _ _ _ _ Ew)).
  - unfold step_replay in E. destruct (nth_error (subs st) s) as [c|]; [|discriminate].
    destruct (nth_error (rpend c) i) as [[|]|]; try discriminate.
    destruct (nth_error (snodes c) i) as [n|]; [|discriminate]. destruct (nth_error (nodes st) n) as [nd|]; [|discriminate].
    destruct (keep nd); [destruct (nlast nd) as [lv|]|]; try solve [inversion E; subst; reflexivity].
    apply otau_Some in E. destruct E as [E _]. apply option_map_Some in E. destruct E as [x [E ->]].
    destruct (nth_error (subs x) s); cbn; apply (proj2 (send_emits _ _ _ _ E)).
  - unfold step_close in E. destruct (nth_error (subs st) s) as [c|]; [|discriminate].
    destruct (cpc c); try discriminate; try solve [brute E; inversion E; subst; reflexivity].
    destruct (nth_error (snodes c) i) as [n|]; [|discriminate]. destruct (nth_error (nodes st) n) as [nd|]; [|discriminate].
    apply otau_Some in E. destruct E as [E _]. apply option_map_Some in E. destruct E as [x [E ->]]. cbn. apply (proj2 (try_drop_emits _ _ _ E)).
  - unfold step_drain in E. brute E; inversion E; subst; reflexivity.
  - unfold step_req in E. brute E; inversion E; subst; reflexivity.
  - unfold step_recv in E. brute E; inversion E; subst; reflexivity.
  - unfold step_read in E. brute E; inversion E; subst; reflexivity.
Qed.

Lemma step_emok : forall st t l st', Forall em_ok (emitters st) -> step st t = Some (l, st') -> Forall em_ok (emitters st').
Proof.
  intros st t l st' H E. destruct t; try (apply emitters_other in E; [rewrite E; exact H|exact I]); cbn [step] in E.
  - unfold step_emnew in E. destruct (nth_error (emitters st) j) as [m|] eqn:Ej; [|discriminate].
    destruct (mnew m) as [|[|[|[|?]]]]; try discriminate;
      try solve [brute E; inversion E; subst; cbn; apply Forall_upd; [exact H|]; intros y Hy Py; rewrite Ej in Hy; inversion Hy; subst; exact Py].
    destruct (with_node st (mty m)) as [[st1 n]|] eqn:Ew; [|discriminate]. inversion E; subst. cbn. rewrite (proj2 (with_node_emits _ _ _ _ Ew)).
    apply Forall_upd; [exact H|]. intros y Hy Py. rewrite Ej in Hy. inversion Hy; subst. exact Py.
  - unfold step_emclose in E. destruct (nth_error (emitters st) j) as [m|] eqn:Ej; [|discriminate].
    assert (G : forall st0 c p, emitters st0 = emitters st -> (c = false -> p = C0 \/ p = C1) -> Forall em_ok (emitters (set_emitter st0 j (m_cl m c p)))).
    { intros st0 c p He Hp. cbn. rewrite He. apply Forall_upd; [exact H|]. intros y Hy Py. unfold em_ok. cbn. exact Hp. }
    destruct (mcl m) eqn:Ec; try discriminate.
    + destruct (Nat.eqb (mnew m) 4); inversion E; subst. apply G; [reflexivity|auto].
    + inversion E; subst. destruct (mclosed m); apply G; try reflexivity; intros; discriminate.
    + destruct (nth_error (nodes st) (mnode m)); [|discriminate]. inversion E; subst. apply G; [reflexivity|intros; discriminate].
    + inversion E; subst. apply G; [reflexivity|intros; discriminate].
    + apply otau_Some in E. destruct E as [E _]. apply option_map_Some in E. destruct E as [x [E ->]]. apply G; [apply (proj2 (try_drop_emits _ _ _ E))|intros; discriminate].
    + inversion E; subst. apply G; [reflexivity|intros; discriminate].
Qed.

Lemma emok_cfg : forall c s1, cfg_wf c = true -> Forall em_ok (emitters (St c s1)).
Proof.
  intros c s1 W. unfold St. apply (invariant_run _ _ _ step (fun st => Forall em_ok (emitters st))).
  - intros a t l b H E. eapply step_emok; eassumption.
  - destruct (cfg_wf_init c W) as [[_ [He _]] _]. eapply Forall_impl; [|exact He]. intros m [_ X] _. left. exact X.
Qed.

(* ---- listing invariants on reachable states ------------------------------------------------ *)
Lemma lb_cfg : forall c s1, cfg_wf c = true -> LB (St c s1).
Proof.
  intros c s1 W. unfold St. apply (coupled_run_all (fun st _ => LB st)).
  - intros s cs n nd Ec En. destruct (cfg_wf_init c W) as [[[Hn _] _] _]. rewrite Hn in En. destruct n; discriminate.
  - intros s0 t l st' L E. destruct (reach_cfg c s0 W) as [G _]. eapply step_lb; [apply G|apply G|exact L|exact E].
Qed.

Lemma b1_cfg : forall c s1, cfg_wf c = true -> B1 (St c s1).
Proof.
  intros c s1 W. unfold St. apply (coupled_run_all (fun st _ => B1 st)).
  - intros s cs tys Ec Et Hp. destruct (cfg_wf_init c W) as [[[_ [_ [_ [_ [Hs _]]]]] _] _].
    rewrite (Forall_nth_error _ _ _ _ Hs Ec) in Hp. cbn in Hp. destruct Hp; discriminate.
  - intros s0 t l st' B E. destruct (reach_cfg c s0 W) as [G [_ [_ TV]]].
    destruct t; try (eapply B1_same; [exact B|eapply other_wS; [|exact E]; exact I]). cbn [step] in E.
    eapply sub_b1; [apply G|apply G|apply TYV_TY, TV|exact B|exact E].
Qed.

Lemma regw_cfg : forall c s1, cfg_wf c = true -> RegW (St c s1).
Proof.
  intros c s1 W. unfold St. apply (coupled_run_all (fun st _ => RegW st)); [apply initial_rw, init_initial, W|].
  intros s0 t l st' R E. destruct (reach_cfg c s0 W) as [G [L3 [WS _]]]. eapply step_rw; [apply G|exact L3|exact WS|exact R|exact E].
Qed.

(* C15 — what a pending replay goroutine is about to send is never the event of an Emit
   that started after the Subscribe returned: the retained event was locked in before the
   subscription joined the node. *)
From Coq Require Import List Arith ZArith Bool Lia.
From Verif Require Import lib.Wire c15.Lts c15.Model c15.Spec c15.Proofs c15.Proofs_Chan c15.Proofs_Loc c15.Proofs_List c15.Proofs_Safe
  c15.Proofs_Init c15.Proofs_Once c15.Proofs_First c15.Proofs_Grow c15.Proofs_Live c15.Proofs_Pend c15.Proofs_Idx c15.Proofs_Dead c15.Proofs_Prog c15.Proofs_Valid c15.Proofs_WildOK
  c15.Proofs_Blk c15.Proofs_Obs c15.Proofs_Loc3 c15.Proofs_WSI c15.Proofs_TY c15.Proofs_Rule13 c15.Proofs_Reads c15.Proofs_Wire c15.Proofs_Mon c15.Proofs_Tr c15.Proofs_Cpl
  c15.Proofs_Prom c15.Proofs_R3 c15.Proofs_R4 c15.Proofs_RegB c15.Proofs_RegRun c15.Proofs_MD.
Import ListNotations.
Local Open Scope Z_scope.

Definition RF (st : state) (pre : list label) : Prop :=
  forall s c i n nd k e, nth_error (subs st) s = Some c -> nth_error (rpend c) i = Some true -> nth_error (snodes c) i = Some n ->
    nth_error (nodes st) n = Some nd -> nlast nd = Some (eev e) -> nth_error (emits st) k = Some e -> a_fresh pre s k = false.

Definition fR (c : sub) := (rpend c, snodes c).
Definition rV (st : state) := map fR (subs st).

(* frame: replay flags only fall, the joined nodes are the same, retained events unchanged, Emit ids fixed *)
Definition rsub (st st' : state) : Prop :=
  forall s c', nth_error (subs st') s = Some c' -> exists c, nth_error (subs st) s = Some c /\ snodes c' = snodes c /\
    (forall i, nth_error (rpend c') i = Some true -> nth_error (rpend c) i = Some true).
Definition lsame (st st' : state) : Prop :=
  forall n nd', nth_error (nodes st') n = Some nd' -> nlast nd' = None \/ exists nd, nth_error (nodes st) n = Some nd /\ nlast nd = nlast nd'.
Definition esame (st st' : state) : Prop :=
  forall k e', nth_error (emits st') k = Some e' -> exists e, nth_error (emits st) k = Some e /\ eev e = eev e'.

Lemma RF_frame : forall st st' pre l, RF st pre -> rsub st st' -> lsame st st' -> esame st st' ->
  (forall k e, nth_error (emits st) k = Some e -> l = Some (LStart (TEmit k)) -> forall n nd, nth_error (nodes st) n = Some nd -> nlast nd <> Some (eev e)) ->
  RF st' (pre ++ olab l).
Proof.
  intros st st' pre l R RS LS ES NL s c' i n nd' k e' Ec' Er Es En' Hl Ek'.
  destruct (RS s c' Ec') as [c [Ec [Sn Rp]]]. destruct (ES k e' Ek') as [e [Ek Ev]].
  destruct (LS n nd' En') as [X|[nd [En Hn]]]; [congruence|].
  destruct (a_fresh (pre ++ olab l) s k) eqn:F; [|reflexivity]. exfalso.
  destruct (fresh_step _ _ _ _ F) as [F0|[Hs _]].
  - rewrite (R s c i n nd k e Ec (Rp i Er) ltac:(congruence) En ltac:(congruence) Ek) in F0. discriminate.
  - eapply (NL k e Ek Hs n nd En). congruence.
Qed.

Lemma rsub_eq : forall st st', rV st' = rV st -> rsub st st'.
Proof.
  intros st st' H s c' Ec'. assert (X : nth_error (rV st') s = Some (fR c')) by (unfold rV; rewrite nth_error_map, Ec'; reflexivity).
  rewrite H in X. unfold rV in X. rewrite nth_error_map in X. destruct (nth_error (subs st) s) as [c|]; [|discriminate]. exists c.
  cbn in X. unfold fR in X. inversion X as [[A B]]. split; [reflexivity|]. split; [congruence|]. intros i Hi. congruence.
Qed.
Lemma lsame_eq : forall st st', lext (pL st) (pL st') -> lsame st st'.
Proof.
  intros st st' L n nd' En'. assert (X : nth_error (pL st') n = Some (nlast nd')) by (unfold pL; rewrite nth_error_map, En'; reflexivity).
  destruct L as [L|L]; rewrite L in X.
  - unfold pL in X. rewrite nth_error_map in X. destruct (nth_error (nodes st) n) as [nd|]; [|discriminate]. right. exists nd. inversion X. auto.
  - destruct (Nat.lt_ge_cases n (length (pL st))) as [Lt|Ge].
    + rewrite nth_error_app1 in X by exact Lt. unfold pL in X. rewrite nth_error_map in X. destruct (nth_error (nodes st) n) as [nd|]; [|discriminate]. right. exists nd. inversion X. auto.
    + rewrite nth_error_app2 in X by exact Ge. destruct (n - length (pL st))%nat as [|[|?]]; cbn in X; try discriminate. inversion X. left. auto.
Qed.
Lemma esame_eq : forall st st', pE st' = pE st -> esame st st'.
Proof.
  intros st st' H k e' Ek'. assert (X : nth_error (pE st') k = Some (eem e', eev e', epc e')) by (unfold pE; rewrite nth_error_map, Ek'; reflexivity).
  rewrite H in X. unfold pE in X. rewrite nth_error_map in X. destruct (nth_error (emits st) k) as [e|]; [|discriminate]. exists e. inversion X. auto.
Qed.

Lemma fR_expect : forall l tg it i, map fR (expect_all l tg it i) = map fR l.
Proof. induction l as [|c l IH]; intros; cbn; [reflexivity|]. f_equal. apply IH. Qed.

Ltac rv_fin :=
  unfold rV;
  cbn [subs set_emitter set_emitters set_sub set_subs set_node set_nodes set_blk set_bmap set_wild set_emit set_emits set_panicked];
  try reflexivity; try apply fR_expect; try (eapply (map_upd_same fR); [eassumption|reflexivity]).

Lemma send_rv : forall st s it st', send st s it = Some st' -> rV st' = rV st.
Proof.
  intros st s it st' E. unfold send in E. destruct (nth_error (subs st) s) as [c|] eqn:Ec; [|discriminate].
  destruct (closed c); [inversion E; subst; rv_fin|]. destruct (room c); [|discriminate]. inversion E; subst. rv_fin.
Qed.

(* the steps that leave replay flags and joined nodes alone *)
Lemma other_rv : forall st t l st', (match t with TSub _ | TReplay _ _ => False | _ => True end) -> step st t = Some (l, st') -> rV st' = rV st.
Proof.
  intros st t l st' Ht E. destruct t; try contradiction; cbn [step] in E.
  - unfold rV. rewrite (emnew_subs _ _ _ _ E). reflexivity.
  - unfold rV. rewrite (emclose_subs _ _ _ _ E). reflexivity.
  - unfold step_emit in E. destruct (nth_error (emits st) k) as [e|]; [|discriminate].
    destruct (nth_error (emitters st) (eem e)) as [m|]; [|discriminate].
    destruct (epc e) as [| | |n [|x r]|n|n|n [|x r]|c|]; try discriminate; try solve [brute E; inversion E; subst; rv_fin];
      apply otau_Some in E; destruct E as [E _]; apply option_map_Some in E; destruct E as [x0 [E ->]]; cbn; apply (send_rv _ _ _ _ E).
  - unfold step_close in E. destruct (nth_error (subs st) s) as [c|] eqn:Ec; [|discriminate].
    destruct (cpc c); try discriminate; try solve [brute E; inversion E; subst; rv_fin].
    destruct (nth_error (snodes c) i) as [n|]; [|discriminate]. destruct (nth_error (nodes st) n) as [nd|]; [|discriminate].
    apply otau_Some in E. destruct E as [E _]. apply option_map_Some in E. destruct E as [x [E ->]]. unfold rV. cbn. rewrite (try_drop_subs _ _ _ E).
    apply (map_upd_same fR _ s _ c); [exact Ec|reflexivity].
  - unfold step_drain in E. destruct (nth_error (subs st) s) as [c|] eqn:Ec; [|discriminate]. brute E; inversion E; subst; rv_fin.
  - unfold step_req in E. destruct (nth_error (subs st) s) as [c|] eqn:Ec; [|discriminate]. inversion E; subst; rv_fin.
  - unfold step_recv in E. destruct (nth_error (subs st) s) as [c|] eqn:Ec; [|discriminate]. brute E; inversion E; subst; rv_fin.
  - unfold step_read in E. destruct (nth_error (subs st) s) as [c|] eqn:Ec; [|discriminate]. brute E; inversion E; subst; rv_fin.
Qed.

Lemma no_label_start : forall st t l st' k, (match t with TEmit _ => False | _ => True end) -> step st t = Some (l, st') -> l <> Some (LStart (TEmit k)).
Proof. intros st t l st' k Ht E X. subst l. pose proof (vis_label_inv _ _ _ _ E) as [T _]. subst t. exact Ht. Qed.

Lemma lsame_nodes_eq : forall st st', map nlast (nodes st') = map nlast (nodes st) -> lsame st st'.
Proof. intros st st' H. apply lsame_eq. left. unfold pL. exact H. Qed.

Lemma esame_emit : forall st k l st', step_emit st k = Some (l, st') -> esame st st'.
Proof.
  intros st k l st' E. destruct (emit_step_shape _ _ _ _ E) as [e [p [Ek [Em _]]]]. intros k' e' H. rewrite Em in H.
  apply nth_error_upd_inv in H. destruct H as [[-> [-> _]]|[N H]]; [exists e; auto|exists e'; auto].
Qed.

Lemma rf_step : forall st t l st' pre, TrOK st pre -> Prom st pre -> NoDup (map eev (emits st)) -> Inv2 st -> RF st pre ->
  step st t = Some (l, st') -> RF st' (pre ++ olab l).
Proof.
  intros st t l st' pre T P ND I R E. pose proof T as [O TS TC].
  (* the steps covered by the frames of the promise invariant *)
  assert (F0 : (match t with TEmit _ | TSub _ | TReplay _ _ => False | _ => True end) -> RF st' (pre ++ olab l)).
  { intros Ht. assert (Ht1 : match t with TEmit _ | TSub _ => False | _ => True end) by (destruct t; auto).
    assert (Ht2 : match t with TSub _ | TReplay _ _ => False | _ => True end) by (destruct t; auto).
    assert (Ht3 : match t with TEmit _ => False | _ => True end) by (destruct t; auto).
    destruct (other_ps _ _ _ _ Ht1 E) as [_ [PE [PL _]]].
    eapply RF_frame; [exact R|apply rsub_eq, (other_rv _ _ _ _ Ht2 E)|apply lsame_eq, PL|apply esame_eq, PE|].
    intros k e _ Hs. exfalso. eapply no_label_start; eassumption. }
  destruct t; try (apply F0; exact Logic.I); cbn [step] in E.
  - (* Emit *)
    assert (RS : rsub st st') by (apply rsub_eq; eapply (other_rv st (TEmit k)); [exact Logic.I|exact E]).
    assert (ES : esame st st') by (eapply esame_emit, E).
    assert (NL : forall k0 e0, nth_error (emits st) k0 = Some e0 -> l = Some (LStart (TEmit k0)) -> forall n nd, nth_error (nodes st) n = Some nd -> nlast nd <> Some (eev e0)).
    { intros k0 e0 Ek0 Hs n nd En Hn. subst l. pose proof (label_status st pre (TEmit k) _ st' O E) as LS. cbn in LS. apply tstat_fresh in LS.
      destruct P as [_ PN _ _]. assert (Vl : nth_error (pL st) n = Some (Some (eev e0))) by (unfold pL; rewrite nth_error_map, En; cbn; rewrite Hn; reflexivity).
      destruct (PN n _ Vl) as [k1 [j1 [p1 [A [B _]]]]].
      assert (k1 = k0). { eapply (ids_unique_state st ND k1 k0); [exact A|unfold pE; rewrite nth_error_map, Ek0; reflexivity]. }
      subst k1. unfold pE in A. rewrite nth_error_map, Ek0 in A. inversion A; subst.
      pose proof (obM _ _ O k0 (epc e0)) as OM. unfold xM in OM. rewrite nth_error_map, Ek0 in OM. specialize (OM eq_refl).
      unfold tstat in OM. rewrite (proj1 LS), (proj2 LS) in OM. destruct (epc e0); cbn in OM, B; try discriminate; contradiction. }
    unfold step_emit in E. destruct (nth_error (emits st) k) as [e|] eqn:Ek; [|discriminate].
    destruct (nth_error (emitters st) (eem e)) as [m|] eqn:Em; [|discriminate].
    assert (G : lsame st st' -> RF st' (pre ++ olab l)) by (intros LS; eapply RF_frame; eassumption).
    destruct (epc e) as [| | |n [|x r]|n|n|n [|x r]|c|] eqn:Ep; try discriminate;
      try solve [brute E; inversion E; subst; apply G, lsame_nodes_eq; cbn; try reflexivity; try (eapply (map_upd_same nlast); [eassumption|reflexivity])].
    + (* the lock point changes the retained event of a node nobody is replaying from *)
      destruct (nth_error (nodes st) (mnode m)) as [nd|] eqn:En; [|discriminate]. destruct (holder nd) eqn:Eh; [discriminate|]. inversion E; subst. clear E G.
      intros s c' i n nd' k1 e1' Ec' Er Es En' Hl Ek1'. rewrite olab_none.
      destruct (RS s c' Ec') as [c [Ec [Sn Rp]]]. destruct (ES k1 e1' Ek1') as [e1 [Ek1 Ev]].
      cbn in En'. apply nth_error_upd_inv in En'. destruct En' as [[-> [-> _]]|[Nn En']].
      * exfalso. destruct (iR st I s c i (mnode m) Ec (Rp i Er) ltac:(congruence)) as [nd0 [En0 [Hh _]]]. rewrite En in En0. inversion En0; subst nd0. congruence.
      * eapply (R s c i n nd' k1 e1 Ec (Rp i Er)); [congruence|exact En'|congruence|exact Ek1].
    + apply otau_Some in E. destruct E as [E ->]. apply option_map_Some in E. destruct E as [x0 [E ->]]. apply G, lsame_nodes_eq. cbn. rewrite (send_nodes' _ _ _ _ E). reflexivity.
    + apply otau_Some in E. destruct E as [E ->]. apply option_map_Some in E. destruct E as [x0 [E ->]]. apply G, lsame_nodes_eq. cbn. rewrite (send_nodes' _ _ _ _ E). reflexivity.
  - (* Subscribe *)
    assert (ES : esame st st') by (intros k e' H; rewrite (proj1 (sub_em _ _ _ _ E)) in H; exists e'; auto).
    assert (NL : forall k0 e0, nth_error (emits st) k0 = Some e0 -> l = Some (LStart (TEmit k0)) -> forall n nd, nth_error (nodes st) n = Some nd -> nlast nd <> Some (eev e0)).
    { intros k0 e0 _ Hs. exfalso. eapply (no_label_start st (TSub s)); [exact Logic.I|exact E|exact Hs]. }
    unfold step_sub in E. destruct (nth_error (subs st) s) as [c|] eqn:Ec; [|discriminate].
    assert (G : rV st' = rV st -> lsame st st' -> RF st' (pre ++ olab l)) by (intros A B; eapply RF_frame; [exact R|apply rsub_eq, A|exact B|exact ES|exact NL]).
    destruct (spc c) eqn:Ep; try solve [brute E; inversion E; subst; (apply G; [rv_fin|apply lsame_nodes_eq; reflexivity])].
    + destruct (styps c) as [tys|]; [|discriminate]. destruct (nth_error tys i) as [ty|]; [|discriminate].
      destruct (with_node st ty) as [[st1 n]|] eqn:Ew; [|discriminate]. inversion E; subst. destruct (with_node_ps _ _ _ _ Ew) as [_ [_ [PL _]]].
      apply G; [unfold rV; cbn; rewrite <- (with_node_subs _ _ _ _ Ew); apply (map_upd_same fR _ s _ c); [rewrite (with_node_subs _ _ _ _ Ew); exact Ec|reflexivity]|apply lsame_eq, PL].
    + destruct (styps c) as [tys|]; [|discriminate]. destruct (nth_error (nodes st) n) as [nd|] eqn:En; [|discriminate].
      destruct (holder nd); [discriminate|]. inversion E; subst. clear E G. rewrite olab_none.
      set (c2 := match keep nd, nlast nd with true, Some l0 => _ | _, _ => _ end).
      assert (Rp : rpend c2 = rpend c ++ [true]) by (unfold c2; destruct (keep nd); [destruct (nlast nd)|]; reflexivity).
      assert (Sn : snodes c2 = snodes c ++ [n]) by (unfold c2; destruct (keep nd); [destruct (nlast nd)|]; reflexivity).
      intros s1 c' i1 n1 nd' k1 e1 Ec' Er Es En' Hl Ek1. cbn in Ek1.
      assert (NN : exists nd0, nth_error (nodes st) n1 = Some nd0 /\ nlast nd0 = nlast nd').
      { cbn in En'. apply nth_error_upd_inv in En'. destruct En' as [[-> [-> _]]|[N En']]; [exists nd; auto|exists nd'; auto]. }
      destruct NN as [nd0 [En0 Hl0]].
      cbn in Ec'. apply nth_error_upd_inv in Ec'. destruct Ec' as [[-> [-> _]]|[Ns Ec']].
      * rewrite Rp in Er. rewrite Sn in Es. apply nth_error_app_inv in Er. destruct Er as [Er|[Hi _]].
        -- assert (Li : (i1 < length (snodes c))%nat) by (rewrite <- (iLen st I s c Ec); apply nth_error_Some; congruence).
           rewrite nth_error_app1 in Es by exact Li. eapply (R s c i1 n1 nd0 k1 e1); try eassumption. congruence.
        -- (* the new replay: Subscribe has not returned *)
           destruct (a_fresh pre s k1) eqn:F; [|reflexivity]. exfalso. destruct (fresh_returned _ _ _ F) as [Rt _].
           pose proof (obS _ _ O s (spc c)) as N. unfold xS in N. rewrite nth_error_map, Ec in N. specialize (N eq_refl). rewrite Ep in N. cbn in N.
           apply tstat_started in N. destruct N. congruence.
      * eapply (R s1 c' i1 n1 nd0 k1 e1); try eassumption. congruence.
  - (* replay goroutine *)
    assert (ES : esame st st') by (intros k e' H; rewrite (proj1 (replay_em _ _ _ _ _ E)) in H; exists e'; auto).
    assert (NL : forall k0 e0, nth_error (emits st) k0 = Some e0 -> l = Some (LStart (TEmit k0)) -> forall n nd, nth_error (nodes st) n = Some nd -> nlast nd <> Some (eev e0)).
    { intros k0 e0 _ Hs. exfalso. eapply (no_label_start st (TReplay s i)); [exact Logic.I|exact E|exact Hs]. }
    unfold step_replay in E. destruct (nth_error (subs st) s) as [c|] eqn:Ec; [|discriminate].
    destruct (nth_error (rpend c) i) as [[|]|] eqn:Er0; try discriminate.
    destruct (nth_error (snodes c) i) as [n|]; [|discriminate]. destruct (nth_error (nodes st) n) as [nd|] eqn:En; [|discriminate].
    (* the shape of the state after the goroutine has finished *)
    assert (G : forall stx cx, subs stx = subs st \/ (exists it, subs stx = upd (subs st) s (push c it)) -> nodes stx = nodes st -> emits stx = emits st ->
              nth_error (subs stx) s = Some cx -> RF (set_node (set_sub stx s (c_rpend cx (upd (rpend cx) i false))) n (n_holder nd None)) (pre ++ olab l)).
    { intros stx cx Hs Hn He Hx. eapply RF_frame; [exact R| | |intros k e' H; cbn in H; rewrite He in H; exists e'; auto|exact NL].
      - intros s1 c' H. cbn in H. apply nth_error_upd_inv in H. destruct H as [[-> [-> _]]|[N H]].
        + exists c. split; [exact Ec|]. assert (X : rpend cx = rpend c /\ snodes cx = snodes c).
          { destruct Hs as [Hs|[it Hs]]; rewrite Hs in Hx; [rewrite Ec in Hx; inversion Hx; auto|].
            rewrite (nth_error_upd_eq _ _ _ _ Ec) in Hx. inversion Hx; subst cx. auto. }
          destruct X as [X1 X2]. cbn. split; [exact X2|]. intros i1 Hi. rewrite X1 in Hi. apply nth_error_upd_inv in Hi. destruct Hi as [[_ [X _]]|[_ Hi]]; [discriminate|exact Hi].
        + destruct Hs as [Hs|[it Hs]]; rewrite Hs in H; [exists c'; auto|]. rewrite nth_error_upd_neq in H by congruence. exists c'. auto.
      - apply lsame_nodes_eq. cbn. rewrite Hn. apply (map_upd_same nlast _ n _ nd); [exact En|reflexivity]. }
    destruct (keep nd); [destruct (nlast nd) as [lv|]|]; try solve [inversion E; subst; (apply (G st c); auto)].
    apply otau_Some in E. destruct E as [E ->]. apply option_map_Some in E. destruct E as [x [E ->]].
    destruct (nth_error (subs x) s) as [cx|] eqn:Ex.
    + apply (G x cx); [|apply (send_nodes' _ _ _ _ E)|apply (proj1 (send_emits _ _ _ _ E))|exact Ex].
      unfold send in E. rewrite Ec in E. destruct (closed c); [inversion E; subst; left; reflexivity|]. destruct (room c); [|discriminate]. inversion E; subst. right. exists (n, lv). reflexivity.
    + eapply RF_frame; [exact R|apply rsub_eq, (send_rv _ _ _ _ E)|apply lsame_nodes_eq; rewrite (send_nodes' _ _ _ _ E); reflexivity|exact ES|exact NL].
Qed.
